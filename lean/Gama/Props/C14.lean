/-
  C14 — Exclusions are reported and equal to deleting the excluded items.
  Property theorems only; helper lemmas live in Gama/Lemmas/Revise*.lean.

  Model: Gama/Model/Revise.lean (hand) over Gama/Gen/Revision.lean (REGENERATED from
  local_revision.{h,cpp}, network.{h,cpp}, float.h).  Specification tables the generated code is
  compared with: Gama/Model/ReviseSpec.lean.
-/
import Gama.Lemmas.ReviseView
import Gama.Lemmas.ReviseLoopCard
import Gama.Lemmas.ReviseSwap
import Gama.Lemmas.ReviseField
import Gama.Lemmas.ReviseAbsReport
import Gama.Lemmas.ReviseBridge
import Gama.Lemmas.ReviseSolve
import Gama.Lemmas.ReviseDeleted
import Gama.Lemmas.ProjectEquationsExample
import Mathlib.Analysis.SpecialFunctions.Sqrt
namespace Gama.Props.C14
open Gama Gama.Rev

variable {K : Type}

/-! ## revision is idempotent -/

/-- A forced second revision (`update(Points); revision_points(); revision_observations()`, which
    is what every removal triggers) changes nothing: statuses, active flags, cluster counts,
    `removed_points`/`removed_code`, `revised_obs_`, `removed_obs_`, `pocbod_`, `pocmer_` are the same;
    only the scratch list `undefined_xy_z_` (rebuilt from the points that are missing coordinates
    *now*; it has no reader in the code base) is empty afterwards. -/
theorem C14_revise_idempotent (n : Net K) : revise (revise n) = { revise n with undefined := [] } :=
  revise_revise n

/-! ## equal to deleting the excluded items

`deleteItems n e` is defined on the INPUT `n` from position flags `e` alone (no revision is run):
flagged coordinate groups lose their status, points with nothing left go, flagged observations go
together with their rows and columns of the cluster's covariance matrix (principal sub-matrix),
emptied clusters go.  `excluded r` reads the flags off a state `r`.  `adjustmentView` is what
`project_equations()` and `prepareProjectEquations()` read: points taking part (status, coordinates),
per non-empty cluster its kind, its active observations in order and the block `activeCov()`. -/

/-- Revision: the state after `revise` shows the adjustment exactly what the revised deleted input
    shows, and on the deleted input the revision finds nothing further to exclude: no status and no
    flag changes, nothing is recorded in `removed_points`, nothing in `rejected_observations()`. -/
theorem C14_equals_deletion_independent (n : Net K) :
    let d := deleteItems n (excluded (revise n))
    adjustmentView (revise n) = adjustmentView (revise d) ∧
    activeView (revise n) = activeView (revise d) ∧
    (revise d).pts = d.pts ∧ (revise d).cls.map (·.obs) = d.cls.map (·.obs) ∧
    (revise d).removed = [] ∧ (revise d).rejected = [] := by
  intro d
  have hd : d = deleteItems (revise n) (excluded (revise n)) := deleteItems_evolved n _ (evolved_revise n)
  have h := revise_deleteItems_self (revise n) (settled_revise n)
  simp only at h
  rw [← hd] at h
  exact ⟨h.1.symm, (activeView_of_adjustmentView _ _ h.1).symm, h.2⟩

/-- The same including the observations removed for their absolute terms: `exclude` = revision,
    `remove_huge_abs_terms()`, and the `revision_observations()` its `update(Observations)` triggers
    (which may silence a station left with fewer than two targets).  `rhs`, `bh` (the absolute
    terms and the homogenised member `b`) are arbitrary. -/
theorem C14_equals_deletion_independent_abs [Scalar K] (n : Net K) (tol : K) (rhs bh : List K) :
    let r := exclude n tol rhs bh
    let d := deleteItems n (excluded r)
    adjustmentView r = adjustmentView (revise d) ∧
    activeView r = activeView (revise d) ∧
    (revise d).pts = d.pts ∧ (revise d).cls.map (·.obs) = d.cls.map (·.obs) ∧
    (revise d).removed = [] ∧ (revise d).rejected = [] := by
  intro r d
  have hd : d = deleteItems r (excluded r) := deleteItems_evolved n _ (evolved_exclude n tol rhs bh)
  have h := revise_deleteItems_self r (settled_exclude n tol rhs bh)
  simp only at h
  rw [← hd] at h
  exact ⟨h.1.symm, (activeView_of_adjustmentView _ _ h.1).symm, h.2⟩

/-! ### "the results are a function of the view"

`project_equations()` walks the clusters and, inside a cluster, `revised_obs_` (= the active
observations in order); each step hands out unknown indices, appends a row and a right-hand side; what
it reads of the network is the observation, the cluster kind / orientation slot, and `PD[role]` for the
roles of the observation (the regenerated requirement table lists the roles looked up).  `assemble step
loc init` is that loop for an ARBITRARY step function (C05's regenerated linearisation is one instance).
The covariance blocks are `Cluster::activeCov()`, C10's `Cov.activeCov`. -/

/-- For every step function: the assembly loop on a revised state equals the loop run on its active
    view alone (points that take part; non-empty clusters with their active observations). -/
theorem C14_assembly_reads_active_view {σ τ : Type}
    (step : σ × τ → Obs K → List (Option (Pt K)) → σ × τ) (loc : Bool → τ) (init : σ) (n : Net K) :
    assemble step loc init (revise n) = assembleView step loc init (activeView (revise n)) :=
  assemble_eq_view step loc init (revise n) (fun c hc => ((settled_revise n).2 c hc).1)

/-- The block `Cluster::activeCov()` returns for a cluster (C10's model of the C++ copy loop on the
    packed band storage, all band widths) has the entries of `covView`, i.e. of the principal
    sub-matrix on the active observations, which by `C14_equals_deletion_independent` is the whole
    covariance matrix of the deleted cluster. -/
theorem C14_active_cov_is_view [Zero K] (cm : Cov.CovMat K) (fl : List Bool) :
    let R := Cov.activeCov cm (fl.map fun a => ⟨a, 1⟩)
    let V := covView (fun i j => cm.get i j) fl
    R.WF ∧ R.dim = V.length ∧
    ∀ i j, 1 ≤ i → i ≤ R.dim → 1 ≤ j → j ≤ R.dim → R.get i j = (V.getD (i - 1) []).getD (j - 1) 0 := by
  intro R V
  obtain ⟨hw, hd, _, hget⟩ := Cov.activeCov_submatrix cm (fl.map fun a => ⟨a, 1⟩)
  simp only [activeIdx_eq_keptIdx, List.size_toArray] at hd hget
  have hV : V.length = (keptIdx (fl.map (!·))).length := by simp [V, covView]
  refine ⟨hw, by rw [hV]; exact hd, ?_⟩
  intro i j hi1 hi hj1 hj
  have hi' : i ≤ (keptIdx (fl.map (!·))).length := by rw [← hd]; exact hi
  have hj' : j ≤ (keptIdx (fl.map (!·))).length := by rw [← hd]; exact hj
  rw [hget i j hi1 hi' hj1 hj', covView_entry _ 0 fl i j hi1 hi' hj1 hj']
  simp [List.getD_eq_getElem?_getD]

/-- Hence: whatever is computed by the assembly loop (design matrix, right-hand side, unknowns) from
    the state after the exclusions equals what the same loop computes from the revised deleted input;
    and `adjust`, ANY function of that and of the covariance blocks, gives equal results.  What is NOT
    proved here and stays a named hypothesis of the end-to-end claim: that gama's linearisation visitor
    and solver are such a step function / such a function (C05, C01; checked numerically by the oracle). -/
theorem C14_results_equal_deletion [Scalar K] {σ τ ρ : Type}
    (step : σ × τ → Obs K → List (Option (Pt K)) → σ × τ) (loc : Bool → τ) (init : σ)
    (adjust : σ → List (List (List K)) → ρ) (n : Net K) (tol : K) (rhs bh : List K) :
    let r := exclude n tol rhs bh
    let d := revise (deleteItems n (excluded r))
    adjust (assemble step loc init r) ((adjustmentView r).2.map (·.2.2)) =
    adjust (assemble step loc init d) ((adjustmentView d).2.map (·.2.2)) := by
  intro r d
  obtain ⟨h1, h2, _⟩ := C14_equals_deletion_independent_abs n tol rhs bh
  have e1 := assemble_eq_view step loc init r (fun c hc => ((settled_exclude n tol rhs bh).2 c hc).1)
  have e2 := assemble_eq_view step loc init d (fun c hc => ((settled_revise _).2 c hc).1)
  rw [e1, e2]
  show adjust (assembleView step loc init (activeView r)) _ = adjust (assembleView step loc init (activeView d)) _
  rw [show activeView r = activeView d from h2, show adjustmentView r = adjustmentView d from h1]

/-! ## what is excluded, and why -/

/-- The generated requirement table of `LocalRevision` says exactly what the specification says:
    an observation survives iff every role is a point of the network, the coordinate groups its
    geometry reads are known and the groups that must take part are active. -/
theorem C14_requirements_are_spec (pts : List (Pt K)) (o : Obs K) : reqOk pts o = Spec.usable pts o :=
  reqOk_eq_usable pts o

/-- **The requirements are symmetric in the two ends.**  For every observation type with a station end
    and a target end (direction, distance, height difference, slope distance, zenith angle, coordinate
    differences, azimuth — all types but `x`, `y`, `z` and `angle`) the REGENERATED row of
    `LocalRevision` has the shape `[(from, f), (to, f)]`: the same predicates, in the same order, are
    required of both ends (`decide` on the generated table).  What that means: the verdict is the
    conjunction of one and the same test on the two end points, so the same observation written from the
    other end gets the same verdict.  The types for which "written from the other end" is the same
    measurement are distance and slope distance (value unchanged) and height / coordinate differences
    (value negated): `swapNegates`. -/
theorem C14_requirements_symmetric (t : ObsType) (ht : twoEnded t = true) :
    (∃ f : List Flag, Gen.requirements t = [(.from, f), (.to, f)]) ∧
    (∀ (v : Obs K → K) (pts : List (Pt K)) (o : Obs K), o.ty = t →
      reqOk pts (swapEnds v o) = reqOk pts o ∧
      (localRev pts (swapEnds v o)).active = (localRev pts o).active) ∧
    (swappable t = true → (swapNegates t).isSome = true) := by
  obtain ⟨f, hf⟩ := Option.isSome_iff_exists.mp (symFlags_isSome t ht)
  refine ⟨⟨f, requirements_of_symFlags hf⟩, fun v pts o ho => ?_, fun h => by cases t <;> simp_all [swappable, swapNegates]⟩
  have h := reqOk_swapEnds v pts o (ho ▸ ht)
  exact ⟨h, by simp only [localRev, h]; rfl⟩

/-- SOUND AND COMPLETE, repeated readings included.  A revision maps every observation of a cluster by
    one function `g`, and the result is passive **iff** the observation was passive already, or is not
    usable (specification tables over the regenerated requirement table: a role is not a point of the
    network, a coordinate group its geometry reads is unknown, a group that must take part does not),
    or it is a direction of a `StandPoint` cluster in which FEWER THAN TWO DISTINCT TARGETS HAVE AT
    LEAST ONE active usable reading: `usableTargetSet pts c.obs` is a `Finset` on the input (so
    neither the order of the readings, nor how often a target is read, nor which of its readings are
    passive can matter), its members are characterised in the second conjunct.  The count is the one
    the loop AS CODED computes (`activeDirections`: regenerated body, `std::set` in insertion order). -/
theorem C14_excluded_iff_reason (pts : List (Pt K)) (c : Cluster K) :
    (∃ g : Obs K → Obs K, (reviseCl pts c).obs = c.obs.map g ∧
      ∀ o, (g o).active = false ↔
        (o.active = false ∨ Spec.usable pts o = false ∨
         (c.stand = true ∧ o.ty = .direction ∧ (usableTargetSet pts c.obs).card < 2))) ∧
    (∀ t, t ∈ usableTargetSet pts c.obs ↔
      ∃ o ∈ c.obs, o.ty = .direction ∧ o.active = true ∧ Spec.usable pts o = true ∧ o.to = t) ∧
    activeDirections (c.obs.map (localRev pts)) = (usableTargetSet pts c.obs).card := by
  refine ⟨⟨_, reviseCl_obs pts c, fun o => ?_⟩, mem_usableTargetSet pts c.obs, ?_⟩
  · rw [← usableTargets_eq_card, ← distinctTargets_localRev]
    exact ⟨passive_reason pts c o, reason_passive pts c o⟩
  · rw [activeDirections_eq, distinctTargets_localRev, usableTargets_eq_card]

/-- **The direction-set rule, exactly, for the loop as coded.**  `revision_observations()` walks
    `sp->observation_list` with `std::set<PointID> targets` and `int active_directions` (the loop body
    and the test `active_directions < 2` are REGENERATED: `Gen.targetsBody`, `Gen.standCmp`,
    `Gen.standBound`).  For EVERY list of observations — any order of the readings, any targets read
    repeatedly, any pattern of passive readings (`A, A, B` or `A, B, A` with the first reading of `A`
    passive included):
    (1) the counter ends as the number of distinct targets having at least one ACTIVE reading;
    (2) that set is exactly `{t | ∃ direction o in the list, o active, o.to = t}`;
    (3) the directions of the set are made passive iff the cluster is a `StandPoint` and that number is
        below two — otherwise the cluster is left alone;
    (4) the counter does not depend on the order of the list. -/
theorem C14_direction_set_rule_exact (c : Cluster K) :
    activeDirections c.obs = (activeTargetSet c.obs).card ∧
    (∀ t, t ∈ activeTargetSet c.obs ↔ ∃ o ∈ c.obs, o.ty = .direction ∧ o.active = true ∧ o.to = t) ∧
    standRule c =
      (if c.stand = true ∧ (activeTargetSet c.obs).card < 2 then { c with obs := c.obs.map passDir } else c) ∧
    (∀ os' : List (Obs K), os'.Perm c.obs → activeDirections os' = activeDirections c.obs) := by
  refine ⟨activeDirections_eq_card c.obs, mem_activeTargetSet c.obs, standRule_card c, fun os' h => ?_⟩
  rw [activeDirections_eq_card, activeDirections_eq_card, activeTargetSet_perm h]

/-! ## every exclusion is recorded -/

/-- Code path `set_unused_xy` / `set_unused_z` in `revision_points`: a coordinate group that took
    part before and does not afterwards is in `removed_points` with `rm_missing_xy` (1) /
    `rm_missing_z` (2).  (Uses the generated `recordMissingXY/Z`: a dropped `removed()` call in the
    C++ breaks this proof.) -/
theorem C14_reported_points (n : Net K) (p : Pt K) (hp : p ∈ n.pts) :
    (p.sxy.active = true → (revisePt p).sxy.active = false → (p.id, 1) ∈ (revise n).removed) ∧
    (p.sz.active = true → (revisePt p).sz.active = false → (p.id, 2) ∈ (revise n).removed) :=
  ⟨fun ha hu => reported_xy n p hp (missingXY_of p ha hu),
   fun ha hu => reported_z n p hp (missingZ_of p ha hu)⟩

/-- … and nothing else is recorded by a revision. -/
theorem C14_reported_points_only (n : Net K) (r : Nat × Nat) (h : r ∈ (revise n).removed) :
    r ∈ n.removed ∨ ∃ p ∈ n.pts, r.1 = p.id ∧
      ((r.2 = 1 ∧ missingXY p = true) ∨ (r.2 = 2 ∧ missingZ p = true)) :=
  removed_only n r h

/-- Every passive observation is in `rejected_observations()`, every active one in `revised_obs_`;
    `pocmer_` (the reported number of observations / project equations) is the number of active
    observations, and with the rejected ones they add up to all observations; every cluster's
    `activeObs()` is its number of active observations. -/
theorem C14_reported_observations (n : Net K) :
    (∀ c ∈ (revise n).cls, ∀ o ∈ c.obs, o.active = false → o ∈ (revise n).rejected) ∧
    (∀ c ∈ (revise n).cls, ∀ o ∈ c.obs, o.active = true → o ∈ (revise n).revised) ∧
    (revise n).pocmer = (revise n).revised.length ∧
    (revise n).pocmer + (revise n).rejected.length = (allObs (revise n).cls).length ∧
    (∀ c ∈ (revise n).cls, c.actObs = (c.obs.filter (·.active)).length) :=
  ⟨fun c hc o ho h => rejected_complete n c hc o ho h,
   fun c hc o ho h => revised_complete n c hc o ho h,
   (counts_revise n).1, (counts_revise n).2,
   fun c hc => actObs_revise n c hc⟩

/-! ## absolute terms -/

/-- The generated `TestAbsTermVisitor` formulas are the specified positional misclosures
    (millimetres; angular: `|b·d/(10·R2G)|`, d horizontal, slope distance for zenith angles; linear:
    `|computed − observed|·1000`), and `d0` is the horizontal distance station–target. -/
theorem C14_abs_formula_is_spec [Scalar K] (t : ObsType) (c : AbsCtx K) (a b : Bool) :
    Gen.absValue t c = Spec.misclosure t c ∧ Gen.absD0 a b c = Spec.d0 a b c :=
  ⟨absValue_eq_spec t c, absD0_eq_spec a b c⟩

section field
variable {F : Type} [Field F] [LinearOrder F] [IsStrictOrderedRing F] (sq : F → F)

/-- Homogenisation as coded for an observation without correlations (`prepareProjectEquations`:
    `C = stdev²/(m0·m0)`, `Adj::choldec` → `sqrt C`, forward substitution → `b/sqrt C`) multiplies the
    absolute term by the weight factor `m0/stdev` (= `sqrt(weight_obs)`), over any ordered field whose
    `sqrt` inverts squaring on the non-negatives. -/
theorem C14_homogenisation_uncorrelated (hsq : ∀ x : F, 0 ≤ x → sq (x * x) = x) (m0 : F) (hm : 0 < m0)
    (stdevs rhs : List F) (hs : ∀ s ∈ stdevs, 0 < s) :
    letI : Scalar F := fsc sq
    homDiag m0 stdevs rhs = List.zipWith (fun s r => r * weightFactor m0 s) stdevs rhs :=
  homDiag_eq sq hsq m0 hm stdevs rhs hs

/-- **The tree's test, exactly** (`Gen.absVec`, the comparison operator and the formulas are
    regenerated; all networks, all vectors).
    (1) `remove_huge_abs_terms()` does nothing unless the gate is open, else it walks the clusters with the
        CONSULTED vector (`consulted rhs bh` = the member `b`, homogenised by then, as the tree reads now);
    (2) the gate `huge_abs_terms()` was computed from the absolute terms: open iff some revised
        observation has a positional misclosure beyond `tol_abs` and a non-zero term;
    (3) inside a cluster the k-th active observation is paired with the next entry;
    (4) an active observation whose absolute term is `r` and whose consulted entry is `r·f`,
        `f = consultedFactor Gen.absVec w` (`w = m0/stdev > 0` for an uncorrelated observation,
        `C14_homogenisation_uncorrelated`), becomes passive **iff**
        `tol_abs < f · misclosure(r)` for direction / angle / azimuth / zenith angle,
        `tol_abs < misclosure(r)` for the other types, and `r ≠ 0` (strict: the boundary stays). -/
theorem C14_abs_term_tree_iff :
    letI : Scalar F := fsc sq
    (∀ (n : Net F) (tol : F) (rhs bh : List F),
      (removeHuge n tol rhs bh).cls =
        if hugeFlag n tol rhs then markCls n.pts tol n.cls (consulted rhs bh) else n.cls) ∧
    (∀ (n : Net F) (tol : F) (rhs : List F),
      hugeFlag n tol rhs = true ↔ ∃ ob ∈ n.revised.zip rhs,
        tol < Spec.misclosure ob.1.ty (absCtx n.pts ob.1 ob.2) ∧ ob.2 ≠ 0) ∧
    (∀ (pts : List (Pt F)) (tol : F) (os : List (Obs F)) (v : List F),
      (markObs pts tol os v).1 = (Spec.pairUp os v).map (Spec.applyMark pts tol)) ∧
    (∀ (pts : List (Pt F)) (tol : F) (o : Obs F) (r w : F), o.active = true → 0 < w →
      ((Spec.applyMark pts tol (o, some (r * Spec.consultedFactor Gen.absVec w))).active = false ↔
        tol < (if Spec.angular o.ty then Spec.consultedFactor Gen.absVec w else 1) *
                Spec.misclosure o.ty (absCtx pts o r) ∧ r ≠ 0)) := by
  letI : Scalar F := fsc sq
  refine ⟨?_, ?_, ?_, ?_⟩
  · intro n tol rhs bh
    unfold removeHuge removeHugeWith consulted
    split <;> rfl
  · intro n tol rhs
    unfold hugeFlag
    rw [List.any_eq_true]
    constructor
    · rintro ⟨ob, hob, h⟩
      exact ⟨ob, hob, (outlying_plain sq n.pts tol ob.1 ob.2).mp h⟩
    · rintro ⟨ob, hob, h⟩
      exact ⟨ob, hob, (outlying_plain sq n.pts tol ob.1 ob.2).mpr h⟩
  · intro pts tol os v
    exact markObs_eq pts tol os v
  · intro pts tol o r w ha hw
    have hf : 0 < Spec.consultedFactor Gen.absVec w := by
      unfold Spec.consultedFactor
      cases Gen.absVec
      · exact hw
      · show (0 : F) < ((1 : ℕ) : F); simp
    rw [← outlying_scaled sq pts tol o r _ hf]
    unfold Spec.applyMark
    cases h : outlying pts tol o (r * Spec.consultedFactor Gen.absVec w) <;> simp [ha, h]

/-- **C14-F1 as a theorem.**  The property says "excluded iff the positional misclosure of the
    absolute term exceeds tol-abs".  For an angular observation with a positive lever (distance to the
    target) whose consulted entry carries the factor `f = consultedFactor Gen.absVec w`: the tree's
    verdict is the property's verdict for every absolute term and every tolerance **iff** `f = 1` — with
    the tree as it reads now (`Gen.absVec = .memberB`, `f = w = m0/stdev`) iff the observation's
    standard deviation equals sigma-apr. -/
theorem C14_F1_coincides_iff_unit_weight (pts : List (Pt F)) (o : Obs F) (w : F) (hw : 0 < w)
    (ht : Spec.angular o.ty = true) :
    letI : Scalar F := fsc sq
    0 < Spec.lever o.ty (absCtx pts o 0) →
    (((∀ r tol : F, outlying pts tol o (r * Spec.consultedFactor Gen.absVec w) = outlying pts tol o r) ↔
        Spec.consultedFactor Gen.absVec w = 1) ∧
     (Gen.absVec = .memberB → Spec.consultedFactor Gen.absVec w = w)) := by
  letI : Scalar F := fsc sq
  intro hl
  have hf : 0 < Spec.consultedFactor Gen.absVec w := by
    unfold Spec.consultedFactor
    cases Gen.absVec
    · exact hw
    · show (0 : F) < ((1 : ℕ) : F); simp
  refine ⟨scaled_test_coincides_iff sq pts o _ hf ht hl, ?_⟩
  intro h
  rw [h]
  rfl

end field

/-! ### C14-F1: the witness with stdev ≠ sigma-apr

`LocalNetwork::test_abs_term` hands the member `b` to the visitor.  Inside `project_equations()`
(where the flag `huge_abs_terms()` is computed) `b` still equals `rhs_`; when `OutlyingAbsoluteTerms`
and `remove_huge_abs_terms` call `test_abs_term` later, `prepareProjectEquations()` has already
homogenised `b` (entry · sigma-apr / stdev for uncorrelated observations,
`C14_homogenisation_uncorrelated`).  Witness (exact arithmetic, two directions A(0,0) → B(1,0),
tol_abs = 1000 mm, sigma-apr 10): absolute terms 700000 cc (stdev 50, weight factor 1/5, misclosure
≈ 1099.6 mm) and 300000 cc (stdev 1, weight factor 10, ≈ 471.2 mm).  The first — beyond tol_abs —
stays, the second — within — is removed.  Replayed on gama-local:
corpus/C14/f1-weighted-blunder.json (known finding C14-F1).  The one-line patch
notes/proposed/C14-abs-term-rhs.diff (hand `rhs_` to the visitor) is not applied because it changes a
pinned test; with it `Gen.absVec = .rhs` is regenerated and the first disjunct holds. -/

def witnessPts : List (Pt Rat) :=
  [{ id := 1, sxy := .fixed, sz := .unused, hxy := true, hz := false, x := 0, y := 0, z := 0 },
   { id := 2, sxy := .fixed, sz := .unused, hxy := true, hz := false, x := 1, y := 0, z := 0 }]
def witnessObs : List (Obs Rat) :=
  [{ ty := .direction, frm := 1, «to» := 2, fs := 0, active := true, value := 0 },
   { ty := .direction, frm := 1, «to» := 2, fs := 0, active := true, value := 0 }]
def witnessNet : Net Rat :=
  { pts := witnessPts, cls := [{ stand := true, obs := witnessObs, actObs := 2, cov := fun i j => if i = j then 1 else 0 }], removed := [],
    undefined := [], revised := witnessObs, rejected := [], pocbod := 2, pocmer := 2 }
/-- the homogenised vector of the witness: absolute terms times `weightFactor 10 stdev` -/
def witnessBh : List Rat := List.zipWith (fun s r => r * weightFactor 10 s) [50, 1] [700000, 300000]

/-- Either the tree consults `rhs_` (factor 1 for every observation), or the property fails on the
    witness: with the homogenised vector the observation whose positional misclosure exceeds
    `tol_abs` stays and the one within `tol_abs` is removed. -/
theorem C14_F1_witness :
    Gen.absVec = .rhs ∨
    ((removeHuge witnessNet 1000 [700000, 300000] witnessBh).cls.map (fun c => c.obs.map (·.active))
        = [[true, false]] ∧
     (1000 : Rat) < Spec.misclosure .direction (absCtx witnessPts witnessObs[0] 700000) ∧
     ¬ ((1000 : Rat) < Spec.misclosure .direction (absCtx witnessPts witnessObs[1] 300000)) ∧
     weightFactor (10 : Rat) 50 ≠ 1 ∧ weightFactor (10 : Rat) 1 ≠ 1) := by
  first
    | exact Or.inl rfl
    | exact Or.inr (by decide +kernel)

/-! ### non-vacuity: a network with an isolated point and a single-direction station -/

/-- points 1, 2 fixed, 3 adjusted, 4 adjusted without coordinates (isolated); station 1 observes
    directions to 2 and 3 and a distance to 3; station 3 a single direction to 1, a distance to 2 and
    a distance to the unknown id 9 -/
def exNet : Net Rat :=
  { pts := [{ id := 1, sxy := .fixed, sz := .unused, hxy := true, hz := false, x := 0, y := 0, z := 0 },
            { id := 2, sxy := .fixed, sz := .unused, hxy := true, hz := false, x := 3, y := 4, z := 0 },
            { id := 3, sxy := .free, sz := .unused, hxy := true, hz := false, x := 3, y := 0, z := 0 },
            { id := 4, sxy := .free, sz := .free, hxy := false, hz := false, x := 0, y := 0, z := 0 }],
    cls := [{ stand := true, actObs := 0, cov := fun i j => if i = j then 1 else 0, obs :=
              [{ ty := .direction, frm := 1, «to» := 2, fs := 0, active := true, value := 0 },
               { ty := .direction, frm := 1, «to» := 3, fs := 0, active := true, value := 1 },
               { ty := .distance, frm := 1, «to» := 3, fs := 0, active := true, value := 3 }] },
            { stand := true, actObs := 0, cov := fun i j => if i = j then 1 else 0, obs :=
              [{ ty := .direction, frm := 3, «to» := 1, fs := 0, active := true, value := 0 },
               { ty := .distance, frm := 3, «to» := 2, fs := 0, active := true, value := 4 },
               { ty := .distance, frm := 3, «to» := 9, fs := 0, active := true, value := 7 }] }],
    removed := [], undefined := [], revised := [], rejected := [], pocbod := 0, pocmer := 0 }

example : (revise exNet).removed = [(4, 1), (4, 2)] := by decide
example : (revise exNet).cls.map (fun c => c.obs.map (·.active)) = [[true, true, true], [false, true, false]] := by decide
example : ((revise exNet).pocbod, (revise exNet).pocmer, (revise exNet).rejected.length) = (3, 4, 2) := by decide
example : (revise exNet).cls.map (·.actObs) = [3, 1] := by decide
/-- the flags read off the revised state, and the input with those items deleted -/
example : excluded (revise exNet) =
    { xy := [false, false, false, true], z := [true, true, true, true],
      obs := [[false, false, false], [true, false, true]] } := by decide
example : (deleteItems exNet (excluded (revise exNet))).pts.map (·.id) = [1, 2, 3] ∧
    (deleteItems exNet (excluded (revise exNet))).cls.map (fun c => c.obs.length) = [3, 1] := by decide
example : (activeView (revise exNet)).2.map (fun c => c.2.length) = [3, 1] := by decide
/-- completeness, instance: station 3 has one usable direction target; its direction is passive -/
example : exNet.cls.map (fun c => Spec.usableTargets exNet.pts c.obs) = [2, 1] := by decide
/-- repeated readings: station 1 reads A=2, A=2, B=3 and the FIRST reading of A is passive (a removed
    blunder); likewise A, B, A.  Two distinct targets have an active reading: the loop as coded counts 2,
    the set stays, and a revision keeps the three active readings. -/
def repObs (order : List (Nat × Bool)) : List (Obs Rat) :=
  order.map (fun q => { ty := .direction, frm := 1, «to» := q.1, fs := 0, active := q.2, value := 0 })
def repNet (order : List (Nat × Bool)) : Net Rat :=
  { exNet with cls := [{ stand := true, actObs := 0, cov := fun _ _ => 0, obs := repObs order }] }
example : ((repNet [(2, false), (2, true), (3, true)]).cls.map fun c => activeDirections c.obs) = [2] := by decide
example : ((repNet [(2, false), (3, true), (2, true)]).cls.map fun c => activeDirections c.obs) = [2] := by decide
example : ((repNet [(2, false), (2, false), (3, true)]).cls.map fun c => activeDirections c.obs) = [1] := by decide
example : (revise (repNet [(2, false), (2, true), (3, true)])).cls.map (fun c => c.obs.map (·.active)) = [[false, true, true]] := by
  decide
example : (revise (repNet [(2, false), (3, true), (2, true)])).cls.map (fun c => c.obs.map (·.active)) = [[false, true, true]] := by
  decide
example : (revise (repNet [(2, false), (2, false), (3, true)])).cls.map (fun c => c.obs.map (·.active)) = [[false, false, false]] := by
  decide
/-- `std::set` in insertion order after the loop -/
example : ((repNet [(3, true), (2, false), (2, true), (3, true)]).cls.map fun c => (countTargets c.obs).targets) = [[3, 2]] := by decide
/-- a distance from the adjusted point 3 to a point 5 that has coordinates but no status (listed with x, y
    only): dropped, and dropped as well when written 5 → 3 -/
def unusedPts : List (Pt Rat) :=
  exNet.pts ++ [{ id := 5, sxy := .unused, sz := .unused, hxy := true, hz := false, x := 7, y := 7, z := 0 }]
example : (localRev unusedPts { ty := .distance, frm := 3, «to» := 5, fs := 0, active := true, value := 8 }).active = false ∧
    (localRev unusedPts (swapEnds (·.value) { ty := .distance, frm := 3, «to» := 5, fs := 0, active := true, value := 8 })).active = false ∧
    (localRev unusedPts { ty := .distance, frm := 3, «to» := 2, fs := 0, active := true, value := 4 }).active = true ∧
    (localRev unusedPts (swapEnds (·.value) { ty := .distance, frm := 3, «to» := 2, fs := 0, active := true, value := 4 })).active = true := by
  decide
/-- rows/columns of a correlated block: observations 1 and 3 of three stay -/
example : covView (fun i j => (10 * i + j : Nat)) [true, false, true] = [[11, 13], [31, 33]] := by decide
example : (deleteCl { stand := false, actObs := 0, cov := fun i j => (10 * i + j : Nat), obs :=
      [{ ty := .distance, frm := 1, «to» := 2, fs := 0, active := true, value := 0 },
       { ty := .distance, frm := 1, «to» := 3, fs := 0, active := true, value := 0 },
       { ty := .distance, frm := 2, «to» := 3, fs := 0, active := true, value := 0 }] } [false, true, false]).cov 2 1 = 31 := by
  decide
/-- `C10`'s packed `activeCov` on a band-1 matrix of dimension 4 against `covView` -/
example : (Cov.activeCov (K := Int) ⟨4, 1, #[4, 1, 5, 1, 6, 1, 7]⟩ ([true, false, true, true].map fun a => ⟨a, 1⟩)).toDense
    = (covView (fun i j => (⟨4, 1, #[4, 1, 5, 1, 6, 1, 7]⟩ : Cov.CovMat Int).get i j) [true, false, true, true]).flatten := by
  decide
/-- boundary: a distance A(0,0) → B(1,0) observed as 2 m has misclosure exactly 1000 mm: it stays for
    `tol_abs = 1000` (strict comparison) and goes for `tol_abs = 999` -/
example : outlying witnessPts (1000 : Rat) { ty := .distance, frm := 1, «to» := 2, fs := 0, active := true, value := 2 } 1 = false := by
  decide +kernel
example : outlying witnessPts (999 : Rat) { ty := .distance, frm := 1, «to» := 2, fs := 0, active := true, value := 2 } 1 = true := by
  decide +kernel
/-- an abs-term removal that leaves a station with one target: `exclude` silences the other direction too -/
example : (exclude witnessNet 1000 [700000, 300000] witnessBh).cls.map (fun c => c.obs.map (·.active)) = [[false, false]] := by
  decide +kernel
/-- hypotheses of the field theorems are satisfiable: ℝ with `Real.sqrt`; weight factors 1/5 and 10 are positive -/
example : ∀ x : ℝ, 0 ≤ x → Real.sqrt (x * x) = x := fun _ h => Real.sqrt_mul_self h
example : (0 : Rat) < weightFactor 10 50 ∧ Spec.angular .direction = true ∧
    (0 : Rat) < Spec.lever .direction (absCtx witnessPts witnessObs[0] 0) := by decide +kernel
/-- an assembly step (here: count rows, collect the ids of the points looked up) -/
example : assemble (σ := Nat × List Nat) (τ := Unit)
    (fun st _ ps => ((st.1.1 + 1, st.1.2 ++ ps.filterMap (·.map (·.id))), ())) (fun _ => ()) (0, []) (revise exNet)
    = (4, [1, 2, 1, 3, 1, 3, 3, 2]) := by decide

/-! ## round 7 — the absolute-term stage is reported; the deleted input is stable; one revision rule;
     the network-level solution -/

/-- **What `remove_huge_abs_terms()` removes is what the program lists.**  `s` = the state after the
    revision, `r = exclude …` = the state gama-local adjusts.  `absRows` are the rows of the table
    "Outlying absolute terms" as `OutlyingAbsoluteTerms` prints them (nothing when the gate
    `huge_abs_terms()` is closed; else the 1-based number `i` and the observation for every `i` with
    `test_abs_term(i) ≠ 0`, `absTerms`), printed by gama-local right before `remove_huge_abs_terms()`.
    (1) The observations that are active before the stage and passive after it are EXACTLY the
        observations of those rows, in order (so: made passive by the stage ⇔ its `absTerms` entry is
        non-zero, i.e. its consulted entry is beyond tol-abs, and the gate is open);
    (2) each of them is in `rejected_observations()` (`removed_obs_`, rebuilt by the
        `revision_observations()` that `update(Observations)` triggers) of the adjusted state;
    (3)–(7) for the adjusted state: passive ⇒ in `removed_obs_`, active ⇒ in `revised_obs_`, `pocmer_`
        counts the active ones, `pocmer_ + #removed_obs_ = #observations`, `activeObs()` per cluster. -/
theorem C14_reported_abs [Scalar K] (n : Net K) (tol : K) (rhs bh : List K) :
    let s := revise n
    let r := exclude n tol rhs bh
    madePassive (allObs s.cls) (allObs (removeHuge s tol rhs bh).cls) =
      (absRows s tol rhs bh).map (fun q => (q.2, { q.2 with active := false })) ∧
    (∀ q ∈ absRows s tol rhs bh, ({ q.2 with active := false } : Obs K) ∈ r.rejected) ∧
    (∀ c ∈ r.cls, ∀ o ∈ c.obs, o.active = false → o ∈ r.rejected) ∧
    (∀ c ∈ r.cls, ∀ o ∈ c.obs, o.active = true → o ∈ r.revised) ∧
    r.pocmer = r.revised.length ∧
    r.pocmer + r.rejected.length = (allObs r.cls).length ∧
    (∀ c ∈ r.cls, c.actObs = (c.obs.filter (·.active)).length) := by
  intro s r
  obtain ⟨h1, h2⟩ := reported_abs n tol rhs bh
  obtain ⟨h3, h4, h5, h6, h7, _⟩ := revisionObservations_reports (removeHuge (revise n) tol rhs bh)
  exact ⟨h1, h2, h3, h4, h5, h6, h7⟩

/-- … and the rows are read off `absTerms` (the executed listing): without their numbers they are the
    revised observations whose consulted entry is outlying, when the gate is open. -/
theorem C14_abs_rows_are_outlying [Scalar K] (n : Net K) (tol : K) (rhs bh : List K) :
    (absRows n tol rhs bh).map (·.2) =
      if hugeFlag n tol rhs then
        ((n.revised.zip (consulted rhs bh)).filter (fun q => outlying n.pts tol q.1 q.2)).map (·.1)
      else [] :=
  absRows_obs n tol rhs bh

/-- **Stability: on the input with the excluded items deleted the absolute-term stage excludes nothing
    more.**  `fl` marks, per entry of `revised_obs_` of the full input (= per row of the system), the
    observations that are no longer active in the adjusted state.  If the vectors of the deleted input
    are the kept entries of the vectors of the full input — `rhs'` for the gate and the CONSULTED vector
    (`consulted`: the member `b`, homogenised, as the tree reads now — known finding C14-F1) for the
    walk — then `revised_obs_` of the deleted input is the kept part of the full input's and
    `remove_huge_abs_terms()` leaves the revised deleted input as it is.
    For `rhs_` the hypothesis is "the absolute term of an observation depends on that observation and
    its points only"; for the homogenised `b` it holds in clusters without correlations
    (`C14_abs_stage_stable_uncorrelated`) and FAILS in general for correlated blocks (the Cholesky
    factor of a principal sub-matrix is not the sub-matrix of the factor; replay
    corpus/C14/f1-correlated-block.gkf) — there what is needed, and suffices by the same proof, is
    that no kept observation is outlying against its NEW homogenised entry. -/
theorem C14_abs_stage_stable [Scalar K] (n : Net K) (tol : K) (rhs bh rhs' bh' : List K) :
    let s := revise n
    let r := exclude n tol rhs bh
    let d := deleteItems n (excluded r)
    let fl := droppedMask (allObs s.cls) (allObs r.cls)
    rhs' = dropFlagged rhs fl → consulted rhs' bh' = dropFlagged (consulted rhs bh) fl →
    (revise d).revised = dropFlagged s.revised fl ∧
    removeHuge (revise d) tol rhs' bh' = revise d :=
  removeHuge_deleted_stable n tol rhs bh rhs' bh'

/-- Clusters without correlations: the homogenised vector of the deleted input IS the kept part of the
    full input's (`homDiag`: every entry is computed from its own standard deviation and absolute term),
    so the stage is stable whichever vector the tree consults. -/
theorem C14_abs_stage_stable_uncorrelated [Scalar K] (n : Net K) (tol m0 : K) (stdevs rhs : List K) :
    let bh := homDiag m0 stdevs rhs
    let s := revise n
    let r := exclude n tol rhs bh
    let d := deleteItems n (excluded r)
    let fl := droppedMask (allObs s.cls) (allObs r.cls)
    removeHuge (revise d) tol (dropFlagged rhs fl) (homDiag m0 (dropFlagged stdevs fl) (dropFlagged rhs fl)) = revise d := by
  intro bh s r d fl
  refine (removeHuge_deleted_stable n tol rhs bh _ _ rfl ?_).2
  unfold consulted consultedOf
  cases Gen.absVec
  · exact (dropFlagged_zipWith (homEntry m0) stdevs rhs _).symm
  · rfl

/-- **ONE REVISION RULE.**  `PE.revise` — the first step of the executed model of
    `project_equations()` (`drv_pe`; hand-written `MinX.isRevised` of C08) — and C14's `revise`
    (regenerated requirement table, regenerated target loop) are the same function through the
    dictionary `RevPE.netOf` (points named by their position in `PD`, `StandPoint` = `stand.isSome`), for
    every network whose directions live in stand-point clusters (`DirInStand`, the C++ constructor
    invariant; necessary: example below):
    (1) the points are left alone, (2) every cluster gets the same `active()` flags (`updateCl` =
    `Cluster::update()`), (3) `revised_obs_` of the executed model IS `revised_obs_` of C14's model,
    (4) the views the adjustment reads coincide — so `C14_excluded_iff_reason`, `C14_direction_set_rule_exact`,
    `C14_reported_observations`, `C14_equals_deletion_independent` speak about the observations the
    executed `project_equations()` linearises. -/
theorem C14_revision_is_project_equations_revision [Zero K] (net : PE.Net K) (h : RevPE.DirInStand net) :
    (revise (RevPE.netOf net)).pts = (RevPE.netOf net).pts ∧
    (revise (RevPE.netOf net)).cls = (RevPE.netOf (PE.revise net)).cls.map updateCl ∧
    (PE.revisedObs (PE.revise net)).map RevPE.ofN = (revise (RevPE.netOf net)).revised ∧
    activeView (revise (RevPE.netOf net)) = activeView (RevPE.netOf (PE.revise net)) ∧
    adjustmentView (revise (RevPE.netOf net)) = adjustmentView (RevPE.netOf (PE.revise net)) :=
  ⟨(RevPE.revise_bridge net h).1, (RevPE.revise_bridge net h).2, RevPE.revised_bridge net h,
   (RevPE.views_bridge net h).1, (RevPE.views_bridge net h).2⟩

/-- The requirement table REGENERATED from local_revision.cpp and the hand-written `MinX.Obs.needs` the
    executed model of `project_equations()` uses give the same verdict on every observation (a change of
    a `LocalRevision::<type>` body now also breaks the tie of the `PE` model). -/
theorem C14_requirement_tables_agree [Zero K] (net : PE.Net K) (k : Nat) (o : PE.Ob K) :
    (localRev (RevPE.netOf net).pts (RevPE.obOf o)).active = MinX.activeBasic (PE.ptsOf net) (o.toMinX k) :=
  RevPE.localRev_active net k o

/-- **"Results", one inner call of `project_equations()`** (round 7, now without hypothesis).
    (1) `netSolve` (C01's model of `LocalNetwork` in front of the four solvers) reads the assembled
        problem only through `m`, `n`, the rows, `rhs_`, the cofactor blocks `activeCov()/m0²` of the
        clusters with active observations, and `min_x_` — for every algorithm;
    (2) assembling the network WITHOUT its passive observations (`RevPE.delObs`: rows/columns of the
        covariance matrices taken by C10's `activeCov`, positions of points and clusters kept) succeeds
        when assembling the network does, with the same numbering and `unknowns_`, and `netSolve` gives the
        same answer for every algorithm and every regularisation list. -/
theorem C14_pe_inner_call_ignores_passive [TrigScalar K] (net : PE.Net K)
    (a : PE.Asm K) (h : PE.assemble net = .ok a) :
    (∀ (alg : Ls.Alg) (np1 np2 : Ls.Net.NetProblem K), np1.m = np2.m → np1.n = np2.n → np1.rows = np2.rows →
      np1.rhs = np2.rhs → Ls.Net.cofs np1 = Ls.Net.cofs np2 → np1.minx = np2.minx →
      Ls.Net.netSolve alg np1 = Ls.Net.netSolve alg np2) ∧
    ∃ a', PE.assemble (RevPE.delObs net) = .ok a' ∧ a'.idx = a.idx ∧ a'.list = a.list ∧
      ∀ (alg : Ls.Alg) (mx : List Nat),
        Ls.Net.netSolve alg { a'.np with minx := mx } = Ls.Net.netSolve alg { a.np with minx := mx } :=
  ⟨fun alg np1 np2 => RevPE.netSolve_congr alg np1 np2, RevPE.netSolve_delObs net (RevPE.activeCovIdem_all net) a h⟩

/-! ## round 8: the whole call and the solvers on the deleted input -/

/-- **`Cluster::activeCov()` of a block without passive observations is that block** (C10's model of the
    packed band storage; band clamp `min(band, N-1)` included; NO hypothesis on `C` — what `activeCov`
    returns is well formed, and two well-formed band matrices with the same `dim`, `band` and in-band
    entries have the same buffer, `Cov.CovMat.ext_of_get`).  Round 7's hypothesis `ActiveCovIdem` is this. -/
theorem C14_active_cov_of_active_block [Zero K] (C : Cov.CovMat K) (obs allTrue : List Cov.ObsInfo)
    (hall : ∀ o ∈ allTrue, o = ⟨true, 1⟩) (hlen : allTrue.length = (Cov.activeIdx 1 obs).length) :
    Cov.activeCov (Cov.activeCov C obs) allTrue = Cov.activeCov C obs :=
  Cov.activeCov_idem C obs allTrue hall hlen

/-- **the revision is stable on the deleted input**, in the executed model of `project_equations()`:
    `revision_observations()` run on the revised network from which the passive observations were deleted
    changes nothing (every observation left is usable; a stand-point that keeps a direction had two targets
    and keeps every usable direction, so the single-direction rule counts the same set). -/
theorem C14_pe_revision_stable [Zero K] (n : PE.Net K) :
    PE.revise (RevPE.delObs (PE.revise n)) = RevPE.delObs (PE.revise n) :=
  RevPE.revise_delObs_revise n

/-- **Results equal those for the input with the excluded items deleted — executed model, every algorithm.**
    `projectEquations net0 = .ok (np, u)` (the whole call: revision, linearisation, `prepare`,
    `singular_coords`, recursion).  The excluded items are what `u.net` shows: the observations that are
    passive after the last `revision_observations()`, the points `singular_coords` switched off
    (`u.removed`).  The deleted input `{ delObs u.net with idx := idx0 }` = those observations gone
    (rows/columns of the covariance matrices with them, `Cluster::activeCov`), those points unused, the
    index fields ARBITRARY (a fresh process).  Then the call on the deleted input
      * succeeds, in one inner call: nothing more is revised (`u'.net.clusters` = the deleted clusters,
        all active), no point is singular (`u'.removed = []`, statuses unchanged);
      * has the same `pocet_neznamych_` and the same table `unknowns_` (same name for every column);
      * hands the solvers the same `m, n`, rows, `rhs_`, `min_x_`, cofactor blocks;
      * **for every algorithm `netSolve alg np' = netSolve alg np`**: the same exception, or the same
        answer field by field (`x`, `r` — one entry per ACTIVE observation on both sides —, `pvv`, `defect`,
        the homogenised `A`, `b`, `q_xx`, `q_bb`).
    With `C01_net_prepare` (the blocks `prepare` factorises are `activeCov()/m0²` of the clusters with
    active observations) this is C01's solver façade on the output of the executed `project_equations()`.

    `_partial` — the one thing missing for C14's id-based `deleteItems`:
    (c) the deletion is POSITION-STABLE.  A removed point stays in `PD` as an entry with status `unused`,
        an emptied cluster stays in `OD` as a cluster without observations (what a user gets by deleting
        `<obs>`-level items and marking removed points; gama-local then reads them and ignores them).
        Physically dropping the `<point>` / the emptied `<obs>` block renames the unknowns
        `⟨position, coordinate⟩`, `⟨cluster number, ori⟩`; invariance of `Lin.passFrom`, `oriLoop`,
        `ptLoop`, `singularFrom`, `fillFrom` under that order-preserving renaming is not proved.
        A removed point that is LEFT in the file with its status (free, no observation) is also outside:
        the call then needs a second inner call (`index = 0` ⇒ `singular_coords` removes it again).
        Both are covered at the level of the views by `C14_equals_deletion_independent_abs` and, on the
        program, by the oracle (gama-local on the deleted file, four algorithms).
    Not in any model: the `vybocujici_abscl_` stage inside the program flow (C14-F1 lives there; the stage
    is `C14_reported_abs` / `C14_abs_stage_stable` on `Rev`), IEEE rounding. -/
theorem C14_pe_solution_equals_deletion_partial [TrigScalar K] (net0 : PE.Net K) (np : Ls.Net.NetProblem K)
    (u : PE.Unknowns K) (h : PE.projectEquations net0 = .ok (np, u)) (idx0 : Lin.IdxState) :
    ∃ np' u', PE.projectEquations { RevPE.delObs u.net with idx := idx0 } = .ok (np', u') ∧
      (∀ alg : Ls.Alg, Ls.Net.netSolve alg np' = Ls.Net.netSolve alg np) ∧
      u'.n = u.n ∧ u'.list = u.list ∧ u'.removed = [] ∧ u'.net.points = u.net.points ∧
      u'.net.clusters = (RevPE.delObs u.net).clusters ∧
      (∀ c ∈ u'.net.clusters, ∀ o ∈ c.obs, o.active = true) ∧
      np'.m = np.m ∧ np'.n = np.n ∧ np'.rows = np.rows ∧ np'.rhs = np.rhs ∧ np'.minx = np.minx ∧
      Ls.Net.cofs np' = Ls.Net.cofs np := by
  obtain ⟨np', u', h1, S⟩ := RevPE.pe_deleted net0 np u h idx0
  refine ⟨np', u', h1, S.solve, S.u_n, S.u_list, S.removed, S.points, S.clusters, ?_,
    S.m, S.n, S.rows, S.rhs, S.minx, S.cofs⟩
  rw [S.clusters]
  intro c hc o ho
  simp only [RevPE.delObs, List.mem_map] at hc
  obtain ⟨c0, _, rfl⟩ := hc
  simp only [RevPE.delCl, List.mem_filter] at ho
  exact ho.2

/-! ### non-vacuity, round 7 -/

/-- `exNet` with the distance 1→3 observed 2 m too long (at `Rat` the model's `sqrt` is the identity, so a
    distance is "observed" as its square: 9 → 11, 16) -/
def absNet : Net Rat :=
  { exNet with cls := [{ stand := true, actObs := 0, cov := fun i j => if i = j then 1 else 0, obs :=
              [{ ty := .direction, frm := 1, «to» := 2, fs := 0, active := true, value := 0 },
               { ty := .direction, frm := 1, «to» := 3, fs := 0, active := true, value := 1 },
               { ty := .distance, frm := 1, «to» := 3, fs := 0, active := true, value := 11 }] },
            { stand := true, actObs := 0, cov := fun i j => if i = j then 1 else 0, obs :=
              [{ ty := .direction, frm := 3, «to» := 1, fs := 0, active := true, value := 0 },
               { ty := .distance, frm := 3, «to» := 2, fs := 0, active := true, value := 16 },
               { ty := .distance, frm := 3, «to» := 9, fs := 0, active := true, value := 7 }] }] }
/-- four revised observations; the third (the distance) has a 2000 mm misclosure: gate open, row 3 listed,
    that observation made passive and reported; the stage on the deleted input (three entries kept) is quiet -/
example : (absRows (revise absNet) 1000 [1, 1, 2000, 1] [1, 1, 2000, 1]).map (·.1) = [3] := by decide +kernel
example : (madePassive (allObs (revise absNet).cls) (allObs (removeHuge (revise absNet) 1000 [1, 1, 2000, 1] [1, 1, 2000, 1]).cls)).map
    (fun q => (q.1.value, q.1.active, q.2.active)) = [(11, true, false)] := by decide +kernel
example : (exclude absNet 1000 [1, 1, 2000, 1] [1, 1, 2000, 1]).rejected.map (·.value) = [11, 0, 7] := by decide +kernel
example : droppedMask (allObs (revise absNet).cls) (allObs (exclude absNet 1000 [1, 1, 2000, 1] [1, 1, 2000, 1]).cls)
    = [false, false, true, false] ∧
    dropFlagged [(1 : Rat), 1, 2000, 1] [false, false, true, false] = [1, 1, 1] := by decide +kernel
example : let d := deleteItems absNet (excluded (exclude absNet 1000 [1, 1, 2000, 1] [1, 1, 2000, 1]))
    (revise d).revised.map (·.value) = [0, 1, 16] ∧
    (removeHuge (revise d) 1000 [1, 1, 1] [1, 1, 1]).cls.map (fun c => c.obs.map (·.active)) = [[true, true], [true]] := by
  decide +kernel
/-- the gate closed: nothing listed, nothing made passive -/
example : absRows (revise absNet) 100000 [1, 1, 2000, 1] [1, 1, 2000, 1] = [] := by decide +kernel

/-- a `PE` network with two stand-points: station 0 reads points 1, 2 and a distance; station 2 a single
    direction and a distance; both models give the flags `[[1,1,1],[0,1]]` -/
def peNet : PE.Net Rat :=
  { points := [⟨"A", ⟨0, 0, 0, .fixed, .unused⟩⟩, ⟨"B", ⟨3, 4, 0, .fixed, .unused⟩⟩, ⟨"C", ⟨3, 0, 0, .free, .unused⟩⟩]
    clusters := [⟨some (0, some 0), ⟨3, 0, #[1, 1, 1]⟩,
                  [⟨true, .direction, 0, 1, 0, 0⟩, ⟨true, .direction, 0, 2, 0, 1⟩, ⟨true, .distance, 0, 2, 0, 3⟩]⟩,
                 ⟨some (2, some 0), ⟨2, 0, #[1, 1]⟩, [⟨true, .direction, 2, 0, 0, 0⟩, ⟨true, .distance, 2, 1, 0, 4⟩]⟩]
    m0 := 10, xNorth := 0, fuel := 10, idx := ⟨0, []⟩ }
example : RevPE.DirInStand peNet := by unfold RevPE.DirInStand; decide
example : (PE.revise peNet).clusters.map (fun c => c.obs.map (·.active)) = [[true, true, true], [false, true]] ∧
    (revise (RevPE.netOf peNet)).cls.map (fun c => c.obs.map (·.active)) = [[true, true, true], [false, true]] ∧
    (revise (RevPE.netOf peNet)).revised.length = 4 := by decide +kernel
/-- `DirInStand` is necessary: a lone direction in a cluster that is not a `StandPoint` is silenced by
    `PE.revise` and kept by `revision_observations()` -/
def peBad : PE.Net Rat := { peNet with clusters := [⟨none, ⟨1, 0, #[1]⟩, [⟨true, .direction, 0, 1, 0, 0⟩]⟩] }
example : (PE.revise peBad).clusters.map (fun c => c.obs.map (·.active)) = [[false]] ∧
    (revise (RevPE.netOf peBad)).cls.map (fun c => c.obs.map (·.active)) = [[true]] := by decide +kernel
attribute [local instance] PE.Ex.trigQ in
/-- the inner-call theorem on the levelling network of the `PE` examples (one switched-off observation in a
    three-observation cluster): assembling succeeds on it and on its `delObs` -/
example : (match PE.assemble (PE.revise PE.Ex.net1) with | .ok a => some (a.np.m, a.np.n) | .error _ => none) = some (2, 2) ∧
    (match PE.assemble (RevPE.delObs (PE.revise PE.Ex.net1)) with
      | .ok a => some (a.np.m, a.np.clusters.map (·.active)) | .error _ => none) = some (2, [[true, true], []]) := by
  decide +kernel

/-! ### non-vacuity, round 8: a correlated cluster with one excluded observation, evaluated by the kernel -/

/-- levelling, `A` fixed, `B`, `C` free.  Cluster 1: four height differences `A→B`, `B→C`, `C→A`, `A→C`
    with a TRIDIAGONAL covariance matrix (`CovMat(4, 1)`: variances 4, covariances 1 between neighbours);
    the third observation is switched off in the input.  Cluster 2: one observation to a point that is not
    in the network (made passive by the revision; the cluster is empty afterwards). -/
def corNet : PE.Net Rat :=
  { points := [⟨"A", ⟨0, 0, 100, .unused, .fixed⟩⟩, ⟨"B", ⟨0, 0, 110, .unused, .free⟩⟩, ⟨"C", ⟨0, 0, 105, .unused, .free⟩⟩]
    clusters := [⟨none, ⟨4, 1, #[4, 1, 4, 1, 4, 1, 4]⟩,
                  [PE.Ex.hd true 0 1 (1001/100), PE.Ex.hd true 1 2 (-499/100), PE.Ex.hd false 2 0 (-5),
                   PE.Ex.hd true 0 2 (503/100)]⟩,
                 ⟨none, ⟨1, 0, #[1]⟩, [PE.Ex.hd true 0 7 1]⟩]
    m0 := 2, xNorth := 0, fuel := 10
    idx := ⟨5, [(⟨0, .z⟩, 5), (⟨2, .z⟩, 4)]⟩ }

/-- what the examples read off a call: the network it leaves -/
def leftNet (r : Except PE.Err (Ls.Net.NetProblem Rat × PE.Unknowns Rat)) : Option (PE.Net Rat) :=
  match r with | .ok (_, u) => some u.net | .error _ => none
/-- … and the answer of an algorithm on the problem it hands over -/
def answerOf (alg : Ls.Alg) (r : Except PE.Err (Ls.Net.NetProblem Rat × PE.Unknowns Rat)) :
    Option (Option (List Rat × List Rat × Rat × Nat)) :=
  match r with
  | .ok (np, _) => some ((Ls.Net.netSolve alg np).toOption.map fun a => (a.x.toList, a.r.toList, a.pvv, a.defect))
  | .error _ => none
/-- the deleted input of `corNet`, written out: the third observation and its row/column of the band
    matrix are gone (`CovMat(3, 1)`, the entry (2,3) of the sub-matrix is the old (2,4) = 0), the second
    cluster is empty, a fresh process (`idx` empty) -/
def corDel : PE.Net Rat :=
  { corNet with
    clusters := [⟨none, ⟨3, 1, #[4, 1, 4, 0, 4]⟩,
                  [PE.Ex.hd true 0 1 (1001/100), PE.Ex.hd true 1 2 (-499/100), PE.Ex.hd true 0 2 (503/100)]⟩,
                 ⟨none, ⟨0, 0, #[]⟩, []⟩]
    idx := ⟨0, []⟩ }

/-- the call on `corNet` succeeds; `delObs u.net` IS `corDel` up to `idx` (clusters, buffers of the band
    matrices included): dimensions and bands, buffers, observed values and flags, point ids and statuses -/
def delLeft (r : Except PE.Err (Ls.Net.NetProblem Rat × PE.Unknowns Rat)) : Option (PE.Net Rat) :=
  (leftNet r).map RevPE.delObs
attribute [local instance] PE.Ex.trigQ in
example : (delLeft (PE.projectEquations corNet)).map (fun n => n.clusters.map fun c => [c.cov.dim, c.cov.band]) =
    some (corDel.clusters.map fun c => [c.cov.dim, c.cov.band]) := by decide +kernel
attribute [local instance] PE.Ex.trigQ in
example : (delLeft (PE.projectEquations corNet)).map (fun n => n.clusters.map fun c => c.cov.buf.toList) =
    some [[4, 1, 4, 0, 4], []] := by decide +kernel
attribute [local instance] PE.Ex.trigQ in
example : (delLeft (PE.projectEquations corNet)).map (fun n => n.clusters.map fun c => c.obs.map (·.value)) =
    some (corDel.clusters.map fun c => c.obs.map (·.value)) := by decide +kernel
attribute [local instance] PE.Ex.trigQ in
example : (delLeft (PE.projectEquations corNet)).map (fun n => n.clusters.map fun c => c.obs.map (·.active)) =
    some [[true, true, true], []] := by decide +kernel
attribute [local instance] PE.Ex.trigQ in
example : (delLeft (PE.projectEquations corNet)).map (fun n => n.points.map (·.id)) = some ["A", "B", "C"] := by
  decide +kernel

attribute [local instance] PE.Ex.trigQ in
/-- … and the two calls give the same answer (envelope and Cholesky evaluated; `x`, `r`, `pvv`, `defect`):
    2 unknowns, 3 residuals, defect 0 -/
example : answerOf .env (PE.projectEquations corDel) = answerOf .env (PE.projectEquations corNet) := by decide +kernel
attribute [local instance] PE.Ex.trigQ in
example : answerOf .chol (PE.projectEquations corDel) = answerOf .chol (PE.projectEquations corNet) := by decide +kernel
attribute [local instance] PE.Ex.trigQ in
example : ((answerOf .env (PE.projectEquations corNet)).map fun a => a.map fun t => [t.1.length, t.2.1.length, t.2.2.2]) =
    some (some [2, 3, 0]) := by decide +kernel

end Gama.Props.C14
