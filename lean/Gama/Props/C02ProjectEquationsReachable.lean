/-
  C02 row 8 for `LocalNetwork` with the per-configuration hypotheses SHRUNK to the configurations the removal loops can reach
  (round 13; the C20 counterpart is `Props/C20/ProjectEquationsReachable.lean`).

  `C02_decision_agree_single_point_of_project_equations` / `C02_decision_agree_of_first_of_project_equations` ask `NetHyp` (through
  `WorldHyp`) and `hone` / `hfirst` of EVERY `dnet : List NetDecision.Point`.  Here `R` is any set of configurations containing the
  given network and closed under the steps of the decision layer for BOTH executed worlds (`NetDecision.Closed`); every hypothesis
  is asked on `R` only; the conclusion is about the EXECUTED worlds `worldOf (peWorld base) (obsNet alg)`, `… alg'`.
  Proof: the theorems for the world restricted to `R` (`peOn t R base`: the empty response outside `R`, on which both objects are
  the idle one) + `decideA_congr` twice (`peOn_decide`).
-/
import Gama.Props.C02ProjectEquations
import Gama.Lemmas.C20Reachable
namespace Gama.Props.C02
open Gama Gama.Ls Gama.Ls.Net Gama.LS Gama.NetDecision Gama.PE Matrix

set_option linter.unusedSectionVars false
set_option linter.overlappingInstances false

section field
variable {K : Type} [Field K] [LinearOrder K] [IsStrictOrderedRing K] [Gso.SqrtField K]
attribute [local instance] sqrtFnOfSqrtField
attribute [local instance 2000] scalarOfField

variable (t : TrigFns K) (base : PE.Net K) (alg alg' : Alg) (m0 : K)

/-- `hq` on every configuration of the restricted world, from `NetHyp` on `R` only -/
theorem C02_peOn_cofactors_agree (halg : alg ≠ .svd) (halg' : alg' ≠ .svd) (hds : DirFromStation base)
    (R : NetDecision.Net → Prop)
    (hH : ∀ dnet, R dnet → ∀ np, (@peWorld K (trigOfField t) base dnet).prob = some np → NetHyp alg np)
    (hH' : ∀ dnet, R dnet → ∀ np, (@peWorld K (trigOfField t) base dnet).prob = some np → NetHyp alg' np) :
    ∀ net i, 1 ≤ i → i ≤ (peOn t R base net).unknowns.length →
      (obsNet alg (peOn t R base net).prob).refused = none →
      (obsNet alg (peOn t R base net).prob).qxx i = (obsNet alg' (peOn t R base net).prob).qxx i := by
  intro net i h1 h2 hr
  have hS := peOn_sound t R base alg halg hH net
  have hS' := peOn_sound t R base alg' halg' hH' net
  have hd := peOn_hdim t R base hds net
  have hr' := (hS.refused_eq hS').symm.trans hr
  cases hp : (peOn t R base net).prob with
  | none => rfl
  | some np =>
    have hRn : R net := by
      by_contra hn
      rw [peOn_neg t R base net hn] at hp
      cases hp
    have hp' : (@peWorld K (trigOfField t) base net).prob = some np := by
      rw [← peOn_pos t R base net hRn]; exact hp
    rw [hp] at hS hr hr' hd
    obtain ⟨Pc, hPc⟩ := (hH net hRn np hp').weight
    have hres : Resolves (toProblem np).A (toProblem np).S := by
      by_contra hnr
      have := hS.refusal.2 hnr
      rw [hr] at this; cases this
    obtain ⟨hacc, hdim, _, hrng⟩ := peWorld_facts t base net np hp'
    exact obsNet_qxx_agree alg alg' np ((hH net hRn np hp').shape hacc hdim hrng) (hH net hRn np hp').m0 Pc hPc
      (hH net hRn np hp').first (hH' net hRn np hp').first hres hr hr' i h1 (by rw [← hd] at h2; exact h2)

/-- **C02 row 8 for `LocalNetwork`, single removal class, hypotheses on the REACHABLE configurations only** -/
theorem C02_decision_agree_single_point_of_project_equations_reachable (halg : alg ≠ .svd) (halg' : alg' ≠ .svd)
    (hds : DirFromStation base) (R : NetDecision.Net → Prop)
    (hcl : Closed R ((worldOf (@peWorld K (trigOfField t) base) (obsNet alg)).abs m0))
    (hcl' : Closed R ((worldOf (@peWorld K (trigOfField t) base) (obsNet alg')).abs m0))
    (hH : ∀ dnet, R dnet → ∀ np, (@peWorld K (trigOfField t) base dnet).prob = some np → NetHyp alg np)
    (hH' : ∀ dnet, R dnet → ∀ np, (@peWorld K (trigOfField t) base dnet).prob = some np → NetHyp alg' np)
    (hone : ∀ net, R net → ∃ rc : String × Rm, KernelClass (linO (@peWorld K (trigOfField t) base net).prob).A
      (@peWorld K (trigOfField t) base net).unknowns rc)
    (net : NetDecision.Net) (hnet : R net) :
    (NetDecision.decide m0 (worldOf (@peWorld K (trigOfField t) base) (obsNet alg)) net).1
      = (NetDecision.decide m0 (worldOf (@peWorld K (trigOfField t) base) (obsNet alg')) net).1 ∧
    (NetDecision.decide m0 (worldOf (@peWorld K (trigOfField t) base) (obsNet alg)) net).2.core
      = (NetDecision.decide m0 (worldOf (@peWorld K (trigOfField t) base) (obsNet alg')) net).2.core := by
  rw [peOn_decide t R base alg m0 hcl net hnet, peOn_decide t R base alg' m0 hcl' net hnet]
  refine C02_decision_agree_single_point _ (obsNet alg) (obsNet alg') linO m0 (peOn_hdim t R base hds)
    (peOn_sound t R base alg halg hH) (peOn_sound t R base alg' halg' hH')
    (C02_peOn_cofactors_agree t base alg alg' halg halg' hds R hH hH') (fun n => ?_) net
  by_cases hn : R n
  · rw [peOn_pos t R base n hn]; exact hone n hn
  · rw [peOn_neg t R base n hn]
    exact ⟨("", .missing_z), fun g _ i => i.elim0⟩

/-- **C02 row 8 for `LocalNetwork`, general form, hypotheses on the REACHABLE configurations only** -/
theorem C02_decision_agree_of_first_of_project_equations_reachable (halg : alg ≠ .svd) (halg' : alg' ≠ .svd)
    (hds : DirFromStation base) (R : NetDecision.Net → Prop)
    (hcl : Closed R ((worldOf (@peWorld K (trigOfField t) base) (obsNet alg)).abs m0))
    (hcl' : Closed R ((worldOf (@peWorld K (trigOfField t) base) (obsNet alg')).abs m0))
    (hH : ∀ dnet, R dnet → ∀ np, (@peWorld K (trigOfField t) base dnet).prob = some np → NetHyp alg np)
    (hH' : ∀ dnet, R dnet → ∀ np, (@peWorld K (trigOfField t) base dnet).prob = some np → NetHyp alg' np)
    (hfirst : ∀ net, R net →
      (firstUnknown ((viewOf (@peWorld K (trigOfField t) base net)
          (obsNet alg (@peWorld K (trigOfField t) base net).prob)).abs m0)).map removalOf
        = (firstUnknown ((viewOf (@peWorld K (trigOfField t) base net)
          (obsNet alg' (@peWorld K (trigOfField t) base net).prob)).abs m0)).map removalOf)
    (net : NetDecision.Net) (hnet : R net) :
    (NetDecision.decide m0 (worldOf (@peWorld K (trigOfField t) base) (obsNet alg)) net).1
      = (NetDecision.decide m0 (worldOf (@peWorld K (trigOfField t) base) (obsNet alg')) net).1 ∧
    (NetDecision.decide m0 (worldOf (@peWorld K (trigOfField t) base) (obsNet alg)) net).2.core
      = (NetDecision.decide m0 (worldOf (@peWorld K (trigOfField t) base) (obsNet alg')) net).2.core := by
  rw [peOn_decide t R base alg m0 hcl net hnet, peOn_decide t R base alg' m0 hcl' net hnet]
  refine C02_decision_agree_of_first _ (obsNet alg) (obsNet alg') linO m0
    (peOn_sound t R base alg halg hH) (peOn_sound t R base alg' halg' hH')
    (C02_peOn_cofactors_agree t base alg alg' halg halg' hds R hH hH') (fun n => ?_) net
  by_cases hn : R n
  · rw [peOn_pos t R base n hn]; exact hfirst n hn
  · rw [peOn_neg t R base n hn]; rfl

/-- **… at `R := SubOf net`**: the sub-configurations of the given network are closed for both executed worlds
    (`closed_subOf`), so `NetHyp` and `hone` are asked of them only -/
theorem C02_decision_agree_single_point_of_project_equations_subconfigurations (halg : alg ≠ .svd) (halg' : alg' ≠ .svd)
    (hds : DirFromStation base) (net : NetDecision.Net)
    (hH : ∀ dnet, SubOf net dnet → ∀ np, (@peWorld K (trigOfField t) base dnet).prob = some np → NetHyp alg np)
    (hH' : ∀ dnet, SubOf net dnet → ∀ np, (@peWorld K (trigOfField t) base dnet).prob = some np → NetHyp alg' np)
    (hone : ∀ n, SubOf net n → ∃ rc : String × Rm, KernelClass (linO (@peWorld K (trigOfField t) base n).prob).A
      (@peWorld K (trigOfField t) base n).unknowns rc) :
    (NetDecision.decide m0 (worldOf (@peWorld K (trigOfField t) base) (obsNet alg)) net).1
      = (NetDecision.decide m0 (worldOf (@peWorld K (trigOfField t) base) (obsNet alg')) net).1 ∧
    (NetDecision.decide m0 (worldOf (@peWorld K (trigOfField t) base) (obsNet alg)) net).2.core
      = (NetDecision.decide m0 (worldOf (@peWorld K (trigOfField t) base) (obsNet alg')) net).2.core :=
  C02_decision_agree_single_point_of_project_equations_reachable t base alg alg' m0 halg halg' hds (SubOf net)
    (closed_subOf t base alg m0 net) (closed_subOf t base alg' m0 net) hH hH' hone net (SubOf.refl net)

theorem C02_decision_agree_of_first_of_project_equations_subconfigurations (halg : alg ≠ .svd) (halg' : alg' ≠ .svd)
    (hds : DirFromStation base) (net : NetDecision.Net)
    (hH : ∀ dnet, SubOf net dnet → ∀ np, (@peWorld K (trigOfField t) base dnet).prob = some np → NetHyp alg np)
    (hH' : ∀ dnet, SubOf net dnet → ∀ np, (@peWorld K (trigOfField t) base dnet).prob = some np → NetHyp alg' np)
    (hfirst : ∀ n, SubOf net n →
      (firstUnknown ((viewOf (@peWorld K (trigOfField t) base n)
          (obsNet alg (@peWorld K (trigOfField t) base n).prob)).abs m0)).map removalOf
        = (firstUnknown ((viewOf (@peWorld K (trigOfField t) base n)
          (obsNet alg' (@peWorld K (trigOfField t) base n).prob)).abs m0)).map removalOf) :
    (NetDecision.decide m0 (worldOf (@peWorld K (trigOfField t) base) (obsNet alg)) net).1
      = (NetDecision.decide m0 (worldOf (@peWorld K (trigOfField t) base) (obsNet alg')) net).1 ∧
    (NetDecision.decide m0 (worldOf (@peWorld K (trigOfField t) base) (obsNet alg)) net).2.core
      = (NetDecision.decide m0 (worldOf (@peWorld K (trigOfField t) base) (obsNet alg')) net).2.core :=
  C02_decision_agree_of_first_of_project_equations_reachable t base alg alg' m0 halg halg' hds (SubOf net)
    (closed_subOf t base alg m0 net) (closed_subOf t base alg' m0 net) hH hH' hfirst net (SubOf.refl net)

end field

end Gama.Props.C02
