/-
  C10 — Correlated observations are weighted by their full covariance matrix:
  the covariance matrix of a cluster under the internal mirroring of the y axis
  (`LocalNetwork::change_y_signs_for_inconsistent_system_`, run by `remove_inconsistency()` before every
  adjustment of a network whose axes and angle orientation are inconsistent) and on the way out
  (`LocalNetwork::updated_xml_covmat`).

  Model: `Model/YSign.lean` (the whole function, the condition a parameter); the condition of BOTH sites is
  regenerated from network.cpp into `Gen/YSign.lean` on every run (tools/gen/c10_ysign.py parses the boolean
  expression).  Every theorem below is about `Gen.YSign.*` and re-derives what it needs about the regenerated
  condition inside its own proof (`by decide`), so a changed condition breaks the property theorems by name.
-/
import Gama.Lemmas.CovYSign
import Gama.Lemmas.C07LS
namespace Gama.Props.C10
open Gama Gama.Cov Gama.Cov.Packed Gama.Cov.YSign Matrix

/-- the regenerated condition of `change_y_signs_for_inconsistent_system_` is the exclusive or:
    `C(r,s)` changes its sign iff EXACTLY ONE of the two components is mirrored -/
theorem gen_ysign_flipCond : ∀ a b : Bool, Gen.YSign.flipCond a b = (a != b) := by decide

/-- **the two sites use the same rule**: the condition `updated_xml_covmat` applies on the way out is the
    condition `change_y_signs_for_inconsistent_system_` applies on the way in (both regenerated), and both
    classify the same observation classes (`Y`, `Ydiff`) as mirrored -/
theorem C10_y_sign_sites_agree :
    (∀ a b : Bool, Gen.YSign.flipCond a b = Gen.YSign.exportFlipCond a b) ∧
    Gen.YSign.mirroredClasses = Gen.YSign.exportMirroredClasses ∧
    Gen.YSign.mirroredClasses = ["Y", "Ydiff"] := by
  refine ⟨by decide, by decide, by decide⟩

/-- **y-sign conjugation** (`C ↦ D C D`).  For every well-formed covariance matrix `C` (any dimension, any band
    width) of a cluster with at least `dim` observations (the parser guarantees `dim` = number of observations) and
    every pattern `ms` of mirrored components, the loop nest of `change_y_signs_for_inconsistent_system_` WITH THE
    REGENERATED CONDITION leaves a well-formed matrix of the same shape with
    `C'(i,j) = d_i · C(i,j) · d_j` for ALL `1 ≤ i, j ≤ dim`, `d_k = -1` iff component `k` is mirrored:
    variances unchanged; a covariance between two mirrored components (`dy_i`/`dy_j`, `y_i`/`y_j`) or two not
    mirrored ones UNCHANGED; a covariance between a mirrored and a not mirrored component negated.
    In matrix form `C' = D C D`, which is symmetric, and positive definite iff `C` is.  The observed values are
    negated for exactly the mirrored components. -/
theorem C10_y_sign_conjugation {K : Type} [Field K] [LinearOrder K] [IsStrictOrderedRing K]
    (ms : List Bool) (C : CovMat K) (h : C.WF) (hlen : C.dim ≤ ms.length) :
    (Gen.YSign.flipCov ms C).WF ∧ (Gen.YSign.flipCov ms C).dim = C.dim ∧ (Gen.YSign.flipCov ms C).band = C.band ∧
    (∀ i j, 1 ≤ i → i ≤ C.dim → 1 ≤ j → j ≤ C.dim →
      (Gen.YSign.flipCov ms C).get i j = sgn ms i * C.get i j * sgn ms j) ∧
    (∀ i j, 1 ≤ i → i ≤ C.dim → 1 ≤ j → j ≤ C.dim → mirroredAt ms i = mirroredAt ms j →
      (Gen.YSign.flipCov ms C).get i j = C.get i j) ∧
    (∀ i j, 1 ≤ i → i ≤ C.dim → 1 ≤ j → j ≤ C.dim → mirroredAt ms i ≠ mirroredAt ms j →
      (Gen.YSign.flipCov ms C).get i j = -(C.get i j)) ∧
    matN C.dim (Gen.YSign.flipCov ms C)
      = diagonal (signVec ms C.dim) * matN C.dim C * diagonal (signVec ms C.dim) ∧
    (matN C.dim (Gen.YSign.flipCov ms C))ᵀ = matN C.dim (Gen.YSign.flipCov ms C) ∧
    (PosDefQ (matN C.dim (Gen.YSign.flipCov ms C)) ↔ PosDefQ (matN C.dim C)) := by
  have hc : ∀ a b : Bool, Gen.YSign.flipCond a b = (a != b) := by decide
  obtain ⟨w, d, b, g⟩ := flipCov_DCD Gen.YSign.flipCond hc ms C h hlen
  have hm := matN_flipCov Gen.YSign.flipCond hc ms C h hlen
  refine ⟨w, d, b, g, ?_, ?_, hm, matN_symm _ _, ?_⟩
  · intro i j hi hiN hj hjN e
    have := g i j hi hiN hj hjN
    unfold Gen.YSign.flipCov at this ⊢
    rw [this]
    unfold sgn
    rw [e]
    cases mirroredAt ms j <;> simp
  · intro i j hi hiN hj hjN e
    have := g i j hi hiN hj hjN
    unfold Gen.YSign.flipCov at this ⊢
    rw [this]
    unfold sgn
    cases hmi : mirroredAt ms i <;> cases hmj : mirroredAt ms j <;> simp_all
  · unfold Gen.YSign.flipCov at hm ⊢
    rw [hm]
    exact posDefQ_conj _ (signVec_sq ms C.dim) _

/-- the observed values: negated for exactly the mirrored observations, nothing else touched -/
theorem C10_y_sign_values {K : Type} [Ring K] (ms : List Bool) (vs : List K) (hl : ms.length = vs.length) :
    (flipValues ms vs).length = vs.length ∧
    ∀ k, k < vs.length → (flipValues ms vs).getD k 0 = (if ms.getD k false then -(vs.getD k 0) else vs.getD k 0) := by
  induction ms generalizing vs with
  | nil => cases vs with
    | nil => exact ⟨rfl, fun k hk => absurd hk (Nat.not_lt_zero _)⟩
    | cons v vs => simp at hl
  | cons m ms ih =>
    cases vs with
    | nil => simp at hl
    | cons v vs =>
      have hl' : ms.length = vs.length := by simpa using hl
      obtain ⟨l1, g1⟩ := ih vs hl'
      refine ⟨by simp [flipValues, l1], ?_⟩
      intro k hk
      cases k with
      | zero => simp [flipValues]
      | succ k =>
        have := g1 k (by simpa using hk)
        simpa [flipValues] using this

/-- **same weighted problem as mirroring the y axis.**  Let `P` be the weight matrix of the cluster (`C P = 1`) and
    `(x, v, Φ)` the least-squares solution of `(A, b, P)` with regularisation subset `S`.  After
    `change_y_signs_for_inconsistent_system_` the covariance matrix is `C' = D C D`; its inverse is `D P D`, and the
    mirrored description — rows of the mirrored components negated (`D A`), the columns of the y unknowns negated
    (`· T`, any sign vector `t`), the observed values negated (`D b`), weighted with the inverse of the TRANSFORMED
    covariance matrix — has the solution `T x`, residuals `D v`, the same `Φ` and the same regularisation subset.
    This is the weight matrix `D_s P D_s` that C07's `C07_mirror_assembled` assumes of the normalisation
    (`LS.IsLSSolution.rowSign/colSign`, imported read-only from `Lemmas/C07LS.lean`). -/
theorem C10_y_sign_same_problem {K : Type} [Field K] [LinearOrder K] [IsStrictOrderedRing K]
    {n : Type} [Fintype n] [DecidableEq n]
    (ms : List Bool) (C : CovMat K) (h : C.WF) (hlen : C.dim ≤ ms.length)
    (P : Matrix (Fin C.dim) (Fin C.dim) K) (hP : matN C.dim C * P = 1)
    (A : Matrix (Fin C.dim) n K) (b : Fin C.dim → K) (S : Finset n) (x : n → K) (v : Fin C.dim → K) (rtr : K)
    (hLS : LS.IsLSSolution A b P S x v rtr) (t : n → K) (ht : ∀ j, t j * t j = 1) :
    let s : Fin C.dim → K := signVec ms C.dim
    matN C.dim (Gen.YSign.flipCov ms C) * (diagonal s * P * diagonal s) = 1 ∧
    LS.IsLSSolution (diagonal s * A * diagonal t) (diagonal s *ᵥ b) (diagonal s * P * diagonal s) S
      (diagonal t *ᵥ x) (diagonal s *ᵥ v) rtr := by
  intro s
  have hc : ∀ a b : Bool, Gen.YSign.flipCond a b = (a != b) := by decide
  have hm := matN_flipCov Gen.YSign.flipCond hc ms C h hlen
  have hs : ∀ i, s i * s i = 1 := signVec_sq (K := K) ms C.dim
  refine ⟨?_, (hLS.rowSign s hs).colSign t ht⟩
  unfold Gen.YSign.flipCov
  rw [hm]
  exact inv_conj s hs _ _ hP

/-- **the way out undoes the way in**: `updated_xml_covmat` of an inconsistent system (`y_sign() < 0`), applied to the
    matrix `change_y_signs_for_inconsistent_system_` left behind, writes the covariance matrix OF THE INPUT, entry by
    entry (row by row, `j = i … min(i+band, dim)`; right-hand side: the same enumeration of `C` with nothing negated),
    for every matrix, band width and pattern of mirrored components — with the two REGENERATED conditions.
    (The sexagesimal `unit` factors of the writer are C13's subject.) -/
theorem C10_y_sign_export_undoes {K : Type} [Ring K] (ms : List Bool) (C : CovMat K) (h : C.WF) (hlen : C.dim ≤ ms.length) :
    Gen.YSign.exportEntries true ms (Gen.YSign.flipCov ms C) = YSign.exportEntries (fun _ _ => false) false ms C :=
  export_flipCov Gen.YSign.flipCond Gen.YSign.exportFlipCond (by decide) (by decide) ms C h hlen

/-! ### non-vacuity and sensitivity -/

section examples

/-- two vectors' `dy` components (positions 2 and 5 of 6) are mirrored; band 3 reaches from `dy_1` to `dy_2` -/
def exMs : List Bool := [false, true, false, false, true, false]

/-- a 6×6 band-3 matrix with `cov(dy_1, dy_2) = 7`, `cov(dx_1, dy_1) = 3`, `cov(dy_1, dx_2) = 5` -/
def exC : CovMat ℚ := ⟨6, 3, #[100, 3, 0, 0,  100, 0, 5, 7,  100, 0, 0, 0,  100, 2, 0,  100, 0,  100]⟩

example : exC.WF := ⟨by decide, by decide⟩
example : exC.dim ≤ exMs.length := by decide

/-- the regenerated rule on the instance: `cov(dy_1,dy_2)` keeps its sign, `cov(dx_1,dy_1)`, `cov(dy_1,dx_2)` and
    `cov(dx_2,dy_2)` are negated, the diagonal stays -/
example : (Gen.YSign.flipCov exMs exC).buf = #[100, -3, 0, 0,  100, 0, -5, 7,  100, 0, 0, 0,  100, -2, 0,  100, 0,  100] := by
  decide +kernel

/-- `C10_y_sign_export_undoes` on the instance: the exported entries are the packed buffer of the input -/
example : Gen.YSign.exportEntries true exMs (Gen.YSign.flipCov exMs exC) = exC.buf.toList := by decide +kernel

/-- sensitivity: with the rule "at least one of the two is mirrored" (`mirrored[r] || mirrored[s]`) the covariance
    between the two mirrored components gets the wrong sign — the result is NOT `D C D` -/
example : (YSign.flipCov (fun a b => a || b) exMs exC).get 2 5 = -7 ∧
    (sgn exMs 2 : ℚ) * exC.get 2 5 * sgn exMs 5 = 7 := by
  constructor <;> decide +kernel

/-- the hypotheses of `C10_y_sign_same_problem` are satisfiable: `C = [4]` (one mirrored component), `P = [1/4]`,
    one unknown, observation `b = 2`: `x = 2`, `v = 0` -/
example : (⟨1, 0, #[4]⟩ : CovMat ℚ).WF ∧ (⟨1, 0, #[4]⟩ : CovMat ℚ).dim ≤ [true].length ∧
    matN 1 (⟨1, 0, #[4]⟩ : CovMat ℚ) * (Matrix.of fun _ _ => 1 / 4 : Matrix (Fin 1) (Fin 1) ℚ) = 1 := by
  refine ⟨⟨by decide, by decide⟩, by decide, ?_⟩
  ext i j
  have hi : i = 0 := Subsingleton.elim _ _
  have hj : j = 0 := Subsingleton.elim _ _
  subst hi; subst hj
  simp only [Matrix.mul_apply, Fin.sum_univ_one, Matrix.one_apply_eq, matN, Matrix.of_apply]
  have : (⟨1, 0, #[4]⟩ : CovMat ℚ).get ((0 : Fin 1).val + 1) ((0 : Fin 1).val + 1) = 4 := by decide +kernel
  rw [this]; norm_num

/-- positive definiteness is not vacuous: the 1×1 matrix `[4]` is positive definite -/
example : PosDefQ (matN 1 (⟨1, 0, #[4]⟩ : CovMat ℚ)) := by
  intro d hd
  have h0 : d 0 ≠ 0 := by
    intro e; apply hd; ext i
    have : i = 0 := Subsingleton.elim _ _
    subst this; exact e
  have : (⟨1, 0, #[4]⟩ : CovMat ℚ).get 1 1 = 4 := by decide +kernel
  simp only [dotProduct, Matrix.mulVec, Fin.sum_univ_one, matN]
  show 0 < d 0 * ((⟨1, 0, #[4]⟩ : CovMat ℚ).get 1 1 * d 0)
  rw [this]
  have := mul_self_pos.mpr h0
  nlinarith

end examples

end Gama.Props.C10
