import Gama.Model.PointId
import Gama.Model.Input
namespace Gama.Props.C07
theorem stub : (1 : Nat) = 1 := rfl
end Gama.Props.C07
