/-
  C07 — Equivalent descriptions of the same survey give the same adjustment.

  Every row-level theorem is about `Gama/Gen/Linearization.lean`, regenerated from
  /repo/lib/gnu_gama/local/local_linearization.cpp and bearing.cpp on every run (this check
  calls C05's translator), instantiated at ℝ (`Gama/Lemmas/LinSpec.lean`).  A re-expression is a
  map on observation records (`trObs`, `rotObs`, `swapObs`, `flipObs`/`negObs`: `Lemmas/C07Lin.lean`);
  `coef row r c` is the coefficient of the unknown `(role r, coordinate c)` in a row.  The row
  relations are transported to solutions (`LS.IsLSSolution`: x, residuals v, Φ = vᵀPv, second
  criterion) by LS5 `IsLSSolution.perm`, LS6 `IsLSSolution.shift_single` and the two sign lemmas
  of `Lemmas/C07LS.lean`.

  Round 3: the row relations are ASSEMBLED into statements about the design matrix of the whole
  generated pass (`codeMatrixOf`) and its least-squares solution for the mirror, the circle rotation
  and the translation (`Lemmas/C07Assemble.lean`), the statistics are transported (cofactors,
  "belongs to S", σ, error ellipse on the regenerated `std_error_ellipse`: `Lemmas/C07Cofactor.lean`),
  and the degrees clause is about the shared model `Gama.Angles.deg2gon` (C18).

  Outside the theorems (explored by the metamorphic search only): the iteration of the
  linearisation to convergence, the approximate orientation (F15), number parsing/printing.
-/
import Gama.Lemmas.C07Lin
import Gama.Lemmas.C07Perm
import Gama.Lemmas.C07LS
import Gama.Lemmas.C07Input
import Gama.Lemmas.C07PointId
import Gama.Lemmas.C07Assemble
import Gama.Lemmas.C07Cofactor
namespace Gama.Props.C07
open Gama Gama.Lin Real Matrix

/-! ## translation -/

/-- translating every point (and the observed value of `X`, `Y`, `Z` observations) leaves the
    complete linearised row — right-hand side, coefficients, index events, thrown errors — of
    every one of the 13 observation types unchanged: only coordinate differences are read -/
theorem C07_translation (tx ty tz : ℝ) (fuel : Nat) (o : Obs ℝ) :
    Gen.Lin.direction fuel (trObs tx ty tz o) = Gen.Lin.direction fuel o ∧
    Gen.Lin.distance fuel (trObs tx ty tz o) = Gen.Lin.distance fuel o ∧
    Gen.Lin.angle fuel (trObs tx ty tz o) = Gen.Lin.angle fuel o ∧
    Gen.Lin.azimuth fuel (trObs tx ty tz o) = Gen.Lin.azimuth fuel o ∧
    Gen.Lin.s_distance fuel (trObs tx ty tz o) = Gen.Lin.s_distance fuel o ∧
    Gen.Lin.z_angle fuel (trObs tx ty tz o) = Gen.Lin.z_angle fuel o ∧
    Gen.Lin.h_diff fuel (trObs tx ty tz o) = Gen.Lin.h_diff fuel o ∧
    Gen.Lin.xdiff fuel (trObs tx ty tz o) = Gen.Lin.xdiff fuel o ∧
    Gen.Lin.ydiff fuel (trObs tx ty tz o) = Gen.Lin.ydiff fuel o ∧
    Gen.Lin.zdiff fuel (trObs tx ty tz o) = Gen.Lin.zdiff fuel o ∧
    Gen.Lin.x fuel { trObs tx ty tz o with value := o.value + tx } = Gen.Lin.x fuel o ∧
    Gen.Lin.y fuel { trObs tx ty tz o with value := o.value + ty } = Gen.Lin.y fuel o ∧
    Gen.Lin.z fuel { trObs tx ty tz o with value := o.value + tz } = Gen.Lin.z fuel o :=
  ⟨direction_tr .., distance_tr .., angle_tr .., azimuth_tr .., s_distance_tr .., z_angle_tr .., h_diff_tr ..,
   xdiff_tr .., ydiff_tr .., zdiff_tr .., x_tr .., y_tr .., z_tr ..⟩

/-! ## turning the zero of a direction set -/

/-- every direction of the set read `c` larger: the coefficients (all events) are unchanged and the
    right-hand side grows by `R2CC·c` up to whole circles; exactly `R2CC·c` when the shifted value
    stays in the window `(-200 gon, 200 gon]` — otherwise it WRAPS (the stated exception: then the
    rows of one set are shifted by different amounts and the set is not a pure shift along the
    orientation column) -/
theorem C07_circle_rotation (fuel fuel' : Nat) (c : ℝ) (o : Obs ℝ) (out out' : LinOut ℝ) (h : ¬ hdist o < CUT)
    (hok : Gen.Lin.direction fuel o = .ok out) (hok' : Gen.Lin.direction fuel' (rotObs c o) = .ok out') :
    out'.evs = out.evs ∧ (∃ k : ℤ, out'.rhs = out.rhs + c * R2CC - k * FULL) ∧
      (-HALF < out.rhs + c * R2CC → out.rhs + c * R2CC ≤ HALF → out'.rhs = out.rhs + c * R2CC) :=
  ⟨(direction_rot fuel fuel' c o out out' h hok hok').1, (direction_rot fuel fuel' c o out out' h hok hok').2,
   direction_rot_nowrap fuel fuel' c o out out' h hok hok'⟩

/-- the orientation coefficient of every direction row is `-1` (sign convention `v = Ax - b`) -/
theorem C07_orientation_coefficient (fuel : Nat) (o : Obs ℝ) (out : LinOut ℝ) (h : ¬ hdist o < CUT)
    (hok : Gen.Lin.direction fuel o = .ok out) : coef out.pushes .station .ori = -1 := by
  have e := (direction_ok fuel o out h hok).2
  simp only [LinOut.pushes, e, directionEvs]
  cases o.pfrom.free_xy <;> cases o.pto.free_xy <;> simp [coef, pushes]

/-- LS6: if exactly the rows `R` (the directions of one set, none of which wraps) have `-1` in the
    orientation column `k`, every other row `0`, and their right-hand sides grow by `d = R2CC·c`,
    then coordinates, residuals and Φ are unchanged and the orientation unknown changes by `-d`,
    provided the orientation unknown is not in the regularisation subset -/
theorem C07_circle_rotation_solution {𝕜 m n : Type*} [Field 𝕜] [Fintype m] [Fintype n] [DecidableEq m] [DecidableEq n]
    {A : Matrix m n 𝕜} {b b' : m → 𝕜} {P : Matrix m m 𝕜} {S : Finset n} {x : n → 𝕜} {v : m → 𝕜} {rtr : 𝕜}
    (k : n) (R : Finset m) (d : 𝕜) (hk : k ∉ S)
    (hcol : ∀ i, A i k = if i ∈ R then -1 else 0) (hb : ∀ i, b' i = if i ∈ R then b i + d else b i)
    (h : LS.IsLSSolution A b P S x v rtr) :
    LS.IsLSSolution A b' P S (x + (-d) • Pi.single k 1) v rtr := by
  rw [LS.rhs_shift_eq k R d b' hcol hb]
  exact h.shift_single k (-d) hk

/-! ## exchanging the ends of an observation -/

/-- distance and slope distance: same right-hand side, the coefficients of the two ends are
    exchanged with the ends; height and coordinate differences: the row changes sign together with
    the observed value -/
theorem C07_swap_distance (fuel : Nat) (o : Obs ℝ) :
    (∀ out out', ¬ hdist o < CUT → Gen.Lin.distance fuel o = .ok out → Gen.Lin.distance fuel (swapObs o) = .ok out' →
        out'.rhs = out.rhs ∧ ∀ r c, coef out'.pushes (swapRole r) c = coef out.pushes r c) ∧
    (∀ out out', Gen.Lin.s_distance fuel o = .ok out → Gen.Lin.s_distance fuel (swapObs o) = .ok out' →
        out'.rhs = out.rhs ∧ ∀ r c, coef out'.pushes (swapRole r) c = coef out.pushes r c) ∧
    (∃ out out', Gen.Lin.h_diff fuel o = .ok out ∧ Gen.Lin.h_diff fuel { swapObs o with value := -o.value } = .ok out' ∧
        out'.rhs = -out.rhs ∧ ∀ r c, coef out'.pushes (swapRole r) c = -coef out.pushes r c) ∧
    (∃ out out', Gen.Lin.xdiff fuel o = .ok out ∧ Gen.Lin.xdiff fuel { swapObs o with value := -o.value } = .ok out' ∧
        out'.rhs = -out.rhs ∧ ∀ r c, coef out'.pushes (swapRole r) c = -coef out.pushes r c) ∧
    (∃ out out', Gen.Lin.ydiff fuel o = .ok out ∧ Gen.Lin.ydiff fuel { swapObs o with value := -o.value } = .ok out' ∧
        out'.rhs = -out.rhs ∧ ∀ r c, coef out'.pushes (swapRole r) c = -coef out.pushes r c) ∧
    (∃ out out', Gen.Lin.zdiff fuel o = .ok out ∧ Gen.Lin.zdiff fuel { swapObs o with value := -o.value } = .ok out' ∧
        out'.rhs = -out.rhs ∧ ∀ r c, coef out'.pushes (swapRole r) c = -coef out.pushes r c) :=
  ⟨fun out out' h => distance_swap fuel o out out' h, fun out out' => s_distance_swap fuel o out out',
   h_diff_swap fuel o, xdiff_swap fuel o, ydiff_swap fuel o, zdiff_swap fuel o⟩

/-! ## order of points / clusters / observations, names of points -/

/-- index assignment "first use wins": every index written into a row equals the index its unknown
    has at the end of the pass, so a row is determined by the identities of its unknowns; the
    table stays a bijection onto `1..maxn` and an index once assigned never changes -/
theorem C07_index_first_use {K : Type} (name : Role → Coord → Unk) (evs : List (Ev K)) (s : IdxState)
    (h : s.WF) (hw : wellTouched evs [] = true) :
    (runEvs name evs s).2 = (pushes evs).map (fun p => ((runEvs name evs s).1.get (name p.1 p.2.1), p.2.2)) ∧
    (runEvs name evs s).1.WF ∧ ∀ u, s.get u ≠ 0 → (runEvs name evs s).1.get u = s.get u :=
  ⟨runEvs_rows_final name evs s [] h (by simp) hw, (runEvs_wf name evs s h).1, (runEvs_wf name evs s h).2.2⟩

/-- the design matrix `project_equations` builds (`codeMatrixOf`: row `r` = the `(index, coeff)` pairs
    of the `r`-th processed observation, columns `1..maxn` of the final index table) for two
    processing orders `σ`, `τ` of the same observations: `A_τ = A_σ.submatrix ρ κ` with the row
    permutation `ρ = σ⁻¹ ∘ τ` and the column renumbering `κ = index_σ ∘ index_τ⁻¹` (both tables
    index exactly the allocated unknowns `touchedSet`, whatever the order) -/
theorem C07_permutation_matrix {K : Type} [Field K] {m : Nat} (obs : Fin m → Ob K)
    (hw : ∀ i, wellTouched (obs i).evs [] = true) (σ τ : Equiv.Perm (Fin m)) :
    codeMatrixOf obs τ =
      (codeMatrixOf obs σ).submatrix (τ.trans σ.symm) ((colEq obs hw τ).symm.trans (colEq obs hw σ)) :=
  codeMatrixOf_perm obs hw σ τ

/-- reordering observations (hence clusters, and — since points are numbered on first use — points):
    a solution of the problem generated in order `σ` (right-hand sides `rhs`, weights `W` attached to
    the observations) gives the solution of the problem generated in order `τ`: unknowns renumbered
    by `κ`, residuals permuted by `ρ`, same Φ, regularisation subset transported (LS5 applied to the
    generated matrices) -/
theorem C07_permutation {K : Type} [Field K] {m : Nat} (obs : Fin m → Ob K)
    (hw : ∀ i, wellTouched (obs i).evs [] = true) (rhs : Fin m → K) (W : Matrix (Fin m) (Fin m) K)
    (σ τ : Equiv.Perm (Fin m)) (S : Finset (Fin (finalState obs σ).maxn))
    (x : Fin (finalState obs σ).maxn → K) (v : Fin m → K) (rtr : K)
    (h : LS.IsLSSolution (codeMatrixOf obs σ) (rhs ∘ σ) (W.submatrix σ σ) S x v rtr) :
    LS.IsLSSolution (codeMatrixOf obs τ) (rhs ∘ τ) (W.submatrix τ τ)
      (S.map ((colEq obs hw τ).symm.trans (colEq obs hw σ)).symm.toEmbedding)
      (x ∘ ((colEq obs hw τ).symm.trans (colEq obs hw σ))) (v ∘ (τ.trans σ.symm)) rtr := by
  have := h.perm (τ.trans σ.symm) ((colEq obs hw τ).symm.trans (colEq obs hw σ))
  rw [← codeMatrixOf_perm obs hw σ τ] at this
  have e1 : (rhs ∘ σ) ∘ (τ.trans σ.symm) = rhs ∘ τ := by funext r; simp
  have e2 : (W.submatrix σ σ).submatrix (τ.trans σ.symm) (τ.trans σ.symm) = W.submatrix τ τ := by
    ext r c; simp
  rw [e1, e2] at this
  exact this

/-- LS5: the solution of the row- and column-permuted problem is the permuted solution (same
    residuals per observation, same Φ, regularisation subset transported) -/
theorem C07_permutation_solution {𝕜 m n m' n' : Type*} [Field 𝕜] [Fintype m] [Fintype n] [Fintype m'] [Fintype n']
    {A : Matrix m n 𝕜} {b : m → 𝕜} {P : Matrix m m 𝕜} {S : Finset n} {x : n → 𝕜} {v : m → 𝕜} {rtr : 𝕜}
    (e₁ : m' ≃ m) (e₂ : n' ≃ n) (h : LS.IsLSSolution A b P S x v rtr) :
    LS.IsLSSolution (A.submatrix e₁ e₂) (b ∘ e₁) (P.submatrix e₁ e₁) (S.map e₂.symm.toEmbedding) (x ∘ e₂) (v ∘ e₁) rtr :=
  h.perm e₁ e₂

/-- renaming the points (any injective map of the unknowns' identities) changes nothing in the
    rows: same indices, same coefficients; only the table is relabelled.  (Index assignment follows
    the order of the observations, not the order of the point map.) -/
theorem C07_rename {K : Type} (f : Unk → Unk) (hf : Function.Injective f) (name : Role → Coord → Unk)
    (evs : List (Ev K)) (s : IdxState) :
    runEvs (fun r c => f (name r c)) evs (s.mapKeys f) = ((runEvs name evs s).1.mapKeys f, (runEvs name evs s).2) :=
  runEvs_rename f hf name evs s

/-- `PointID::operator<` (as coded: numeric ids by value first, then byte strings) is a strict total
    order on the identifiers `PointID::init` makes out of ANY byte strings: irreflexive, transitive,
    trichotomous, and `==` is equality of the normalised identifier — `std::map<PointID, …>` is used
    within its contract -/
theorem C07_pointid_total_order (s t u : PointId.Bytes) :
    PointId.lt (PointId.init s) (PointId.init s) = false ∧
    (PointId.lt (PointId.init s) (PointId.init t) = true → PointId.lt (PointId.init t) (PointId.init u) = true →
        PointId.lt (PointId.init s) (PointId.init u) = true) ∧
    (PointId.lt (PointId.init s) (PointId.init t) = true ∨ PointId.init s = PointId.init t ∨
        PointId.lt (PointId.init t) (PointId.init s) = true) ∧
    (PointId.lt (PointId.init s) (PointId.init t) = true → PointId.lt (PointId.init t) (PointId.init s) = false) ∧
    (PointId.eq (PointId.init s) (PointId.init t) = true ↔ PointId.init s = PointId.init t) ∧
    PointId.ne (PointId.init s) (PointId.init t) = !PointId.eq (PointId.init s) (PointId.init t) :=
  ⟨PointId.lt_irrefl _, PointId.lt_trans, PointId.lt_trichotomy (PointId.init_valid s) (PointId.init_valid t),
   PointId.lt_asymm, PointId.eq_iff _ _, PointId.ne_eq_not_eq _ _⟩

/-! ## degrees instead of gons -/

/-- degrees instead of gons, on the SHARED model of `deg2gon` (`Gama.Angles.deg2gon`, the model C18
    ties to gon2deg.cpp; `Input.angularValue` — what `process_direction/angle/zangle/azimuth` store —
    calls it): EVERY string the model accepts (`parseDms str = some (sign, d, m, s)`: white space,
    signs, exponents included) is read as `±(d + m/60 + s/3600)·10/9` gon, so a sexagesimal value and
    the centesimal value `g` of the same angle are stored as the same radians; a standard deviation of
    `0.324·σ` seconds next to it gives the same variance as `σ` cc (`1.0/0.324` is exactly
    `400·10⁴/(360·3600)`); hence identical rows of every angular type -/
theorem C07_deg_gon (str : String) (neg : Bool) (d m : ℤ) (s : ℕ × ℤ) (hp : Angles.parseDms str = some (neg, d, m, s))
    (g σ : ℝ) (hg : g = Input.dmsSign neg * (((d : ℝ) + (m : ℝ) / 60 + (s.1 : ℝ) * (10 : ℝ) ^ s.2 / 3600) * (10 / 9)))
    (fuel : Nat) (o : Obs ℝ) :
    (Angles.deg2gon str : Option ℝ) = some g ∧
    (Input.angularValue str : Option (ℝ × Bool)) = some (g, true) ∧
    Input.variance (0.324 * σ) true = Input.variance σ false ∧
    (Input.secScale : ℝ) = (400 * 10 ^ 4) / (360 * 3600) ∧
    (∀ v : ℝ, (Angles.deg2gon str : Option ℝ) = some v →
      Gen.Lin.direction fuel { o with value := Input.toRadians v } = Gen.Lin.direction fuel { o with value := Input.toRadians g } ∧
      Gen.Lin.angle fuel { o with value := Input.toRadians v } = Gen.Lin.angle fuel { o with value := Input.toRadians g } ∧
      Gen.Lin.z_angle fuel { o with value := Input.toRadians v } = Gen.Lin.z_angle fuel { o with value := Input.toRadians g } ∧
      Gen.Lin.azimuth fuel { o with value := Input.toRadians v } = Gen.Lin.azimuth fuel { o with value := Input.toRadians g }) := by
  have e : (Angles.deg2gon str : Option ℝ) = some g := by
    rw [Input.deg2gon_real str neg d m s hp, hg, Input.sciToK_real]
  refine ⟨e, Input.angularValue_deg str g e, Input.variance_deg σ, Input.secScale_real, fun v hv => ?_⟩
  have : v = g := Option.some.inj (hv.symm.trans e)
  subst this
  exact ⟨rfl, rfl, rfl, rfl⟩

/-! ## mirrored axes, sense of angles -/

/-- `remove_inconsistency` acts exactly when axes and angles disagree (then: y of the points, values
    of `Y`/`Ydiff`, covariances between mirrored and other components change sign —
    `Input.changeYSigns_spec`), is idempotent and undone by `return_inconsistency`; the printed y is
    `y_sign·y` with `y_sign² = 1` -/
theorem C07_remove_inconsistency (n : Input.Net ℝ) :
    (Input.consistent n.cs n.leftHandedAngles = true → Input.removeInconsistency n = n) ∧
    Input.removeInconsistency (Input.removeInconsistency n) = Input.removeInconsistency n ∧
    (n.removed = false → Input.returnInconsistency (Input.removeInconsistency n) = n) ∧
    (Input.ySign n.cs n.leftHandedAngles : ℝ) * Input.ySign n.cs n.leftHandedAngles = 1 := by
  refine ⟨fun h => by simp [Input.removeInconsistency, h], Input.removeInconsistency_idem n, Input.return_remove n,
    Input.ySign_sq _ _⟩

/-- mirroring y (what `remove_inconsistency` does to the coordinates) in the linearised problem, all
    13 types.  Distance, slope distance, zenith angle: same right-hand side, exactly the
    y-coefficients change sign; height differences, `X`, `Z`, `Xdiff`, `Zdiff`: literally unchanged;
    `Y`/`Ydiff` with negated value: right-hand side negated, coefficients kept (= the negative of the
    row with the y-column negated); direction, azimuth, angle read in the other sense (`negObs`: value,
    orientation, bearing of the x axis negated): the coefficients are the negative of the row with the
    y- and orientation-columns negated, and the right-hand side is exactly the negative one — except
    at the closed end of the window: `+200 gon` stays `+200 gon` -/
theorem C07_mirror (fuel fuel' : Nat) (o : Obs ℝ) :
    (∀ out out', ¬ hdist o < CUT → Gen.Lin.distance fuel o = .ok out → Gen.Lin.distance fuel (flipObs o) = .ok out' →
        out'.rhs = out.rhs ∧ ∀ r c, coef out'.pushes r c = ySgn c * coef out.pushes r c) ∧
    (∀ out out', Gen.Lin.s_distance fuel o = .ok out → Gen.Lin.s_distance fuel (flipObs o) = .ok out' →
        out'.rhs = out.rhs ∧ ∀ r c, coef out'.pushes r c = ySgn c * coef out.pushes r c) ∧
    (∀ out out', Gen.Lin.z_angle fuel o = .ok out → Gen.Lin.z_angle fuel (flipObs o) = .ok out' →
        out'.rhs = out.rhs ∧ ∀ r c, coef out'.pushes r c = ySgn c * coef out.pushes r c) ∧
    Gen.Lin.h_diff fuel (flipObs o) = Gen.Lin.h_diff fuel o ∧ Gen.Lin.x fuel (flipObs o) = Gen.Lin.x fuel o ∧
    Gen.Lin.z fuel (flipObs o) = Gen.Lin.z fuel o ∧ Gen.Lin.xdiff fuel (flipObs o) = Gen.Lin.xdiff fuel o ∧
    Gen.Lin.zdiff fuel (flipObs o) = Gen.Lin.zdiff fuel o ∧
    (∃ out out', Gen.Lin.y fuel o = .ok out ∧ Gen.Lin.y fuel { flipObs o with value := -o.value } = .ok out' ∧
        out'.rhs = -out.rhs ∧ out'.evs = out.evs) ∧
    (∃ out out', Gen.Lin.ydiff fuel o = .ok out ∧ Gen.Lin.ydiff fuel { flipObs o with value := -o.value } = .ok out' ∧
        out'.rhs = -out.rhs ∧ out'.evs = out.evs) ∧
    (∀ out out', ¬ hdist o < CUT → Gen.Lin.direction fuel o = .ok out → Gen.Lin.direction fuel' (negObs o) = .ok out' →
        ((out.rhs ≠ HALF → out'.rhs = -out.rhs) ∧ (out.rhs = HALF → out'.rhs = HALF)) ∧
          ∀ r c, coef out'.pushes r c = -(mirrorSgn c * coef out.pushes r c)) ∧
    (∀ out out', ¬ hdist o < CUT → Gen.Lin.azimuth fuel o = .ok out → Gen.Lin.azimuth fuel' (negObs o) = .ok out' →
        ((out.rhs ≠ HALF → out'.rhs = -out.rhs) ∧ (out.rhs = HALF → out'.rhs = HALF)) ∧
          ∀ r c, coef out'.pushes r c = -(mirrorSgn c * coef out.pushes r c)) ∧
    (∀ out out', ¬ hdist o < CUT → ¬ hdist2 o < CUT → Gen.Lin.angle fuel o = .ok out →
        Gen.Lin.angle fuel' (negObs o) = .ok out' →
        ((out.rhs ≠ HALF → out'.rhs = -out.rhs) ∧ (out.rhs = HALF → out'.rhs = HALF)) ∧
          ∀ r c, coef out'.pushes r c = -(mirrorSgn c * coef out.pushes r c)) :=
  ⟨fun out out' h => distance_flip fuel o out out' h, fun out out' => s_distance_flip fuel o out out',
   fun out out' => z_angle_flip fuel o out out',
   h_diff_flip fuel o, x_flip fuel o, z_flip fuel o, xdiff_flip fuel o, zdiff_flip fuel o, y_flip fuel o, ydiff_flip fuel o,
   fun out out' h hok hok' => ⟨direction_flip_rhs fuel fuel' o out out' h hok hok', (direction_flip fuel fuel' o out out' h hok hok').2⟩,
   fun out out' h => azimuth_flip fuel fuel' o out out' h,
   fun out out' h h2 => angle_flip fuel fuel' o out out' h h2⟩

/-- transport of the mirror relation: negating the columns `t j = -1` (y unknowns, orientations)
    and the rows `s i = -1` (angular rows, `Y`, `Ydiff`) together with their right-hand sides gives
    the solution with those unknowns and residuals negated and the same Φ — PROVIDED the weight
    matrix is conjugated by the row signs -/
theorem C07_mirror_solution {𝕜 m n : Type*} [Field 𝕜] [Fintype m] [Fintype n] [DecidableEq m] [DecidableEq n]
    {A : Matrix m n 𝕜} {b : m → 𝕜} {P : Matrix m m 𝕜} {S : Finset n} {x : n → 𝕜} {v : m → 𝕜} {rtr : 𝕜}
    (s : m → 𝕜) (t : n → 𝕜) (hs : ∀ i, s i * s i = 1) (ht : ∀ j, t j * t j = 1)
    (h : LS.IsLSSolution A b P S x v rtr) :
    LS.IsLSSolution (diagonal s * A * diagonal t) (diagonal s *ᵥ b) (diagonal s * P * diagonal s) S
      (diagonal t *ᵥ x) (diagonal s *ᵥ v) rtr :=
  (h.rowSign s hs).colSign t ht

/-- the modelled normalisation (`change_y_signs_for_inconsistent_system_` after fix c7fddb0; C07-F1
    before it: the covariances kept their sign, regression inputs corpus/C07/f1-mirror-covariance.*)
    conjugates the covariance matrix of every cluster by the signs of its mirrored components,
    `C' = D_s C D_s` with `s = -1` exactly on `Y`/`Ydiff`, hence its weight matrix too
    (`C P = 1 → C' (D_s P D_s) = 1`) — which is the weight matrix `C07_mirror_solution` asks for -/
theorem C07_mirror_covariance (obs : List (Input.NetObs ℝ)) (d : Nat) (hd : d ≤ obs.length) (C : Nat → Nat → ℝ)
    (P : Matrix (Fin d) (Fin d) ℝ) (hP : (Matrix.of fun i j : Fin d => C i j) * P = 1) :
    (Matrix.of fun i j : Fin d => (Input.flipCluster ⟨obs, d, C⟩).cov i j) =
        diagonal (fun i : Fin d => Input.sgnAt obs i) * (Matrix.of fun i j : Fin d => C i j) *
          diagonal (fun i : Fin d => Input.sgnAt obs i) ∧
    (Matrix.of fun i j : Fin d => (Input.flipCluster ⟨obs, d, C⟩).cov i j) *
        (diagonal (fun i : Fin d => Input.sgnAt obs i) * P * diagonal (fun i : Fin d => Input.sgnAt obs i)) = 1 ∧
    (∀ i : Fin d, Input.sgnAt obs i = if (obs[(i : Nat)]?.map Input.NetObs.mirrored).getD false then -1 else 1) := by
  have e := Input.flipCov_conj obs d hd C
  refine ⟨e, ?_, fun i => ?_⟩
  · show (Matrix.of fun i j : Fin d => Input.flipCov obs d C i j) * _ = 1
    rw [e]
    exact Input.conj_inverse _ (fun i => Input.sgnAt_sq obs i) _ P hP
  · unfold Input.sgnAt Input.mirroredAt
    cases obs[(i : Nat)]? <;> rfl

/-! ## assembled: the whole generated pass and its least-squares solution -/

/-- **translation, assembled**: the translated description of a whole pass (every point moved;
    observed `X`, `Y`, `Z` moved with it) linearises to exactly the same outputs, i.e. the same
    design matrix `codeMatrixOf`, the same right-hand sides: the identical least-squares problem -/
theorem C07_translation_assembled {m : Nat} (tx ty tz : ℝ) (fuel : Nat) (rows : Fin m → GenRow) (outs : Fin m → LinOut ℝ) :
    Linearises fuel (fun i => { rows i with o := trKind tx ty tz (rows i).kind (rows i).o }) outs ↔
      Linearises fuel rows outs :=
  translation_pass tx ty tz fuel rows outs

/-- **mirror, assembled (matrix)**: for a pass of observations of any of the 13 classes that
    linearises in both descriptions, the design matrix `project_equations` builds from the mirrored
    description is `D_s · A · D_t`: `s = -1` on the rows of directions, angles, azimuths, `Y`, `Ydiff`;
    `t = -1` on the columns of `y` unknowns and orientations; both descriptions allocate the same
    unknowns in the same order, so the columns are identified by their number (`castCol`) -/
theorem C07_mirror_matrix {m : Nat} (fuel fuel' : Nat) (rows : Fin m → GenRow) (outs outs' : Fin m → LinOut ℝ)
    (hl : Linearises fuel rows outs) (hl' : Linearises fuel' (fun i => mirRow (rows i)) outs')
    (hg : ∀ i, guard (rows i).kind (rows i).o) (hname : ∀ i r c, ((rows i).name r c).c = c)
    (σ : Equiv.Perm (Fin m)) :
    ∃ (hT : ∀ i, touchedU (obOf rows outs' i) = touchedU (obOf rows outs i)),
      codeMatrixOf (obOf rows outs') σ =
        (diagonal (fun r => rowSgn (rows (σ r)).kind) * codeMatrixOf (obOf rows outs) σ *
          diagonal (fun j => mirrorSgn (colUnk (obOf rows outs) (obOf_wellTouched fuel rows outs hl hg) σ j).c)).submatrix
          (Equiv.refl _) (castCol (obOf rows outs) (obOf rows outs') hT σ) :=
  mirror_codeMatrixOf fuel fuel' rows outs outs' hl hl' hg hname σ

/-- **mirror, assembled (solution)**: if `(x, v, Φ)` is the least-squares solution of the pass
    (right-hand sides of the generated rows, any weight matrix `P`, regularisation subset `S`), then
    the pass generated from the mirrored description — whose weight matrix is `D_s P D_s`, which is
    what the normalisation produces (`C07_mirror_covariance`) — has the solution with the `y`
    unknowns and orientations negated, the residuals of the mirrored rows negated, the same Φ and
    the same regularisation subset.  Exception, stated as hypothesis `hnb`: a direction/angle/azimuth
    whose right-hand side is EXACTLY `+200 gon` keeps `+200 gon` in the mirrored description
    (`C07_mirror`), so its row is not the negative row -/
theorem C07_mirror_assembled {m : Nat} (fuel fuel' : Nat) (rows : Fin m → GenRow) (outs outs' : Fin m → LinOut ℝ)
    (hl : Linearises fuel rows outs) (hl' : Linearises fuel' (fun i => mirRow (rows i)) outs')
    (hg : ∀ i, guard (rows i).kind (rows i).o) (hname : ∀ i r c, ((rows i).name r c).c = c)
    (hnb : ∀ i, (rows i).kind.angular = true → (outs i).rhs ≠ HALF) (σ : Equiv.Perm (Fin m))
    (P : Matrix (Fin m) (Fin m) ℝ) (S : Finset (Fin (finalState (obOf rows outs) σ).maxn))
    (x : Fin (finalState (obOf rows outs) σ).maxn → ℝ) (v : Fin m → ℝ) (rtr : ℝ)
    (h : LS.IsLSSolution (codeMatrixOf (obOf rows outs) σ) (fun r => (outs (σ r)).rhs) P S x v rtr) :
    ∃ (hT : ∀ i, touchedU (obOf rows outs' i) = touchedU (obOf rows outs i)),
      LS.IsLSSolution (codeMatrixOf (obOf rows outs') σ) (fun r => (outs' (σ r)).rhs)
        (diagonal (fun r => rowSgn (rows (σ r)).kind) * P * diagonal (fun r => rowSgn (rows (σ r)).kind))
        (S.map (castCol (obOf rows outs) (obOf rows outs') hT σ).symm.toEmbedding)
        ((diagonal (fun j => mirrorSgn (colUnk (obOf rows outs) (obOf_wellTouched fuel rows outs hl hg) σ j).c) *ᵥ x) ∘
          castCol (obOf rows outs) (obOf rows outs') hT σ)
        (diagonal (fun r => rowSgn (rows (σ r)).kind) *ᵥ v) rtr :=
  mirror_solution fuel fuel' rows outs outs' hl hl' hg hname hnb σ P S x v rtr h

/-- **non-wrapping sufficient condition for a whole direction set, and the wrap exception.**
    If every direction of the set satisfies `|rhsᵢ + c·R2CC| < 200 gon`, every row of the turned set
    has identical events and its right-hand side is exactly `rhsᵢ + c·R2CC` (the hypotheses of LS6).
    A row whose shifted right-hand side leaves `(-200, 200]` gon is shifted by `c·R2CC − k·400 gon`
    with `k ≠ 0` instead: it wraps, and the set is no longer a shift along the orientation column. -/
theorem C07_circle_rotation_nowrap {m : Nat} (fuel fuel' : Nat) (c : ℝ) (rows : Fin m → GenRow) (outs outs' : Fin m → LinOut ℝ)
    (R : Finset (Fin m)) (hdir : ∀ i ∈ R, (rows i).kind = .direction ∧ ¬ hdist (rows i).o < CUT)
    (hl : ∀ i ∈ R, Gen.Lin.direction fuel (rows i).o = .ok (outs i))
    (hl' : ∀ i ∈ R, Gen.Lin.direction fuel' (rotObs c (rows i).o) = .ok (outs' i)) :
    ((∀ i ∈ R, |(outs i).rhs + c * R2CC| < HALF) →
      ∀ i ∈ R, (outs' i).evs = (outs i).evs ∧ (outs' i).rhs = (outs i).rhs + c * R2CC) ∧
    (∀ i ∈ R, ((outs i).rhs + c * R2CC ≤ -HALF ∨ HALF < (outs i).rhs + c * R2CC) →
      ∃ k : ℤ, k ≠ 0 ∧ (outs' i).rhs = (outs i).rhs + c * R2CC - k * FULL) :=
  ⟨rotation_nowrap_set fuel fuel' c rows outs outs' R hdir hl hl',
   fun i hi hw => rotation_wrap_exception fuel fuel' c _ _ _ (hdir i hi).2 (hl i hi) (hl' i hi) hw⟩

/-- **circle rotation, assembled**: in a pass of observations of any classes, the directions `R` of
    one set (orientation unknown `uOri`, orientation unknown of no other row) are read `c` larger and
    none of them wraps.  Then the re-expressed pass builds literally the same observations-as-rows
    (`obOf`, hence the same `codeMatrixOf`), and, when `uOri` is not in the regularisation subset, its
    least-squares solution has the same coordinates, residuals and Φ and the orientation unknown
    smaller by `c·R2CC` (LS6 applied to the generated matrix) -/
theorem C07_circle_rotation_assembled {m : Nat} (fuel fuel' : Nat) (c : ℝ) (rows : Fin m → GenRow)
    (outs outs' : Fin m → LinOut ℝ) (R : Finset (Fin m)) (hR : R.Nonempty) (uOri : Unk) (hori : uOri.c = .ori)
    (hg : ∀ i, guard (rows i).kind (rows i).o) (hname : ∀ i r c, ((rows i).name r c).c = c)
    (hdir : ∀ i ∈ R, (rows i).kind = .direction ∧ (rows i).name .station .ori = uOri)
    (hother : ∀ i, i ∉ R → ∀ r, (rows i).name r .ori ≠ uOri)
    (hl : Linearises fuel rows outs)
    (hl' : ∀ i ∈ R, Gen.Lin.direction fuel' (rotObs c (rows i).o) = .ok (outs' i))
    (hsmall : ∀ i ∈ R, |(outs i).rhs + c * R2CC| < HALF)
    (σ : Equiv.Perm (Fin m)) (P : Matrix (Fin m) (Fin m) ℝ) (S : Finset (Fin (finalState (obOf rows outs) σ).maxn))
    (x : Fin (finalState (obOf rows outs) σ).maxn → ℝ) (v : Fin m → ℝ) (rtr : ℝ)
    (h : LS.IsLSSolution (codeMatrixOf (obOf rows outs) σ) (fun r => (outs (σ r)).rhs) P S x v rtr) :
    obOf rows (fun i => if i ∈ R then outs' i else outs i) = obOf rows outs ∧
    ∃ hu : uOri ∈ touchedSet (obOf rows outs),
      (colOf (obOf rows outs) (obOf_wellTouched fuel rows outs hl hg) σ uOri hu ∉ S →
        LS.IsLSSolution (codeMatrixOf (obOf rows outs) σ) (fun r => (if σ r ∈ R then outs' (σ r) else outs (σ r)).rhs) P S
          (x + (-(c * R2CC)) • Pi.single (colOf (obOf rows outs) (obOf_wellTouched fuel rows outs hl hg) σ uOri hu) 1)
          v rtr) :=
  rotation_solution fuel fuel' c rows outs outs' R hR uOri hori hg hname hdir hother hl hl' hsmall σ P S x v rtr h

/-- **swap of the ends (and any identity-preserving re-expression), assembled.**  (1) A distance with its
    ends exchanged (`name ∘ swapRole`: the same two points) has the same right-hand side, allocates the
    same set of unknowns (in the other order) and gives every unknown — by identity — the same
    coefficient.  (2) Two descriptions of a pass with these two properties in every row build design
    matrices related by the row permutation `σ⁻¹∘τ` and the column renumbering that matches unknowns by
    identity, and the least-squares solution of one is the renumbered solution of the other (same
    residual per observation, same Φ) — for any two processing orders `σ`, `τ`. -/
theorem C07_swap_assembled {m : Nat} (obs obs' : Fin m → Ob ℝ)
    (hw : ∀ i, wellTouched (obs i).evs [] = true) (hw' : ∀ i, wellTouched (obs' i).evs [] = true)
    (hS : touchedSet obs' = touchedSet obs) (hc : ∀ i u, identCoef (obs' i) u = identCoef (obs i) u)
    (σ τ : Equiv.Perm (Fin m)) :
    (∀ (fuel : Nat) (o : Obs ℝ) (name : Role → Coord → Unk) (out out' : LinOut ℝ), ¬ hdist o < CUT →
      Gen.Lin.distance fuel o = .ok out → Gen.Lin.distance fuel (swapObs o) = .ok out' →
      out'.rhs = out.rhs ∧
      (touchedU ⟨fun r c => name (swapRole r) c, out'.evs⟩).toFinset = (touchedU ⟨name, out.evs⟩).toFinset ∧
      ∀ u, identCoef ⟨fun r c => name (swapRole r) c, out'.evs⟩ u = identCoef ⟨name, out.evs⟩ u) ∧
    codeMatrixOf obs' τ = (codeMatrixOf obs σ).submatrix (τ.trans σ.symm) (identCol obs obs' hw hw' hS σ τ) ∧
    (∀ (rhs : Fin m → ℝ) (W : Matrix (Fin m) (Fin m) ℝ) (S : Finset (Fin (finalState obs σ).maxn))
      (x : Fin (finalState obs σ).maxn → ℝ) (v : Fin m → ℝ) (rtr : ℝ),
      LS.IsLSSolution (codeMatrixOf obs σ) (rhs ∘ σ) (W.submatrix σ σ) S x v rtr →
      LS.IsLSSolution (codeMatrixOf obs' τ) (rhs ∘ τ) (W.submatrix τ τ)
        (S.map (identCol obs obs' hw hw' hS σ τ).symm.toEmbedding)
        (x ∘ identCol obs obs' hw hw' hS σ τ) (v ∘ (τ.trans σ.symm)) rtr) :=
  ⟨fun fuel o name out out' h hok hok' => distance_swap_ident fuel o name out out' h hok hok',
   codeMatrixOf_ident obs obs' hw hw' hS hc σ τ,
   fun rhs W S x v rtr h => solution_ident obs obs' hw hw' hS hc σ τ rhs W S x v rtr h⟩

/-! ## statistics -/

/-- **cofactor transport.**  `Q` a reflexive generalised inverse of the normal matrix `N = AᵀPA` that
    belongs to the regularisation subset `S`.  (1) For any invertible change of unknowns `T`,
    `T⁻¹ Q T⁻ᵀ` is a reflexive g-inverse of `Tᵀ N T`.  (2) Mirror (`A' = D_s A D_t`, `P' = D_s P D_s`):
    the normal matrix is `D_t N D_t`, `Q' = D_t Q D_t` is a reflexive g-inverse of it and belongs to
    `S`; entry-wise `q'ᵢⱼ = tᵢ tⱼ qᵢⱼ`: every variance (hence every σ) is unchanged and the covariance
    between a mirrored and a not mirrored unknown changes sign; the cofactors of the adjusted
    observations are `D_s (A Q Aᵀ) D_s`, diagonal unchanged.  (3) Renumbering (`A.submatrix e₁ e₂`):
    `Q.submatrix e₂ e₂`, belonging to the carried subset. -/
theorem C07_cofactor_transport {m n m' n' : Type*} [Fintype m] [Fintype n] [Fintype m'] [Fintype n']
    [DecidableEq m] [DecidableEq n] [DecidableEq m'] [DecidableEq n']
    (A : Matrix m n ℝ) (P : Matrix m m ℝ) (Q : Matrix n n ℝ) (S : Finset n)
    (hQ : LS.IsReflGInv (Aᵀ * P * A) Q) (hb : LS.BelongsTo A S Q) :
    (∀ T Ti : Matrix n n ℝ, T * Ti = 1 → LS.IsReflGInv (Tᵀ * (Aᵀ * P * A) * T) (Ti * Q * Tiᵀ)) ∧
    (∀ (s : m → ℝ) (t : n → ℝ), (∀ i, s i * s i = 1) → (∀ j, t j * t j = 1) →
      LS.IsReflGInv ((diagonal s * A * diagonal t)ᵀ * (diagonal s * P * diagonal s) * (diagonal s * A * diagonal t))
        (diagonal t * Q * diagonal t) ∧
      LS.BelongsTo (diagonal s * A * diagonal t) S (diagonal t * Q * diagonal t) ∧
      (∀ i j, (diagonal t * Q * diagonal t) i j = t i * t j * Q i j) ∧
      (∀ j, (diagonal t * Q * diagonal t) j j = Q j j) ∧
      (∀ i j, t i = -t j → (diagonal t * Q * diagonal t) i j = -Q i j) ∧
      (diagonal s * A * diagonal t) * (diagonal t * Q * diagonal t) * (diagonal s * A * diagonal t)ᵀ =
        diagonal s * (A * Q * Aᵀ) * diagonal s ∧
      (∀ i, (diagonal s * (A * Q * Aᵀ) * diagonal s) i i = (A * Q * Aᵀ) i i)) ∧
    (∀ (e₁ : m' ≃ m) (e₂ : n' ≃ n),
      LS.IsReflGInv ((A.submatrix e₁ e₂)ᵀ * (P.submatrix e₁ e₁) * (A.submatrix e₁ e₂)) (Q.submatrix e₂ e₂) ∧
      LS.BelongsTo (A.submatrix e₁ e₂) (S.map e₂.symm.toEmbedding) (Q.submatrix e₂ e₂)) := by
  refine ⟨fun T Ti h => LS.reflGInv_congr h hQ, fun s t hs ht => ?_, fun e₁ e₂ => ?_⟩
  · refine ⟨?_, LS.belongsTo_sign s t hs ht hb, LS.conj_sign_apply t Q, fun j => ?_, fun i j hij => ?_,
      LS.qbb_sign A Q s t ht, fun i => ?_⟩
    · rw [LS.normalMatrix_sign A P s t hs]; exact LS.reflGInv_sign t ht hQ
    · rw [LS.conj_sign_apply, ht, one_mul]
    · rw [LS.conj_sign_apply, hij]
      have := ht j
      calc -t j * t j * Q i j = -(t j * t j) * Q i j := by ring
        _ = -Q i j := by rw [this]; ring
    · rw [LS.conj_sign_apply, hs, one_mul]
  · exact ⟨by rw [LS.normalMatrix_perm]; exact LS.reflGInv_perm e₂ hQ, LS.belongsTo_perm e₁ e₂ hb⟩

/-- **error ellipse under the y flip**, on the `std_error_ellipse` regenerated from network.h
    (`Gen/StatsGen.lean`; the same definition `C09_ellipse_is_eigen_full` characterises as the
    eigen-decomposition of the block): by `C07_cofactor_transport` the mirrored description has the
    block `(cxx, -cxy, cyy)`; the reported semi-axes are the same and the bearing of the major axis
    is `π − α`, with `α = 0 ↦ 0` (i.e. `π − α` modulo `π`, both in `[0, π)`), for EVERY block and `m0` -/
theorem C07_ellipse_transport (cxx cxy cyy m : ℝ) :
    (StatsGen.stdErrorEllipse cyy (-cxy) cxx m).1 = (StatsGen.stdErrorEllipse cyy cxy cxx m).1 ∧
    (StatsGen.stdErrorEllipse cyy (-cxy) cxx m).2.1 = (StatsGen.stdErrorEllipse cyy cxy cxx m).2.1 ∧
    (StatsGen.stdErrorEllipse cyy (-cxy) cxx m).2.2 =
      (if (StatsGen.stdErrorEllipse cyy cxy cxx m).2.2 = 0 then 0 else π - (StatsGen.stdErrorEllipse cyy cxy cxx m).2.2) ∧
    0 ≤ (StatsGen.stdErrorEllipse cyy cxy cxx m).2.2 ∧ (StatsGen.stdErrorEllipse cyy cxy cxx m).2.2 < π :=
  ellipse_mirror cxx cxy cyy m

/-! ## non-vacuity -/

/-- a concrete sight (3-4-5 triangle, both ends free) on which translation, swap and mirror
    theorems have their hypotheses met and all four coefficients present -/
example : ∃ o : Obs ℝ, ¬ hdist o < CUT ∧ (∃ out, Gen.Lin.distance 0 o = .ok out ∧ out.pushes.length = 4) ∧
    (∃ out, Gen.Lin.distance 0 (swapObs o) = .ok out ∧ out.pushes.length = 4) ∧
    (∃ out, Gen.Lin.distance 0 (flipObs o) = .ok out ∧ out.pushes.length = 4) := by
  have hc : ¬ hdist Lin.face2Witness < CUT := by rw [Lin.face2Witness_hdist]; unfold CUT; norm_num
  have hs : ¬ hdist (swapObs Lin.face2Witness) < CUT := by rw [hdist_swap]; exact hc
  have hf : ¬ hdist (flipObs Lin.face2Witness) < CUT := by rw [hdist_flip]; exact hc
  refine ⟨Lin.face2Witness, hc, ⟨_, Lin.distance_eq 0 _ hc, ?_⟩, ⟨_, Lin.distance_eq 0 _ hs, ?_⟩, ⟨_, Lin.distance_eq 0 _ hf, ?_⟩⟩ <;>
    simp [LinOut.pushes, pushes, Lin.face2Witness, swapObs, flipObs, flipPt, Pt.free_xy, Status.isFree]

/-- the rotation theorem's hypotheses are met: a direction and the same direction read 50 gon larger
    both linearise -/
example : ∃ o : Obs ℝ, ¬ hdist o < CUT ∧ (∃ f out, Gen.Lin.direction f o = .ok out) ∧
    (∃ f out, Gen.Lin.direction f (rotObs (π / 4) o) = .ok out) := by
  have hc : ¬ hdist Lin.face2Witness < CUT := by rw [Lin.face2Witness_hdist]; unfold CUT; norm_num
  exact ⟨Lin.face2Witness, hc, Lin.direction_terminates _ hc, Lin.direction_terminates (rotObs (π / 4) Lin.face2Witness) hc⟩

/-- PointID: numeric before alphabetic, by value not by spelling ("9" < "10" < "01" < "1a"); "01" is not
    numeric; white space is normalised (" a  \tb " = "a b"); bytes ≥ 0x80 compare as unsigned ("z" < "é") -/
example : PointId.lt (PointId.init [57]) (PointId.init [49, 48]) = true ∧
    PointId.lt (PointId.init [49, 48]) (PointId.init [48, 49]) = true ∧
    PointId.lt (PointId.init [48, 49]) (PointId.init [49, 97]) = true ∧
    PointId.init [32, 97, 32, 32, 9, 98, 32] = PointId.init [97, 32, 98] ∧
    PointId.lt (PointId.init [122]) (PointId.init [195, 169]) = true := by decide

/-- a comparison that took the numeric value of ANY digit string ("01" ~ "1") would not be a total
    order with `==` as its equality: the mutant `initLoose` has two distinct ids neither of which
    is smaller -/
example : PointId.lt (PointId.initLoose [48, 49]) (PointId.initLoose [49]) = false ∧
    PointId.lt (PointId.initLoose [49]) (PointId.initLoose [48, 49]) = false ∧
    PointId.initLoose [48, 49] ≠ PointId.initLoose [49] := by decide

/-- an index state with two unknowns meets the hypotheses of the permutation theorem; renaming by
    an injective map is available (shift of the point number) -/
example : (IdxState.init.touch ⟨0, .x⟩).WF ∧ Function.Injective (fun u : Unk => (⟨u.id + 7, u.c⟩ : Unk)) :=
  ⟨IdxState.touch_wf IdxState.wf_init _, fun a b h => by cases a; cases b; simp only [Unk.mk.injEq] at h ⊢; exact ⟨by omega, h.2⟩⟩

/-- the permutation theorem is not vacuous: two observations sharing one unknown, processed in the
    two possible orders, both satisfy the hypothesis, allocate the same three unknowns and number
    them differently (the shared unknown is column 2 in one order and column 1 in the other) -/
example : ∃ obs : Fin 2 → Ob ℝ, (∀ i, wellTouched (obs i).evs [] = true) ∧
    (finalState obs (Equiv.refl _)).maxn = 3 ∧ (finalState obs (Equiv.swap 0 1)).maxn = 3 ∧
    (finalState obs (Equiv.refl _)).get ⟨2, .z⟩ = 2 ∧ (finalState obs (Equiv.swap 0 1)).get ⟨2, .z⟩ = 1 := by
  refine ⟨![⟨fun r _ => match r with | .pfrom => ⟨1, .z⟩ | _ => ⟨2, .z⟩,
              [Ev.touch .pfrom .z, Ev.push .pfrom .z (-1), Ev.touch .pto .z, Ev.push .pto .z 1]⟩,
            ⟨fun r _ => match r with | .pfrom => ⟨2, .z⟩ | _ => ⟨3, .z⟩,
              [Ev.touch .pfrom .z, Ev.push .pfrom .z (-1), Ev.touch .pto .z, Ev.push .pto .z 1]⟩], ?_, ?_, ?_, ?_, ?_⟩
  · intro i; fin_cases i <;> rfl
  all_goals decide

/-- the shared model accepts `10-20-30`, ` +10-20-3e1 ` (white space, sign, exponent) with the same
    fields, so `C07_deg_gon` applies to both: 11.4907… gon -/
example : Angles.parseDms "10-20-30" = some (false, 10, 20, (30, 0)) ∧
    Angles.parseDms " +10-20-3e1 " = some (false, 10, 20, (3, 1)) ∧
    Angles.parseDms "-0-0-1.5" = some (true, 0, 0, (15, -1)) :=
  ⟨by decide +kernel, by decide +kernel, by decide +kernel⟩

/-- the assembled mirror theorem is not vacuous: a pass of a direction (observed without misclosure,
    so its right-hand side is 0 ≠ 200 gon) and a distance linearises in both descriptions, with
    guards and naming as required -/
example : ∃ (fuel fuel' : Nat) (outs outs' : Fin 2 → LinOut ℝ),
    Linearises fuel witnessRows outs ∧ Linearises fuel' (fun i => mirRow (witnessRows i)) outs' ∧
    (∀ i, guard (witnessRows i).kind (witnessRows i).o) ∧ (∀ i r c, ((witnessRows i).name r c).c = c) ∧
    (∀ i, (witnessRows i).kind.angular = true → (outs i).rhs ≠ HALF) := by
  obtain ⟨f, outs, hl, h0⟩ := witness_linearises
  obtain ⟨f', outs', hl'⟩ := witness_mirror_linearises
  refine ⟨f, f', outs, outs', hl, hl', witness_guard, witness_name, fun i hi => ?_⟩
  fin_cases i
  · show (outs 0).rhs ≠ HALF
    rw [h0]; unfold HALF; norm_num
  · simp [witnessRows, RowKind.angular] at hi

/-- the assembled rotation theorem is not vacuous: the direction row of the same pass turned by
    50 gon stays inside the half circle (`|0 + 50 gon| < 200 gon`), its orientation unknown `⟨10, ori⟩`
    belongs to no other row -/
example : ∃ (fuel fuel' : Nat) (outs outs' : Fin 2 → LinOut ℝ) (R : Finset (Fin 2)) (uOri : Unk),
    R.Nonempty ∧ uOri.c = .ori ∧
    (∀ i ∈ R, (witnessRows i).kind = .direction ∧ (witnessRows i).name .station .ori = uOri) ∧
    (∀ i, i ∉ R → ∀ r, (witnessRows i).name r .ori ≠ uOri) ∧ Linearises fuel witnessRows outs ∧
    (∀ i ∈ R, Gen.Lin.direction fuel' (rotObs (π / 4) (witnessRows i).o) = .ok (outs' i)) ∧
    (∀ i ∈ R, |(outs i).rhs + π / 4 * R2CC| < HALF) := by
  obtain ⟨f, outs, hl, h0⟩ := witness_linearises
  obtain ⟨f', out', hr⟩ := Lin.direction_terminates (rotObs (π / 4) exactSight) exactSight_guard
  refine ⟨f, f', outs, fun _ => out', {0}, ⟨10, .ori⟩, ⟨0, by simp⟩, rfl, ?_, ?_, hl, ?_, ?_⟩
  · intro i hi; rw [Finset.mem_singleton] at hi; subst hi; exact ⟨rfl, rfl⟩
  · intro i hi r
    fin_cases i
    · simp at hi
    · cases r <;> simp [witnessRows, witnessName]
  · intro i hi; rw [Finset.mem_singleton] at hi; subst hi; exact hr
  · intro i hi; rw [Finset.mem_singleton] at hi; subst hi
    rw [h0]
    have hpi := Real.pi_pos
    have : π / 4 * R2CC = 500000 := by unfold R2CC; field_simp; norm_num
    rw [zero_add, this]; unfold HALF; rw [abs_of_pos (by norm_num)]; norm_num

/-- the assembled swap theorem is not vacuous: the 5 m sight and the same sight with its ends exchanged
    are two one-row passes with the same set of allocated unknowns and the same coefficients by identity -/
example : ∃ (obs obs' : Fin 1 → Ob ℝ), (∀ i, wellTouched (obs i).evs [] = true) ∧ (∀ i, wellTouched (obs' i).evs [] = true) ∧
    touchedSet obs' = touchedSet obs ∧ (∀ i u, identCoef (obs' i) u = identCoef (obs i) u) := by
  have hs' : ¬ hdist (swapObs exactSight) < CUT := by rw [hdist_swap]; exact exactSight_guard
  obtain ⟨out, h1⟩ : ∃ out, Gen.Lin.distance 0 exactSight = .ok out := ⟨_, Lin.distance_eq 0 _ exactSight_guard⟩
  obtain ⟨out', h2⟩ : ∃ out', Gen.Lin.distance 0 (swapObs exactSight) = .ok out' := ⟨_, Lin.distance_eq 0 _ hs'⟩
  have hs := distance_swap_ident 0 exactSight (witnessName 10) out out' exactSight_guard h1 h2
  refine ⟨fun _ => ⟨witnessName 10, out.evs⟩, fun _ => ⟨fun r c => witnessName 10 (swapRole r) c, out'.evs⟩,
    fun _ => (Lin.distance_targets 0 _ out exactSight_guard h1).2, fun _ => (Lin.distance_targets 0 _ out' hs' h2).2, ?_,
    fun _ u => hs.2.2 u⟩
  unfold touchedSet
  simp only [hs.2.1]

/-- the cofactor transport is not vacuous: `N = Q = 1` (unit weights, `A = 1`), any subset, signs `(1, -1)` -/
example : LS.IsReflGInv ((1 : Matrix (Fin 2) (Fin 2) ℝ)ᵀ * 1 * 1) 1 ∧ LS.BelongsTo (1 : Matrix (Fin 2) (Fin 2) ℝ) {0} 1 ∧
    (∀ j, (![1, -1] : Fin 2 → ℝ) j * ![1, -1] j = 1) := by
  refine ⟨by simp [LS.IsReflGInv], fun y g hg => ?_, fun j => by fin_cases j <;> simp⟩
  have : g = 0 := by simpa using hg
  simp [this]

/-- all sixteen axes/angles combinations: eight consistent, eight not -/
example : ((List.product [CS.EN, .NW, .SE, .WS, .NE, .SW, .ES, .WN] [true, false]).filter
    (fun p => Input.consistent p.1 p.2)).length = 8 := by decide

end Gama.Props.C07
