/-
  C02 through the façades: for the SAME problem, two algorithms return the same adjustment — here through
  class `LocalNetwork` (gama-local; `netSolve alg np`), any accepted covariance clusters (correlated, with
  excluded observations), any a priori `m0`, any list `min_x_`; and through class `Adj` (gama-g3;
  `adjSolve alg p`), any accepted covariance blocks, any regularisation list: `C02_same_adj` (second part).

  `C02_same_net (alg alg')`: same unknowns, residuals (original units), `[pvv]`, defect, cofactors of the
  unknowns for ALL index pairs, cofactors `q_bb` for all index pairs, and the same homogenised system.
  Hypotheses: the static ones of the `C01_net_*` theorems, each algorithm's own premise "rank numerically
  unambiguous" on the system it is given (`Net.SolverHyp`, = the hypotheses of `C01_net_envelope/_cholesky/_gso/
  _svd_cert`), and ONE condition on `(A, S)`: the list `min_x_` resolves the defect (`Resolves A S`; otherwise the
  minimiser is not unique and every algorithm that answers is refused by C02 clause 9).
  Proof: `C01_net_*` twice + `C01_spec_unique` (LS3) for `x, r, [pvv]`; `C03_net_cofactors` twice +
  `ginv_belongs_unique` (LS8′) for `Q`; `defect + rank A = n` twice; `q_bb = A_hom Q A_homᵀ` with the ONE
  homogenised matrix of `prepareProjectEquations()` (for the envelope solver by `C03_net_homogenisations_agree`).

  `C02_same_adj (alg alg')`: same unknowns, residuals (original units), sum of squares, defect, `q_xx(i,j)` and
  `q_bb(i,j)` for ALL index pairs.  Hypotheses: the static ones of the `C01_adj_*` theorems (block dimensions,
  `RowsOK`, `p.C · P = 1`), each algorithm's own premise (`AdjM.SolverHyp`, = the hypotheses of
  `C01_adj_envelope/_cholesky/_gso/_svd_cert`) and `Resolves A S`.
  Proof (`Lemmas/Ls/NetFacadeAdjCof.lean`, `adj_same`): `C01_adj_*` twice + `IsLSSolution.unique` (LS3);
  `C03_adj_cofactors` twice + `ginv_belongs_unique` (LS8′); `defect + rank A = n` twice; `q_bb = A Q Aᵀ` with the
  ORIGINAL `A` for both (for the envelope, whose `q0_xx` is another g-inverse, by `aqat_invariant`).
-/
import Gama.Lemmas.Ls.NetFacadeCof
import Gama.Lemmas.Ls.NetFacadeCofExample
import Gama.Lemmas.Ls.NetFacadeAdjCof
import Mathlib.Analysis.Real.Sqrt
import Gama.Props.C01.NetFacade
import Gama.Props.C01.Spec
namespace Gama.Props.C02
open Gama Gama.Ls Gama.Ls.Net Gama.LS Gama.Ls.AdjM Matrix

set_option linter.unusedSectionVars false

section sqrtField
variable {K : Type} [Field K] [LinearOrder K] [IsStrictOrderedRing K] [Gso.SqrtField K]
attribute [local instance] sqrtFnOfSqrtField
attribute [local instance 2000] scalarOfField

/-- C01 for `LocalNetwork`, one statement for the four algorithms (dispatch to `C01_net_envelope`,
    `C01_net_cholesky`, `C01_net_gso`, `C01_net_svd_cert`) -/
theorem C02_net_isLS (alg : Alg) (np : NetProblem K)
    (hdim : (dimsN np).sum = np.m) (hrows : RowsOK (toProblem np)) (hm0 : np.m0 ≠ 0)
    (Pc : Matrix (Fin (toProblem np).m) (Fin (toProblem np).m) K) (hPc : Sigma np * Pc = 1)
    (hyp : Net.SolverHyp alg np) (a : NetAnswer K) (h : netSolve alg np = .ok a) :
    IsLSSolution (toProblem np).A (toProblem np).b ((np.m0 * np.m0) • Pc) (toProblem np).S
      (toVec (toProblem np).n a.x) (toVec (toProblem np).m a.r) a.pvv := by
  cases alg with
  | env => exact Props.C01.C01_net_envelope Props.C01.C01_net_isSqrt np hdim hrows hm0 Pc hPc hyp.1 hyp.2 a h
  | chol => exact Props.C01.C01_net_cholesky Props.C01.C01_net_isSqrt np hdim hrows hm0 Pc hPc hyp a h
  | gso => exact Props.C01.C01_net_gso np hdim hrows hm0 Pc hPc hyp a h
  | svd => exact Props.C01.C01_net_svd_cert np hdim hrows hm0 Pc hPc hyp.1 hyp.2 a h

/-- **the four algorithms give the same adjustment through `LocalNetwork`** (pairwise, any two) -/
theorem C02_same_net (alg alg' : Alg) (np : NetProblem K)
    (hdim : (dimsN np).sum = np.m) (hrows : RowsOK (toProblem np)) (hm0 : np.m0 ≠ 0)
    (Pc : Matrix (Fin (toProblem np).m) (Fin (toProblem np).m) K) (hPc : Sigma np * Pc = 1)
    (hyp : Net.SolverHyp alg np) (hyp' : Net.SolverHyp alg' np)
    (hS : Resolves (toProblem np).A (toProblem np).S)
    (a a' : NetAnswer K) (h : netSolve alg np = .ok a) (h' : netSolve alg' np = .ok a') :
    toVec (toProblem np).n a.x = toVec (toProblem np).n a'.x ∧
    toVec (toProblem np).m a.r = toVec (toProblem np).m a'.r ∧
    a.pvv = a'.pvv ∧ a.defect = a'.defect ∧
    (∀ i j : Fin (toProblem np).n, a.qxx (i.val + 1) (j.val + 1) = a'.qxx (i.val + 1) (j.val + 1)) ∧
    (∀ i j : Fin (toProblem np).m, a.qbb (i.val + 1) (j.val + 1) = a'.qbb (i.val + 1) (j.val + 1)) ∧
    a.Ad = a'.Ad ∧ a.bd = a'.bd := by
  have hP := weight_of_sigma np hdim hm0 Pc hPc
  obtain ⟨W, Q, B, hW, hinj, hA, -, hf⟩ := net_cofFacts alg np hdim hrows _ hP hyp a h
  obtain ⟨W', Q', B', hW', -, hA', -, hf'⟩ := net_cofFacts alg' np hdim hrows _ hP hyp' a' h'
  have hsym : ((np.m0 * np.m0) • Pc)ᵀ = (np.m0 * np.m0) • Pc := hW ▸ gram_symm W
  have hpd : ∀ d, d ≠ 0 → 0 < d ⬝ᵥ ((np.m0 * np.m0) • Pc) *ᵥ d := hW ▸ gram_pd W hinj
  obtain ⟨ex, er, ep⟩ := Props.C01.C01_spec_unique hpd hS
    (C02_net_isLS alg np hdim hrows hm0 Pc hPc hyp a h) (C02_net_isLS alg' np hdim hrows hm0 Pc hPc hyp' a' h')
  obtain ⟨hh, hp, eA, eb⟩ := netSolve_hom alg np a h
  obtain ⟨hh', hp', eA', eb'⟩ := netSolve_hom alg' np a' h'
  have ehh : hh = hh' := Except.ok.inj (hp.symm.trans hp')
  subst ehh
  have eQ : Q = Q' :=
    ginv_belongs_unique hsym hpd hS (hf.nqn' hW).1 (hf.nqn' hW).2 hf.symm hf.belongs
      (hf'.nqn' hW').1 (hf'.nqn' hW').2 hf'.symm hf'.belongs
  have eAd : a.Ad = a'.Ad := eA.trans eA'.symm
  have eB : B = B' := by rw [hf.hat, hf'.hat, ← hA, ← hA', eAd, eQ]
  refine ⟨ex, er, ep, ?_, fun i j => ?_, fun i j => ?_, eAd, eb.trans eb'.symm⟩
  · have := hf.defect_rank; have := hf'.defect_rank; omega
  · rw [hf.qxx i j, hf'.qxx i j, eQ]
  · rw [hf.qbb i j, hf'.qbb i j, eB]

/-! #### class `Adj` -/

/-- C01 for `Adj`, one statement for the four algorithms (dispatch to `C01_adj_envelope`, `C01_adj_cholesky`,
    `C01_adj_gso`, `C01_adj_svd_cert`) -/
theorem C02_adj_isLS (alg : Alg) (p : Problem K) (hdim : (dimsOf p).sum = p.m) (hrows : RowsOK p)
    (P : Matrix (Fin p.m) (Fin p.m) K) (hP : p.C * P = 1)
    (hyp : AdjM.SolverHyp alg p) (a : Answer K) (h : adjSolve alg p = .ok a) :
    IsLSSolution p.A p.b P p.S (toVec p.n a.x) (toVec p.m a.r) a.rtr :=
  adj_isLS alg p hdim hrows P hP hyp a h

/-- **the four algorithms give the same adjustment through `Adj`** (pairwise, any two) -/
theorem C02_same_adj (alg alg' : Alg) (p : Problem K) (hdim : (dimsOf p).sum = p.m) (hrows : RowsOK p)
    (P : Matrix (Fin p.m) (Fin p.m) K) (hP : p.C * P = 1)
    (hyp : AdjM.SolverHyp alg p) (hyp' : AdjM.SolverHyp alg' p) (hS : Resolves p.A p.S)
    (a a' : Answer K) (h : adjSolve alg p = .ok a) (h' : adjSolve alg' p = .ok a') :
    toVec p.n a.x = toVec p.n a'.x ∧ toVec p.m a.r = toVec p.m a'.r ∧ a.rtr = a'.rtr ∧
    a.defect = a'.defect ∧
    (∀ i j : Fin p.n, a.qxx (i.val + 1) (j.val + 1) = a'.qxx (i.val + 1) (j.val + 1)) ∧
    (∀ i j : Fin p.m, a.qbb (i.val + 1) (j.val + 1) = a'.qbb (i.val + 1) (j.val + 1)) :=
  adj_same alg alg' p hdim hrows P hP hyp hyp' hS a a' h h'

end sqrtField

/-! ### non-vacuity -/

section examples
open Gama.Ls.Ex
attribute [local instance 2000] scalarOfField

/-- `Resolves` for `Ex.npQ`: `A = [[4,4],[5,5],[4,4]]` has kernel `(1,−1)`, `min_x_ = [1]` fixes it -/
example : Resolves (toProblem npQ).A (toProblem npQ).S := npQ_resolves

/-- a joint instance over ℚ (everything but the global square-root law, which ℚ cannot have): `Ex.npQ` —
    correlated cluster with an EXCLUDED observation, defect 1, proper `min_x_` — meets the premise of the dense
    path (cholesky) AND of the sparse path (envelope), both models answer (kernel evaluation), and the answers
    coincide in `x`, `r`, `[pvv]`, defect and every cofactor `q_xx(i,j)`, `q_bb(i,j)` -/
example : (∀ hh, prepare npQ = .ok hh →
        Chol.UnambiguousF (cholFact (Net.dotProblem npQ hh)) ∧ Chol.GsSqrtExact (Net.dotProblem npQ hh) ∧
        ∀ S, Chol.regList npQ.n (.subset npQ.minx) = some S → S.Nodup)
    ∧ Env.RegListOK (toProblem npQ) ∧ Env.SolveUnambiguous (toProblem npQ)
    ∧ ∃ a a', netSolve .chol npQ = .ok a ∧ netSolve .env npQ = .ok a' ∧ a.x = a'.x ∧ a.r = a'.r ∧ a.pvv = a'.pvv
        ∧ a.defect = a'.defect ∧ cofTable a = cofTable a' := by
  obtain ⟨a, h, d, x, r, p⟩ := npQ_chol
  obtain ⟨a', h', d', x', r', p'⟩ := npQ_env
  obtain ⟨b, hb, -, cb⟩ := npQ_chol_cof
  obtain ⟨b', hb', -, cb'⟩ := npQ_env_cof
  have e : b = a := Except.ok.inj (hb.symm.trans h)
  have e' : b' = a' := Except.ok.inj (hb'.symm.trans h')
  subst e e'
  exact ⟨npQ_hchol, npQ_reg, npQ_unamb.1, b, b', h, h', by rw [x, x'], by rw [r, r'], by rw [p, p'], by rw [d, d'],
    by rw [cb, cb']⟩

/-- ℝ with `Real.sqrt` is the setting of `C02_same_net` (a field with a true square root) -/
example : IsSqrt Real.sqrt := ⟨fun _ h => Real.mul_self_sqrt h, fun x _ => Real.sqrt_nonneg x⟩

end examples

/-! ### non-vacuity, class `Adj` -/

section examplesReal
open Gama.Ls.Ex
attribute [local instance] sqrtFnOfSqrtField
attribute [local instance 2000] scalarOfField

/-- `Resolves` for `Ex.pCS`: `A = [[4,4],[5,5],[4,4]]` has kernel `(1,−1)`, `S = {1}` fixes it -/
example : Resolves (pCS ℝ).A (pCS ℝ).S := pCS_resolves

/-- the hypotheses of `C02_same_adj` are jointly satisfiable in its own setting (ℝ, `Real.sqrt`, all models on
    the one instance `fieldScalar Real.sqrt`), and the theorem applies: `Ex.pCS ℝ` — correlated block
    `[[4,2],[2,10]]` + variance 4, `A = [[4,4],[5,5],[4,4]]` (defect 1), `S = {1}` — with `alg = alg' = gso`
    meets the static hypotheses, `AdjM.SolverHyp .gso` and `Resolves A S`, and `Adj` answers.
    INSTANTIATED: every hypothesis, including `Resolves`, together with a model answer, over ℝ.
    Two DIFFERENT algorithms over ℝ: at `LocalNetwork` level `C02_same_net` is applied to any two of envelope,
    cholesky, gso on the evaluated `Ex.npR : NetProblem ℝ` (`Props/C02NetWitness.lean`, `C02_same_net_witness`; gso
    versus svd on `Ex.npV`: `Props/C02NetWitnessSvd.lean`; one-hypothesis forms: `Props/C02InputGap.lean`).  At
    class `Adj` over ℝ only `alg = alg' = gso` is evaluated (the `simp` evaluation of
    `Lemmas/Ls/ComposeAdjExample.lean` was done for Gram–Schmidt only); for two different algorithms through `Adj`
    see the joint ℚ instance below. -/
example : (dimsOf (pCS ℝ)).sum = (pCS ℝ).m ∧ RowsOK (pCS ℝ) ∧ (pCS ℝ).C * PCS ℝ = 1
    ∧ AdjM.SolverHyp .gso (pCS ℝ) ∧ Resolves (pCS ℝ).A (pCS ℝ).S
    ∧ ∃ a, adjSolve .gso (pCS ℝ) = .ok a ∧ a.x = #[0, 1/2] ∧ a.defect = 1 :=
  ⟨by decide, pCS_rows, pCS_weight, pCS_solverHyp_gso, pCS_resolves, pCS_adj_gso⟩

example : ∃ a a', adjSolve .gso (pCS ℝ) = .ok a ∧ adjSolve .gso (pCS ℝ) = .ok a' ∧
    toVec (pCS ℝ).n a.x = toVec (pCS ℝ).n a'.x ∧ toVec (pCS ℝ).m a.r = toVec (pCS ℝ).m a'.r ∧ a.rtr = a'.rtr ∧
    a.defect = a'.defect ∧
    (∀ i j : Fin (pCS ℝ).n, a.qxx (i.val + 1) (j.val + 1) = a'.qxx (i.val + 1) (j.val + 1)) ∧
    (∀ i j : Fin (pCS ℝ).m, a.qbb (i.val + 1) (j.val + 1) = a'.qbb (i.val + 1) (j.val + 1)) := by
  obtain ⟨a, h, -⟩ := pCS_adj_gso
  exact ⟨a, a, h, h, C02_same_adj .gso .gso (pCS ℝ) (by decide) pCS_rows (PCS ℝ) pCS_weight
    pCS_solverHyp_gso pCS_solverHyp_gso pCS_resolves a a h h⟩

end examplesReal

section examplesRat
open Gama.Ls.Ex
attribute [local instance 2000] scalarOfField

/-- a JOINT instance with two DIFFERENT algorithms, over ℚ (everything but the global square-root law, which ℚ
    cannot have — so this is a kernel-evaluated test next to the theorem, not an instance of it; `Ex.sqQ` is
    exact on every root taken: 4, 9, 4 in the homogenisations, 1 in the Gram–Schmidt loops): the SAME problem
    `Ex.pCS ℚ` — correlated block, defect 1, proper resolving `S` — meets the static hypotheses, the premise of the
    full branch with cholesky (`AdjM.SolverHyp .chol`, written out) AND of the sparse branch with the envelope
    (`AdjM.SolverHyp .env`, written out) and `Resolves A S`; both models answer, and the answers coincide in `x`,
    `r`, `rtr`, defect and every cofactor `q_xx(i,j)`, `q_bb(i,j)` (`adjCofTable`: all 4 + 9 entries) -/
example : (dimsOf (pCS ℚ)).sum = (pCS ℚ).m ∧ RowsOK (pCS ℚ) ∧ (pCS ℚ).C * PCS ℚ = 1 ∧ SqrtExactP (pCS ℚ)
    ∧ (∀ Ad bd, homogenise (pCS ℚ) = .ok (Ad, bd) →
        Chol.UnambiguousF (cholFact (dotProblem (pCS ℚ) Ad bd (regOf (pCS ℚ).reg))) ∧
        Chol.GsSqrtExact (dotProblem (pCS ℚ) Ad bd (regOf (pCS ℚ).reg)) ∧
        ∀ S, Chol.regList (pCS ℚ).n (regOf (pCS ℚ).reg) = some S → S.Nodup)
    ∧ (Env.InputOK { pCS ℚ with reg := regOf (pCS ℚ).reg } ∧ Env.RegListOK { pCS ℚ with reg := regOf (pCS ℚ).reg }
        ∧ Env.SolveUnambiguous { pCS ℚ with reg := regOf (pCS ℚ).reg })
    ∧ Resolves (pCS ℚ).A (pCS ℚ).S
    ∧ ∃ a a', adjSolve .chol (pCS ℚ) = .ok a ∧ adjSolve .env (pCS ℚ) = .ok a' ∧ a.x = a'.x ∧ a.r = a'.r
        ∧ a.rtr = a'.rtr ∧ a.defect = a'.defect ∧ adjCofTable a = adjCofTable a' := by
  obtain ⟨a, h, d, x, r, t, c⟩ := pCSQ_adj_chol_cof
  obtain ⟨a', h', d', x', r', t', c'⟩ := pCSQ_adj_env_cof
  exact ⟨by decide, pCSQ_rows, pCSQ_weight, pCSQ_sqrt, pCSQ_hchol, ⟨pCSQ_env_input, pCSQ_env_reg, pCSQ_env_unamb.1⟩,
    pCSQ_resolves, a, a', h, h', by rw [x, x'], by rw [r, r'], by rw [t, t'], by rw [d, d'], by rw [c, c']⟩

end examplesRat

end Gama.Props.C02
