/-
  C09 at `LocalNetwork` level with ONE input-side solver hypothesis per run and WITHOUT the derivable side
  conditions (round 8).

    C09_net_side_conditions         GENERAL derivation of what `C09_stdev_of_net` asked as `hphi`, `hst`: for every answer of
                                    `netSolve` under `Net.SolverHyp`: `0 ≤ [pvv]` (`[pvv] = vᵀPv`, `IsLSSolution.rtr_eq`, and
                                    `P = WᵀW` with the whitening `W` of `prepareProjectEquations()`), and every ACTIVE observation
                                    has `stdDev() > 0` (`netSolve_obsStdDev_pos`).  (b-W7b had derived both on the witness only.)
    C09_stdev_of_net_gap            `C09_stdev_of_net` with `Net.SolverHyp` replaced by `InputGap alg A P S τ`, `P = m0²Σ⁻¹` the weight matrix (`C·P = 1`),
                                    (`Lemmas/Ls/InputGap.lean`) and `hphi`, `hst` GONE.  `hsapr : 0 < m_0_apr_` stays, now as THE
                                    static hypothesis on `m0` (it replaces `m0 ≠ 0` of the other network theorems): it is not
                                    derivable — with `m0 < 0` the network has the same cofactors and `m_0()` a priori returns
                                    the negative number, so the clause `0 ≤ m0` is false.
    C09_net_sigma_apr_scaling_gap   `C09_net_sigma_apr_scaling` with the two `Net.SolverHyp` replaced by the `InputGap` of each
                                    run (the second at the weight matrix `s²·P = (s·m0)²Σ⁻¹` of the scaled network — `RankGap` is an
                                    ABSOLUTE pivot gap, so it has to be asked there separately; `SingGap` is scale invariant)
                                    and `Resolves A S` DERIVED whenever one of the two algorithms is not svd; for svd versus
                                    svd it remains (a condition on `(A, S)`; svd's first-stage hypothesis does not mention `S`).
-/
import Gama.Props.C09NetScaling
import Gama.Props.C09NetWitness
import Gama.Props.C01.InputGap
namespace Gama.Props.C09
open Gama Gama.Stats Gama.Ls Gama.Ls.Net Gama.LS Matrix Real

set_option linter.unusedVariables false

/-- **`hphi`, `hst` of `C09_stdev_of_net` are theorems**: `0 ≤ [pvv]` and `stdDev() > 0` for every active observation,
    for every answer of `LocalNetwork` (all four algorithms) -/
theorem C09_net_side_conditions (alg : Alg) (np : NetProblem ℝ)
    (hdim : (dimsN np).sum = np.m) (hrows : RowsOK (toProblem np)) (hm0 : np.m0 ≠ 0)
    (P : Matrix (Fin (toProblem np).m) (Fin (toProblem np).m) ℝ) (hP : (toProblem np).C * P = 1)
    (hyp : Net.SolverHyp alg np) (a : NetAnswer ℝ) (h : netSolve alg np = .ok a) :
    0 ≤ a.pvv ∧ ∀ k : Fin (toProblem np).m, 0 < Dn.vget (obsStdDev np) k.val := by
  revert hdim hrows P hP hyp a h
  rw [scalarReal_eq_fieldScalar]
  intro hdim hrows P hP hyp a h
  refine ⟨?_, fun k => netSolve_obsStdDev_pos alg np hdim hrows hm0 P hP a h k⟩
  obtain ⟨W, Q, B, hW, hinj, -, -, -⟩ := net_cofFacts alg np hdim hrows P hP hyp a h
  obtain ⟨hPc, hPe⟩ := weight_unscale_field np hm0 hdim P hP
  have l1 := Props.C02.C02_net_isLS alg np hdim hrows hm0 _ hPc hyp a h
  rw [hPe] at l1
  rw [l1.rtr_eq]
  have key : ∀ v : Fin (toProblem np).m → ℝ, 0 ≤ v ⬝ᵥ P *ᵥ v := fun v => by
    by_cases hv : v = 0
    · rw [hv]; simp
    · exact le_of_lt ((hW ▸ gram_pd W hinj) v hv)
  exact key _

/-- **standard deviations gama-local reports, input-side hypothesis only, no side conditions** -/
theorem C09_stdev_of_net_gap (alg : Alg) (np : NetProblem ℝ)
    (hdim : (dimsN np).sum = np.m) (hrows : RowsOK (toProblem np)) (hsapr : 0 < np.m0)
    (P : Matrix (Fin (toProblem np).m) (Fin (toProblem np).m) ℝ) (hP : (toProblem np).C * P = 1)
    (hreg : Env.RegListOK (toProblem np)) {τ : ℝ}
    (hg : InputGap alg (toProblem np).A P (toProblem np).S τ)
    (a : NetAnswer ℝ) (h : netSolve alg np = .ok a) (act : SigmaAct)
    (i : Fin (toProblem np).n) (k : Fin (toProblem np).m) :
    ∃ (m0 qii bkk : ℝ),
      a.m0 np act = .ok m0 ∧ 0 ≤ m0 ∧
      a.qxx (i.val + 1) (i.val + 1) = .ok qii ∧ 0 ≤ qii ∧
      StatsGen.unknownStdev m0 qii ^ 2 = m0 ^ 2 * qii ∧
      a.qbb (k.val + 1) (k.val + 1) = .ok bkk ∧ 0 ≤ bkk ∧ bkk ≤ 1 ∧ 0 < Net.weightObs np (k.val + 1) ∧
      (∃ sL, a.stdevObs np act (k.val + 1) = .ok sL ∧ 0 ≤ sL ∧
        sL ^ 2 = m0 ^ 2 * (bkk / Net.weightObs np (k.val + 1))) ∧
      (∃ qv, a.wcoefRes np (k.val + 1) = .ok qv ∧ 0 ≤ qv ∧
        qv = 1 / Net.weightObs np (k.val + 1) - bkk / Net.weightObs np (k.val + 1) ∧
        StatsGen.stdevRes m0 qv ^ 2 = m0 ^ 2 * qv) := by
  have T := C09_stdev_of_net alg np
  have T2 := C09_net_side_conditions alg np
  revert T T2 hdim hrows P hP hreg hg a h i k
  rw [scalarReal_eq_fieldScalar]
  intro hdim hrows P hP hreg hg a h i k T T2
  have hm0 : np.m0 ≠ 0 := hsapr.ne'
  obtain ⟨hPc, hPe⟩ := weight_unscale_field np hm0 hdim P hP
  rw [← hPe] at hg
  have hyp := Props.C01.C01_net_solverhyp_of_inputgap np hdim hrows hm0 _ hPc hreg alg hg
  obtain ⟨hphi, hst⟩ := T2 hdim hrows hm0 P hP hyp a h
  exact T hdim hrows P hP hyp a h act hsapr hphi i k (hst k)

/-- **`m_0_apr_ ↦ s·m_0_apr_`: every statistic gama-local reports, input-side hypotheses only** -/
theorem C09_net_sigma_apr_scaling_gap (alg alg' : Alg) (np : NetProblem ℝ) (s : ℝ) (hs : 0 < s)
    (hm0 : 0 < np.m0) (hdim : (dimsN np).sum = np.m) (hrows : RowsOK (toProblem np))
    (P : Matrix (Fin (toProblem np).m) (Fin (toProblem np).m) ℝ) (hP : (toProblem np).C * P = 1)
    (hreg : Env.RegListOK (toProblem np)) {τ τ' : ℝ}
    (hg : InputGap alg (toProblem np).A P (toProblem np).S τ)
    (hg' : InputGap alg' (toProblem np).A (s ^ 2 • P) (toProblem np).S τ')
    (hS : alg = .svd → alg' = .svd → Resolves (toProblem np).A (toProblem np).S)
    (a a' : NetAnswer ℝ) (h : netSolve alg np = .ok a) (h' : netSolve alg' (scaleM0 s np) = .ok a')
    (act : SigmaAct) :
    toVec (toProblem np).n a'.x = toVec (toProblem np).n a.x ∧
    toVec (toProblem np).m a'.r = toVec (toProblem np).m a.r ∧
    a'.pvv = s ^ 2 * a.pvv ∧ a'.defect = a.defect ∧ a'.dof (scaleM0 s np) = a.dof np ∧
    ∃ (Q : Matrix (Fin (toProblem np).n) (Fin (toProblem np).n) ℝ)
      (B : Matrix (Fin (toProblem np).m) (Fin (toProblem np).m) ℝ) (m0 : ℝ),
      (∀ i j : Fin (toProblem np).n, a.qxx (i.val + 1) (j.val + 1) = .ok (Q i j) ∧
        a'.qxx (i.val + 1) (j.val + 1) = .ok (Q i j / s ^ 2)) ∧
      (∀ i j : Fin (toProblem np).m, a.qbb (i.val + 1) (j.val + 1) = .ok (B i j) ∧
        a'.qbb (i.val + 1) (j.val + 1) = .ok (B i j)) ∧
      a.m0 np act = .ok m0 ∧ a'.m0 (scaleM0 s np) act = .ok (s * m0) ∧
      s * m0 / (scaleM0 s np).m0 = m0 / np.m0 ∧
      StatsGen.xmlRatio a'.pvv (scaleM0 s np).m0 (a'.dof (scaleM0 s np)) = StatsGen.xmlRatio a.pvv np.m0 (a.dof np) ∧
      (∀ i, StatsGen.unknownStdev (s * m0) (Q i i / s ^ 2) = StatsGen.unknownStdev m0 (Q i i)) ∧
      (∀ i j, StatsGen.covEntry (s * m0) (Q i j / s ^ 2) = StatsGen.covEntry m0 (Q i j)) ∧
      (∀ ix iy, StatsGen.stdErrorEllipse (Q iy iy / s ^ 2) (Q iy ix / s ^ 2) (Q ix ix / s ^ 2) (s * m0)
        = StatsGen.stdErrorEllipse (Q iy iy) (Q iy ix) (Q ix ix) m0) ∧
      (∀ k : Fin (toProblem np).m,
        Net.weightObs (scaleM0 s np) (k.val + 1) = s ^ 2 * Net.weightObs np (k.val + 1) ∧
        a'.stdevObs (scaleM0 s np) act (k.val + 1) = a.stdevObs np act (k.val + 1) ∧
        (∃ qv, a.wcoefRes np (k.val + 1) = .ok qv ∧ a'.wcoefRes (scaleM0 s np) (k.val + 1) = .ok (qv / s ^ 2) ∧
          StatsGen.stdevRes (s * m0) (qv / s ^ 2) = StatsGen.stdevRes m0 qv)) ∧
      (∀ (normal : ℝ → ℝ) (student : ℝ → ℤ → ℝ) (p : ℝ),
        StatsGen.confIntCoef normal student act p (a'.dof (scaleM0 s np))
          = StatsGen.confIntCoef normal student act p (a.dof np)) ∧
      (∀ (i : Fin (toProblem np).n) (kki : ℝ),
        StatsGen.confHalfWidth (StatsGen.unknownStdev (s * m0) (Q i i / s ^ 2)) kki
          = StatsGen.confHalfWidth (StatsGen.unknownStdev m0 (Q i i)) kki) := by
  have T := C09_net_sigma_apr_scaling alg alg' np s hs hm0
  revert T hdim hrows P hP hreg hg hg' hS a a' h h'
  rw [scalarReal_eq_fieldScalar]
  intro hdim hrows P hP hreg hg hg' hS a a' h h' T
  have hm0' : np.m0 ≠ 0 := hm0.ne'
  obtain ⟨hPc, hPe⟩ := weight_unscale_field np hm0' hdim P hP
  have hres : Resolves (toProblem np).A (toProblem np).S := by
    by_cases halg : alg = .svd
    · by_cases halg' : alg' = .svd
      · exact hS halg halg'
      · exact hg'.resolves halg'
    · exact hg.resolves halg
  have ePs : (s * np.m0 * (s * np.m0)) • ((1 / (np.m0 * np.m0)) • P) = s ^ 2 • P := by
    rw [smul_smul]; congr 1; field_simp
  rw [← hPe] at hg
  rw [← ePs] at hg'
  have hyp := Props.C01.C01_net_solverhyp_of_inputgap np hdim hrows hm0' _ hPc hreg alg hg
  have hdimS : (dimsN (scaleM0 s np)).sum = (scaleM0 s np).m :=
    (congrArg List.sum (dimsN_scale_field s np)).trans hdim
  have hyp' : Net.SolverHyp alg' (scaleM0 s np) :=
    Props.C01.C01_net_solverhyp_of_inputgap (scaleM0 s np) hdimS hrows (mul_ne_zero hs.ne' hm0') _
      (sigma_inv_scale_field np s _ hPc _ rfl) hreg alg' hg'
  exact T hdim hrows P hP hyp hyp' hres a a' h h' act

/-! ## non-vacuity -/

section examples
open Gama.Ls.Ex

/-- `C09_stdev_of_net_gap` APPLIED over ℝ to `Ex.npR` (envelope, cholesky, gso; both `sigma-act` modes; every
    unknown and observation): the hypotheses are the static ones and the one `RankGap` at `τ = ½` -/
example (alg : Alg) (halg : alg ≠ .svd) (act : SigmaAct) (i : Fin (toProblem npR).n) (k : Fin (toProblem npR).m) :
    ∃ (a : NetAnswer ℝ) (m0 bkk : ℝ), netSolve alg npR = .ok a ∧ a.m0 npR act = .ok m0 ∧ 0 ≤ m0 ∧
      a.qbb (k.val + 1) (k.val + 1) = .ok bkk ∧ 0 ≤ bkk ∧ bkk ≤ 1 := by
  have T := C09_stdev_of_net_gap alg npR
  have G := Props.C01.C01_net_inputgap_witness alg halg
  have A := Props.C01.C01_net_answers_witness alg halg
  revert T G A i k
  rw [scalarReal_eq_fieldScalar]
  intro i k T G A
  obtain ⟨a, ha, -⟩ := A
  obtain ⟨m0, qii, bkk, h1, h2, -, -, -, h6, h7, h8, -⟩ :=
    T (npW_dims 2 [1]) (npW_rows 2 [1]) (by show (0 : ℝ) < 2; norm_num) _
      (weight_of_sigma npR (npW_dims 2 [1]) (by show (2 : ℝ) ≠ 0; norm_num) PcN npR_sigma_inv)
      (npW_regListOK 2 [1] (Or.inl rfl)) G a ha act i k
  exact ⟨a, m0, bkk, ha, h1, h2, h6, h7, h8⟩

/-- `C09_net_sigma_apr_scaling_gap` APPLIED: envelope on `npR` (`m_0_apr_ = 2`) versus cholesky on `scaleM0 2 npR`
    (`m_0_apr_ = 4`); the second run's hypothesis is its own `RankGap` at the weight matrix `2²·P` (pivots 0 and 36) -/
example (act : SigmaAct) : ∃ (a a' : NetAnswer ℝ), netSolve .env npR = .ok a ∧
    netSolve .chol (scaleM0 2 npR) = .ok a' ∧ a'.pvv = 2 ^ 2 * a.pvv ∧ a'.defect = a.defect := by
  have T := C09_net_sigma_apr_scaling_gap .env .chol npR 2 (by norm_num)
  have G := Props.C01.C01_net_inputgap_witness .env (by decide)
  have G2 := npW_rankGap (2 * 2) [1] (Or.inl rfl) (by norm_num)
  have A := Props.C01.C01_net_answers_witness .env (by decide)
  have A' := npR4_chol
  revert T G G2 A A'
  rw [scalarReal_eq_fieldScalar]
  intro T G G2 A A'
  obtain ⟨a, ha, -⟩ := A
  obtain ⟨a', ha', -⟩ := A'
  have e : (2 : ℝ) ^ 2 • ((npR.m0 * npR.m0) • PcN) = ((2 * 2 : ℝ) * (2 * 2)) • PcW (2 * 2) [1] := by
    show (2 : ℝ) ^ 2 • (((2 : ℝ) * 2) • PcR) = ((2 * 2 : ℝ) * (2 * 2)) • PcR
    rw [smul_smul]; norm_num
  obtain ⟨-, -, h3, h4, -⟩ :=
    T (by show (0 : ℝ) < 2; norm_num) (npW_dims 2 [1]) (npW_rows 2 [1]) _
      (weight_of_sigma npR (npW_dims 2 [1]) (by show (2 : ℝ) ≠ 0; norm_num) PcN npR_sigma_inv)
      (npW_regListOK 2 [1] (Or.inl rfl)) G
      ((InputGap.of_ne_svd (alg := .chol) (by decide)).2 ⟨gapThresholds_half, by rw [e]; exact G2⟩)
      (fun h => by cases h) a a' ha ha' act
  exact ⟨a, a', ha, ha', h3, h4⟩

end examples

end Gama.Props.C09
