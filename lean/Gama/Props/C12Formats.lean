/-
  C12 — "carries the same adjustment as the HTML, text and Octave outputs of the same run".

  `Gen/FormatSites.lean` is regenerated on every run from the four writers (tools/gen/c12_formats.py): for every reported
  quantity and configuration (angular unit, y_sign) the symbolic value each format streams.  The theorems below are
  re-checked on the regenerated table: a writer that forgets `y_sign` for one observation kind, scales a field the others
  do not, wraps differently or reads another accessor makes `C12_formats_table` (hence `C12_formats_agree`) fail.
-/
import Gama.Gen.FormatSites
import Gama.Lemmas.FormatExpr
import Mathlib.Algebra.Field.Basic

namespace Gama.Props.C12Formats
open Gama.FormatExpr Gama.Gen.FormatSites

/-- the documented differences between formats (quantity, format), everything else must agree:
    * `<approximate>` of the XML prints the last linearisation point `x()`, text / HTML / Octave the initial
      approximation `x_0()` (equal unless the adjustment iterated);
    * the HTML table wraps the adjusted zenith angle into [0, 400), XML and text do not (a zenith angle is in (0, 200)).
    Not in the table at all (no accessor in common): precisions, `gon2deg` display of degrees, column layout. -/
def documented : List (String × String) :=
  [("pt.apx.x", "xml"), ("pt.apx.y", "xml"), ("pt.apx.z", "xml"), ("obs.zenith-angle.adjusted", "html")]

/-- regeneration tie: in every group of the regenerated table all formats print the same polynomial of the accessors with
    the same wrap signature, except the documented differences -/
theorem C12_formats_table : groups.all (fun g => g.ok documented) = true := by decide +kernel

/-- every documented difference is a real one (the list cannot silently rot) -/
theorem C12_formats_documented_differ : groups.all (fun g => g.differs documented) = true := by decide +kernel

/-- the XML writer evaluated in degrees mode (only a library caller can do that: gama-local calls `set_gons()` first)
    agrees with the text writer in degrees mode -/
theorem C12_formats_xml_degrees : xmlDegrees.all (fun g => g.ok documented) = true := by decide +kernel

/-- coverage of the regenerated table (the translator stops when a quantity of its specification is no longer found; this
    pins the size of what it found): 204 (quantity, configuration) groups are reported by XML, text and HTML together
    (13 kinds x 7 fields + 9 point coordinates + 2 orientation values, for y_sign = +1 and -1, in gons), 548 by text and HTML
    (13 kinds x 9 fields + 15 point and 5 orientation quantities, 4 configurations), 20 by XML and Octave. -/
theorem C12_formats_cover :
    groups.countP (fun g => ["xml", "text", "html"].all fun m => g.entries.any fun e => e.base == m) = 204 ∧
    groups.countP (fun g => ["text", "html"].all fun m => g.entries.any fun e => e.base == m) = 548 ∧
    groups.countP (fun g => ["xml", "octave"].all fun m => g.entries.any fun e => e.base == m) = 20 ∧
    groups.length = 550 := by
  refine ⟨?_, ?_, ?_, ?_⟩ <;> decide +kernel

/-- **All formats carry the same adjustment.**  For every reported quantity and every configuration, any two formats that
    report it (and are not a documented difference) wrap identically and stream expressions with the same value, whatever
    the values of the accessors (`ρ` : atom ↦ value, in any field; `1/n` is the field inverse of the literal). -/
theorem C12_formats_agree {K : Type} [Field K] (ρ : Nat → K)
    (g : Group) (hg : g ∈ groups) (x y : Entry) (hx : x ∈ g.entries) (hy : y ∈ g.entries)
    (dx : documented.contains (g.q, x.base) = false) (dy : documented.contains (g.q, y.base) = false) :
    x.wrap = y.wrap ∧
    eval (fun n => ((n : K))⁻¹) ρ x.expr = eval (fun n => ((n : K))⁻¹) ρ y.expr :=
  ok_sound _ ρ (List.all_eq_true.mp C12_formats_table g hg) hx hy dx dy

/-- same statement for the XML writer in degrees mode against the text writer -/
theorem C12_formats_agree_xml_degrees {K : Type} [Field K] (ρ : Nat → K)
    (g : Group) (hg : g ∈ xmlDegrees) (x y : Entry) (hx : x ∈ g.entries) (hy : y ∈ g.entries)
    (dx : documented.contains (g.q, x.base) = false) (dy : documented.contains (g.q, y.base) = false) :
    x.wrap = y.wrap ∧
    eval (fun n => ((n : K))⁻¹) ρ x.expr = eval (fun n => ((n : K))⁻¹) ρ y.expr :=
  ok_sound _ ρ (List.all_eq_true.mp C12_formats_xml_degrees g hg) hx hy dx dy

/-! ### non-vacuity and regression knowledge -/

/-- the table is not empty and has groups with all four formats -/
example : groups.any (fun g => g.q == "pt.adj.y" && g.cfg == "gon/y-" && g.entries.length ≥ 4) = true := by decide +kernel

/-- an instance of the hypotheses of `C12_formats_agree`: the adjusted y of XML and Octave with y_sign = -1 -/
example : ∃ g ∈ groups, ∃ x ∈ g.entries, ∃ y ∈ g.entries, x.fmt = "xml" ∧ y.fmt = "octave" ∧ g.q = "pt.adj.y" ∧
    documented.contains (g.q, x.base) = false ∧ documented.contains (g.q, y.base) = false := by
  decide +kernel

/-- the normal form sees through the order of factors and the place of the sign:
    `(y + X/1000) * (-1)` and `(-1) * y + (-1) * (X * 1/1000)` -/
example : canon (.mul (.add (.atom 0) (.mul (.atom 1) (.inv 1000))) (.lit (-1)))
        = canon (.add (.mul (.lit (-1)) (.atom 0)) (.mul (.lit (-1)) (.mul (.inv 1000) (.atom 1)))) := by decide

/-- … and does not identify a value with its negative or with its scaled value (defects F24 / text azimuth) -/
example : canon (.atom 0) ≠ canon (.mul (.lit (-1)) (.atom 0)) := by decide
example : canon (.atom 0) ≠ canon (.mul (.atom 7) (.atom 0)) := by decide

/-- shape of fix 0fb3ef6 (HTML forgot `y_sign` for coordinate observations y): such a group is refused -/
example : Group.ok documented ⟨"obs.coordinate-y.observed", "gon/y-",
    [⟨"xml", "xml", .mul (.lit (-1)) (.atom 0), "", false⟩, ⟨"html", "html", .atom 0, "", false⟩]⟩ = false := by decide

/-- shape of the text writer's azimuth defect (not scaled to arc seconds in degrees mode): refused -/
example : Group.ok documented ⟨"obs.azimuth.sd", "deg/y+",
    [⟨"text", "text", .atom 0, "", false⟩, ⟨"html", "html", .mul (.atom 1) (.atom 0), "", false⟩]⟩ = false := by decide

end Gama.Props.C12Formats
