/-
  C06 — Consistent observations reproduce the network they were derived from.

  Property theorems only (helper lemmas: Gama/Lemmas/C06Real, C06Cogo, C06Median, C06GN).
  All statements are over ℝ with Real.sqrt / sin / cos / Complex.arg (atan2); the models are the ones
  executed at Float next to the C++ (lean/Driver/Cogo.lean ↔ harness/c06_cogo.cpp).

  What is NOT claimed as proved (explored by the end-to-end search of tools/props/c06.py only):
  convergence of the iterated linearisation from perturbed / omitted approximate coordinates,
  completeness and scheduling of the Acord2 strategies (round robin over shared point state),
  rounding.  Exactness of the compound primitives built on Circle (Direction_angle, Distance_angle,
  Angle_angle) and `C06_median_majority` are stated below in comments as the full statements; they are
  tied to the code by the correspondence only (see the `_partial` notes).
-/
import Gama.Lemmas.C06Cogo
import Gama.Lemmas.C06GN
import Mathlib.Analysis.Real.Pi.Bounds
namespace Gama.Props.C06
open Gama Gama.Cogo Gama.Median Gama.GN Gama.C06R Gama.C06L

/-! ## intersection primitives: exact data derived from a true point X are solved by X -/

/-- Distance_distance: with r1 = |X B1|, r2 = |X B2| and B1 ≠ B2, unless the small-angle guard fires,
    the solutions are exactly X and its mirror image in the base line, in the order fixed by the side of X
    (one solution when X is on the line). -/
theorem C06_cogo_exact_distance_distance (B1 B2 X : Pt ℝ) (r1 r2 sal : ℝ)
    (hne : (B2.x - B1.x) ^ 2 + (B2.y - B1.y) ^ 2 ≠ 0) (hr1 : 0 ≤ r1) (hr2 : 0 ≤ r2)
    (h1 : r1 ^ 2 = (X.x - B1.x) ^ 2 + (X.y - B1.y) ^ 2)
    (h2 : r2 ^ 2 = (X.x - B2.x) ^ 2 + (X.y - B2.y) ^ 2)
    (hs : (distDist B1 B2 r1 r2 sal).small = false) :
    (0 < across B1 B2 X → (distDist B1 B2 r1 r2 sal).sols = [X, mirror B1 B2 X]) ∧
    (across B1 B2 X < 0 → (distDist B1 B2 r1 r2 sal).sols = [mirror B1 B2 X, X]) ∧
    (across B1 B2 X = 0 → (distDist B1 B2 r1 r2 sal).sols = [X]) :=
  distDist_exact B1 B2 X r1 r2 sal hne hr1 hr2 h1 h2 hs

example : (0:ℝ) ≤ 5 ∧ (5:ℝ) ^ 2 = (3 - 0) ^ 2 + (4 - 0) ^ 2 ∧ ((10:ℝ) - 0) ^ 2 + (0 - 0) ^ 2 ≠ 0 := by norm_num

/-- Direction_direction: two outer bearings h1 (from B1) and h2 (from B2) that both point at X (X in front of
    both stations); unless the small-angle guard fires the single solution is X. -/
theorem C06_cogo_exact_direction_direction (B1 B2 X : Pt ℝ) (h1 h2 t1 t2 sal : ℝ)
    (ht1 : 0 < t1) (ht2 : 0 < t2) (hsal : 0 < sal)
    (hx1 : X.x = B1.x + t1 * Real.cos h1) (hy1 : X.y = B1.y + t1 * Real.sin h1)
    (hx2 : X.x = B2.x + t2 * Real.cos h2) (hy2 : X.y = B2.y + t2 * Real.sin h2)
    (hs : (dirDir B1 h1 B2 h2 sal).small = false) :
    (dirDir B1 h1 B2 h2 sal).sols = [X] :=
  dirDir_exact B1 B2 X h1 h2 t1 t2 sal ht1 ht2 hsal hx1 hy1 hx2 hy2 hs

/-- Direction_distance: bearing h1 from B1 pointing at X (farther than the code's 1e-6 round-off allowance),
    r = |X B2| > 0; unless the small-angle guard fires X is among the solutions. -/
theorem C06_cogo_exact_direction_distance (B1 B2 X : Pt ℝ) (h1 t r sal : ℝ)
    (ht : 1 / 10 ^ 6 < t) (hr : 0 < r)
    (hx : X.x = B1.x + t * Real.cos h1) (hy : X.y = B1.y + t * Real.sin h1)
    (hr2 : r ^ 2 = (X.x - B2.x) ^ 2 + (X.y - B2.y) ^ 2)
    (hs : (dirDist B1 h1 B2 r sal).small = false) :
    X ∈ (dirDist B1 h1 B2 r sal).sols :=
  dirDist_exact B1 B2 X h1 t r sal ht hr hx hy hr2 hs

example : (1:ℝ) / 10 ^ 6 < 5 ∧ (0:ℝ) < 3 := by norm_num

/-- AcordPolar::calculate_polar: the point at distance d in the direction orientation + dir from S. -/
theorem C06_cogo_exact_polar (S X : Pt ℝ) (o dir d : ℝ)
    (hx : X.x = S.x + d * Real.cos (o + dir)) (hy : X.y = S.y + d * Real.sin (o + dir)) :
    polar S o dir d = X :=
  polar_exact S X o dir d hx hy

/-- SimilarityTr2D: the key computed from two distinct identical points whose target coordinates are the image
    of the local ones under a similarity reproduces that similarity on every point. -/
theorem C06_cogo_exact_similarity (a1 a2 tx ty : ℝ) (f1 f2 p : Pt ℝ)
    (hne : (f2.x - f1.x) ^ 2 + (f2.y - f1.y) ^ 2 ≠ 0) :
    transform (transformationKey f1 f2 (simil a1 a2 tx ty f1) (simil a1 a2 tx ty f2)) p = simil a1 a2 tx ty p :=
  similarity_exact a1 a2 tx ty f1 f2 p hne

/-
  `C06_cogo_exact_circle / direction_angle / distance_angle / angle_angle` (full statements, NOT proved here):
    B1 = X + ρ1 (cos β1, sin β1), B2 = X + ρ2 (cos β2, sin β2), ρ1, ρ2 > 0, u = innerAngle X B1 B2,
    |B1 B2| ≥ 1e-6, circle B1 B2 u sal = (some (C, R), false)  →  (X.x − C.x)² + (X.y − C.y)² = R²;
    and then X ∈ (dirAngle S h B1 B2 u sal).sols / (distAngle …).sols / (angleAngle …).sols unless a small-angle
    guard fires.  Missing: the inscribed-angle identity for `circle` through Complex.arg (sin/cos of atan2);
    the compositions then follow from the three theorems above because the selection keeps every solution
    whose recomputed inner angle is within 0.1 rad of u, which X meets with margin 0.1.
  These primitives are tied to the code by the correspondence streams circle / dirang / distang / angang
  (consistent data: X is among the returned solutions in every generated case — checked as an oracle).
-/

/-! ## medians -/

/-- Acord2::median of a non-empty list whose elements all equal c is c. -/
theorem C06_median_const (v : List ℝ) (c : ℝ) (hne : v ≠ []) (h : ∀ x ∈ v, x = c) : median v = c :=
  median_const v c hne h

/-- the `(s[(n-1)/2] + s[n/2])/2` form (get_medians_z, AcordZderived). -/
theorem C06_median2_const (v : List ℝ) (c : ℝ) (hne : v ≠ []) (h : ∀ x ∈ v, x = c) : median2 v = c :=
  median2_const v c hne h

example : ([1, 1, 1] : List ℝ) ≠ [] ∧ ∀ x ∈ ([1, 1, 1] : List ℝ), x = 1 := by simp

/-
  `C06_median_majority` (full statement, NOT proved): `v.length < 2 * v.count c → median v = c`.
  Missing: sortedness of `sort` (insertion sort ≡ List.insertionSort) and the counting argument on the
  sorted list.  Explored by the correspondence stream `median` (majority cases are generated and checked).
-/

/-! ## orientation of a direction set -/

/-- Consistent directions (value = bearing − o reduced into [0,2π), as the generator and the parser produce
    them), true orientation o ∈ [0,2π) NOT on the wrap seam (o ≠ π): Orientation::orientation reports exactly o
    and counts every direction. -/
theorem C06_orientation_consistent (n : ℕ) (o : ℝ) (dirs : List (ℝ × ℝ)) (hne : dirs ≠ [])
    (ho0 : 0 ≤ o) (ho2 : o < 2 * Real.pi) (hoπ : o ≠ Real.pi)
    (h : ∀ p ∈ dirs, p.2 = p.1 - o ∨ p.2 = p.1 - o + 2 * Real.pi) :
    orientation (n + 1) dirs = (o, dirs.length) :=
  orientation_consistent n o dirs hne ho0 ho2 hoπ h

example : (0:ℝ) ≤ 1 ∧ (1:ℝ) < 2 * Real.pi ∧ (1:ℝ) ≠ Real.pi := by
  have := Real.pi_gt_d2
  refine ⟨by norm_num, by linarith, by linarith⟩

/-- The seam case (finding F15): four shifts that all represent the orientation π to within ε, two on each side
    of the ±π seam (as round-off produces them when the circle is turned by ≈ 200 gon), have median 0 —
    the reported orientation is off by π and every direction then has a ±200 gon absolute term. -/
theorem C06_orientation_seam_defect (ε : ℝ) (h0 : 0 < ε) (h1 : ε < Real.pi) :
    orientationOfShifts [-(Real.pi - ε), -(Real.pi - ε), Real.pi - ε, Real.pi - ε] = (0, 4) :=
  orientation_seam ε h0 h1

/-! ## one refine_approx_coordinates step -/

/-- the 'X' unknown with index i = |pre|+1 adds x(i)/1000, x(i+1)/1000 (mm → m) to the point's x, y; z untouched -/
theorem C06_update_sound_xy (x : List ℝ) (pre post : List Unk) (p : ℕ) (st : St ℝ)
    (hpre : ∀ u ∈ pre, Untouched p u) (hpost : ∀ u ∈ post, Untouched p u) :
    (refine x (pre ++ Unk.X p :: post) st).pts p =
      ⟨(st.pts p).x + xAt x (pre.length + 1) / 1000, (st.pts p).y + xAt x (pre.length + 2) / 1000, (st.pts p).z⟩ :=
  refine_X x pre post p st hpre hpost

theorem C06_update_sound_z (x : List ℝ) (pre post : List Unk) (p : ℕ) (st : St ℝ)
    (hpre : ∀ u ∈ pre, Untouched p u) (hpost : ∀ u ∈ post, Untouched p u) :
    (refine x (pre ++ Unk.Z p :: post) st).pts p =
      ⟨(st.pts p).x, (st.pts p).y, (st.pts p).z + xAt x (pre.length + 1) / 1000⟩ :=
  refine_Z x pre post p st hpre hpost

/-- the 'R' unknown is in cc: the orientation (radians) receives x(i)/10000 gon = x(i)/10000 · π/200 rad -/
theorem C06_update_sound_orientation (x : List ℝ) (pre post : List Unk) (s : ℕ) (st : St ℝ)
    (hpre : ∀ u ∈ pre, u ≠ Unk.R s) (hpost : ∀ u ∈ post, u ≠ Unk.R s) :
    (refine x (pre ++ Unk.R s :: post) st).ori s = st.ori s + xAt x (pre.length + 1) / 10000 * (Real.pi / 200) :=
  refine_R x pre post s st hpre hpost

/-- … and exactly the free coordinates: a point / standpoint that no unknown names is unchanged -/
theorem C06_update_sound_others (x : List ℝ) (us : List Unk) (p s : ℕ) (st : St ℝ)
    (hp : ∀ u ∈ us, Untouched p u) (hs : ∀ u ∈ us, u ≠ Unk.R s) :
    (refine x us st).pts p = st.pts p ∧ (refine x us st).ori s = st.ori s :=
  ⟨refine_pts_other x us p st hp, refine_ori_other x us s st hs⟩

example : ∀ u ∈ [Unk.R 0, Unk.Y 1], Untouched 1 u := by
  intro u hu; simp at hu; rcases hu with rfl | rfl <;> exact ⟨by simp, by simp⟩

/-! ## the true coordinates are a fixed point of the iteration -/

/-- observation = its function of the current coordinates ⇒ absolute term 0 (per observation type) -/
theorem C06_fixed_point_rhs (sx sy cx cy dx dy dz zs zc a b c : ℝ) :
    rhsDistance (bearingDistance sy sx cy cx).2 sx sy cx cy = 0 ∧
    rhsSDistance (Real.sqrt (dx * dx + dy * dy + dz * dz)) dx dy dz = 0 ∧
    rhsHDiff (zc - zs) zs zc = 0 ∧ rhsDiff (b - a) a b = 0 ∧ rhsCoord c c = 0 :=
  ⟨rhsDistance_fixed sx sy cx cy, rhsSDistance_fixed dx dy dz, rhsHDiff_fixed zs zc, rhsDiff_fixed a b,
   rhsCoord_fixed c⟩

/-- … hence x = 0 satisfies the normal equations Aᵀ P (A x − b) = 0 whatever A and P are -/
theorem C06_fixed_point_normal_equations {m n : Type} [Fintype m] [Fintype n] (A : Matrix m n ℝ) (P : Matrix m m ℝ) :
    A.transpose.mulVec (P.mulVec (A.mulVec 0 - 0)) = 0 :=
  normal_eq_zero A P

/-- … with x = 0, v = 0 the positional misclosures of the tested types vanish … -/
theorem C06_fixed_point_pol (n : ℕ) (val orp sx sy cx cy dx dy dz : ℝ)
    (h : val + orp = (bearingDistance sy sx cy cx).1 ∨ val + orp = (bearingDistance sy sx cy cx).1 + 2 * Real.pi) :
    polDistance (bearingDistance sy sx cy cx).2 0 sx sy cx cy = 0 ∧
    polSDistance (Real.sqrt (dx * dx + dy * dy + dz * dz)) 0 dx dy dz = 0 ∧
    polDirection (n + 1) val 0 orp 0 sx sy cx cy = 0 :=
  ⟨polDistance_fixed sx sy cx cy, polSDistance_fixed dx dy dz, polDirection_fixed n val orp sx sy cx cy h⟩

/-- … and the stopping test passes (no further iteration): max |pol| = 0 < 0.0005 -/
theorem C06_fixed_point_stop (k : ℕ) : testLin (List.replicate k (0 : ℝ)) = false :=
  testLin_zeros k

/-
  `C06_fixed_point` for Angle / Azimuth / Z_Angle absolute terms and `polAngle` (full statement: same as above
  with value = the type's function of the coordinates): not proved — they need the 2π-reduction lemmas for
  `wrapCc*` and acos; covered by the correspondence stream `net` (pol / testlin on adjusted networks) and the
  end-to-end oracle (supplied variant: zero iterations, adjusted = given).
-/

/-- the linear-algebra half of "adding observations never makes a determined point undetermined":
    a further row keeps an injective (full column rank) design matrix injective. -/
theorem C06_more_obs_monotone_partial {m n : Type} [Fintype m] [Fintype n] (A : Matrix m n ℝ) (a : n → ℝ)
    (hA : ∀ x, A.mulVec x = 0 → x = 0) :
    ∀ x, (Matrix.of (fun (i : m ⊕ Unit) => Sum.elim A (fun _ => a) i)).mulVec x = 0 → x = 0 :=
  more_obs_injective A a hA

end Gama.Props.C06
