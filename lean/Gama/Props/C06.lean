/-
  C06 — Consistent observations reproduce the network they were derived from.

  Property theorems only (helper lemmas: Gama/Lemmas/C06*.lean).
  All statements are over ℝ with Real.sqrt / sin / cos / Complex.arg (atan2); the models are the ones
  executed at Float next to the C++ (lean/Driver/Cogo.lean ↔ harness/c06_cogo.cpp).

  What is NOT claimed as proved (explored by the end-to-end search of tools/props/c06.py only):
  convergence of the iterated linearisation from perturbed / omitted approximate coordinates,
  completeness of the Acord2 strategies, the strategies AcordPolar::execute, AcordTraverse, AcordWeakChecks and
  ApproximateCoordinates::solve_insertion (no model; the `acord2` stream counts the networks that need one of them),
  monotonicity of AcordIntersection under added observations (hypothesis `aiMono`), rounding.
  Round 4: `C06_reset_ok` (ApproxPoint::reset on exact clusters) makes `C06_acord_intersection_sound` a statement
  without hypotheses about the code; the modelled Acord2 as a whole (`C06_acord2_modelled_sound`,
  `C06_acord2_modelled_monotone(_partial)`, `…_execute_partial`), executed by `drv_cogo` (op `acord2`) next to the real
  `Acord2::execute`.
  Round 3b: AcordIntersection::execute with ApproximateCoordinates / ApproxPoint / Select_solution_g2d (all but
  `solve_insertion`, Gama/Model/AcordIntersection.lean), the scheduling of Acord2::execute as a state machine
  (Gama/Model/Acord2.lean) and the fixed point composed with C05's whole pass and C01's `IsLSSolution`.
  Round 3: single steps of AcordAzimuth, AcordHdiff, AcordVector, AcordZderived + get_medians_z are
  modelled (Gama/Model/Acord*.lean) and proved sound and monotone below, for every schedule that
  interleaves them (the invariants `SoundXY`, `SoundZ`, `…AlgOK` are preserved by each step).  The fixed-point theorems are stated on C05's generated linearisation
  (Gama/Gen/Linearization.lean, regenerated from local_linearization.cpp on every run).
-/
import Gama.Lemmas.C06Cogo
import Gama.Lemmas.C06GN
import Gama.Lemmas.C06Fix
import Gama.Lemmas.C06Circle
import Gama.Lemmas.C06Sort
import Gama.Lemmas.C06Acord
import Gama.Lemmas.C06Witness
import Gama.Lemmas.C06FixedPoint
import Gama.Lemmas.C06Sched
import Gama.Lemmas.C06Inter
import Gama.Lemmas.C06Reset
import Gama.Lemmas.C06ResetEval
import Gama.Lemmas.C06Mono
import Gama.Lemmas.C06Glue
import Gama.Lemmas.C06PointMono
namespace Gama.Props.C06
variable {ι : Type} [DecidableEq ι]
open Gama Gama.Cogo Gama.Median Gama.GN Gama.C06R Gama.C06L Gama.Acord Gama.C06A

/-! ## intersection primitives: exact data derived from a true point X are solved by X -/

/-- Distance_distance: with r1 = |X B1|, r2 = |X B2| and B1 ≠ B2, unless the small-angle guard fires,
    the solutions are exactly X and its mirror image in the base line, in the order fixed by the side of X
    (one solution when X is on the line). -/
theorem C06_cogo_exact_distance_distance (B1 B2 X : Cogo.Pt ℝ) (r1 r2 sal : ℝ)
    (hne : (B2.x - B1.x) ^ 2 + (B2.y - B1.y) ^ 2 ≠ 0) (hr1 : 0 ≤ r1) (hr2 : 0 ≤ r2)
    (h1 : r1 ^ 2 = (X.x - B1.x) ^ 2 + (X.y - B1.y) ^ 2)
    (h2 : r2 ^ 2 = (X.x - B2.x) ^ 2 + (X.y - B2.y) ^ 2)
    (hs : (distDist B1 B2 r1 r2 sal).small = false) :
    (0 < across B1 B2 X → (distDist B1 B2 r1 r2 sal).sols = [X, mirror B1 B2 X]) ∧
    (across B1 B2 X < 0 → (distDist B1 B2 r1 r2 sal).sols = [mirror B1 B2 X, X]) ∧
    (across B1 B2 X = 0 → (distDist B1 B2 r1 r2 sal).sols = [X]) :=
  distDist_exact B1 B2 X r1 r2 sal hne hr1 hr2 h1 h2 hs

/-- non-vacuity: B1 = (0,0), B2 = (6,0), X = (3,4), r1 = r2 = 5, default small-angle limit — exact data AND the
    guard not fired AND the side of X, all at once; the model evaluates to `[(3,4), (3,−4)]` -/
example : (((6:ℝ) - 0) ^ 2 + ((0:ℝ) - 0) ^ 2 ≠ 0) ∧ (0:ℝ) ≤ 5 ∧ (0:ℝ) ≤ 5 ∧
    ((5:ℝ) ^ 2 = (3 - 0) ^ 2 + (4 - 0) ^ 2) ∧ ((5:ℝ) ^ 2 = (3 - 6) ^ 2 + (4 - 0) ^ 2) ∧
    (distDist (⟨0, 0⟩ : Cogo.Pt ℝ) ⟨6, 0⟩ 5 5 salDefault).small = false ∧
    0 < across (⟨0, 0⟩ : Cogo.Pt ℝ) ⟨6, 0⟩ ⟨3, 4⟩ := wit_distance_distance
example : distDist (⟨0, 0⟩ : Cogo.Pt ℝ) ⟨6, 0⟩ 5 5 salDefault = ⟨[⟨3, 4⟩, ⟨3, -4⟩], false⟩ := wit_distance_distance_eval

/-- Direction_direction: two outer bearings h1 (from B1) and h2 (from B2) that both point at X (X in front of
    both stations); unless the small-angle guard fires the single solution is X. -/
theorem C06_cogo_exact_direction_direction (B1 B2 X : Cogo.Pt ℝ) (h1 h2 t1 t2 sal : ℝ)
    (ht1 : 0 < t1) (ht2 : 0 < t2) (hsal : 0 < sal)
    (hx1 : X.x = B1.x + t1 * Real.cos h1) (hy1 : X.y = B1.y + t1 * Real.sin h1)
    (hx2 : X.x = B2.x + t2 * Real.cos h2) (hy2 : X.y = B2.y + t2 * Real.sin h2)
    (hs : (dirDir B1 h1 B2 h2 sal).small = false) :
    (dirDir B1 h1 B2 h2 sal).sols = [X] :=
  dirDir_exact B1 B2 X h1 h2 t1 t2 sal ht1 ht2 hsal hx1 hy1 hx2 hy2 hs

/-- Direction_distance: bearing h1 from B1 pointing at X (farther than the code's 1e-6 round-off allowance),
    r = |X B2| > 0; unless the small-angle guard fires X is among the solutions. -/
theorem C06_cogo_exact_direction_distance (B1 B2 X : Cogo.Pt ℝ) (h1 t r sal : ℝ)
    (ht : 1 / 10 ^ 6 < t) (hr : 0 < r)
    (hx : X.x = B1.x + t * Real.cos h1) (hy : X.y = B1.y + t * Real.sin h1)
    (hr2 : r ^ 2 = (X.x - B2.x) ^ 2 + (X.y - B2.y) ^ 2)
    (hs : (dirDist B1 h1 B2 r sal).small = false) :
    X ∈ (dirDist B1 h1 B2 r sal).sols :=
  dirDist_exact B1 B2 X h1 t r sal ht hr hx hy hr2 hs

/-- non-vacuity of `C06_cogo_exact_direction_direction`: B1 = (0,0) bearing 0, B2 = (10,−10) bearing π/2, X = (10,0) -/
example : (0:ℝ) < 10 ∧ (0:ℝ) < 10 ∧ 0 < (salDefault : ℝ) ∧
    ((10:ℝ) = 0 + 10 * Real.cos 0) ∧ ((0:ℝ) = 0 + 10 * Real.sin 0) ∧
    ((10:ℝ) = 10 + 10 * Real.cos (Real.pi / 2)) ∧ ((0:ℝ) = -10 + 10 * Real.sin (Real.pi / 2)) ∧
    (dirDir (⟨0, 0⟩ : Cogo.Pt ℝ) 0 ⟨10, -10⟩ (Real.pi / 2) salDefault).small = false := wit_direction_direction
/-- non-vacuity of `C06_cogo_exact_direction_distance`: B1 = (0,0) bearing 0, t = 3; B2 = (0,4), r = 5; X = (3,0) -/
example : ((1:ℝ) / 10 ^ 6 < 3) ∧ (0:ℝ) < 5 ∧
    ((3:ℝ) = 0 + 3 * Real.cos 0) ∧ ((0:ℝ) = 0 + 3 * Real.sin 0) ∧
    ((5:ℝ) ^ 2 = (3 - 0) ^ 2 + (0 - 4) ^ 2) ∧
    (dirDist (⟨0, 0⟩ : Cogo.Pt ℝ) 0 ⟨0, 4⟩ 5 salDefault).small = false := wit_direction_distance

/-- AcordPolar::calculate_polar: the point at distance d in the direction orientation + dir from S. -/
theorem C06_cogo_exact_polar (S X : Cogo.Pt ℝ) (o dir d : ℝ)
    (hx : X.x = S.x + d * Real.cos (o + dir)) (hy : X.y = S.y + d * Real.sin (o + dir)) :
    polar S o dir d = X :=
  polar_exact S X o dir d hx hy

/-- SimilarityTr2D: the key computed from two distinct identical points whose target coordinates are the image
    of the local ones under a similarity reproduces that similarity on every point. -/
theorem C06_cogo_exact_similarity (a1 a2 tx ty : ℝ) (f1 f2 p : Cogo.Pt ℝ)
    (hne : (f2.x - f1.x) ^ 2 + (f2.y - f1.y) ^ 2 ≠ 0) :
    transform (transformationKey f1 f2 (simil a1 a2 tx ty f1) (simil a1 a2 tx ty f2)) p = simil a1 a2 tx ty p :=
  similarity_exact a1 a2 tx ty f1 f2 p hne

/-- Circle::calculation: B1, B2 seen from X under the inner angle u = innerAngle X B1 B2 (the model's own
    observation function), all three points pairwise farther apart than bearing_distance's 1e-6 cut, small-angle
    guard not fired: the returned circle (centre C, radius R > 0) passes through X (inscribed angle). -/
theorem C06_cogo_exact_circle (B1 B2 X : Cogo.Pt ℝ) (sal : ℝ) (h1 : Far X B1) (h2 : Far X B2) (h12 : Far B1 B2)
    (hsal : 0 < sal) (hsm : ¬ |Real.sin (innerAngle X B1 B2)| < sal) :
    ∃ C R, circle B1 B2 (innerAngle X B1 B2) sal = (some (C, R), false) ∧
      (X.x - C.x) ^ 2 + (X.y - C.y) ^ 2 = R ^ 2 ∧ 0 < R :=
  circle_of_obs B1 B2 X sal h1 h2 h12 hsal hsm

/-- Direction_angle: bearing h1 from S pointing at X (t > 1e-6) and the inner angle at X between B1 and B2;
    unless a small-angle guard fires X is among the solutions. -/
theorem C06_cogo_exact_direction_angle (S B1 B2 X : Cogo.Pt ℝ) (h1 t sal : ℝ)
    (hf1 : Far X B1) (hf2 : Far X B2) (hf12 : Far B1 B2) (hsal : 0 < sal)
    (hsm : ¬ |Real.sin (innerAngle X B1 B2)| < sal) (ht : 1 / 10 ^ 6 < t)
    (hx : X.x = S.x + t * Real.cos h1) (hy : X.y = S.y + t * Real.sin h1)
    (hs : (dirAngle S h1 B1 B2 (innerAngle X B1 B2) sal).small = false) :
    X ∈ (dirAngle S h1 B1 B2 (innerAngle X B1 B2) sal).sols :=
  dirAngle_exact S B1 B2 X h1 t sal hf1 hf2 hf12 hsal hsm ht hx hy hs

/-- Distance_angle: distance dd1 = |X BB| and the inner angle at X between B1 and B2; BB is not the centre of
    the circle (the code's `s12 == 0` rejection); unless a small-angle guard fires X is among the solutions. -/
theorem C06_cogo_exact_distance_angle (BB B1 B2 X : Cogo.Pt ℝ) (dd1 sal : ℝ)
    (hf1 : Far X B1) (hf2 : Far X B2) (hf12 : Far B1 B2) (hsal : 0 < sal)
    (hsm : ¬ |Real.sin (innerAngle X B1 B2)| < sal)
    (hdd0 : 0 ≤ dd1) (hdd : dd1 ^ 2 = (X.x - BB.x) ^ 2 + (X.y - BB.y) ^ 2)
    (hcen : ∀ C R, circle B1 B2 (innerAngle X B1 B2) sal = (some (C, R), false) →
        (C.x - BB.x) ^ 2 + (C.y - BB.y) ^ 2 ≠ 0)
    (hs : (distAngle BB dd1 B1 B2 (innerAngle X B1 B2) sal).small = false) :
    X ∈ (distAngle BB dd1 B1 B2 (innerAngle X B1 B2) sal).sols :=
  distAngle_exact BB B1 B2 X dd1 sal hf1 hf2 hf12 hsal hsm hdd0 hdd hcen hs

/-- Angle_angle (resection from two inner angles): the two circles have different centres (the code's
    `s12 == 0` rejection); unless a small-angle guard fires X is among the solutions (it survives the
    common-point exclusion and both ±0.1 rad angle checks). -/
theorem C06_cogo_exact_angle_angle (B1 B2 B3 B4 X : Cogo.Pt ℝ) (sal : ℝ)
    (hf1 : Far X B1) (hf2 : Far X B2) (hf12 : Far B1 B2)
    (hf3 : Far X B3) (hf4 : Far X B4) (hf34 : Far B3 B4) (hsal : 0 < sal)
    (hsm1 : ¬ |Real.sin (innerAngle X B1 B2)| < sal) (hsm2 : ¬ |Real.sin (innerAngle X B3 B4)| < sal)
    (hcen : ∀ C1 R1 C2 R2, circle B1 B2 (innerAngle X B1 B2) sal = (some (C1, R1), false) →
        circle B3 B4 (innerAngle X B3 B4) sal = (some (C2, R2), false) →
        (C2.x - C1.x) ^ 2 + (C2.y - C1.y) ^ 2 ≠ 0)
    (hs : (angleAngle B1 B2 (innerAngle X B1 B2) B3 B4 (innerAngle X B3 B4) sal).small = false) :
    X ∈ (angleAngle B1 B2 (innerAngle X B1 B2) B3 B4 (innerAngle X B3 B4) sal).sols :=
  angleAngle_exact B1 B2 B3 B4 X sal hf1 hf2 hf12 hf3 hf4 hf34 hsal hsm1 hsm2 hcen hs

/-- non-vacuity of the four angle theorems, one configuration: X = (0,0), B1 = (6,0), B2 = B3 = (0,8), B4 = (−6,0)
    (both inner angles π/2; circles: centre (3,4) resp. (−3,4), radius 5); S = (−4,0) bearing 0; BB = (3,−4), d = 5.
    Every hypothesis — exact data, `Far`, small-angle guards not fired, distinct centres — holds simultaneously. -/
example : ∃ C R, circle (⟨6, 0⟩ : Cogo.Pt ℝ) ⟨0, 8⟩ (innerAngle (⟨0, 0⟩ : Cogo.Pt ℝ) ⟨6, 0⟩ ⟨0, 8⟩) salDefault = (some (C, R), false) ∧
    ((0:ℝ) - C.x) ^ 2 + (0 - C.y) ^ 2 = R ^ 2 ∧ 0 < R := by
  obtain ⟨a, b, c, d, e⟩ := wit_circle
  exact C06_cogo_exact_circle _ _ ⟨0, 0⟩ _ a b c d e
example : (⟨0, 0⟩ : Cogo.Pt ℝ) ∈
    (dirAngle (⟨-4, 0⟩ : Cogo.Pt ℝ) 0 ⟨6, 0⟩ ⟨0, 8⟩ (innerAngle (⟨0, 0⟩ : Cogo.Pt ℝ) ⟨6, 0⟩ ⟨0, 8⟩) salDefault).sols := by
  obtain ⟨a, b, c, d, e, f, g, h, i⟩ := wit_direction_angle
  exact C06_cogo_exact_direction_angle _ _ _ ⟨0, 0⟩ _ 4 _ a b c d e f g h i
example : (⟨0, 0⟩ : Cogo.Pt ℝ) ∈
    (distAngle (⟨3, -4⟩ : Cogo.Pt ℝ) 5 ⟨6, 0⟩ ⟨0, 8⟩ (innerAngle (⟨0, 0⟩ : Cogo.Pt ℝ) ⟨6, 0⟩ ⟨0, 8⟩) salDefault).sols := by
  obtain ⟨a, b, c, d, e, f, g, h, i⟩ := wit_distance_angle
  exact C06_cogo_exact_distance_angle _ _ _ ⟨0, 0⟩ _ _ a b c d e f g h i
example : (⟨0, 0⟩ : Cogo.Pt ℝ) ∈
    (angleAngle (⟨6, 0⟩ : Cogo.Pt ℝ) ⟨0, 8⟩ (innerAngle (⟨0, 0⟩ : Cogo.Pt ℝ) ⟨6, 0⟩ ⟨0, 8⟩)
      ⟨0, 8⟩ ⟨-6, 0⟩ (innerAngle (⟨0, 0⟩ : Cogo.Pt ℝ) ⟨0, 8⟩ ⟨-6, 0⟩) salDefault).sols := by
  obtain ⟨a, b, c, d, e, f, g, h, i, j, k⟩ := wit_angle_angle
  exact C06_cogo_exact_angle_angle _ _ _ _ ⟨0, 0⟩ _ a b c d e f g h i j k

example : Far (⟨0, 0⟩ : Cogo.Pt ℝ) ⟨3, 4⟩ := by
  unfold Far
  have : Real.sqrt (((4:ℝ) - 0) * (4 - 0) + (3 - 0) * (3 - 0)) = 5 := by
    rw [show ((4:ℝ) - 0) * (4 - 0) + (3 - 0) * (3 - 0) = 5 ^ 2 by norm_num]
    exact Real.sqrt_sq (by norm_num)
  simp only [this]; norm_num


/-! ## medians -/

/-- Acord2::median of a non-empty list whose elements all equal c is c. -/
theorem C06_median_const (v : List ℝ) (c : ℝ) (hne : v ≠ []) (h : ∀ x ∈ v, x = c) : median v = c :=
  median_const v c hne h

/-- the `(s[(n-1)/2] + s[n/2])/2` form (get_medians_z, AcordZderived). -/
theorem C06_median2_const (v : List ℝ) (c : ℝ) (hne : v ≠ []) (h : ∀ x ∈ v, x = c) : median2 v = c :=
  median2_const v c hne h

example : ([1, 1, 1] : List ℝ) ≠ [] ∧ ∀ x ∈ ([1, 1, 1] : List ℝ), x = 1 := by simp

/-- more than half of the values equal c ⇒ the median is c (both forms); the model's insertion sort is
    Mathlib's `List.insertionSort (· ≤ ·)` -/
theorem C06_median_majority (v : List ℝ) (c : ℝ) (h : v.length < 2 * v.count c) : median v = c :=
  median_majority v c h

theorem C06_median2_majority (v : List ℝ) (c : ℝ) (h : v.length < 2 * v.count c) : median2 v = c :=
  median2_majority v c h

example : ([7, 1, 7, 9, 7] : List ℝ).length < 2 * ([7, 1, 7, 9, 7] : List ℝ).count 7 := by
  simp


/-! ## orientation of a direction set -/

/-- Consistent directions (value = bearing − o reduced into [0,2π), as the generator and the parser produce
    them), true orientation o anywhere in [0,2π) — including the ±π wrap seam, where the shifts come out as
    a mixture of π and −π: Orientation::orientation (as fixed by 01e764d: median in both wrappings, smaller
    mean deviation wins) reports exactly o and counts every direction. -/
theorem C06_orientation_consistent (n : ℕ) (o : ℝ) (dirs : List (ℝ × ℝ)) (hne : dirs ≠ [])
    (ho0 : 0 ≤ o) (ho2 : o < 2 * Real.pi)
    (h : ∀ p ∈ dirs, p.2 = p.1 - o ∨ p.2 = p.1 - o + 2 * Real.pi) :
    orientation (n + 1) dirs = (o, dirs.length) :=
  orientation_consistent n o dirs hne ho0 ho2 h

example : (0:ℝ) ≤ Real.pi ∧ Real.pi < 2 * Real.pi := by
  have := Real.pi_pos
  exact ⟨by linarith, by linarith⟩

/-- Regression for finding F15 (fixed): four shifts that all represent the orientation π to within ε, two on
    each side of the ±π seam (as round-off produces them when the circle is turned by ≈ 200 gon).  Before the
    fix their median was 0 (orientation off by π, every direction removed); now the result is π. -/
theorem C06_orientation_seam_regression (ε : ℝ) (h0 : 0 < ε) (h1 : ε < Real.pi / 2) :
    orientationOfShifts [-(Real.pi - ε), -(Real.pi - ε), Real.pi - ε, Real.pi - ε] = (Real.pi, 4) :=
  orientation_seam_regression ε h0 h1

/-! ## one refine_approx_coordinates step -/

/-- the 'X' unknown with index i = |pre|+1 adds x(i)/1000, x(i+1)/1000 (mm → m) to the point's x, y; z untouched -/
theorem C06_update_sound_xy (x : List ℝ) (pre post : List Unk) (p : ℕ) (st : St ℝ)
    (hpre : ∀ u ∈ pre, Untouched p u) (hpost : ∀ u ∈ post, Untouched p u) :
    (refine x (pre ++ Unk.X p :: post) st).pts p =
      ⟨(st.pts p).x + xAt x (pre.length + 1) / 1000, (st.pts p).y + xAt x (pre.length + 2) / 1000, (st.pts p).z⟩ :=
  refine_X x pre post p st hpre hpost

theorem C06_update_sound_z (x : List ℝ) (pre post : List Unk) (p : ℕ) (st : St ℝ)
    (hpre : ∀ u ∈ pre, Untouched p u) (hpost : ∀ u ∈ post, Untouched p u) :
    (refine x (pre ++ Unk.Z p :: post) st).pts p =
      ⟨(st.pts p).x, (st.pts p).y, (st.pts p).z + xAt x (pre.length + 1) / 1000⟩ :=
  refine_Z x pre post p st hpre hpost

/-- the 'R' unknown is in cc: the orientation (radians) receives x(i)/10000 gon = x(i)/10000 · π/200 rad -/
theorem C06_update_sound_orientation (x : List ℝ) (pre post : List Unk) (s : ℕ) (st : St ℝ)
    (hpre : ∀ u ∈ pre, u ≠ Unk.R s) (hpost : ∀ u ∈ post, u ≠ Unk.R s) :
    (refine x (pre ++ Unk.R s :: post) st).ori s = st.ori s + xAt x (pre.length + 1) / 10000 * (Real.pi / 200) :=
  refine_R x pre post s st hpre hpost

/-- … and exactly the free coordinates: a point / standpoint that no unknown names is unchanged -/
theorem C06_update_sound_others (x : List ℝ) (us : List Unk) (p s : ℕ) (st : St ℝ)
    (hp : ∀ u ∈ us, Untouched p u) (hs : ∀ u ∈ us, u ≠ Unk.R s) :
    (refine x us st).pts p = st.pts p ∧ (refine x us st).ori s = st.ori s :=
  ⟨refine_pts_other x us p st hp, refine_ori_other x us s st hs⟩

example : ∀ u ∈ [Unk.R 0, Unk.Y 1], Untouched 1 u := by
  intro u hu; simp at hu; rcases hu with rfl | rfl <;> exact ⟨by simp, by simp⟩

/-! ## the true coordinates are a fixed point of the iteration -/

/-- observation = its function of the current coordinates ⇒ absolute term 0, for every observation type of the
    linearisation GENERATED from local_linearization.cpp (C05's Gama/Gen/Linearization.lean): distance -/
theorem C06_fixed_point_rhs_distance (fuel : Nat) (o : Lin.Obs ℝ) (out : Lin.LinOut ℝ) (h : ¬ Lin.hdist o < Lin.CUT)
    (hv : o.value = Lin.hdist o) (hok : Gen.Lin.distance fuel o = .ok out) : out.rhs = 0 :=
  fix_distance fuel o out h hv hok

/-- direction: value = bearing − orientation up to whole circles (the parser reduces it to [0,2π)) -/
theorem C06_fixed_point_rhs_direction (fuel : Nat) (o : Lin.Obs ℝ) (out : Lin.LinOut ℝ) (h : ¬ Lin.hdist o < Lin.CUT)
    (k : ℤ) (hv : o.value + o.orientation = Lin.brg (Lin.dX o) (Lin.dY o) + 2 * Real.pi * k)
    (hok : Gen.Lin.direction fuel o = .ok out) : out.rhs = 0 :=
  fix_direction fuel o out h k hv hok

theorem C06_fixed_point_rhs_azimuth (fuel : Nat) (o : Lin.Obs ℝ) (out : Lin.LinOut ℝ) (h : ¬ Lin.hdist o < Lin.CUT)
    (k : ℤ) (hv : o.value + o.xNorth = Lin.brg (Lin.dX o) (Lin.dY o) + 2 * Real.pi * k)
    (hok : Gen.Lin.azimuth fuel o = .ok out) : out.rhs = 0 :=
  fix_azimuth fuel o out h k hv hok

theorem C06_fixed_point_rhs_angle (fuel : Nat) (o : Lin.Obs ℝ) (out : Lin.LinOut ℝ)
    (h : ¬ Lin.hdist o < Lin.CUT) (h' : ¬ Lin.hdist2 o < Lin.CUT)
    (hv : o.value = Lin.angleBsFs o) (hok : Gen.Lin.angle fuel o = .ok out) : out.rhs = 0 :=
  fix_angle fuel o out h h' hv hok

theorem C06_fixed_point_rhs_s_distance (fuel : Nat) (o : Lin.Obs ℝ) (out : Lin.LinOut ℝ)
    (hv : o.value = Lin.sdist o) (hok : Gen.Lin.s_distance fuel o = .ok out) : out.rhs = 0 :=
  fix_s_distance fuel o out hv hok

/-- zenith angle: acos(dz/s), resp. 2π − acos(dz/s) for a second-face reading (value > π) -/
theorem C06_fixed_point_rhs_z_angle (fuel : Nat) (o : Lin.Obs ℝ) (out : Lin.LinOut ℝ)
    (hv : o.value = Lin.zenithComputed o) (hok : Gen.Lin.z_angle fuel o = .ok out) : out.rhs = 0 :=
  fix_z_angle fuel o out hv hok

/-- the seven linear types: height difference, coordinate differences, observed coordinates -/
theorem C06_fixed_point_rhs_linear (fuel : Nat) (o : Lin.Obs ℝ) :
    (o.value = Lin.dZ o → ∃ out, Gen.Lin.h_diff fuel o = .ok out ∧ out.rhs = 0) ∧
    (o.value = Lin.dZ o → ∃ out, Gen.Lin.zdiff fuel o = .ok out ∧ out.rhs = 0) ∧
    (o.value = Lin.dX o → ∃ out, Gen.Lin.xdiff fuel o = .ok out ∧ out.rhs = 0) ∧
    (o.value = Lin.dY o → ∃ out, Gen.Lin.ydiff fuel o = .ok out ∧ out.rhs = 0) ∧
    (o.value = Lin.fromX o → ∃ out, Gen.Lin.x fuel o = .ok out ∧ out.rhs = 0) ∧
    (o.value = Lin.fromY o → ∃ out, Gen.Lin.y fuel o = .ok out ∧ out.rhs = 0) ∧
    (o.value = Lin.fromZ o → ∃ out, Gen.Lin.z fuel o = .ok out ∧ out.rhs = 0) :=
  fix_linear fuel o

/-- b = 0 for the WHOLE pass of `project_equations` (C05's `Lin.passFrom` over the generated linearisation): if every
    observation of the list is its own function of the coordinates (`C06FP.ExactObs` = per type the hypothesis of the
    seven theorems above) the right-hand side the pass assembles is the zero vector -/
theorem C06_pass_rhs_zero (σ : Lin.Net ℝ) (fuel : Nat) (obs : List (Lin.NObs ℝ)) (s : Lin.IdxState) (res : Lin.PassOut ℝ)
    (hex : ∀ ob ∈ obs, C06FP.ExactObs σ ob) (hp : Lin.passFrom σ fuel obs s = .ok res) :
    res.rhs = List.replicate obs.length 0 :=
  C06FP.pass_rhs_zero σ fuel obs s res hex hp

/-- … hence EVERY least-squares solution in the sense of C01's specification (`LS.IsLSSolution`: what cholesky, gso,
    svd and envelope are proved to return) of a system with b = 0 and a positive definite weight matrix has
    residuals 0, [pvv] = 0, lies in the kernel of A and vanishes on the regularised unknowns S; x = 0 itself as soon as
    S resolves the defect (regular case: any S; free network: e.g. S = all unknowns) -/
theorem C06_ls_solution_of_zero_rhs {m n : Type} [Fintype m] [Fintype n] {A : Matrix m n ℝ} {P : Matrix m m ℝ}
    {S : Finset n} {x : n → ℝ} {v : m → ℝ} {rtr : ℝ} (h : LS.IsLSSolution A 0 P S x v rtr)
    (hpd : ∀ d, d ≠ 0 → 0 < d ⬝ᵥ P.mulVec d) :
    A.mulVec x = 0 ∧ v = 0 ∧ rtr = 0 ∧ (∀ i ∈ S, x i = 0) ∧ (LS.Resolves A S → x = 0) :=
  ⟨(C06FP.ls_solution_of_zero_rhs h hpd).1, (C06FP.ls_solution_of_zero_rhs h hpd).2.1,
   (C06FP.ls_solution_of_zero_rhs h hpd).2.2.1, (C06FP.ls_solution_of_zero_rhs h hpd).2.2.2,
   fun hS => (C06FP.ls_solution_of_zero_rhs_resolves h hpd hS).1⟩

example {m n : Type} [Fintype m] [Fintype n] (A : Matrix m n ℝ) (P : Matrix m m ℝ) (S : Finset n) :
    LS.IsLSSolution A 0 P S 0 0 0 := C06FP.zero_isLSSolution A P S

/-- THE TRUE COORDINATES ARE A FIXED POINT OF THE ITERATION (replaces the former `C06_fixed_point_normal_equations`,
    which was `Aᵀ P (A·0 − 0) = 0`).  Network σ at the true coordinates, all observations exact, one successful pass
    giving `res`; any design matrix A (in particular the assembled one, `C06FP.true_coordinates_fixed_point_codeMatrix`),
    b = the right-hand side of that pass, P positive definite, S resolving the defect, and ANY (x, v, [pvv]) meeting
    C01's specification: then b = 0, x = 0, v = 0, [pvv] = 0, the stopping test on all-zero misclosures asks for no
    further iteration, and `refine_approx_coordinates` with this x leaves every coordinate and orientation unchanged. -/
theorem C06_true_coordinates_are_a_fixed_point_of_the_iteration
    (σ : Lin.Net ℝ) (fuel : Nat) (obs : List (Lin.NObs ℝ)) (s : Lin.IdxState) (res : Lin.PassOut ℝ)
    (hex : ∀ ob ∈ obs, C06FP.ExactObs σ ob) (hp : Lin.passFrom σ fuel obs s = .ok res)
    {m n : ℕ} (A : Matrix (Fin m) (Fin n) ℝ) (P : Matrix (Fin m) (Fin m) ℝ) (S : Finset (Fin n))
    (hpd : ∀ d, d ≠ 0 → 0 < d ⬝ᵥ P.mulVec d) (hS : LS.Resolves A S)
    (x : Fin n → ℝ) (v : Fin m → ℝ) (rtr : ℝ)
    (hls : LS.IsLSSolution A (fun i : Fin m => res.rhs.getD i.val 0) P S x v rtr)
    (pols : List ℝ) (hpols : ∀ p ∈ pols, p = 0) (unks : List GN.Unk) (st : GN.St ℝ) :
    res.rhs = List.replicate obs.length 0 ∧ x = 0 ∧ v = 0 ∧ rtr = 0 ∧ testLin pols = false ∧
      refine (List.ofFn x) unks st = st ∧
      (∀ p, (refine (List.ofFn x) unks st).pts p = st.pts p) ∧
      (∀ q, (refine (List.ofFn x) unks st).ori q = st.ori q) :=
  C06FP.true_coordinates_are_a_fixed_point_of_the_iteration σ fuel obs s res hex hp A P S hpd hS x v rtr hls pols hpols
    unks st

/-- … regular case (trivial kernel: fixed / constrained network), any regularisation subset -/
theorem C06_true_coordinates_fixed_point_regular
    (σ : Lin.Net ℝ) (fuel : Nat) (obs : List (Lin.NObs ℝ)) (s : Lin.IdxState) (res : Lin.PassOut ℝ)
    (hex : ∀ ob ∈ obs, C06FP.ExactObs σ ob) (hp : Lin.passFrom σ fuel obs s = .ok res)
    {m n : ℕ} (A : Matrix (Fin m) (Fin n) ℝ) (P : Matrix (Fin m) (Fin m) ℝ) (S : Finset (Fin n))
    (hpd : ∀ d, d ≠ 0 → 0 < d ⬝ᵥ P.mulVec d) (hker : ∀ g, A.mulVec g = 0 → g = 0)
    (x : Fin n → ℝ) (v : Fin m → ℝ) (rtr : ℝ)
    (hls : LS.IsLSSolution A (fun i : Fin m => res.rhs.getD i.val 0) P S x v rtr)
    (unks : List GN.Unk) (st : GN.St ℝ) :
    x = 0 ∧ v = 0 ∧ rtr = 0 ∧ refine (List.ofFn x) unks st = st :=
  have h := C06FP.true_coordinates_fixed_point_regular σ fuel obs s res hex hp A P S hpd hker x v rtr hls [] (by simp)
    unks st
  ⟨h.2.1, h.2.2.1, h.2.2.2.1, h.2.2.2.2.2.1⟩

/-- non-vacuity: C05's example network, a height difference and a distance (3-4-5) at their computed values: exact,
    the pass succeeds, its right-hand side is [0, 0] -/
example : (∀ ob ∈ C06FP.exactObs, C06FP.ExactObs Lin.exNet ob) ∧
    ∃ res, Lin.passFrom Lin.exNet 0 C06FP.exactObs Lin.IdxState.init = .ok res :=
  ⟨C06FP.exactObs_exact, C06FP.exactObs_pass_ok⟩

/-- … with x = 0, v = 0 the positional misclosures of the tested types vanish … -/
theorem C06_fixed_point_pol (n : ℕ) (val orp sx sy cx cy dx dy dz : ℝ)
    (h : val + orp = (bearingDistance sy sx cy cx).1 ∨ val + orp = (bearingDistance sy sx cy cx).1 + 2 * Real.pi) :
    polDistance (bearingDistance sy sx cy cx).2 0 sx sy cx cy = 0 ∧
    polSDistance (Real.sqrt (dx * dx + dy * dy + dz * dz)) 0 dx dy dz = 0 ∧
    polDirection (n + 1) val 0 orp 0 sx sy cx cy = 0 :=
  ⟨polDistance_fixed sx sy cx cy, polSDistance_fixed dx dy dz, polDirection_fixed n val orp sx sy cx cy h⟩

theorem C06_fixed_point_pol_angle (n : ℕ) (val sx sy cx cy cx2 cy2 : ℝ)
    (h : val = (bearingDistance sy sx cy2 cx2).1 - (bearingDistance sy sx cy cx).1 ∨
         val = (bearingDistance sy sx cy2 cx2).1 - (bearingDistance sy sx cy cx).1 + 2 * Real.pi) :
    polAngle (n + 1) val 0 sx sy cx cy cx2 cy2 = 0 :=
  polAngle_fixed n val sx sy cx cy cx2 cy2 h

/-- … also for zenith angles, which the stopping test recomputes since fix 45be66f (finding F18) -/
theorem C06_fixed_point_pol_zangle (n : ℕ) (val dx dy dz : ℝ)
    (h : val = if Real.pi < val
               then 2 * Real.pi - Real.arccos (-dz / Real.sqrt (dx * dx + dy * dy + dz * dz))
               else Real.arccos (-dz / Real.sqrt (dx * dx + dy * dy + dz * dz))) :
    polZAngle (n + 1) val 0 dx dy dz = 0 :=
  polZAngle_fixed n val dx dy dz h

/-- … and the stopping test passes (no further iteration): max |pol| = 0 < 0.0005 -/
theorem C06_fixed_point_stop (k : ℕ) : testLin (List.replicate k (0 : ℝ)) = false :=
  testLin_zeros k


/-- the linear-algebra half of "adding observations never makes a determined point undetermined":
    a further row keeps an injective (full column rank) design matrix injective. -/
theorem C06_more_obs_monotone_partial {m n : Type} [Fintype m] [Fintype n] (A : Matrix m n ℝ) (a : n → ℝ)
    (hA : ∀ x, A.mulVec x = 0 → x = 0) :
    ∀ x, (Matrix.of (fun (i : m ⊕ Unit) => Sum.elim A (fun _ => a) i)).mulVec x = 0 → x = 0 :=
  more_obs_injective A a hA

/-! ## single steps of the Acord2 strategies (round 3)

Vocabulary (Gama/Lemmas/C06Acord.lean): `Truth` = the true coordinates; `SoundXY T pd` / `SoundZ T pd` = every
coordinate group the point list marks as defined holds the true values; `KeepXY`, `KeepZ` = a defined group keeps
its flag and its values; `SameXY`, `SameZ` = the group is not touched at all; `Sub l l'` = the `missing` set did
not grow.  Axes orientation and angle sense enter only through `xN = PD.xNorthAngle()`: the statements hold for
every real `xN`, hence for all 8 × 2 settings. -/

/-- the azimuth observation function of the linearisation (`value + xNorthAngle() = bearing mod 2π`, the
    hypothesis of `C06_fixed_point_rhs_azimuth`) gives what the strategy uses, and so does the reverse
    observation turned round by `prepare` (`+π`, optionally `−2π`) -/
theorem C06_acord_azimuth_obs (T : Truth ι) (xN : ℝ) (f t : ι) (v : ℝ) (h : IsAzimuth T xN f t v) :
    AzDir T xN f t v ∧ AzDir T xN t f (v + Real.pi) ∧ AzDir T xN t f (v + Real.pi - 2 * Real.pi) :=
  ⟨azDir_of_isAzimuth T xN f t v h, azDir_reverse T xN t f v (azDir_of_isAzimuth T xN f t v h)⟩

example : IsAzimuth (ι := ℕ) ⟨fun i => if i = 1 then 100 else 0, fun _ => 0, fun _ => 0⟩ 0 0 1 0 :=
  ⟨0, by simp [Lin.brg_east]⟩

/-- AcordAzimuth::execute, first branch (the end point with the smaller id is known): the point written is
    the true one -/
theorem C06_acord_azimuth_sound_fwd (T : Truth ι) (xN : ℝ) (st : St ι ℝ) (e : AzEntry ι ℝ)
    (hs : SoundXY T st.pd) (ha : (st.pd e.a).bxy = true) (hb : (st.pd e.b).bxy = false)
    (hd0 : e.distance ≠ 0) (hok : AzOK T xN e) :
    ((azStep xN st e).pd e.b).bxy = true ∧ ((azStep xN st e).pd e.b).x = T.x e.b ∧
    ((azStep xN st e).pd e.b).y = T.y e.b := by
  rcases azStep_cases xN st e with h | ⟨_, _, _, h⟩ | ⟨ha', _, _, _⟩
  · exfalso
    have : azStep xN st e = azFwd xN st e := by simp [azStep, azFwd, ha, hb, hd0]
    have h2 := (azFwd_sound T xN st e hs ha hd0 hok).1
    rw [← this, h, hb] at h2; exact absurd h2 (by simp)
  · rw [h]; exact azFwd_sound T xN st e hs ha hd0 hok
  · rw [ha] at ha'; exact absurd ha' (by simp)

/-- … second branch (the end point with the larger id is known; `value + π`) -/
theorem C06_acord_azimuth_sound_rev (T : Truth ι) (xN : ℝ) (st : St ι ℝ) (e : AzEntry ι ℝ)
    (hs : SoundXY T st.pd) (ha : (st.pd e.a).bxy = false) (hb : (st.pd e.b).bxy = true)
    (hd0 : e.distance ≠ 0) (hok : AzOK T xN e) :
    ((azStep xN st e).pd e.a).bxy = true ∧ ((azStep xN st e).pd e.a).x = T.x e.a ∧
    ((azStep xN st e).pd e.a).y = T.y e.a := by
  have : azStep xN st e = azRev xN st e := by simp [azStep, azRev, ha, hb, hd0]
  rw [this]; exact azRev_sound T xN st e hs hb hd0 hok

example : AzOK (ι := ℕ) ⟨fun i => if i = 1 then 5 else 0, fun _ => 0, fun _ => 0⟩ 0 ⟨0, 1, 0, 5, []⟩ := by
  intro _
  have h5 : Real.sqrt (((5:ℝ) - 0) * (5 - 0) + (0 - 0) * (0 - 0)) = 5 := by
    rw [show ((5:ℝ) - 0) * (5 - 0) + (0 - 0) * (0 - 0) = 5 ^ 2 by norm_num]; exact Real.sqrt_sq (by norm_num)
  refine ⟨?_, ?_, ?_⟩ <;> simp [AzDir, hd, h5]

/-- AcordAzimuth::execute as a whole (prepare on first use — map insertion by id order, removal, seam treatment of
    fix 8d96812 with any fuel ≥ 1, both medians, distance lookup — the loop over the map in key order with the point
    list updated on the way, removal, any number of repetitions), at full strength: if EVERY azimuth is exact (its
    value in [0, 2π) as the constructor of `Azimuth` leaves it; `AzDir` follows from the linearisation's function by
    `C06_acord_azimuth_obs`) and the distances are the true ones, every xy the point list holds afterwards is true
    and the stored entries stay consistent.  (`Tri lt`: `PointID::operator<` identifies keys, C07.) -/
theorem C06_acord_azimuth_sound {lt : ι → ι → Bool} (htri : Tri lt) (T : Truth ι) (xN : ℝ) (od : List (Cluster ι ℝ))
    (alg : AzAlg ι ℝ) (st : St ι ℝ) (n : ℕ)
    (hobsA : ∀ f t v, Obs.azimuth f t v ∈ spObs od → AzDir T xN f t v ∧ 0 ≤ v ∧ v < 2 * Real.pi)
    (hobsD : ∀ f t v, Obs.distance f t v ∈ spObs od → v = hd T f t)
    (halg : AzAlgOK T xN alg) (hs : SoundXY T st.pd) :
    SoundXY T (azExecute (n + 1) lt xN od alg st).2.pd ∧ AzAlgOK T xN (azExecute (n + 1) lt xN od alg st).1 :=
  azExecute_sound htri T xN od alg st n hobsA hobsD halg hs

example : Tri (fun a b : ℕ => decide (a < b)) := by
  intro a b h1 h2; simp at h1 h2; omega

/-- Regression of finding C06-azimuth-seam (fixed by 8d96812; corpus/C06/acord-azimuth-seam.txt): a forward azimuth
    0 and the exact reverse azimuth π of the same pair are still stored as 0 and 2π, but the seam treatment brings
    2π back to 0 before the median: the value is 0 (before the fix: π, the new point mirrored through the known one) -/
theorem C06_acord_azimuth_seam_regression (lt : ι → ι → Bool) (a b : ι) (h : lt a b = true) (n : ℕ) :
    azNormalize lt b a (Real.pi : ℝ) = (a, b, 2 * Real.pi) ∧
    median2 (azSeam (n + 1) ([0, 2 * Real.pi] : List ℝ)) = 0 :=
  ⟨az_seam_normalize lt a b h, az_seam_regression n⟩

/-- AcordHdiff::execute (prepare on first use, refresh of the local copy, the chaining loop with any fuel that
    lets it finish, copy-back): exact height differences and a sound point list give a sound point list; xy is
    not touched, no height flag is cleared, `missing_z_` only shrinks, and the algorithm's own state stays sound
    (so the statement applies again to the next call). -/
theorem C06_acord_hdiff_sound (T : Truth ι) (fuel : Nat) (od : List (Cluster ι ℝ)) (alg alg' : HdAlg ι ℝ)
    (st st' : St ι ℝ) (hobs : ∀ h ∈ hdAll od, HdOK T h) (halg : HdAlgOK T alg) (hs : SoundZ T st.pd)
    (hex : hdExecute fuel od alg st = some (alg', st')) :
    SoundZ T st'.pd ∧ HdAlgOK T alg' ∧ SameXY st.pd st'.pd ∧
    (∀ j, (st.pd j).bz = true → (st'.pd j).bz = true) ∧
    Sub st.missZ st'.missZ ∧ st'.missXY = st.missXY ∧ st'.candZ = st.candZ :=
  hdExecute_props T fuel od alg alg' st st' hobs halg hs hex

/-- both branches of the chaining step: `to = from + hd` and `from = to − hd` -/
theorem C06_acord_hdiff_step_sound (T : Truth ι) (ls : PD ι ℝ × Bool) (h : Hd ι ℝ) (hs : SoundZ T ls.1)
    (hok : HdOK T h) : SoundZ T (hdPassStep ls h).1 :=
  hdPassStep_sound T ls h hs hok

example : HdOK (ι := ℕ) ⟨fun _ => 0, fun _ => 0, fun i => 3 * i⟩ ⟨0, 1, 3⟩ := by simp [HdOK]

/-- AcordVector::execute: exact vectors and a sound point list give a sound point list (xy and z); no flag is
    cleared, the `missing` sets only shrink, the algorithm's own state stays sound. -/
theorem C06_acord_vector_sound (T : Truth ι) (fuel : Nat) (od : List (Cluster ι ℝ)) (alg alg' : VecAlg ι ℝ)
    (st st' : St ι ℝ) (hobs : ∀ h ∈ vecAll od ⟨0, 0, 0, 0⟩ [], VecOK T h) (halg : VecAlgOK T alg)
    (h1 : SoundXY T st.pd) (h2 : SoundZ T st.pd) (hex : vecExecute fuel od alg st = some (alg', st')) :
    VecCopyProps T st st' ∧ VecAlgOK T alg' :=
  vecExecute_props T fuel od alg alg' st st' hobs halg h1 h2 hex

/-- both branches of the chaining step: `to = from + (dx,dy,dz)` and `from = to − (dx,dy,dz)` -/
theorem C06_acord_vector_step_sound (T : Truth ι) (ls : PD ι ℝ × Bool) (h : Vec ι ℝ) (hxy : SoundXY T ls.1)
    (hz : SoundZ T ls.1) (hok : VecOK T h) : SoundXY T (vecPassStep ls h).1 ∧ SoundZ T (vecPassStep ls h).1 :=
  vecPassStep_sound T ls h hxy hz hok

example : VecOK (ι := ℕ) ⟨fun i => i, fun i => 2 * i, fun i => 3 * i⟩ ⟨0, 1, 1, 2, 3⟩ := by simp [VecOK]

/-- the zenith angle of C05's linearisation (`arccos (dz / slope)`) and its second-face reading `2π − …`
    (`Lin.zenithComputed`) are zenith readings in the sense used below whenever the sight is not vertical -/
theorem C06_acord_zenith_obs (h v : ℝ) (hh : 0 < h) :
    IsZenithObs h v (Real.sqrt (h * h + v * v)) (Real.arccos (v / Real.sqrt (h * h + v * v))) ∧
    IsZenithObs h v (Real.sqrt (h * h + v * v)) (2 * Real.pi - Real.arccos (v / Real.sqrt (h * h + v * v))) :=
  ⟨⟨_, (isZenith_arccos h v hh).1, (isZenith_arccos h v hh).2.1, (isZenith_arccos h v hh).2.2, Or.inl rfl⟩,
   ⟨_, (isZenith_arccos h v hh).1, (isZenith_arccos h v hh).2.1, (isZenith_arccos h v hh).2.2, Or.inr rfl⟩⟩

/-- AcordZderived, branch A (station height from targets with heights): every `continue`-free outcome is the
    true height of the station — for horizontal distances, slope distances and coordinate distances, with the
    instrument / target heights of the zenith angle, readings in either face (fix 50e5b35) -/
theorem C06_acord_zderived_station_sound (T : Truth ι) (pd : PD ι ℝ) (station : ι) (obs : List (Obs ι ℝ))
    (hxy : SoundXY T pd) (hzs : SoundZ T pd) (hok : ZdOK T station obs) (z : ℝ)
    (h : zdStation pd obs = some z) : z = T.z station :=
  zdStation_sound T pd station obs hxy hzs hok z h

/-- … branch B (target heights from the station height) -/
theorem C06_acord_zderived_target_sound (T : Truth ι) (pd : PD ι ℝ) (station : ι) (obs : List (Obs ι ℝ))
    (hxy : SoundXY T pd) (hok : ZdOK T station obs) :
    ∀ c ∈ zdTargets pd (T.z station) obs, c.2 = T.z c.1 :=
  zdTargets_sound T pd station obs hxy hok

example : IsZenithObs 1 0 1 (Real.pi / 2) :=
  ⟨Real.pi / 2, by simp [IsZenith], by positivity, by linarith [Real.pi_pos], Or.inl rfl⟩

/-- AcordZderived::execute followed by Acord2::get_medians_z (one round, all clusters, both branches, the
    median of any number of candidates): a sound point list stays sound -/
theorem C06_acord_zderived_sound (T : Truth ι) (od : List (Cluster ι ℝ)) (alg : ZdAlg) (st : St ι ℝ)
    (h0 : st.candZ = []) (hok : OdZdOK T od) (hxy : SoundXY T st.pd) (hz : SoundZ T st.pd) :
    SoundZ T (zdRound od alg st).2.pd ∧ SoundXY T (zdRound od alg st).2.pd :=
  zdRound_sound T od alg st h0 hok hxy hz

/-- Regression of finding C06-zderived-face2 (fixed by 50e5b35; corpus/C06/acord-zderived-face2.txt): a second-face
    reading `2π − za` gives the true height `stZ + v + dh` (before the fix: `stZ − v + dh`) -/
theorem C06_acord_zderived_face2_regression (T : Truth ι) (pd : PD ι ℝ) (f t : ι) (stZ fdh tdh za s : ℝ)
    (hz : IsZenith (hd T f t) (T.z t + tdh - (T.z f + fdh)) s za) (h0 : 0 < za) (hp : za < Real.pi)
    (hb : (pd f).bxy = false) :
    zdTargetHeights pd stZ [(t, hd T f t)] [] ⟨f, t, 2 * Real.pi - za, fdh, tdh⟩ =
      [(t, stZ + (T.z t + tdh - (T.z f + fdh)) + (fdh - tdh))] :=
  zd_face2_regression T pd f t stZ fdh tdh za s hz h0 hp hb

/-- "a step never changes coordinates that were already known and never un-knows a point", for arbitrary
    (also inconsistent) data: AcordAzimuth::execute keeps every defined xy, does not touch heights; one round of
    AcordZderived + get_medians_z keeps every defined height, does not touch xy; `missing` sets never grow -/
theorem C06_acord_step_monotone (fuel : ℕ) (lt : ι → ι → Bool) (xN : ℝ) (od : List (Cluster ι ℝ)) (aa : AzAlg ι ℝ) (za : ZdAlg)
    (st : St ι ℝ) :
    (KeepXY st.pd (azExecute fuel lt xN od aa st).2.pd ∧ SameZ st.pd (azExecute fuel lt xN od aa st).2.pd ∧
      Sub st.missXY (azExecute fuel lt xN od aa st).2.missXY ∧ (azExecute fuel lt xN od aa st).2.missZ = st.missZ) ∧
    (st.candZ = [] →
      KeepZ st.pd (zdRound od za st).2.pd ∧ SameXY st.pd (zdRound od za st).2.pd ∧
      Sub st.missZ (zdRound od za st).2.missZ ∧ (zdRound od za st).2.missXY = st.missXY) := by
  obtain ⟨a, b, c, d, _⟩ := azExecute_mono fuel lt xN od aa st
  exact ⟨⟨a, b, c, d⟩, fun h0 => zdRound_mono od za st h0⟩

/-- … for AcordHdiff / AcordVector the part that holds for arbitrary data is "no flag is cleared, the other
    coordinate group of AcordHdiff is untouched, the `missing` sets never grow" (in `C06_acord_hdiff_sound`,
    `C06_acord_vector_sound`); that *values* of defined coordinates are kept is proved for consistent data only
    (they are true before and after).  The full statement fails for AcordVector on the real code: a point whose
    xy is given but whose z is missing is not "known" to the strategy and its xy is overwritten from the
    vector (replayed: corpus/C06/pending/acord-vector-overwrites-xy.txt) — a local pass keeps every defined height: -/
theorem C06_acord_step_monotone_hdiff_partial (ls : PD ι ℝ × Bool) (h : Hd ι ℝ) :
    KeepZ ls.1 (hdPassStep ls h).1 ∧ SameXY ls.1 (hdPassStep ls h).1 :=
  hdPassStep_mono ls h

/-! ## AcordIntersection::execute (round 3b; model Gama/Model/AcordIntersection.lean, lemmas Gama/Lemmas/C06Inter.lean)

`Inter.AObs` = the observations ApproxPoint::calculation works with after ArrangeObservations (distance from the
new point, outer bearing to it, inner angle at it); `C06I.ArrOK X pd a` = such an observation is exact for the point
`X` (its value is the model's own observation function of `X` and the known points `pd`, the sights are longer than
the 1e-6 cut of bearing_distance / Direction_distance).  All statements hold for every small-angle limit `sal > 0`
(0.15, and the 0.15/1.5 of AcordIntersection). -/

/-- every pair ApproxPoint::calculation forms (distance–distance, direction–distance, distance–angle,
    direction–direction, direction–angle, angle–angle; either order): on exact data the intersection class either
    reports no solution (guard fired, degenerate, circles with one centre) or the true point is among its solutions.
    No `small = false` / `hcen` hypothesis is left: a fired guard is proved to mean "no solution". -/
theorem C06_acord_intersection_pair_sound (X : Cogo.Pt ℝ) (pd : PD ι ℝ) (sal : ℝ) (hsal : 0 < sal)
    (a b : Inter.AObs ι ℝ) (ha : C06I.ArrOK X pd a) (hb : C06I.ArrOK X pd b)
    (hne : (Inter.cogoPair pd sal a b).sols ≠ []) : X ∈ (Inter.cogoPair pd sal a b).sols :=
  C06I.cogoPair_true X pd sal hsal a b ha hb hne

/-- Select_solution_g2d (the choice between two solutions by a further observation, with its `tol < 0.1`,
    `delta < tol`, `delta1 > 10·delta2`, `delta1 < 0.1·delta2` rules): if one of the two candidates is the true point and
    the observations it consults are exact, a decision is a decision for the true point -/
theorem C06_acord_intersection_select_sound (X : Cogo.Pt ℝ) (pd : PD ι ℝ) (b1 b2 : Cogo.Pt ℝ) (hX : b1 = X ∨ b2 = X)
    (sm : List (Inter.AObs ι ℝ)) (hsm : ∀ a ∈ sm, C06I.ArrOK X pd a) (p : Cogo.Pt ℝ)
    (h : Inter.selectSol pd b1 b2 sm = some p) : p = X :=
  C06I.selectSol_sound X pd b1 b2 hX sm hsm p h

/-- ApproxPoint::calculation as a whole (double loop over all pairs, one- and two-solution cases, selection,
    Statistics_g2d median of any number of candidates): `unique_solution` on exact observations is the true point -/
theorem C06_acord_intersection_point_sound (X : Cogo.Pt ℝ) (pd : PD ι ℝ) (sal : ℝ) (hsal : 0 < sal)
    (sm : List (Inter.AObs ι ℝ)) (hsm : ∀ a ∈ sm, C06I.ArrOK X pd a) (p : Cogo.Pt ℝ)
    (h : Inter.apCalc pd sal sm = some p) : p = X :=
  C06I.apCalc_sound X pd sal hsal sm hsm p h

/-- non-vacuity: two exact distances from (0,0) and (6,0) to X = (3,4) -/
example : ∀ a ∈ [Inter.AObs.dist 0 (5:ℝ), Inter.AObs.dist 1 5],
    C06I.ArrOK (ι := ℕ) ⟨3, 4⟩ (fun i => if i = 0 then ⟨0, 0, 0, true, false⟩ else ⟨6, 0, 0, true, false⟩) a := by
  have h5 : Real.sqrt ((3:ℝ) * 3 + 4 * 4) = 5 := by
    rw [show (3:ℝ) * 3 + 4 * 4 = 5 ^ 2 by norm_num]; exact Real.sqrt_sq (by norm_num)
  have h5' : Real.sqrt (((3:ℝ) - 6) * (3 - 6) + 4 * 4) = 5 := by
    rw [show ((3:ℝ) - 6) * (3 - 6) + 4 * 4 = 5 ^ 2 by norm_num]; exact Real.sqrt_sq (by norm_num)
  intro a ha
  simp only [List.mem_cons, List.mem_nil_iff, or_false] at ha
  rcases ha with rfl | rfl <;> simp [C06I.ArrOK, Inter.ptOf, g2dDistance, h5, h5']

/-- the temporary oriented stand-point, azimuth rule of fix 78a600d: an exact azimuth contributes a direction that,
    with the orientation `xNorthAngle()` of that stand-point, points from a point WITH coordinates at its target —
    kept as it is when observed at a known point, turned into the opposite bearing from the target (value + π,
    reduced by the constructor) when observed at an unknown point towards a known one, left out otherwise -/
theorem C06_acord_intersection_azimuth_rule (T : Truth ι) (xN : ℝ) (pd : PD ι ℝ) (cl : List (Inter.HObs ι ℝ))
    (f t : ι) (v : ℝ) (hv : AzDir T xN f t v) :
    ∀ o ∈ Inter.tempObs pd cl (.azimuth f t v), ∃ f' t' v', o = .direction f' t' v' ∧ AzDir T xN f' t' v' ∧
      (pd f').bxy = true :=
  C06I.tempObs_azimuth T xN pd cl f t v hv

/-- … slope distances WITH the heights above the marks (fix 863dd00): for a slope distance `s` measured between the
    instrument (`from_dh` above the mark of `f`) and the target (`to_dh` above the mark of `t`) — every zenith reading of
    the same sight (either face) belonging to that line of sight (`hZ`), and `s² = hd² + ((z_f + from_dh) − (z_t + to_dh))²`
    (`hH`) — every horizontal distance the temporary stand-point gets from it, `s·|sin z|` per zenith angle of the sight
    and, with both heights known (true heights: `SoundZ`), `sqrt(s² − ((z_f + from_dh) − (z_t + to_dh))²)`, is the true
    horizontal distance.  The arithmetic core is the second statement (any `h ≥ 0`, `dz`). -/
theorem C06_acord_intersection_slope_reduction (T : Truth ι) (pd : PD ι ℝ) (hz : SoundZ T pd)
    (cl : List (Inter.HObs ι ℝ)) (f t : ι) (s fdh tdh : ℝ)
    (hZ : ∀ zv, Inter.HObs.zangle f t zv ∈ cl → ∃ dz, IsZenithObs (hd T f t) dz s zv)
    (hH : s * s = hd T f t * hd T f t + ((T.z f + fdh) - (T.z t + tdh)) * ((T.z f + fdh) - (T.z t + tdh))) :
    (∀ f' t' v, Inter.HObs.distance f' t' v ∈ Inter.tempObs pd cl (.sdistance f t s fdh tdh) →
      v = g2dDistance (C06I.tp T f') (C06I.tp T t')) ∧
    (∀ h v s' r dz : ℝ, (IsZenithObs h v s' r → s' * |Real.sin r| = h) ∧
      (0 ≤ h → s' * s' = h * h + dz * dz → Real.sqrt (s' * s' - dz * dz) = h)) :=
  ⟨fun f' t' v hm => C06I.tempObs_dist T pd hz cl (.sdistance f t s fdh tdh)
      (fun f1 t1 v1 a1 b1 zv e hzm => by
        simp only [Inter.HObs.sdistance.injEq] at e
        obtain ⟨rfl, rfl, rfl, rfl, rfl⟩ := e
        exact hZ zv hzm)
      (fun f1 t1 v1 a1 b1 e => by
        simp only [Inter.HObs.sdistance.injEq] at e
        obtain ⟨rfl, rfl, rfl, rfl, rfl⟩ := e
        exact hH) f' t' v hm,
   fun h v s' r dz => ⟨C06I.temp_slope_zenith h v s' r, C06I.temp_slope_heights h dz s'⟩⟩

/-- non-vacuity: marks 0 = (0, 0, 0) and 1 = (3, 0, 3.5), instrument 1.5 m and target 2 m above them: the line of sight has
    horizontal part 3 and height part 1.5 − 5.5 = −4, slope distance 5; both heights known, no zenith angle: the
    hypotheses hold and the temporary stand-point gets the distance `sqrt(25 − 16)` -/
example :
    let T : Truth ℕ := ⟨fun i => if i = 1 then 3 else 0, fun _ => 0, fun i => if i = 1 then 7 / 2 else 0⟩
    let pd : PD ℕ ℝ := fun i => if i = 1 then ⟨3, 0, 7 / 2, true, true⟩ else ⟨0, 0, 0, true, true⟩
    SoundZ T pd ∧ (∀ zv, Inter.HObs.zangle 0 1 zv ∈ ([] : List (Inter.HObs ℕ ℝ)) → ∃ dz, IsZenithObs (hd T 0 1) dz 5 zv) ∧
    (5 : ℝ) * 5 = hd T 0 1 * hd T 0 1 + ((T.z 0 + 3 / 2) - (T.z 1 + 2)) * ((T.z 0 + 3 / 2) - (T.z 1 + 2)) ∧
    Inter.tempObs pd [] (.sdistance 0 1 5 (3 / 2) 2) =
      [.distance 0 1 (Real.sqrt (5 * 5 - ((0 + 3 / 2) - (7 / 2 + 2)) * ((0 + 3 / 2) - (7 / 2 + 2))))] := by
  intro T pd
  have h3 : hd T 0 1 = 3 := by
    simp only [hd, T]
    norm_num
    exact C06L.sqrt_of_sq (by norm_num) (by norm_num)
  refine ⟨?_, ?_, ?_, ?_⟩
  · intro i _
    by_cases h : i = 1 <;> simp [pd, T, h]
  · intro zv h; simp at h
  · rw [h3]; simp only [T]; norm_num
  · simp only [Inter.tempObs, pd]
    norm_num

/-- AcordIntersection::execute as a whole — `approxy_.calculation()`, the two turns of its loop with the temporary
    stand-point and the relaxed small-angle limit, under them ApproximateCoordinates::calculation
    (find_missing_coordinates, solvable_data, necessary_observations, computational_loop, solve_intersection walking
    the unsolved points until a walk solves nothing, every solved point feeding the next) and ApproxPoint::calculation —
    keeps the point list sound, for any number of repeated calls (the conclusion restores the hypotheses), GIVEN
    `C06I.ResetOK`: ApproxPoint::reset hands exact observations to the calculation and sets only true orientations.
    `C06_reset_ok` derives that hypothesis from the exactness of the raw observations and
    `C06_acord_intersection_sound` is the statement without it (round 4; this theorem was
    `C06_acord_intersection_sound_partial`). -/
theorem C06_acord_intersection_sound_of_reset (T : Truth ι) (fuel : Nat) (lt : ι → ι → Bool) (keys : List ι)
    (extra : Bool) (xN : ℝ) (cls : List (Inter.Cl ι ℝ)) (I I' : List (Option ℝ) → Prop)
    (h1 : C06I.ResetOK T fuel (Inter.copyHorizontal cls) I)
    (h2 : ∀ pd : PD ι ℝ, SoundXY T pd →
      C06I.ResetOK T fuel (Inter.copyHorizontal (cls ++ [⟨some xN, Inter.tempAll pd cls⟩])) I')
    (hext : ∀ o, I o → I' (o ++ [some xN])) (hres : ∀ o n, I' o → I (o.take n))
    (alg : Inter.AiAlg) (st : Inter.AiState ι ℝ) (hs : SoundXY T st.pd) (hi : I st.oris) (hsal : 0 < st.sal) :
    SoundXY T (Inter.aiExecute fuel lt keys extra xN cls alg st).2.pd ∧
    I (Inter.aiExecute fuel lt keys extra xN cls alg st).2.oris ∧
    0 < (Inter.aiExecute fuel lt keys extra xN cls alg st).2.sal :=
  C06I.aiExecute_sound T fuel lt keys extra xN cls I I' h1 h2 hext hres alg st hs hi hsal

/-- ApproxPoint::reset on EXACT clusters (round 4).  `C06I.ExactCl T xN tori cls` says that every observation of the
    clusters `cls` (the `ObservationData` as AcordIntersection sees it, cluster `k` with true circle orientation
    `tori k`) is its function of the true coordinates `T`:
    Directions `v = bearing − tori k (+ 2π)` with `v, tori k ∈ [0, 2π)` and sights longer than the 1e-6 of
    bearing_distance; Distances the distance of the true points; Angles the inner angle with arms > 1e-6; Azimuths
    pointing, with `xN = xNorthAngle()`, from their stand-point at their target, value in [0, 2π); a slope distance with
    a zenith angle of the same sight (either face) / with both heights the distance in space; all Directions of a
    cluster observed at ONE point (a StandPoint has one station); an orientation a stand-point already has is the true
    one; and — REQUIRED, `C06I.DirSep` / `C06I.AzSep` — two Directions (Azimuths) observed at one point go to targets
    that are ≥ 1e-6 apart and NOT in one direction from it (otherwise `makeAngle` hands an angle between coinciding
    points, resp. the `u_mer` rule of ArrangeObservations mixes 0 with 2π − 0, to the calculation).
    Then the whole of ApproxPoint::reset — Orientation::add_all (`C06_orientation_consistent`), the selection loop with
    `KnownTarget` / `knownStandpoint`, `makeBearing` for directions and angles with their ±2π reductions, `makeAngle`,
    the four grouping passes of ArrangeObservations with their medians and the `med >= M_PI` swap, the constructors'
    `norm_rad_val` — sets only true orientations (`keep`) and hands only exact observations (`C06I.ArrOK`) to
    ApproxPoint::calculation (`exact`), for every sound point list, every point `cb`, every fuel ≥ 1; and the
    orientations the clusters start with satisfy the invariant. -/
theorem C06_reset_ok (T : Truth ι) (xN : ℝ) (tori : Nat → ℝ) (cls : List (Inter.Cl ι ℝ)) (n : Nat)
    (h : C06I.ExactCl T xN tori cls) :
    C06I.ResetOK T (n + 1) (Inter.copyHorizontal cls) (C06I.OriOK tori) ∧ C06I.OriOK tori (cls.map (·.ori)) :=
  ⟨C06I.reset_ok T xN tori cls n h, C06I.oriOK_init T xN tori cls h⟩

/-- … and with the temporary stand-point AcordIntersection::execute appends (orientation `xNorthAngle()` ∈ [0, 2π);
    directions from azimuths by the rule of fix 78a600d, horizontal distances from slope distances — the latter read
    heights from the point list, hence `SoundZ`): its directions come from MANY stations, which `add_all` never notices
    because the cluster is oriented from the start (`C06I.OriInv … (fun k => k = cls.length)`). -/
theorem C06_reset_ok_temp (T : Truth ι) (xN : ℝ) (hx0 : 0 ≤ xN) (hx2 : xN < 2 * Real.pi) (tori : Nat → ℝ)
    (cls : List (Inter.Cl ι ℝ)) (n : Nat) (hex : C06I.ExactCl T xN tori cls) (pd : PD ι ℝ) (hz : SoundZ T pd) :
    C06I.ResetOK T (n + 1) (Inter.copyHorizontal (cls ++ [⟨some xN, Inter.tempAll pd cls⟩]))
      (C06I.OriInv (C06I.toriX tori cls.length xN) (fun k => k = cls.length)) :=
  C06I.reset_ok_temp T xN hx0 hx2 tori cls n hex pd hz

/-- AcordIntersection::execute on exact observations, NO hypothesis about ApproxPoint::reset left (round 4): every
    coordinate it publishes is the true one, heights are untouched, every orientation it writes to a real stand-point is
    the true one, for every fuel ≥ 1, key order, `extra`, object state `alg` (fresh, prepared, completed) — and the
    conclusion restores the hypotheses, so any number of calls interleaved with other sound strategies keeps them.
    `hlen`: the orientation list has one entry per cluster (the temporary stand-point is addressed by `cls.length`).
    Covered: everything `Gama/Model/AcordIntersection.lean` models.  NOT covered: ApproximateCoordinates::solve_insertion
    (no model; finding C06-F21: it publishes wrong coordinates from exact data — the `acord` / `acord2` streams count the
    cases it decides). -/
theorem C06_acord_intersection_sound (T : Truth ι) (n : Nat) (lt : ι → ι → Bool) (keys : List ι) (extra : Bool) (xN : ℝ)
    (hx0 : 0 ≤ xN) (hx2 : xN < 2 * Real.pi) (tori : Nat → ℝ) (cls : List (Inter.Cl ι ℝ))
    (hex : C06I.ExactCl T xN tori cls) (alg : Inter.AiAlg) (st : Inter.AiState ι ℝ) (hs : SoundXY T st.pd)
    (hz : SoundZ T st.pd) (hi : C06I.OriOK tori st.oris) (hlen : st.oris.length = cls.length) (hsal : 0 < st.sal) :
    SoundXY T (Inter.aiExecute (n + 1) lt keys extra xN cls alg st).2.pd ∧
    SoundZ T (Inter.aiExecute (n + 1) lt keys extra xN cls alg st).2.pd ∧
    C06I.OriOK tori (Inter.aiExecute (n + 1) lt keys extra xN cls alg st).2.oris ∧
    (Inter.aiExecute (n + 1) lt keys extra xN cls alg st).2.oris.length = cls.length ∧
    0 < (Inter.aiExecute (n + 1) lt keys extra xN cls alg st).2.sal :=
  C06I.aiExecute_sound_exact T n lt keys extra xN hx0 hx2 tori cls hex alg st hs hz hi hlen hsal

/-- non-vacuity, evaluated END TO END over ℝ (`Gama/Lemmas/C06ResetData.lean`, `C06ResetEval.lean`): A (−3/4, 0),
    B (3/4, 0), C (0, 0) given, X = (0, 1) to be computed from the distances X→A = X→B = 5/4 and the direction C→X = π/2
    of a stand-point with orientation 0.  All hypotheses of `C06_acord_intersection_sound` hold (`C06RD.rExact`, …);
    `aiExecute` — find_missing_coordinates = [X], solvable_data, necessary_observations, add_all, arrange =
    [dist A, dist B, dir C], Distance_distance → (0, 1), (0, −1), Select_solution_g2d decides by the direction
    (deviation 0 against π, tolerance 1 m), Direction_distance twice → (0, 1), median of three, the point written, the
    second walk empty, `missing_xy_` emptied, completed — publishes X, and the theorem says it is the true point. -/
example :
    C06I.ExactCl C06RD.rT 0 C06RD.rTori C06RD.rCls ∧ SoundXY C06RD.rT C06RD.rSt.pd ∧ SoundZ C06RD.rT C06RD.rSt.pd ∧
    C06I.OriOK C06RD.rTori C06RD.rSt.oris ∧ C06RD.rSt.oris.length = C06RD.rCls.length ∧ 0 < C06RD.rSt.sal ∧
    Inter.aiExecute 1 C06RD.rLt C06RD.rKeys false 0 C06RD.rCls {} C06RD.rSt =
      (⟨true, true⟩, ⟨C06RD.rPd1, [none, some 0], [], salDefault⟩) ∧
    C06RD.rPd1 3 = ⟨0, 1, 0, true, false⟩ ∧
    ((Inter.aiExecute 1 C06RD.rLt C06RD.rKeys false 0 C06RD.rCls {} C06RD.rSt).2.pd 3).x = C06RD.rT.x 3 ∧
    ((Inter.aiExecute 1 C06RD.rLt C06RD.rKeys false 0 C06RD.rCls {} C06RD.rSt).2.pd 3).y = C06RD.rT.y 3 :=
  have hs := C06_acord_intersection_sound C06RD.rT 0 C06RD.rLt C06RD.rKeys false 0 le_rfl (by positivity) C06RD.rTori
    C06RD.rCls C06RD.rExact {} C06RD.rSt C06RD.rSoundXY C06RD.rSoundZ C06RD.rOriOK C06RD.rLen C06RD.rSalPos
  ⟨C06RD.rExact, C06RD.rSoundXY, C06RD.rSoundZ, C06RD.rOriOK, C06RD.rLen, C06RD.rSalPos, C06RD.aiExecute_eval,
   C06RD.rPd1_3, (hs.1 3 C06RD.rEval.1).1, (hs.1 3 C06RD.rEval.1).2⟩

/-! ## Acord2::execute: the round robin as a state machine (round 3b; Gama/Model/Acord2.lean, Gama/Lemmas/C06Sched.lean)

`G` = the shared state (`St` + `candidate_xy_`) plus the private state of all strategy objects; `Alg` = a strategy
(`exec`, `completed`); `round` = every strategy in list order, completed ones erased, `get_medians`, `get_medians_z`,
the clears; `execute fuel` = the do-while `after != 0 && after < before`. -/

/-- after ANY number of rounds (any fuel) with ANY list of strategies: if every strategy step preserves an invariant
    and the end-of-round bookkeeping does, the state `Acord2::execute` leaves satisfies it -/
theorem C06_acord_execute_sound {P : Type} (Inv : G ι ℝ P → Prop) (slope : Bool) (ct : P → P) (fuel : Nat)
    (algs : List (Alg (G ι ℝ P))) (halgs : ∀ a ∈ algs, ∀ g, Inv g → Inv (a.exec g))
    (hbook : ∀ g, Inv g → Inv (bookkeeping slope ct g)) (g : G ι ℝ P) (hg : Inv g) :
    Inv (execute slope ct fuel algs g).state :=
  C06S.acord_execute_sound Inv slope ct fuel algs halgs hbook g hg

/-- … instantiated: `C06S.SoundInv` = every defined xy / height is true, every candidate in `candidate_xy_` /
    `candidate_z_` is true, the private states of AcordAzimuth / AcordHdiff / AcordVector are consistent.  With exact
    observations (`C06S.ExactObs`) the bookkeeping (medians of exact candidates — the norm check cannot hurt) and the
    four modelled strategies preserve it by the step theorems above; any further strategy (polar, traverse, weak checks,
    intersection: `C06_acord_intersection_sound_of_reset` / `C06_acord_intersection_sound`) enters with its own soundness as hypothesis
    (`C06S.ModelledOrSound`): every coordinate Acord2::execute publishes is the true one -/
theorem C06_acord_execute_sound_modelled {Q : Type} {lt : ι → ι → Bool} (htri : Tri lt) (T : Truth ι) (xN : ℝ)
    (od : List (Cluster ι ℝ)) (IR : Q → Prop) (ct : Q → Q) (hct : ∀ q, IR q → IR (ct q))
    (hobs : C06S.ExactObs T xN od) (slope : Bool) (fuel : Nat) (algs : List (Alg (C06S.GR ι Q)))
    (halgs : ∀ a ∈ algs, C06S.ModelledOrSound lt T xN od IR a) (g : C06S.GR ι Q) (hg : C06S.SoundInv T xN IR g) :
    C06S.SoundInv T xN IR (execute slope (Priv.clearTraverses ct) fuel algs g).state :=
  C06S.acord_execute_sound_modelled htri T xN od IR ct hct hobs slope fuel algs halgs g hg

/-- non-vacuity: a levelling line 0 → 1 (true heights 0 and 3, height difference 3), point 1 without height: the exact
    observations, the sound initial state and the strategy list meet the hypotheses; the run publishes z(1) = 3 -/
example : C06S.ExactObs C06S.exT 0 C06S.exOd ∧ C06S.SoundInv C06S.exT 0 (fun _ : Unit => True) C06S.exG ∧
    (∀ a ∈ [hdAlg 3 C06S.exOd], C06S.ModelledOrSound (fun a b : ℕ => decide (a < b)) C06S.exT 0 C06S.exOd
      (fun _ : Unit => True) a) ∧
    ((execute false (Priv.clearTraverses id) 2 [hdAlg 3 C06S.exOd] C06S.exG).state.st.pd 1).bz = true :=
  ⟨C06S.exObs, C06S.exInv, fun a ha => by simp at ha; subst ha; exact Or.inr (Or.inl ⟨3, rfl⟩), C06S.exRun⟩

/-- the set of known coordinates only grows, ARBITRARY (also inconsistent) data: no `test_xy()` / `test_z()` flag is
    ever cleared and the `missing` sets never grow, through the whole of Acord2::execute, for the four modelled
    strategies in any order and number plus any strategy with the same property (`C06S.ModelledOrFlags`) -/
theorem C06_acord_execute_monotone {Q : Type} (slope : Bool) (ct : Priv ι ℝ Q → Priv ι ℝ Q) (fuel : Nat)
    (algs : List (Alg (C06S.GR ι Q))) (halgs : ∀ a ∈ algs, C06S.ModelledOrFlags a) (g : C06S.GR ι Q) :
    C06S.FlagsKept g (execute slope ct fuel algs g).state :=
  C06S.acord_execute_flags_modelled slope ct fuel algs halgs g

/-- … and given VALUES are never changed: (a) arbitrary data, strategies azimuth / zderived (+ any with the property):
    under the invariant `C06S.ValInv` (points in `missing_xy_` have no xy — true after the constructor —, height
    candidates only for points without height) every defined coordinate keeps its value; (b) EXACT data, all four
    modelled strategies: every defined coordinate keeps its value.  The exception is real and made precise in
    `C06_acord_vector_overwrite_witness`: AcordVector and get_medians_z do not have (a). -/
theorem C06_acord_execute_monotone_values {Q : Type} {lt : ι → ι → Bool} (htri : Tri lt) (T : Truth ι) (xN : ℝ)
    (od : List (Cluster ι ℝ)) (IR : Q → Prop) (ct : Q → Q) (hct : ∀ q, IR q → IR (ct q)) (slope : Bool) (fuel : Nat)
    (algs : List (Alg (C06S.GR ι Q))) (g : C06S.GR ι Q) :
    (∀ ct' : Priv ι ℝ Q → Priv ι ℝ Q, (∀ a ∈ algs, C06S.ModelledOrValues a) → C06S.ValInv g →
      C06S.ValuesKept g (execute slope ct' fuel algs g).state) ∧
    (C06S.ExactObs T xN od → (∀ a ∈ algs, C06S.ModelledOrSoundFlags lt T xN od IR a) → C06S.SoundInv T xN IR g →
      C06S.ValuesKept g (execute slope (Priv.clearTraverses ct) fuel algs g).state) :=
  ⟨fun ct' h hg => (C06S.acord_execute_values_modelled slope ct' fuel algs h g hg).2,
   fun hobs h hg => C06S.acord_execute_values_sound htri T xN od IR ct hct hobs slope fuel algs h g hg⟩

/-- the exception, precisely (replayed on the C++: corpus/C06/pending/acord-vector-overwrites-xy.txt): a point with
    GIVEN xy = (50, 60) whose height is missing, one vector from a fully known point: AcordVector::execute rewrites
    its xy to (100, 0) — flags are kept, values are not.  Under C06 (consistent observations) this cannot show: the
    value written is the given one (`C06_acord_execute_monotone_values` (b)).  Likewise get_medians_z overwrites a
    height that a strategy set earlier in the same round for a point that still has candidates. -/
theorem C06_acord_vector_overwrite_witness :
    (∃ alg' st', vecExecute 2 C06S.wOd VecAlg.fresh C06S.wSt = some (alg', st') ∧
      (C06S.wSt.pd 2).bxy = true ∧ (C06S.wSt.pd 2).x = 50 ∧ (C06S.wSt.pd 2).y = 60 ∧
      (st'.pd 2).bxy = true ∧ (st'.pd 2).x = 100 ∧ (st'.pd 2).y = 0 ∧ ¬ KeepXY C06S.wSt.pd st'.pd) ∧
    ((C06S.zSt.pd 1).bz = true ∧ (C06S.zSt.pd 1).z = 7 ∧ ((getMediansZ C06S.zSt).pd 1).z = 5 ∧
      ¬ KeepZ C06S.zSt.pd (getMediansZ C06S.zSt).pd) :=
  ⟨C06S.acord_vector_overwrites_xy.2.2, C06S.getMediansZ_overwrites_z⟩

example : C06S.ValInv (P := Priv ℕ ℝ Unit) ⟨C06S.wSt, [], ⟨AzAlg.fresh, HdAlg.fresh, VecAlg.fresh, ZdAlg.fresh, ()⟩⟩ ∧
    (∀ a ∈ [azAlg (ι := ℕ) (Q := Unit) 5 (fun a b => decide (a < b)) (0:ℝ) [], zdAlg []], C06S.ModelledOrFlags a) := by
  refine ⟨⟨C06S.acord_vector_overwrites_xy.1, by intro c hc; simp [C06S.wSt] at hc⟩, ?_⟩
  intro a ha
  simp only [List.mem_cons, List.mem_nil_iff, or_false] at ha
  rcases ha with rfl | rfl
  · exact Or.inl ⟨_, _, _, _, rfl⟩
  · exact Or.inr (Or.inr (Or.inr (Or.inl ⟨_, rfl⟩)))

/-- termination: the loop goes on only while a round strictly decreases |missing_xy_| + |missing_z_|, so it runs at
    most that many rounds (≤ 2·number of points), fuel `measure + 1` is never exhausted and more fuel changes nothing -/
theorem C06_acord_execute_terminates {P : Type} (slope : Bool) (ct : P → P) (algs : List (Alg (G ι ℝ P))) (g : G ι ℝ P)
    (k : Nat) :
    execute slope ct (Acord.measure g + 1 + k) algs g = execute slope ct (Acord.measure g + 1) algs g ∧
    (execute slope ct (Acord.measure g + 1) algs g).finished = true ∧
    (∀ fuel, (execute slope ct fuel algs g).rounds ≤ Acord.measure g) ∧
    (∀ pts : List ι, g.st.missXY.Nodup → g.st.missZ.Nodup → g.st.missXY ⊆ pts → g.st.missZ ⊆ pts →
      Acord.measure g ≤ 2 * pts.length) :=
  ⟨(C06S.acord_execute_terminates slope ct algs g k).1, (C06S.acord_execute_terminates slope ct algs g k).2.1,
   (C06S.acord_execute_terminates slope ct algs g k).2.2, fun pts h1 h2 s1 s2 => C06S.measure_le g pts h1 h2 s1 s2⟩

/-- "adding further consistent observations never makes a determined point undetermined", lifted from the step to the
    rounds: strategies indexed by the observation set, each sound on consistent data and monotone in the pair
    (observation set, state) on sound states (`C06S.MonoMachine`): after EVERY number n of rounds what is known from
    `o` is known from any `o' ⊇ o`, and both states stay sound -/
theorem C06_more_obs_monotone {O S : Type} {le : O → O → Prop} {Sound : S → Prop} {KL : S → S → Prop} {book : S → S}
    {algs : List (O → S → S)} (m : C06S.MonoMachine le Sound KL book algs) (o o' : O) (hle : le o o')
    (n : Nat) (s s' : S) (hs : Sound s) (hs' : Sound s') (h : KL s s') :
    KL (C06S.roundsO book algs o n s) (C06S.roundsO book algs o' n s') ∧ Sound (C06S.roundsO book algs o n s) ∧
      Sound (C06S.roundsO book algs o' n s') :=
  C06S.acord_more_obs_monotone_rounds m o o' hle n s s' hs hs' h

example (n : Nat) : C06S.Toy.KL (C06S.roundsO id C06S.Toy.algs false n C06S.Toy.init)
    (C06S.roundsO id C06S.Toy.algs true n C06S.Toy.init) :=
  (C06_more_obs_monotone C06S.Toy.monoMachine false true (by simp [C06S.Toy.le]) n C06S.Toy.init C06S.Toy.init trivial
    trivial (C06S.Toy.KL_refl _)).1

/-- … and to Acord2::execute itself ONLY under two further hypotheses, because its stopping rule is "no progress in ONE
    round" and a round without progress is not a fixed point of the state (strategies keep private state:
    `prepared_/completed_`, `lpd_`, the traverse list, AcordIntersection's two inner turns): rounds are extensive
    (`ext`) and a round after which the loop stops is followed by an idle round (`idle`) -/
theorem C06_more_obs_monotone_execute {O S : Type} {le : O → O → Prop} {Sound : S → Prop} {KL : S → S → Prop}
    {book : S → S} {algs : List (O → S → S)} (m : C06S.MonoMachine le Sound KL book algs) (measure : S → Nat)
    (hr : ∀ s, KL s s) (ht : ∀ a b c, KL a b → KL b c → KL a c) (o o' : O) (hle : le o o') (hle' : le o' o')
    (ext : ∀ t, Sound t → KL t (C06S.roundO book algs o' t))
    (idle : ∀ t, Sound t → C06S.Stops measure t (C06S.roundO book algs o' t) →
      KL (C06S.roundO book algs o' (C06S.roundO book algs o' t)) (C06S.roundO book algs o' t))
    (fuel fuel' : Nat) (s : S) (hs : Sound s)
    (hf : (executeG measure book fuel (C06S.oAlgs algs o) s).finished = true)
    (hf' : (executeG measure book fuel' (C06S.oAlgs algs o') s).finished = true) :
    KL (executeG measure book fuel (C06S.oAlgs algs o) s).state (executeG measure book fuel' (C06S.oAlgs algs o') s).state :=
  C06S.acord_more_obs_monotone m measure hr ht o o' hle hle' ext idle fuel fuel' s hs hf hf'


/-! ## the MODELLED Acord2 as a whole (round 4; Gama/Lemmas/C06Mono.lean, C06Glue.lean)

`C06M.G5` = the global state with the private state of all five modelled strategy objects; `C06M.ObsSet` = one set of
observations in the two representations the strategies read (`od` for azimuth / hdiff / zderived / vector; `cls`,
`keys`, `extra` for intersection — the driver `drv_cogo`, op `acord2`, builds both from the same records and runs
`Acord.execute` on `modelledAlgs`, next to the real `Acord2::execute`); `modelledAlgs` = the constructor's list
restricted to AcordAzimuth, AcordHdiff, AcordZderived, AcordVector, AcordIntersection (AcordPolar, AcordTraverse,
AcordWeakChecks have no model: the statements are about networks on which these three do nothing — the `acord2` stream
measures how often that is). -/

/-- `Acord2::execute` over the modelled strategies on exact observations (`C06S.ExactObs` for the four, `C06I.ExactCl`
    for the intersection): every coordinate in the point list afterwards is the true one — any subset of the five
    strategies in the constructor's order, any fuel, any number of rounds, any sound starting state; no hypothesis about
    a strategy is left (`C06_acord_execute_sound_modelled` took the intersection's soundness as one) -/
theorem C06_acord2_modelled_sound {lt : ι → ι → Bool} (htri : Tri lt) (T : Truth ι) (xN : ℝ) (hx0 : 0 ≤ xN)
    (hx2 : xN < 2 * Real.pi) (tori : Nat → ℝ) (o : C06M.ObsSet ι) (hobs : C06S.ExactObs T xN o.od)
    (hcl : C06I.ExactCl T xN tori o.cls) (n : Nat) (hasAz hasHd hasZd hasVec hasSp slope : Bool) (fuel : Nat)
    (g : C06M.G5 ι) (hg : C06M.Sound5 T xN (C06G.IRai tori o.cls.length) g) :
    C06M.Sound5 T xN (C06G.IRai tori o.cls.length)
      (execute slope (Priv.clearTraverses id) fuel
        (modelledAlgs (n + 1) lt o.keys o.extra xN o.od o.cls hasAz hasHd hasZd hasVec hasSp) g).state :=
  C06G.modelledAlgs_sound htri T xN hx0 hx2 tori o hobs hcl n hasAz hasHd hasZd hasVec hasSp slope fuel g hg

/-- non-vacuity: the network of `C06_acord_intersection_sound`'s example as an observation set, all five strategy objects
    fresh: the hypotheses hold -/
example : C06S.ExactObs C06RD.rT 0 ([] : List (Cluster ℕ ℝ)) ∧ C06I.ExactCl C06RD.rT 0 C06RD.rTori C06RD.rCls ∧
    C06M.Sound5 C06RD.rT 0 (C06G.IRai C06RD.rTori C06RD.rCls.length)
      ⟨⟨C06RD.rPd, [3], [], []⟩, [], ⟨AzAlg.fresh, HdAlg.fresh, VecAlg.fresh, ZdAlg.fresh, ⟨{}, [none, some 0], salDefault⟩⟩⟩ := by
  refine ⟨⟨?_, ?_, ?_, ?_, trivial⟩, C06RD.rExact, ⟨C06RD.rSoundXY, C06RD.rSoundZ, ?_, ?_, ?_, ?_, ?_,
    ⟨C06RD.rOriOK, C06RD.rLen, C06RD.rSalPos⟩⟩⟩
  · intro f t v h; simp [spObs] at h
  · intro f t v h; simp [spObs] at h
  · intro h hh; simp [hdAll] at hh
  · intro h hh; simp [vecAll] at hh
  · intro c hc; simp at hc
  · intro c hc; simp at hc
  · intro h; simp [AzAlg.fresh] at h
  · intro h; simp [HdAlg.fresh] at h
  · intro h; simp [VecAlg.fresh] at h

/-- the hypotheses of the monotonicity theorems (`C06M.MonoHyps`) from exactness: two observation sets `o ⊆ o'`
    (`C06M.ObsSet.le`: every cluster of `o` is a cluster of `o'` of the same class and station with a sub-list of its
    observations in the same order, vectors whole), both exact for the same true coordinates, `PointID::operator<` a
    strict total order, the inner fuel of AcordHdiff / AcordVector larger than the number of their end points (the C++
    loops are unbounded and terminate).  The SOUNDNESS of the intersection strategy is discharged by
    `C06_acord_intersection_sound`; what remains is `haiMono`, its step monotonicity on the simulation relation. -/
theorem C06_acord2_modelled_hyps {lt : ι → ι → Bool} (hord : C06M.StrictTotal lt) (T : Truth ι) (xN : ℝ) (hx0 : 0 ≤ xN)
    (hx2 : xN < 2 * Real.pi) (tori : Nat → ℝ) (Rai : AiPriv ℝ → AiPriv ℝ → Prop) (n : Nat) (o o' : C06M.ObsSet ι)
    (hle : C06M.ObsSet.le o o') (hobs : C06S.ExactObs T xN o.od) (hobs' : C06S.ExactObs T xN o'.od)
    (hcl : C06I.ExactCl T xN tori o.cls) (hcl' : C06I.ExactCl T xN tori o'.cls) (hlen : o'.cls.length = o.cls.length)
    (f1 : (C06M.hdKeys o.od).length < n + 1) (f2 : (C06M.hdKeys o'.od).length < n + 1)
    (f3 : (C06M.vecKeys o.od).length < n + 1) (f4 : (C06M.vecKeys o'.od).length < n + 1)
    (haiMono : C06M.StepMono (C06M.Sound5 T xN (C06G.IRai tori o.cls.length)) (C06M.KL (n + 1) Rai o o')
      (C06M.idle (aiAlg (n + 1) lt o.keys o.extra xN o.cls)) (C06M.idle (aiAlg (n + 1) lt o'.keys o'.extra xN o'.cls))) :
    C06M.MonoHyps lt T xN (C06G.IRai tori o.cls.length) Rai n o o' :=
  C06G.monoHyps_of_exact hord T xN hx0 hx2 tori Rai n o o' hle hobs hobs' hcl hcl' hlen f1 f2 f3 f4 haiMono

/-- clause 6 ("adding further consistent observations never makes a determined point undetermined") for the modelled
    Acord2 AS A WHOLE, per round: both runs start from the same sound state `g0` related to itself by the simulation
    relation (`C06M.KL_init`: the state the constructor builds — every strategy object fresh, no candidates, the
    `missing` sets holding exactly the points without coordinates); then after EVERY number `k` of rounds (each round =
    the five strategies in the constructor's order, a completed one idling, then get_medians / get_medians_z / clears)
    every coordinate group determined from `o` is determined from `o'`, and both point lists hold true values only.
    PROVED step monotonicities (`C06M.hd_stepMono`, `vec_stepMono`, `zd_stepMono`, `az_stepMono` with
    `azPrepMono_of_exact`, `book_mono`): AcordHdiff and AcordVector (the chaining loop reaches the closure; fuel > number
    of end points suffices — proved, no "fuel not exhausted" hypothesis), AcordZderived, AcordAzimuth (prepare: key-sorted
    map, removal, both medians; execute: one pass with PD updated on the way), the bookkeeping.
    PARTIAL: the FULL statement has no `aiMono` in `H`.  Missing: monotonicity of ApproximateCoordinates in the
    observation list (more observations ⇒ no point that was intersected becomes unsolved: more pairs, earlier decisive
    observations in Select_solution_g2d, the two-flag walk of necessary_observations); `C06M.aiMono_of_facts` reduces it
    to facts about the point list, `C06_acord2_modelled_monotone` is the statement without it. -/
theorem C06_acord2_modelled_monotone_partial {lt : ι → ι → Bool} {T : Truth ι} {xN : ℝ} {IRai : AiPriv ℝ → Prop}
    {Rai : AiPriv ℝ → AiPriv ℝ → Prop} {n : Nat} {o o' : C06M.ObsSet ι} (H : C06M.MonoHyps lt T xN IRai Rai n o o')
    (slope : Bool) (g0 : C06M.G5 ι) (h0 : C06M.Sound5 T xN IRai g0) (hinit : C06M.KL (n + 1) Rai o o' g0 g0) (k : Nat) :
    C06S.KnownLe (C06S.roundsO (C06M.book5 slope) (C06M.strategies5 (n + 1) lt xN) o k g0)
      (C06S.roundsO (C06M.book5 slope) (C06M.strategies5 (n + 1) lt xN) o' k g0) ∧
    C06M.Sound5 T xN IRai (C06S.roundsO (C06M.book5 slope) (C06M.strategies5 (n + 1) lt xN) o k g0) ∧
    C06M.Sound5 T xN IRai (C06S.roundsO (C06M.book5 slope) (C06M.strategies5 (n + 1) lt xN) o' k g0) :=
  (C06M.acord2_modelled_monotone_partial H slope g0 h0 hinit k).2

/-- … and WITHOUT any hypothesis about a strategy, for observation sets in which AcordIntersection finds nothing to read
    (`cls = []`: levelling lines and vectors only, or the other four strategies taken alone): clause 6 per round for
    AcordAzimuth + AcordHdiff + AcordZderived + AcordVector + bookkeeping -/
theorem C06_acord2_modelled_monotone {lt : ι → ι → Bool} (hord : C06M.StrictTotal lt) (T : Truth ι) (xN : ℝ) (n : Nat)
    (o o' : C06M.ObsSet ι) (hle : C06M.ObsSet.le o o') (hobs : C06S.ExactObs T xN o.od)
    (hobs' : C06S.ExactObs T xN o'.od) (hc : o.cls = []) (hc' : o'.cls = [])
    (f1 : (C06M.hdKeys o.od).length < n + 1) (f2 : (C06M.hdKeys o'.od).length < n + 1)
    (f3 : (C06M.vecKeys o.od).length < n + 1) (f4 : (C06M.vecKeys o'.od).length < n + 1)
    (slope : Bool) (g0 : C06M.G5 ι) (h0 : C06M.Sound5 T xN (fun _ => True) g0)
    (hinit : C06M.KL (n + 1) (fun _ _ => True) o o' g0 g0) (k : Nat) :
    C06S.KnownLe (C06S.roundsO (C06M.book5 slope) (C06M.strategies5 (n + 1) lt xN) o k g0)
      (C06S.roundsO (C06M.book5 slope) (C06M.strategies5 (n + 1) lt xN) o' k g0) ∧
    C06M.Sound5 T xN (fun _ => True) (C06S.roundsO (C06M.book5 slope) (C06M.strategies5 (n + 1) lt xN) o k g0) ∧
    C06M.Sound5 T xN (fun _ => True) (C06S.roundsO (C06M.book5 slope) (C06M.strategies5 (n + 1) lt xN) o' k g0) :=
  C06_acord2_modelled_monotone_partial (C06G.monoHyps_nil hord T xN n o o' hle hobs hobs' hc hc' f1 f2 f3 f4) slope g0 h0
    hinit k

/-- non-vacuity (`C06M.eO`, `eO'`, `eG`): the levelling line 0 → 1 and the same line with one more height difference
    1 → 2, started from the constructor's state: all hypotheses hold (`C06M.eOrd`, `eLe`, `C06S.exObs`, `C06M.eObs'`,
    `eSound`, `eInit` = `KL_init`), point 1 is determined in the run on `o`, hence (by the theorem) in the run on `o'`;
    point 2 is determined only there — the conclusion is not an equality -/
example : ((C06S.roundsO (C06M.book5 false) (C06M.strategies5 4 C06M.eLt 0) C06M.eO 1 C06M.eG).st.pd 1).bz = true ∧
    ((C06S.roundsO (C06M.book5 false) (C06M.strategies5 4 C06M.eLt 0) C06M.eO' 1 C06M.eG).st.pd 1).bz = true ∧
    ((C06S.roundsO (C06M.book5 false) (C06M.strategies5 4 C06M.eLt 0) C06M.eO' 1 C06M.eG).st.pd 2).bz = true ∧
    ((C06S.roundsO (C06M.book5 false) (C06M.strategies5 4 C06M.eLt 0) C06M.eO 1 C06M.eG).st.pd 2).bz = false :=
  ⟨C06M.eRun,
   (C06_acord2_modelled_monotone C06M.eOrd C06S.exT 0 3 C06M.eO C06M.eO' C06M.eLe C06S.exObs C06M.eObs' rfl rfl
      (by simp [C06M.hdKeys, C06M.eO, C06S.exOd, hdAll, dedup]) (by simp [C06M.hdKeys, C06M.eO', hdAll, dedup])
      (by simp [C06M.vecKeys, C06M.eO, C06S.exOd, vecAll, dedup]) (by simp [C06M.vecKeys, C06M.eO', vecAll, dedup])
      false C06M.eG C06M.eSound C06M.eInit 1).1.2 1 C06M.eRun,
   C06M.eRun'.1, C06M.eRun'.2⟩

/-- … and for `Acord2::execute` ITSELF — the real do-while with its erase-remove of completed strategies
    (`modelledAlgs … true true true true true`; `C06M.loop_filter_is_rounds` shows that erasing a completed strategy after
    the round is the same as letting it idle), both runs finished, started from the constructor's state — with the
    STOP-RULE LIMITATION made precise: EITHER everything determined from `o` is determined from `o'`, OR the run on the
    larger set stopped strictly earlier (`rounds' < rounds`).  The second alternative is real for a stopping rule of
    the form "no progress in ONE round" (`C06_more_obs_stop_rule_witness` below: sound, monotone, extensive steps, and
    still the larger set loses a point); whether the five modelled strategies can exhibit it is not decided here (it
    would need: a round of the `o'` run without progress in |missing_xy_| + |missing_z_| is followed by an idle round —
    the hypothesis `idle` of `C06_more_obs_monotone_execute`); on the real program it is searched end to end
    (`omitted+more`).  PARTIAL for the same reason as `C06_acord2_modelled_monotone_partial` (`aiMono` in `H`); that
    AcordIntersection never clears a flag is proved (`C06G.aiAlg_flags`). -/
theorem C06_acord2_modelled_monotone_execute_partial {lt : ι → ι → Bool} {T : Truth ι} {xN : ℝ}
    {IRai : AiPriv ℝ → Prop} {Rai : AiPriv ℝ → AiPriv ℝ → Prop} {n : Nat} {o o' : C06M.ObsSet ι}
    (H : C06M.MonoHyps lt T xN IRai Rai n o o') (slope : Bool) (g0 : C06M.G5 ι) (h0 : C06M.Sound5 T xN IRai g0)
    (hfresh : C06M.Fresh g0) (hinit : C06M.KL (n + 1) Rai o o' g0 g0) (fuel fuel' : Nat)
    (hf : (execute slope (Priv.clearTraverses id) fuel (C06M.algs5 (n + 1) lt xN o) g0).finished = true)
    (hf' : (execute slope (Priv.clearTraverses id) fuel' (C06M.algs5 (n + 1) lt xN o') g0).finished = true) :
    C06S.KnownLe (execute slope (Priv.clearTraverses id) fuel (C06M.algs5 (n + 1) lt xN o) g0).state
      (execute slope (Priv.clearTraverses id) fuel' (C06M.algs5 (n + 1) lt xN o') g0).state ∨
    (execute slope (Priv.clearTraverses id) fuel' (C06M.algs5 (n + 1) lt xN o') g0).rounds <
      (execute slope (Priv.clearTraverses id) fuel (C06M.algs5 (n + 1) lt xN o) g0).rounds :=
  C06M.acord2_modelled_execute_monotone_or_stops_earlier_partial H slope
    (fun g => C06G.aiAlg_flags (n + 1) lt o'.keys o'.extra xN o'.cls g) g0 h0 hfresh hinit fuel fuel' hf hf'

example :
    C06S.KnownLe (execute false (Priv.clearTraverses id) (Acord.measure C06M.eG + 1) (C06M.algs5 4 C06M.eLt 0 C06M.eO) C06M.eG).state
      (execute false (Priv.clearTraverses id) (Acord.measure C06M.eG + 1) (C06M.algs5 4 C06M.eLt 0 C06M.eO') C06M.eG).state ∨
    (execute false (Priv.clearTraverses id) (Acord.measure C06M.eG + 1) (C06M.algs5 4 C06M.eLt 0 C06M.eO') C06M.eG).rounds <
      (execute false (Priv.clearTraverses id) (Acord.measure C06M.eG + 1) (C06M.algs5 4 C06M.eLt 0 C06M.eO) C06M.eG).rounds :=
  C06_acord2_modelled_monotone_execute_partial C06M.eHyps false C06M.eG C06M.eSound C06M.eFresh C06M.eInit _ _
    (C06S.acord_execute_terminates false _ _ C06M.eG 0).2.1 (C06S.acord_execute_terminates false _ _ C06M.eG 0).2.1

/-- … and why these hypotheses cannot be dropped — a witness on the scheduling model: a machine whose steps are sound,
    monotone and extensive, with `o ≤ o'`, where the run on `o` (3 rounds) knows `c` and the run on the LARGER `o'`
    stops after 2 rounds without it, although a third round would have found it.  The code's stopping rule therefore
    does not guarantee "computed from a set ⇒ computed from any superset"; on the real strategies this is searched
    end-to-end (`omitted+more` variant), not proved. -/
theorem C06_more_obs_stop_rule_witness :
    C06S.MonoMachine C06S.Toy.le (fun _ => True) C06S.Toy.KL id C06S.Toy.algs ∧ C06S.Toy.le false true ∧
    (executeG C06S.Toy.measure id 4 (C06S.oAlgs C06S.Toy.algs false) C06S.Toy.init).state.c = true ∧
    (executeG C06S.Toy.measure id 4 (C06S.oAlgs C06S.Toy.algs true) C06S.Toy.init).finished = true ∧
    (executeG C06S.Toy.measure id 4 (C06S.oAlgs C06S.Toy.algs true) C06S.Toy.init).state.c = false ∧
    (C06S.roundsO id C06S.Toy.algs true 3 C06S.Toy.init).c = true :=
  have h := C06S.acord_more_obs_execute_not_monotone
  ⟨h.1, h.2.1, h.2.2.2.2.2.1, h.2.2.2.2.1, h.2.2.2.2.2.2.1, h.2.2.2.2.2.2.2.2.2⟩

/-- **clause 6 for ONE point of AcordIntersection** (what `aiMono` rests on): `ApproxPoint::calculation` on the
    arranged observations — every pair i < j, the six intersection classes with their small-angle guards,
    Select_solution_g2d, Statistics_g2d — is monotone in the list for exact observations: a unique solution from `sm`
    ⇒ the true point from every exact list `sm'` that contains `sm` as a sub-list (observations inserted anywhere),
    same point list, same limit.  There is no "pair intersected first": all pairs are intersected, a guarded pair adds
    no candidate and refuses nothing, and an inserted observation that decides a selection earlier decides it for
    the true point.  What is still missing for `aiMono` itself (monotonicity of `arrange`, of the guards in the
    limit, the lock-step of the walks over the sorted missing ids) is listed in `Lemmas/C06PointMono.lean`. -/
theorem C06_acord_intersection_point_monotone {ι : Type} [DecidableEq ι] (X : Pt ℝ) (pd : PD ι ℝ) (sal : ℝ)
    (hsal : 0 < sal) {sm sm' : List (Inter.AObs ι ℝ)} (hsub : sm.Sublist sm')
    (hsm' : ∀ a ∈ sm', C06I.ArrOK X pd a) (p : Pt ℝ) (h : Inter.apCalc pd sal sm = some p) :
    Inter.apCalc pd sal sm' = some X :=
  C06I.apCalc_mono X pd sal hsal hsub hsm' p h

/-- X = (0, 1): from [distance to A, direction from C] alone (one pair) and hence, by the theorem, from the list with
    the distance to B inserted (three pairs, one of them with two candidates) -/
example : C06RD.rArrSmall.Sublist C06RD.rArr ∧ (∀ a ∈ C06RD.rArr, C06I.ArrOK (⟨0, 1⟩ : Pt ℝ) C06RD.rPd a) ∧
    Inter.apCalc C06RD.rPd Cogo.salDefault C06RD.rArrSmall = some ⟨0, 1⟩ ∧
    Inter.apCalc C06RD.rPd Cogo.salDefault C06RD.rArr = some ⟨0, 1⟩ :=
  ⟨C06RD.rArrSmall_sublist, C06RD.rArr_ok, C06RD.apCalc_small_eval,
   C06_acord_intersection_point_monotone _ _ _ (by unfold Cogo.salDefault; norm_num [Scalar.ofSci]) C06RD.rArrSmall_sublist
     C06RD.rArr_ok _ C06RD.apCalc_small_eval⟩

end Gama.Props.C06
