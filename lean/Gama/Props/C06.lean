/-
  C06 — Consistent observations reproduce the network they were derived from.

  Property theorems only (helper lemmas: Gama/Lemmas/C06Real, C06Cogo, C06Median, C06GN).
  All statements are over ℝ with Real.sqrt / sin / cos / Complex.arg (atan2); the models are the ones
  executed at Float next to the C++ (lean/Driver/Cogo.lean ↔ harness/c06_cogo.cpp).

  What is NOT claimed as proved (explored by the end-to-end search of tools/props/c06.py only):
  convergence of the iterated linearisation from perturbed / omitted approximate coordinates,
  completeness of the Acord2 strategies and the strategies AcordPolar::execute, AcordTraverse,
  AcordIntersection, AcordWeakChecks and Acord2::get_medians (xy) as wholes, rounding.
  Round 3: single steps of AcordAzimuth, AcordHdiff, AcordVector, AcordZderived + get_medians_z are
  modelled (Gama/Model/Acord*.lean) and proved sound and monotone below, for every schedule that
  interleaves them (the invariants `SoundXY`, `SoundZ`, `…AlgOK` are preserved by each step).  The fixed-point theorems are stated on C05's generated linearisation
  (Gama/Gen/Linearization.lean, regenerated from local_linearization.cpp on every run).
-/
import Gama.Lemmas.C06Cogo
import Gama.Lemmas.C06GN
import Gama.Lemmas.C06Fix
import Gama.Lemmas.C06Circle
import Gama.Lemmas.C06Sort
import Gama.Lemmas.C06Acord
namespace Gama.Props.C06
variable {ι : Type} [DecidableEq ι]
open Gama Gama.Cogo Gama.Median Gama.GN Gama.C06R Gama.C06L Gama.Acord Gama.C06A

/-! ## intersection primitives: exact data derived from a true point X are solved by X -/

/-- Distance_distance: with r1 = |X B1|, r2 = |X B2| and B1 ≠ B2, unless the small-angle guard fires,
    the solutions are exactly X and its mirror image in the base line, in the order fixed by the side of X
    (one solution when X is on the line). -/
theorem C06_cogo_exact_distance_distance (B1 B2 X : Cogo.Pt ℝ) (r1 r2 sal : ℝ)
    (hne : (B2.x - B1.x) ^ 2 + (B2.y - B1.y) ^ 2 ≠ 0) (hr1 : 0 ≤ r1) (hr2 : 0 ≤ r2)
    (h1 : r1 ^ 2 = (X.x - B1.x) ^ 2 + (X.y - B1.y) ^ 2)
    (h2 : r2 ^ 2 = (X.x - B2.x) ^ 2 + (X.y - B2.y) ^ 2)
    (hs : (distDist B1 B2 r1 r2 sal).small = false) :
    (0 < across B1 B2 X → (distDist B1 B2 r1 r2 sal).sols = [X, mirror B1 B2 X]) ∧
    (across B1 B2 X < 0 → (distDist B1 B2 r1 r2 sal).sols = [mirror B1 B2 X, X]) ∧
    (across B1 B2 X = 0 → (distDist B1 B2 r1 r2 sal).sols = [X]) :=
  distDist_exact B1 B2 X r1 r2 sal hne hr1 hr2 h1 h2 hs

example : (0:ℝ) ≤ 5 ∧ (5:ℝ) ^ 2 = (3 - 0) ^ 2 + (4 - 0) ^ 2 ∧ ((10:ℝ) - 0) ^ 2 + (0 - 0) ^ 2 ≠ 0 := by norm_num

/-- Direction_direction: two outer bearings h1 (from B1) and h2 (from B2) that both point at X (X in front of
    both stations); unless the small-angle guard fires the single solution is X. -/
theorem C06_cogo_exact_direction_direction (B1 B2 X : Cogo.Pt ℝ) (h1 h2 t1 t2 sal : ℝ)
    (ht1 : 0 < t1) (ht2 : 0 < t2) (hsal : 0 < sal)
    (hx1 : X.x = B1.x + t1 * Real.cos h1) (hy1 : X.y = B1.y + t1 * Real.sin h1)
    (hx2 : X.x = B2.x + t2 * Real.cos h2) (hy2 : X.y = B2.y + t2 * Real.sin h2)
    (hs : (dirDir B1 h1 B2 h2 sal).small = false) :
    (dirDir B1 h1 B2 h2 sal).sols = [X] :=
  dirDir_exact B1 B2 X h1 h2 t1 t2 sal ht1 ht2 hsal hx1 hy1 hx2 hy2 hs

/-- Direction_distance: bearing h1 from B1 pointing at X (farther than the code's 1e-6 round-off allowance),
    r = |X B2| > 0; unless the small-angle guard fires X is among the solutions. -/
theorem C06_cogo_exact_direction_distance (B1 B2 X : Cogo.Pt ℝ) (h1 t r sal : ℝ)
    (ht : 1 / 10 ^ 6 < t) (hr : 0 < r)
    (hx : X.x = B1.x + t * Real.cos h1) (hy : X.y = B1.y + t * Real.sin h1)
    (hr2 : r ^ 2 = (X.x - B2.x) ^ 2 + (X.y - B2.y) ^ 2)
    (hs : (dirDist B1 h1 B2 r sal).small = false) :
    X ∈ (dirDist B1 h1 B2 r sal).sols :=
  dirDist_exact B1 B2 X h1 t r sal ht hr hx hy hr2 hs

example : (1:ℝ) / 10 ^ 6 < 5 ∧ (0:ℝ) < 3 := by norm_num

/-- AcordPolar::calculate_polar: the point at distance d in the direction orientation + dir from S. -/
theorem C06_cogo_exact_polar (S X : Cogo.Pt ℝ) (o dir d : ℝ)
    (hx : X.x = S.x + d * Real.cos (o + dir)) (hy : X.y = S.y + d * Real.sin (o + dir)) :
    polar S o dir d = X :=
  polar_exact S X o dir d hx hy

/-- SimilarityTr2D: the key computed from two distinct identical points whose target coordinates are the image
    of the local ones under a similarity reproduces that similarity on every point. -/
theorem C06_cogo_exact_similarity (a1 a2 tx ty : ℝ) (f1 f2 p : Cogo.Pt ℝ)
    (hne : (f2.x - f1.x) ^ 2 + (f2.y - f1.y) ^ 2 ≠ 0) :
    transform (transformationKey f1 f2 (simil a1 a2 tx ty f1) (simil a1 a2 tx ty f2)) p = simil a1 a2 tx ty p :=
  similarity_exact a1 a2 tx ty f1 f2 p hne

/-- Circle::calculation: B1, B2 seen from X under the inner angle u = innerAngle X B1 B2 (the model's own
    observation function), all three points pairwise farther apart than bearing_distance's 1e-6 cut, small-angle
    guard not fired: the returned circle (centre C, radius R > 0) passes through X (inscribed angle). -/
theorem C06_cogo_exact_circle (B1 B2 X : Cogo.Pt ℝ) (sal : ℝ) (h1 : Far X B1) (h2 : Far X B2) (h12 : Far B1 B2)
    (hsal : 0 < sal) (hsm : ¬ |Real.sin (innerAngle X B1 B2)| < sal) :
    ∃ C R, circle B1 B2 (innerAngle X B1 B2) sal = (some (C, R), false) ∧
      (X.x - C.x) ^ 2 + (X.y - C.y) ^ 2 = R ^ 2 ∧ 0 < R :=
  circle_of_obs B1 B2 X sal h1 h2 h12 hsal hsm

/-- Direction_angle: bearing h1 from S pointing at X (t > 1e-6) and the inner angle at X between B1 and B2;
    unless a small-angle guard fires X is among the solutions. -/
theorem C06_cogo_exact_direction_angle (S B1 B2 X : Cogo.Pt ℝ) (h1 t sal : ℝ)
    (hf1 : Far X B1) (hf2 : Far X B2) (hf12 : Far B1 B2) (hsal : 0 < sal)
    (hsm : ¬ |Real.sin (innerAngle X B1 B2)| < sal) (ht : 1 / 10 ^ 6 < t)
    (hx : X.x = S.x + t * Real.cos h1) (hy : X.y = S.y + t * Real.sin h1)
    (hs : (dirAngle S h1 B1 B2 (innerAngle X B1 B2) sal).small = false) :
    X ∈ (dirAngle S h1 B1 B2 (innerAngle X B1 B2) sal).sols :=
  dirAngle_exact S B1 B2 X h1 t sal hf1 hf2 hf12 hsal hsm ht hx hy hs

/-- Distance_angle: distance dd1 = |X BB| and the inner angle at X between B1 and B2; BB is not the centre of
    the circle (the code's `s12 == 0` rejection); unless a small-angle guard fires X is among the solutions. -/
theorem C06_cogo_exact_distance_angle (BB B1 B2 X : Cogo.Pt ℝ) (dd1 sal : ℝ)
    (hf1 : Far X B1) (hf2 : Far X B2) (hf12 : Far B1 B2) (hsal : 0 < sal)
    (hsm : ¬ |Real.sin (innerAngle X B1 B2)| < sal)
    (hdd0 : 0 ≤ dd1) (hdd : dd1 ^ 2 = (X.x - BB.x) ^ 2 + (X.y - BB.y) ^ 2)
    (hcen : ∀ C R, circle B1 B2 (innerAngle X B1 B2) sal = (some (C, R), false) →
        (C.x - BB.x) ^ 2 + (C.y - BB.y) ^ 2 ≠ 0)
    (hs : (distAngle BB dd1 B1 B2 (innerAngle X B1 B2) sal).small = false) :
    X ∈ (distAngle BB dd1 B1 B2 (innerAngle X B1 B2) sal).sols :=
  distAngle_exact BB B1 B2 X dd1 sal hf1 hf2 hf12 hsal hsm hdd0 hdd hcen hs

/-- Angle_angle (resection from two inner angles): the two circles have different centres (the code's
    `s12 == 0` rejection); unless a small-angle guard fires X is among the solutions (it survives the
    common-point exclusion and both ±0.1 rad angle checks). -/
theorem C06_cogo_exact_angle_angle (B1 B2 B3 B4 X : Cogo.Pt ℝ) (sal : ℝ)
    (hf1 : Far X B1) (hf2 : Far X B2) (hf12 : Far B1 B2)
    (hf3 : Far X B3) (hf4 : Far X B4) (hf34 : Far B3 B4) (hsal : 0 < sal)
    (hsm1 : ¬ |Real.sin (innerAngle X B1 B2)| < sal) (hsm2 : ¬ |Real.sin (innerAngle X B3 B4)| < sal)
    (hcen : ∀ C1 R1 C2 R2, circle B1 B2 (innerAngle X B1 B2) sal = (some (C1, R1), false) →
        circle B3 B4 (innerAngle X B3 B4) sal = (some (C2, R2), false) →
        (C2.x - C1.x) ^ 2 + (C2.y - C1.y) ^ 2 ≠ 0)
    (hs : (angleAngle B1 B2 (innerAngle X B1 B2) B3 B4 (innerAngle X B3 B4) sal).small = false) :
    X ∈ (angleAngle B1 B2 (innerAngle X B1 B2) B3 B4 (innerAngle X B3 B4) sal).sols :=
  angleAngle_exact B1 B2 B3 B4 X sal hf1 hf2 hf12 hf3 hf4 hf34 hsal hsm1 hsm2 hcen hs

example : Far (⟨0, 0⟩ : Cogo.Pt ℝ) ⟨3, 4⟩ := by
  unfold Far
  have : Real.sqrt (((4:ℝ) - 0) * (4 - 0) + (3 - 0) * (3 - 0)) = 5 := by
    rw [show ((4:ℝ) - 0) * (4 - 0) + (3 - 0) * (3 - 0) = 5 ^ 2 by norm_num]
    exact Real.sqrt_sq (by norm_num)
  simp only [this]; norm_num


/-! ## medians -/

/-- Acord2::median of a non-empty list whose elements all equal c is c. -/
theorem C06_median_const (v : List ℝ) (c : ℝ) (hne : v ≠ []) (h : ∀ x ∈ v, x = c) : median v = c :=
  median_const v c hne h

/-- the `(s[(n-1)/2] + s[n/2])/2` form (get_medians_z, AcordZderived). -/
theorem C06_median2_const (v : List ℝ) (c : ℝ) (hne : v ≠ []) (h : ∀ x ∈ v, x = c) : median2 v = c :=
  median2_const v c hne h

example : ([1, 1, 1] : List ℝ) ≠ [] ∧ ∀ x ∈ ([1, 1, 1] : List ℝ), x = 1 := by simp

/-- more than half of the values equal c ⇒ the median is c (both forms); the model's insertion sort is
    Mathlib's `List.insertionSort (· ≤ ·)` -/
theorem C06_median_majority (v : List ℝ) (c : ℝ) (h : v.length < 2 * v.count c) : median v = c :=
  median_majority v c h

theorem C06_median2_majority (v : List ℝ) (c : ℝ) (h : v.length < 2 * v.count c) : median2 v = c :=
  median2_majority v c h

example : ([7, 1, 7, 9, 7] : List ℝ).length < 2 * ([7, 1, 7, 9, 7] : List ℝ).count 7 := by
  simp


/-! ## orientation of a direction set -/

/-- Consistent directions (value = bearing − o reduced into [0,2π), as the generator and the parser produce
    them), true orientation o anywhere in [0,2π) — including the ±π wrap seam, where the shifts come out as
    a mixture of π and −π: Orientation::orientation (as fixed by 01e764d: median in both wrappings, smaller
    mean deviation wins) reports exactly o and counts every direction. -/
theorem C06_orientation_consistent (n : ℕ) (o : ℝ) (dirs : List (ℝ × ℝ)) (hne : dirs ≠ [])
    (ho0 : 0 ≤ o) (ho2 : o < 2 * Real.pi)
    (h : ∀ p ∈ dirs, p.2 = p.1 - o ∨ p.2 = p.1 - o + 2 * Real.pi) :
    orientation (n + 1) dirs = (o, dirs.length) :=
  orientation_consistent n o dirs hne ho0 ho2 h

example : (0:ℝ) ≤ Real.pi ∧ Real.pi < 2 * Real.pi := by
  have := Real.pi_pos
  exact ⟨by linarith, by linarith⟩

/-- Regression for finding F15 (fixed): four shifts that all represent the orientation π to within ε, two on
    each side of the ±π seam (as round-off produces them when the circle is turned by ≈ 200 gon).  Before the
    fix their median was 0 (orientation off by π, every direction removed); now the result is π. -/
theorem C06_orientation_seam_regression (ε : ℝ) (h0 : 0 < ε) (h1 : ε < Real.pi / 2) :
    orientationOfShifts [-(Real.pi - ε), -(Real.pi - ε), Real.pi - ε, Real.pi - ε] = (Real.pi, 4) :=
  orientation_seam_regression ε h0 h1

/-! ## one refine_approx_coordinates step -/

/-- the 'X' unknown with index i = |pre|+1 adds x(i)/1000, x(i+1)/1000 (mm → m) to the point's x, y; z untouched -/
theorem C06_update_sound_xy (x : List ℝ) (pre post : List Unk) (p : ℕ) (st : St ℝ)
    (hpre : ∀ u ∈ pre, Untouched p u) (hpost : ∀ u ∈ post, Untouched p u) :
    (refine x (pre ++ Unk.X p :: post) st).pts p =
      ⟨(st.pts p).x + xAt x (pre.length + 1) / 1000, (st.pts p).y + xAt x (pre.length + 2) / 1000, (st.pts p).z⟩ :=
  refine_X x pre post p st hpre hpost

theorem C06_update_sound_z (x : List ℝ) (pre post : List Unk) (p : ℕ) (st : St ℝ)
    (hpre : ∀ u ∈ pre, Untouched p u) (hpost : ∀ u ∈ post, Untouched p u) :
    (refine x (pre ++ Unk.Z p :: post) st).pts p =
      ⟨(st.pts p).x, (st.pts p).y, (st.pts p).z + xAt x (pre.length + 1) / 1000⟩ :=
  refine_Z x pre post p st hpre hpost

/-- the 'R' unknown is in cc: the orientation (radians) receives x(i)/10000 gon = x(i)/10000 · π/200 rad -/
theorem C06_update_sound_orientation (x : List ℝ) (pre post : List Unk) (s : ℕ) (st : St ℝ)
    (hpre : ∀ u ∈ pre, u ≠ Unk.R s) (hpost : ∀ u ∈ post, u ≠ Unk.R s) :
    (refine x (pre ++ Unk.R s :: post) st).ori s = st.ori s + xAt x (pre.length + 1) / 10000 * (Real.pi / 200) :=
  refine_R x pre post s st hpre hpost

/-- … and exactly the free coordinates: a point / standpoint that no unknown names is unchanged -/
theorem C06_update_sound_others (x : List ℝ) (us : List Unk) (p s : ℕ) (st : St ℝ)
    (hp : ∀ u ∈ us, Untouched p u) (hs : ∀ u ∈ us, u ≠ Unk.R s) :
    (refine x us st).pts p = st.pts p ∧ (refine x us st).ori s = st.ori s :=
  ⟨refine_pts_other x us p st hp, refine_ori_other x us s st hs⟩

example : ∀ u ∈ [Unk.R 0, Unk.Y 1], Untouched 1 u := by
  intro u hu; simp at hu; rcases hu with rfl | rfl <;> exact ⟨by simp, by simp⟩

/-! ## the true coordinates are a fixed point of the iteration -/

/-- observation = its function of the current coordinates ⇒ absolute term 0, for every observation type of the
    linearisation GENERATED from local_linearization.cpp (C05's Gama/Gen/Linearization.lean): distance -/
theorem C06_fixed_point_rhs_distance (fuel : Nat) (o : Lin.Obs ℝ) (out : Lin.LinOut ℝ) (h : ¬ Lin.hdist o < Lin.CUT)
    (hv : o.value = Lin.hdist o) (hok : Gen.Lin.distance fuel o = .ok out) : out.rhs = 0 :=
  fix_distance fuel o out h hv hok

/-- direction: value = bearing − orientation up to whole circles (the parser reduces it to [0,2π)) -/
theorem C06_fixed_point_rhs_direction (fuel : Nat) (o : Lin.Obs ℝ) (out : Lin.LinOut ℝ) (h : ¬ Lin.hdist o < Lin.CUT)
    (k : ℤ) (hv : o.value + o.orientation = Lin.brg (Lin.dX o) (Lin.dY o) + 2 * Real.pi * k)
    (hok : Gen.Lin.direction fuel o = .ok out) : out.rhs = 0 :=
  fix_direction fuel o out h k hv hok

theorem C06_fixed_point_rhs_azimuth (fuel : Nat) (o : Lin.Obs ℝ) (out : Lin.LinOut ℝ) (h : ¬ Lin.hdist o < Lin.CUT)
    (k : ℤ) (hv : o.value + o.xNorth = Lin.brg (Lin.dX o) (Lin.dY o) + 2 * Real.pi * k)
    (hok : Gen.Lin.azimuth fuel o = .ok out) : out.rhs = 0 :=
  fix_azimuth fuel o out h k hv hok

theorem C06_fixed_point_rhs_angle (fuel : Nat) (o : Lin.Obs ℝ) (out : Lin.LinOut ℝ)
    (h : ¬ Lin.hdist o < Lin.CUT) (h' : ¬ Lin.hdist2 o < Lin.CUT)
    (hv : o.value = Lin.angleBsFs o) (hok : Gen.Lin.angle fuel o = .ok out) : out.rhs = 0 :=
  fix_angle fuel o out h h' hv hok

theorem C06_fixed_point_rhs_s_distance (fuel : Nat) (o : Lin.Obs ℝ) (out : Lin.LinOut ℝ)
    (hv : o.value = Lin.sdist o) (hok : Gen.Lin.s_distance fuel o = .ok out) : out.rhs = 0 :=
  fix_s_distance fuel o out hv hok

/-- zenith angle: acos(dz/s), resp. 2π − acos(dz/s) for a second-face reading (value > π) -/
theorem C06_fixed_point_rhs_z_angle (fuel : Nat) (o : Lin.Obs ℝ) (out : Lin.LinOut ℝ)
    (hv : o.value = Lin.zenithComputed o) (hok : Gen.Lin.z_angle fuel o = .ok out) : out.rhs = 0 :=
  fix_z_angle fuel o out hv hok

/-- the seven linear types: height difference, coordinate differences, observed coordinates -/
theorem C06_fixed_point_rhs_linear (fuel : Nat) (o : Lin.Obs ℝ) :
    (o.value = Lin.dZ o → ∃ out, Gen.Lin.h_diff fuel o = .ok out ∧ out.rhs = 0) ∧
    (o.value = Lin.dZ o → ∃ out, Gen.Lin.zdiff fuel o = .ok out ∧ out.rhs = 0) ∧
    (o.value = Lin.dX o → ∃ out, Gen.Lin.xdiff fuel o = .ok out ∧ out.rhs = 0) ∧
    (o.value = Lin.dY o → ∃ out, Gen.Lin.ydiff fuel o = .ok out ∧ out.rhs = 0) ∧
    (o.value = Lin.fromX o → ∃ out, Gen.Lin.x fuel o = .ok out ∧ out.rhs = 0) ∧
    (o.value = Lin.fromY o → ∃ out, Gen.Lin.y fuel o = .ok out ∧ out.rhs = 0) ∧
    (o.value = Lin.fromZ o → ∃ out, Gen.Lin.z fuel o = .ok out ∧ out.rhs = 0) :=
  fix_linear fuel o

/-- … hence x = 0 satisfies the normal equations Aᵀ P (A x − b) = 0 whatever A and P are -/
theorem C06_fixed_point_normal_equations {m n : Type} [Fintype m] [Fintype n] (A : Matrix m n ℝ) (P : Matrix m m ℝ) :
    A.transpose.mulVec (P.mulVec (A.mulVec 0 - 0)) = 0 :=
  normal_eq_zero A P

/-- … with x = 0, v = 0 the positional misclosures of the tested types vanish … -/
theorem C06_fixed_point_pol (n : ℕ) (val orp sx sy cx cy dx dy dz : ℝ)
    (h : val + orp = (bearingDistance sy sx cy cx).1 ∨ val + orp = (bearingDistance sy sx cy cx).1 + 2 * Real.pi) :
    polDistance (bearingDistance sy sx cy cx).2 0 sx sy cx cy = 0 ∧
    polSDistance (Real.sqrt (dx * dx + dy * dy + dz * dz)) 0 dx dy dz = 0 ∧
    polDirection (n + 1) val 0 orp 0 sx sy cx cy = 0 :=
  ⟨polDistance_fixed sx sy cx cy, polSDistance_fixed dx dy dz, polDirection_fixed n val orp sx sy cx cy h⟩

theorem C06_fixed_point_pol_angle (n : ℕ) (val sx sy cx cy cx2 cy2 : ℝ)
    (h : val = (bearingDistance sy sx cy2 cx2).1 - (bearingDistance sy sx cy cx).1 ∨
         val = (bearingDistance sy sx cy2 cx2).1 - (bearingDistance sy sx cy cx).1 + 2 * Real.pi) :
    polAngle (n + 1) val 0 sx sy cx cy cx2 cy2 = 0 :=
  polAngle_fixed n val sx sy cx cy cx2 cy2 h

/-- … also for zenith angles, which the stopping test recomputes since fix 45be66f (finding F18) -/
theorem C06_fixed_point_pol_zangle (n : ℕ) (val dx dy dz : ℝ)
    (h : val = if Real.pi < val
               then 2 * Real.pi - Real.arccos (-dz / Real.sqrt (dx * dx + dy * dy + dz * dz))
               else Real.arccos (-dz / Real.sqrt (dx * dx + dy * dy + dz * dz))) :
    polZAngle (n + 1) val 0 dx dy dz = 0 :=
  polZAngle_fixed n val dx dy dz h

/-- … and the stopping test passes (no further iteration): max |pol| = 0 < 0.0005 -/
theorem C06_fixed_point_stop (k : ℕ) : testLin (List.replicate k (0 : ℝ)) = false :=
  testLin_zeros k


/-- the linear-algebra half of "adding observations never makes a determined point undetermined":
    a further row keeps an injective (full column rank) design matrix injective. -/
theorem C06_more_obs_monotone_partial {m n : Type} [Fintype m] [Fintype n] (A : Matrix m n ℝ) (a : n → ℝ)
    (hA : ∀ x, A.mulVec x = 0 → x = 0) :
    ∀ x, (Matrix.of (fun (i : m ⊕ Unit) => Sum.elim A (fun _ => a) i)).mulVec x = 0 → x = 0 :=
  more_obs_injective A a hA

/-! ## single steps of the Acord2 strategies (round 3)

Vocabulary (Gama/Lemmas/C06Acord.lean): `Truth` = the true coordinates; `SoundXY T pd` / `SoundZ T pd` = every
coordinate group the point list marks as defined holds the true values; `KeepXY`, `KeepZ` = a defined group keeps
its flag and its values; `SameXY`, `SameZ` = the group is not touched at all; `Sub l l'` = the `missing` set did
not grow.  Axes orientation and angle sense enter only through `xN = PD.xNorthAngle()`: the statements hold for
every real `xN`, hence for all 8 × 2 settings. -/

/-- the azimuth observation function of the linearisation (`value + xNorthAngle() = bearing mod 2π`, the
    hypothesis of `C06_fixed_point_rhs_azimuth`) gives what the strategy uses, and so does the reverse
    observation turned round by `prepare` (`+π`, optionally `−2π`) -/
theorem C06_acord_azimuth_obs (T : Truth ι) (xN : ℝ) (f t : ι) (v : ℝ) (h : IsAzimuth T xN f t v) :
    AzDir T xN f t v ∧ AzDir T xN t f (v + Real.pi) ∧ AzDir T xN t f (v + Real.pi - 2 * Real.pi) :=
  ⟨azDir_of_isAzimuth T xN f t v h, azDir_reverse T xN t f v (azDir_of_isAzimuth T xN f t v h)⟩

example : IsAzimuth (ι := ℕ) ⟨fun i => if i = 1 then 100 else 0, fun _ => 0, fun _ => 0⟩ 0 0 1 0 :=
  ⟨0, by simp [Lin.brg_east]⟩

/-- AcordAzimuth::execute, first branch (the end point with the smaller id is known): the point written is
    the true one -/
theorem C06_acord_azimuth_sound_fwd (T : Truth ι) (xN : ℝ) (st : St ι ℝ) (e : AzEntry ι ℝ)
    (hs : SoundXY T st.pd) (ha : (st.pd e.a).bxy = true) (hb : (st.pd e.b).bxy = false)
    (hd0 : e.distance ≠ 0) (hok : AzOK T xN e) :
    ((azStep xN st e).pd e.b).bxy = true ∧ ((azStep xN st e).pd e.b).x = T.x e.b ∧
    ((azStep xN st e).pd e.b).y = T.y e.b := by
  rcases azStep_cases xN st e with h | ⟨_, _, _, h⟩ | ⟨ha', _, _, _⟩
  · exfalso
    have : azStep xN st e = azFwd xN st e := by simp [azStep, azFwd, ha, hb, hd0]
    have h2 := (azFwd_sound T xN st e hs ha hd0 hok).1
    rw [← this, h, hb] at h2; exact absurd h2 (by simp)
  · rw [h]; exact azFwd_sound T xN st e hs ha hd0 hok
  · rw [ha] at ha'; exact absurd ha' (by simp)

/-- … second branch (the end point with the larger id is known; `value + π`) -/
theorem C06_acord_azimuth_sound_rev (T : Truth ι) (xN : ℝ) (st : St ι ℝ) (e : AzEntry ι ℝ)
    (hs : SoundXY T st.pd) (ha : (st.pd e.a).bxy = false) (hb : (st.pd e.b).bxy = true)
    (hd0 : e.distance ≠ 0) (hok : AzOK T xN e) :
    ((azStep xN st e).pd e.a).bxy = true ∧ ((azStep xN st e).pd e.a).x = T.x e.a ∧
    ((azStep xN st e).pd e.a).y = T.y e.a := by
  have : azStep xN st e = azRev xN st e := by simp [azStep, azRev, ha, hb, hd0]
  rw [this]; exact azRev_sound T xN st e hs hb hd0 hok

example : AzOK (ι := ℕ) ⟨fun i => if i = 1 then 5 else 0, fun _ => 0, fun _ => 0⟩ 0 ⟨0, 1, 0, 5, []⟩ := by
  intro _
  have h5 : Real.sqrt (((5:ℝ) - 0) * (5 - 0) + (0 - 0) * (0 - 0)) = 5 := by
    rw [show ((5:ℝ) - 0) * (5 - 0) + (0 - 0) * (0 - 0) = 5 ^ 2 by norm_num]; exact Real.sqrt_sq (by norm_num)
  refine ⟨?_, ?_, ?_⟩ <;> simp [AzDir, hd, h5]

/-- AcordAzimuth::execute as a whole (prepare on first use — map insertion by id order, removal, seam treatment of
    fix 8d96812 with any fuel ≥ 1, both medians, distance lookup — the loop over the map in key order with the point
    list updated on the way, removal, any number of repetitions), at full strength: if EVERY azimuth is exact (its
    value in [0, 2π) as the constructor of `Azimuth` leaves it; `AzDir` follows from the linearisation's function by
    `C06_acord_azimuth_obs`) and the distances are the true ones, every xy the point list holds afterwards is true
    and the stored entries stay consistent.  (`Tri lt`: `PointID::operator<` identifies keys, C07.) -/
theorem C06_acord_azimuth_sound {lt : ι → ι → Bool} (htri : Tri lt) (T : Truth ι) (xN : ℝ) (od : List (Cluster ι ℝ))
    (alg : AzAlg ι ℝ) (st : St ι ℝ) (n : ℕ)
    (hobsA : ∀ f t v, Obs.azimuth f t v ∈ spObs od → AzDir T xN f t v ∧ 0 ≤ v ∧ v < 2 * Real.pi)
    (hobsD : ∀ f t v, Obs.distance f t v ∈ spObs od → v = hd T f t)
    (halg : AzAlgOK T xN alg) (hs : SoundXY T st.pd) :
    SoundXY T (azExecute (n + 1) lt xN od alg st).2.pd ∧ AzAlgOK T xN (azExecute (n + 1) lt xN od alg st).1 :=
  azExecute_sound htri T xN od alg st n hobsA hobsD halg hs

example : Tri (fun a b : ℕ => decide (a < b)) := by
  intro a b h1 h2; simp at h1 h2; omega

/-- Regression of finding C06-azimuth-seam (fixed by 8d96812; corpus/C06/acord-azimuth-seam.txt): a forward azimuth
    0 and the exact reverse azimuth π of the same pair are still stored as 0 and 2π, but the seam treatment brings
    2π back to 0 before the median: the value is 0 (before the fix: π, the new point mirrored through the known one) -/
theorem C06_acord_azimuth_seam_regression (lt : ι → ι → Bool) (a b : ι) (h : lt a b = true) (n : ℕ) :
    azNormalize lt b a (Real.pi : ℝ) = (a, b, 2 * Real.pi) ∧
    median2 (azSeam (n + 1) ([0, 2 * Real.pi] : List ℝ)) = 0 :=
  ⟨az_seam_normalize lt a b h, az_seam_regression n⟩

/-- AcordHdiff::execute (prepare on first use, refresh of the local copy, the chaining loop with any fuel that
    lets it finish, copy-back): exact height differences and a sound point list give a sound point list; xy is
    not touched, no height flag is cleared, `missing_z_` only shrinks, and the algorithm's own state stays sound
    (so the statement applies again to the next call). -/
theorem C06_acord_hdiff_sound (T : Truth ι) (fuel : Nat) (od : List (Cluster ι ℝ)) (alg alg' : HdAlg ι ℝ)
    (st st' : St ι ℝ) (hobs : ∀ h ∈ hdAll od, HdOK T h) (halg : HdAlgOK T alg) (hs : SoundZ T st.pd)
    (hex : hdExecute fuel od alg st = some (alg', st')) :
    SoundZ T st'.pd ∧ HdAlgOK T alg' ∧ SameXY st.pd st'.pd ∧
    (∀ j, (st.pd j).bz = true → (st'.pd j).bz = true) ∧
    Sub st.missZ st'.missZ ∧ st'.missXY = st.missXY ∧ st'.candZ = st.candZ :=
  hdExecute_props T fuel od alg alg' st st' hobs halg hs hex

/-- both branches of the chaining step: `to = from + hd` and `from = to − hd` -/
theorem C06_acord_hdiff_step_sound (T : Truth ι) (ls : PD ι ℝ × Bool) (h : Hd ι ℝ) (hs : SoundZ T ls.1)
    (hok : HdOK T h) : SoundZ T (hdPassStep ls h).1 :=
  hdPassStep_sound T ls h hs hok

example : HdOK (ι := ℕ) ⟨fun _ => 0, fun _ => 0, fun i => 3 * i⟩ ⟨0, 1, 3⟩ := by simp [HdOK]

/-- AcordVector::execute: exact vectors and a sound point list give a sound point list (xy and z); no flag is
    cleared, the `missing` sets only shrink, the algorithm's own state stays sound. -/
theorem C06_acord_vector_sound (T : Truth ι) (fuel : Nat) (od : List (Cluster ι ℝ)) (alg alg' : VecAlg ι ℝ)
    (st st' : St ι ℝ) (hobs : ∀ h ∈ vecAll od ⟨0, 0, 0, 0⟩ [], VecOK T h) (halg : VecAlgOK T alg)
    (h1 : SoundXY T st.pd) (h2 : SoundZ T st.pd) (hex : vecExecute fuel od alg st = some (alg', st')) :
    VecCopyProps T st st' ∧ VecAlgOK T alg' :=
  vecExecute_props T fuel od alg alg' st st' hobs halg h1 h2 hex

/-- both branches of the chaining step: `to = from + (dx,dy,dz)` and `from = to − (dx,dy,dz)` -/
theorem C06_acord_vector_step_sound (T : Truth ι) (ls : PD ι ℝ × Bool) (h : Vec ι ℝ) (hxy : SoundXY T ls.1)
    (hz : SoundZ T ls.1) (hok : VecOK T h) : SoundXY T (vecPassStep ls h).1 ∧ SoundZ T (vecPassStep ls h).1 :=
  vecPassStep_sound T ls h hxy hz hok

example : VecOK (ι := ℕ) ⟨fun i => i, fun i => 2 * i, fun i => 3 * i⟩ ⟨0, 1, 1, 2, 3⟩ := by simp [VecOK]

/-- the zenith angle of C05's linearisation (`arccos (dz / slope)`) and its second-face reading `2π − …`
    (`Lin.zenithComputed`) are zenith readings in the sense used below whenever the sight is not vertical -/
theorem C06_acord_zenith_obs (h v : ℝ) (hh : 0 < h) :
    IsZenithObs h v (Real.sqrt (h * h + v * v)) (Real.arccos (v / Real.sqrt (h * h + v * v))) ∧
    IsZenithObs h v (Real.sqrt (h * h + v * v)) (2 * Real.pi - Real.arccos (v / Real.sqrt (h * h + v * v))) :=
  ⟨⟨_, (isZenith_arccos h v hh).1, (isZenith_arccos h v hh).2.1, (isZenith_arccos h v hh).2.2, Or.inl rfl⟩,
   ⟨_, (isZenith_arccos h v hh).1, (isZenith_arccos h v hh).2.1, (isZenith_arccos h v hh).2.2, Or.inr rfl⟩⟩

/-- AcordZderived, branch A (station height from targets with heights): every `continue`-free outcome is the
    true height of the station — for horizontal distances, slope distances and coordinate distances, with the
    instrument / target heights of the zenith angle, readings in either face (fix 50e5b35) -/
theorem C06_acord_zderived_station_sound (T : Truth ι) (pd : PD ι ℝ) (station : ι) (obs : List (Obs ι ℝ))
    (hxy : SoundXY T pd) (hzs : SoundZ T pd) (hok : ZdOK T station obs) (z : ℝ)
    (h : zdStation pd obs = some z) : z = T.z station :=
  zdStation_sound T pd station obs hxy hzs hok z h

/-- … branch B (target heights from the station height) -/
theorem C06_acord_zderived_target_sound (T : Truth ι) (pd : PD ι ℝ) (station : ι) (obs : List (Obs ι ℝ))
    (hxy : SoundXY T pd) (hok : ZdOK T station obs) :
    ∀ c ∈ zdTargets pd (T.z station) obs, c.2 = T.z c.1 :=
  zdTargets_sound T pd station obs hxy hok

example : IsZenithObs 1 0 1 (Real.pi / 2) :=
  ⟨Real.pi / 2, by simp [IsZenith], by positivity, by linarith [Real.pi_pos], Or.inl rfl⟩

/-- AcordZderived::execute followed by Acord2::get_medians_z (one round, all clusters, both branches, the
    median of any number of candidates): a sound point list stays sound -/
theorem C06_acord_zderived_sound (T : Truth ι) (od : List (Cluster ι ℝ)) (alg : ZdAlg) (st : St ι ℝ)
    (h0 : st.candZ = []) (hok : OdZdOK T od) (hxy : SoundXY T st.pd) (hz : SoundZ T st.pd) :
    SoundZ T (zdRound od alg st).2.pd ∧ SoundXY T (zdRound od alg st).2.pd :=
  zdRound_sound T od alg st h0 hok hxy hz

/-- Regression of finding C06-zderived-face2 (fixed by 50e5b35; corpus/C06/acord-zderived-face2.txt): a second-face
    reading `2π − za` gives the true height `stZ + v + dh` (before the fix: `stZ − v + dh`) -/
theorem C06_acord_zderived_face2_regression (T : Truth ι) (pd : PD ι ℝ) (f t : ι) (stZ fdh tdh za s : ℝ)
    (hz : IsZenith (hd T f t) (T.z t + tdh - (T.z f + fdh)) s za) (h0 : 0 < za) (hp : za < Real.pi)
    (hb : (pd f).bxy = false) :
    zdTargetHeights pd stZ [(t, hd T f t)] [] ⟨f, t, 2 * Real.pi - za, fdh, tdh⟩ =
      [(t, stZ + (T.z t + tdh - (T.z f + fdh)) + (fdh - tdh))] :=
  zd_face2_regression T pd f t stZ fdh tdh za s hz h0 hp hb

/-- "a step never changes coordinates that were already known and never un-knows a point", for arbitrary
    (also inconsistent) data: AcordAzimuth::execute keeps every defined xy, does not touch heights; one round of
    AcordZderived + get_medians_z keeps every defined height, does not touch xy; `missing` sets never grow -/
theorem C06_acord_step_monotone (fuel : ℕ) (lt : ι → ι → Bool) (xN : ℝ) (od : List (Cluster ι ℝ)) (aa : AzAlg ι ℝ) (za : ZdAlg)
    (st : St ι ℝ) :
    (KeepXY st.pd (azExecute fuel lt xN od aa st).2.pd ∧ SameZ st.pd (azExecute fuel lt xN od aa st).2.pd ∧
      Sub st.missXY (azExecute fuel lt xN od aa st).2.missXY ∧ (azExecute fuel lt xN od aa st).2.missZ = st.missZ) ∧
    (st.candZ = [] →
      KeepZ st.pd (zdRound od za st).2.pd ∧ SameXY st.pd (zdRound od za st).2.pd ∧
      Sub st.missZ (zdRound od za st).2.missZ ∧ (zdRound od za st).2.missXY = st.missXY) := by
  obtain ⟨a, b, c, d, _⟩ := azExecute_mono fuel lt xN od aa st
  exact ⟨⟨a, b, c, d⟩, fun h0 => zdRound_mono od za st h0⟩

/-- … for AcordHdiff / AcordVector the part that holds for arbitrary data is "no flag is cleared, the other
    coordinate group of AcordHdiff is untouched, the `missing` sets never grow" (in `C06_acord_hdiff_sound`,
    `C06_acord_vector_sound`); that *values* of defined coordinates are kept is proved for consistent data only
    (they are true before and after).  The full statement fails for AcordVector on the real code: a point whose
    xy is given but whose z is missing is not "known" to the strategy and its xy is overwritten from the
    vector (replayed: corpus/C06/pending/acord-vector-overwrites-xy.txt) — a local pass keeps every defined height: -/
theorem C06_acord_step_monotone_hdiff_partial (ls : PD ι ℝ × Bool) (h : Hd ι ℝ) :
    KeepZ ls.1 (hdPassStep ls h).1 ∧ SameXY ls.1 (hdPassStep ls h).1 :=
  hdPassStep_mono ls h

end Gama.Props.C06
