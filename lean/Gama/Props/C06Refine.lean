/-
  C06 — the dh-reduction refinement `refine_obsdh_reductions(IS, adjusted)` (test_linearization_visitor.cpp, after
  /repo 281bcf7 and a2adf726) and the three-test loop of `LocalNetwork::refine_adjustment()` (network.cpp).

  Model: `Gama/Model/RefineAdjustment.lean` (loops, hand-written, shape matched by the translator) over
  `Gama/Gen/RefineObsdh.lean` (the `coordinates` lambda with the `adjusted` flag, the two tolerances, both branches,
  the list of tests of one turn — REGENERATED from the source on every run by tools/gen/c06_testlin.py).
  The adjustment (`project_equations()` + solver) and `refine_approx_coordinates()` enter as `RA.Env`; what is asked
  of them is what `Props/C06Network.lean` (`C06_exact_network_solution_zero`) proves of the executed models.

  `stored σ xyz o`  = the observation after `refine_obsdh_reductions(IS)`; `curRed σ xyz o` = the reduction it recomputes
  (`none`: a `continue` guard fires or the class is not `S_Distance` / `Z_Angle`); `redOf true x …` = the reduction at
  the adjusted coordinates `coordinates + x/1000`; `tolOf` = 1 µm / 0.1 cc; `DhExact` = the stored `value_` is the
  quantity between INSTRUMENT and TARGET (heights above the marks included).  Lemmas: `Lemmas/C06Refine.lean`.
-/
import Gama.Lemmas.C06Refine
namespace Gama.Props.C06Refine
open Gama Gama.Lin Gama.RA Gama.Gen.Obsdh Gama.C06FP Gama.C06RA Gama.TL

/-- **`refine_obsdh_reductions(IS)` stores the reductions of the CURRENT coordinates** (281bcf7): whatever was stored
    before, afterwards every observation a branch applies to carries exactly the recomputed reduction (not "the old
    one if it moved by less than the tolerance"), every other observation is untouched; neither `x` nor the index
    fields are read; and a second call — with any `x`, any index state — stores nothing, asks for nothing -/
theorem C06_obsdh_stores_current_reductions (σ : Net ℝ) (xyz : Nat → Bool) (idx idx' : IdxState) (x x' : List ℝ)
    (obs : List (DObs ℝ)) :
    (refineObsdh false σ xyz idx x obs).1 = obs.map (stored σ xyz) ∧
    (∀ o rs, curRed σ xyz o = some rs → stored σ xyz o = { o with red := rs }) ∧
    (∀ o, curRed σ xyz o = none → stored σ xyz o = o) ∧
    refineObsdh false σ xyz idx' x' (obs.map (stored σ xyz)) = (obs.map (stored σ xyz), false, false) :=
  ⟨obsdh_false_eq σ xyz idx x obs, fun o rs h => by unfold stored; rw [h], fun o h => by unfold stored; rw [h],
    obsdh_false_idem σ xyz idx' x' obs⟩

/-- **the stored reductions are the true reductions**: a slope distance / zenith angle whose stored value is exact
    between instrument and target, with the reduction the function stores at these coordinates, has
    `value() = value_ + reduction()` equal to the mark-to-mark quantity the linearisation and the stopping test
    compare with — it is exact in the sense of the fixed-point theorems (`C06FP.ExactObs`) -/
theorem C06_obsdh_exact_values (σ : Net ℝ) (xyz : Nat → Bool) (o : DObs ℝ) (h : DhExact σ xyz o) :
    ExactObs σ (stored σ xyz o).nobs :=
  stored_exact σ xyz o h

/-- **`refine_obsdh_reductions(IS, true)` only compares** (a2adf726): it stores nothing, never sets `changed`, and
    when it returns `false` every stored reduction is within the tolerance (1 µm, 0.1 cc) of the reduction at the
    adjusted coordinates `coordinates + x/1000` -/
theorem C06_obsdh_adjusted_compares_only (σ : Net ℝ) (xyz : Nat → Bool) (idx : IdxState) (x : List ℝ)
    (obs : List (DObs ℝ)) :
    (refineObsdh true σ xyz idx x obs).1 = obs ∧ (refineObsdh true σ xyz idx x obs).2.2 = false ∧
    ((refineObsdh true σ xyz idx x obs).2.1 = false →
      ∀ o ∈ obs, ∀ rs, redOf true (GN.xAt x) o.kind (dhView σ xyz idx o) = some rs → |o.red - rs| ≤ tolOf o.kind) :=
  ⟨(obsdh_true_obs σ xyz idx x obs).1, (obsdh_true_obs σ xyz idx x obs).2, obsdh_true_status σ xyz idx x obs⟩

/-- **the loop at the true coordinates**: all observations of `OD` exact (`DhExact`), the reductions stored by the
    call of `refine_obsdh_reductions(IS)` that precedes the adjustment, the adjustment `a` of that state walks over
    observations of `OD` and answers `x = 0`, `v = 0` when they are exact (`C06_exact_network_solution_zero`).
    Then, from some fuel of the visitor's wrap loops on, for every bound `maxIter + 1 ≥ 1`: no test of the loop of
    `refine_adjustment()` (found in the source: `refineTests`) asks for an iteration, the loop is left by `break`
    in its first turn with `linearization_iterations() = 0`, coordinates and reductions unchanged, and the function
    returns `false` -/
theorem C06_refine_adjustment_fixed_point (σ : Net ℝ) (xyz : Nat → Bool) (obs : List (DObs ℝ)) (a : Adj ℝ)
    (hex : ∀ o ∈ obs, DhExact σ xyz o)
    (hsub : ∀ ob ∈ a.robs, ∃ o ∈ obs, ob = (stored σ xyz o).nobs)
    (hzero : (∀ ob ∈ a.robs, ExactObs σ ob) → (∀ i, GN.xAt a.x i = 0) ∧ (∀ i, GN.xAt a.v i = 0)) :
    ∃ f0 : Nat, ∀ E : Env ℝ, E.adjust σ xyz (obs.map (stored σ xyz)) = some a → f0 ≤ E.fuel → ∀ maxIter i0 : Nat,
      refineAdjustment E (maxIter + 1) ⟨σ, xyz, obs.map (stored σ xyz), i0⟩
        = some (⟨σ, xyz, obs.map (stored σ xyz), 0⟩, true, false) :=
  refineAdjustment_fixed_point σ xyz obs a hex hsub hzero

/-- **the invariant of a2adf726**: whenever `refine_adjustment()` stops normally (by `break`, not by the bound on the
    iterations) — from any state, after any number of iterations, whatever the adjustment and
    `refine_approx_coordinates` do — the adjustment `a` of the state it leaves exists and every stored from_dh/to_dh
    reduction is within the tolerance of the reduction at the adjusted coordinates of that adjustment.
    (The proof uses that the LAST test of `refineTests` is `refine_obsdh_reductions(this, true)`: with the test
    removed from the source the regenerated list no longer has this shape and the proof fails.) -/
theorem C06_refine_adjustment_reductions_within_tolerance (E : Env ℝ) (maxIter : Nat) (s s' : St ℝ) (it : Bool)
    (h : refineAdjustment E maxIter s = some (s', true, it)) :
    ∃ a, E.adjust s'.σ s'.xyz s'.obs = some a ∧
      ∀ o ∈ s'.obs, ∀ rs, redOf true (GN.xAt a.x) o.kind (dhView s'.σ s'.xyz a.idx o) = some rs →
        |o.red - rs| ≤ tolOf o.kind := by
  unfold refineAdjustment at h
  rw [refineTests_eq] at h
  cases hl : loop E ([.obsdh false, .testLin] ++ [.obsdh true]) maxIter { s with iters := 0 } with
  | none => rw [hl] at h; cases h
  | some r =>
    rw [hl] at h
    simp only [Option.map_some, Option.some.injEq, Prod.mk.injEq] at h
    obtain ⟨h1, h2, _⟩ := h
    have hl' : loop E ([.obsdh false, .testLin] ++ [.obsdh true]) maxIter { s with iters := 0 } = some (s', true) := by
      rw [hl, ← h1, ← h2]
    exact loop_break_invariant E _ maxIter _ s' hl'

/-! ### non-vacuity -/

/-- `Ex.o`: a slope distance of 13 m from (0,0,0) to a target 12 m above the mark (3,4,0): a branch applies, the
    recomputed reduction is 5 − 13 = −8 m ≠ 0, the observation is `DhExact`, and with the stored reduction its
    `value()` is the 5 m between the marks -/
example : DhExact Ex.σ Ex.xyz Ex.o ∧ curRed Ex.σ Ex.xyz Ex.o = some (-8) ∧
    (stored Ex.σ Ex.xyz Ex.o).nobs.value = 5 := by
  refine ⟨Ex.exact_o, Ex.curRed_o, ?_⟩
  have : stored Ex.σ Ex.xyz Ex.o = { Ex.o with red := -8 } := by unfold stored; rw [Ex.curRed_o]
  rw [this]; show (13 : ℝ) + -8 = 5; norm_num

/-- the hypotheses of `C06_refine_adjustment_fixed_point` hold together (`Ex.E`: an adjustment that walks over this
    observation and answers the zero solution), so its conclusion is an instance of the hypothesis of
    `C06_refine_adjustment_reductions_within_tolerance` (a loop left by `break`) -/
example : ∃ f0 : Nat, ∀ fuel, f0 ≤ fuel →
    refineAdjustment (Ex.E fuel) 5 ⟨Ex.σ, Ex.xyz, [Ex.o].map (stored Ex.σ Ex.xyz), 3⟩
      = some (⟨Ex.σ, Ex.xyz, [Ex.o].map (stored Ex.σ Ex.xyz), 0⟩, true, false) := by
  obtain ⟨f0, h⟩ := C06_refine_adjustment_fixed_point Ex.σ Ex.xyz [Ex.o] Ex.a
    (fun o ho => by rw [List.mem_singleton.1 ho]; exact Ex.exact_o)
    (fun ob hob => ⟨Ex.o, List.mem_singleton.2 rfl, List.mem_singleton.1 hob⟩)
    (fun _ => ⟨fun _ => rfl, fun _ => rfl⟩)
  exact ⟨f0, fun fuel hf => h (Ex.E fuel) rfl hf 4 3⟩

/-- a reduction that is NOT within the tolerance makes the adjusted-mode test ask (the invariant is not vacuous):
    `Ex.o` with nothing stored (`red = 0`) and the zero solution: |0 − (−8)| > 1 µm -/
example : (refineObsdh true Ex.σ Ex.xyz IdxState.init [] [Ex.o]).2.1 = true := by
  by_contra hc
  have hf : (refineObsdh true Ex.σ Ex.xyz IdxState.init [] [Ex.o]).2.1 = false := by
    cases h : (refineObsdh true Ex.σ Ex.xyz IdxState.init [] [Ex.o]).2.1
    · rfl
    · exact absurd h hc
  have h := (C06_obsdh_adjusted_compares_only Ex.σ Ex.xyz IdxState.init [] [Ex.o]).2.2 hf Ex.o
    (List.mem_singleton.2 rfl) (-8)
    ((redOf_true_zero Ex.σ Ex.xyz IdxState.init (GN.xAt []) (fun _ => rfl) Ex.o).trans Ex.curRed_o)
  have ht : tolOf Ex.o.kind = linear_tol := rfl
  rw [ht] at h
  have : (linear_tol : ℝ) < 8 := by simp only [linear_tol, Gama.Lin.ofSci_real]; norm_num
  have h8 : |Ex.o.red - -8| = 8 := by show |(0 : ℝ) - -8| = 8; norm_num
  rw [h8] at h
  linarith

end Gama.Props.C06Refine
