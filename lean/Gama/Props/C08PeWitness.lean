/-
  C08 — `C08_pe_datum_gap` on TWO evaluated `projectEquations` outputs over ℝ (audit #4, remaining gap 2): `Ex.netWobs`
  (`B` constrained, `C` free) and `Ex.netWobs'` (`B` free, `C` constrained) — `DatumEq`, the same correlated cluster with a
  switched-off observation, all-passive cluster, inexact height differences (`Lemmas/PeWitnessReal.lean`).
  `projectEquations netWobs = .ok (npO, uO)` (`min_x_ = [1]`), `projectEquations netWobs' = .ok (npG [2], uO')`
  (`min_x_ = [2]`); `NoAlias`, `m0 ≠ 0`, `Σ·Pc = 1`, `InputGap` for both lists (the design matrix has full column rank),
  both runs answer for any two of envelope / cholesky / gso — the theorem applied.
-/
import Gama.Lemmas.PeWitnessReal
import Gama.Props.C08ProjectEquations
namespace Gama.Props.C08ProjectEquations
open Gama Gama.Lin Gama.PE Gama.Ls Gama.Ls.Net Gama.LS Gama.C06NZ Gama.C06NZ.Ex Gama.Ls.Ex Matrix

set_option linter.unusedVariables false

section witness
attribute [local instance] sqrtFnOfSqrtField
attribute [local instance 2000] scalarOfField
attribute [local instance 3000] fieldTrig

/-- **`C08_pe_datum_gap` applied** (any two of envelope, cholesky, gso; e.g. cholesky for the first list, envelope for the
    second) -/
theorem C08_pe_datum_gap_pe_witness (alg alg' : Alg) (halg : alg ≠ .svd) (halg' : alg' ≠ .svd) :
    DatumEq netWobs netWobs' ∧ projectEquations netWobs = .ok (npO, uO) ∧
    projectEquations netWobs' = .ok (npG [2], uO') ∧
    ∃ a a', netSolve alg npO = .ok a ∧ netSolve alg' { npO with minx := (npG [2]).minx } = .ok a' ∧
      npG [2] = { npO with minx := (npG [2]).minx } ∧
      toVec (toProblem npO).m a.r = toVec (toProblem npO).m a'.r ∧ a.pvv = a'.pvv ∧
      (toProblem npO).A *ᵥ toVec (toProblem npO).n a.x = (toProblem npO).A *ᵥ toVec (toProblem npO).n a'.x ∧
      a.defect = a'.defect ∧
      (∀ i j : Fin (toProblem npO).m, a.qbb (i.val + 1) (j.val + 1) = a'.qbb (i.val + 1) (j.val + 1)) ∧
      (∀ g, (toProblem npO).A *ᵥ g = 0 → ∑ i ∈ (toProblem npO).S, toVec (toProblem npO).n a.x i * g i = 0) ∧
      (∀ g, (toProblem npO).A *ᵥ g = 0 →
        ∑ i ∈ (Reg.subset (npG [2]).minx).toFinset npO.n, toVec (toProblem npO).n a'.x i * g i = 0) := by
  refine ⟨datumEq_obs, peO, peO', ?_⟩
  obtain ⟨a, ha⟩ := npG_answers [1] (Or.inl rfl) alg halg
  obtain ⟨a', ha'⟩ := npG_answers [2] (Or.inr rfl) alg' halg'
  have ha'' : netSolve alg' { npO with minx := (npG [2]).minx } = .ok a' := ha'
  have hg : InputGap alg (toProblem npO).A ((npO.m0 * npO.m0) • PcG [1]) (toProblem npO).S (1 / 8192) :=
    (InputGap.of_ne_svd halg).2 ⟨Props.C01.C01_gap_thresholds_default, npG_rankGap [1]⟩
  have hg' : InputGap alg' (toProblem npO).A ((npO.m0 * npO.m0) • PcG [1])
      ((Reg.subset (npG [2]).minx).toFinset npO.n) (1 / 8192) :=
    (InputGap.of_ne_svd halg').2 ⟨Props.C01.C01_gap_thresholds_default, npG_gap [1],
      fun g hg hne => (hne (npG_ker [1] g hg)).elim⟩
  exact ⟨a, a', ha, ha'', C08_pe_datum_gap realTrig alg alg' netWobs netWobs' datumEq_obs npO (npG [2]) uO uO' peO peO'
    (npG_m0 [1]) (PcG [1]) (npG_sigma_inv [1]) hg hg' a a' ha ha''⟩

/-- two DIFFERENT algorithms and two different lists -/
example : npO.minx = [1] ∧ (npG [2]).minx = [2] ∧
    ∃ a a', netSolve .chol npO = .ok a ∧ netSolve .env { npO with minx := (npG [2]).minx } = .ok a' ∧ a.pvv = a'.pvv := by
  obtain ⟨-, -, -, a, a', h, h', -, -, hp, -⟩ := C08_pe_datum_gap_pe_witness .chol .env (by decide) (by decide)
  exact ⟨rfl, rfl, a, a', h, h', hp⟩

end witness

end Gama.Props.C08ProjectEquations
