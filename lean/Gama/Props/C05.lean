/-
  C05 — Linearised observation equations equal the true Jacobian and misclosure.

  Every theorem is about the definitions in `Gama/Gen/Linearization.lean`, which the check
  regenerates from /repo/lib/gnu_gama/local/local_linearization.cpp and bearing.cpp on every
  run, instantiated at ℝ (`Gama/Lemmas/LinSpec.lean`: `sqrt := Real.sqrt`,
  `atan2 y x := Complex.arg (x + iy)`, `acos := Real.arccos`, `M_PI := π`).
  Vocabulary (`LinSpec.lean`): `IsPartial unit F o r c v` — `v` is the derivative at 0 of
  `t ↦ unit · F(o with unknown (r,c) corrected by t)`, coordinates corrected in mm, the
  orientation in cc; `IsPartialBearing/IsPartialAngle` — the same for *any* differentiable
  choice of polar angle starting at the code's bearing; `IsWrapOf a r` — `r ≡ a (mod 400 gon)`,
  `-200 gon < r ≤ 200 gon`; `freeAt` — the unknown is adjusted (free or constrained).

  Exclusions are the code's own: `bearing_distance` zeroes bearing and distance when
  `d < 1e-6` (hypothesis `¬ hdist o < CUT`), `s_distance` throws iff `sd = 0`, `z_angle`
  throws iff `d = 0 ∨ sd = 0`.  The `while` loops carry fuel; `*_terminates` shows that over
  ℝ enough fuel exists and `wrap_fuel_irrelevant` that the result does not depend on it.

  History: on the code as first pinned two statements failed and their negations were proved
  here with witnesses replayed on the C++ (F12: the angular right-hand side lay in the closed
  interval, both ends attained; F16: zenith readings above 200 gon had all six coefficients
  with the wrong sign).  Both were repaired in /repo (commits 60fa02b, aa064d3); the theorems
  below are the full statements about the repaired code, the former witnesses are regression
  inputs (corpus/C05/, `west_misclosure_maps_to_plus_half`, the 300-gon example).
-/
import Gama.Lemmas.LinReal
import Gama.Lemmas.LinJacobian
import Gama.Lemmas.LinCut
import Gama.Lemmas.LinPattern
import Gama.Lemmas.LinXNorth
import Gama.Lemmas.LinExamples
namespace Gama.Props.C05
open Gama Gama.Lin Real

/-! ## horizontal distance -/

theorem distance_coeff (fuel : Nat) (o : Obs ℝ) (out : LinOut ℝ) (h : ¬ hdist o < CUT)
    (hok : Gen.Lin.distance fuel o = .ok out) :
    ∀ p ∈ out.pushes, IsPartial MM hdist o p.1 p.2.1 p.2.2 := Lin.distance_coeff fuel o out h hok

theorem distance_rhs (fuel : Nat) (o : Obs ℝ) (out : LinOut ℝ) (h : ¬ hdist o < CUT)
    (hok : Gen.Lin.distance fuel o = .ok out) : out.rhs = MM * (o.value - hdist o) :=
  Lin.distance_rhs fuel o out h hok

theorem distance_only_free (fuel : Nat) (o : Obs ℝ) (out : LinOut ℝ) (h : ¬ hdist o < CUT)
    (hok : Gen.Lin.distance fuel o = .ok out) :
    targets out.pushes = [(.pfrom, .y), (.pfrom, .x), (.pto, .y), (.pto, .x)].filter (freeAt o) :=
  (Lin.distance_targets fuel o out h hok).1

theorem distance_total (fuel : Nat) (o : Obs ℝ) : ∃ out, Gen.Lin.distance fuel o = .ok out := by
  simp [Gen.Lin.distance]

/-! ## direction (with the orientation unknown) -/

theorem direction_coeff (fuel : Nat) (o : Obs ℝ) (out : LinOut ℝ) (h : ¬ hdist o < CUT)
    (hok : Gen.Lin.direction fuel o = .ok out) :
    ∀ p ∈ out.pushes, IsPartialBearing (fun o => (dX o, dY o)) (fun o => o.orientation) o p.1 p.2.1 p.2.2 :=
  Lin.direction_coeff fuel o out h hok

theorem direction_rhs (fuel : Nat) (o : Obs ℝ) (out : LinOut ℝ) (h : ¬ hdist o < CUT)
    (hok : Gen.Lin.direction fuel o = .ok out) :
    IsWrapOf ((o.value + o.orientation - brg (dX o) (dY o)) * R2CC) out.rhs :=
  (Lin.direction_ok fuel o out h hok).1

theorem direction_only_free (fuel : Nat) (o : Obs ℝ) (out : LinOut ℝ) (h : ¬ hdist o < CUT)
    (hok : Gen.Lin.direction fuel o = .ok out) :
    targets out.pushes =
      [(.station, .ori), (.pfrom, .y), (.pfrom, .x), (.pto, .y), (.pto, .x)].filter (freeAt o) :=
  (Lin.direction_targets fuel o out h hok).1

theorem direction_terminates (o : Obs ℝ) (h : ¬ hdist o < CUT) :
    ∃ fuel out, Gen.Lin.direction fuel o = .ok out := Lin.direction_terminates o h

/-- the code's bearing is a polar angle of the sight, in `[0, 2π)` -/
theorem bearing_is_polar_angle (x y : ℝ) : IsPolarAngle x y (brg x y) ∧ 0 ≤ brg x y ∧ brg x y < 2 * π :=
  ⟨isPolarAngle_brg x y, brg_nonneg x y, brg_lt_two_pi x y⟩

/-! ## azimuth -/

theorem azimuth_coeff (fuel : Nat) (o : Obs ℝ) (out : LinOut ℝ) (h : ¬ hdist o < CUT)
    (hok : Gen.Lin.azimuth fuel o = .ok out) :
    ∀ p ∈ out.pushes, IsPartialBearing (fun o => (dX o, dY o)) (fun o => o.xNorth) o p.1 p.2.1 p.2.2 :=
  Lin.azimuth_coeff fuel o out h hok

theorem azimuth_rhs (fuel : Nat) (o : Obs ℝ) (out : LinOut ℝ) (h : ¬ hdist o < CUT)
    (hok : Gen.Lin.azimuth fuel o = .ok out) :
    IsWrapOf ((o.value + o.xNorth - brg (dX o) (dY o)) * R2CC) out.rhs :=
  (Lin.azimuth_ok fuel o out h hok).1

theorem azimuth_only_free (fuel : Nat) (o : Obs ℝ) (out : LinOut ℝ) (h : ¬ hdist o < CUT)
    (hok : Gen.Lin.azimuth fuel o = .ok out) :
    targets out.pushes = [(.pfrom, .y), (.pfrom, .x), (.pto, .y), (.pto, .x)].filter (freeAt o) :=
  (Lin.azimuth_targets fuel o out h hok).1

theorem azimuth_terminates (o : Obs ℝ) (h : ¬ hdist o < CUT) :
    ∃ fuel out, Gen.Lin.azimuth fuel o = .ok out := Lin.azimuth_terminates o h

/-! ## angle (bs = `to`, fs) -/

theorem angle_coeff (fuel : Nat) (o : Obs ℝ) (out : LinOut ℝ) (h : ¬ hdist o < CUT) (h' : ¬ hdist2 o < CUT)
    (hok : Gen.Lin.angle fuel o = .ok out) :
    ∀ p ∈ out.pushes, IsPartialAngle o p.1 p.2.1 p.2.2 := Lin.angle_coeff fuel o out h h' hok

theorem angle_rhs (fuel : Nat) (o : Obs ℝ) (out : LinOut ℝ) (h : ¬ hdist o < CUT) (h' : ¬ hdist2 o < CUT)
    (hok : Gen.Lin.angle fuel o = .ok out) :
    IsWrapOf ((o.value - angleBsFs o) * R2CC) out.rhs := (Lin.angle_ok fuel o out h h' hok).1

theorem angle_only_free (fuel : Nat) (o : Obs ℝ) (out : LinOut ℝ) (h : ¬ hdist o < CUT) (h' : ¬ hdist2 o < CUT)
    (hok : Gen.Lin.angle fuel o = .ok out) :
    targets out.pushes =
      [(.pfrom, .y), (.pfrom, .x), (.pto, .y), (.pto, .x), (.pfs, .y), (.pfs, .x)].filter (freeAt o) :=
  (Lin.angle_targets fuel o out h h' hok).1

theorem angle_terminates (o : Obs ℝ) (h : ¬ hdist o < CUT) (h' : ¬ hdist2 o < CUT) :
    ∃ fuel out, Gen.Lin.angle fuel o = .ok out := Lin.angle_terminates o h h'

/-! ## slope distance -/

theorem s_distance_coeff (fuel : Nat) (o : Obs ℝ) (out : LinOut ℝ)
    (hok : Gen.Lin.s_distance fuel o = .ok out) :
    ∀ p ∈ out.pushes, IsPartial MM sdist o p.1 p.2.1 p.2.2 := Lin.s_distance_coeff fuel o out hok

theorem s_distance_rhs (fuel : Nat) (o : Obs ℝ) (out : LinOut ℝ)
    (hok : Gen.Lin.s_distance fuel o = .ok out) : out.rhs = MM * (o.value - sdist o) :=
  (Lin.s_distance_rhs fuel o out hok).2

theorem s_distance_only_free (fuel : Nat) (o : Obs ℝ) (out : LinOut ℝ)
    (hok : Gen.Lin.s_distance fuel o = .ok out) :
    targets out.pushes =
      [(.pfrom, .y), (.pfrom, .x), (.pfrom, .z), (.pto, .y), (.pto, .x), (.pto, .z)].filter (freeAt o) :=
  (Lin.s_distance_targets fuel o out hok).1

/-- the exclusion is exactly the code's: it throws iff the slope distance is zero -/
theorem s_distance_throws_iff (fuel : Nat) (o : Obs ℝ) :
    Gen.Lin.s_distance fuel o = .error .zeroSlopeDistance ↔ sdist o = 0 := by
  rw [Lin.s_distance_eq]; split <;> simp [*]

/-! ## zenith angle -/

/-- the coefficients are the partial derivatives of the value the right-hand side is formed
    with: the zenith angle `arccos(Δz/s)` for readings ≤ 200 gon, `2π − arccos(Δz/s)` for
    second-face readings -/
theorem z_angle_coeff (fuel : Nat) (o : Obs ℝ) (out : LinOut ℝ)
    (hok : Gen.Lin.z_angle fuel o = .ok out) :
    ∀ p ∈ out.pushes, IsPartial R2CC zenithComputed o p.1 p.2.1 p.2.2 := Lin.z_angle_coeff fuel o out hok

theorem z_angle_rhs (fuel : Nat) (o : Obs ℝ) (out : LinOut ℝ)
    (hok : Gen.Lin.z_angle fuel o = .ok out) : out.rhs = R2CC * (o.value - zenithComputed o) :=
  (Lin.z_angle_rhs fuel o out hok).2

theorem z_angle_only_free (fuel : Nat) (o : Obs ℝ) (out : LinOut ℝ)
    (hok : Gen.Lin.z_angle fuel o = .ok out) :
    targets out.pushes =
      [(.pfrom, .y), (.pfrom, .x), (.pfrom, .z), (.pto, .y), (.pto, .x), (.pto, .z)].filter (freeAt o) :=
  (Lin.z_angle_targets fuel o out hok).1

theorem z_angle_throws_iff (fuel : Nat) (o : Obs ℝ) :
    Gen.Lin.z_angle fuel o = .error .zeroZenithAngle ↔ (hdist o = 0 ∨ sdist o = 0) := by
  rw [Lin.z_angle_eq]; split <;> simp [*]

/-! ## height and coordinate differences, observed coordinates -/

theorem h_diff_correct (fuel : Nat) (o : Obs ℝ) :
    ∃ out, Gen.Lin.h_diff fuel o = .ok out ∧ out.rhs = MM * (o.value - dZ o) ∧
      targets out.pushes = [(.pfrom, .z), (.pto, .z)].filter (freeAt o) ∧
      ∀ p ∈ out.pushes, IsPartial MM dZ o p.1 p.2.1 p.2.2 := by
  refine ⟨_, Lin.h_diff_eq fuel o, by simp [MM]; ring, ?_, ?_⟩
  · cases hf : o.pfrom.free_z <;> cases ht : o.pto.free_z <;> simp [LinOut.pushes, pushes, targets, hf, ht, List.filter]
  · obtain ⟨h1, h2⟩ := Lin.dZ_partials o
    cases o.pfrom.free_z <;> cases o.pto.free_z <;> simp [LinOut.pushes, pushes, *]

theorem zdiff_correct (fuel : Nat) (o : Obs ℝ) :
    ∃ out, Gen.Lin.zdiff fuel o = .ok out ∧ out.rhs = MM * (o.value - dZ o) ∧
      targets out.pushes = [(.pfrom, .z), (.pto, .z)].filter (freeAt o) ∧
      ∀ p ∈ out.pushes, IsPartial MM dZ o p.1 p.2.1 p.2.2 := by
  refine ⟨_, Lin.zdiff_eq fuel o, by simp [MM]; ring, ?_, ?_⟩
  · cases hf : o.pfrom.free_z <;> cases ht : o.pto.free_z <;> simp [LinOut.pushes, pushes, targets, hf, ht, List.filter]
  · obtain ⟨h1, h2⟩ := Lin.dZ_partials o
    cases o.pfrom.free_z <;> cases o.pto.free_z <;> simp [LinOut.pushes, pushes, *]

theorem xdiff_correct (fuel : Nat) (o : Obs ℝ) :
    ∃ out, Gen.Lin.xdiff fuel o = .ok out ∧ out.rhs = MM * (o.value - dX o) ∧
      targets out.pushes = [(.pfrom, .x), (.pto, .x)].filter (freeAt o) ∧
      ∀ p ∈ out.pushes, IsPartial MM dX o p.1 p.2.1 p.2.2 := by
  refine ⟨_, Lin.xdiff_eq fuel o, by simp [MM]; ring, ?_, ?_⟩
  · cases hf : o.pfrom.free_xy <;> cases ht : o.pto.free_xy <;> simp [LinOut.pushes, pushes, targets, hf, ht, List.filter]
  · obtain ⟨h1, h2⟩ := Lin.dX_partials o
    cases o.pfrom.free_xy <;> cases o.pto.free_xy <;> simp [LinOut.pushes, pushes, *]

theorem ydiff_correct (fuel : Nat) (o : Obs ℝ) :
    ∃ out, Gen.Lin.ydiff fuel o = .ok out ∧ out.rhs = MM * (o.value - dY o) ∧
      targets out.pushes = [(.pfrom, .y), (.pto, .y)].filter (freeAt o) ∧
      ∀ p ∈ out.pushes, IsPartial MM dY o p.1 p.2.1 p.2.2 := by
  refine ⟨_, Lin.ydiff_eq fuel o, by simp [MM]; ring, ?_, ?_⟩
  · cases hf : o.pfrom.free_xy <;> cases ht : o.pto.free_xy <;> simp [LinOut.pushes, pushes, targets, hf, ht, List.filter]
  · obtain ⟨h1, h2⟩ := Lin.dY_partials o
    cases o.pfrom.free_xy <;> cases o.pto.free_xy <;> simp [LinOut.pushes, pushes, *]

theorem x_correct (fuel : Nat) (o : Obs ℝ) :
    ∃ out, Gen.Lin.x fuel o = .ok out ∧ out.rhs = MM * (o.value - fromX o) ∧
      targets out.pushes = [(.pfrom, .x)].filter (freeAt o) ∧
      ∀ p ∈ out.pushes, IsPartial MM fromX o p.1 p.2.1 p.2.2 := by
  refine ⟨_, Lin.x_eq fuel o, by simp [MM]; ring, ?_, ?_⟩
  · cases hf : o.pfrom.free_xy <;> simp [LinOut.pushes, pushes, targets, hf, List.filter]
  · have h1 := Lin.fromX_partial o
    cases o.pfrom.free_xy <;> simp [LinOut.pushes, pushes, *]

theorem y_correct (fuel : Nat) (o : Obs ℝ) :
    ∃ out, Gen.Lin.y fuel o = .ok out ∧ out.rhs = MM * (o.value - fromY o) ∧
      targets out.pushes = [(.pfrom, .y)].filter (freeAt o) ∧
      ∀ p ∈ out.pushes, IsPartial MM fromY o p.1 p.2.1 p.2.2 := by
  refine ⟨_, Lin.y_eq fuel o, by simp [MM]; ring, ?_, ?_⟩
  · cases hf : o.pfrom.free_xy <;> simp [LinOut.pushes, pushes, targets, hf, List.filter]
  · have h1 := Lin.fromY_partial o
    cases o.pfrom.free_xy <;> simp [LinOut.pushes, pushes, *]

theorem z_correct (fuel : Nat) (o : Obs ℝ) :
    ∃ out, Gen.Lin.z fuel o = .ok out ∧ out.rhs = MM * (o.value - fromZ o) ∧
      targets out.pushes = [(.pfrom, .z)].filter (freeAt o) ∧
      ∀ p ∈ out.pushes, IsPartial MM fromZ o p.1 p.2.1 p.2.2 := by
  refine ⟨_, Lin.z_eq fuel o, by simp [MM]; ring, ?_, ?_⟩
  · cases hf : o.pfrom.free_z <;> simp [LinOut.pushes, pushes, targets, hf, List.filter]
  · have h1 := Lin.fromZ_partial o
    cases o.pfrom.free_z <;> simp [LinOut.pushes, pushes, *]

/-! ## the wrap loops -/

/-- what `while (a > 200e4) a -= 400e4; while (a <= -200e4) a += 400e4;` returns, for any
    decision procedures implementing the two comparisons: congruent mod 400 gon and in the
    half-open range `(-200 gon, 200 gon]` -/
theorem wrap_half_open (c1 c2 : ℝ → Bool) (hc1 : ∀ v, c1 v = true ↔ HALF < v)
    (hc2 : ∀ v, c2 v = true ↔ v ≤ -HALF) (fuel : Nat) (a r1 r : ℝ)
    (h1 : whileLoop c1 (fun v => v - FULL) fuel a = some r1)
    (h2 : whileLoop c2 (fun v => v + FULL) fuel r1 = some r) : IsWrapOf a r :=
  Lin.wrap_spec c1 c2 hc1 hc2 fuel a r1 r h1 h2

/-- the range is half-open: an angular right-hand side is never −200 gon … -/
theorem rhs_never_minus_half (fuel : Nat) (o : Obs ℝ) (out : LinOut ℝ) (h : ¬ hdist o < CUT) (h' : ¬ hdist2 o < CUT) :
    (Gen.Lin.direction fuel o = .ok out → out.rhs ≠ -HALF) ∧
    (Gen.Lin.azimuth fuel o = .ok out → out.rhs ≠ -HALF) ∧
    (Gen.Lin.angle fuel o = .ok out → out.rhs ≠ -HALF) :=
  ⟨fun hk => ne_of_gt (Lin.direction_ok fuel o out h hk).1.2.1,
   fun hk => ne_of_gt (Lin.azimuth_ok fuel o out h hk).1.2.1,
   fun hk => ne_of_gt (Lin.angle_ok fuel o out h h' hk).1.2.1⟩

/-- … the closed end +200 gon is attained (target due +x read as 200 gon) … -/
theorem rhs_attains_plus_half :
    ∃ o out, ¬ hdist o < CUT ∧ Gen.Lin.direction 0 o = .ok out ∧ out.rhs = HALF :=
  ⟨Lin.eastWitness, Lin.rhs_attains_plus_half⟩

/-- … and the former F12 witness (target due −x read as 0: misclosure exactly −200 gon) is
    now returned as +200 gon -/
theorem west_misclosure_maps_to_plus_half :
    ∃ out, ¬ hdist Lin.westWitness < CUT ∧ Gen.Lin.direction 1 Lin.westWitness = .ok out ∧ out.rhs = HALF :=
  Lin.west_rhs_is_plus_half

theorem wrap_fuel_irrelevant (c : ℝ → Bool) (f : ℝ → ℝ) (n m : Nat) (a r r' : ℝ)
    (hn : whileLoop c f n a = some r) (hm : whileLoop c f m a = some r') : r = r' :=
  Lin.whileLoop_fuel_irrelevant c f n m a r r' hn hm

/-! ## index assignment (`maxn`, index on first use) and array bounds -/

/-- every generated event list touches an unknown before pushing a coefficient for it -/
theorem pushes_follow_touches (fuel : Nat) (o : Obs ℝ) (out : LinOut ℝ) (h : ¬ hdist o < CUT) (h' : ¬ hdist2 o < CUT) :
    (Gen.Lin.direction fuel o = .ok out → wellTouched out.evs [] = true) ∧
    (Gen.Lin.distance fuel o = .ok out → wellTouched out.evs [] = true) ∧
    (Gen.Lin.angle fuel o = .ok out → wellTouched out.evs [] = true) ∧
    (Gen.Lin.azimuth fuel o = .ok out → wellTouched out.evs [] = true) ∧
    (Gen.Lin.s_distance fuel o = .ok out → wellTouched out.evs [] = true) ∧
    (Gen.Lin.z_angle fuel o = .ok out → wellTouched out.evs [] = true) :=
  ⟨fun hk => (Lin.direction_targets fuel o out h hk).2, fun hk => (Lin.distance_targets fuel o out h hk).2,
   fun hk => (Lin.angle_targets fuel o out h h' hk).2, fun hk => (Lin.azimuth_targets fuel o out h hk).2,
   fun hk => (Lin.s_distance_targets fuel o out hk).2, fun hk => (Lin.z_angle_targets fuel o out hk).2⟩

/-- the index state keeps its invariant (indices handed out are exactly `1..maxn`, one per
    unknown), `maxn` never decreases and an index once assigned never changes (first use wins) -/
theorem index_fresh {K : Type} (name : Role → Coord → Unk) (evs : List (Ev K)) (s : IdxState) (h : s.WF) :
    (runEvs name evs s).1.WF ∧ s.maxn ≤ (runEvs name evs s).1.maxn ∧
      ∀ v, s.get v ≠ 0 → (runEvs name evs s).1.get v = s.get v := Lin.runEvs_wf name evs s h

theorem index_wf_init : IdxState.init.WF := IdxState.wf_init

/-- every `(index, coeff)` row of an observation whose pushes follow touches has its index in
    `1..maxn`, i.e. inside the design matrix of `unknowns()` columns -/
theorem index_in_range {K : Type} (name : Role → Coord → Unk) (evs : List (Ev K)) (s : IdxState) (h : s.WF)
    (hw : wellTouched evs [] = true) :
    ∀ row ∈ (runEvs name evs s).2, 1 ≤ row.1 ∧ row.1 ≤ (runEvs name evs s).1.maxn :=
  Lin.runEvs_rows_in_range name evs s [] h (by simp) hw

/-- at most `max_size = 6` coefficients are pushed: `coeff[6]` / `index[6]` are never overrun -/
theorem size_le_max (fuel : Nat) (o : Obs ℝ) (out : LinOut ℝ) (h : ¬ hdist o < CUT) (h' : ¬ hdist2 o < CUT) :
    (Gen.Lin.direction fuel o = .ok out → out.pushes.length ≤ Gen.Lin.coeffCap) ∧
    (Gen.Lin.angle fuel o = .ok out → out.pushes.length ≤ Gen.Lin.coeffCap) ∧
    (Gen.Lin.s_distance fuel o = .ok out → out.pushes.length ≤ Gen.Lin.coeffCap) ∧
    (Gen.Lin.z_angle fuel o = .ok out → out.pushes.length ≤ Gen.Lin.coeffCap) ∧
    Gen.Lin.coeffCap = Gen.Lin.indexCap ∧ Gen.Lin.maxSize = Gen.Lin.coeffCap := by
  refine ⟨fun hk => ?_, fun hk => ?_, fun hk => ?_, fun hk => ?_, rfl, rfl⟩
  · have := congrArg List.length (Lin.direction_targets fuel o out h hk).1
    simp only [targets, List.length_map] at this
    rw [this]; exact le_trans (List.length_filter_le _ _) (by decide)
  · have := congrArg List.length (Lin.angle_targets fuel o out h h' hk).1
    simp only [targets, List.length_map] at this
    rw [this]; exact le_trans (List.length_filter_le _ _) (by decide)
  · have := congrArg List.length (Lin.s_distance_targets fuel o out hk).1
    simp only [targets, List.length_map] at this
    rw [this]; exact le_trans (List.length_filter_le _ _) (by decide)
  · have := congrArg List.length (Lin.z_angle_targets fuel o out hk).1
    simp only [targets, List.length_map] at this
    rw [this]; exact le_trans (List.length_filter_le _ _) (by decide)

/-! ## a new pass of `LocalNetwork::project_equations` (index reset) -/

/-- the reset guard as coded (`network.cpp`, regenerated) covers every adjusted coordinate group:
    a point that is free or constrained in xy or in z gets its cached indexes zeroed -/
theorem reset_guard_covers_adjusted {K : Type} (p : Pt K) :
    (p.free_xy = true → Gen.Lin.resetGuard p = true) ∧ (p.free_z = true → Gen.Lin.resetGuard p = true) :=
  Lin.resetGuard_of_free p

/-- after the prologue: counter 0, every orientation and every unknown of a guarded point has
    index 0 (points failing the guard keep stale indexes — they must never be touched) -/
theorem reset_clean (guard : Nat → Bool) (s : IdxState) :
    (s.resetPass guard).maxn = 0 ∧
    (∀ u : Unk, u.c = .ori → (s.resetPass guard).get u = 0) ∧
    (∀ u : Unk, guard u.id = true → (s.resetPass guard).get u = 0) := IdxState.resetPass_clean guard s

/-- history independence: whatever earlier passes left in the points, a pass whose observations
    mention only orientations and unknowns of guarded points (by `reset_guard_covers_adjusted`:
    all adjusted coordinates) produces the rows and the number of unknowns of a pass on a
    brand-new state, for which `index_fresh`, `index_in_range` hold -/
theorem pass_fresh {K : Type} (name : Role → Coord → Unk) (guard : Nat → Bool) (s : IdxState) (evs : List (Ev K))
    (hC : ∀ e ∈ evs, (evTarget name e).c = .ori ∨ guard (evTarget name e).id = true) :
    (runEvs name evs (s.resetPass guard)).2 = (runEvs name evs IdxState.init).2 ∧
    (runEvs name evs (s.resetPass guard)).1.maxn = (runEvs name evs IdxState.init).1.maxn :=
  Lin.pass_fresh name guard s evs hC

/-! ## roles naming one and the same point (repeated column indices are summed) -/

/-- angle with both targets adjusted: the sum of the coefficients pushed for backsight and
    foresight is the derivative of the angle when both targets move together -/
theorem angle_joint (fuel : Nat) (o : Obs ℝ) (out : LinOut ℝ) (h : ¬ hdist o < CUT) (h' : ¬ hdist2 o < CUT)
    (ht : o.pto.free_xy = true) (hs : o.pfs.free_xy = true)
    (hok : Gen.Lin.angle fuel o = .ok out) (c : Coord) :
    IsPartialAngleSet o [.pto, .pfs] c (coeffSum out.pushes [.pto, .pfs] c) :=
  Lin.angle_joint fuel o out h h' ht hs hok c

/-- angle with bs = fs: the column of the common target receives coefficients that cancel — the
    derivative of the constant angle -/
theorem angle_bs_eq_fs (fuel : Nat) (o : Obs ℝ) (out : LinOut ℝ) (hal : o.pto = o.pfs)
    (h : ¬ hdist o < CUT) (hok : Gen.Lin.angle fuel o = .ok out) (c : Coord) :
    coeffSum out.pushes [.pto, .pfs] c = 0 := Lin.angle_bs_eq_fs_sum_zero fuel o out hal h hok c

/-- an observed difference from a point to itself: −1 and +1 meet in one column; 0 is the
    derivative of the (constant) difference when the point moves -/
theorem diffs_from_eq_to (fuel : Nat) (o : Obs ℝ) (c : Coord) :
    (∃ out, Gen.Lin.h_diff fuel o = .ok out ∧ (o.pfrom.free_z = o.pto.free_z → coeffSum out.pushes [.pfrom, .pto] c = 0)) ∧
    (∃ out, Gen.Lin.zdiff fuel o = .ok out ∧ (o.pfrom.free_z = o.pto.free_z → coeffSum out.pushes [.pfrom, .pto] c = 0)) ∧
    (∃ out, Gen.Lin.xdiff fuel o = .ok out ∧ (o.pfrom.free_xy = o.pto.free_xy → coeffSum out.pushes [.pfrom, .pto] c = 0)) ∧
    (∃ out, Gen.Lin.ydiff fuel o = .ok out ∧ (o.pfrom.free_xy = o.pto.free_xy → coeffSum out.pushes [.pfrom, .pto] c = 0)) ∧
    IsPartialSet MM dZ o [.pfrom, .pto] c 0 ∧ IsPartialSet MM dX o [.pfrom, .pto] c 0 ∧
    IsPartialSet MM dY o [.pfrom, .pto] c 0 := by
  refine ⟨⟨_, Lin.h_diff_eq fuel o, ?_⟩, ⟨_, Lin.zdiff_eq fuel o, ?_⟩, ⟨_, Lin.xdiff_eq fuel o, ?_⟩,
    ⟨_, Lin.ydiff_eq fuel o, ?_⟩, Lin.const_partialSet dZ o _ c (Lin.dZ_bumpFT o c),
    Lin.const_partialSet dX o _ c (Lin.dX_bumpFT o c), Lin.const_partialSet dY o _ c (Lin.dY_bumpFT o c)⟩
  · intro he; cases hf : o.pfrom.free_z <;> rw [hf] at he <;> cases c <;> simp [LinOut.pushes, pushes, coeffSum, hf, ← he]
  · intro he; cases hf : o.pfrom.free_z <;> rw [hf] at he <;> cases c <;> simp [LinOut.pushes, pushes, coeffSum, hf, ← he]
  · intro he; cases hf : o.pfrom.free_xy <;> rw [hf] at he <;> cases c <;> simp [LinOut.pushes, pushes, coeffSum, hf, ← he]
  · intro he; cases hf : o.pfrom.free_xy <;> rw [hf] at he <;> cases c <;> simp [LinOut.pushes, pushes, coeffSum, hf, ← he]

/-! ## round 3: the assembled design matrix of a whole pass (`Model/LinPass.lean`)

  `passFrom σ fuel obs s` is the linearisation loop of `LocalNetwork::project_equations()` over the
  list of revised observations from the index state `s`: rows exactly as pushed
  (`add_element(coeff[i], index[i])`), right-hand sides, final index state.  `codeMatrix rows r j`
  is the value a consumer of the sparse row `r` sees in column `j` (repeated column indices add up).
  `Net.bumpU σ u t` moves ONE unknown of the network — every role of a row that names the point
  moves with it.  `RowDeriv k σ ob u v`: `v` is the derivative of the observation function of a row
  of class `k` wrt `u` (mm / cc; `IsPartial…` of the first part lifted to the network). -/

/-- **the design matrix is the Jacobian.**  For every row whose own exclusion (`d < 1e-6` of
    `bearing_distance`) does not apply, from any well-formed index state: the entry in the column of
    any adjusted unknown `u` — everything the row pushed onto that column, whichever of its roles name
    `u`; the proof makes no case distinction on which roles coincide (bs = fs of an angle, from = to of
    a height / coordinate difference occur; from = to and from = bs of the bearing types put the sight
    inside the cut, `C05_below_cut_*`, and s_distance / z_angle throw there) — is the derivative of the
    row's observation function wrt `u`; the entry in the column of an unknown none of its roles names
    is 0.  All 13 classes. -/
theorem C05_design_matrix_is_jacobian (σ : Net ℝ) (fuel : Nat) (obs : List (NObs ℝ)) (s0 : IdxState) (hs0 : s0.WF)
    (res : PassOut ℝ) (hp : passFrom σ fuel obs s0 = .ok res) (r : Nat) (ob : NObs ℝ) (hr : obs[r]? = some ob)
    (hreg : Regular ob.kind (σ.view ob)) :
    (∀ u, σ.isFree u = true → RowDeriv ob.kind σ ob u (codeMatrix res.rows r (res.idx.get u))) ∧
    (∀ u, (∀ rc ∈ ob.kind.roles, ob.name rc.1 rc.2 ≠ u) → codeMatrix res.rows r (res.idx.get u) = 0) :=
  Lin.design_matrix_is_jacobian σ fuel obs s0 hs0 res hp r ob hr hreg

/-- the right-hand side stored for row `r` is the one the member function returned (so the
    `*_rhs` theorems above are statements about `b(r)`) -/
theorem C05_design_matrix_rhs (σ : Net ℝ) (fuel : Nat) (obs : List (NObs ℝ)) (s0 : IdxState) (hs0 : s0.WF)
    (res : PassOut ℝ) (hp : passFrom σ fuel obs s0 = .ok res) (r : Nat) (ob : NObs ℝ) (hr : obs[r]? = some ob) :
    ∃ out, ob.kind.lin fuel (σ.view ob) = .ok out ∧ res.rhs[r]? = some out.rhs ∧
      res.rows.length = obs.length ∧ res.rhs.length = obs.length := by
  obtain ⟨out, h1, h2, _⟩ := Lin.passFrom_rows σ fuel obs s0 res hs0 hp r ob hr
  obtain ⟨_, _, _, h3, h4⟩ := Lin.passFrom_wf σ fuel obs s0 res hs0 hp
  exact ⟨out, h1, h2, h3, h4⟩

/-- the number of columns (`loclin.unknowns()`) of a pass from the cleared state is the number of
    DISTINCT adjusted unknowns the rows refer to -/
theorem C05_design_matrix_columns (σ : Net ℝ) (fuel : Nat) (obs : List (NObs ℝ)) (res : PassOut ℝ)
    (hp : passFrom σ fuel obs IdxState.init = .ok res) (hreg : ∀ ob ∈ obs, Regular ob.kind (σ.view ob)) :
    res.idx.maxn = (obs.flatMap (involved σ)).dedup.length := Lin.design_matrix_columns σ fuel obs res hp hreg

/-- the real pass starts from what earlier passes left in the points, after the prologue of
    `project_equations` with the guard as coded: rows, right-hand sides, number of unknowns and the
    index of every adjusted unknown are those of the pass from the cleared state -/
theorem C05_design_matrix_after_prologue (σ : Net ℝ) (fuel : Nat) (obs : List (NObs ℝ)) (s : IdxState) (a : PassOut ℝ)
    (hreg : ∀ ob ∈ obs, Regular ob.kind (σ.view ob))
    (hp : passFrom σ fuel obs (s.resetPass (fun i => Gen.Lin.resetGuard (σ.pt i))) = .ok a) :
    ∃ b, passFrom σ fuel obs IdxState.init = .ok b ∧ a.rows = b.rows ∧ a.rhs = b.rhs ∧
      a.idx.maxn = b.idx.maxn ∧ ∀ u, σ.isFree u = true → a.idx.get u = b.idx.get u :=
  Lin.pass_after_prologue σ fuel obs s a hreg hp

/-- `Kind.lin` is the dispatch of the generated `visit` table -/
theorem C05_kind_is_visit : ∀ k : Kind, Gen.Lin.visit (K := ℝ) k.className = some k.lin := by
  intro k; cases k <;> rfl

/-! ### the dense matrix `A` (gso, svd, cholesky) -/

/-- network.cpp copies the sparse rows into the dense matrix with `+=` (regenerated flag; the code
    as first pinned had `=`, see `C05_dense_overwrite_loses_coefficients`; fixed in /repo 52e994b) -/
theorem C05_dense_assembly_accumulates : Gen.Lin.denseAccumulates = true := rfl

/-- hence the dense matrix holds, entry by entry, what the consumers of the sparse rows see: the
    Jacobian of `C05_design_matrix_is_jacobian`, for all four algorithms -/
theorem C05_dense_matrix_is_sparse_sum (rows : List (List (Nat × ℝ))) (r j : Nat) :
    denseMatrix rows r j = codeMatrix rows r j := by
  unfold denseMatrix codeMatrix
  rw [C05_dense_assembly_accumulates, Lin.denseRow_acc]; simp

/-- with `=` instead: the entry is right exactly as long as the row names no unknown twice … -/
theorem C05_dense_overwrite_ok_without_repeats (row : List (Nat × ℝ)) (j : Nat) (hn : (row.map (·.1)).Nodup) :
    denseRow false row j 0 = rowSum row j := by
  rw [Lin.denseRow_overwrite_nodup row j hn]
  split
  · rfl
  · rename_i h
    clear hn
    induction row with
    | nil => rfl
    | cons e t ih =>
      obtain ⟨i, v⟩ := e
      simp only [List.map_cons, List.mem_cons, not_or] at h
      rw [Lin.rowSum_cons, ← ih h.2]; simp [Ne.symm h.1]

/-- … and wrong as soon as it does: the row of a height difference from a point to itself (−1 and
    +1 on one column) would leave +1 where the derivative is 0 (former defect, replayed on the C++:
    corpus/C05/net-dh-self-dense.gkf) -/
theorem C05_dense_overwrite_loses_coefficients :
    denseRow false [((1 : Nat), (-1 : ℝ)), (1, 1)] 1 0 = 1 ∧ rowSum [((1 : Nat), (-1 : ℝ)), (1, 1)] 1 = 0 := by
  constructor
  · simp [denseRow]
  · simp [Lin.rowSum_cons, Lin.rowSum_nil]

/-! ## round 3: `PointData::xNorthAngle()` (regenerated, `Gen/XNorth.lean`) -/

/-- the table meets its specification in all 8 axes orientations × 2 angle senses: it is the
    direction of north seen from the +x axis in the sense in force (clockwise for left-handed
    angles), i.e. minus the bearing of the +x axis from north, reduced to [0, 400) gon -/
theorem C05_xnorth_spec : ∀ (cs : CS) (rh : Bool), Gen.XNorth.xNorthGon cs rh = (xNorthSpec cs rh : Int) :=
  Lin.xnorth_spec

/-- after the mirroring of y for inconsistent axes/angles (`consistent`, regenerated) the +y axis is
    the +x axis turned by +100 gon in the sense in force, and lcoords.h classifies the 8 codes correctly -/
theorem C05_internal_axes_turn_in_sense :
    (∀ (cs : CS) (rh : Bool), senseGon rh (internalY cs rh).az = (senseGon rh cs.xDir.az + 100) % 400) ∧
    (∀ cs : CS, (Gen.XNorth.leftHandedCoordinates cs = true ↔ cs.yDir.az = (cs.xDir.az + 100) % 400) ∧
      (Gen.XNorth.rightHandedCoordinates cs = true ↔ cs.xDir.az = (cs.yDir.az + 100) % 400)) :=
  ⟨Lin.internal_axes_turn_in_sense, Lin.handedness_spec⟩

/-- **azimuth in geographic terms**, every axes / sense combination: with `(dE, dN)` the true ground
    displacement from → to, `α` its azimuth clockwise from north, and `o` holding gama's internal
    coordinates (y mirrored when axes and angles are inconsistent), the right-hand side is
    observed − (azimuth of the line in the sense in force), reduced to (−200 gon, 200 gon] -/
theorem C05_azimuth_rhs_geographic (cs : CS) (rh : Bool) (dE dN α : ℝ) (fuel : Nat) (o : Obs ℝ) (out : LinOut ℝ)
    (hx : dX o = comp cs.xDir dE dN) (hy : dY o = ySign cs rh * comp cs.yDir dE dN)
    (hN : o.xNorth = Gen.XNorth.xNorthAngle cs rh) (hα : IsPolarAngle dN dE α)
    (h : ¬ hdist o < CUT) (hok : Gen.Lin.azimuth fuel o = .ok out) :
    IsWrapOf ((o.value - (if rh then -α else α)) * R2CC) out.rhs :=
  Lin.azimuth_rhs_geographic cs rh dE dN α fuel o out hx hy hN hα h hok

/-! ## round 3: inside the cut of `bearing_distance` (`hdist o < CUT`)

  `KF 0 = 2000/π/0` is the factor `10*R2G/d` with the reported distance 0; it is kept unevaluated
  (ℝ: 0 by Lean's `x/0 = 0`; `double`: `+inf`, so the coefficients are `±inf` / `NaN` there). -/

/-- a distance shorter than the cut is total and returns the fixed finite row: 0 on both `y`,
    −1 / +1 on `x` of the adjusted end points, right-hand side = the whole observed value -/
theorem C05_below_cut_distance (fuel : Nat) (o : Obs ℝ) (h : hdist o < CUT) :
    Gen.Lin.distance fuel o = .ok ⟨o.value * 1000,
      xyBlock o.pfrom.free_xy .pfrom 0 (-1) ++ xyBlock o.pto.free_xy .pto 0 1⟩ := Lin.distance_cut fuel o h

/-- direction inside the cut: the bearing is taken as 0 (right-hand side = wrapped observed value +
    orientation), the orientation gets −1, the end points get `KF 0`-multiples of (cos 0, sin 0) -/
theorem C05_below_cut_direction (fuel : Nat) (o : Obs ℝ) (out : LinOut ℝ) (h : hdist o < CUT)
    (hok : Gen.Lin.direction fuel o = .ok out) :
    IsWrapOf ((o.value + o.orientation) * R2CC) out.rhs ∧
    out.evs = [Ev.touch .station .ori] ++ [Ev.push .station .ori (-1)] ++
      xyBlock o.pfrom.free_xy .pfrom (-(KF 0 * 1)) (KF 0 * 0) ++ xyBlock o.pto.free_xy .pto (KF 0 * 1) (-(KF 0 * 0)) :=
  Lin.direction_cut fuel o out h hok

theorem C05_below_cut_azimuth (fuel : Nat) (o : Obs ℝ) (out : LinOut ℝ) (h : hdist o < CUT)
    (hok : Gen.Lin.azimuth fuel o = .ok out) :
    IsWrapOf ((o.value + o.xNorth) * R2CC) out.rhs ∧
    out.evs = xyBlock o.pfrom.free_xy .pfrom (-(KF 0 * 1)) (KF 0 * 0) ++ xyBlock o.pto.free_xy .pto (KF 0 * 1) (-(KF 0 * 0)) :=
  Lin.azimuth_cut fuel o out h hok

/-- angle, ANY regime (either sight inside or outside the cut): right-hand side and pushes in terms
    of the bearings / distances as `bearing_distance` reports them (`bC, dC` for the backsight,
    `bC2, dC2` for the foresight: 0 inside the cut) -/
theorem C05_angle_any_regime (fuel : Nat) (o : Obs ℝ) (out : LinOut ℝ) (hok : Gen.Lin.angle fuel o = .ok out) :
    IsWrapOf ((o.value - angleC o) * R2CC) out.rhs ∧
    out.evs =
      xyBlock o.pfrom.free_xy .pfrom (-(KF (dC2 o) * Real.cos (bC2 o)) + KF (dC o) * Real.cos (bC o))
        (KF (dC2 o) * Real.sin (bC2 o) - KF (dC o) * Real.sin (bC o)) ++
      xyBlock o.pto.free_xy .pto (-(KF (dC o) * Real.cos (bC o))) (KF (dC o) * Real.sin (bC o)) ++
      xyBlock o.pfs.free_xy .pfs (KF (dC2 o) * Real.cos (bC2 o)) (-(KF (dC2 o) * Real.sin (bC2 o))) :=
  Lin.angle_form fuel o out hok

/-- angle whose backsight is inside the cut (e.g. from = bs): the observed angle is compared with
    the bare foresight bearing -/
theorem C05_below_cut_angle_backsight (fuel : Nat) (o : Obs ℝ) (out : LinOut ℝ) (h : hdist o < CUT)
    (hok : Gen.Lin.angle fuel o = .ok out) :
    IsWrapOf ((o.value - bC2 o) * R2CC) out.rhs ∧
    out.evs =
      xyBlock o.pfrom.free_xy .pfrom (-(KF (dC2 o) * Real.cos (bC2 o)) + KF 0 * 1) (KF (dC2 o) * Real.sin (bC2 o) - KF 0 * 0) ++
      xyBlock o.pto.free_xy .pto (-(KF 0 * 1)) (KF 0 * 0) ++
      xyBlock o.pfs.free_xy .pfs (KF (dC2 o) * Real.cos (bC2 o)) (-(KF (dC2 o) * Real.sin (bC2 o))) :=
  Lin.angle_cut_bs fuel o out h hok

/-- in every regime the unknowns that receive a coefficient are the adjusted ones among the roles of
    the class, in program order, and the unknowns touched likewise — the cut changes coefficient
    VALUES only, never the sparsity pattern or the numbering (generalises the `*_only_free`
    theorems above: no `¬ hdist o < CUT`) -/
theorem C05_cut_keeps_pattern (k : Kind) (fuel : Nat) (o : Obs ℝ) (out : LinOut ℝ) (hok : k.lin fuel o = .ok out) :
    targets out.pushes = k.roles.filter (freeAt o) ∧ touches out.evs = k.touchList.filter (freeAt o) :=
  ⟨Lin.pushes_of_ok k fuel o out hok, Lin.touches_of_ok k fuel o out hok⟩

/-! ## non-vacuity -/

/-- a concrete sight (3-4-5 triangle, both points free) meets the hypotheses of the
    distance / direction / azimuth theorems and produces all coefficients -/
example : ∃ o : Obs ℝ, ¬ hdist o < CUT ∧ (∃ out, Gen.Lin.distance 0 o = .ok out ∧ out.pushes.length = 4) ∧
    (∃ fuel out, Gen.Lin.direction fuel o = .ok out ∧ out.pushes.length = 5) := by
  have hc : ¬ hdist Lin.face2Witness < CUT := by rw [Lin.face2Witness_hdist]; unfold CUT; norm_num
  refine ⟨Lin.face2Witness, hc, ⟨_, Lin.distance_eq 0 _ hc, ?_⟩, ?_⟩
  · simp [LinOut.pushes, pushes, Lin.face2Witness, Pt.free_xy, Status.isFree]
  · obtain ⟨fuel, out, hk⟩ := Lin.direction_terminates _ hc
    refine ⟨fuel, out, hk, ?_⟩
    have := congrArg List.length (Lin.direction_targets fuel _ out hc hk).1
    simpa [targets, List.filter, Lin.face2Witness, Pt.free_xy, Status.isFree] using this

/-- the zenith theorems' hypothesis (`z_angle` returns) is met with six coefficients -/
example : ∃ out, Gen.Lin.z_angle 0 Lin.face2Witness = .ok out ∧ out.pushes.length = 6 := by
  have hh : ¬ (hdist Lin.face2Witness = 0 ∨ sdist Lin.face2Witness = 0) := by
    rw [Lin.face2Witness_hdist, Lin.face2Witness_sdist]; norm_num
  have hok := Lin.z_angle_eq 0 Lin.face2Witness
  rw [if_neg hh] at hok
  exact ⟨_, hok, by simp [LinOut.pushes, Lin.zangleEvs, pushes, Lin.face2Witness, Pt.free_xy, Pt.free_z, Status.isFree]⟩

/-- former F16 witness (horizontal 5 m sight read as 300 gon): the hypothesis `π < value` of the
    second-face branch is met and the function returns -/
example : π < Lin.face2Witness.value ∧ ∃ out, Gen.Lin.z_angle 0 Lin.face2Witness = .ok out := by
  have hh : ¬ (hdist Lin.face2Witness = 0 ∨ sdist Lin.face2Witness = 0) := by
    rw [Lin.face2Witness_hdist, Lin.face2Witness_sdist]; norm_num
  have hok := Lin.z_angle_eq 0 Lin.face2Witness
  rw [if_neg hh] at hok
  exact ⟨by simp only [Lin.face2Witness]; linarith [Real.pi_pos], _, hok⟩

/-- an index state after two allocations satisfies the invariant and is non-trivial -/
example : ((IdxState.init.touch ⟨0, .x⟩).touch ⟨0, .y⟩).WF ∧ ((IdxState.init.touch ⟨0, .x⟩).touch ⟨0, .y⟩).maxn = 2 :=
  ⟨IdxState.touch_wf (IdxState.touch_wf IdxState.wf_init _) _, by decide⟩

/-- an angle with bs = fs over a 5 m sight meets the hypotheses of `angle_bs_eq_fs` and returns -/
example : ∃ o : Obs ℝ, o.pto = o.pfs ∧ ¬ hdist o < CUT ∧ ∃ fuel out, Gen.Lin.angle fuel o = .ok out := by
  let o : Obs ℝ := { Lin.face2Witness with pfs := Lin.face2Witness.pto, value := 0 }
  have hd : hdist o = 5 := Lin.face2Witness_hdist
  have hc : ¬ hdist o < CUT := by rw [hd]; unfold CUT; norm_num
  have hc2 : ¬ hdist2 o < CUT := by
    have : hdist2 o = hdist o := by simp [hdist, hdist2, dX, dY, dX2, dY2, o]
    rw [this]; exact hc
  exact ⟨o, rfl, hc, Lin.angle_terminates o hc hc2⟩

/-- a state with a stale height index: the prologue with the coded guard clears it -/
example : ((IdxState.init.touch ⟨7, .z⟩).resetPass (fun _ => true)).get ⟨7, .z⟩ = 0 ∧
    (IdxState.init.touch ⟨7, .z⟩).get ⟨7, .z⟩ = 1 := by decide

/-- round 3: a pass (a point levelled to itself, then a 5 m distance between two free points) meets
    every hypothesis of `C05_design_matrix_is_jacobian` / `_columns` / `_rhs` -/
example : ∃ res, passFrom Lin.exNet 0 Lin.exObs IdxState.init = .ok res ∧ IdxState.init.WF ∧
    (∀ ob ∈ Lin.exObs, Regular ob.kind (Lin.exNet.view ob)) ∧ Lin.exObs[1]? = some ⟨.distance, 0, 7, 8, 0, 5⟩ ∧
    Lin.exNet.isFree ⟨7, .z⟩ = true ∧ Lin.exNet.isFree ⟨8, .x⟩ = true := by
  have hc : ¬ hdist (Lin.exNet.view ⟨.distance, 0, 7, 8, 0, 5⟩) < CUT := by rw [Lin.ex_hdist]; unfold CUT; norm_num
  have hp : ∃ res, passFrom Lin.exNet 0 Lin.exObs IdxState.init = .ok res := by
    simp only [Lin.exObs, passFrom, Kind.lin, h_diff_eq, distance_eq _ _ hc]
    exact ⟨_, rfl⟩
  obtain ⟨res, hres⟩ := hp
  refine ⟨res, hres, IdxState.wf_init, ?_, rfl, ?_, ?_⟩
  · intro ob hob
    simp [Lin.exObs] at hob
    rcases hob with rfl | rfl
    · trivial
    · exact hc
  · simp [Net.isFree, Lin.exNet, Pt.free_z, Status.isFree]
  · simp [Net.isFree, Lin.exNet, Pt.free_xy, Status.isFree]

/-- round 3, `C05_azimuth_rhs_geographic`: axes `en`, left-handed angles (inconsistent: y is mirrored), a line due north of 100 m -/
example : ∃ (o : Obs ℝ) (fuel : Nat) (out : LinOut ℝ),
    dX o = comp CS.EN.xDir 0 100 ∧ dY o = ySign .EN false * comp CS.EN.yDir 0 100 ∧
    o.xNorth = Gen.XNorth.xNorthAngle .EN false ∧ IsPolarAngle (100:ℝ) 0 0 ∧ ¬ hdist o < CUT ∧
    Gen.Lin.azimuth fuel o = .ok out := by
  let o : Obs ℝ := { pfrom := ⟨0, 0, 0, .free, .free⟩, pto := ⟨0, -100, 0, .free, .free⟩, pfs := ⟨0, 0, 0, .free, .free⟩,
                     value := 0, orientation := 0, xNorth := Gen.XNorth.xNorthAngle .EN false }
  have hd : hdist o = 100 := by
    simp [hdist, dX, dY, o]
  have hc : ¬ hdist o < CUT := by rw [hd]; unfold CUT; norm_num
  obtain ⟨fuel, out, hk⟩ := Lin.azimuth_terminates o hc
  refine ⟨o, fuel, out, by simp [dX, o, comp, CS.xDir], ?_, rfl, ?_, hc, hk⟩
  · simp [dY, o, comp, CS.yDir, ySign, Gen.XNorth.consistent, Gen.XNorth.leftHandedCoordinates, Gen.XNorth.csIndex]
  · constructor <;> simp

/-- round 3, `C05_below_cut_*`: a sight from a point to itself is inside the cut, and `direction` returns there -/
example : ∃ (o : Obs ℝ) (out : LinOut ℝ), hdist o < CUT ∧ o.pfrom = o.pto ∧ Gen.Lin.direction 1 o = .ok out := by
  let o : Obs ℝ := { pfrom := ⟨1, 2, 0, .free, .free⟩, pto := ⟨1, 2, 0, .free, .free⟩, pfs := ⟨0, 0, 0, .free, .free⟩,
                     value := 0, orientation := 0, xNorth := 0 }
  have hd : hdist o < CUT := by
    have : hdist o = 0 := by simp [hdist, dX, dY, o]
    rw [this]; exact Lin.CUT_pos
  have hex : ∃ out, Gen.Lin.direction 1 o = .ok out := by
    simp only [Gen.Lin.direction, Lin.bd_fst, Lin.bd_snd, Lin.bC_cut hd, Lin.dC_cut hd]
    simp [whileLoop, o]
    norm_num
  obtain ⟨out, hout⟩ := hex
  exact ⟨o, out, hd, rfl, hout⟩

end Gama.Props.C05
