/-
  C05 — Linearised observation equations equal the true Jacobian and misclosure.

  Every theorem is about the definitions in `Gama/Gen/Linearization.lean`, which the check
  regenerates from /repo/lib/gnu_gama/local/local_linearization.cpp and bearing.cpp on every
  run, instantiated at ℝ (`Gama/Lemmas/LinSpec.lean`: `sqrt := Real.sqrt`,
  `atan2 y x := Complex.arg (x + iy)`, `acos := Real.arccos`, `M_PI := π`).
  Vocabulary (`LinSpec.lean`): `IsPartial unit F o r c v` — `v` is the derivative at 0 of
  `t ↦ unit · F(o with unknown (r,c) corrected by t)`, coordinates corrected in mm, the
  orientation in cc; `IsPartialBearing/IsPartialAngle` — the same for *any* differentiable
  choice of polar angle starting at the code's bearing; `IsWrapOf a r` — `r ≡ a (mod 400 gon)`,
  `-200 gon < r ≤ 200 gon`; `freeAt` — the unknown is adjusted (free or constrained).

  Exclusions are the code's own: `bearing_distance` zeroes bearing and distance when
  `d < 1e-6` (hypothesis `¬ hdist o < CUT`), `s_distance` throws iff `sd = 0`, `z_angle`
  throws iff `d = 0 ∨ sd = 0`.  The `while` loops carry fuel; `*_terminates` shows that over
  ℝ enough fuel exists and `wrap_fuel_irrelevant` that the result does not depend on it.

  History: on the code as first pinned two statements failed and their negations were proved
  here with witnesses replayed on the C++ (F12: the angular right-hand side lay in the closed
  interval, both ends attained; F16: zenith readings above 200 gon had all six coefficients
  with the wrong sign).  Both were repaired in /repo (commits 60fa02b, aa064d3); the theorems
  below are the full statements about the repaired code, the former witnesses are regression
  inputs (corpus/C05/, `west_misclosure_maps_to_plus_half`, the 300-gon example).
-/
import Gama.Lemmas.LinReal
namespace Gama.Props.C05
open Gama Gama.Lin Real

/-! ## horizontal distance -/

theorem distance_coeff (fuel : Nat) (o : Obs ℝ) (out : LinOut ℝ) (h : ¬ hdist o < CUT)
    (hok : Gen.Lin.distance fuel o = .ok out) :
    ∀ p ∈ out.pushes, IsPartial MM hdist o p.1 p.2.1 p.2.2 := Lin.distance_coeff fuel o out h hok

theorem distance_rhs (fuel : Nat) (o : Obs ℝ) (out : LinOut ℝ) (h : ¬ hdist o < CUT)
    (hok : Gen.Lin.distance fuel o = .ok out) : out.rhs = MM * (o.value - hdist o) :=
  Lin.distance_rhs fuel o out h hok

theorem distance_only_free (fuel : Nat) (o : Obs ℝ) (out : LinOut ℝ) (h : ¬ hdist o < CUT)
    (hok : Gen.Lin.distance fuel o = .ok out) :
    targets out.pushes = [(.pfrom, .y), (.pfrom, .x), (.pto, .y), (.pto, .x)].filter (freeAt o) :=
  (Lin.distance_targets fuel o out h hok).1

theorem distance_total (fuel : Nat) (o : Obs ℝ) : ∃ out, Gen.Lin.distance fuel o = .ok out := by
  simp [Gen.Lin.distance]

/-! ## direction (with the orientation unknown) -/

theorem direction_coeff (fuel : Nat) (o : Obs ℝ) (out : LinOut ℝ) (h : ¬ hdist o < CUT)
    (hok : Gen.Lin.direction fuel o = .ok out) :
    ∀ p ∈ out.pushes, IsPartialBearing (fun o => (dX o, dY o)) (fun o => o.orientation) o p.1 p.2.1 p.2.2 :=
  Lin.direction_coeff fuel o out h hok

theorem direction_rhs (fuel : Nat) (o : Obs ℝ) (out : LinOut ℝ) (h : ¬ hdist o < CUT)
    (hok : Gen.Lin.direction fuel o = .ok out) :
    IsWrapOf ((o.value + o.orientation - brg (dX o) (dY o)) * R2CC) out.rhs :=
  (Lin.direction_ok fuel o out h hok).1

theorem direction_only_free (fuel : Nat) (o : Obs ℝ) (out : LinOut ℝ) (h : ¬ hdist o < CUT)
    (hok : Gen.Lin.direction fuel o = .ok out) :
    targets out.pushes =
      [(.station, .ori), (.pfrom, .y), (.pfrom, .x), (.pto, .y), (.pto, .x)].filter (freeAt o) :=
  (Lin.direction_targets fuel o out h hok).1

theorem direction_terminates (o : Obs ℝ) (h : ¬ hdist o < CUT) :
    ∃ fuel out, Gen.Lin.direction fuel o = .ok out := Lin.direction_terminates o h

/-- the code's bearing is a polar angle of the sight, in `[0, 2π)` -/
theorem bearing_is_polar_angle (x y : ℝ) : IsPolarAngle x y (brg x y) ∧ 0 ≤ brg x y ∧ brg x y < 2 * π :=
  ⟨isPolarAngle_brg x y, brg_nonneg x y, brg_lt_two_pi x y⟩

/-! ## azimuth -/

theorem azimuth_coeff (fuel : Nat) (o : Obs ℝ) (out : LinOut ℝ) (h : ¬ hdist o < CUT)
    (hok : Gen.Lin.azimuth fuel o = .ok out) :
    ∀ p ∈ out.pushes, IsPartialBearing (fun o => (dX o, dY o)) (fun o => o.xNorth) o p.1 p.2.1 p.2.2 :=
  Lin.azimuth_coeff fuel o out h hok

theorem azimuth_rhs (fuel : Nat) (o : Obs ℝ) (out : LinOut ℝ) (h : ¬ hdist o < CUT)
    (hok : Gen.Lin.azimuth fuel o = .ok out) :
    IsWrapOf ((o.value + o.xNorth - brg (dX o) (dY o)) * R2CC) out.rhs :=
  (Lin.azimuth_ok fuel o out h hok).1

theorem azimuth_only_free (fuel : Nat) (o : Obs ℝ) (out : LinOut ℝ) (h : ¬ hdist o < CUT)
    (hok : Gen.Lin.azimuth fuel o = .ok out) :
    targets out.pushes = [(.pfrom, .y), (.pfrom, .x), (.pto, .y), (.pto, .x)].filter (freeAt o) :=
  (Lin.azimuth_targets fuel o out h hok).1

theorem azimuth_terminates (o : Obs ℝ) (h : ¬ hdist o < CUT) :
    ∃ fuel out, Gen.Lin.azimuth fuel o = .ok out := Lin.azimuth_terminates o h

/-! ## angle (bs = `to`, fs) -/

theorem angle_coeff (fuel : Nat) (o : Obs ℝ) (out : LinOut ℝ) (h : ¬ hdist o < CUT) (h' : ¬ hdist2 o < CUT)
    (hok : Gen.Lin.angle fuel o = .ok out) :
    ∀ p ∈ out.pushes, IsPartialAngle o p.1 p.2.1 p.2.2 := Lin.angle_coeff fuel o out h h' hok

theorem angle_rhs (fuel : Nat) (o : Obs ℝ) (out : LinOut ℝ) (h : ¬ hdist o < CUT) (h' : ¬ hdist2 o < CUT)
    (hok : Gen.Lin.angle fuel o = .ok out) :
    IsWrapOf ((o.value - angleBsFs o) * R2CC) out.rhs := (Lin.angle_ok fuel o out h h' hok).1

theorem angle_only_free (fuel : Nat) (o : Obs ℝ) (out : LinOut ℝ) (h : ¬ hdist o < CUT) (h' : ¬ hdist2 o < CUT)
    (hok : Gen.Lin.angle fuel o = .ok out) :
    targets out.pushes =
      [(.pfrom, .y), (.pfrom, .x), (.pto, .y), (.pto, .x), (.pfs, .y), (.pfs, .x)].filter (freeAt o) :=
  (Lin.angle_targets fuel o out h h' hok).1

theorem angle_terminates (o : Obs ℝ) (h : ¬ hdist o < CUT) (h' : ¬ hdist2 o < CUT) :
    ∃ fuel out, Gen.Lin.angle fuel o = .ok out := Lin.angle_terminates o h h'

/-! ## slope distance -/

theorem s_distance_coeff (fuel : Nat) (o : Obs ℝ) (out : LinOut ℝ)
    (hok : Gen.Lin.s_distance fuel o = .ok out) :
    ∀ p ∈ out.pushes, IsPartial MM sdist o p.1 p.2.1 p.2.2 := Lin.s_distance_coeff fuel o out hok

theorem s_distance_rhs (fuel : Nat) (o : Obs ℝ) (out : LinOut ℝ)
    (hok : Gen.Lin.s_distance fuel o = .ok out) : out.rhs = MM * (o.value - sdist o) :=
  (Lin.s_distance_rhs fuel o out hok).2

theorem s_distance_only_free (fuel : Nat) (o : Obs ℝ) (out : LinOut ℝ)
    (hok : Gen.Lin.s_distance fuel o = .ok out) :
    targets out.pushes =
      [(.pfrom, .y), (.pfrom, .x), (.pfrom, .z), (.pto, .y), (.pto, .x), (.pto, .z)].filter (freeAt o) :=
  (Lin.s_distance_targets fuel o out hok).1

/-- the exclusion is exactly the code's: it throws iff the slope distance is zero -/
theorem s_distance_throws_iff (fuel : Nat) (o : Obs ℝ) :
    Gen.Lin.s_distance fuel o = .error .zeroSlopeDistance ↔ sdist o = 0 := by
  rw [Lin.s_distance_eq]; split <;> simp [*]

/-! ## zenith angle -/

/-- the coefficients are the partial derivatives of the value the right-hand side is formed
    with: the zenith angle `arccos(Δz/s)` for readings ≤ 200 gon, `2π − arccos(Δz/s)` for
    second-face readings -/
theorem z_angle_coeff (fuel : Nat) (o : Obs ℝ) (out : LinOut ℝ)
    (hok : Gen.Lin.z_angle fuel o = .ok out) :
    ∀ p ∈ out.pushes, IsPartial R2CC zenithComputed o p.1 p.2.1 p.2.2 := Lin.z_angle_coeff fuel o out hok

theorem z_angle_rhs (fuel : Nat) (o : Obs ℝ) (out : LinOut ℝ)
    (hok : Gen.Lin.z_angle fuel o = .ok out) : out.rhs = R2CC * (o.value - zenithComputed o) :=
  (Lin.z_angle_rhs fuel o out hok).2

theorem z_angle_only_free (fuel : Nat) (o : Obs ℝ) (out : LinOut ℝ)
    (hok : Gen.Lin.z_angle fuel o = .ok out) :
    targets out.pushes =
      [(.pfrom, .y), (.pfrom, .x), (.pfrom, .z), (.pto, .y), (.pto, .x), (.pto, .z)].filter (freeAt o) :=
  (Lin.z_angle_targets fuel o out hok).1

theorem z_angle_throws_iff (fuel : Nat) (o : Obs ℝ) :
    Gen.Lin.z_angle fuel o = .error .zeroZenithAngle ↔ (hdist o = 0 ∨ sdist o = 0) := by
  rw [Lin.z_angle_eq]; split <;> simp [*]

/-! ## height and coordinate differences, observed coordinates -/

theorem h_diff_correct (fuel : Nat) (o : Obs ℝ) :
    ∃ out, Gen.Lin.h_diff fuel o = .ok out ∧ out.rhs = MM * (o.value - dZ o) ∧
      targets out.pushes = [(.pfrom, .z), (.pto, .z)].filter (freeAt o) ∧
      ∀ p ∈ out.pushes, IsPartial MM dZ o p.1 p.2.1 p.2.2 := by
  refine ⟨_, Lin.h_diff_eq fuel o, by simp [MM]; ring, ?_, ?_⟩
  · cases hf : o.pfrom.free_z <;> cases ht : o.pto.free_z <;> simp [LinOut.pushes, pushes, targets, hf, ht, List.filter]
  · obtain ⟨h1, h2⟩ := Lin.dZ_partials o
    cases o.pfrom.free_z <;> cases o.pto.free_z <;> simp [LinOut.pushes, pushes, *]

theorem zdiff_correct (fuel : Nat) (o : Obs ℝ) :
    ∃ out, Gen.Lin.zdiff fuel o = .ok out ∧ out.rhs = MM * (o.value - dZ o) ∧
      targets out.pushes = [(.pfrom, .z), (.pto, .z)].filter (freeAt o) ∧
      ∀ p ∈ out.pushes, IsPartial MM dZ o p.1 p.2.1 p.2.2 := by
  refine ⟨_, Lin.zdiff_eq fuel o, by simp [MM]; ring, ?_, ?_⟩
  · cases hf : o.pfrom.free_z <;> cases ht : o.pto.free_z <;> simp [LinOut.pushes, pushes, targets, hf, ht, List.filter]
  · obtain ⟨h1, h2⟩ := Lin.dZ_partials o
    cases o.pfrom.free_z <;> cases o.pto.free_z <;> simp [LinOut.pushes, pushes, *]

theorem xdiff_correct (fuel : Nat) (o : Obs ℝ) :
    ∃ out, Gen.Lin.xdiff fuel o = .ok out ∧ out.rhs = MM * (o.value - dX o) ∧
      targets out.pushes = [(.pfrom, .x), (.pto, .x)].filter (freeAt o) ∧
      ∀ p ∈ out.pushes, IsPartial MM dX o p.1 p.2.1 p.2.2 := by
  refine ⟨_, Lin.xdiff_eq fuel o, by simp [MM]; ring, ?_, ?_⟩
  · cases hf : o.pfrom.free_xy <;> cases ht : o.pto.free_xy <;> simp [LinOut.pushes, pushes, targets, hf, ht, List.filter]
  · obtain ⟨h1, h2⟩ := Lin.dX_partials o
    cases o.pfrom.free_xy <;> cases o.pto.free_xy <;> simp [LinOut.pushes, pushes, *]

theorem ydiff_correct (fuel : Nat) (o : Obs ℝ) :
    ∃ out, Gen.Lin.ydiff fuel o = .ok out ∧ out.rhs = MM * (o.value - dY o) ∧
      targets out.pushes = [(.pfrom, .y), (.pto, .y)].filter (freeAt o) ∧
      ∀ p ∈ out.pushes, IsPartial MM dY o p.1 p.2.1 p.2.2 := by
  refine ⟨_, Lin.ydiff_eq fuel o, by simp [MM]; ring, ?_, ?_⟩
  · cases hf : o.pfrom.free_xy <;> cases ht : o.pto.free_xy <;> simp [LinOut.pushes, pushes, targets, hf, ht, List.filter]
  · obtain ⟨h1, h2⟩ := Lin.dY_partials o
    cases o.pfrom.free_xy <;> cases o.pto.free_xy <;> simp [LinOut.pushes, pushes, *]

theorem x_correct (fuel : Nat) (o : Obs ℝ) :
    ∃ out, Gen.Lin.x fuel o = .ok out ∧ out.rhs = MM * (o.value - fromX o) ∧
      targets out.pushes = [(.pfrom, .x)].filter (freeAt o) ∧
      ∀ p ∈ out.pushes, IsPartial MM fromX o p.1 p.2.1 p.2.2 := by
  refine ⟨_, Lin.x_eq fuel o, by simp [MM]; ring, ?_, ?_⟩
  · cases hf : o.pfrom.free_xy <;> simp [LinOut.pushes, pushes, targets, hf, List.filter]
  · have h1 := Lin.fromX_partial o
    cases o.pfrom.free_xy <;> simp [LinOut.pushes, pushes, *]

theorem y_correct (fuel : Nat) (o : Obs ℝ) :
    ∃ out, Gen.Lin.y fuel o = .ok out ∧ out.rhs = MM * (o.value - fromY o) ∧
      targets out.pushes = [(.pfrom, .y)].filter (freeAt o) ∧
      ∀ p ∈ out.pushes, IsPartial MM fromY o p.1 p.2.1 p.2.2 := by
  refine ⟨_, Lin.y_eq fuel o, by simp [MM]; ring, ?_, ?_⟩
  · cases hf : o.pfrom.free_xy <;> simp [LinOut.pushes, pushes, targets, hf, List.filter]
  · have h1 := Lin.fromY_partial o
    cases o.pfrom.free_xy <;> simp [LinOut.pushes, pushes, *]

theorem z_correct (fuel : Nat) (o : Obs ℝ) :
    ∃ out, Gen.Lin.z fuel o = .ok out ∧ out.rhs = MM * (o.value - fromZ o) ∧
      targets out.pushes = [(.pfrom, .z)].filter (freeAt o) ∧
      ∀ p ∈ out.pushes, IsPartial MM fromZ o p.1 p.2.1 p.2.2 := by
  refine ⟨_, Lin.z_eq fuel o, by simp [MM]; ring, ?_, ?_⟩
  · cases hf : o.pfrom.free_z <;> simp [LinOut.pushes, pushes, targets, hf, List.filter]
  · have h1 := Lin.fromZ_partial o
    cases o.pfrom.free_z <;> simp [LinOut.pushes, pushes, *]

/-! ## the wrap loops -/

/-- what `while (a > 200e4) a -= 400e4; while (a <= -200e4) a += 400e4;` returns, for any
    decision procedures implementing the two comparisons: congruent mod 400 gon and in the
    half-open range `(-200 gon, 200 gon]` -/
theorem wrap_half_open (c1 c2 : ℝ → Bool) (hc1 : ∀ v, c1 v = true ↔ HALF < v)
    (hc2 : ∀ v, c2 v = true ↔ v ≤ -HALF) (fuel : Nat) (a r1 r : ℝ)
    (h1 : whileLoop c1 (fun v => v - FULL) fuel a = some r1)
    (h2 : whileLoop c2 (fun v => v + FULL) fuel r1 = some r) : IsWrapOf a r :=
  Lin.wrap_spec c1 c2 hc1 hc2 fuel a r1 r h1 h2

/-- the range is half-open: an angular right-hand side is never −200 gon … -/
theorem rhs_never_minus_half (fuel : Nat) (o : Obs ℝ) (out : LinOut ℝ) (h : ¬ hdist o < CUT) (h' : ¬ hdist2 o < CUT) :
    (Gen.Lin.direction fuel o = .ok out → out.rhs ≠ -HALF) ∧
    (Gen.Lin.azimuth fuel o = .ok out → out.rhs ≠ -HALF) ∧
    (Gen.Lin.angle fuel o = .ok out → out.rhs ≠ -HALF) :=
  ⟨fun hk => ne_of_gt (Lin.direction_ok fuel o out h hk).1.2.1,
   fun hk => ne_of_gt (Lin.azimuth_ok fuel o out h hk).1.2.1,
   fun hk => ne_of_gt (Lin.angle_ok fuel o out h h' hk).1.2.1⟩

/-- … the closed end +200 gon is attained (target due +x read as 200 gon) … -/
theorem rhs_attains_plus_half :
    ∃ o out, ¬ hdist o < CUT ∧ Gen.Lin.direction 0 o = .ok out ∧ out.rhs = HALF :=
  ⟨Lin.eastWitness, Lin.rhs_attains_plus_half⟩

/-- … and the former F12 witness (target due −x read as 0: misclosure exactly −200 gon) is
    now returned as +200 gon -/
theorem west_misclosure_maps_to_plus_half :
    ∃ out, ¬ hdist Lin.westWitness < CUT ∧ Gen.Lin.direction 1 Lin.westWitness = .ok out ∧ out.rhs = HALF :=
  Lin.west_rhs_is_plus_half

theorem wrap_fuel_irrelevant (c : ℝ → Bool) (f : ℝ → ℝ) (n m : Nat) (a r r' : ℝ)
    (hn : whileLoop c f n a = some r) (hm : whileLoop c f m a = some r') : r = r' :=
  Lin.whileLoop_fuel_irrelevant c f n m a r r' hn hm

/-! ## index assignment (`maxn`, index on first use) and array bounds -/

/-- every generated event list touches an unknown before pushing a coefficient for it -/
theorem pushes_follow_touches (fuel : Nat) (o : Obs ℝ) (out : LinOut ℝ) (h : ¬ hdist o < CUT) (h' : ¬ hdist2 o < CUT) :
    (Gen.Lin.direction fuel o = .ok out → wellTouched out.evs [] = true) ∧
    (Gen.Lin.distance fuel o = .ok out → wellTouched out.evs [] = true) ∧
    (Gen.Lin.angle fuel o = .ok out → wellTouched out.evs [] = true) ∧
    (Gen.Lin.azimuth fuel o = .ok out → wellTouched out.evs [] = true) ∧
    (Gen.Lin.s_distance fuel o = .ok out → wellTouched out.evs [] = true) ∧
    (Gen.Lin.z_angle fuel o = .ok out → wellTouched out.evs [] = true) :=
  ⟨fun hk => (Lin.direction_targets fuel o out h hk).2, fun hk => (Lin.distance_targets fuel o out h hk).2,
   fun hk => (Lin.angle_targets fuel o out h h' hk).2, fun hk => (Lin.azimuth_targets fuel o out h hk).2,
   fun hk => (Lin.s_distance_targets fuel o out hk).2, fun hk => (Lin.z_angle_targets fuel o out hk).2⟩

/-- the index state keeps its invariant (indices handed out are exactly `1..maxn`, one per
    unknown), `maxn` never decreases and an index once assigned never changes (first use wins) -/
theorem index_fresh {K : Type} (name : Role → Coord → Unk) (evs : List (Ev K)) (s : IdxState) (h : s.WF) :
    (runEvs name evs s).1.WF ∧ s.maxn ≤ (runEvs name evs s).1.maxn ∧
      ∀ v, s.get v ≠ 0 → (runEvs name evs s).1.get v = s.get v := Lin.runEvs_wf name evs s h

theorem index_wf_init : IdxState.init.WF := IdxState.wf_init

/-- every `(index, coeff)` row of an observation whose pushes follow touches has its index in
    `1..maxn`, i.e. inside the design matrix of `unknowns()` columns -/
theorem index_in_range {K : Type} (name : Role → Coord → Unk) (evs : List (Ev K)) (s : IdxState) (h : s.WF)
    (hw : wellTouched evs [] = true) :
    ∀ row ∈ (runEvs name evs s).2, 1 ≤ row.1 ∧ row.1 ≤ (runEvs name evs s).1.maxn :=
  Lin.runEvs_rows_in_range name evs s [] h (by simp) hw

/-- at most `max_size = 6` coefficients are pushed: `coeff[6]` / `index[6]` are never overrun -/
theorem size_le_max (fuel : Nat) (o : Obs ℝ) (out : LinOut ℝ) (h : ¬ hdist o < CUT) (h' : ¬ hdist2 o < CUT) :
    (Gen.Lin.direction fuel o = .ok out → out.pushes.length ≤ Gen.Lin.coeffCap) ∧
    (Gen.Lin.angle fuel o = .ok out → out.pushes.length ≤ Gen.Lin.coeffCap) ∧
    (Gen.Lin.s_distance fuel o = .ok out → out.pushes.length ≤ Gen.Lin.coeffCap) ∧
    (Gen.Lin.z_angle fuel o = .ok out → out.pushes.length ≤ Gen.Lin.coeffCap) ∧
    Gen.Lin.coeffCap = Gen.Lin.indexCap ∧ Gen.Lin.maxSize = Gen.Lin.coeffCap := by
  refine ⟨fun hk => ?_, fun hk => ?_, fun hk => ?_, fun hk => ?_, rfl, rfl⟩
  · have := congrArg List.length (Lin.direction_targets fuel o out h hk).1
    simp only [targets, List.length_map] at this
    rw [this]; exact le_trans (List.length_filter_le _ _) (by decide)
  · have := congrArg List.length (Lin.angle_targets fuel o out h h' hk).1
    simp only [targets, List.length_map] at this
    rw [this]; exact le_trans (List.length_filter_le _ _) (by decide)
  · have := congrArg List.length (Lin.s_distance_targets fuel o out hk).1
    simp only [targets, List.length_map] at this
    rw [this]; exact le_trans (List.length_filter_le _ _) (by decide)
  · have := congrArg List.length (Lin.z_angle_targets fuel o out hk).1
    simp only [targets, List.length_map] at this
    rw [this]; exact le_trans (List.length_filter_le _ _) (by decide)

/-! ## a new pass of `LocalNetwork::project_equations` (index reset) -/

/-- the reset guard as coded (`network.cpp`, regenerated) covers every adjusted coordinate group:
    a point that is free or constrained in xy or in z gets its cached indexes zeroed -/
theorem reset_guard_covers_adjusted {K : Type} (p : Pt K) :
    (p.free_xy = true → Gen.Lin.resetGuard p = true) ∧ (p.free_z = true → Gen.Lin.resetGuard p = true) :=
  Lin.resetGuard_of_free p

/-- after the prologue: counter 0, every orientation and every unknown of a guarded point has
    index 0 (points failing the guard keep stale indexes — they must never be touched) -/
theorem reset_clean (guard : Nat → Bool) (s : IdxState) :
    (s.resetPass guard).maxn = 0 ∧
    (∀ u : Unk, u.c = .ori → (s.resetPass guard).get u = 0) ∧
    (∀ u : Unk, guard u.id = true → (s.resetPass guard).get u = 0) := IdxState.resetPass_clean guard s

/-- history independence: whatever earlier passes left in the points, a pass whose observations
    mention only orientations and unknowns of guarded points (by `reset_guard_covers_adjusted`:
    all adjusted coordinates) produces the rows and the number of unknowns of a pass on a
    brand-new state, for which `index_fresh`, `index_in_range` hold -/
theorem pass_fresh {K : Type} (name : Role → Coord → Unk) (guard : Nat → Bool) (s : IdxState) (evs : List (Ev K))
    (hC : ∀ e ∈ evs, (evTarget name e).c = .ori ∨ guard (evTarget name e).id = true) :
    (runEvs name evs (s.resetPass guard)).2 = (runEvs name evs IdxState.init).2 ∧
    (runEvs name evs (s.resetPass guard)).1.maxn = (runEvs name evs IdxState.init).1.maxn :=
  Lin.pass_fresh name guard s evs hC

/-! ## roles naming one and the same point (repeated column indices are summed) -/

/-- angle with both targets adjusted: the sum of the coefficients pushed for backsight and
    foresight is the derivative of the angle when both targets move together -/
theorem angle_joint (fuel : Nat) (o : Obs ℝ) (out : LinOut ℝ) (h : ¬ hdist o < CUT) (h' : ¬ hdist2 o < CUT)
    (ht : o.pto.free_xy = true) (hs : o.pfs.free_xy = true)
    (hok : Gen.Lin.angle fuel o = .ok out) (c : Coord) :
    IsPartialAngleSet o [.pto, .pfs] c (coeffSum out.pushes [.pto, .pfs] c) :=
  Lin.angle_joint fuel o out h h' ht hs hok c

/-- angle with bs = fs: the column of the common target receives coefficients that cancel — the
    derivative of the constant angle -/
theorem angle_bs_eq_fs (fuel : Nat) (o : Obs ℝ) (out : LinOut ℝ) (hal : o.pto = o.pfs)
    (h : ¬ hdist o < CUT) (hok : Gen.Lin.angle fuel o = .ok out) (c : Coord) :
    coeffSum out.pushes [.pto, .pfs] c = 0 := Lin.angle_bs_eq_fs_sum_zero fuel o out hal h hok c

/-- an observed difference from a point to itself: −1 and +1 meet in one column; 0 is the
    derivative of the (constant) difference when the point moves -/
theorem diffs_from_eq_to (fuel : Nat) (o : Obs ℝ) (c : Coord) :
    (∃ out, Gen.Lin.h_diff fuel o = .ok out ∧ (o.pfrom.free_z = o.pto.free_z → coeffSum out.pushes [.pfrom, .pto] c = 0)) ∧
    (∃ out, Gen.Lin.zdiff fuel o = .ok out ∧ (o.pfrom.free_z = o.pto.free_z → coeffSum out.pushes [.pfrom, .pto] c = 0)) ∧
    (∃ out, Gen.Lin.xdiff fuel o = .ok out ∧ (o.pfrom.free_xy = o.pto.free_xy → coeffSum out.pushes [.pfrom, .pto] c = 0)) ∧
    (∃ out, Gen.Lin.ydiff fuel o = .ok out ∧ (o.pfrom.free_xy = o.pto.free_xy → coeffSum out.pushes [.pfrom, .pto] c = 0)) ∧
    IsPartialSet MM dZ o [.pfrom, .pto] c 0 ∧ IsPartialSet MM dX o [.pfrom, .pto] c 0 ∧
    IsPartialSet MM dY o [.pfrom, .pto] c 0 := by
  refine ⟨⟨_, Lin.h_diff_eq fuel o, ?_⟩, ⟨_, Lin.zdiff_eq fuel o, ?_⟩, ⟨_, Lin.xdiff_eq fuel o, ?_⟩,
    ⟨_, Lin.ydiff_eq fuel o, ?_⟩, Lin.const_partialSet dZ o _ c (Lin.dZ_bumpFT o c),
    Lin.const_partialSet dX o _ c (Lin.dX_bumpFT o c), Lin.const_partialSet dY o _ c (Lin.dY_bumpFT o c)⟩
  · intro he; cases hf : o.pfrom.free_z <;> rw [hf] at he <;> cases c <;> simp [LinOut.pushes, pushes, coeffSum, hf, ← he]
  · intro he; cases hf : o.pfrom.free_z <;> rw [hf] at he <;> cases c <;> simp [LinOut.pushes, pushes, coeffSum, hf, ← he]
  · intro he; cases hf : o.pfrom.free_xy <;> rw [hf] at he <;> cases c <;> simp [LinOut.pushes, pushes, coeffSum, hf, ← he]
  · intro he; cases hf : o.pfrom.free_xy <;> rw [hf] at he <;> cases c <;> simp [LinOut.pushes, pushes, coeffSum, hf, ← he]

/-! ## non-vacuity -/

/-- a concrete sight (3-4-5 triangle, both points free) meets the hypotheses of the
    distance / direction / azimuth theorems and produces all coefficients -/
example : ∃ o : Obs ℝ, ¬ hdist o < CUT ∧ (∃ out, Gen.Lin.distance 0 o = .ok out ∧ out.pushes.length = 4) ∧
    (∃ fuel out, Gen.Lin.direction fuel o = .ok out ∧ out.pushes.length = 5) := by
  have hc : ¬ hdist Lin.face2Witness < CUT := by rw [Lin.face2Witness_hdist]; unfold CUT; norm_num
  refine ⟨Lin.face2Witness, hc, ⟨_, Lin.distance_eq 0 _ hc, ?_⟩, ?_⟩
  · simp [LinOut.pushes, pushes, Lin.face2Witness, Pt.free_xy, Status.isFree]
  · obtain ⟨fuel, out, hk⟩ := Lin.direction_terminates _ hc
    refine ⟨fuel, out, hk, ?_⟩
    have := congrArg List.length (Lin.direction_targets fuel _ out hc hk).1
    simpa [targets, List.filter, Lin.face2Witness, Pt.free_xy, Status.isFree] using this

/-- the zenith theorems' hypothesis (`z_angle` returns) is met with six coefficients -/
example : ∃ out, Gen.Lin.z_angle 0 Lin.face2Witness = .ok out ∧ out.pushes.length = 6 := by
  have hh : ¬ (hdist Lin.face2Witness = 0 ∨ sdist Lin.face2Witness = 0) := by
    rw [Lin.face2Witness_hdist, Lin.face2Witness_sdist]; norm_num
  have hok := Lin.z_angle_eq 0 Lin.face2Witness
  rw [if_neg hh] at hok
  exact ⟨_, hok, by simp [LinOut.pushes, Lin.zangleEvs, pushes, Lin.face2Witness, Pt.free_xy, Pt.free_z, Status.isFree]⟩

/-- former F16 witness (horizontal 5 m sight read as 300 gon): the hypothesis `π < value` of the
    second-face branch is met and the function returns -/
example : π < Lin.face2Witness.value ∧ ∃ out, Gen.Lin.z_angle 0 Lin.face2Witness = .ok out := by
  have hh : ¬ (hdist Lin.face2Witness = 0 ∨ sdist Lin.face2Witness = 0) := by
    rw [Lin.face2Witness_hdist, Lin.face2Witness_sdist]; norm_num
  have hok := Lin.z_angle_eq 0 Lin.face2Witness
  rw [if_neg hh] at hok
  exact ⟨by simp only [Lin.face2Witness]; linarith [Real.pi_pos], _, hok⟩

/-- an index state after two allocations satisfies the invariant and is non-trivial -/
example : ((IdxState.init.touch ⟨0, .x⟩).touch ⟨0, .y⟩).WF ∧ ((IdxState.init.touch ⟨0, .x⟩).touch ⟨0, .y⟩).maxn = 2 :=
  ⟨IdxState.touch_wf (IdxState.touch_wf IdxState.wf_init _) _, by decide⟩

/-- an angle with bs = fs over a 5 m sight meets the hypotheses of `angle_bs_eq_fs` and returns -/
example : ∃ o : Obs ℝ, o.pto = o.pfs ∧ ¬ hdist o < CUT ∧ ∃ fuel out, Gen.Lin.angle fuel o = .ok out := by
  let o : Obs ℝ := { Lin.face2Witness with pfs := Lin.face2Witness.pto, value := 0 }
  have hd : hdist o = 5 := Lin.face2Witness_hdist
  have hc : ¬ hdist o < CUT := by rw [hd]; unfold CUT; norm_num
  have hc2 : ¬ hdist2 o < CUT := by
    have : hdist2 o = hdist o := by simp [hdist, hdist2, dX, dY, dX2, dY2, o]
    rw [this]; exact hc
  exact ⟨o, rfl, hc, Lin.angle_terminates o hc hc2⟩

/-- a state with a stale height index: the prologue with the coded guard clears it -/
example : ((IdxState.init.touch ⟨7, .z⟩).resetPass (fun _ => true)).get ⟨7, .z⟩ = 0 ∧
    (IdxState.init.touch ⟨7, .z⟩).get ⟨7, .z⟩ = 1 := by decide

end Gama.Props.C05
