import Gama.Gen.Linearization
namespace Gama.Props.C05
open Gama Gama.Lin

theorem placeholder : Gen.Lin.maxSize = 6 := rfl

end Gama.Props.C05
