/-
  C16 (continued) — `Homogenization::run` ↔ the homogenisation `envSolve` runs, and `envSolve` on the packed kernels.

  Two executable models of `Homogenization::run` exist: C10's `Cov.Hom.run` (Model/Homogenization.lean: `SMat`,
  `BlockDiag`, counting / gather / forward substitution / scatter, regenerated sites `Gen/HomogenizationSites`)
  and `Ls.Env.homogenize` (Model/Ls/Env/Homog.lean: dense columns), which `envSolve` calls.  They are proved to
  compute the same system and to reject the same inputs (`C16_hom_run_eq_env_homogenize`), for all sizes and
  block layouts; the representations are related by `Ls.Env.HoldsProblem p mat cov tail`:
  `cov` was built by `add_block` from the blocks of `p` (`BlockDiag.Built`), `mat` is a well-formed sparse matrix
  whose dense reading (`Cov.denseRow`) is `p.dense` and whose stored rows are the rows of `p`.  A column index may be
  repeated inside a row (no `nodupRows` field any more: `Hom.run_spec` does not need it since the gather loop sums,
  /repo 6d0f7107, and `Problem.dense` / `RowsOK` read a repeated column as the sum / only bound the range, round 11).

  Scalar structures: `Hom.run` is stated at C10's `Cov.fieldScalar K sq`, `homogenize`/`envSolve` at the solver
  theorems' `Ls.scalarOfField` (`= Gama.fieldScalar sq`), the packed kernels at C16's `ordFieldScalar K sq`; the first
  two are equal (`Ls.Env.covFieldScalar_eq`), all three ARE the field operations.
  Lemmas: Gama/Lemmas/HomEnvBridge.lean, HomEnvBridgeExample.lean.
-/
import Gama.Props.C16Ls
import Gama.Lemmas.HomEnvBridge
import Gama.Lemmas.HomEnvBridgeExample
import Gama.Lemmas.EnvelopePacked
import Gama.Lemmas.EnvSolvePacked
import Gama.Lemmas.HomPatBridge
namespace Gama.Props.C16
open Gama Gama.Ls Gama.Ls.Env

set_option linter.unusedSectionVars false

section
variable {K : Type} [Field K] [LinearOrder K] [IsStrictOrderedRing K] [Ls.SqrtFn K]
attribute [local instance 2000] Ls.scalarOfField

/-- **`Hom.run` = `Env.homogenize`.**  Ordered field with the square-root law, `tol = 1e-14` (the default of
    `BlockDiagonal::cholDec`), any number of blocks / dims / widths, any sparse matrix (`HoldsProblem`):
    (1) `Hom.run` throws iff `homogenize` throws, and both throw `NonPositiveDefinite` only;
    (2) if both answer: the right-hand sides are the SAME ARRAY (`out.pr = h.bt`, size `m`), the scaled sparse
        matrix has the shape `m × n`, and its dense reading is `h.At` entry by entry
        (`denseRow (out.sm.rowEntries (s+1)) (c+1) = h.At[s][c]` for all `s < m`, `c < n`).
    Proof: both satisfy the block lower triangular systems `L̃·pr = rhs`, `L̃·dense(sm) = dense(mat)` with the SAME
    factors (`Cov.bdCholBlock` is a function; C10 `Hom.run_spec`, `Env.homVec_solve`), positive diagonal ⇒ one
    solution (`Ls.tri_unique`).
    NOT stated here: the column PATTERN of `out.sm` (which stored entries are non-zero, in `invp` order) equals
    `h.pat` — that is conjunct (3) of `C16_envsolve_packed`. -/
theorem C16_hom_run_eq_env_homogenize (hsq : IsSqrt (Ls.SqrtFn.sq : K → K)) (p : Problem K)
    (mat : SMat K) (cov : Cov.BlockDiag K) (tail : List K) (H : Env.HoldsProblem p mat cov tail) :
    ((∃ e, @Cov.Hom.run K (Cov.fieldScalar K Ls.SqrtFn.sq) (Env.bdTol : K) mat cov p.rhs = .error e) ↔
      (∃ e, Env.homogenize p = .error e)) ∧
    (∀ e, @Cov.Hom.run K (Cov.fieldScalar K Ls.SqrtFn.sq) (Env.bdTol : K) mat cov p.rhs = .error e →
      e = .NonPositiveDefinite) ∧
    (∀ e, Env.homogenize p = .error e → e = .NonPositiveDefinite) ∧
    ∀ out h, @Cov.Hom.run K (Cov.fieldScalar K Ls.SqrtFn.sq) (Env.bdTol : K) mat cov p.rhs = .ok out →
      Env.homogenize p = .ok h →
      out.pr = h.bt ∧ out.pr.size = p.m ∧
      out.sm.rows = p.m ∧ out.sm.cols = p.n ∧
      ∀ s c, s < p.m → c < p.n →
        Cov.denseRow (@SMat.rowEntries K ⟨0⟩ out.sm (s + 1)) (c + 1) = Env.mget h.At s c :=
  hom_run_eq_homogenize hsq p mat cov tail H

/-- **`envSolve` = the packed kernels on `Homogenization::run`'s output with the RCM ordering — FULL.**
    `out.sm` is the sparse matrix `Hom.run` leaves, `o := rcm (graphOf out.sm)` C16's reverse Cuthill–McKee ordering of
    `SparseMatrixGraph(hom.mat())` — the graph of `out.sm` ITSELF — and
    `F := (Env.ofSparse out.sm (graphOf out.sm) o).cholDec √ε` the packed envelope after `Envelope::set` and `cholDec()`.
    (1) `envSolve p` throws iff `Homogenization::run` (`Hom.run`) throws on the sparse input;
    (2) when both answer, every answer of `envSolve` (`r`, `rtr`, `defect`, `qxx`, `q0xx`, `qbb`, `lindep`) is the answer of
        `envCore` on a system `(hh.At, hh.bt)` that IS `Hom.run`'s output: `hh.bt = out.pr` as arrays,
        `hh.At = dense(out.sm)` entry by entry;
    (3) `out.sm` is well formed, its graph is the graph `envSolve` orders (`graphOf out.sm = patGraph n hh.pat`: the stored
        pattern of `out.sm` equals `hh.pat` row by row), `o` is a permutation with consistent inverse and `Env.rcmOrd` is its
        0-based copy;
    (4) what `envSolve` returns is what the packed kernels compute on `out.sm`:  `a.defect = F.defect`;  the factor `envCore`
        holds (`fact.rows`) is `F` entry by entry (`L`, `D` with the exact zeros);  the particular solution `fact.x0p` (of which
        `a.x`, `a.r`, `a.rtr` are functions) is `F.solve (Ãᵀb̃)` = `upperSolve ∘ diagonalSolve ∘ lowerSolve`;  inside the
        profile the sparse `F.inverse` is `Ls.Env.zEntry fact.rows` (the cofactor entries `q0xx` reads there:
        `C03_env_sparse_inverse_eq_full_ldl`).
    Chain: `C16_hom_run_eq_env_homogenize` → `Hom.run_export` (`out.sm.WF`, block patterns; Lemmas/HomRunExport.lean) →
    `hom_run_pattern` / `hom_run_graph` (Lemmas/HomPatBridge.lean) → `C16_normal_matrix_eq_ls` → `Ls.Env.ldl_congr` →
    `C16_envelope_refines_ls_dense` (also `n = 0`).
    Hypotheses: square-root law; `RowsOK p` (columns in `1..n`; a column may be repeated in a row, its coefficients add up);
    `HoldsProblem` (`mat`, `cov` hold the rows and blocks of `p`; no `nodupRows`). -/
theorem C16_envsolve_packed (hsq : IsSqrt (Ls.SqrtFn.sq : K → K)) (p : Problem K) (hrowsOK : RowsOK p)
    (mat : SMat K) (cov : Cov.BlockDiag K) (tail : List K) (H : Env.HoldsProblem p mat cov tail) :
    ((∃ e, envSolve p = .error e) ↔
      (∃ e, @Cov.Hom.run K (Cov.fieldScalar K Ls.SqrtFn.sq) (Env.bdTol : K) mat cov p.rhs = .error e)) ∧
    (∀ a out, envSolve p = .ok a →
      @Cov.Hom.run K (Cov.fieldScalar K Ls.SqrtFn.sq) (Env.bdTol : K) mat cov p.rhs = .ok out →
      ∃ hh, Env.homogenize p = .ok hh ∧ hh.bt = out.pr ∧
        (∀ s c, s < p.m → c < p.n →
          Env.mget hh.At s c = Cov.denseRow (@SMat.rowEntries K ⟨0⟩ out.sm (s + 1)) (c + 1)) ∧
        a.r = (Env.coreOf p hh).r ∧ a.rtr = (Env.coreOf p hh).rtr ∧ a.defect = (Env.coreOf p hh).defect ∧
        a.qxx = (Env.coreOf p hh).qxx ∧ a.q0xx = (Env.coreOf p hh).q0xx ∧ a.qbb = (Env.coreOf p hh).qbb ∧
        a.lindep = (Env.coreOf p hh).lindepFixed ∧
        out.sm.WF ∧ graphOf out.sm = Env.patGraph p.n hh.pat ∧
        (List.range' 1 out.sm.rows).map out.sm.rowCols = hh.pat.toList ∧
        (rcm (graphOf out.sm)).IsPerm p.n ∧
        (∀ i, i < p.n → (Env.rcmOrd p.n hh.pat).perm.getD i 0 = (rcm (graphOf out.sm)).perm[i + 1]! - 1) ∧
        (let F := @Gama.Env.cholDec K (ordFieldScalar K (Ls.SqrtFn.sq : K → K))
            (@Gama.Env.ofSparse K (ordFieldScalar K (Ls.SqrtFn.sq : K → K)) out.sm (graphOf out.sm) (rcm (graphOf out.sm)))
            (Env.sqrtEps : K)
          let fact := (Env.coreOf p hh).fact
          a.defect = F.defect ∧
          (∀ i j, 1 ≤ j → j < i → i ≤ p.n →
            @Gama.Env.entry K (ordFieldScalar K (Ls.SqrtFn.sq : K → K)) F i j = Env.Lget fact.rows (i - 1) (j - 1)) ∧
          (∀ i, 1 ≤ i → i ≤ p.n →
            @Gama.Env.diagonal K (ordFieldScalar K (Ls.SqrtFn.sq : K → K)) F i = Env.Dget fact.rows (i - 1)) ∧
          @Gama.Env.solve K (ordFieldScalar K (Ls.SqrtFn.sq : K → K)) F fact.c p.n = fact.x0p ∧
          (∀ i j, 1 ≤ j → j ≤ i → i ≤ p.n → i - j ≤ @Gama.Env.width K F i →
            @Gama.Env.entry K (ordFieldScalar K (Ls.SqrtFn.sq : K → K))
              (@Gama.Env.inverse K (ordFieldScalar K (Ls.SqrtFn.sq : K → K)) F) i j =
              Env.zEntry fact.rows p.n (i - 1) (j - 1)))) := by
  obtain ⟨h1, _, _, h4⟩ := hom_run_eq_homogenize hsq p mat cov tail H
  refine ⟨(envSolve_error_iff p).trans h1.symm, ?_⟩
  intro a out ha hout
  obtain ⟨hh, hhom, e1, e2, e3, e4, e5, e6, e7, _⟩ := envSolve_shape p a ha
  obtain ⟨g1, _, g3, g4, g5⟩ := h4 out hh hout hhom
  obtain ⟨hperm, hp0⟩ := rcmOrd_packed p hrowsOK H.dims hh hhom
  obtain ⟨hwf, hpat⟩ := hom_run_pattern hsq p hrowsOK mat cov tail H out hh hout hhom
  have hG : graphOf out.sm = Env.patGraph p.n hh.pat := graphOf_eq_patGraph out.sm p.n hh.pat g4 hpat
  refine ⟨hh, hhom, g1.symm, fun s c hs hc => (g5 s c hs hc).symm, e1, e2, e3, e4, e5, e6, e7, hwf, hG, hpat, ?_⟩
  rw [hG]
  refine ⟨hperm, hp0, ?_⟩
  have hrows : (Env.coreOf p hh).fact.rows = @Env.ldl K Ls.scalarOfField (fun i j => @Dense.get K (ordFieldScalar K (Ls.SqrtFn.sq : K → K))
      (@Dense.normal K (ordFieldScalar K (Ls.SqrtFn.sq : K → K)) out.sm
      (rcm (Env.patGraph p.n hh.pat)).invp out.sm.cols) i j) (Env.sqrtEps : K) out.sm.cols := by
    have := factor_rows_eq out.sm hwf hh.At hh.bt
      (fun s c hs hc => (g5 s c (by rw [← g3]; exact hs) (by rw [← g4]; exact hc)).symm)
      (rcm (Env.patGraph p.n hh.pat)) (by rw [g4]; exact hperm) (Env.rcmOrd p.n hh.pat)
      (fun i hi => hp0 i (by rw [← g4]; exact hi)) (Env.sqrtEps : K)
    rw [g3] at this
    rw [← this, g4]
    rfl
  obtain ⟨c1, c2, c3, c4, c5⟩ := C16_envelope_refines_ls_dense (Ls.SqrtFn.sq : K → K) out.sm hwf
    (rcm (Env.patGraph p.n hh.pat)) (by rw [g4]; exact hperm) (Env.sqrtEps : K) Env.sqrtEps_pos
  rw [hG] at c1 c2 c3 c4 c5
  rw [← hrows] at c1 c2 c3 c4 c5
  rw [g4] at c1 c2 c4 c5
  intro F fact
  exact ⟨e3.trans c3.symm, c1, c2, c4 _ (factor_c_size _ _ _ _ _ _), c5⟩

end

/-! ## partial-range solves (`lowerSolve(start, stop, rhs)`, `diagonalSolve(start, stop, rhs)`, `upperSolve(1, k, rhs)`) -/

section ranged
variable {K : Type} [Field K] [LinearOrder K] [IsStrictOrderedRing K] (sq : K → K)

/-- **`Envelope::lowerSolve(start, stop, rhs)`** (as `cholDec` calls it with `start = row − width`, `stop = row − 1`, and
    `solve` with `(1, dimension)`): for ANY envelope `E`, `1 ≤ start ≤ stop + 1`, `rhs` of length `stop + 1 − start`
    (`rhs[0]` is component `start`): the ranged kernel is the dense forward substitution `Dense.lower` with the block
    `start … stop` of the unit lower triangle read off the storage, `L(i,j) = E.entry (start+i) (start+j)` (second conjunct). -/
theorem C16_lower_solve_range (E : Env K) (start stop : Nat) (hs : 1 ≤ start) (hle : start ≤ stop + 1)
    (rhs : Array K) (hsz : rhs.size = stop + 1 - start) :
    letI := ordFieldScalar K sq
    E.lowerSolve start stop rhs =
      Dense.lower (@EnvLDL.subLDL K _ _ ⟨sq⟩ E start (stop + 1 - start)) (stop + 1 - start) rhs ∧
    (∀ i j, i < stop + 1 - start → j < i →
      (@EnvLDL.subLDL K _ _ ⟨sq⟩ E start (stop + 1 - start)).L.get i j = E.entry (start + i) (start + j)) :=
  ⟨EnvLDL.lowerSolve_range_dense sq E start stop hs rhs hsz hle,
   fun i j hi hj => EnvLDL.subLDL_L_with sq E start _ i j hi hj⟩

/-- **`Envelope::diagonalSolve(start, stop, rhs)`**: for ANY envelope, any range, `rhs` of length `stop + 1 − start`: the
    ranged kernel is `Dense.diagS` (divide by the pivot, a zero pivot gives exactly 0) with the pivots `start … stop`,
    `D(i) = diag_[start + i − 1]`. -/
theorem C16_diagonal_solve_range (E : Env K) (start stop : Nat) (rhs : Array K) (hsz : rhs.size = stop + 1 - start) :
    letI := ordFieldScalar K sq
    E.diagonalSolve start stop rhs =
      Dense.diagS (@EnvLDL.subLDL K _ _ ⟨sq⟩ E start (stop + 1 - start)) (stop + 1 - start) rhs ∧
    (∀ i, i < stop + 1 - start →
      (@EnvLDL.subLDL K _ _ ⟨sq⟩ E start (stop + 1 - start)).D.getD i 0 = E.diag.getD (start + i - 1) 0) :=
  ⟨EnvLDL.diagonalSolve_range_dense sq E start stop rhs hsz,
   fun i hi => EnvLDL.subLDL_D_with sq E start _ i hi⟩

/-- **`Envelope::upperSolve(1, k, rhs)`** (`solve(rhs, dimension)` with `dimension = k ≤ dim`): for a well-shaped
    envelope the column-oriented packed loop over rows `k, …, 1` is the dense back substitution `Dense.upper` with the
    leading `k × k` block of `Lᵀ`.  (`upperSolve` with `start > 1` is never called and starts at `rhs + stop − 1`: not stated.) -/
theorem C16_upper_solve_prefix (E : Env K) (hE : E.ProfileOK) (k : Nat) (hk : k ≤ E.dim) (z : Array K) (hz : z.size = k) :
    letI := ordFieldScalar K sq
    E.upperSolve 1 k z = Dense.upper (@EnvLDL.subLDL K _ _ ⟨sq⟩ E 1 k) k z ∧
    (∀ i j, i < k → j < i → (@EnvLDL.subLDL K _ _ ⟨sq⟩ E 1 k).L.get i j = E.entry (1 + i) (1 + j)) :=
  ⟨EnvLDL.upperSolve_prefix_dense sq hE k hk z hz, fun i j hi hj => EnvLDL.subLDL_L_with sq E 1 k i j hi hj⟩

end ranged

/-- non-vacuity of the ranged solves: the 2×2 envelope `[[4,·],[2,5]]` over ℚ (`EnvLDL.exE2`, `ProfileOK`): the range
    `(2,2)` with a 1-vector, the range `(1,2)` with a 2-vector; the forward substitution really subtracts (`3 − 2·1 = 1`) -/
example : EnvLDL.exE2.ProfileOK ∧ (1 ≤ 2 ∧ 2 ≤ 2 + 1 ∧ (#[7] : Array ℚ).size = 2 + 1 - 2) ∧
    (#[1, 3] : Array ℚ).size = 2 + 1 - 1 ∧ 2 ≤ EnvLDL.exE2.dim ∧
    @Env.lowerSolve ℚ (ordFieldScalar ℚ id) EnvLDL.exE2 1 2 #[1, 3] = #[1, 1] :=
  ⟨EnvLDL.exE2_ok, ⟨by decide, by decide, rfl⟩, rfl, by decide, by decide +kernel⟩

/-! ### non-vacuity -/

/-- the square-root law holds for `Real.sqrt` -/
example : IsSqrt Real.sqrt := ⟨fun _ h => Real.mul_self_sqrt h, fun x _ => Real.sqrt_nonneg x⟩

/-- the hypotheses of `C16_hom_run_eq_env_homogenize` / `C16_envsolve_packed` on a non-trivial instance over ℝ:
    C10's `BlockDiagonal(2,4)` with `[9]` (uncorrelated) and `[[4,2],[2,5]]` (correlated) built by `add_block`, the 3×2 sparse
    matrix with rows `[(1,1)]`, `[(1,2),(2,1)]`, `[(2,3)]`, `rhs = (1,2,3)`, and the `Ls.Problem` with the same data -/
example : (letI := Ls.exSqrtFn; Env.HoldsProblem Ls.exP Cov.runExMat Cov.runExCov []) := Ls.exHolds

/-- … and its rows have their columns in `1..n` (`RowsOK`, hypothesis of `C16_envsolve_packed`; here also no repeated column) -/
example : RowsOK Ls.exP := Ls.exRowsOK

/-- … and on it BOTH sides answer (premises `envSolve p = .ok a`, `Hom.run … = .ok out` of `C16_envsolve_packed` (2)–(4) and of
    `C16_hom_run_eq_env_homogenize` (2)): the two blocks are accepted at the default tolerance `1e-14` -/
example : (∃ out, @Cov.Hom.run ℝ (Cov.fieldScalar ℝ Real.sqrt) (@Env.bdTol ℝ (@Ls.scalarOfField ℝ _ _ Ls.exSqrtFn)) Cov.runExMat Cov.runExCov
      Ls.exP.rhs = .ok out) ∧ (∃ a, @envSolve ℝ (@Ls.scalarOfField ℝ _ _ Ls.exSqrtFn) Ls.exP = .ok a) :=
  ⟨Ls.exRun_accepted, Ls.exEnvSolve_accepted⟩

end Gama.Props.C16
