/-
  C05, clause 5 (any axes orientation / handedness) — the hypotheses `hx`, `hy` of `C05_azimuth_rhs_geographic`
  (`Props/C05.lean`) derived from the INPUT STAGE (`Model/Input.lean`, C07's model of gkfparser's `axes-xy` /
  `angles` attributes and of `LocalNetwork::{consistent, y_sign, remove_inconsistency}`).

  What remains a hypothesis is the MEANING of the axes code — the definition of the file format, not derivable:
  `FileCoords n E N`: the point at position `i` with xy is written as `x = comp cs.xDir (E i) (N i)`,
  `y = comp cs.yDir (E i) (N i)`, the components of its ground position (east `E`, north `N`) along the compass
  directions the two letters of `axes-xy` name; and `ReadsInternal σ n`: the linearisation reads the points as
  `remove_inconsistency` left them.  Everything else — the mirroring of y exactly when the handedness of axes and
  angles disagree, `y_sign`, linearity — is proved.
-/
import Gama.Lemmas.LinInputAxes
namespace Gama.Props.C05Input
open Gama Gama.Lin Real

/-- the two models of `LocalNetwork::consistent` / `y_sign` are one: the input model's (hand-written, argument
    "angles are left-handed") and the regenerated one (`Gen/XNorth.lean`, argument "angles are right-handed") -/
theorem C05_consistent_models_agree (cs : CS) (lh : Bool) :
    Input.consistent cs lh = Gen.XNorth.consistent cs (!lh) ∧ (Input.ySign cs lh : ℝ) = ySign cs (!lh) :=
  ⟨consistent_agree cs lh, ySign_agree cs lh⟩

/-- the component of a ground displacement along a compass direction is linear -/
theorem C05_comp_linear (d : Dir) (E₁ N₁ E₂ N₂ : ℝ) :
    comp d E₂ N₂ - comp d E₁ N₁ = comp d (E₂ - E₁) (N₂ - N₁) := comp_sub d E₁ N₁ E₂ N₂

/-- **`hx`, `hy` derived**: for a freshly parsed network (`removed_inconsistency_ = false`) whose file coordinates
    are the components of the ground positions in the declared axes, after `remove_inconsistency` the internal
    coordinate differences of two points with xy are `ΔX = comp xDir ΔE ΔN`, `ΔY = y_sign · comp yDir ΔE ΔN` — for
    every axes code and angle sense -/
theorem C05_internal_coordinates_from_input (n : Input.Net ℝ) (hrem : n.removed = false) (E N : Nat → ℝ)
    (hfile : FileCoords n E N) (i j : Nat) (pi pj : Input.NetPoint ℝ)
    (hi : (Input.removeInconsistency n).points[i]? = some pi) (hj : (Input.removeInconsistency n).points[j]? = some pj)
    (hxi : pi.hasXY = true) (hxj : pj.hasXY = true) :
    pj.x - pi.x = comp n.cs.xDir (E j - E i) (N j - N i) ∧
    pj.y - pi.y = ySign n.cs (!n.leftHandedAngles) * comp n.cs.yDir (E j - E i) (N j - N i) :=
  internal_differences n hrem E N hfile i j pi pj hi hj hxi hxj

/-- **azimuth, geographic form, from the input** (no `hx`, `hy`): the right-hand side of an azimuth row of the
    pass is observed − (geographic azimuth `α` of the line from → to, clockwise from north, in the sense of angles
    in force), reduced to (−200 gon, 200 gon] — for every `axes-xy` code and both senses -/
theorem C05_azimuth_rhs_geographic_from_input (n : Input.Net ℝ) (hrem : n.removed = false) (E N : Nat → ℝ)
    (hfile : FileCoords n E N) (σ : Net ℝ) (hσ : ReadsInternal σ n) (ob : NObs ℝ)
    (pi pj : Input.NetPoint ℝ)
    (hi : (Input.removeInconsistency n).points[ob.pfrom]? = some pi) (hj : (Input.removeInconsistency n).points[ob.pto]? = some pj)
    (hxi : pi.hasXY = true) (hxj : pj.hasXY = true)
    (hN : σ.xNorth = Gen.XNorth.xNorthAngle n.cs (!n.leftHandedAngles))
    (α : ℝ) (hα : IsPolarAngle (N ob.pto - N ob.pfrom) (E ob.pto - E ob.pfrom) α)
    (fuel : Nat) (out : LinOut ℝ) (h : ¬ hdist (σ.view ob) < CUT) (hok : Gen.Lin.azimuth fuel (σ.view ob) = .ok out) :
    IsWrapOf (((σ.view ob).value - (if (!n.leftHandedAngles) then -α else α)) * R2CC) out.rhs :=
  azimuth_rhs_geographic_from_input n hrem E N hfile σ hσ ob pi pj hi hj hxi hxj hN α hα fuel out h hok

-- non-vacuity: axes `en` with left-handed angles (inconsistent: y IS mirrored), two points, the line due north;
-- every hypothesis of both theorems is met and `azimuth` returns
example : exIn.removed = false ∧ FileCoords exIn exInE exInN ∧ ReadsInternal exInσ exIn ∧
    (Input.removeInconsistency exIn).points[exInOb.pfrom]? = some ⟨true, 0, 0, 0⟩ ∧
    (Input.removeInconsistency exIn).points[exInOb.pto]? = some ⟨true, 0, -100, 0⟩ ∧
    exInσ.xNorth = Gen.XNorth.xNorthAngle exIn.cs (!exIn.leftHandedAngles) ∧
    IsPolarAngle (exInN exInOb.pto - exInN exInOb.pfrom) (exInE exInOb.pto - exInE exInOb.pfrom) 0 ∧
    ¬ hdist (exInσ.view exInOb) < CUT ∧ ∃ fuel out, Gen.Lin.azimuth fuel (exInσ.view exInOb) = .ok out :=
  ⟨rfl, exIn_file, exIn_reads, exIn_points.1, exIn_points.2, rfl, exIn_alpha, exIn_hdist, azimuth_terminates _ exIn_hdist⟩

end Gama.Props.C05Input
