/-
  C05, clause 5 (any axes orientation / handedness) — the hypotheses `hx`, `hy` of `C05_azimuth_rhs_geographic`
  (`Props/C05.lean`) derived from the INPUT STAGE (`Model/Input.lean`, C07's model of gkfparser's `axes-xy` /
  `angles` attributes and of `LocalNetwork::{consistent, y_sign, remove_inconsistency}`).

  What remains a hypothesis is the MEANING of the axes code — the definition of the file format, not derivable:
  `FileCoords n E N`: the point at position `i` with xy is written as `x = comp cs.xDir (E i) (N i)`,
  `y = comp cs.yDir (E i) (N i)`, the components of its ground position (east `E`, north `N`) along the compass
  directions the two letters of `axes-xy` name; and `ReadsInternal σ n`: the linearisation reads the points as
  `remove_inconsistency` left them.  Everything else — the mirroring of y exactly when the handedness of axes and
  angles disagree, `y_sign`, linearity — is proved.

  Round 13 (second half of the file): `ReadsInternal` (and `hN`) hold BY DEFINITION for the reader `Lin.netOfInput`
  (`Lemmas/LinInputRead.lean`; there was no bridge `Input.Net → Lin.Net` before, C07 never leaves `PE.Net`), and for
  `PE.sigmaOf net` when the record lists the same points (`HoldsInput`); `FileCoords` stays the definition of the file
  format, but the regenerated tables are proved consistent with that reading of the axes code and with no other
  (`C05_file_coords_convention_matches_xnorth`, `C05_file_coords_convention_unique`).
-/
import Gama.Lemmas.LinInputRead
namespace Gama.Props.C05Input
open Gama Gama.Lin Real

/-- the two models of `LocalNetwork::consistent` / `y_sign` are one: the input model's (hand-written, argument
    "angles are left-handed") and the regenerated one (`Gen/XNorth.lean`, argument "angles are right-handed") -/
theorem C05_consistent_models_agree (cs : CS) (lh : Bool) :
    Input.consistent cs lh = Gen.XNorth.consistent cs (!lh) ∧ (Input.ySign cs lh : ℝ) = ySign cs (!lh) :=
  ⟨consistent_agree cs lh, ySign_agree cs lh⟩

/-- the component of a ground displacement along a compass direction is linear -/
theorem C05_comp_linear (d : Dir) (E₁ N₁ E₂ N₂ : ℝ) :
    comp d E₂ N₂ - comp d E₁ N₁ = comp d (E₂ - E₁) (N₂ - N₁) := comp_sub d E₁ N₁ E₂ N₂

/-- **`hx`, `hy` derived**: for a freshly parsed network (`removed_inconsistency_ = false`) whose file coordinates
    are the components of the ground positions in the declared axes, after `remove_inconsistency` the internal
    coordinate differences of two points with xy are `ΔX = comp xDir ΔE ΔN`, `ΔY = y_sign · comp yDir ΔE ΔN` — for
    every axes code and angle sense -/
theorem C05_internal_coordinates_from_input (n : Input.Net ℝ) (hrem : n.removed = false) (E N : Nat → ℝ)
    (hfile : FileCoords n E N) (i j : Nat) (pi pj : Input.NetPoint ℝ)
    (hi : (Input.removeInconsistency n).points[i]? = some pi) (hj : (Input.removeInconsistency n).points[j]? = some pj)
    (hxi : pi.hasXY = true) (hxj : pj.hasXY = true) :
    pj.x - pi.x = comp n.cs.xDir (E j - E i) (N j - N i) ∧
    pj.y - pi.y = ySign n.cs (!n.leftHandedAngles) * comp n.cs.yDir (E j - E i) (N j - N i) :=
  internal_differences n hrem E N hfile i j pi pj hi hj hxi hxj

/-- **azimuth, geographic form, from the input** (no `hx`, `hy`): the right-hand side of an azimuth row of the
    pass is observed − (geographic azimuth `α` of the line from → to, clockwise from north, in the sense of angles
    in force), reduced to (−200 gon, 200 gon] — for every `axes-xy` code and both senses -/
theorem C05_azimuth_rhs_geographic_from_input (n : Input.Net ℝ) (hrem : n.removed = false) (E N : Nat → ℝ)
    (hfile : FileCoords n E N) (σ : Net ℝ) (hσ : ReadsInternal σ n) (ob : NObs ℝ)
    (pi pj : Input.NetPoint ℝ)
    (hi : (Input.removeInconsistency n).points[ob.pfrom]? = some pi) (hj : (Input.removeInconsistency n).points[ob.pto]? = some pj)
    (hxi : pi.hasXY = true) (hxj : pj.hasXY = true)
    (hN : σ.xNorth = Gen.XNorth.xNorthAngle n.cs (!n.leftHandedAngles))
    (α : ℝ) (hα : IsPolarAngle (N ob.pto - N ob.pfrom) (E ob.pto - E ob.pfrom) α)
    (fuel : Nat) (out : LinOut ℝ) (h : ¬ hdist (σ.view ob) < CUT) (hok : Gen.Lin.azimuth fuel (σ.view ob) = .ok out) :
    IsWrapOf (((σ.view ob).value - (if (!n.leftHandedAngles) then -α else α)) * R2CC) out.rhs :=
  azimuth_rhs_geographic_from_input n hrem E N hfile σ hσ ob pi pj hi hj hxi hxj hN α hα fuel out h hok

-- non-vacuity: axes `en` with left-handed angles (inconsistent: y IS mirrored), two points, the line due north;
-- every hypothesis of both theorems is met and `azimuth` returns
example : exIn.removed = false ∧ FileCoords exIn exInE exInN ∧ ReadsInternal exInσ exIn ∧
    (Input.removeInconsistency exIn).points[exInOb.pfrom]? = some ⟨true, 0, 0, 0⟩ ∧
    (Input.removeInconsistency exIn).points[exInOb.pto]? = some ⟨true, 0, -100, 0⟩ ∧
    exInσ.xNorth = Gen.XNorth.xNorthAngle exIn.cs (!exIn.leftHandedAngles) ∧
    IsPolarAngle (exInN exInOb.pto - exInN exInOb.pfrom) (exInE exInOb.pto - exInE exInOb.pfrom) 0 ∧
    ¬ hdist (exInσ.view exInOb) < CUT ∧ ∃ fuel out, Gen.Lin.azimuth fuel (exInσ.view exInOb) = .ok out :=
  ⟨rfl, exIn_file, exIn_reads, exIn_points.1, exIn_points.2, rfl, exIn_alpha, exIn_hdist, azimuth_terminates _ exIn_hdist⟩

/-! ### Round 13 — `ReadsInternal` derived for the reader; `FileCoords` witnessed by the regenerated tables -/

/-- **`ReadsInternal` derived (definitional link)**: the reader `Lin.netOfInput n st ori` — the `Lin.Net` whose `pt i`
    holds x, y, z of `(Input.removeInconsistency n).points[i]` (missing: the default-constructed point, as
    `PE.ptAt`), whose `xNorth` is `xNorthAngle()` of the same `axes-xy` / `angles` — satisfies `ReadsInternal`
    (every status assignment, every orientation table) and `hN`, both by unfolding.
    NOT TIED by a proof: that gama's `LocalNetwork` hands `PD` as `remove_inconsistency()` left it to
    `LocalLinearization` is the C++ fact this reader mirrors.  It is exercised by the `net` stream of
    `tools/props/c05.py`: `harness/c05_net.cpp`, op `load`, runs `IS->remove_inconsistency()` right after parsing
    and before every `project_equations()`, and dumps the `PD` the pass read (the `P` lines) for the Lean driver —
    but that stream starts AFTER the mirroring (it never sees the file coordinates), so the reader itself is a
    definition of this file, not a regenerated one. -/
theorem C05_reads_internal_of_reader (n : Input.Net ℝ) (st : Nat → Status × Status) (ori : Nat → ℝ) :
    ReadsInternal (netOfInput n st ori) n ∧
    (netOfInput n st ori).xNorth = Gen.XNorth.xNorthAngle n.cs (!n.leftHandedAngles) :=
  ⟨reads_internal_netOfInput n st ori, rfl⟩

/-- `ReadsInternal` for what `PE.linPass` reads of the network record (`PE.sigmaOf`, `PE.ptAt`), when the record
    lists the internal points with xy at the same positions with the same x, y (`HoldsInput`: a hypothesis — no
    function `Input.Net → PE.Net` is modelled; identifiers, clusters, statuses come from elsewhere) -/
theorem C05_reads_internal_of_network_record (net : PE.Net ℝ) (n : Input.Net ℝ) (h : HoldsInput net n) :
    ReadsInternal (PE.sigmaOf net) n := reads_internal_sigmaOf net n h

/-- **azimuth, geographic form, from the input, read by the reader**: `ReadsInternal` and `hN` REMOVED.  What is
    left: `FileCoords` (the meaning of the axes code), `hα` (α is the geographic azimuth), the point look-ups, and the
    two run-time facts (outside the cut, `azimuth` returned). -/
theorem C05_azimuth_rhs_geographic_from_input_reader (n : Input.Net ℝ) (hrem : n.removed = false) (E N : Nat → ℝ)
    (hfile : FileCoords n E N) (st : Nat → Status × Status) (ori : Nat → ℝ) (ob : NObs ℝ)
    (pi pj : Input.NetPoint ℝ)
    (hi : (Input.removeInconsistency n).points[ob.pfrom]? = some pi) (hj : (Input.removeInconsistency n).points[ob.pto]? = some pj)
    (hxi : pi.hasXY = true) (hxj : pj.hasXY = true)
    (α : ℝ) (hα : IsPolarAngle (N ob.pto - N ob.pfrom) (E ob.pto - E ob.pfrom) α)
    (fuel : Nat) (out : LinOut ℝ) (h : ¬ hdist ((netOfInput n st ori).view ob) < CUT)
    (hok : Gen.Lin.azimuth fuel ((netOfInput n st ori).view ob) = .ok out) :
    IsWrapOf ((ob.value - (if (!n.leftHandedAngles) then -α else α)) * R2CC) out.rhs :=
  azimuth_rhs_geographic_from_input_reader n hrem E N hfile st ori ob pi pj hi hj hxi hxj α hα fuel out h hok

-- non-vacuity (reader): `exIn` read by `netOfInput`; every hypothesis is met and `azimuth` returns
example : exIn.removed = false ∧ FileCoords exIn exInE exInN ∧
    (Input.removeInconsistency exIn).points[exInOb.pfrom]? = some ⟨true, 0, 0, 0⟩ ∧
    (Input.removeInconsistency exIn).points[exInOb.pto]? = some ⟨true, 0, -100, 0⟩ ∧
    IsPolarAngle (exInN exInOb.pto - exInN exInOb.pfrom) (exInE exInOb.pto - exInE exInOb.pfrom) 0 ∧
    ¬ hdist ((netOfInput exIn (fun _ => (.free, .free)) (fun _ => 0)).view exInOb) < CUT ∧
    ∃ fuel out, Gen.Lin.azimuth fuel ((netOfInput exIn (fun _ => (.free, .free)) (fun _ => 0)).view exInOb) = .ok out :=
  ⟨rfl, exIn_file, exIn_points.1, exIn_points.2, exIn_alpha, exIn_reader_hdist, azimuth_terminates _ exIn_reader_hdist⟩

-- non-vacuity (`HoldsInput`): a network record with the two internal points of `exIn`
example : HoldsInput exInPE exIn ∧ ReadsInternal (PE.sigmaOf exInPE) exIn :=
  ⟨exInPE_holds, reads_internal_sigmaOf _ _ exInPE_holds⟩

/-- under `FileCoords`, a line of geographic azimuth `α` between two points with xy has, in the coordinates
    `remove_inconsistency` left, the bearing `(α in the sense in force) + xNorthAngle` — all 8 codes × 2 senses -/
theorem C05_internal_bearing_from_input (n : Input.Net ℝ) (hrem : n.removed = false) (E N : Nat → ℝ)
    (hfile : FileCoords n E N) (i j : Nat) (pi pj : Input.NetPoint ℝ)
    (hi : (Input.removeInconsistency n).points[i]? = some pi) (hj : (Input.removeInconsistency n).points[j]? = some pj)
    (hxi : pi.hasXY = true) (hxj : pj.hasXY = true)
    (α : ℝ) (hα : IsPolarAngle (N j - N i) (E j - E i) α) :
    IsPolarAngle (pj.x - pi.x) (pj.y - pi.y)
      ((if (!n.leftHandedAngles) then -α else α) + (Gen.XNorth.xNorthAngle n.cs (!n.leftHandedAngles) : ℝ)) :=
  internal_bearing_from_input n hrem E N hfile i j pi pj hi hj hxi hxj α hα

/-- **the documented convention matches the regenerated `xNorthAngle()`**.  doc/gama-local-input.texi:
    "`axes-xy="ne"` orientation of axes `x` and `y`; value `ne` implies that axis `x` is oriented north and axis `y`
    is oriented east. Acceptable values are `ne`, `sw`, `es`, `wn` for left-handed coordinate systems and `en`, `nw`,
    `se`, `ws` for right-handed coordinate systems"; lcoords.h: "`EN, NW, SE, WS, // plane right-handed systems`
    `NE, SW, ES, WN // plane left-handed systems`".
    IF the file coordinates are the components of the ground positions along the axes so declared (`FileCoords`:
    `x = comp cs.xDir E N`, `y = comp cs.yDir E N`), THEN for every code and both angle senses the regenerated
    `Gen.XNorth.xNorthAngle cs rh` is a polar angle of the line DUE NORTH in the coordinates `remove_inconsistency`
    left: the angle, in the sense in force, from the internal +x axis to geographic north.
    (`IsPolarAngle` fixes the angle mod 2π when the two points differ; for `N i = N j` the statement is empty.) -/
theorem C05_file_coords_convention_matches_xnorth (n : Input.Net ℝ) (hrem : n.removed = false) (E N : Nat → ℝ)
    (hfile : FileCoords n E N) (i j : Nat) (pi pj : Input.NetPoint ℝ)
    (hi : (Input.removeInconsistency n).points[i]? = some pi) (hj : (Input.removeInconsistency n).points[j]? = some pj)
    (hxi : pi.hasXY = true) (hxj : pj.hasXY = true) (hE : E j = E i) (hN : N i ≤ N j) :
    IsPolarAngle (pj.x - pi.x) (pj.y - pi.y) (Gen.XNorth.xNorthAngle n.cs (!n.leftHandedAngles) : ℝ) :=
  xnorth_is_bearing_of_north n hrem E N hfile i j pi pj hi hj hxi hxj hE hN

-- non-vacuity: `exIn` (axes `en`, clockwise angles), P0 → P1 is due north, 100 m; internally (0, −100), bearing 300 gon
example : exIn.removed = false ∧ FileCoords exIn exInE exInN ∧
    (Input.removeInconsistency exIn).points[0]? = some ⟨true, 0, 0, 0⟩ ∧
    (Input.removeInconsistency exIn).points[1]? = some ⟨true, 0, -100, 0⟩ ∧ exInE 1 = exInE 0 ∧ exInN 0 ≤ exInN 1 :=
  ⟨rfl, exIn_file, exIn_points.1, exIn_points.2, exIn_north.1, exIn_north.2⟩

/-- **… and with no other reading**: for each of the 8 codes, among the 4 × 4 assignments "+x points to `dx`, +y points
    to `dy`" of compass directions (N, E, S, W) to the two axes, `dx = cs.xDir`, `dy = cs.yDir` (first letter = +x,
    second letter = +y) is the ONLY one for which
    (a) the regenerated `xNorthAngle()` table is, for both angle senses, north seen from `dx` in that sense
        (`(400 − sense(az dx)) mod 400` gon), and
    (b), (c) the regenerated classification of lcoords.h is that of the pair: `left_handed_coordinates()` iff `dy` is
        `dx` turned clockwise by 100 gon, `right_handed_coordinates()` iff `dx` is `dy` turned clockwise by 100 gon.
    A finite statement about the generated tables (8 × 16 cases by evaluation); what it does NOT say: that the parser
    maps the string "en" to `CS::EN` (that is `Input.parseAxes`, C07's stream). -/
theorem C05_file_coords_convention_unique (cs : CS) (dx dy : Dir) :
    ((∀ rh : Bool, Gen.XNorth.xNorthGon cs rh = (((400 - senseGon rh dx.az) % 400 : Nat) : Int)) ∧
     (Gen.XNorth.leftHandedCoordinates cs = true ↔ dy.az = (dx.az + 100) % 400) ∧
     (Gen.XNorth.rightHandedCoordinates cs = true ↔ dx.az = (dy.az + 100) % 400))
    ↔ dx = cs.xDir ∧ dy = cs.yDir := axes_reading_unique cs dx dy

/-- the `xNorthAngle()` table alone, in one sense, already fixes the +x axis -/
theorem C05_xnorth_fixes_x_axis (cs : CS) (rh : Bool) (dx : Dir)
    (h : Gen.XNorth.xNorthGon cs rh = (((400 - senseGon rh dx.az) % 400 : Nat) : Int)) : dx = cs.xDir :=
  xnorth_fixes_xDir cs rh dx h

-- non-vacuity: the reading "en = x east, y north" is accepted, the swapped one "x north, y east" is refuted, and the
-- hypothesis of `C05_xnorth_fixes_x_axis` holds for `en`, clockwise, `dx = E`
example : AxesReading .EN .E .N ∧ ¬ AxesReading .EN .N .E ∧
    Gen.XNorth.xNorthGon .EN false = (((400 - senseGon false Dir.E.az) % 400 : Nat) : Int) :=
  ⟨(axes_reading_unique .EN .E .N).2 ⟨rfl, rfl⟩, fun h => by
    have := ((axes_reading_unique .EN .N .E).1 h).1; exact absurd this (by decide), by decide⟩

/-- **the bearing law singles out the reading** (semantic form of the uniqueness, over ℝ, for each code and EACH angle
    sense separately): "every line of geographic azimuth `α` has, in coordinates `x = comp dx E N`,
    `y = y_sign · comp dy E N`, the bearing `(α in the sense in force) + xNorthAngle cs rh`" — the relation that makes the
    azimuth / direction right-hand sides geographic — holds for the reading `(dx, dy)` of the code IF AND ONLY IF
    `dx = cs.xDir ∧ dy = cs.yDir`.  `y_sign` (`Gen.XNorth.consistent`) and `xNorthAngle` are the regenerated ones; the
    refutation of the 15 other readings uses only the lines due north and due east.  So `FileCoords` is not one of
    several hypotheses under which the code would be right: it is the only reading of `axes-xy` (among compass
    directions) under which gama's azimuths are geographic. -/
theorem C05_bearing_law_singles_out_reading (cs : CS) (rh : Bool) (dx dy : Dir) :
    (∀ dE dN α : ℝ, IsPolarAngle dN dE α →
      IsPolarAngle (comp dx dE dN) (ySign cs rh * comp dy dE dN)
        ((if rh then -α else α) + (Gen.XNorth.xNorthAngle cs rh : ℝ)))
    ↔ dx = cs.xDir ∧ dy = cs.yDir := bearing_law_unique cs rh dx dy

-- non-vacuity: for `en`, clockwise: the law holds for (E, N) and fails for the swapped reading (N, E)
example : BearingLaw .EN false .E .N ∧ ¬ BearingLaw .EN false .N .E :=
  ⟨(bearing_law_unique .EN false .E .N).2 ⟨rfl, rfl⟩, fun h =>
    absurd ((bearing_law_unique .EN false .N .E).1 h).1 (by decide)⟩

end Gama.Props.C05Input
