/-
  C15 — Dense matrix library obeys the algebra it implements.
  Property theorems only; helper lemmas live in Gama/Lemmas.
-/
import Gama.Lemmas.MemRepRefine
import Gama.Lemmas.MatInvertPerm
import Gama.Lemmas.MatVecAlg
import Gama.Lemmas.SymChol
import Gama.Lemmas.DimChecks
import Gama.Gen.DimChecks
import Gama.Lemmas.PinvMP
import Gama.Lemmas.MatInvertGJ
import Gama.Lemmas.SymInvert
import Gama.Lemmas.SymCholPSD
import Gama.Lemmas.MatVecGuards
import Gama.Lemmas.SymInvertPD
import Gama.Lemmas.SymCholReal
import Gama.Lemmas.MatObj
import Gama.Lemmas.MatObjInv
import Gama.Gen.MatMembers
namespace Gama.Props.C15
open Gama Gama.MemRep Gama.MatVec

/-! ## (A) Value semantics of the owning buffer `MemRep` -/

/-- **Refinement for every history.**  Any script of construct / copy-construct /
    move-construct / copy-assign / move-assign / resize / write / destroy operations, run on
    the explicit heap from the empty state, either completes and then every slot holds exactly
    the value that the same script yields on independent values (copy duplicates, move
    transfers and leaves the source empty, nothing is shared), or stops at the same operation
    with the same reason (`BadRank` thrown, or a precondition of the caller broken) — never
    because a block that is not allocated was freed, read or written.  The ownership invariant
    (no block owned twice, every `rep` points to a live block of `sz` elements, `nullptr` only
    with `sz = 0`) holds in the final state. -/
theorem value_semantics {K : Type} [Inhabited K] (ops : List (Op K)) :
    match run (St.init : St K) ops with
    | .ok s => Inv s ∧ specRun (fun _ => none) ops = .ok (val s)
    | .error e => specRun (fun _ => none) ops = .error e ∧ e ≠ .heapFault := by
  have h := run_refines ops (St.init : St K) inv_init
  have hv : val (St.init : St K) = fun _ => none := by funext k; simp [val, St.init]
  rw [hv] at h; exact h

/-- one operation from any state satisfying the invariant -/
theorem step_value_semantics {K : Type} [Inhabited K] {s s' : St K} (h : Inv s) {op : Op K}
    (hs : step s op = .ok s') : Inv s' ∧ spec (val s) op = .ok (val s') := step_ok h hs

/-- no operation frees, reads or writes a block that is not allocated -/
theorem no_heap_fault {K : Type} [Inhabited K] {s : St K} (h : Inv s) (op : Op K) :
    step s op ≠ .error .heapFault := step_no_heapFault h op

/-- **Copies are independent of their source whatever the sizes.**  After `b = a`
    (slots `j`, `i`, any two sizes including 0) a write through `b` leaves `a` unchanged and
    a write through `a` leaves `b` unchanged. -/
theorem copy_independent {K : Type} [Inhabited K] {s s1 s2 : St K} (h : Inv s) {i j k : Nat} {v : K}
    (hij : i ≠ j) (h1 : step s (.assign j i) = .ok s1) :
    val s1 j = val s i ∧ val s1 i = val s i ∧
    (step s1 (.write j k v) = .ok s2 → val s2 i = val s i) ∧
    (step s1 (.write i k v) = .ok s2 → val s2 j = val s i) := by
  obtain ⟨hI1, hs1⟩ := step_ok h h1
  have e1 : val s1 = upd (val s) j (val s i) := by
    simp only [spec] at hs1
    cases hvj : val s j with
    | none => simp [hvj] at hs1
    | some lj =>
      cases hvi : val s i with
      | none => simp [hvj, hvi] at hs1
      | some li => simp only [hvj, hvi, Except.ok.injEq] at hs1; exact hs1.symm
  have a1 : val s1 j = val s i := by rw [e1]; simp
  have a2 : val s1 i = val s i := by rw [e1]; exact upd_other _ _ hij
  refine ⟨a1, a2, ?_, ?_⟩
  · intro h2
    obtain ⟨_, hs2⟩ := step_ok hI1 h2
    simp only [spec] at hs2
    cases hv : val s1 j with
    | none => simp [hv] at hs2
    | some l =>
      simp only [hv] at hs2
      split at hs2
      · simp only [Except.ok.injEq] at hs2
        rw [← hs2, upd_other _ _ hij, a2]
      · cases hs2
  · intro h2
    obtain ⟨_, hs2⟩ := step_ok hI1 h2
    simp only [spec] at hs2
    cases hv : val s1 i with
    | none => simp [hv] at hs2
    | some l =>
      simp only [hv] at hs2
      split at hs2
      · simp only [Except.ok.injEq] at hs2
        rw [← hs2, upd_other _ _ (Ne.symm hij), a1]
      · cases hs2

/-- `memcpy` is never called with a null pointer (the code after commit 87f5175:
    `if (sz) std::memcpy(…)`), for every history -/
theorem no_null_memcpy {K : Type} [Inhabited K] (ops : List (Op K)) {s : St K}
    (h : run (St.init : St K) ops = .ok s) : s.ubNull = 0 := by
  have := run_ubNull ops h; simpa [St.init] using this

-- non-vacuity: a script with copies between different sizes incl. 0, a move and writes
example : (match run (St.init : St Nat)
      [.ctor 0 3, .write 0 1 7, .ctor 1 0, .assign 1 0, .write 1 0 9, .copyCtor 2 1,
       .ctor 3 0, .assign 0 3, .moveAssign 3 2, .resize 1 2, .dtor 0] with
    | .ok s => (val s 0, val s 1, val s 2, val s 3, s.leaked.length)
    | .error _ => (none, none, none, none, 99))
    = (none, some [0, 0], some [], some [9, 7, 0], 1) := by decide

/-! ## (A) Index maps are bijections -/

/-- `Mat::operator()(r,c) = (r−1)·cols + (c−1)` maps `[1,rows]×[1,cols]` one-to-one onto
    `[0, rows·cols)` -/
theorem mat_index_bijection (rows cols : Nat) :
    (∀ r c, 1 ≤ r ∧ r ≤ rows → 1 ≤ c ∧ c ≤ cols → matIdx cols r c < rows * cols) ∧
    (∀ r c r' c', 1 ≤ r ∧ r ≤ rows → 1 ≤ c ∧ c ≤ cols → 1 ≤ r' ∧ r' ≤ rows → 1 ≤ c' ∧ c' ≤ cols →
        matIdx cols r c = matIdx cols r' c' → r = r' ∧ c = c') ∧
    (∀ p, p < rows * cols → ∃ r c, (1 ≤ r ∧ r ≤ rows) ∧ (1 ≤ c ∧ c ≤ cols) ∧ matIdx cols r c = p) :=
  ⟨fun _ _ hr hc => matIdx_lt hr hc,
   fun _ _ _ _ hr hc hr' hc' h => matIdx_inj hr.1 hc hr'.1 hc' h,
   fun _ hp => matIdx_surj hp⟩

/-- `SymMat::operator()(i,j)`: the lower triangle `1 ≤ j ≤ i ≤ n` maps one-to-one onto
    `[0, n(n+1)/2)`, and `(i,j)`, `(j,i)` share their cell -/
theorem symmat_index_bijection (n : Nat) :
    (∀ i j, 1 ≤ j → j ≤ i → i ≤ n → symIdx i j < n * (n + 1) / 2) ∧
    (∀ i j i' j', 1 ≤ j → j ≤ i → 1 ≤ j' → j' ≤ i' → symIdx i j = symIdx i' j' → i = i' ∧ j = j') ∧
    (∀ p, p < n * (n + 1) / 2 → ∃ i j, 1 ≤ j ∧ j ≤ i ∧ i ≤ n ∧ symIdx i j = p) ∧
    (∀ i j, symIdx i j = symIdx j i) :=
  ⟨fun _ _ h1 h2 h3 => symIdx_lt h1 h2 h3, fun _ _ _ _ h1 h2 h3 h4 h => symIdx_inj h1 h2 h3 h4 h,
   fun _ hp => symIdx_surj hp, symIdx_symm⟩

example : (List.range 6).map (fun p => (triRow 3 p, symIdx (triRow 3 p).1 (triRow 3 p).2))
    = [((1,1),0), ((2,1),1), ((2,2),2), ((3,1),3), ((3,2),4), ((3,3),5)] := by decide

/-! ## (A) Sums, products and transposes equal their definitions, for all dimensions -/

/-- both product implementations (`operator*(const Mat&, const Mat&)` with pointer walks and the
    generic `operator*(const MatBase&, const MatBase&)`) return, for conforming well-formed
    operands, the same matrix, and it is the Mathlib matrix product — no read outside the operands -/
theorem product_def {K : Type} [Semiring K] (A B : Mat K) (hA : A.WF) (hB : B.WF)
    (hc : A.cols = B.rows) (d : K) :
    ∃ C, matMul A B = .ok C ∧ mbMul A.mb B.mb = .ok C ∧ C.rows = A.rows ∧ C.cols = B.cols ∧
      C.toMatrix d A.rows B.cols = A.toMatrix d A.rows A.cols * (B.toMatrix d A.cols B.cols) :=
  matMul_toMatrix A B hA hB hc d

/-- entrywise form with explicit finite sums -/
theorem product_entries {K : Type} [Semiring K] (A B : Mat K) (hA : A.WF) (hB : B.WF)
    (hc : A.cols = B.rows) (d : K) :
    ∃ C, matMul A B = .ok C ∧ C.rows = A.rows ∧ C.cols = B.cols ∧ C.WF ∧
      ∀ i j, i < A.rows → j < B.cols → C.at d i j = ∑ k ∈ Finset.range A.cols, A.at d i k * B.at d k j :=
  matMul_spec A B hA hB hc d

theorem sum_def {K : Type} [Add K] (A B : Mat K) (hA : A.WF) (hB : B.WF)
    (hr : A.rows = B.rows) (hc : A.cols = B.cols) (d : K) :
    ∃ C, matAdd A B = .ok C ∧ C.rows = A.rows ∧ C.cols = A.cols ∧ C.WF ∧
      ∀ i j, i < A.rows → j < A.cols → C.at d i j = A.at d i j + B.at d i j :=
  matAdd_spec A B hA hB hr hc d

theorem difference_def {K : Type} [Sub K] (A B : Mat K) (hA : A.WF) (hB : B.WF)
    (hr : A.rows = B.rows) (hc : A.cols = B.cols) (d : K) :
    ∃ C, matSub A B = .ok C ∧ C.rows = A.rows ∧ C.cols = A.cols ∧ C.WF ∧
      ∀ i j, i < A.rows → j < A.cols → C.at d i j = A.at d i j - B.at d i j :=
  matSub_spec A B hA hB hr hc d

/-- `Mat::transpose()` / `Mat(trans(A))` is the transpose, also for non-square matrices -/
theorem transpose_def {K : Type} (A : Mat K) (hA : A.WF) (d : K) :
    ∃ C, matTranspose A = .ok C ∧ C.rows = A.cols ∧ C.cols = A.rows ∧
      C.toMatrix d A.cols A.rows = (A.toMatrix d A.rows A.cols).transpose := by
  obtain ⟨C, h1, h2, h3, _, _⟩ := matTranspose_spec A hA d
  obtain ⟨C', h1', h5⟩ := matTranspose_toMatrix A hA d
  rw [h1] at h1'; cases h1'
  exact ⟨C, h1, h2, h3, h5⟩

example : matMul (⟨2, 3, #[1, 2, 3, 4, 5, 6]⟩ : Mat Int) ⟨3, 1, #[1, 0, -1]⟩
    = .ok ⟨2, 1, #[-2, -2]⟩ := by decide
example : matTranspose (⟨2, 3, #[1, 2, 3, 4, 5, 6]⟩ : Mat Int) = .ok ⟨3, 2, #[1, 4, 2, 5, 3, 6]⟩ := by decide

/-! ## (A) Dimension guards: `BadRank` is thrown iff the operands do not conform -/

theorem product_badRank_iff {K : Type} [Semiring K] (A B : Mat K) (hA : A.WF) (hB : B.WF) :
    (matMul A B = .error .badRank ↔ A.cols ≠ B.rows) ∧
    (mbMul A.mb B.mb = .error .badRank ↔ A.cols ≠ B.rows) := by
  constructor
  · constructor
    · intro h hc
      obtain ⟨C, h1, _⟩ := matMul_spec A B hA hB hc (0 : K)
      rw [h1] at h; cases h
    · intro h; simp [matMul, h]
  · constructor
    · intro h hc
      obtain ⟨C, h1, _⟩ := mbMul_spec A B hA hB hc (0 : K)
      rw [h1] at h; cases h
    · intro h; simp [mbMul, Mat.mb, h]

theorem sum_badRank_iff {K : Type} [Add K] [Inhabited K] (A B : Mat K) (hA : A.WF) (hB : B.WF) :
    matAdd A B = .error .badRank ↔ (A.rows ≠ B.rows ∨ A.cols ≠ B.cols) := by
  constructor
  · intro h
    by_cases hc : A.rows ≠ B.rows ∨ A.cols ≠ B.cols
    · exact hc
    · have hr : A.rows = B.rows := by by_contra hh; exact hc (Or.inl hh)
      have hc' : A.cols = B.cols := by by_contra hh; exact hc (Or.inr hh)
      obtain ⟨C, h1, _⟩ := matAdd_spec A B hA hB hr hc' default
      rw [h1] at h; cases h
  · intro h; simp [matAdd, h]

example : matMul (⟨2, 3, #[1, 2, 3, 4, 5, 6]⟩ : Mat Int) ⟨2, 1, #[1, 0]⟩ = .error .badRank := by decide


/-! ## (A) Dimension guards, for EVERY operator: the table regenerated from lib/matvec/*.h

    `Gen/DimChecks.lean` is rewritten on every run by `tools/gen/c15_dimchecks.py` from mat.h, vec.h,
    vecbase.h, symmat.h, matvecbase.h, matbase.h, transmat.h, transvec.h: per operator the effective
    guard (own `if (…) throw BadRank` plus the guard of the `MatVecBase::add/sub/mul` / `VecBase::dot`
    it delegates to).  `Model/DimCheck.lean` says what `rows() cols() dim() size()` return and what the
    loops after the guard rely on. -/

/-- **Every guard implies conformity in SHAPE, for all shapes.**  For every operator of the table
    except `operator*(Vec,TransMat)` (known finding, next theorem): whatever the reported dimensions
    of the operands (subject to the class invariants Vec n×1, TransVec 1×n, SymMat n×n), if the guard
    does not throw `BadRank` then sums/differences/`dot` have operands of the same shape (rows AND
    columns, not only the same element count), products have matching inner dimensions,
    `invert`/`Lower`/`Upper` get a square matrix and the storage primitives equally long storage.
    A removed or weakened guard (e.g. the member `Mat::operator+` relying on `MatVecBase::add`, which
    compares `size()` only) makes the `decide` fail. -/
theorem guards_conforming :
    ∀ e ∈ Gen.DimChecks.table, ["operator*(Vec,TransMat)"].contains e.name = false →
      ∀ (sa sb : DimCheck.Shape) (nr : Nat), DimCheck.WF e.ka sa = true → DimCheck.WF e.kb sb = true →
        DimCheck.guardFires e sa sb nr = false → DimCheck.conforming e.cls e.ka e.kb sa sb nr :=
  fun e he hs sa sb nr ha hb hg =>
    DimCheck.table_sound Gen.DimChecks.table ["operator*(Vec,TransMat)"] (by decide) e he hs sa sb nr ha hb hg

/-- `operator*(const Vec&, const TransMat&)` tests `A.rows() != b.dim()`: a 2-vector and a 2×3 view
    pass the guard although an n×1 times r×c product needs r = 1 (known finding C15-vec-transmat;
    the same operands make the loops read outside `A`, theorem `vec_transmat_violates`) -/
theorem guards_vec_transmat_violates :
    (DimCheck.find? Gen.DimChecks.table "operator*(Vec,TransMat)").any (fun e =>
      !DimCheck.covers e && DimCheck.WF e.ka ⟨2, 1⟩ && DimCheck.WF e.kb ⟨2, 3⟩ &&
      !DimCheck.guardFires e ⟨2, 1⟩ ⟨2, 3⟩ 0 &&
      !decide (DimCheck.conforming e.cls e.ka e.kb ⟨2, 1⟩ ⟨2, 3⟩ 0)) = true := by
  decide

-- non-vacuity: the member `Mat::operator+` — 2×3 + 2×3 passes its guard, 2×3 + 3×2 (same element
-- count) does not; with only the delegate's `size()` atoms it would pass and the check `covers` fails
example : (DimCheck.find? Gen.DimChecks.table "Mat::operator+(Mat)").any (fun e =>
    e.via == "MatVecBase::add" &&
    !DimCheck.guardFires e ⟨2, 3⟩ ⟨2, 3⟩ 6 && DimCheck.guardFires e ⟨2, 3⟩ ⟨3, 2⟩ 6 &&
    !DimCheck.guardFires { e with guard := e.guard.drop e.own } ⟨2, 3⟩ ⟨3, 2⟩ 6 &&
    DimCheck.covers e && !DimCheck.covers { e with guard := e.guard.drop e.own }) = true := by
  decide
example : Gen.DimChecks.table.length = 52 := by decide

/-! ## (A) The regenerated table IS the guard of the operator models, and the guard is exactly what
    keeps the models' index arithmetic inside the operands

    `guards_conforming` is about the TABLE.  The theorems of this section tie every table entry to the
    operator model the drivers run (`Model/MatVec.lean`; same pairing as `GUARD_OF` in tools/props/c15.py).
    `TableGuards name sa sb nr r` (`Lemmas/MatVecGuards.lean`) says: the regenerated table has an entry
    `name`; the run `r` is `.error .badRank` IFF that entry's guard fires on the shapes `sa`, `sb` the
    operands report (`nr` = `size()` of the local result object handed to `MatVecBase::add/sub`); and if
    the guard does not fire, `r ≠ .error .oob` — every checked read of the model hits the storage.
    Operands satisfy the class invariants (`WF`: the storage has `rows·cols` resp. `dim(dim+1)/2`
    elements; for an abstract `MatBase`, `operator()` is defined on `[1,rows]×[1,cols]`).
    Chain: source guard —translator→ table —these theorems→ model guard and in-bounds
    —`product_def`/`sum_def`/…→ entrywise algebra.  Covered: 45 of the 52 entries (+ the guard half of
    `operator*(Vec,TransMat)`); not covered: `MatBase::invert()`, `SymMat::invert()`, `trans(Vec)`,
    `trans(TransVec)`, `trans(SymMat)` (no guard, and no storage-indexed model), and the in-bounds half of
    `operator*(Vec,TransMat)`, which is FALSE (`vec_transmat_guard_only`). -/

section guards
variable {K : Type}

/-- Mat ± Mat: the members (through `MatVecBase::add/sub`, local result `Mat T(rows(), cols())`) and
    the free `MatBase` versions (any two `MatBase`: Mat, TransMat, SymMat views) -/
theorem sum_guards_table [Add K] [Sub K] (A B : Mat K) (hA : A.WF) (hB : B.WF)
    (X Y : MB K) (hX : X.WF) (hY : Y.WF) (nr : Nat) :
    TableGuards "Mat::operator+(Mat)" A.shape B.shape (A.rows * A.cols) (matAdd A B) ∧
    TableGuards "Mat::operator-(Mat)" A.shape B.shape (A.rows * A.cols) (matSub A B) ∧
    TableGuards "operator+(MatBase,MatBase)" X.shape Y.shape nr (mbZip (· + ·) X Y) ∧
    TableGuards "operator-(MatBase,MatBase)" X.shape Y.shape nr (mbZip (· - ·) X Y) :=
  ⟨matAdd_table A B hA hB, matSub_table A B hA hB, mbAdd_table X Y hX hY nr, mbSub_table X Y hX hY nr⟩

/-- Mat · Mat (pointer walks) and MatBase · MatBase (accessors) -/
theorem product_guards_table [Add K] [Mul K] [Zero K] (A B : Mat K) (hA : A.WF) (hB : B.WF)
    (X Y : MB K) (hX : X.WF) (hY : Y.WF) (nr : Nat) :
    TableGuards "operator*(Mat,Mat)" A.shape B.shape nr (matMul A B) ∧
    TableGuards "operator*(MatBase,MatBase)" X.shape Y.shape nr (mbMul X Y) :=
  ⟨matMul_table A B hA hB nr, mbMul_table X Y hX hY nr⟩

/-- Mat · Vec, MatBase · Vec, TransMat · Vec -/
theorem matvec_guards_table [Add K] [Mul K] [Zero K] (A : Mat K) (hA : A.WF) (X : MB K) (hX : X.WF)
    (T : TMat K) (hT : T.WF) (b : Vec K) (nr : Nat) :
    TableGuards "operator*(Mat,Vec)" A.shape (vshape b) nr (matMulVec A b) ∧
    TableGuards "operator*(MatBase,Vec)" X.shape (vshape b) nr (mbMulVec X b) ∧
    TableGuards "operator*(TransMat,Vec)" T.shape (vshape b) nr (tMulVec T b) :=
  ⟨matMulVec_table A b hA nr, mbMulVec_table X b hX nr, tMulVec_table T b hT nr⟩

/-- Vec · Mat: `TransVec * Mat`, `TransVec * MatBase` -/
theorem vecmat_guards_table [Add K] [Mul K] [Zero K] (A : Mat K) (hA : A.WF) (X : MB K) (hX : X.WF)
    (b : Vec K) (nr : Nat) :
    TableGuards "operator*(TransVec,Mat)" (wshape b) A.shape nr (tvecMulMat b A) ∧
    TableGuards "operator*(TransVec,MatBase)" (wshape b) X.shape nr (tvecMulMB b X) :=
  ⟨tvecMulMat_table b A hA nr, tvecMulMB_table b X hX nr⟩

/-- `dot`, `TransVec * Vec`, and the sums of Vec / TransVec (`+ - += -=`) -/
theorem vec_guards_table [Add K] [Sub K] [Mul K] [Zero K] (a b : Vec K) (nr : Nat) :
    TableGuards "VecBase::dot(VecBase)" (vshape a) (vshape b) nr (dot a b) ∧
    TableGuards "operator*(TransVec,Vec)" (wshape a) (vshape b) nr (dot a b) ∧
    TableGuards "Vec::operator+(Vec)" (vshape a) (vshape b) a.size (vecAdd a b) ∧
    TableGuards "Vec::operator-(Vec)" (vshape a) (vshape b) a.size (vecSub a b) ∧
    TableGuards "Vec::operator+=(Vec)" (vshape a) (vshape b) nr (vecAdd a b) ∧
    TableGuards "Vec::operator-=(Vec)" (vshape a) (vshape b) nr (vecSub a b) ∧
    TableGuards "TransVec::operator+(TransVec)" (wshape a) (wshape b) a.size (vecAdd a b) ∧
    TableGuards "TransVec::operator-(TransVec)" (wshape a) (wshape b) a.size (vecSub a b) :=
  ⟨dot_table a b nr, tvecDot_table a b nr, vecAdd_table a b, vecSub_table a b, vecAddEq_table a b nr,
   vecSubEq_table a b nr, tvecAdd_table a b, tvecSub_table a b⟩

/-- the TransMat family: `TransMat ± TransMat`, `Mat ± TransMat`, `TransMat ± Mat`, the three products,
    and the unguarded `trans(Mat)` / `trans(TransMat)` (guard never fires, copy loops stay inside) -/
theorem transmat_guards_table [Add K] [Sub K] [Mul K] [Zero K] (A : Mat K) (hA : A.WF)
    (S T : TMat K) (hS : S.WF) (hT : T.WF) (sb : DimCheck.Shape) (nr : Nat) :
    TableGuards "TransMat::operator+(TransMat)" S.shape T.shape (S.rows * S.cols) (tAddT S T) ∧
    TableGuards "TransMat::operator-(TransMat)" S.shape T.shape (S.rows * S.cols) (tSubT S T) ∧
    TableGuards "operator+(Mat,TransMat)" A.shape T.shape nr (matAddT A T) ∧
    TableGuards "operator-(Mat,TransMat)" A.shape T.shape nr (matSubT A T) ∧
    TableGuards "operator+(TransMat,Mat)" T.shape A.shape nr (tAddMat T A) ∧
    TableGuards "operator-(TransMat,Mat)" T.shape A.shape nr (tSubMat T A) ∧
    TableGuards "operator*(TransMat,Mat)" T.shape A.shape nr (tMulMat T A) ∧
    TableGuards "operator*(Mat,TransMat)" A.shape T.shape nr (matMulT A T) ∧
    TableGuards "operator*(TransMat,TransMat)" S.shape T.shape nr (tMulT S T) ∧
    TableGuards "trans(Mat)" A.shape sb nr (matTranspose A) ∧
    TableGuards "trans(TransMat)" T.shape sb nr (transT T) :=
  ⟨tAddT_table S T hS hT, tSubT_table S T hS hT, matAddT_table A T hA hT nr, matSubT_table A T hA hT nr,
   tAddMat_table T A hT hA nr, tSubMat_table T A hT hA nr, tMulMat_table T A hT hA nr,
   matMulT_table A T hA hT nr, tMulT_table S T hS hT nr, matTranspose_table A hA sb nr, transT_table T hT sb nr⟩

/-- the SymMat family: member `±` (through `MatVecBase::add/sub`), free `± += -=`, `SymMat * SymMat`
    (guard and indices right — the VALUE is the known finding `symmat_product_violates`),
    `Mat * SymMat`, `Lower/Upper(Mat)`, and the unguarded `Lower/Upper(SymMat)` -/
theorem symmat_guards_table [Add K] [Sub K] [Mul K] [Zero K] (A : Mat K) (hA : A.WF)
    (S T : SMat K) (hS : S.WF) (hT : T.WF) (sb : DimCheck.Shape) (nr : Nat) :
    TableGuards "SymMat::operator+(SymMat)" S.shape T.shape (S.dim * (S.dim + 1) / 2) (symAdd S T) ∧
    TableGuards "SymMat::operator-(SymMat)" S.shape T.shape (S.dim * (S.dim + 1) / 2) (symSub S T) ∧
    TableGuards "operator+(SymMat,SymMat)" S.shape T.shape nr (symZipFree (· + ·) S T) ∧
    TableGuards "operator-(SymMat,SymMat)" S.shape T.shape nr (symZipFree (· - ·) S T) ∧
    TableGuards "operator+=(SymMat,SymMat)" S.shape T.shape nr (symZipFree (· + ·) S T) ∧
    TableGuards "operator-=(SymMat,SymMat)" S.shape T.shape nr (symZipFree (· - ·) S T) ∧
    TableGuards "operator*(SymMat,SymMat)" S.shape T.shape nr (symMul S T) ∧
    TableGuards "operator*(Mat,SymMat)" A.shape T.shape nr (matMulSym A T) ∧
    TableGuards "Lower(Mat)" A.shape sb nr (matLowerSym A) ∧
    TableGuards "Upper(Mat)" A.shape sb nr (matUpperSym A) ∧
    TableGuards "Lower(SymMat)" S.shape sb nr (symLowerMat S) ∧
    TableGuards "Upper(SymMat)" S.shape sb nr (symUpperMat S) :=
  ⟨symAdd_table S T hS hT, symSub_table S T hS hT, symAddFree_table S T hS hT nr, symSubFree_table S T hS hT nr,
   symAddEq_table S T hS hT nr, symSubEq_table S T hS hT nr, symMul_table S T hS hT nr,
   matMulSym_table A T hA hT nr, matLowerSym_table A hA sb nr, matUpperSym_table A hA sb nr,
   symLowerMat_table S hS sb nr, symUpperMat_table S hS sb nr⟩

/-- the raw-storage primitives every member sum delegates to (`xsize` = `size()` of the result `X`) -/
theorem storage_guards_table [Add K] [Sub K] [Mul K] (a b : Array K) (f : K) (xsize nr : Nat) :
    TableGuards "MatVecBase::mul(Float,MatVecBase)" (rawshape a.size) (rawshape xsize) nr (baseMul a f xsize) ∧
    TableGuards "MatVecBase::add(MatVecBase,MatVecBase)" (rawshape a.size) (rawshape b.size) xsize (baseAdd a b xsize) ∧
    TableGuards "MatVecBase::sub(MatVecBase,MatVecBase)" (rawshape a.size) (rawshape b.size) xsize (baseSub a b xsize) :=
  ⟨baseMul_table a f xsize nr, baseAdd_table a b xsize, baseSub_table a b xsize⟩

/-- `Mat::invert(tol)`: `BadRank` iff the table's guard fires (the model keeps the storage as a function,
    so there is no read to bound) -/
theorem invert_guard_table [Scalar K] (rows cols : Nat) (tol : K) (m : Nat → K) (sb : DimCheck.Shape) (nr : Nat) :
    ∃ e, DimCheck.find? Gen.DimChecks.table "Mat::invert(Float)" = some e ∧
      (invert rows cols tol m = .error .badRank ↔ DimCheck.guardFires e ⟨rows, cols⟩ sb nr = true) :=
  invert_table_guard rows cols tol m sb nr

/-- views are `MatBase`s: the class invariant of Mat / TransMat / SymMat gives the `MatBase` one, so the
    `MatBase` statements above apply to every concrete matrix class -/
theorem views_wf (A : Mat K) (T : TMat K) (S : SMat K) :
    (A.WF → A.mb.WF) ∧ (T.WF → T.mb.WF) ∧ (S.WF → S.mb.WF) :=
  ⟨Mat.mb_WF, TMat.mb_WF, SMat.mb_WF⟩

/-- **known finding C15-vec-transmat, at the level of the operator model.**  For
    `operator*(const Vec&, const TransMat&)` the table's guard IS the model's guard (any operands), but
    the in-bounds half is false: a 2-vector and the 2×3 view of a 3×2 matrix satisfy the class
    invariants and pass the guard, and the run reads outside `A`.  (For `cols ≤ rows` views the reads
    stay inside: `vecMulT_guard_iff` in Lemmas.) -/
theorem vec_transmat_guard_only :
    (∀ {K : Type} [Add K] [Mul K] [Zero K] (b : Vec K) (A : TMat K) (nr : Nat),
      ∃ e, DimCheck.find? Gen.DimChecks.table "operator*(Vec,TransMat)" = some e ∧
        (vecMulT b A = .error .badRank ↔ DimCheck.guardFires e (vshape b) A.shape nr = true)) ∧
    (∃ (b : Vec Int) (A : TMat Int) (e : DimCheck.Entry), A.WF ∧
      DimCheck.find? Gen.DimChecks.table "operator*(Vec,TransMat)" = some e ∧
      DimCheck.guardFires e (vshape b) A.shape 0 = false ∧ vecMulT b A = .error .oob) := by
  refine ⟨fun b A nr => vecMulT_table_guard b A nr, ?_⟩
  obtain ⟨e, he, hiff⟩ := vecMulT_table_guard (#[1, 1] : Vec Int) (trans ⟨3, 2, #[1, 1, 1, 1, 1, 1]⟩) 0
  refine ⟨#[1, 1], trans ⟨3, 2, #[1, 1, 1, 1, 1, 1]⟩, e, rfl, he, ?_, by decide⟩
  cases hg : DimCheck.guardFires e (vshape (#[1, 1] : Vec Int)) (trans (⟨3, 2, #[1, 1, 1, 1, 1, 1]⟩ : Mat Int)).shape 0 with
  | false => rfl
  | true => have := hiff.mpr hg; revert this; decide

/-- **the chain closed for Mat · Mat**: if the guard the translator read off `operator*(Mat,Mat)` does
    not fire on the shapes of two well-formed matrices, the model run completes and its entries are
    `Σ_k A(i,k)·B(k,j)` -/
theorem product_chain [Semiring K] (A B : Mat K) (hA : A.WF) (hB : B.WF) (d : K) (nr : Nat) :
    ∃ e, DimCheck.find? Gen.DimChecks.table "operator*(Mat,Mat)" = some e ∧
      (DimCheck.guardFires e A.shape B.shape nr = false →
        ∃ C, matMul A B = .ok C ∧ C.rows = A.rows ∧ C.cols = B.cols ∧
          ∀ i j, i < A.rows → j < B.cols → C.at d i j = ∑ k ∈ Finset.range A.cols, A.at d i k * B.at d k j) := by
  obtain ⟨e, he, hiff, _⟩ := matMul_table A B hA hB nr
  refine ⟨e, he, fun hg => ?_⟩
  have hc : A.cols = B.rows := by
    by_contra hne
    have := hiff.mp ((product_badRank_iff A B hA hB).1.mpr hne)
    rw [hg] at this; cases this
  obtain ⟨C, h1, h2, h3, _, h5⟩ := matMul_spec A B hA hB hc d
  exact ⟨C, h1, h2, h3, h5⟩

end guards

-- non-vacuity: 2×3 · 3-vector passes the table's guard and completes; 2×3 · 2-vector fires it and throws
example : TableGuards "operator*(Mat,Vec)" (⟨2, 3, #[1, 2, 3, 4, 5, 6]⟩ : Mat Int).shape (vshape (#[1, 0, -1] : Vec Int)) 0
    (matMulVec (⟨2, 3, #[1, 2, 3, 4, 5, 6]⟩ : Mat Int) #[1, 0, -1]) :=
  matMulVec_table ⟨2, 3, #[1, 2, 3, 4, 5, 6]⟩ #[1, 0, -1] (show (6 : Nat) = 2 * 3 from rfl) 0
example : (DimCheck.find? Gen.DimChecks.table "operator*(Mat,Vec)").any (fun e =>
      !DimCheck.guardFires e ⟨2, 3⟩ ⟨3, 1⟩ 0 && DimCheck.guardFires e ⟨2, 3⟩ ⟨2, 1⟩ 0) = true ∧
    matMulVec (⟨2, 3, #[1, 2, 3, 4, 5, 6]⟩ : Mat Int) #[1, 0, -1] = .ok #[-2, -2] ∧
    matMulVec (⟨2, 3, #[1, 2, 3, 4, 5, 6]⟩ : Mat Int) #[1, 0] = .error .badRank := by decide
-- a SymMat view read as a `MatBase`, times a TransVec: in bounds through the symmetric accessor
example : tvecMulMB (#[1, 1] : Vec Int) (⟨2, #[1, 2, 3]⟩ : SMat Int).mb = .ok #[3, 5] := by decide
example : (⟨2, #[1, 2, 3]⟩ : SMat Int).WF ∧ (⟨2, 3, #[1, 2, 3, 4, 5, 6]⟩ : Mat Int).WF ∧
    (trans (⟨2, 3, #[1, 2, 3, 4, 5, 6]⟩ : Mat Int)).WF := ⟨rfl, rfl, rfl⟩

/-! ## Operators of the TransMat / TransVec family
    The models of `TransMat ± TransMat`, `TransMat * TransMat`, `TransVec * MatBase` are those of the
    CURRENT tree: the three one-line fixes (TransMat(r,c) constructor dimensions, the stride of
    `TransMat * TransMat`, the inner loop bound of `TransVec * MatBase`) are committed in /repo, and the
    former failing inputs (corpus/C15/f-*.txt) are kept below as regression examples. -/

/-- `trans(A) ± trans(B)` has the shape of its operands, for every shape -/
theorem transmat_sum_shape {K : Type} [Add K] [Sub K] (A B C : TMat K) :
    (tAddT A B = .ok C → C.rows = A.rows ∧ C.cols = A.cols) ∧
    (tSubT A B = .ok C → C.rows = A.rows ∧ C.cols = A.cols) := by
  constructor
  · intro h; unfold tAddT at h
    split at h
    · cases h
    · split at h
      · cases h
      · cases h; exact ⟨rfl, rfl⟩
  · intro h; unfold tSubT at h
    split at h
    · cases h
    · split at h
      · cases h
      · cases h; exact ⟨rfl, rfl⟩

-- the former failing inputs (corpus/C15/f-*.txt), now with the mathematically right answers
example : (tAddT (trans (⟨2, 3, #[1, 2, 3, 4, 5, 6]⟩ : Mat Int)) (trans ⟨2, 3, #[10, 20, 30, 40, 50, 60]⟩)).toOption.map
      (fun C => (C.rows, C.cols, C.mb.entries.toOption)) = some (3, 2, some #[11, 44, 22, 55, 33, 66]) := by decide
example : tvecMulMB (#[2, 1, -1] : Vec Int) (trans (⟨1, 3, #[-1, -1, 0]⟩ : Mat Int)).mb = .ok #[-3] := by decide
example : tvecMulMB (#[1, 1] : Vec Int) (trans (⟨3, 2, #[1, 1, 1, 1, 1, 1]⟩ : Mat Int)).mb = .ok #[2, 2, 2] := by decide
example : tMulT (trans (⟨3, 1, #[1, 2, 2]⟩ : Mat Int)) (trans (⟨2, 3, #[2, 2, -1, -1, -1, 1]⟩ : Mat Int))
    = .ok ⟨1, 2, #[4, -1]⟩ := by decide

/-! ## Operators whose faithful model VIOLATES the property (defects of the C++ without a small
    patch; replayed on the implementation, see notes/reports/C15.md) -/

/-- `operator*(const Vec&, const TransMat&)` accepts a 2×3 operand and reads outside it -/
theorem vec_transmat_violates :
    vecMulT (#[1, 1] : Vec Int) (trans (⟨3, 2, #[1, 1, 1, 1, 1, 1]⟩ : Mat Int)) = .error .oob := by
  decide

/-- `operator*(const SymMat&, const SymMat&)` returns a `SymMat`: only the lower triangle of `AB`
    is kept, so `(AB)(1,2)` is wrong whenever `AB` is not symmetric -/
theorem symmat_product_violates :
    ∃ A B C : SMat Int, symMul A B = .ok C ∧
      (symSquare C).toOption.map (·.data) ≠
        ((do let a ← symSquare A; let b ← symSquare B; matMul a b : Except Err (Mat Int))).toOption.map (·.data) :=
  ⟨⟨2, #[1, 2, 3]⟩, ⟨2, #[1, 0, 2]⟩, ⟨2, #[1, 2, 6]⟩, by decide, by decide⟩

/-! ## (A) `Mat::invert`: the swap loops apply exactly the inverse permutation -/

/-- With `σ(indr s) = indc s` (pivot rows ↦ pivot columns), the two swap loops turn the
    in-place Gauss–Jordan result `B` into `final(u,v) = B(σ⁻¹ u, σ v)`: stated without `σ` as
    `final(indc s, indr t) = B(indr s, indc t)` for all `s, t < N`. -/
theorem undo_permutation {α : Type} (N : Nat) (indr indc : Nat → Nat) (m : Nat → α)
    (hr : (∀ i, i < N → indr i < N) ∧ (∀ i j, i < N → j < N → indr i = indr j → i = j))
    (hc : (∀ i, i < N → indc i < N) ∧ (∀ i j, i < N → j < N → indc i = indc j → i = j)) :
    ∀ s t, s < N → t < N →
      undoPermutation N indr indc m (indc s * N + indr t) = m (indr s * N + indc t) :=
  undoPermutation_spec N indr indc m hr hc

example : (List.range 9).map (undoPermutation 3 (fun i => (i + 1) % 3) (fun i => (i + 2) % 3) id)
    = [7, 8, 6, 1, 2, 0, 4, 5, 3] := by decide



/-! ## (B) `Mat::invert`: Gauss–Jordan with full pivoting returns the inverse -/

section
variable {K : Type} [Field K] [LinearOrder K] [IsStrictOrderedRing K]

/-- **`inv(A)·A = I` and `A·inv(A) = I`, every size.**  The model of `Mat::invert(tol)` — pivot search
    over the not yet used rows/columns with the persisting `p_row/p_col`, `|pivot| ≤ tol → Singular`,
    the implicit permutations `indr/indc`, in-place scaling and elimination, then `invr/invc`,
    `perm/inv_perm` and the two cycle-following swap loops — over any ordered field: if it does not
    throw (with `tol ≥ 0` this means no pivot was zero) the returned storage is a two-sided inverse
    of the input.  (Proof: invariant `GJInv` — after `k` steps the working matrix holds, in the pivot
    columns, the columns of the accumulated row operation `E` and elsewhere `E·A`, with
    `E·A` = unit vectors on the pivot columns — then `undo_permutation`.) -/
theorem invert_correct (sq : K → K) (N : Nat) (tol : K) (htol : 0 ≤ tol) (A X : Nat → K)
    (h : @invert K (fieldScalar K sq) N N tol A = .ok X) :
    toM N X * toM N A = 1 ∧ toM N A * toM N X = 1 :=
  invert_correct_matrix sq N tol htol A X h

/-- the same entry by entry on the row-major storage -/
theorem invert_correct_entries (sq : K → K) (N : Nat) (tol : K) (htol : 0 ≤ tol) (A X : Nat → K)
    (h : @invert K (fieldScalar K sq) N N tol A = .ok X) :
    (∀ a j, a < N → j < N → ∑ b ∈ Finset.range N, X (a * N + b) * A (b * N + j) = if a = j then 1 else 0) ∧
    (∀ a j, a < N → j < N → ∑ b ∈ Finset.range N, A (a * N + b) * X (b * N + j) = if a = j then 1 else 0) :=
  Gama.MatVec.invert_correct sq N tol htol A X h

/-- the loop invariant itself: after `k ≤ N` elimination steps from `A` there is a matrix `E` (the
    accumulated row operations) with `(E·A)(·, indc s) = e_{indr s}` and `m(·, indc s) = E(·, indr s)`
    for the `s < k` pivots, `E(·, indr t) = e_{indr t}` and `m(·, indc t) = (E·A)(·, indc t)` for `t ≥ k` -/
theorem invert_invariant (sq : K → K) (N : Nat) (tol : K) (htol : 0 ≤ tol) (A : Nat → K) (k : Nat) (hk : k ≤ N)
    (g : GJ K) (h : @gjEliminate K (fieldScalar K sq) N tol k ⟨A, id, id, 0, 0⟩ = some g) :
    ∃ E, GJInv N A k g.m g.indr g.indc E :=
  gj_invariant sq N tol htol A k hk g h

end

/-- non-square ⇒ `BadRank` before anything is touched -/
theorem invert_badRank {K : Type} [Scalar K] (rows cols : Nat) (tol : K) (A : Nat → K) (h : rows ≠ cols) :
    invert rows cols tol A = .error .badRank := Gama.MatVec.invert_badRank rows cols tol A h

-- non-vacuity: [[0,2],[1,0]] needs a pivot exchange (rows and columns); inverse [[0,1],[1/2,0]]
example : ∃ X, @invert ℚ (fieldScalar ℚ id) 2 2 0 gjAEx = .ok X ∧ X 0 = 0 ∧ X 1 = 1 ∧ X 2 = 1 / 2 ∧ X 3 = 0 :=
  invert_example

/-! ## (B) `pinv`: the four Moore–Penrose conditions from an SVD certificate -/

section
variable {K : Type} [Field K] [LinearOrder K]
open Matrix

/-- `pinv.h` computes `V · diag(W_inv) · Uᵀ` with `W_inv(k) = lindep(k) ? 0 : 1/W(k)` (`set_inv_W`:
    `lindep(k)` iff `|W(k)| ≤ W_tol · max W`).  Given a certificate for the decomposition the SVD
    returned — `A = U diag(W) Vᵀ`, `VᵀV = 1`, `UᵀU = 1` on the columns that are kept, and every dropped
    singular value an exact zero — the model's result `X` satisfies `AXA = A`, `XAX = X`,
    `(AX)ᵀ = AX`, `(XA)ᵀ = XA`.  `A` is M×N with NO relation between M and N (tall, square, wide).
    The certificate is evaluated per run on the `U, W, V` the C++ `SVD` produced (tools/props/c15.py). -/
theorem pinv_moore_penrose (sq : K → K) (M N : Nat) (tol : K) (A U W V : Nat → K)
    (hA : rowMajor M N A = rowMajor M N U * diagonal (vecOf N W) * (rowMajor N N V)ᵀ)
    (hV : (rowMajor N N V)ᵀ * rowMajor N N V = 1)
    (hU : ∀ k l : Fin N,
        @pinvWinv K (fieldScalar K sq) N tol W k.val ≠ 0 →
        @pinvWinv K (fieldScalar K sq) N tol W l.val ≠ 0 →
        ((rowMajor M N U)ᵀ * rowMajor M N U) k l = if k = l then 1 else 0)
    (h0 : ∀ k : Fin N, @pinvWinv K (fieldScalar K sq) N tol W k.val = 0 → W k.val = 0) :
    let 𝔸 : Matrix (Fin M) (Fin N) K := rowMajor M N A
    let 𝕏 : Matrix (Fin N) (Fin M) K := rowMajor N M (@pinvFrom K (fieldScalar K sq) M N tol U W V)
    𝔸 * 𝕏 * 𝔸 = 𝔸 ∧ 𝕏 * 𝔸 * 𝕏 = 𝕏 ∧ (𝔸 * 𝕏)ᵀ = 𝔸 * 𝕏 ∧ (𝕏 * 𝔸)ᵀ = 𝕏 * 𝔸 :=
  Gama.MatVec.pinv_moore_penrose sq M N tol A U W V hA hV hU h0

/-- which singular values `set_inv_W` keeps: `W_inv(k) = 1/W(k)` iff `W_tol · max(0, W) < |W(k)|` -/
theorem pinv_kept_iff [IsStrictOrderedRing K] (sq : K → K) (N : Nat) (tol : K) (W : Nat → K) (k : Nat) :
    @pinvWinv K (fieldScalar K sq) N tol W k = if tol * pinvVmax N W < |W k| then (W k)⁻¹ else 0 :=
  pinvWinv_eq_abs sq N tol W k

end

-- non-vacuity: a WIDE rank-1 matrix A = [3 4] = [1 0] · diag(5, 0) · [[3/5, -4/5], [4/5, 3/5]]ᵀ; the second
-- column of U is null, so only the kept block of UᵀU is the identity; pinv A = [3/25, 4/25]ᵀ
example : (rowMajor 1 2 pinvExA = rowMajor 1 2 pinvExU * Matrix.diagonal (vecOf 2 pinvExW) * (rowMajor 2 2 pinvExV).transpose) ∧
    @pinvFrom ℚ (fieldScalar ℚ id) 1 2 (1/1000) pinvExU pinvExW pinvExV 0 = 3/25 ∧
    @pinvFrom ℚ (fieldScalar ℚ id) 1 2 (1/1000) pinvExU pinvExW pinvExV 1 = 4/25 :=
  ⟨pinvEx_hA, pinvEx_value.1, pinvEx_value.2⟩

/-! ## (A) `SymMat::cholDec` / `solve` -/

section
variable {K : Type} [Field K] [LinearOrder K] [IsStrictOrderedRing K]

/-- if `cholDec` does not reject and reports nullity 0 (tolerance `≥ 0`), the packed factor `L`
    satisfies `L Lᵀ = A` on the lower triangle (hence everywhere, by symmetry) and has a
    non-zero diagonal -/
theorem symchol (sq : K → K) (hsq : ∀ x, 0 ≤ x → sq x * sq x = x) (tol : K) (htol : 0 ≤ tol)
    (n : Nat) (s L : Nat → K) (h : @cholDec K (fieldScalar K sq) n tol s = .ok (L, 0)) :
    ∀ i j, 1 ≤ j → j ≤ i → i ≤ n →
      (∑ k ∈ Finset.range j, L (tri i (k + 1)) * L (tri j (k + 1)) = s (tri i j)) ∧ L (tri i i) ≠ 0 := by
  intro i j h1 h2 h3
  obtain ⟨a, _, c⟩ := cholDec_spec sq hsq tol htol n s L h i j h1 h2 h3
  exact ⟨a, c⟩

/-- `solve` with that factor solves `A x = b` -/
theorem symchol_solve (sq : K → K) (hsq : ∀ x, 0 ≤ x → sq x * sq x = x) (tol : K) (htol : 0 ≤ tol)
    (n : Nat) (s L b : Nat → K) (h : @cholDec K (fieldScalar K sq) n tol s = .ok (L, 0)) :
    ∀ i, 1 ≤ i → i ≤ n →
      ∑ j ∈ Finset.range n, symEntry s i (j + 1) * @cholSolve K (fieldScalar K sq) n L b j = b (i - 1) :=
  cholDec_cholSolve_spec sq hsq tol htol n s L b h

/-- **any nullity.**  `cholDec` not rejected, with whatever nullity `d` it reports: the returned
    packed `L` obeys the recurrences of the code — off the diagonal `L(i,j) = x/L(j,j)` or `0` when the
    pivot `L(j,j)` was zeroed, on the diagonal `L(i,i) = sqrt x` when `x > a(i,i)·tol` (and then
    `x ≥ 0`, else `BadRank` was thrown) and `0` otherwise, `x = a(i,j) − Σ_{k<j} L(i,k)L(j,k)` — and `d`
    is exactly the number of pivots that were zeroed -/
theorem symchol_recurrence (sq : K → K) (tol : K) (n : Nat) (s L : Nat → K) (d : Nat)
    (h : @cholDec K (fieldScalar K sq) n tol s = .ok (L, d)) :
    (∀ i j, 1 ≤ j → j ≤ i → i ≤ n →
      (i ≠ j → L (tri i j) = if L (tri j j) = 0 then 0 else cholX s L i j / L (tri j j)) ∧
      (i = j → (if s (tri i i) * tol < cholX s L i i
          then (¬ cholX s L i i < 0 ∧ L (tri i i) = sq (cholX s L i i))
          else L (tri i i) = 0))) ∧
    d = ∑ i ∈ Finset.range n, (if s (tri (i + 1) (i + 1)) * tol < cholX s L (i + 1) (i + 1) then 0 else 1) :=
  ⟨cholDec_recurrence sq tol n s L d h, cholDec_nullity sq tol n s L d h⟩

/-- **positive SEMI-definite input, nullity > 0.**  If the symmetric matrix stored in `s` is positive
    semi-definite and every pivot that `cholDec` zeroes is an exact zero (with a tolerance-dropped
    positive pivot `L Lᵀ ≠ A`, so this hypothesis is what the exact statement needs), then
    `L Lᵀ = A` on the lower triangle for ANY reported nullity: the Schur column under a zero pivot
    vanishes (2×2 minors of the positive semi-definite residual), by induction over the columns. -/
theorem symchol_psd (sq : K → K) (hsq : ∀ x, 0 ≤ x → sq x * sq x = x) (tol : K)
    (n : Nat) (s L : Nat → K) (d : Nat)
    (h : @cholDec K (fieldScalar K sq) n tol s = .ok (L, d))
    (hpsd : ∀ v : ℕ → K, 0 ≤ ∑ r ∈ Finset.Icc 1 n, ∑ c ∈ Finset.Icc 1 n, v r * symEntry s r c * v c)
    (hz : ∀ i, 1 ≤ i → i ≤ n → ¬ (s (tri i i) * tol < cholX s L i i) → cholX s L i i = 0) :
    ∀ i j, 1 ≤ j → j ≤ i → i ≤ n →
      ∑ k ∈ Finset.range j, L (tri i (k + 1)) * L (tri j (k + 1)) = s (tri i j) :=
  cholDec_psd_spec sq hsq tol n s L d h hpsd hz

/-- and then the reported nullity is the number of zero diagonal entries of `L` -/
theorem symchol_nullity (sq : K → K) (hsq : ∀ x, 0 ≤ x → sq x * sq x = x) (tol : K) (htol : 0 ≤ tol)
    (n : Nat) (s L : Nat → K) (d : Nat)
    (h : @cholDec K (fieldScalar K sq) n tol s = .ok (L, d))
    (hpsd : ∀ v : ℕ → K, 0 ≤ ∑ r ∈ Finset.Icc 1 n, ∑ c ∈ Finset.Icc 1 n, v r * symEntry s r c * v c) :
    d = ((Finset.range n).filter (fun i => L (tri (i + 1) (i + 1)) = 0)).card :=
  nullity_counts sq hsq tol htol n s L d h hpsd

/-! ## (B) `SymMat::invert` -/

/-- **`SymMat::invert()` on a positive definite matrix returns the inverse.**  The model — n exchange
    steps on the pivot (1,1) of the packed storage with cyclic renumbering, sign convention
    `w(i) = ∓q/p`, rejection `p < 0 → BadRank` — on a symmetric POSITIVE DEFINITE input (`PosDef n s`:
    `0 < vᵀ A v` for every `v` that is non-zero on `1..n`), `n ≥ 2`, over any ordered field:
    every pivot `a[1]` met on the way is POSITIVE (it is `xᵀ A x` for the `x ≠ 0` whose exchanged vector
    is `e₁`), so the code does not throw, and the packed result `r` is the inverse on both sides.
    (This is the former `syminvert_partial` with its pivot hypothesis `hpiv` discharged;
    `symInvertState n a t` is the model's state after `t` outer iterations.) -/
theorem syminvert (sq : K → K) (n : Nat) (hn : 2 ≤ n) (s : Nat → K) (hpd : PosDef n s) :
    (∀ t, t < n → ∀ st, symInvertState n (fun k => s (k - 1)) t = .ok st → 0 < st.a 1) ∧
    ∃ r, @symInvert K (fieldScalar K sq) n s = .ok r ∧
      (∀ i j, 1 ≤ i → i ≤ n → 1 ≤ j → j ≤ n →
        ∑ c ∈ Finset.range n, symEntry r i (c + 1) * symEntry s (c + 1) j = if i = j then 1 else 0) ∧
      (∀ i j, 1 ≤ i → i ≤ n → 1 ≤ j → j ≤ n →
        ∑ c ∈ Finset.range n, symEntry s i (c + 1) * symEntry r (c + 1) j = if i = j then 1 else 0) :=
  symInvert_pd sq n hn s hpd

/-- the same for dimension 1: positive definite means `s 0 > 0`; `invert` stores the reciprocal -/
theorem syminvert_pd_one (sq : K → K) (s : Nat → K) (hpd : PosDef 1 s) :
    0 < s 0 ∧ ∃ r, @symInvert K (fieldScalar K sq) 1 s = .ok r ∧ r 0 * s 0 = 1 ∧ s 0 * r 0 = 1 :=
  symInvert_pd_one sq s hpd

/-- without definiteness: whenever `invert` does not throw and no pivot it met is zero (the code only
    rejects `p < 0`), the result is the two-sided inverse of the symmetric input -/
theorem syminvert_nonzero_pivots (sq : K → K) (n : Nat) (hn : 2 ≤ n) (s r : Nat → K)
    (hpiv : ∀ t, t < n → ∀ st, symInvertState n (fun k => s (k - 1)) t = .ok st → st.a 1 ≠ 0)
    (h : @symInvert K (fieldScalar K sq) n s = .ok r) :
    (∀ i j, 1 ≤ i → i ≤ n → 1 ≤ j → j ≤ n →
      ∑ c ∈ Finset.range n, symEntry r i (c + 1) * symEntry s (c + 1) j = if i = j then 1 else 0) ∧
    (∀ i j, 1 ≤ i → i ≤ n → 1 ≤ j → j ≤ n →
      ∑ c ∈ Finset.range n, symEntry s i (c + 1) * symEntry r (c + 1) j = if i = j then 1 else 0) :=
  symInvert_correct sq n hn s r hpiv h

/-- dimension 1 (`a[1] = 1/a[1]`) -/
theorem syminvert_one (sq : K → K) (s r : Nat → K) (h0 : s 0 ≠ 0)
    (h : @symInvert K (fieldScalar K sq) 1 s = .ok r) : r 0 = 1 / s 0 ∧ r 0 * s 0 = 1 ∧ s 0 * r 0 = 1 :=
  symInvert_correct_one sq s r h0 h

end

example : ∃ L, @cholDec ℚ (fieldScalar ℚ sqEx) 2 (1 / 100000000) sEx = .ok (L, 0) ∧
    L 0 = 2 ∧ L 1 = 1 ∧ L 2 = 1 := cholDec_example

-- non-vacuity, nullity 1: A = [[1,1],[1,1]] is positive semi-definite of rank 1; L = [[1,0],[1,0]]; this
-- example shows the run and the hypothesis `hpsd` of `symchol_psd`; `hz` (the zeroed pivot is an exact
-- zero) for the same input is `cholDec_psd_example_hyps.2` in Lemmas/SymCholPSD.lean
example : (∃ L, @cholDec ℚ (fieldScalar ℚ sqEx1) 2 (1 / 100000000) sEx1 = .ok (L, 1) ∧ L 0 = 1 ∧ L 1 = 1 ∧ L 2 = 0) ∧
    (∀ v : ℕ → ℚ, 0 ≤ ∑ r ∈ Finset.Icc 1 2, ∑ c ∈ Finset.Icc 1 2, v r * symEntry sEx1 r c * v c) :=
  ⟨cholDec_psd_example, cholDec_psd_example_hyps.1⟩

-- JOINT witness of the square-root law: over ℝ with `sq := Real.sqrt` the law `hsq` holds for every
-- argument AND `cholDec` succeeds on [[4,2],[2,2]] (nullity 0, `L = [[2,0],[1,1]]`): all hypotheses of
-- `symchol` / `symchol_solve` at once (the ℚ examples use a table that is a root only at 4 and 1)
example : (∀ x : ℝ, 0 ≤ x → Real.sqrt x * Real.sqrt x = x) ∧ (0 : ℝ) ≤ 1 / 100000000 ∧
    ∃ L, @cholDec ℝ (fieldScalar ℝ Real.sqrt) 2 (1 / 100000000) sExR = .ok (L, 0) ∧
      L 0 = 2 ∧ L 1 = 1 ∧ L 2 = 1 :=
  ⟨real_hsq, by norm_num, cholDec_real_example⟩
-- … and of `symchol_psd` / `symchol_nullity`: [[1,1],[1,1]] over ℝ, nullity 1, with `hsq`, `hpsd` and `hz`
example : (∀ x : ℝ, 0 ≤ x → Real.sqrt x * Real.sqrt x = x) ∧
    (∃ L, @cholDec ℝ (fieldScalar ℝ Real.sqrt) 2 (1 / 100000000) sEx1R = .ok (L, 1) ∧ L 0 = 1 ∧ L 1 = 1 ∧ L 2 = 0) ∧
    (∀ v : ℕ → ℝ, 0 ≤ ∑ r ∈ Finset.Icc 1 2, ∑ c ∈ Finset.Icc 1 2, v r * symEntry sEx1R r c * v c) ∧
    (∀ L : ℕ → ℝ, L 0 = 1 → L 1 = 1 → L 2 = 0 → ∀ i, 1 ≤ i → i ≤ 2 →
      ¬ (sEx1R (tri i i) * (1 / 100000000) < cholX sEx1R L i i) → cholX sEx1R L i i = 0) :=
  ⟨real_hsq, cholDec_real_psd_example, cholDec_real_psd_example_hyps.1, cholDec_real_psd_example_hyps.2⟩

-- non-vacuity of `syminvert`: [[4,2],[2,2]] is positive definite
example : PosDef 2 sinvAEx := sinvAEx_posDef

-- non-vacuity: inverse of [[4,2],[2,2]] is [[1/2,-1/2],[-1/2,1]]; its pivots are 4 and 1
example : (∃ X, @symInvert ℚ (fieldScalar ℚ id) 2 sinvAEx = .ok X ∧ X 0 = 1 / 2 ∧ X 1 = -1 / 2 ∧ X 2 = 1) ∧
    (∀ t, t < 2 → ∀ st, symInvertState 2 (fun k => sinvAEx (k - 1)) t = .ok st → st.a 1 ≠ 0) :=
  ⟨symInvert_example, symInvert_example_pivots⟩

/-! ## (A) Object histories of `Mat`: copies are independent of their source, whatever was done to
either of them before (Model/MatObj.lean)

A `Mat` object = its `MemRep` sub-object + every other data member that persists across calls
(`row_`, `col_`, and the raw working pointer `pentry` of `invert()`), in a store of objects on the
explicit heap.  The member list and the way `invert()` initialises `pentry` are regenerated from the
headers on every run (`Gen/MatMembers.lean`). -/

/-- the model carries exactly the persistent data members of `MemRep ⊂ MatVecBase ⊂ MatBase ⊂ Mat`,
    and the copy operations of the three derived classes are the implicit memberwise ones (the model
    copies `row_`, `col_`, `pentry` verbatim).  A NEW data member breaks this statement. -/
theorem C15_members_modelled :
    Gen.MatMembers.members.map (fun m => (m.1, m.2.1)) = MatObj.modelMembers ∧
    Gen.MatMembers.implicitCopy = ["MatVecBase", "MatBase", "Mat"] := by decide

/-- **Value semantics for every history.**  Any history of construct / copy-construct / assign
    between objects of any sizes (`Mat(Mat&&)`, `operator=(Mat&&)` are these too) / `reset(r,c)` /
    element write / `set_all` / `*=` / in-place `transpose()` / in-place `invert(tol)` / destroy over a
    store of `Mat` objects, run from the empty heap with the `pentry` initialisation of the code under
    test, either completes — and then EVERY object holds exactly the value (dimensions and elements)
    that the same history yields on independent values, where `invert` is the pure Gauss–Jordan function
    of the object's own elements; the ownership invariant and `size() = row_·col_` hold — or stops at the
    same operation for the same reason (`BadRank`, `Singular`, a caller's precondition), never because a
    block that is not allocated, or cells beyond a block, were touched. -/
theorem C15_history_value_semantics {K : Type} [Scalar K] [Inhabited K] (ops : List (MatObj.Op K)) :
    match MatObj.run Gen.MatMembers.pentryInit (MatObj.St.init : MatObj.St K) ops with
    | .ok s => MatObj.MInv s ∧ MatObj.specRun (fun _ => none) ops = .ok (MatObj.val s)
    | .error e => MatObj.specRun (fun _ => none) ops = .error e ∧ e ≠ .heapFault := by
  have h := MatObj.run_refines ops (MatObj.St.init : MatObj.St K) MatObj.minv_init
  rw [MatObj.val_init] at h
  exact h

/-- **Copies are independent of their source**, one operation from any reachable state: the
    operation acts on the values like the value-level semantics, and NO object other than its target
    changes its value — in particular `B.invert()` on a copy `B` of `A` (inverted before or not, of
    equal or different size before the assignment) leaves `A` as it was. -/
theorem C15_history_independent {K : Type} [Scalar K] [Inhabited K] {s s' : MatObj.St K}
    (h : MatObj.MInv s) {op : MatObj.Op K}
    (hs : MatObj.step Gen.MatMembers.pentryInit s op = .ok s') :
    MatObj.MInv s' ∧ MatObj.spec (MatObj.val s) op = .ok (MatObj.val s') ∧
    ∀ k, k ≠ op.target → MatObj.val s' k = MatObj.val s k :=
  ⟨(MatObj.step_ok h hs).1, (MatObj.step_ok h hs).2, MatObj.step_frame h hs⟩

/-- … and what `invert` leaves in the target is the two-sided inverse of what it held: in any
    reachable state, over any ordered field, if `invert(tol)` (`0 ≤ tol`) completes on the object in
    slot `i` holding the `N×N` elements `A`, the object afterwards holds `N×N` elements `X` with
    `X·A = 1` and `A·X = 1` (row-major), and every other object is unchanged. -/
theorem C15_history_invert_inverse {K : Type} [Field K] [LinearOrder K] [IsStrictOrderedRing K]
    [Inhabited K] (sq : K → K) {s s' : MatObj.St K} (i : Nat) (tol : K) (htol : 0 ≤ tol)
    (h : MatObj.MInv s)
    (hs : (letI := fieldScalar K sq; MatObj.step Gen.MatMembers.pentryInit s (.invert i tol)) = .ok s') :
    ∃ N A X, MatObj.val s i = some ⟨N, N, A⟩ ∧ MatObj.val s' i = some ⟨N, N, X⟩ ∧
      X.length = N * N ∧
      (∀ a j, a < N → j < N →
        ∑ b ∈ Finset.range N, X.getD (a * N + b) 0 * A.getD (b * N + j) 0 = if a = j then 1 else 0) ∧
      (∀ a j, a < N → j < N →
        ∑ b ∈ Finset.range N, A.getD (a * N + b) 0 * X.getD (b * N + j) 0 = if a = j then 1 else 0) ∧
      ∀ k, k ≠ i → MatObj.val s' k = MatObj.val s k := by
  let _ := fieldScalar K sq
  obtain ⟨_, hsp⟩ := MatObj.step_ok h hs
  have hfr := MatObj.step_frame h hs
  simp only [MatObj.spec] at hsp
  cases hv : MatObj.val s i with
  | none => simp [hv] at hsp
  | some t =>
    simp only [hv] at hsp
    by_cases hsq : t.rows = t.cols
    · simp only [hsq, ne_eq, not_true_eq_false, if_false] at hsp
      cases hinv : MatObj.invertList t.cols tol t.data with
      | error e => simp [hinv] at hsp
      | ok X =>
        simp only [hinv, Except.ok.injEq] at hsp
        obtain ⟨h1, h2, h3⟩ := MatObj.invertList_inverse sq t.cols tol htol t.data X hinv
        refine ⟨t.cols, t.data, X, ?_, ?_, h1, h2, h3, hfr⟩
        · rcases t with ⟨r, c, d⟩; simp only at hsq; subst hsq; rfl
        · rw [← hsp]; rcases t with ⟨r, c, d⟩; simp only at hsq; subst hsq; simp
    · simp [hsq] at hsp

/-- non-vacuity (ℚ, the code's `pentry = this->begin()`): `A = [2]`, `A.invert()`, `B = A`,
    `B.invert()` completes; `A` keeps `[1/2]`, `B` holds `[2]`. -/
example : MatObj.dataOf (MatObj.run .always MatObj.St.init MatObj.staleHistory) 0 = some [1 / 2] ∧
    MatObj.dataOf (MatObj.run .always MatObj.St.init MatObj.staleHistory) 1 = some [2] ∧
    MatObj.specDataOf (MatObj.specRun (fun _ => none) MatObj.staleHistory) 0 = some [1 / 2] ∧
    MatObj.specDataOf (MatObj.specRun (fun _ => none) MatObj.staleHistory) 1 = some [2] := by
  decide +kernel

/-- **The variant with a cached address violates the invariant**: with
    `if (pentry == nullptr) pentry = this->begin();` the copy `B` of the inverted `A` inherits `A`'s
    block address; `B.invert()` eliminates on `A`'s storage — `B` comes back unchanged (`[1/2]`, the
    value semantics says `[2]`) and the SOURCE `A` is overwritten (`[2]`, must stay `[1/2]`). -/
example : MatObj.dataOf (MatObj.run .ifNull MatObj.St.init MatObj.staleHistory) 0 = some [2] ∧
    MatObj.dataOf (MatObj.run .ifNull MatObj.St.init MatObj.staleHistory) 1 = some [1 / 2] ∧
    MatObj.dataOf (MatObj.run .ifNull MatObj.St.init MatObj.staleHistory) 0 ≠
      MatObj.specDataOf (MatObj.specRun (fun _ => none) MatObj.staleHistory) 0 := by
  decide +kernel


end Gama.Props.C15
