/-
  C15 — Dense matrix library obeys the algebra it implements.
  Property theorems only; helper lemmas live in Gama/Lemmas.
-/
import Gama.Lemmas.MemRepRefine
import Gama.Lemmas.MatInvertPerm
import Gama.Lemmas.MatVecAlg
import Gama.Lemmas.SymChol
namespace Gama.Props.C15
open Gama Gama.MemRep Gama.MatVec

/-! ## (A) Value semantics of the owning buffer `MemRep` -/

/-- **Refinement for every history.**  Any script of construct / copy-construct /
    move-construct / copy-assign / move-assign / resize / write / destroy operations, run on
    the explicit heap from the empty state, either completes and then every slot holds exactly
    the value that the same script yields on independent values (copy duplicates, move
    transfers and leaves the source empty, nothing is shared), or stops at the same operation
    with the same reason (`BadRank` thrown, or a precondition of the caller broken) — never
    because a block that is not allocated was freed, read or written.  The ownership invariant
    (no block owned twice, every `rep` points to a live block of `sz` elements, `nullptr` only
    with `sz = 0`) holds in the final state. -/
theorem value_semantics {K : Type} [Inhabited K] (ops : List (Op K)) :
    match run (St.init : St K) ops with
    | .ok s => Inv s ∧ specRun (fun _ => none) ops = .ok (val s)
    | .error e => specRun (fun _ => none) ops = .error e ∧ e ≠ .heapFault := by
  have h := run_refines ops (St.init : St K) inv_init
  have hv : val (St.init : St K) = fun _ => none := by funext k; simp [val, St.init]
  rw [hv] at h; exact h

/-- one operation from any state satisfying the invariant -/
theorem step_value_semantics {K : Type} [Inhabited K] {s s' : St K} (h : Inv s) {op : Op K}
    (hs : step s op = .ok s') : Inv s' ∧ spec (val s) op = .ok (val s') := step_ok h hs

/-- no operation frees, reads or writes a block that is not allocated -/
theorem no_heap_fault {K : Type} [Inhabited K] {s : St K} (h : Inv s) (op : Op K) :
    step s op ≠ .error .heapFault := step_no_heapFault h op

/-- **Copies are independent of their source whatever the sizes.**  After `b = a`
    (slots `j`, `i`, any two sizes including 0) a write through `b` leaves `a` unchanged and
    a write through `a` leaves `b` unchanged. -/
theorem copy_independent {K : Type} [Inhabited K] {s s1 s2 : St K} (h : Inv s) {i j k : Nat} {v : K}
    (hij : i ≠ j) (h1 : step s (.assign j i) = .ok s1) :
    val s1 j = val s i ∧ val s1 i = val s i ∧
    (step s1 (.write j k v) = .ok s2 → val s2 i = val s i) ∧
    (step s1 (.write i k v) = .ok s2 → val s2 j = val s i) := by
  obtain ⟨hI1, hs1⟩ := step_ok h h1
  have e1 : val s1 = upd (val s) j (val s i) := by
    simp only [spec] at hs1
    cases hvj : val s j with
    | none => simp [hvj] at hs1
    | some lj =>
      cases hvi : val s i with
      | none => simp [hvj, hvi] at hs1
      | some li => simp only [hvj, hvi, Except.ok.injEq] at hs1; exact hs1.symm
  have a1 : val s1 j = val s i := by rw [e1]; simp
  have a2 : val s1 i = val s i := by rw [e1]; exact upd_other _ _ hij
  refine ⟨a1, a2, ?_, ?_⟩
  · intro h2
    obtain ⟨_, hs2⟩ := step_ok hI1 h2
    simp only [spec] at hs2
    cases hv : val s1 j with
    | none => simp [hv] at hs2
    | some l =>
      simp only [hv] at hs2
      split at hs2
      · simp only [Except.ok.injEq] at hs2
        rw [← hs2, upd_other _ _ hij, a2]
      · cases hs2
  · intro h2
    obtain ⟨_, hs2⟩ := step_ok hI1 h2
    simp only [spec] at hs2
    cases hv : val s1 i with
    | none => simp [hv] at hs2
    | some l =>
      simp only [hv] at hs2
      split at hs2
      · simp only [Except.ok.injEq] at hs2
        rw [← hs2, upd_other _ _ (Ne.symm hij), a1]
      · cases hs2

/-- `memcpy` is never called with a null pointer (the code after commit 87f5175:
    `if (sz) std::memcpy(…)`), for every history -/
theorem no_null_memcpy {K : Type} [Inhabited K] (ops : List (Op K)) {s : St K}
    (h : run (St.init : St K) ops = .ok s) : s.ubNull = 0 := by
  have := run_ubNull ops h; simpa [St.init] using this

-- non-vacuity: a script with copies between different sizes incl. 0, a move and writes
example : (match run (St.init : St Nat)
      [.ctor 0 3, .write 0 1 7, .ctor 1 0, .assign 1 0, .write 1 0 9, .copyCtor 2 1,
       .ctor 3 0, .assign 0 3, .moveAssign 3 2, .resize 1 2, .dtor 0] with
    | .ok s => (val s 0, val s 1, val s 2, val s 3, s.leaked.length)
    | .error _ => (none, none, none, none, 99))
    = (none, some [0, 0], some [], some [9, 7, 0], 1) := by decide

/-! ## (A) Index maps are bijections -/

/-- `Mat::operator()(r,c) = (r−1)·cols + (c−1)` maps `[1,rows]×[1,cols]` one-to-one onto
    `[0, rows·cols)` -/
theorem mat_index_bijection (rows cols : Nat) :
    (∀ r c, 1 ≤ r ∧ r ≤ rows → 1 ≤ c ∧ c ≤ cols → matIdx cols r c < rows * cols) ∧
    (∀ r c r' c', 1 ≤ r ∧ r ≤ rows → 1 ≤ c ∧ c ≤ cols → 1 ≤ r' ∧ r' ≤ rows → 1 ≤ c' ∧ c' ≤ cols →
        matIdx cols r c = matIdx cols r' c' → r = r' ∧ c = c') ∧
    (∀ p, p < rows * cols → ∃ r c, (1 ≤ r ∧ r ≤ rows) ∧ (1 ≤ c ∧ c ≤ cols) ∧ matIdx cols r c = p) :=
  ⟨fun _ _ hr hc => matIdx_lt hr hc,
   fun _ _ _ _ hr hc hr' hc' h => matIdx_inj hr.1 hc hr'.1 hc' h,
   fun _ hp => matIdx_surj hp⟩

/-- `SymMat::operator()(i,j)`: the lower triangle `1 ≤ j ≤ i ≤ n` maps one-to-one onto
    `[0, n(n+1)/2)`, and `(i,j)`, `(j,i)` share their cell -/
theorem symmat_index_bijection (n : Nat) :
    (∀ i j, 1 ≤ j → j ≤ i → i ≤ n → symIdx i j < n * (n + 1) / 2) ∧
    (∀ i j i' j', 1 ≤ j → j ≤ i → 1 ≤ j' → j' ≤ i' → symIdx i j = symIdx i' j' → i = i' ∧ j = j') ∧
    (∀ p, p < n * (n + 1) / 2 → ∃ i j, 1 ≤ j ∧ j ≤ i ∧ i ≤ n ∧ symIdx i j = p) ∧
    (∀ i j, symIdx i j = symIdx j i) :=
  ⟨fun _ _ h1 h2 h3 => symIdx_lt h1 h2 h3, fun _ _ _ _ h1 h2 h3 h4 h => symIdx_inj h1 h2 h3 h4 h,
   fun _ hp => symIdx_surj hp, symIdx_symm⟩

example : (List.range 6).map (fun p => (triRow 3 p, symIdx (triRow 3 p).1 (triRow 3 p).2))
    = [((1,1),0), ((2,1),1), ((2,2),2), ((3,1),3), ((3,2),4), ((3,3),5)] := by decide

/-! ## (A) Sums, products and transposes equal their definitions, for all dimensions -/

/-- both product implementations (`operator*(const Mat&, const Mat&)` with pointer walks and the
    generic `operator*(const MatBase&, const MatBase&)`) return, for conforming well-formed
    operands, the same matrix, and it is the Mathlib matrix product — no read outside the operands -/
theorem product_def {K : Type} [Semiring K] (A B : Mat K) (hA : A.WF) (hB : B.WF)
    (hc : A.cols = B.rows) (d : K) :
    ∃ C, matMul A B = .ok C ∧ mbMul A.mb B.mb = .ok C ∧ C.rows = A.rows ∧ C.cols = B.cols ∧
      C.toMatrix d A.rows B.cols = A.toMatrix d A.rows A.cols * (B.toMatrix d A.cols B.cols) :=
  matMul_toMatrix A B hA hB hc d

/-- entrywise form with explicit finite sums -/
theorem product_entries {K : Type} [Semiring K] (A B : Mat K) (hA : A.WF) (hB : B.WF)
    (hc : A.cols = B.rows) (d : K) :
    ∃ C, matMul A B = .ok C ∧ C.rows = A.rows ∧ C.cols = B.cols ∧ C.WF ∧
      ∀ i j, i < A.rows → j < B.cols → C.at d i j = ∑ k ∈ Finset.range A.cols, A.at d i k * B.at d k j :=
  matMul_spec A B hA hB hc d

theorem sum_def {K : Type} [Add K] (A B : Mat K) (hA : A.WF) (hB : B.WF)
    (hr : A.rows = B.rows) (hc : A.cols = B.cols) (d : K) :
    ∃ C, matAdd A B = .ok C ∧ C.rows = A.rows ∧ C.cols = A.cols ∧ C.WF ∧
      ∀ i j, i < A.rows → j < A.cols → C.at d i j = A.at d i j + B.at d i j :=
  matAdd_spec A B hA hB hr hc d

theorem difference_def {K : Type} [Sub K] (A B : Mat K) (hA : A.WF) (hB : B.WF)
    (hr : A.rows = B.rows) (hc : A.cols = B.cols) (d : K) :
    ∃ C, matSub A B = .ok C ∧ C.rows = A.rows ∧ C.cols = A.cols ∧ C.WF ∧
      ∀ i j, i < A.rows → j < A.cols → C.at d i j = A.at d i j - B.at d i j :=
  matSub_spec A B hA hB hr hc d

/-- `Mat::transpose()` / `Mat(trans(A))` is the transpose, also for non-square matrices -/
theorem transpose_def {K : Type} (A : Mat K) (hA : A.WF) (d : K) :
    ∃ C, matTranspose A = .ok C ∧ C.rows = A.cols ∧ C.cols = A.rows ∧
      C.toMatrix d A.cols A.rows = (A.toMatrix d A.rows A.cols).transpose := by
  obtain ⟨C, h1, h2, h3, _, _⟩ := matTranspose_spec A hA d
  obtain ⟨C', h1', h5⟩ := matTranspose_toMatrix A hA d
  rw [h1] at h1'; cases h1'
  exact ⟨C, h1, h2, h3, h5⟩

example : matMul (⟨2, 3, #[1, 2, 3, 4, 5, 6]⟩ : Mat Int) ⟨3, 1, #[1, 0, -1]⟩
    = .ok ⟨2, 1, #[-2, -2]⟩ := by decide
example : matTranspose (⟨2, 3, #[1, 2, 3, 4, 5, 6]⟩ : Mat Int) = .ok ⟨3, 2, #[1, 4, 2, 5, 3, 6]⟩ := by decide

/-! ## (A) Dimension guards: `BadRank` is thrown iff the operands do not conform -/

theorem product_badRank_iff {K : Type} [Semiring K] (A B : Mat K) (hA : A.WF) (hB : B.WF) :
    (matMul A B = .error .badRank ↔ A.cols ≠ B.rows) ∧
    (mbMul A.mb B.mb = .error .badRank ↔ A.cols ≠ B.rows) := by
  constructor
  · constructor
    · intro h hc
      obtain ⟨C, h1, _⟩ := matMul_spec A B hA hB hc (0 : K)
      rw [h1] at h; cases h
    · intro h; simp [matMul, h]
  · constructor
    · intro h hc
      obtain ⟨C, h1, _⟩ := mbMul_spec A B hA hB hc (0 : K)
      rw [h1] at h; cases h
    · intro h; simp [mbMul, Mat.mb, h]

theorem sum_badRank_iff {K : Type} [Add K] [Inhabited K] (A B : Mat K) (hA : A.WF) (hB : B.WF) :
    matAdd A B = .error .badRank ↔ (A.rows ≠ B.rows ∨ A.cols ≠ B.cols) := by
  constructor
  · intro h
    by_cases hc : A.rows ≠ B.rows ∨ A.cols ≠ B.cols
    · exact hc
    · have hr : A.rows = B.rows := by by_contra hh; exact hc (Or.inl hh)
      have hc' : A.cols = B.cols := by by_contra hh; exact hc (Or.inr hh)
      obtain ⟨C, h1, _⟩ := matAdd_spec A B hA hB hr hc' default
      rw [h1] at h; cases h
  · intro h; simp [matAdd, h]

example : matMul (⟨2, 3, #[1, 2, 3, 4, 5, 6]⟩ : Mat Int) ⟨2, 1, #[1, 0]⟩ = .error .badRank := by decide

/-! ## Operators of the TransMat / TransVec family
    The models of `TransMat ± TransMat`, `TransMat * TransMat`, `TransVec * MatBase` are those of the
    code with the proposed one-line fixes (notes/proposed/C15-transmat-ctor-dims, -transmat-transmat-stride,
    -transvec-matbase-bound); on the unfixed tree the correspondence reports the failing inputs below. -/

/-- `trans(A) ± trans(B)` has the shape of its operands, for every shape -/
theorem transmat_sum_shape {K : Type} [Add K] [Sub K] (A B C : TMat K) :
    (tAddT A B = .ok C → C.rows = A.rows ∧ C.cols = A.cols) ∧
    (tSubT A B = .ok C → C.rows = A.rows ∧ C.cols = A.cols) := by
  constructor
  · intro h; unfold tAddT at h
    split at h
    · cases h
    · split at h
      · cases h
      · cases h; exact ⟨rfl, rfl⟩
  · intro h; unfold tSubT at h
    split at h
    · cases h
    · split at h
      · cases h
      · cases h; exact ⟨rfl, rfl⟩

-- the former failing inputs (corpus/C15/f-*.txt), now with the mathematically right answers
example : (tAddT (trans (⟨2, 3, #[1, 2, 3, 4, 5, 6]⟩ : Mat Int)) (trans ⟨2, 3, #[10, 20, 30, 40, 50, 60]⟩)).toOption.map
      (fun C => (C.rows, C.cols, C.mb.entries.toOption)) = some (3, 2, some #[11, 44, 22, 55, 33, 66]) := by decide
example : tvecMulMB (#[2, 1, -1] : Vec Int) (trans (⟨1, 3, #[-1, -1, 0]⟩ : Mat Int)).mb = .ok #[-3] := by decide
example : tvecMulMB (#[1, 1] : Vec Int) (trans (⟨3, 2, #[1, 1, 1, 1, 1, 1]⟩ : Mat Int)).mb = .ok #[2, 2, 2] := by decide
example : tMulT (trans (⟨3, 1, #[1, 2, 2]⟩ : Mat Int)) (trans (⟨2, 3, #[2, 2, -1, -1, -1, 1]⟩ : Mat Int))
    = .ok ⟨1, 2, #[4, -1]⟩ := by decide

/-! ## Operators whose faithful model VIOLATES the property (defects of the C++ without a small
    patch; replayed on the implementation, see notes/reports/C15.md) -/

/-- `operator*(const Vec&, const TransMat&)` accepts a 2×3 operand and reads outside it -/
theorem vec_transmat_violates :
    vecMulT (#[1, 1] : Vec Int) (trans (⟨3, 2, #[1, 1, 1, 1, 1, 1]⟩ : Mat Int)) = .error .oob := by
  decide

/-- `operator*(const SymMat&, const SymMat&)` returns a `SymMat`: only the lower triangle of `AB`
    is kept, so `(AB)(1,2)` is wrong whenever `AB` is not symmetric -/
theorem symmat_product_violates :
    ∃ A B C : SMat Int, symMul A B = .ok C ∧
      (symSquare C).toOption.map (·.data) ≠
        ((do let a ← symSquare A; let b ← symSquare B; matMul a b : Except Err (Mat Int))).toOption.map (·.data) :=
  ⟨⟨2, #[1, 2, 3]⟩, ⟨2, #[1, 0, 2]⟩, ⟨2, #[1, 2, 6]⟩, by decide, by decide⟩

/-! ## (A) `Mat::invert`: the swap loops apply exactly the inverse permutation -/

/-- With `σ(indr s) = indc s` (pivot rows ↦ pivot columns), the two swap loops turn the
    in-place Gauss–Jordan result `B` into `final(u,v) = B(σ⁻¹ u, σ v)`: stated without `σ` as
    `final(indc s, indr t) = B(indr s, indc t)` for all `s, t < N`. -/
theorem undo_permutation {α : Type} (N : Nat) (indr indc : Nat → Nat) (m : Nat → α)
    (hr : (∀ i, i < N → indr i < N) ∧ (∀ i j, i < N → j < N → indr i = indr j → i = j))
    (hc : (∀ i, i < N → indc i < N) ∧ (∀ i j, i < N → j < N → indc i = indc j → i = j)) :
    ∀ s t, s < N → t < N →
      undoPermutation N indr indc m (indc s * N + indr t) = m (indr s * N + indc t) :=
  undoPermutation_spec N indr indc m hr hc

example : (List.range 9).map (undoPermutation 3 (fun i => (i + 1) % 3) (fun i => (i + 2) % 3) id)
    = [7, 8, 6, 1, 2, 0, 4, 5, 3] := by decide

/-! ## (A) `SymMat::cholDec` / `solve` -/

section
variable {K : Type} [Field K] [LinearOrder K] [IsStrictOrderedRing K]

/-- if `cholDec` does not reject and reports nullity 0 (tolerance `≥ 0`), the packed factor `L`
    satisfies `L Lᵀ = A` on the lower triangle (hence everywhere, by symmetry) and has a
    non-zero diagonal -/
theorem symchol (sq : K → K) (hsq : ∀ x, 0 ≤ x → sq x * sq x = x) (tol : K) (htol : 0 ≤ tol)
    (n : Nat) (s L : Nat → K) (h : @cholDec K (fieldScalar K sq) n tol s = .ok (L, 0)) :
    ∀ i j, 1 ≤ j → j ≤ i → i ≤ n →
      (∑ k ∈ Finset.range j, L (tri i (k + 1)) * L (tri j (k + 1)) = s (tri i j)) ∧ L (tri i i) ≠ 0 := by
  intro i j h1 h2 h3
  obtain ⟨a, _, c⟩ := cholDec_spec sq hsq tol htol n s L h i j h1 h2 h3
  exact ⟨a, c⟩

/-- `solve` with that factor solves `A x = b` -/
theorem symchol_solve (sq : K → K) (hsq : ∀ x, 0 ≤ x → sq x * sq x = x) (tol : K) (htol : 0 ≤ tol)
    (n : Nat) (s L b : Nat → K) (h : @cholDec K (fieldScalar K sq) n tol s = .ok (L, 0)) :
    ∀ i, 1 ≤ i → i ≤ n →
      ∑ j ∈ Finset.range n, symEntry s i (j + 1) * @cholSolve K (fieldScalar K sq) n L b j = b (i - 1) :=
  cholDec_cholSolve_spec sq hsq tol htol n s L b h

/-- full statement not proved (general nullity): for a positive semi-definite `A` and
    `cholDec = .ok (L, d)` with `d > 0`, `L Lᵀ = A` still holds when every zeroed pivot is an exact
    zero (the Schur column vanishes).  Missing: the PSD ⇒ zero-column argument on the in-place
    loop.  Proved instead: the nullity-0 case above. -/
theorem symchol_partial (sq : K → K) (hsq : ∀ x, 0 ≤ x → sq x * sq x = x) (tol : K) (htol : 0 ≤ tol)
    (n : Nat) (s L : Nat → K) (h : @cholDec K (fieldScalar K sq) n tol s = .ok (L, 0)) :
    ∀ i, 1 ≤ i → i ≤ n → 0 < L (tri i i) * L (tri i i) := by
  intro i h1 h2
  exact (cholDec_spec sq hsq tol htol n s L h i i h1 (Nat.le_refl i) h2).2.1

end

example : ∃ L, @cholDec ℚ (fieldScalar ℚ sqEx) 2 (1 / 100000000) sEx = .ok (L, 0) ∧
    L 0 = 2 ∧ L 1 = 1 ∧ L 2 = 1 := cholDec_example

end Gama.Props.C15
