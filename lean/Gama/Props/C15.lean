/-
  C15 — Dense matrix library obeys the algebra it implements.
  Property theorems only; helper lemmas live in Gama/Lemmas.
-/
import Gama.Lemmas.MemRepRefine
import Gama.Lemmas.MatInvertPerm
namespace Gama.Props.C15
open Gama Gama.MemRep Gama.MatVec

/-! ## (A) Value semantics of the owning buffer `MemRep` -/

/-- **Refinement for every history.**  Any script of construct / copy-construct /
    move-construct / copy-assign / move-assign / resize / write / destroy operations, run
    on the explicit heap from the empty state, either completes and then every slot holds
    exactly the value that the same script yields on independent values (copy duplicates,
    move transfers and leaves the source empty, nothing is shared), or stops at the same
    operation with the same reason (`BadRank` thrown, or a broken precondition of the
    caller) — and never because a block that is not allocated was freed, read or written.
    The ownership invariant (no block owned twice, every `rep` points to a live block of
    `sz` elements) holds in the final state. -/
theorem value_semantics {K : Type} [Inhabited K] (ops : List (Op K)) :
    match run (St.init : St K) ops with
    | .ok s => Inv s ∧ specRun (fun _ => none) ops = .ok (val s)
    | .error e => specRun (fun _ => none) ops = .error e ∧ e ≠ .heapFault := by
  have h := run_refines ops (St.init : St K) inv_init
  have hv : val (St.init : St K) = fun _ => none := by funext k; simp [val, St.init]
  rw [hv] at h; exact h

/-- one step from any state satisfying the invariant (used for the corollaries below) -/
theorem step_value_semantics {K : Type} [Inhabited K] {s s' : St K} (h : Inv s) {op : Op K}
    (hs : step s op = .ok s') : Inv s' ∧ spec (val s) op = .ok (val s') := step_ok h hs

/-- no operation frees, reads or writes a block it does not own -/
theorem no_heap_fault {K : Type} [Inhabited K] {s : St K} (h : Inv s) (op : Op K) :
    step s op ≠ .error .heapFault := step_no_heapFault h op

end Gama.Props.C15
