/-
  C12 — The XML result is a faithful, well-formed serialisation of the adjustment.

  Property theorems only; helper lemmas live in Gama/Lemmas/{XmlEsc,CovBand}.lean.
  `str2xml`, `escMap` and `sites` are the ones REGENERATED from the source tree
  (Gen/XmlSites.lean): the `by decide` side conditions below are evaluated on the character map
  and the writer-site table of the tree being checked.

  Covered by theorems: escaping (round trip, well-formedness, every writer site that streams an
  input string), the covariance band (clipping, emission order, packed reconstruction), the index
  lists, the writer ∘ reader round trip of point / orientation / observation records under the
  satisfiable number law of b-C13 (`Codec.Printer`).
-/
import Gama.Lemmas.XmlEsc
import Gama.Lemmas.CovBand
import Gama.Lemmas.ReaderPoint
import Gama.Lemmas.XmlRecordsCodec
import Gama.Lemmas.XmlDoc
import Gama.Gen.XmlSkeleton
namespace Gama.Props.C12
open Gama Gama.XmlEsc Gama.CovBand Gama.Gen.XmlSites Gama.ReaderPoint Gama.XmlRec Gama.XmlDoc Gama.Gen.XmlSkeleton

/-! ## escaping -/

/-- an XML processor recovers exactly the original string from what `str2xml` wrote — every byte string -/
theorem C12_escape_roundtrip (s : Bytes) : unescape (str2xml s) = some s := by
  have h : goodTable escMap = true := by decide
  exact unescape_str2xmlT (good_of h) s

/-- what `str2xml` writes is well-formed element content: no `<`, no bare `&`, no `]]>` -/
theorem C12_escape_wellformed (s : Bytes) : wellFormedText (str2xml s) = true := by
  have h : weakTable escMap = true := by decide
  exact wellFormedText_str2xmlT_weak (weak_of h) s

/-- … and a well-formed double-quoted attribute value (no `"` either) -/
theorem C12_escape_wellformed_attr (s : Bytes) : wellFormedAttr (str2xml s) = true := by
  have h : goodAttrTable escMap = true := by decide
  exact wellFormedAttr_str2xmlT h s

/-- every site of `LocalNetworkXML` that streams an input string (`<id>`, `<from>`, `<to>`, `<left>`,
    `<right>`, `<description>`, `extern="…"`) passes it through `str2xml` -/
theorem C12_sites_escaped : ∀ site ∈ sites, siteOK site = true := by
  have h : sites.all siteOK = true := by decide +kernel
  exact List.all_eq_true.mp h

/-- whatever the identifier / description, what is written between the tags is well-formed and
    decodes to the identifier -/
theorem C12_ids_wellformed (site : Site) (h : site ∈ sites) (ht : site.kind = .text) (s : Bytes) :
    wellFormedText (emit site s) = true ∧ unescape (emit site s) = some s := by
  have hok := C12_sites_escaped site h
  have he : site.escaped = true := by
    simp only [siteOK, ht, bne_self_eq_false, Bool.false_or] at hok; exact hok
  simp only [emit, he, if_true]
  exact ⟨C12_escape_wellformed s, C12_escape_roundtrip s⟩

/-- whatever the `extern` string, the attribute value written is well-formed -/
theorem C12_attrs_wellformed (site : Site) (h : site ∈ sites) (ht : site.kind = .text) (s : Bytes) :
    wellFormedAttr (emit site s) = true := by
  have hok := C12_sites_escaped site h
  have he : site.escaped = true := by
    simp only [siteOK, ht, bne_self_eq_false, Bool.false_or] at hok; exact hok
  simp only [emit, he, if_true]
  exact C12_escape_wellformed_attr s

/-- F10 (pinned commit): `str2xml("'")` = `&quot;`, which an XML processor reads as `"` -/
theorem C12_F10_witness : unescape (str2xmlT escMapPinned [39]) = some [34] := by decide

/-- F11 (pinned commit): an `<id>` site that streams the identifier raw writes ill-formed content for
    `A&B` (accepted in the input as `id="A&amp;B"`), and for `A<B` -/
theorem C12_F11_witness :
    wellFormedText (emit ⟨.elem, "id", "coordinates", "(*i).first", .text, false⟩ [65, 38, 66]) = false ∧
    wellFormedText (emit ⟨.elem, "id", "coordinates", "(*i).first", .text, false⟩ [65, 60, 66]) = false := by
  decide

/-- F11 for attributes: `extern="say "hi""` -/
theorem C12_F11_attr_witness :
    wellFormedAttr (emit ⟨.attr, "extern", "visit(Distance)", "s", .text, false⟩ [97, 34, 98]) = false := by
  decide

/-! ## the document -/

/-- the regenerated skeleton of `LocalNetworkXML::write` opens and closes every element on the same path, keeps every
    operand inside its leaf element, and has exactly one root element (static check, evaluated on the tree being checked) -/
theorem C12_skeleton_nested : chk writeSk St.init = some ⟨.epilog, []⟩ := by decide +kernel

/-- … all its literal tag / attribute names are XML names, attribute names of a tag are distinct, literal character data
    and comments are well-formed, and every operand that is an input string is passed through `str2xml` -/
theorem C12_skeleton_lexical : skOK writeSk = true := by decide +kernel

/-- every document `LocalNetworkXML::write` can produce — any number of points, ellipses, orientations, `<flt>`, `<ind>`
    and observations of any kinds, either branch of every conditional, any identifiers / description / `extern` strings,
    any printed numbers — is well-formed XML at the token level: `prolog element Misc*` with one root element, every
    start tag closed by the matching end tag, operands inside their leaf element, and every token lexically well-formed
    (names, unique attributes, attribute values without `<`, `&`, `"`; character data without `<`, bare `&`, `]]>`) -/
theorem C12_document_wellformed (toks : List Tok) (h : Gen writeSk toks) : WellFormedDoc toks :=
  wellFormed_of_checks (by decide) (by decide) writeSk _ C12_skeleton_nested rfl C12_skeleton_lexical toks h

/-- the children of a `<point>` as the record model writes them are an instance of the regenerated `<point>` skeleton:
    `id`, then `x y` or `X Y`, then `z` or `Z` (the writer model of the round-trip theorems follows the source's order) -/
theorem C12_point_tags_in_skeleton :
    ∀ hxy cxy hz cz : Bool,
      accepts sk_coordinates
        ([.stag "coordinates" [] false, .stag "fixed" [] false, .etag "fixed", .stag "approximate" [] false,
          .stag "point" [] false, .stag "id" [] false, .chars false, .etag "id"] ++
         (if hxy then [.stag (if cxy then "X" else "x") [] false, .chars false, .etag (if cxy then "X" else "x"),
                       .stag (if cxy then "Y" else "y") [] false, .chars false, .etag (if cxy then "Y" else "y")] else []) ++
         (if hz then [.stag (if cz then "Z" else "z") [] false, .chars false, .etag (if cz then "Z" else "z")] else []) ++
         [.etag "point", .etag "approximate", .comment, .stag "adjusted" [] false, .etag "adjusted",
          .stag "std-error-ellipses" [] false, .etag "std-error-ellipses",
          .stag "orientation-shifts" [] false, .etag "orientation-shifts", .comment,
          .stag "cov-mat" [] false, .stag "dim" [] false, .chars false, .etag "dim", .stag "band" [] false, .chars false,
          .etag "band", .etag "cov-mat", .comment, .stag "original-index" [] false, .etag "original-index",
          .etag "coordinates"]) = true := by
  intro hxy cxy hz cz
  cases hxy <;> cases cxy <;> cases hz <;> cases cz <;> decide +kernel

/-! ## covariance band -/

/-- the band written is within `0 … dim-1` (0 for an empty matrix) for every requested `--cov-band ≥ -1`
    (`LocalNetwork::set_adj_covband` clamps smaller values to -1) -/
theorem C12_band_clip (band : Int) (dim : Nat) (h : -1 ≤ band) :
    0 ≤ clip band dim ∧ (0 < dim → clip band dim < dim) ∧
    (0 ≤ band → band < dim → clip band dim = band) ∧ (band = -1 → 0 < dim → clip band dim = dim - 1) := by
  refine ⟨?_, fun hd => (clip_range band dim hd h).2, ?_, ?_⟩
  · unfold clip; split
    · omega
    · split <;> omega
  · intro h0 hlt; unfold clip
    have : dim ≠ 0 := by omega
    simp only [this, if_false]
    rw [if_neg (by omega)]
  · intro hb hd; unfold clip
    have : dim ≠ 0 := by omega
    simp [this, hb]

/-- read ∘ write: gama's reader accepts the `<cov-mat>` the writer produced, with the same dimension and
    the clipped band, and the reconstructed `CovMat` equals `Q` cut to that band at every position
    (both triangles) — all `dim`, all `band ≥ -1`, all `Q` -/
theorem C12_band_roundtrip {K : Type} [Zero K] (Q : Nat → Nat → K) (dim : Nat) (band : Int)
    (h : -1 ≤ band) :
    ∃ C : CovMat K, read (write Q dim band) = .ok C ∧ C.dim = dim ∧ C.band = clip band dim ∧
      ∀ i j, 1 ≤ i → i ≤ dim → 1 ≤ j → j ≤ dim → get C i j = bandOf Q (clip band dim) i j :=
  read_write Q dim band h

/-- the number of `<flt>` elements is exactly the packed storage of `CovMat(dim, band)` -/
theorem C12_band_count {K : Type} (Q : Nat → Nat → K) (dim : Nat) (band : Int) (h : -1 ≤ band) :
    ((write Q dim band).flt.length : Int) = storage dim (clip band dim) := by
  by_cases hd : dim = 0
  · subst hd; simp [write, emitFlt, storage, clip]
  · obtain ⟨h0, h1⟩ := clip_range band dim (Nat.pos_of_ne_zero hd) h
    obtain ⟨b, hb⟩ : ∃ b : Nat, clip band dim = (b : Int) := ⟨(clip band dim).toNat, by omega⟩
    simp only [write, hb, length_emitFlt]
    exact (storage_eq_off dim b (by omega)).symm

/-- `<original-index>` lists the rows of the printed matrix in the order of `ind[]`, provided every
    orientation unknown `i` belongs to the standpoint whose `index_orientation()` is `i` -/
theorem C12_original_index (pts : List Pt) (oris : List Ori)
    (h : ∀ o ∈ oris, o.standpointIndex = o.i) : originalIndex pts oris = indList pts oris :=
  (indList_eq_originalIndex pts oris h).symm

/-- the reader's sequential numbering of adjusted coordinates and orientations is 1 … dim in the
    writer's row order, so `adj.cov(indx, indy)` addresses the right rows -/
theorem C12_reader_numbering (pts : List Pt) (oris : List Ori) :
    readerIndexes pts oris = List.range' 1 (indList pts oris).length :=
  readerIndexes_eq pts oris

/-- C03, network clause ("the covariance matrix written to the XML output equals m0²·Q for any --cov-band"):
    with `ind[]` the index list the writer builds (`indList`: adjusted coordinates in `PD` order, then orientations) and
    `Q = qxx` the cofactors of the adjustment, the `<flt>` sequence is `m0²·Q(ind[i], ind[j])` for `i = 1…dim`,
    `j = i…min(dim, i+band')` (`band' = clip band dim`), gama's reader accepts it and reconstructs exactly
    `bandOf (m0²·Q∘ind) band'` at every position of the dim×dim matrix (both triangles, 0 outside the band), and
    `<original-index>` is `ind[]`, so row `i` of the matrix read back is unknown `ind[i]` of the adjustment — for every
    `--cov-band ≥ -1`, any points / orientations.  Hypothesis `hori` (network invariant, not derived here: the numbering
    model of b-C08 (`Model/MinX`) has the index function but not the `unknowns_` list that `unknown_standpoint(i)` reads):
    orientation unknown `i` belongs to the stand-point whose `index_orientation()` is `i`. -/
theorem C03_xml_cov_is_m0sq_Q {K : Type} [Zero K] [Mul K] (Q : Nat → Nat → K) (m0 : K) (pts : List Pt) (oris : List Ori)
    (hori : ∀ o ∈ oris, o.standpointIndex = o.i) (band : Int) (h : -1 ≤ band) :
    let ind := indList pts oris
    let dim := ind.length
    let cov : Nat → Nat → K := fun i j => m0 * m0 * Q (ind.getD (i - 1) 0) (ind.getD (j - 1) 0)
    (write cov dim band).flt = emitFlt cov dim (clip band dim) ∧
    (∃ C : CovMat K, read (write cov dim band) = .ok C ∧ C.dim = dim ∧ C.band = clip band dim ∧
      ∀ i j, 1 ≤ i → i ≤ dim → 1 ≤ j → j ≤ dim → get C i j = bandOf cov (clip band dim) i j) ∧
    originalIndex pts oris = ind := by
  intro ind dim cov
  exact ⟨rfl, read_write cov dim band h, C12_original_index pts oris hori⟩

/-! ## the reader's point records -/

/-- every point record the reader builds is a function of the point's own child elements, the section kind and the
    running index only: two reader states that agree on those two push the same record and counter, whatever the
    previous points left in `tmp_point` and the has/con flags (this is what `tmp_point.clear()` in `point(true)`
    is for) -/
theorem C12_reader_point_local {K : Type} (zero : K) (s t : PState K) (ha : s.adjusted = t.adjusted) (hk : s.k = t.k)
    (id : String) (evs : List (Ev K)) :
    (runPoint zero s (.id id :: evs)).map (fun r => (r.tmp, r.k)) =
    (runPoint zero t (.id id :: evs)).map (fun r => (r.tmp, r.k)) :=
  runPoint_local zero s t ha hk id evs

/-- … and it is appended to the section's list, which is otherwise unchanged -/
theorem C12_reader_point_pushed {K : Type} (zero : K) (s : PState K) (id : String) (evs : List (Ev K)) :
    (runPoint zero s (.id id :: evs)).map (fun r => (r.tmp, r.k, r.out)) =
      (endV (evs.foldl childV (freshV zero s.adjusted s.k id))).map (fun pk => (pk.1, pk.2, s.out ++ [pk.1])) :=
  runPoint_spec zero s id evs

/-- a point without `<z>` is read with `hz = false`, `z = 0`, `indz = 0`, `cz = false` (a plane point never inherits
    the height or the height index of the 3D point before it) -/
theorem C12_reader_point_no_z {K : Type} (zero : K) (adjusted : Bool) (k : Nat) (id : String) (evs : List (Ev K))
    (h : ∀ e ∈ evs, isZ e = false) (p : PointRec K) (k' : Nat)
    (hp : endV (evs.foldl childV (freshV zero adjusted k id)) = .ok (p, k')) :
    p.hz = false ∧ p.z = zero ∧ p.indz = 0 ∧ p.cz = false :=
  endV_noZ zero adjusted k id evs h p k' hp

/-! ## writer ∘ reader on the records

  `C : Gama.Export.Codec K` with `C.Printer q` is the number law of b-C13: reading what was printed gives the quantised
  number `q x` (`q = id` for an exact codec; `decCodec`/`decQ` is a genuine fixed-digits printer).  Identifiers have no
  leading / trailing white space (`PointID::init`), which is what `get_string` strips. -/

/-- one `<point>` of `<fixed>` / `<approximate>` / `<adjusted>`: whatever earlier points left in the reader
    (`st` arbitrary: a plane point after a 3D point, a height point after a constrained one …), gama's reader accepts the
    children the writer produced and pushes the written point: same id, has/constrained flags of the section's rule,
    coordinates up to the number codec, absent coordinates 0, adjustment indexes `k+1 …` under `<adjusted>`, 0 elsewhere -/
theorem C12_point_roundtrip {K : Type} [Scalar K] (C : Gama.Export.Codec K) (q : K → K) {qd : K → K} (P : C.Printer q qd)
    (zero : K) (st : PState K) (s : Sect) (f : Frame K) (p : LPoint K) (hid : Trimmed p.id)
    (ha : st.adjusted = (s == .adjusted)) :
    ∃ r, readPoint (numOf C) zero st (writePoint (numOf C) s f p) = .ok r ∧
      r.tmp = expectPoint q zero s f st.k p ∧ r.k = nextK s st.k p ∧
      r.out = st.out ++ [expectPoint q zero s f st.k p] ∧ r.adjusted = st.adjusted :=
  readPoint_writePoint (numOf C) q (numOf_law P) zero st s f p hid ha

/-- a whole section, any number of points in any mix and order: the reader's list is the list of written points
    (points the writer skips with `continue` are absent) and the counter ends at the number of adjusted coordinates -/
theorem C12_section_roundtrip {K : Type} [Scalar K] (C : Gama.Export.Codec K) (q : K → K) {qd : K → K} (P : C.Printer q qd)
    (zero : K) (s : Sect) (f : Frame K) (pts : List (LPoint K)) (hid : ∀ p ∈ pts, Trimmed p.id)
    (st : PState K) (ha : st.adjusted = (s == .adjusted)) :
    ∃ r, readPoints (numOf C) zero st (writeSection (numOf C) s f pts) = .ok r ∧
      r.out = st.out ++ (expectSection q zero s f st.k pts).1 ∧ r.k = (expectSection q zero s f st.k pts).2 ∧
      r.adjusted = st.adjusted :=
  readPoints_writeSection (numOf C) q (numOf_law P) zero s f pts hid st ha

/-- `<orientation>` records: id, approximate and adjusted orientation up to the codec, `index = ++tmp_adj_index`
    continuing after the adjusted coordinates — any number of orientations -/
theorem C12_orientation_roundtrip {K : Type} [Scalar K] (C : Gama.Export.Codec K) (q : K → K) {qd : K → K} (P : C.Printer q qd)
    (f : Frame K) (os : List (LOri K)) (hid : ∀ o ∈ os, Trimmed o.id) (st : OState K) :
    ∃ r, readOris (numOf C) st (os.map (writeOri (numOf C) f)) = .ok r ∧ r.k = st.k + os.length ∧
      r.out = st.out ++ expectOris q f st.k os :=
  readOris_writeOris (numOf C) q (numOf_law P) f os hid st

/-- an observation element of any of the 13 kinds, with or without `<std-residual>` and `<err-obs>/<err-adj>`: the reader
    reaches one of its three accepting states and the record is the written one (`from/to`, `left/right` for angles, `id`
    for coordinates read into `from`; numbers up to the codec; the two error estimates kept as the printed strings) -/
theorem C12_observation_roundtrip {K : Type} [Scalar K] (C : Gama.Export.Codec K) (q : K → K) {qd : K → K} (P : C.Printer q qd)
    (zero : K) (f : Frame K) (o : LObs K)
    (hfrom : Trimmed o.from_) (hto : Trimmed o.to) (hbs : Trimmed o.bs) (hfs : Trimmed o.fs) :
    readObs (numOf C) zero o.kind.tag (writeObs (numOf C) f o) = .ok (expectObs (numOf C) q zero f o) :=
  readObs_writeObs (numOf C) q (numOf_law P) zero f o hfrom hto hbs hfs

/-! ## non-vacuity -/

-- `<`, `>`, `&`, `'`, `"`, `]]>` and a two-byte UTF-8 character
example : str2xml [60, 62, 38, 39, 34, 93, 93, 62, 195, 169] =
    [38,108,116,59, 38,103,116,59, 38,97,109,112,59, 38,97,112,111,115,59, 38,113,117,111,116,59,
     93, 93, 38,103,116,59, 195, 169] := by decide
example : unescape (str2xml [60, 62, 38, 39, 34, 93, 93, 62, 195, 169]) =
    some [60, 62, 38, 39, 34, 93, 93, 62, 195, 169] := by decide
example : wellFormedText [65, 38, 66] = false := by decide          -- A&B
example : wellFormedText [93, 93, 62] = false := by decide          -- ]]>
example : wellFormedText [38, 97, 109, 112, 59] = true := by decide -- &amp;
example : (sites.filter (fun s => s.kind == .text)).length = 25 := by decide
example : ∃ s ∈ sites, s.kind = .text ∧ s.ctx = .attr := by decide
-- dim 4, band 1: 7 elements, rows (1,1)(1,2)(2,2)(2,3)(3,3)(3,4)(4,4); the reader returns 0 outside
example : (write (fun i j => (10 * i + j : Int)) 4 1).flt = [11, 12, 22, 23, 33, 34, 44] := by decide
example : (write (fun i j => (10 * i + j : Int)) 4 (-1)).band = 3 := by decide
example : (write (fun i j => (10 * i + j : Int)) 4 7).flt.length = 10 := by decide
example : (match read (write (fun i j => (10 * i + j : Int)) 4 1) with
    | .ok C => [get C 3 2, get C 2 3, get C 4 4, get C 1 3]
    | .error _ => []) = [23, 23, 44, 0] := by decide
-- C03 network clause on a plane point + height point + one orientation, Q(a,b) = 10a+b, m0 = 2, band 1:
-- ind = [3,4,5,6]; rows (1,1)(1,2)(2,2)(2,3)(3,3)(3,4)(4,4) ↦ 4·Q(ind i, ind j)
example : indList [⟨true, false, 3, 4, 0⟩, ⟨false, true, 0, 0, 5⟩] [⟨6, 6⟩] = [3, 4, 5, 6] := by decide
example : (write (fun i j => (4 : Int) * ((10 * ([3, 4, 5, 6].getD (i - 1) 0) + [3, 4, 5, 6].getD (j - 1) 0 : Nat) : Int)) 4 1).flt =
    [132, 136, 176, 180, 220, 224, 264] := by decide
-- a surplus element is ignored, a missing one is an error
example : (match read (⟨2, 1, [1, 2, 3, 4]⟩ : Written Int) with | .ok C => C.data | .error _ => []) = [1, 2, 3] := by decide
example : (match read (⟨2, 1, [1, 2]⟩ : Written Int) with | .ok _ => 0 | .error _ => 1) = 1 := by decide
-- fixed point, xy point, xyz point, z point; two orientations
example : indList [⟨true, false, 0, 0, 0⟩, ⟨true, false, 3, 4, 0⟩, ⟨true, true, 1, 2, 7⟩, ⟨false, true, 0, 0, 5⟩]
    [⟨6, 6⟩, ⟨8, 8⟩] = [3, 4, 1, 2, 7, 5, 6, 8] := by decide
example : readerIndexes [⟨true, false, 0, 0, 0⟩, ⟨true, false, 3, 4, 0⟩, ⟨true, true, 1, 2, 7⟩, ⟨false, true, 0, 0, 5⟩]
    [⟨6, 6⟩, ⟨8, 8⟩] = [1, 2, 3, 4, 5, 6, 7, 8] := by decide
-- a 3D point followed by a plane point followed by a height point, under <adjusted>
example : mixedOut.map (·.id) = ["A", "B", "C"] := by decide
example : mixedOut.map (fun p => [p.x, p.y, p.z, p.indx, p.indy, p.indz]) =
    [[1, 2, 3, 1, 2, 3], [4, 5, 0, 4, 5, 0], [0, 0, 6, 0, 0, 6]] := by decide
example : mixedOut.map (fun p => [p.hxy, p.hz, p.cxy, p.cz]) =
    [[true, true, false, false], [true, false, true, false], [false, true, false, false]] := by decide
example : (match runPoint (0 : Nat) (sectionStart 0 false) [.id "A", .x 1 false] with
    | .error .xWithoutY => true | _ => false) = true := by decide
-- the skeleton generates documents: the smallest one (no points, no observations) and one with a point whose id is `A&B`
example : ∃ toks, Gen (.seq (.tok (.stag "id" [] false)) (.seq (.tok (.text "id" .text true)) (.tok (.etag "id")))) toks ∧
    toks = [.stag "id" [] false, .chars (str2xml [65, 38, 66]), .etag "id"] :=
  ⟨_, .seq (.tok (.stag .nil)) (.seq (.tok (.text ⟨[65, 38, 66], rfl⟩)) (.tok .etag)), rfl⟩
example : run St.init [.decl, .stag "r" [] false, .stag "id" [] false, .chars [65], .etag "id", .etag "r", .chars [10]] =
    some ⟨.epilog, []⟩ := by decide
-- mismatched end tag, second root element, character data outside the root, text after `<?xml` moved: all refused
example : run St.init [.stag "r" [] false, .stag "id" [] false, .etag "r"] = none := by decide
example : run St.init [.stag "r" [] true, .stag "s" [] true] = none := by decide
example : run St.init [.chars [65], .stag "r" [] true] = none := by decide
example : run St.init [.chars [10], .decl] = none := by decide
-- a skeleton that forgets a close, or streams a raw identifier, fails the static checks
example : chk (.seq (.tok (.stag "a" [] false)) (.star (.tok (.stag "b" [] false)))) St.init = none := by decide
example : skOK (.tok (.text "id" .text false)) = false := by decide
example : lexOK (.stag "a" [("x", [34])] false) = false := by decide
example : lexOK (.stag "a" [("x", []), ("x", [])] false) = false := by decide
-- the record round trips with the fixed-digits printer of b-C13 (`decCodec`, quantisation `decQ`): a fixed 3D point,
-- a free 3D point, a constrained plane point whose id has an inner blank, a height point, an unused point
example : ∃ r, readPoints (numOf Gama.Export.decCodec) 0 (sectionStart 0 true)
      (writeSection (numOf Gama.Export.decCodec) .adjusted exFrame exPoints) = .ok r ∧
    r.out = (expectSection Gama.Export.decQ 0 .adjusted exFrame 0 exPoints).1 ∧ r.k = 6 := by
  obtain ⟨r, h1, h2, h3, _⟩ := C12_section_roundtrip Gama.Export.decCodec Gama.Export.decQ Gama.Export.decCodec_printer
    0 .adjusted exFrame exPoints exPoints_trimmed (sectionStart 0 true) rfl
  exact ⟨r, h1, by simpa [sectionStart] using h2, by rw [h3]; decide⟩
-- the numbers are rounded by the printer (1001+1 ↦ 1010), the plane point has no height and no height index
example : (expectSection Gama.Export.decQ 0 .adjusted exFrame 0 exPoints).1.map
      (fun p => (p.id, [p.x, p.y, p.z], [p.hxy, p.hz, p.cxy, p.cz], [p.indx, p.indy, p.indz])) =
    [("A", [1010, 2010, 3010], [true, true, false, false], [1, 2, 3]),
     ("B x", [4010, 5010, 0], [true, false, true, false], [4, 5, 0]),
     ("C", [0, 0, 6020], [false, true, false, false], [0, 0, 6])] := by decide
example : (expectSection Gama.Export.decQ 0 .fixed exFrame 0 exPoints).1.map (fun p => (p.id, p.x, p.indx)) =
    [("F", 1010, 0)] := by decide
example : (writeSection (numOf Gama.Export.decCodec) .approximate exFrame exPoints).map (fun ls => ls.map (·.tag)) =
    [["id", "x", "y", "z"], ["id", "X", "Y"], ["id", "z"]] := by decide
example : ∃ r, readOris (numOf Gama.Export.decCodec) ⟨⟨"", 0, 0, 0⟩, "", 6, []⟩
      (exOris.map (writeOri (numOf Gama.Export.decCodec) exFrame)) = .ok r ∧ r.k = 8 ∧
      r.out = expectOris Gama.Export.decQ exFrame 6 exOris := by
  obtain ⟨r, h1, h2, h3⟩ := C12_orientation_roundtrip Gama.Export.decCodec Gama.Export.decQ Gama.Export.decCodec_printer
    exFrame exOris exOris_trimmed ⟨⟨"", 0, 0, 0⟩, "", 6, []⟩
  exact ⟨r, h1, h2, by simpa using h3⟩
example : (expectOris Gama.Export.decQ exFrame 6 exOris).map (fun o => (o.id, o.index)) = [("A", 7), ("B x", 8)] := by decide
example : (exObs.map (fun o => (writeObs (numOf Gama.Export.decCodec) exFrame o).map (·.tag))) =
    [["from", "to", "obs", "adj", "stdev", "qrr", "f", "std-residual", "err-obs", "err-adj"],
     ["from", "left", "right", "obs", "adj", "stdev", "qrr", "f"],
     ["id", "obs", "adj", "stdev", "qrr", "f"]] := by decide
-- an element that stops after <qrr> is refused, as is <y> before <x>
example : readObs (⟨fun _ => "", fun _ => some 1⟩ : Num Nat) 0 "distance"
    [⟨"from", "A"⟩, ⟨"to", "B"⟩, ⟨"obs", "1"⟩, ⟨"adj", "1"⟩, ⟨"stdev", "1"⟩, ⟨"qrr", "1"⟩] = .error .obsAttrMissing := by
  decide
example : (match readPoint (⟨fun _ => "", fun _ => some 1⟩ : Num Nat) 0 (sectionStart 0 false) [⟨"id", "A"⟩, ⟨"y", "1"⟩] with
    | .error .illegalContext => true | _ => false) = true := by decide

end Gama.Props.C12
