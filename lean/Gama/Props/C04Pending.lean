/-
  C04 — the negative regions as theorems (round 9; audit #3 "Missing, by value" item 2).

  Row 3b of the property characterises where a chol / gso object may differ from a fresh one (`Pending`); here the
  region is shown to be one of GENUINE difference (`step ≠ fresh` for every query), which makes the characterisation an
  equivalence along every history; the svd analogue has its own region `PendingS`; and the "raw readers" of
  `LocalNetwork` (members that read a cached artefact without bringing it up to date first) get their conditional
  guarantee: on an adjusted network they answer like a fresh network after `solve()`.
  Lemmas: Lemmas/FullPending.lean, Lemmas/FullPendingSvd.lean, Lemmas/NetRawReaders.lean.
-/
import Gama.Lemmas.FullPending
import Gama.Lemmas.FullPendingSvd
import Gama.Lemmas.FullRefusalSvd
import Gama.Lemmas.NetRawReaders
namespace Gama.Props.C04
open Gama Gama.C04 Gama.C04.Full Gama.C04.Net

/-- **chol, gso: a pending refusal IS a difference.**  After any history (queries, `min_x…`, `reset`, `reset(A', b')`,
    refused solves), if the refusal of the current input under the current configuration is `Pending` (`is_solved` was set
    before the throw and nothing cleared it), EVERY query is answered differently from a brand-new object with the same
    input and configuration: the object answers from the abandoned artefacts, the fresh one refuses. -/
theorem full_pending_differs_from_fresh (k : Kind) (inp0 : Full.Input) (ua : Bool) (l0 : Option (List Nat))
    (ops : List Full.HOp) (q : Full.Op) :
    let h := hfrun k ⟨inp0, Full.init ua l0⟩ ops
    Pending k h.inp h.s → q.IsQuery → (hfstep k h (.q q)).2 ≠ Full.fresh k h.inp h.s.useAll h.s.list q :=
  hf_pending_step_ne_fresh k inp0 ua l0 ops q

/-- … on any state, without an invariant -/
theorem full_pending_step_differs (k : Kind) (inp : Full.Input) (s : FState) (hp : Pending k inp s) (q : Full.Op)
    (hq : q.IsQuery) : (Full.step k inp s q).2 ≠ Full.fresh k inp s.useAll s.list q :=
  pending_step_ne_fresh k inp s hp q hq

/-- **chol, gso: the exact region.**  Along every history a query is answered as by a fresh object IF AND ONLY IF no
    refusal is pending (`full_history_free_across_inputs` gives ⇐, `full_pending_differs_from_fresh` ⇒). -/
theorem full_fresh_iff_not_pending (k : Kind) (inp0 : Full.Input) (ua : Bool) (l0 : Option (List Nat))
    (ops : List Full.HOp) (q : Full.Op) (hq : q.IsQuery) :
    let h := hfrun k ⟨inp0, Full.init ua l0⟩ ops
    (hfstep k h (.q q)).2 = Full.fresh k h.inp h.s.useAll h.s.list q ↔ ¬ Pending k h.inp h.s :=
  hf_step_eq_fresh_iff k inp0 ua l0 ops q hq

/-- non-vacuity (both kinds): the refused solve leaves `Pending`; the object then returns `.x (.broken [1,2])`, a fresh
    one `.badReg` -/
example :
    let a : Full.Input := { n := 6, nullity := 3, resolves := fun l => decide (3 ≤ l.length) }
    ∀ k : Kind,
      let h := hfrun k ⟨a, Full.init false (some [1, 2])⟩ [.q .unknowns]
      Pending k h.inp h.s ∧ Full.Op.unknowns.IsQuery ∧ (hfstep k h (.q .unknowns)).2 = .x (.broken [1, 2])
      ∧ Full.fresh k h.inp h.s.useAll h.s.list .unknowns = .badReg := by
  intro a k
  cases k <;> exact ⟨by decide, trivial, by decide, by decide⟩

/-- **svd: the region `PendingS`** (`is_solved ∧ 0 < defect ∧ a subset is configured ∧ it does not resolve`: reached when
    `SVD::min_x(list)` throws from inside `AdjSVD::min_x` before `is_solved = false`).  After any history — refusals and
    resets to other inputs included, no hypothesis — every query of an object in `PendingS` is answered differently from
    a fresh object (which refuses every query there, `defect()`/`lindep()` included: the decomposition regularises).
    Round 13: the converse holds too — `svd_fresh_iff_not_differs` is the exact per-query characterisation, and
    `svd_history_free_with_refusals` the hypothesis-free history freedom. -/
theorem svd_pending_differs_from_fresh (inp0 : Full.Input) (sub : Bool) (l0 : Option (List Nat)) (ops : List Full.HOp)
    (q : Full.Op) :
    let h := hsrun ⟨inp0, Full.sinit sub l0⟩ ops
    PendingS h.inp h.s → q.IsQuery → (hsstep h (.q q)).2 ≠ Full.sfresh h.inp h.s.sub h.s.list q :=
  hs_pending_step_ne_fresh inp0 sub l0 ops q

/-- non-vacuity: the history of the `example` in Props/C04Full.lean (`unknowns`, then `min_x [1]` on defect 2) ends in
    `PendingS`; `unknowns` returns the OLD `x`, a fresh object refuses -/
example :
    let inp : Full.Input := { n := 4, nullity := 2, resolves := fun l => decide (2 ≤ l.length) }
    let h := hsrun ⟨inp, Full.sinit false none⟩ [.q .unknowns, .q (.minx [1])]
    PendingS h.inp h.s ∧ (hsstep h (.q .unknowns)).2 = .x .plain
    ∧ Full.sfresh h.inp h.s.sub h.s.list .unknowns = .badReg := by
  exact ⟨by decide, by decide, by decide⟩

/-- **svd: history freedom WITH refused solves in the history (round 13; the converse of the above).**  No hypothesis on
    inputs, lists or outcomes (`SCfgOk`, `ValidS`, `op.Ok` gone): after ANY history of queries, `min_x…`, `reset`,
    `reset(A', b')` every QUERY is answered as by a brand-new object with the current input and configuration, unless the
    state is `StaleS` (`0 < defect ∧ a subset is configured ∧ it does not resolve ∧ decomposed`: a decomposition made
    under an earlier configuration survived a refused `min_x(list)`; `PendingS ⊆ StaleS`). -/
theorem svd_history_free_with_refusals (inp0 : Full.Input) (sub : Bool) (l0 : Option (List Nat)) (ops : List Full.HOp)
    (q : Full.Op) :
    let h := hsrun ⟨inp0, Full.sinit sub l0⟩ ops
    q.IsQuery → ¬ StaleS h.inp h.s → (hsstep h (.q q)).2 = Full.sfresh h.inp h.s.sub h.s.list q :=
  hs_history_free_with_refusals_query inp0 sub l0 ops q

/-- … for every op, with the one configuration call that is itself refused excluded: `min_x(n, list)` with a
    non-resolving list on a DECOMPOSED singular system re-regularises at once and throws, a fresh object stores the list
    and returns (`MinxRefusedS`; both halves: `Full.minxRefused_step`) -/
theorem svd_history_free_with_refusals_all_ops (inp0 : Full.Input) (sub : Bool) (l0 : Option (List Nat))
    (ops : List Full.HOp) (op : Full.Op) :
    let h := hsrun ⟨inp0, Full.sinit sub l0⟩ ops
    ¬ StaleS h.inp h.s → ¬ MinxRefusedS h.inp h.s op → (hsstep h (.q op)).2 = Full.sfresh h.inp h.s.sub h.s.list op :=
  hs_history_free_with_refusals inp0 sub l0 ops op

/-- **svd: the exact region, per query.**  Along every history a query is answered as by a fresh object IF AND ONLY IF
    not (`0 < defect`, a non-resolving subset is configured, and — for `defect()`/`lindep()` — the object is decomposed,
    — for every other query — it is solved). -/
theorem svd_fresh_iff_not_differs (inp0 : Full.Input) (sub : Bool) (l0 : Option (List Nat)) (ops : List Full.HOp)
    (q : Full.Op) :
    let h := hsrun ⟨inp0, Full.sinit sub l0⟩ ops
    q.IsQuery → ((hsstep h (.q q)).2 = Full.sfresh h.inp h.s.sub h.s.list q ↔ ¬ DiffersS h.inp h.s q) :=
  hs_fresh_iff inp0 sub l0 ops q

/-- the refusal-inclusive invariant behind it (`SInv` without its configuration clause: `V_`'s provenance is pinned
    also after a refused regularisation — plain for the `defect > n_min` exit, `.broken l` for the zero-norm exit) -/
theorem svd_invariant_with_refusals (inp0 : Full.Input) (sub : Bool) (l0 : Option (List Nat)) (ops : List Full.HOp) :
    let h := hsrun ⟨inp0, Full.sinit sub l0⟩ ops
    SInvRR h.inp h.s :=
  hs_invariant_with_refusals inp0 sub l0 ops

/-- non-vacuity: a refused `unknowns`, then `min_x([1,2])`: outside `StaleS`, the answer `.x (.reg [1,2])` is the fresh
    object's; right after the refusal `defect()` differs (decomposed) while `unknowns` agrees (not solved) -/
example :
    let inp : Full.Input := { n := 4, nullity := 2, resolves := fun l => decide (2 ≤ l.length) }
    let h1 := hsrun ⟨inp, Full.sinit true (some [1])⟩ [.q .unknowns]
    let h2 := hsrun ⟨inp, Full.sinit true (some [1])⟩ [.q .unknowns, .q (.minx [1, 2])]
    (hsstep ⟨inp, Full.sinit true (some [1])⟩ (.q .unknowns)).2 = .badReg
    ∧ Full.Op.unknowns.IsQuery ∧ ¬ StaleS h2.inp h2.s ∧ (hsstep h2 (.q .unknowns)).2 = .x (.reg [1, 2])
    ∧ DiffersS h1.inp h1.s .defect ∧ ¬ DiffersS h1.inp h1.s .unknowns := by
  exact ⟨by decide, trivial, by decide, by decide, by decide, by decide⟩

/-- **raw readers: the conditional guarantee.**  A member that reads cached artefacts WITHOUT bringing them up to date
    (`cond`, `lindep`, `qxx`, `qbb`, `qbx`, `stdev_obs`, `stdev_res`, `wcoef_res`, `unknown_stdev`, `std_error_ellipse`,
    `obs_control`, `studentized_residual` — uncovered reads of level 3 only; in fact every row of the generated table,
    `RawWF`) is outside `net_cascade_sound`; but after any history that leaves the network ADJUSTED (`tst_vyrovnani_`
    set — e.g. directly after a covered member), it reads artefacts of the CURRENT configuration and answers exactly
    as on a brand-new network of that configuration on which `solve()` was called first. -/
theorem net_raw_reader_on_adjusted_network (inp : NInput) (hthr : inp.throws = false) (c : Cfg) (ops : List NOp)
    (hops : ∀ o ∈ ops, o.Ok) (m : Gen.Member) (hm : m.RawWF) (h3 : (nrun inp (ninit c) ops).f3 = true) :
    let s := nrun inp (ninit c) ops
    (nstep inp s (.call m)).2 = rawSpec s.cfg m
    ∧ (nstep inp s (.call m)).2 = (nstep inp (nstep inp (ninit s.cfg) (.call (memberD "solve"))).1 (.call m)).2 :=
  nrun_raw_adjusted inp hthr c ops hops m hm h3

/-- the state-level form asked for by the audit: `NInv s → s.f3 = true →` the answer of a raw reader whose uncovered
    reads are all of level 3 names the current configuration for every artefact -/
theorem net_raw_reader_level3 (inp : NInput) (hthr : inp.throws = false) {s : NState} (h : NInv s) (h3 : s.f3 = true)
    (m : Gen.Member) (hu : ∀ l ∈ m.uncovered, l = 3)
    (hreads : ∀ r ∈ m.reads, r ∈ m.uncovered ∨ ∃ e, m.ensures = some e ∧ r ≤ e)
    (hens : ∀ e, m.ensures = some e → e ≤ 3) (hupd : ∀ u, m.updates = some u → u ≤ 3) :
    (nstep inp s (.call m)).2 = .read ((m.uncovered.map fun l => (l, some (snap s.cfg l)))
               ++ ((m.reads.filter fun l => !m.uncovered.contains l).map fun l => (l, some (snap s.cfg l)))) :=
  nstep_raw_level3 inp hthr h h3 m hu hreads hens hupd

/-- every row of the CURRENT table satisfies `RawWF`; 12 of the 24 raw readers have uncovered reads of level 3 only -/
theorem net_table_raw_wf :
    (∀ m ∈ Gen.members, m.RawWF)
    ∧ (Gen.members.filter (fun m => !m.uncovered.isEmpty && m.uncovered.all (· == 3))).map (·.name)
      = ["cond", "lindep", "obs_control", "qbb", "qbx", "qxx", "std_error_ellipse", "stdev_obs", "stdev_res",
         "studentized_residual", "unknown_stdev", "wcoef_res"] :=
  ⟨table_all_rawWF, table_raw_level3⟩

/-- non-vacuity: after `solve()` the network is adjusted and `stdev_obs` reads the adjustment of the current
    configuration; after a change it does not (`net_raw_reader_stale`) -/
example :
    let inp : NInput := { throws := false }
    let solve := memberD "solve"
    let sdo := memberD "stdev_obs"
    (∀ o ∈ [NOp.call solve], o.Ok) ∧ sdo.RawWF ∧ (nrun inp (ninit ⟨0, 0, 0, 0⟩) [.call solve]).f3 = true
    ∧ (nstep inp (nrun inp (ninit ⟨0, 0, 0, 0⟩) [.call solve]) (.call sdo)).2 = .read [(3, some ⟨0, 0, 0, 0⟩)] := by
  refine ⟨?_, table_all_rawWF _ (by decide), by decide, by decide⟩
  intro o ho
  simp only [List.mem_cons, List.mem_nil_iff, or_false] at ho
  subst ho
  exact Gen.Member.wf_of_wfb (by decide)

end Gama.Props.C04
