/-
  C07 — "turning the zero of a direction set" on the matrix and right-hand side `project_equations()` ITSELF assembles
  (round 7; gap #9 of notes/CLAUSES.md audit #3, C07 "Missing 1", row 2c).

  `C07_circle_rotation_assembled` (`Props/C07.lean`) is about `C07Perm.codeMatrixOf` and takes `colOf … uOri ∉ S` as a
  hypothesis.  Here:

    * `C07_ori_column_of_pass`, `C07_circle_rotation_of_pass` — the same statement about `passMatrix r` / `r.rhs` of a pass of
      `Lin.passFrom` over `Gen.Lin` (the loop `drv_lin` / `drv_pe` execute), the orientation column read off C05's own
      row theorems; the set `R` is DEFINED (the directions of stand-point `k`), so `hdir`/`hother` are no hypotheses;
    * `C07_circle_rotation_of_project_equations` — for the output `(np, u)` of `PE.projectEquations`: the matrix is
      `np.rows`, the right-hand side `np.rhs`, the regularisation subset ANY subset of `np.minx` (`min_x_`), and
      "the orientation unknown is not regularised" is DERIVED (`C07_pe_ori_not_regularised`).

  Translation and mirror: `C07_translation_assembled` is an iff of `Linearises` (no matrix in the statement), so it
  already applies to the rows of a pass (`C07PE` adds nothing); the mirror's restatement on `passMatrix` (two passes,
  `castCol`) and the derived block-diagonal `P' = D_s P D_s` are NOT done in this round.
-/
import Gama.Lemmas.C07ProjectEquations
import Gama.Lemmas.C06PolLin
import Gama.Props.C01.ProjectEquations
namespace Gama.Props.C07ProjectEquations
open Gama Gama.Lin Gama.PE Gama.LS Gama.C06FP Gama.C07PE Matrix

/-- **the orientation column of a pass**: `index_orientation(k)` is a column of the assembled matrix, with −1 in the rows
    of the directions of stand-point `k` and 0 in every other row -/
theorem C07_ori_column_of_pass (σ : Lin.Net ℝ) (fuel : Nat) (obs : List (NObs ℝ)) (s0 : IdxState) (r : PassOut ℝ)
    (hs0 : s0.WF) (hp : passFrom σ fuel obs s0 = .ok r) (hreg : ∀ ob ∈ obs, Regular ob.kind (σ.view ob))
    (k : Nat) (i0 : Fin obs.length) (hi0 : InSet obs k i0) :
    ∃ col : Fin r.idx.maxn, col.val + 1 = r.idx.get ⟨k, .ori⟩ ∧
      ∀ i : Fin obs.length, passMatrix r obs.length i col = if InSet obs k i then -1 else 0 :=
  ori_column σ fuel obs s0 r hs0 hp hreg k i0 hi0

/-- **circle rotation, on the pass's own matrix**: the directions of stand-point `k` are read `c` larger (their
    right-hand sides `b'` come from linearising the re-read records), none of them wraps, every other row keeps its
    right-hand side; `(x, v, Φ)` a least-squares solution of the pass (`passMatrix r`, `r.rhs`, any `P`, `S`) and the
    orientation column not in `S`.  Then the re-expressed pass has the SAME matrix and the solution with the same
    coordinates, residuals and Φ, the orientation unknown smaller by `c·R2CC` -/
theorem C07_circle_rotation_of_pass (σ : Lin.Net ℝ) (fuel : Nat) (obs : List (NObs ℝ)) (s0 : IdxState) (r : PassOut ℝ)
    (hs0 : s0.WF) (hp : passFrom σ fuel obs s0 = .ok r) (hreg : ∀ ob ∈ obs, Regular ob.kind (σ.view ob))
    (k : Nat) (c : ℝ) (fuel' : Nat) (i0 : Fin obs.length) (hi0 : InSet obs k i0) (b' : Fin obs.length → ℝ)
    (hin : ∀ i, InSet obs k i → ∃ out', Gen.Lin.direction fuel' (rotObs c (σ.view obs[i])) = .ok out' ∧ b' i = out'.rhs)
    (hout : ∀ i, ¬ InSet obs k i → b' i = r.rhs.getD i.val 0)
    (hsmall : ∀ i, InSet obs k i → |r.rhs.getD i.val 0 + c * R2CC| < HALF)
    (P : Matrix (Fin obs.length) (Fin obs.length) ℝ) (S : Finset (Fin r.idx.maxn))
    (hS : ∀ j ∈ S, j.val + 1 ≠ r.idx.get ⟨k, .ori⟩)
    (x : Fin r.idx.maxn → ℝ) (v : Fin obs.length → ℝ) (rtr : ℝ)
    (h : IsLSSolution (passMatrix r obs.length) (fun i : Fin obs.length => r.rhs.getD i.val 0) P S x v rtr) :
    ∃ col : Fin r.idx.maxn, col.val + 1 = r.idx.get ⟨k, .ori⟩ ∧
      IsLSSolution (passMatrix r obs.length) b' P S (x + (-(c * R2CC)) • Pi.single col 1) v rtr :=
  rotation_of_pass σ fuel obs s0 r hs0 hp hreg k c fuel' i0 hi0 b' hin hout hsmall P S hS x v rtr h

/-- **circle rotation for what `project_equations()` hands over.**  `(np, u)` the output of the call; `b` its last inner
    pass — whose rows ARE `np.rows`, right-hand sides `np.rhs`, column count `np.n` —; `S` any subset of the regularisation
    list `min_x_` the call hands to the solver.  No hypothesis about the orientation column: an `index_orientation()` is
    never in `min_x_`. -/
theorem C07_circle_rotation_of_project_equations (net : PE.Net ℝ) (np : Ls.Net.NetProblem ℝ) (u : Unknowns ℝ)
    (hpe : projectEquations net = .ok (np, u)) :
    ∃ b : PassOut ℝ, Pass np u b ∧
      ∀ (hreg : ∀ ob ∈ revisedObs u.net, Regular ob.kind ((sigmaOf u.net).view ob))
        (k : Nat) (c : ℝ) (fuel' : Nat) (i0 : Fin (revisedObs u.net).length) (hi0 : InSet (revisedObs u.net) k i0)
        (b' : Fin (revisedObs u.net).length → ℝ)
        (hin : ∀ i, InSet (revisedObs u.net) k i → ∃ out',
          Gen.Lin.direction fuel' (rotObs c ((sigmaOf u.net).view (revisedObs u.net)[i])) = .ok out' ∧ b' i = out'.rhs)
        (hout : ∀ i, ¬ InSet (revisedObs u.net) k i → b' i = b.rhs.getD i.val 0)
        (hsmall : ∀ i, InSet (revisedObs u.net) k i → |b.rhs.getD i.val 0 + c * R2CC| < HALF)
        (P : Matrix (Fin (revisedObs u.net).length) (Fin (revisedObs u.net).length) ℝ) (S : Finset (Fin b.idx.maxn))
        (hS : ∀ j ∈ S, j.val + 1 ∈ np.minx)
        (x : Fin b.idx.maxn → ℝ) (v : Fin (revisedObs u.net).length → ℝ) (rtr : ℝ)
        (h : IsLSSolution (passMatrix b (revisedObs u.net).length)
          (fun i : Fin (revisedObs u.net).length => b.rhs.getD i.val 0) P S x v rtr),
        ∃ col : Fin b.idx.maxn, col.val + 1 = u.net.idx.get ⟨k, .ori⟩ ∧
          IsLSSolution (passMatrix b (revisedObs u.net).length) b' P S (x + (-(c * R2CC)) • Pi.single col 1) v rtr := by
  obtain ⟨b, Pb⟩ := pe_pass net np u hpe
  refine ⟨b, Pb, ?_⟩
  intro hreg k c fuel' i0 hi0 b' hin hout hsmall P S hS x v rtr h
  have hag : u.net.idx.get ⟨k, .ori⟩ = b.idx.get ⟨k, .ori⟩ := Pb.agree _ (Or.inl rfl)
  have hnot := Gama.Props.C01.C07_pe_ori_not_regularised net np u hpe k
  have hS' : ∀ j ∈ S, j.val + 1 ≠ b.idx.get ⟨k, .ori⟩ := by
    intro j hj heq
    apply hnot
    rw [hag, ← heq]
    exact hS j hj
  obtain ⟨col, hc, hls⟩ := rotation_of_pass _ _ _ _ b IdxState.wf_init Pb.pass hreg k c fuel' i0 hi0 b' hin hout hsmall
    P S hS' x v rtr h
  exact ⟨col, by rw [hag]; exact hc, hls⟩

/-! ### non-vacuity -/

/-- every hypothesis of `C07_circle_rotation_of_pass` together, over ℝ: C05's example network, the pass over
    `C06PL.lowObs` (an exact direction of stand-point 0 from point 7 to point 8, then the 5 m distance) returns for some
    fuel; both rows are regular; the direction is in the set of stand-point 0; the direction re-read 1 mrad larger
    linearises (some fuel) without wrapping (`|0 + 2000/π| < 2·10⁶` cc); unit weights, empty regularisation subset, and
    the zero vector IS a least-squares solution of the pass (its right-hand side is 0) -/
example : ∃ (fuel fuel' : Nat) (r : PassOut ℝ) (i0 : Fin C06PL.lowObs.length) (out' : LinOut ℝ),
    passFrom exNet fuel C06PL.lowObs IdxState.init = .ok r ∧
    (∀ ob ∈ C06PL.lowObs, Regular ob.kind (exNet.view ob)) ∧ InSet C06PL.lowObs 0 i0 ∧
    Gen.Lin.direction fuel' (rotObs (1 / 1000) (exNet.view C06PL.lowObs[i0])) = .ok out' ∧
    |r.rhs.getD i0.val 0 + 1 / 1000 * R2CC| < HALF ∧
    IsLSSolution (passMatrix r C06PL.lowObs.length) (fun i : Fin C06PL.lowObs.length => r.rhs.getD i.val 0)
      (1 : Matrix _ _ ℝ) (∅ : Finset (Fin r.idx.maxn)) 0 0 0 := by
  have hc := ex_not_cut
  have hc0 : ¬ hdist (exNet.view ⟨.direction, 0, 7, 8, 0, brg 3 4 - 2 * Real.pi⟩) < CUT := hc
  obtain ⟨fuel, out, hd⟩ := direction_terminates (exNet.view ⟨.direction, 0, 7, 8, 0, brg 3 4 - 2 * Real.pi⟩) hc0
  have hc1 : ¬ hdist (rotObs (1 / 1000) (exNet.view ⟨.direction, 0, 7, 8, 0, brg 3 4 - 2 * Real.pi⟩)) < CUT := hc0
  obtain ⟨fuel', out', hd'⟩ := direction_terminates _ hc1
  have e : C06PL.lowObs = [⟨.direction, 0, 7, 8, 0, brg 3 4 - 2 * Real.pi⟩, ⟨.distance, 0, 7, 8, 0, 5⟩] := rfl
  have hp : ∃ r, passFrom exNet fuel C06PL.lowObs IdxState.init = .ok r := by
    rw [e]
    simp only [passFrom, Kind.lin, hd, distance_eq _ _ ex_not_cut]
    exact ⟨_, rfl⟩
  obtain ⟨r, hr⟩ := hp
  have hz : (fun i : Fin C06PL.lowObs.length => r.rhs.getD i.val 0) = 0 :=
    pass_rhs_vec_zero exNet fuel C06PL.lowObs _ r C06PL.lowObs_exact hr
  have hlen : 0 < C06PL.lowObs.length := (by norm_num : 0 < 2)
  refine ⟨fuel, fuel', r, ⟨0, hlen⟩, out', hr, ?_, ⟨rfl, rfl⟩, hd', ?_, ?_⟩
  · intro ob hob
    rw [e] at hob
    simp only [List.mem_cons, List.not_mem_nil, or_false] at hob
    rcases hob with rfl | rfl
    · exact hc0
    · exact hc
  · have h0 : r.rhs.getD 0 0 = 0 := congrFun hz ⟨0, hlen⟩
    show |r.rhs.getD 0 0 + 1 / 1000 * R2CC| < HALF
    rw [h0, zero_add]
    unfold R2CC HALF
    have hpi := Real.two_le_pi
    rw [abs_of_pos (by positivity)]
    rw [show (1 : ℝ) / 1000 * (2000000 / Real.pi) = 2000 / Real.pi by ring, div_lt_iff₀ Real.pi_pos]
    nlinarith
  · rw [hz]
    exact zero_isLSSolution _ _ _

end Gama.Props.C07ProjectEquations
