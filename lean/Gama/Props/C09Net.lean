/-
  C09 at the level gama-local reports from: class `LocalNetwork` (model `Gama/Model/NetFacade.lean`).

  `Props/C09Solvers.lean` applies the statistics formulas to what the four SOLVER models return
  (`Stats.SolverFacts`).  gama-local does not read the solver classes but `LocalNetwork::qxx`, `qbb`,
  `stdev_obs` (= `sigma_L`), `wcoef_res` (= `vahkopr`), `degrees_of_freedom`, `m_0`.  Here:

  * `C09_net_solver_facts` — for `netSolve alg np = .ok a` (all four algorithms, correlated clusters, excluded
    observations, any `m0`, any `min_x_`), at the shared `Scalar ℝ`: `SolverFacts a.toAnswer A W S Q B` with `A`
    the ORIGINAL design matrix, `W` the whitening of `prepareProjectEquations()` (`WᵀW = P = m0²·Σ⁻¹`) — from
    `C03_net_cofactors` (`Lemmas/Ls/NetFacadeCof.lean`);
  * `C09_dof_of_net`, `C09_ellipse_of_net`, `C09_stdev_of_net` — the consumers of `SolverFacts`
    (`C09_dof`, `C09_ellipse_of_solver_cofactors`, `C09_stdev_of_solver_cofactors`) instantiated with it, and
    `C09_net_accessors`: the model's `degrees_of_freedom()`, `m_0()`, `stdev_obs(k)`, `wcoef_res(k)` ARE the
    regenerated `StatsGen` formulas applied to `a.defect`, `[pvv]`, `q_bb(k,k)` and the standard deviation
    `√cov(k',k')` of the k-th ACTIVE observation (`k'` its position in its cluster).
  `C09_sigma_apr_scaling` (whitening: the diagonal `σ_apr/stdev_k`) is lifted in `Props/C09NetScaling.lean`: for the
  network the whitening is a block Cholesky factor, and it scales exactly (`W' = s·W`), correlated clusters included.
-/
import Gama.Props.C09Solvers
import Gama.Lemmas.Ls.NetFacadeCof
namespace Gama.Props.C09
open Gama Gama.Stats Gama.Ls Gama.Ls.Net Gama.LS Matrix Real

set_option linter.unusedVariables false

/-- **what C01/C03/C20 establish about an answer of `LocalNetwork`**, collected as `Stats.SolverFacts` at the
    shared `Scalar ℝ` (all four algorithms; hypotheses = those of `C01_net_*` / `C03_net_cofactors`; `P` is the
    weight matrix: any inverse of the cofactor matrix `C = Σ/m0²` of `C01_net_cofactor`, i.e. `P = m0²·Σ⁻¹`) -/
theorem C09_net_solver_facts (alg : Alg) (np : NetProblem ℝ)
    (hdim : (dimsN np).sum = np.m) (hrows : RowsOK (toProblem np))
    (P : Matrix (Fin (toProblem np).m) (Fin (toProblem np).m) ℝ) (hP : (toProblem np).C * P = 1)
    (hyp : Net.SolverHyp alg np) (a : NetAnswer ℝ) (h : netSolve alg np = .ok a) :
    ∃ W Q B, Wᵀ * W = P ∧
      SolverFacts a.toAnswer (toProblem np).A W (toProblem np).S Q B := by
  revert hdim hrows P hP hyp a h
  rw [scalarReal_eq_fieldScalar]
  intro hdim hrows P hP hyp a h
  obtain ⟨W, Q, B, hW, -, -, -, hf⟩ := net_cofFacts alg np hdim hrows P hP hyp a h
  exact ⟨W, Q, B, hW,
    { qxx := hf.qxx, qbb := hf.qbb, symm := hf.symm, psd := hf.psd, nqn := hf.nqn, qnq := hf.qnq,
      belongs := hf.belongs, hat := hf.hat, hat_diag := hf.hat_diag, redundancy := hf.redundancy,
      defect_rank := hf.defect_rank }⟩

/-- **degrees of freedom gama-local reports** = `m − rank A` = `m − n + dim ker A` = `Σ_k (1 − qbb(k,k))`, `≥ 0` -/
theorem C09_dof_of_net (alg : Alg) (np : NetProblem ℝ)
    (hdim : (dimsN np).sum = np.m) (hrows : RowsOK (toProblem np))
    (P : Matrix (Fin (toProblem np).m) (Fin (toProblem np).m) ℝ) (hP : (toProblem np).C * P = 1)
    (hyp : Net.SolverHyp alg np) (a : NetAnswer ℝ) (h : netSolve alg np = .ok a) :
    a.dof np = (np.m : ℤ) - (toProblem np).A.rank ∧
    a.dof np = (np.m : ℤ) - np.n + LS.nullity (toProblem np).A ∧ 0 ≤ a.dof np ∧
    ∃ B : Matrix (Fin (toProblem np).m) (Fin (toProblem np).m) ℝ,
      (∀ i j : Fin (toProblem np).m, a.qbb (i.val + 1) (j.val + 1) = .ok (B i j)) ∧
      ((a.dof np : ℤ) : ℝ) = ∑ k, (1 - B k k) := by
  obtain ⟨W, Q, B, -, hf⟩ := C09_net_solver_facts alg np hdim hrows P hP hyp a h
  obtain ⟨d1, d2, d3, d4⟩ := C09_dof a.toAnswer _ W _ Q B hf
  exact ⟨d1, d2, d3, B, hf.qbb, d4⟩

/-- **the error ellipse gama-local reports** is the eigen-decomposition of the 2×2 block of the cofactors
    `qxx` of the network (PSD derived from `C03_net_cofactors`) -/
theorem C09_ellipse_of_net (alg : Alg) (np : NetProblem ℝ)
    (hdim : (dimsN np).sum = np.m) (hrows : RowsOK (toProblem np))
    (P : Matrix (Fin (toProblem np).m) (Fin (toProblem np).m) ℝ) (hP : (toProblem np).C * P = 1)
    (hyp : Net.SolverHyp alg np) (a : NetAnswer ℝ) (h : netSolve alg np = .ok a)
    (ix iy : Fin (toProblem np).n) (m0 : ℝ) (hm : 0 ≤ m0) :
    ∃ cyy cyx cxx : ℝ,
      a.qxx (iy.val + 1) (iy.val + 1) = .ok cyy ∧ a.qxx (iy.val + 1) (ix.val + 1) = .ok cyx ∧
      a.qxx (ix.val + 1) (ix.val + 1) = .ok cxx ∧ a.qxx (ix.val + 1) (iy.val + 1) = .ok cyx ∧
      0 ≤ cxx ∧ 0 ≤ cyy ∧ cyx ^ 2 ≤ cxx * cyy ∧
      IsEigenEllipse cxx cyx cyy m0 (StatsGen.stdErrorEllipse cyy cyx cxx m0) := by
  obtain ⟨W, Q, B, -, hf⟩ := C09_net_solver_facts alg np hdim hrows P hP hyp a h
  exact C09_ellipse_of_solver_cofactors a.toAnswer _ W _ Q B hf ix iy m0 hm

/-- **the accessors are the regenerated formulas**: `degrees_of_freedom()`, `m_0()`, `stdev_obs(k)`,
    `wcoef_res(k)` of the model, given that `qbb(k,k)` answers `q` -/
theorem C09_net_accessors (np : NetProblem ℝ) (a : NetAnswer ℝ) (act : SigmaAct) (k : ℕ) (q m0 : ℝ)
    (hq : a.qbb (k + 1) (k + 1) = .ok q)
    (hm : StatsGen.m0 act np.m0 a.pvv (StatsGen.degreesOfFreedom np.m np.n a.defect) = .ok m0) :
    a.dof np = StatsGen.degreesOfFreedom np.m np.n a.defect ∧ a.m0 np act = .ok m0 ∧
    a.stdevObs np act (k + 1) = .ok (StatsGen.sigmaL m0 np.m0 q (Dn.vget (obsStdDev np) k)) ∧
    a.wcoefRes np (k + 1)
      = .ok (StatsGen.wcoefRes q (StatsGen.weightObs np.m0 (Dn.vget (obsStdDev np) k))) := by
  have hm' : a.m0 np act = .ok m0 := hm
  refine ⟨rfl, hm', ?_, ?_⟩
  · unfold NetAnswer.stdevObs
    rw [hm', hq]
    simp only [Nat.add_sub_cancel]
  · unfold NetAnswer.wcoefRes Net.weightObs
    rw [hq]
    simp only [Nat.add_sub_cancel]

/-- **standard deviations gama-local reports**: `C09_stdev_of_solver_cofactors` for the answer of `LocalNetwork`
    — `unknown_stdev(i)² = m0²·qxx(i,i)`, `stdev_obs(k)² = m0²·qbb(k,k)/p_k`, `wcoef_res(k) = (1 − qbb(k,k))/p_k ≥ 0`
    (the clamp never fires over ℝ because `qbb(k,k) ≤ 1`), `stdev_res(k)² = m0²·(1 − qbb(k,k))/p_k`, with
    `p_k = weight_obs(k) = (σ_apr/stdev_k)²` and `stdev_k` the standard deviation of the k-th ACTIVE observation;
    the values are what the model's `stdev_obs(k)`, `wcoef_res(k)` return.  (For a correlated cluster
    `qbb(k,k)/p_k` is NOT the cofactor of the adjusted observation in its own units — known finding C09-F1;
    the statement is about what the code computes.) -/
theorem C09_stdev_of_net (alg : Alg) (np : NetProblem ℝ)
    (hdim : (dimsN np).sum = np.m) (hrows : RowsOK (toProblem np))
    (P : Matrix (Fin (toProblem np).m) (Fin (toProblem np).m) ℝ) (hP : (toProblem np).C * P = 1)
    (hyp : Net.SolverHyp alg np) (a : NetAnswer ℝ) (h : netSolve alg np = .ok a)
    (act : SigmaAct) (hsapr : 0 < np.m0) (hphi : 0 ≤ a.pvv)
    (i : Fin (toProblem np).n) (k : Fin (toProblem np).m) (hst : 0 < Dn.vget (obsStdDev np) k.val) :
    ∃ (m0 qii bkk : ℝ),
      a.m0 np act = .ok m0 ∧ 0 ≤ m0 ∧
      a.qxx (i.val + 1) (i.val + 1) = .ok qii ∧ 0 ≤ qii ∧
      StatsGen.unknownStdev m0 qii ^ 2 = m0 ^ 2 * qii ∧
      a.qbb (k.val + 1) (k.val + 1) = .ok bkk ∧ 0 ≤ bkk ∧ bkk ≤ 1 ∧ 0 < Net.weightObs np (k.val + 1) ∧
      (∃ sL, a.stdevObs np act (k.val + 1) = .ok sL ∧ 0 ≤ sL ∧
        sL ^ 2 = m0 ^ 2 * (bkk / Net.weightObs np (k.val + 1))) ∧
      (∃ qv, a.wcoefRes np (k.val + 1) = .ok qv ∧ 0 ≤ qv ∧
        qv = 1 / Net.weightObs np (k.val + 1) - bkk / Net.weightObs np (k.val + 1) ∧
        StatsGen.stdevRes m0 qv ^ 2 = m0 ^ 2 * qv) := by
  obtain ⟨W, Q, B, -, hf⟩ := C09_net_solver_facts alg np hdim hrows P hP hyp a h
  obtain ⟨m0, s0, s1, -, -, -, s5, s6, -, s8, -, s10, s11, s12, s13, s14, s15, s16, s17, s18⟩ :=
    C09_stdev_of_solver_cofactors a.toAnswer _ W _ Q B hf act np.m0 a.pvv
      (StatsGen.degreesOfFreedom np.m np.n a.defect) hsapr hphi i k (Dn.vget (obsStdDev np) k.val) hst
  obtain ⟨-, a2, a3, a4⟩ := C09_net_accessors np a act k.val (B k k) m0 s10 s0
  have hw : Net.weightObs np (k.val + 1) = StatsGen.weightObs np.m0 (Dn.vget (obsStdDev np) k.val) := by
    unfold Net.weightObs; simp only [Nat.add_sub_cancel]
  rw [hw]
  refine ⟨m0, Q i i, B k k, a2, s1, s5, s6, s8, s10, s11, s12, s13, ⟨_, a3, s15, s14⟩, ⟨_, a4, s17, s16, ?_⟩⟩
  rw [s18, s16]

/-! ## non-vacuity -/

/-- the static hypotheses, the per-algorithm premise (dense path: cholesky; sparse path: envelope) and the
    answers with all cofactors are witnessed on `Ex.npQ` over ℚ (`Props/C03/Net.lean`, `Props/C02Facades.lean`:
    correlated cluster with an excluded observation, defect 1, proper `min_x_`; kernel evaluation) — everything but
    the global square-root law, which ℝ has: -/
example : IsSqrt Real.sqrt := ⟨fun _ h => Real.mul_self_sqrt h, fun x _ => Real.sqrt_nonneg x⟩

/-- `C09_net_accessors` on concrete numbers: a priori mode, `σ_apr = 2`, `qbb(1,1) = 4/9`, observation
    variance 16 — its hypotheses hold for any answer with that `qbb` (here an explicit one) -/
example : ∃ (np : NetProblem ℝ) (a : NetAnswer ℝ),
    a.qbb 1 1 = .ok (4/9) ∧
    StatsGen.m0 SigmaAct.apriori np.m0 a.pvv (StatsGen.degreesOfFreedom np.m np.n a.defect) = .ok 2 :=
  ⟨{ m := 1, n := 1, rows := #[#[(1, 1)]], rhs := #[0], clusters := [⟨⟨1, 0, #[16]⟩, [true]⟩], m0 := 2, minx := [] },
   { x := #[0], r := #[0], pvv := 0, defect := 0, Ad := #[#[1/2]], bd := #[0],
     qxx := fun _ _ => .ok 4, qbb := fun _ _ => .ok (4/9) }, rfl, rfl⟩

end Gama.Props.C09
