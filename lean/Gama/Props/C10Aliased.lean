/-
  C10 / C01 at `LocalNetwork` for sparse rows that store SEVERAL coefficients with the same column index (an observation
  from a point to itself), rounds 9b → 12.

  Round 12 state: `RowsOK` is the range condition only, `Problem.dense` sums, every C++ consumer sums (52e994b, 6d0f7107,
  a7902736).  `C10_network_solution_uses_full_covariance_aliased` is therefore the main theorem for EVERY algorithm
  (envelope included) plus "the design matrix is the summed one".  `C10_aliased_rows_are_summed` (the `Net.mergeRows` view of
  rounds 9b/11: a full solver cannot tell a network from its merged form) is kept.
-/
import Gama.Lemmas.Ls.NoAliasFree
import Gama.Props.C10Net
namespace Gama.Props.C10
open Gama Gama.Ls Gama.Ls.Net Gama.LS Matrix

set_option linter.unusedSectionVars false
set_option linter.unusedVariables false

section general
variable {K : Type} [Field K] [LinearOrder K] [IsStrictOrderedRing K] [Gso.SqrtField K]
attribute [local instance] sqrtFnOfSqrtField
attribute [local instance 2000] scalarOfField

/-- **`LocalNetwork` with a full solver does not distinguish a network from its merged form**, and the merged form
    satisfies `RowsOK` by construction; its design matrix is the summed one -/
theorem C10_aliased_rows_are_summed (np : Net.NetProblem K) (alg : Alg) (halg : alg ≠ .env) :
    Net.netSolve alg (Net.mergeRows np) = Net.netSolve alg np ∧
    RowsOK (Net.toProblem (Net.mergeRows np)) ∧
    Net.denseA (Net.mergeRows np) = Net.denseA np ∧
    Net.prepare (Net.mergeRows np) = Net.prepare np ∧
    (∀ (i : Fin (Net.toProblem (Net.mergeRows np)).m) (j : Fin (Net.toProblem (Net.mergeRows np)).n),
      (Net.toProblem (Net.mergeRows np)).A i j = Dn.mget (Net.denseA np) i.val j.val) ∧
    (RowsOK (Net.toProblem np) → ∀ (i : Fin (Net.toProblem np).m) (j : Fin (Net.toProblem np).n),
      (Net.toProblem (Net.mergeRows np)).A i j = (Net.toProblem np).A i j) :=
  ⟨Net.netSolve_mergeRows alg halg np, Net.mergeRows_rowsOK np, Net.denseA_mergeRows np, Net.prepare_mergeRows np,
    Net.mergeRows_A np, fun h => Net.mergeRows_A_of_rowsOK np h⟩

/-- **`C10_network_solution_uses_full_covariance` for rows with REPEATED column indices, every algorithm (envelope
    included)** — round 12.  Since round 11 `RowsOK` is the range condition only and `(toProblem np).A` (`Problem.dense`) adds
    up the coefficients a row stores with the same column index, exactly as `project_equations()`, class `Adj`,
    `Homogenization::run` and `Envelope::set` do.  So this is the main theorem itself, plus the statement that its design
    matrix IS the summed one: `(toProblem np).A i j = denseA np (i,j)`, with no hypothesis (`denseA_eq'`).  (Rounds 9b/11
    had this for gso/svd/cholesky only, through `Net.mergeRows`; that detour is no longer needed.) -/
theorem C10_network_solution_uses_full_covariance_aliased (np : Net.NetProblem K)
    (hdim : (Net.dimsN np).sum = np.m) (hrows : RowsOK (Net.toProblem np)) (hm0 : np.m0 ≠ 0)
    (Pc : Matrix (Fin (Net.toProblem np).m) (Fin (Net.toProblem np).m) K) (hPc : Net.Sigma np * Pc = 1)
    (hreg : Env.RegListOK (Net.toProblem np)) {τ : K} (alg : Alg)
    (h : InputGap alg (Net.toProblem np).A ((np.m0 * np.m0) • Pc) (Net.toProblem np).S τ)
    (a : Net.NetAnswer K) (hs : Net.netSolve alg np = .ok a) :
    -- the matrix is the summed one
    (∀ (i : Fin (Net.toProblem np).m) (j : Fin (Net.toProblem np).n),
      (Net.toProblem np).A i j = Dn.mget (Net.denseA np) i.val j.val) ∧
    -- the answer is the least-squares solution for P = m0²·Σ⁻¹, Σ the full block covariance
    IsLSSolution (Net.toProblem np).A (Net.toProblem np).b ((np.m0 * np.m0) • Pc) (Net.toProblem np).S
      (toVec (Net.toProblem np).n a.x) (toVec (Net.toProblem np).m a.r) a.pvv ∧
    -- and minimises m0²·vᵀΣ⁻¹v
    (∀ x' : Fin (Net.toProblem np).n → K,
      a.pvv ≤ ((Net.toProblem np).A *ᵥ x' - (Net.toProblem np).b) ⬝ᵥ
        ((np.m0 * np.m0) • Pc) *ᵥ ((Net.toProblem np).A *ᵥ x' - (Net.toProblem np).b)) := by
  obtain ⟨-, ⟨hls, -, -⟩, -, -, hmin⟩ :=
    C10_network_solution_uses_full_covariance np hdim hrows hm0 Pc hPc hreg alg h a hs
  refine ⟨fun i j => ?_, hls, hmin⟩
  rw [← Net.denseA_eq' np]
  rfl

end general

/-! ### non-vacuity -/

section witness
open Gama.Ls.Ex
attribute [local instance] sqrtFnOfSqrtField
attribute [local instance 2000] scalarOfField

/-- an ALIASED row: one observation storing column 1 twice (`−1`, `+1`: a point observed from itself).  The column
    indices are NOT distinct, yet `RowsOK` (the range condition only, since round 11) holds; the summed design matrix
    has the entry `−1 + 1` -/
example :
    RowsOK (toProblem (⟨1, 1, #[#[(1, -1), (1, 1)]], #[0], [], 1, []⟩ : NetProblem ℝ)) ∧
    ¬ ([((1 : Nat), (-1 : ℝ)), (1, 1)].map (·.1)).Nodup ∧
    Dn.mget (Net.denseA (⟨1, 1, #[#[(1, -1), (1, 1)]], #[0], [], 1, []⟩ : NetProblem ℝ)) 0 0 = -1 + 1 := by
  refine ⟨fun i hi => ?_, by simp, ?_⟩
  · have hi' : i = 0 := by have : i < 1 := hi; omega
    subst hi'
    simp [toProblem]
  · rw [C10_repeated_columns_dense_sums _ 0 0 (by decide) (by decide) (by simp)]
    simp [Cov.denseRow]

/-- the hypotheses of `C10_network_solution_uses_full_covariance_aliased` are satisfiable and the theorem applies: `Ex.npR`
    (correlated cluster with an excluded observation, defect 1), envelope, cholesky and gso -/
example (alg : Alg) (halg : alg ≠ .svd) : ∃ a, netSolve alg npR = .ok a ∧
    ∀ x' : Fin (toProblem npR).n → ℝ,
      a.pvv ≤ ((toProblem npR).A *ᵥ x' - (toProblem npR).b) ⬝ᵥ
        ((npR.m0 * npR.m0) • PcN) *ᵥ ((toProblem npR).A *ᵥ x' - (toProblem npR).b) := by
  obtain ⟨a, ha, -⟩ := C01.C01_net_answers_witness alg halg
  obtain ⟨-, -, hmin⟩ := C10_network_solution_uses_full_covariance_aliased npR (npW_dims 2 [1]) (npW_rows 2 [1])
    (by show (2 : ℝ) ≠ 0; norm_num) PcN npR_sigma_inv (npW_regListOK 2 [1] (Or.inl rfl)) alg
    (C01.C01_net_inputgap_witness alg halg) a ha
  exact ⟨a, ha, hmin⟩

end witness

end Gama.Props.C10
