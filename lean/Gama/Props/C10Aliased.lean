/-
  C10 / C01 at `LocalNetwork` WITHOUT the no-repeat hypothesis on the sparse rows (`RowsOK.Nodup`, the `NoAlias` of
  `project_equations()`), round 9b — for the full solvers (gso, svd, cholesky).

  A row that stores several coefficients with the same column index (an observation from a point to itself) is assembled by
  `project_equations()` with `A(row, col) += a`: the design matrix is the SUMMED one, `Asum := (toProblem (mergeRows np)).A`,
  `Asum i j = denseA np (i,j)` (`Lemmas/Ls/NoAliasFree.lean`).  `C10_network_solution_uses_full_covariance_aliased`: for ANY
  `np` (no hypothesis on the rows at all) what `netSolve alg np` answers is the weighted least-squares solution of
  `(Asum, b)` for `P = m0²·Σ⁻¹`, `Σ` the full block covariance, and minimises `m0²·vᵀΣ⁻¹v`.

  `--algorithm envelope` is NOT covered (`_partial` reason in the docstring): the C++ sums since 6d0f7107 and C10's
  `Cov.Hom.run` follows (`C10_repeated_columns_agree`), but the LS-side model of the envelope theorems
  (`Ls.Env.homogenize` → `Problem.dense`) still reads a repeated column as last-write-wins.
-/
import Gama.Lemmas.Ls.NoAliasFree
import Gama.Props.C10Net
namespace Gama.Props.C10
open Gama Gama.Ls Gama.Ls.Net Gama.LS Matrix

set_option linter.unusedSectionVars false
set_option linter.unusedVariables false

section general
variable {K : Type} [Field K] [LinearOrder K] [IsStrictOrderedRing K] [Gso.SqrtField K]
attribute [local instance] sqrtFnOfSqrtField
attribute [local instance 2000] scalarOfField

/-- **`LocalNetwork` with a full solver does not distinguish a network from its merged form**, and the merged form
    satisfies `RowsOK` by construction; its design matrix is the summed one -/
theorem C10_aliased_rows_are_summed (np : Net.NetProblem K) (alg : Alg) (halg : alg ≠ .env) :
    Net.netSolve alg (Net.mergeRows np) = Net.netSolve alg np ∧
    RowsOK (Net.toProblem (Net.mergeRows np)) ∧
    Net.denseA (Net.mergeRows np) = Net.denseA np ∧
    Net.prepare (Net.mergeRows np) = Net.prepare np ∧
    (∀ (i : Fin (Net.toProblem (Net.mergeRows np)).m) (j : Fin (Net.toProblem (Net.mergeRows np)).n),
      (Net.toProblem (Net.mergeRows np)).A i j = Dn.mget (Net.denseA np) i.val j.val) ∧
    (RowsOK (Net.toProblem np) → ∀ (i : Fin (Net.toProblem np).m) (j : Fin (Net.toProblem np).n),
      (Net.toProblem (Net.mergeRows np)).A i j = (Net.toProblem np).A i j) :=
  ⟨Net.netSolve_mergeRows alg halg np, Net.mergeRows_rowsOK np, Net.denseA_mergeRows np, Net.prepare_mergeRows np,
    Net.mergeRows_A np, fun h => Net.mergeRows_A_of_rowsOK np h⟩

/-- **`C10_network_solution_uses_full_covariance` without `RowsOK` / `NoAlias`** (gso, svd, cholesky): NO hypothesis on the
    sparse rows of `np`.  `Asum = (toProblem (mergeRows np)).A` is the matrix `project_equations()` accumulates
    (`Asum i j = denseA np (i,j)` = the sum of the coefficients row `i` stores with column `j+1`); `Σ`, `b`, `min_x_`, `m0`
    are those of `np` (`mergeRows` changes the rows only).  PARTIAL in the algorithm only: the full statement has
    `alg` arbitrary; missing for `.env`: `Ls.Env.homogenize` / `Problem.dense` (the model the envelope theorems are
    about) reads a repeated column as last-write-wins, the code (since 6d0f7107) and C10's `Cov.Hom.run` sum. -/
theorem C10_network_solution_uses_full_covariance_aliased (np : Net.NetProblem K)
    (hdim : (Net.dimsN np).sum = np.m) (hm0 : np.m0 ≠ 0)
    (Pc : Matrix (Fin (Net.toProblem (Net.mergeRows np)).m) (Fin (Net.toProblem (Net.mergeRows np)).m) K)
    (hPc : Net.Sigma (Net.mergeRows np) * Pc = 1)
    (hreg : Env.RegListOK (Net.toProblem (Net.mergeRows np))) {τ : K} (alg : Alg) (halg : alg ≠ .env)
    (h : InputGap alg (Net.toProblem (Net.mergeRows np)).A ((np.m0 * np.m0) • Pc) (Net.toProblem (Net.mergeRows np)).S τ)
    (a : Net.NetAnswer K) (hs : Net.netSolve alg np = .ok a) :
    -- the matrix is the summed one, the covariance is the one of `np`
    ((∀ i j, (Net.toProblem (Net.mergeRows np)).A i j = Dn.mget (Net.denseA np) i.val j.val) ∧
      (∀ s t : Fin (Net.toProblem (Net.mergeRows np)).m, Net.Sigma (Net.mergeRows np) s t = Net.sigmaF np s.val t.val) ∧
      (Net.Sigma (Net.mergeRows np))ᵀ = Net.Sigma (Net.mergeRows np) ∧ Pcᵀ = Pc) ∧
    -- the answer of the ORIGINAL network is the least-squares solution of the summed system for P = m0²·Σ⁻¹
    IsLSSolution (Net.toProblem (Net.mergeRows np)).A (Net.toProblem (Net.mergeRows np)).b ((np.m0 * np.m0) • Pc)
      (Net.toProblem (Net.mergeRows np)).S
      (toVec (Net.toProblem (Net.mergeRows np)).n a.x) (toVec (Net.toProblem (Net.mergeRows np)).m a.r) a.pvv ∧
    -- and minimises m0²·vᵀΣ⁻¹v
    (∀ x' : Fin (Net.toProblem (Net.mergeRows np)).n → K,
      a.pvv ≤ ((Net.toProblem (Net.mergeRows np)).A *ᵥ x' - (Net.toProblem (Net.mergeRows np)).b) ⬝ᵥ
        ((np.m0 * np.m0) • Pc) *ᵥ
          ((Net.toProblem (Net.mergeRows np)).A *ᵥ x' - (Net.toProblem (Net.mergeRows np)).b)) := by
  have hs' : Net.netSolve alg (Net.mergeRows np) = .ok a := by rw [Net.netSolve_mergeRows alg halg np]; exact hs
  have hdim' : (Net.dimsN (Net.mergeRows np)).sum = (Net.mergeRows np).m := hdim
  obtain ⟨⟨-, hsym, -⟩, ⟨hls, hpc, -⟩, -, -, hmin⟩ :=
    C10_network_solution_uses_full_covariance (Net.mergeRows np) hdim' (Net.mergeRows_rowsOK np) hm0 Pc hPc hreg alg h a hs'
  exact ⟨⟨Net.mergeRows_A np, fun s t => rfl, hsym, hpc⟩, hls, hmin⟩

end general

/-! ### non-vacuity -/

section witness
open Gama.Ls.Ex
attribute [local instance] sqrtFnOfSqrtField
attribute [local instance 2000] scalarOfField

/-- an ALIASED row: one observation storing column 1 twice (`−1`, `+1`: a point observed from itself).  The column
    indices are NOT distinct, yet `RowsOK` (the range condition only, since round 11) holds; the summed design matrix
    has the entry `−1 + 1` -/
example :
    RowsOK (toProblem (⟨1, 1, #[#[(1, -1), (1, 1)]], #[0], [], 1, []⟩ : NetProblem ℝ)) ∧
    ¬ ([((1 : Nat), (-1 : ℝ)), (1, 1)].map (·.1)).Nodup ∧
    Dn.mget (Net.denseA (⟨1, 1, #[#[(1, -1), (1, 1)]], #[0], [], 1, []⟩ : NetProblem ℝ)) 0 0 = -1 + 1 := by
  refine ⟨fun i hi => ?_, by simp, ?_⟩
  · have hi' : i = 0 := by have : i < 1 := hi; omega
    subst hi'
    simp [toProblem]
  · rw [C10_repeated_columns_dense_sums _ 0 0 (by decide) (by decide) (by simp)]
    simp [Cov.denseRow]

/-- the hypotheses of `C10_network_solution_uses_full_covariance_aliased` are satisfiable and the theorem applies: `Ex.npR`
    (correlated cluster with an excluded observation, defect 1), cholesky and gso — its merged form has the same
    design matrix, so the proved `RankGap` carries over -/
example (alg : Alg) (halg : alg ≠ .svd) (henv : alg ≠ .env) : ∃ a, netSolve alg npR = .ok a ∧
    ∀ x' : Fin (toProblem (Net.mergeRows npR)).n → ℝ,
      a.pvv ≤ ((toProblem (Net.mergeRows npR)).A *ᵥ x' - (toProblem (Net.mergeRows npR)).b) ⬝ᵥ
        ((npR.m0 * npR.m0) • PcN) *ᵥ ((toProblem (Net.mergeRows npR)).A *ᵥ x' - (toProblem (Net.mergeRows npR)).b) := by
  obtain ⟨a, ha, -⟩ := C01.C01_net_answers_witness alg halg
  have eA : (toProblem (Net.mergeRows npR)).A = (toProblem npR).A := by
    funext i j
    exact Net.mergeRows_A_of_rowsOK npR (npW_rows 2 [1]) i j
  have hg : InputGap alg (toProblem (Net.mergeRows npR)).A ((npR.m0 * npR.m0) • PcN)
      (toProblem (Net.mergeRows npR)).S (1 / 2 : ℝ) := by
    rw [eA]; exact C01.C01_net_inputgap_witness alg halg
  obtain ⟨-, -, hmin⟩ := C10_network_solution_uses_full_covariance_aliased npR (npW_dims 2 [1])
    (by show (2 : ℝ) ≠ 0; norm_num) PcN npR_sigma_inv (npW_regListOK 2 [1] (Or.inl rfl)) alg henv hg a ha
  exact ⟨a, ha, hmin⟩

end witness

end Gama.Props.C10
