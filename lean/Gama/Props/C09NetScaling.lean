/-
  C09 — changing ONLY the a-priori reference standard deviation, at the level gama-local reports from:
  class `LocalNetwork` (model `Gama/Model/NetFacade.lean`, `Gama.Ls.Net.netSolve`).

  `C09_sigma_apr_scaling` (`Props/C09Solvers.lean`) is about uncorrelated observations: its whitening is literally
  `diag(σ_apr/stdev_k)`.  In `LocalNetwork` the a-priori sigma is `m_0_apr_` (`np.m0`) and the whitening is what
  `prepareProjectEquations()` computes: per cluster `C = activeCov()/m0²`, `Adj::choldec(C)`, forward substitution —
  a block Cholesky factor, for CORRELATED clusters too.  Here, for `np' = Net.scaleM0 s np = { np with m0 := s·m0 }`:

  * `C09_net_whitening_scales` — the whitening scales EXACTLY: `L̃' = s⁻¹L̃` (uniqueness of the Cholesky factor with
    positive diagonal, block by block, any band), `W' = L̃'ᵀ(s²P) = s·W`, `A_hom' = s·A_hom`, `b_hom' = s·b_hom`,
    `C' · (s²P) = 1`;
  * `C09_sigma_apr_scaling_whitened` — `C09_sigma_apr_scaling`'s LS9 + uniqueness argument for an ARBITRARY injective
    whitening `W` (`WᵀW = P`) and `W' = s·W`: `x' = x`, `v' = v`, `v'Pv' = s²·v'Pv`, `Q' = s⁻²Q`, `q_bb' = q_bb`, same defect;
  * `C09_net_sigma_apr_scaling_adjustment` — two runs `netSolve alg np = .ok a`, `netSolve alg' np' = .ok a'` (any two of
    the four algorithms, correlated clusters, excluded observations, any `min_x_` that resolves the defect): same
    `x`, same residuals, `[pvv]' = s²[pvv]`, same defect, `qxx' = qxx/s²` and `qbb' = qbb` for ALL index pairs, the
    homogenised system the probe reads is `s` times the old one, and every active observation has `stdDev() > 0`;
  * `C09_net_sigma_apr_scaling` — on the MODEL's accessors (`NetAnswer.dof`, `.m0`, `.stdevObs`, `.wcoefRes`,
    `Net.weightObs`): same dof, `m_0()' = s·m_0()` in both `sigma-act` modes, same `m0/m0_apr` and `<ratio>`, weights
    `×s²`, `wcoef_res ×s⁻²`, and UNCHANGED: every `unknown_stdev`, covariance entry `m0²q`, error ellipse, `stdev_obs`,
    `stdev_res`, confidence coefficient.
-/
import Gama.Props.C09Net
import Gama.Props.C02Facades
import Gama.Lemmas.Ls.NetFacadeScale
namespace Gama.Props.C09
open Gama Gama.Stats Gama.Ls Gama.Ls.Net Gama.LS Matrix Real

set_option linter.unusedVariables false

/-! ## the whitening of `prepareProjectEquations()` scales exactly -/

/-- **`m_0_apr_ ↦ s·m_0_apr_` on the whitening** (`s > 0`, `m0 ≠ 0`; any clusters `prepareProjectEquations()` accepts
    in both runs, CORRELATED ones included; `P` any weight matrix of the first run, `C·P = 1`, i.e. `P = m0²Σ⁻¹`).
    `np' = Net.scaleM0 s np` is `{ np with m0 := s * np.m0 }`; `toProblem np'` has the same `A`, `b`, `S`, block
    dimensions and row count (all `rfl`), and its cofactor matrix is inverted by `s²P`.  `L`, `L'` are the block
    lower factors assembled from what `Adj::choldec` left in the two runs (`Net.Lgen`; `L Lᵀ = C`, `L' L'ᵀ = C'`,
    the homogenised dense systems are `(LᵀP)·(A, b)` and `(L'ᵀs²P)·(A, b)`): `L' = s⁻¹L`, so the whitening
    `W' = L'ᵀ(s²P)` is `s·W`, and the homogenised dense system is `s` times the old one. -/
theorem C09_net_whitening_scales (np : NetProblem ℝ) (s : ℝ) (hs : 0 < s) (hm0 : np.m0 ≠ 0)
    (hdim : (dimsN np).sum = np.m) (hrows : RowsOK (toProblem np))
    (P : Matrix (Fin (toProblem np).m) (Fin (toProblem np).m) ℝ) (hP : (toProblem np).C * P = 1)
    (hh hh' : Hom ℝ) (hp : prepare np = .ok hh) (hp' : prepare (scaleM0 s np) = .ok hh') :
    (toProblem (scaleM0 s np)).A = (toProblem np).A ∧ (toProblem (scaleM0 s np)).b = (toProblem np).b ∧
    (toProblem (scaleM0 s np)).S = (toProblem np).S ∧ dimsN (scaleM0 s np) = dimsN np ∧
    (∀ P' : Matrix (Fin (toProblem (scaleM0 s np)).m) (Fin (toProblem (scaleM0 s np)).m) ℝ, P' = s ^ 2 • P →
      (toProblem (scaleM0 s np)).C * P' = 1) ∧
    ∃ L L' : Matrix (Fin (toProblem np).m) (Fin (toProblem np).m) ℝ,
      L * Lᵀ = (toProblem np).C ∧ L' * L'ᵀ = (toProblem (scaleM0 s np)).C ∧ L' = s⁻¹ • L ∧
      toMatrix (toProblem np).m (toProblem np).n hh.Ad = (Lᵀ * P) * (toProblem np).A ∧
      toVec (toProblem np).m hh.bd = (Lᵀ * P) *ᵥ (toProblem np).b ∧
      toMatrix (toProblem np).m (toProblem np).n hh'.Ad = (L'ᵀ * (s ^ 2 • P)) * (toProblem np).A ∧
      toVec (toProblem np).m hh'.bd = (L'ᵀ * (s ^ 2 • P)) *ᵥ (toProblem np).b ∧
      L'ᵀ * (s ^ 2 • P) = s • (Lᵀ * P) ∧
      toMatrix (toProblem np).m (toProblem np).n hh'.Ad = s • toMatrix (toProblem np).m (toProblem np).n hh.Ad ∧
      toVec (toProblem np).m hh'.bd = s • toVec (toProblem np).m hh.bd := by
  revert hdim hrows P hP hh hh' hp hp'
  rw [scalarReal_eq_fieldScalar]
  intro hdim hrows P hP hh hh' hp hp'
  exact ⟨rfl, rfl, rfl, dimsN_scale_field s np, fun P' hP' => weight_scale_field np s hs.ne' hm0 hdim P hP P' hP',
    prepare_scale_field np s hs hm0 hdim hrows P hP hh hh' hp hp'⟩

/-! ## LS9 + uniqueness for an arbitrary whitening -/

/-- **σ_apr ↦ s·σ_apr for an arbitrary whitening.**  `W` injective, `P = WᵀW`; FIRST adjustment: answer `a` with
    cofactors `Q`, `B` (`SolverFacts` for the whitening `W`) and solution `(x, v, φ)` of `(A, b, P, S)`; SECOND
    adjustment: whitening `s·W`, weights `s²P`, answer `a'`, `Q'`, `B'`, `(x', v', φ')`.  No relation between the two
    answers is assumed; `S` resolves the defect.  Then `x' = x`, `v' = v`, `φ' = s²φ` (and `φ ≥ 0`), `Q' = s⁻²Q`,
    `B' = B`, same defect, same degrees of freedom.  (`C09_sigma_apr_scaling` is the case `W = diag(σ_apr/stdev_k)`.) -/
theorem C09_sigma_apr_scaling_whitened {m n : ℕ} (A : Matrix (Fin m) (Fin n) ℝ) (b : Fin m → ℝ) (S : Finset (Fin n))
    (hS : Resolves A S) (W P : Matrix (Fin m) (Fin m) ℝ) (hW : Wᵀ * W = P) (hinj : ∀ d, W *ᵥ d = 0 → d = 0)
    (s : ℝ) (hs : 0 < s)
    (a : Answer ℝ) (Q : Matrix (Fin n) (Fin n) ℝ) (B : Matrix (Fin m) (Fin m) ℝ) (hf : SolverFacts a A W S Q B)
    (x : Fin n → ℝ) (v : Fin m → ℝ) (phi : ℝ) (h1 : IsLSSolution A b P S x v phi)
    (a' : Answer ℝ) (Q' : Matrix (Fin n) (Fin n) ℝ) (B' : Matrix (Fin m) (Fin m) ℝ)
    (hf' : SolverFacts a' A (s • W) S Q' B')
    (x' : Fin n → ℝ) (v' : Fin m → ℝ) (phi' : ℝ) (h2 : IsLSSolution A b (s ^ 2 • P) S x' v' phi') :
    x' = x ∧ v' = v ∧ phi' = s ^ 2 * phi ∧ 0 ≤ phi ∧ Q' = (s ^ 2)⁻¹ • Q ∧ B' = B ∧ a'.defect = a.defect ∧
    StatsGen.degreesOfFreedom m n a'.defect = StatsGen.degreesOfFreedom m n a.defect := by
  have hsne : s ≠ 0 := hs.ne'
  have hpd : ∀ d, d ≠ 0 → 0 < d ⬝ᵥ P *ᵥ d := hW ▸ gram_pd W hinj
  have hpd' := scale_pd hsne hpd
  have hPsym : Pᵀ = P := hW ▸ gram_symm W
  have hPs : (s ^ 2 • P)ᵀ = s ^ 2 • P := by rw [transpose_smul, hPsym]
  have hWP' : (s • W)ᵀ * (s • W) = s ^ 2 • P := by
    rw [transpose_smul, Matrix.smul_mul, Matrix.mul_smul, smul_smul, hW]
    congr 1; ring
  -- LS9 + uniqueness: solution
  obtain ⟨ex, ev, ephi⟩ := (h1.scale s).unique h2 hpd' hS
  -- LS9 + uniqueness: cofactors
  have hN := whiten_normalMatrix hW A
  have hN' := whiten_normalMatrix hWP' A
  rw [Matrix.mul_one] at hN hN'
  rw [scale_normalMatrix] at hN'
  have g := ginv_scale hsne (show IsReflGInv _ Q from ⟨hN ▸ hf.nqn, hN ▸ hf.qnq⟩)
  have eQ : (s ^ 2)⁻¹ • Q = Q' := by
    refine ginv_belongs_unique hPs hpd' hS ?_ ?_ ?_ (belongs_smul _ hf.belongs) ?_ ?_ hf'.symm hf'.belongs
    · rw [scale_normalMatrix]; exact g.1
    · rw [scale_normalMatrix]; exact g.2
    · rw [transpose_smul, hf.symm]
    · rw [scale_normalMatrix, ← hN']; exact hf'.nqn
    · rw [scale_normalMatrix, ← hN']; exact hf'.qnq
  have eB : B' = B := by
    rw [hf'.hat, ← eQ, hat_scale hsne, ← hf.hat]
  have edef : a'.defect = a.defect := by
    have := hf.defect_rank; have := hf'.defect_rank; omega
  have hphi : 0 ≤ phi := by rw [h1.rtr_eq]; exact psd_of_pd hpd v
  exact ⟨ex.symm, ev.symm, ephi.symm, hphi, eQ.symm, eB, edef, by rw [edef]⟩

/-! ## two runs of `LocalNetwork` -/

/-- **`m_0_apr_ ↦ s·m_0_apr_`, one theorem about two runs of `LocalNetwork`: the adjustment and the cofactors.**
    `np` any assembled network (correlated clusters, excluded observations, any `min_x_`), `m0 > 0`, `s > 0`,
    `np' = Net.scaleM0 s np = { np with m0 := s * np.m0 }` — NOTHING else changed; `alg`, `alg'` any two of the four
    algorithms, each with its own premise (`Net.SolverHyp`, on the system it is given); `min_x_` resolves the defect;
    `P` a weight matrix of the first run (`C·P = 1`, `P = m0²Σ⁻¹`).  Both runs answer: `a`, `a'`.  No relation
    between the answers is assumed.  Then: same unknowns, same residuals (original units), `[pvv]' = s²·[pvv] ` (`≥ 0`),
    same defect; there are matrices `Q`, `B` with `qxx(i,j) = Q_ij`, `qxx'(i,j) = Q_ij/s²`, `qbb(i,j) = qbb'(i,j) = B_ij`
    for ALL index pairs (this is where `W' = s·W` enters: `B = (WA)Q(WA)ᵀ`), `Q` symmetric PSD; the homogenised
    dense system of the second run is `s` times that of the first; every active observation has `stdDev() > 0`. -/
theorem C09_net_sigma_apr_scaling_adjustment (alg alg' : Alg) (np : NetProblem ℝ) (s : ℝ) (hs : 0 < s)
    (hm0 : 0 < np.m0) (hdim : (dimsN np).sum = np.m) (hrows : RowsOK (toProblem np))
    (P : Matrix (Fin (toProblem np).m) (Fin (toProblem np).m) ℝ) (hP : (toProblem np).C * P = 1)
    (hyp : Net.SolverHyp alg np) (hyp' : Net.SolverHyp alg' (scaleM0 s np))
    (hS : Resolves (toProblem np).A (toProblem np).S)
    (a a' : NetAnswer ℝ) (h : netSolve alg np = .ok a) (h' : netSolve alg' (scaleM0 s np) = .ok a') :
    toVec (toProblem np).n a'.x = toVec (toProblem np).n a.x ∧
    toVec (toProblem np).m a'.r = toVec (toProblem np).m a.r ∧
    a'.pvv = s ^ 2 * a.pvv ∧ 0 ≤ a.pvv ∧ a'.defect = a.defect ∧
    toMatrix (toProblem np).m (toProblem np).n a'.Ad = s • toMatrix (toProblem np).m (toProblem np).n a.Ad ∧
    toVec (toProblem np).m a'.bd = s • toVec (toProblem np).m a.bd ∧
    (∀ k : Fin (toProblem np).m, 0 < Dn.vget (obsStdDev np) k.val) ∧
    ∃ (Q : Matrix (Fin (toProblem np).n) (Fin (toProblem np).n) ℝ)
      (B : Matrix (Fin (toProblem np).m) (Fin (toProblem np).m) ℝ),
      (∀ i j : Fin (toProblem np).n, a.qxx (i.val + 1) (j.val + 1) = .ok (Q i j) ∧
        a'.qxx (i.val + 1) (j.val + 1) = .ok (Q i j / s ^ 2)) ∧
      (∀ i j : Fin (toProblem np).m, a.qbb (i.val + 1) (j.val + 1) = .ok (B i j) ∧
        a'.qbb (i.val + 1) (j.val + 1) = .ok (B i j)) ∧
      Qᵀ = Q ∧ (∀ y, 0 ≤ y ⬝ᵥ Q *ᵥ y) ∧ (∀ k, 0 ≤ B k k ∧ B k k ≤ 1) := by
  revert hdim hrows P hP hyp hyp' hS a a' h h'
  rw [scalarReal_eq_fieldScalar]
  intro hdim hrows P hP hyp hyp' hS a a' h h'
  have hm0' : np.m0 ≠ 0 := hm0.ne'
  have hsm0 : (scaleM0 s np).m0 ≠ 0 := mul_ne_zero hs.ne' hm0'
  obtain ⟨W, Q, Q', B, B', hW, hinj, -, -, hAs, hbs, hf, hf'⟩ :=
    net_scale_cofFacts alg alg' np s hs hm0' hdim hrows P hP hyp hyp' a a' h h'
  -- C01 for both runs
  obtain ⟨hPc, hPe⟩ := weight_unscale_field np hm0' hdim P hP
  have l1 := Props.C02.C02_net_isLS alg np hdim hrows hm0' _ hPc hyp a h
  rw [hPe] at l1
  have hdimS : (dimsN (scaleM0 s np)).sum = (scaleM0 s np).m :=
    (congrArg List.sum (dimsN_scale_field s np)).trans hdim
  have l2 := Props.C02.C02_net_isLS alg' (scaleM0 s np) hdimS hrows
    hsm0 _ (sigma_inv_scale_field np s _ hPc _ rfl) hyp' a' h'
  have ePs : (s * np.m0 * (s * np.m0)) • ((1 / (np.m0 * np.m0)) • P) = s ^ 2 • P := by
    rw [smul_smul]; congr 1; field_simp
  have l2' : IsLSSolution (toProblem np).A (toProblem np).b (s ^ 2 • P) (toProblem np).S
      (toVec (toProblem np).n a'.x) (toVec (toProblem np).m a'.r) a'.pvv := by
    rw [← ePs]; exact l2
  -- the facts in C09's vocabulary
  have sf : SolverFacts a.toAnswer (toProblem np).A W (toProblem np).S Q B :=
    { qxx := hf.qxx, qbb := hf.qbb, symm := hf.symm, psd := hf.psd, nqn := hf.nqn, qnq := hf.qnq,
      belongs := hf.belongs, hat := hf.hat, hat_diag := hf.hat_diag, redundancy := hf.redundancy,
      defect_rank := hf.defect_rank }
  have sf' : SolverFacts a'.toAnswer (toProblem np).A (s • W) (toProblem np).S Q' B' :=
    { qxx := hf'.qxx, qbb := hf'.qbb, symm := hf'.symm, psd := hf'.psd, nqn := hf'.nqn, qnq := hf'.qnq,
      belongs := hf'.belongs, hat := hf'.hat, hat_diag := hf'.hat_diag, redundancy := hf'.redundancy,
      defect_rank := hf'.defect_rank }
  obtain ⟨ex, ev, ephi, hphi, eQ, eB, edef, -⟩ :=
    C09_sigma_apr_scaling_whitened _ _ _ hS W P hW hinj s hs a.toAnswer Q B sf _ _ _ l1 a'.toAnswer Q' B' sf' _ _ _ l2'
  refine ⟨ex, ev, ephi, hphi, edef, hAs, hbs,
    fun k => netSolve_obsStdDev_pos alg np hdim hrows hm0' P hP a h k, Q, B, fun i j => ⟨hf.qxx i j, ?_⟩,
    fun i j => ⟨hf.qbb i j, ?_⟩, hf.symm, hf.psd, hf.hat_diag⟩
  · rw [hf'.qxx i j, eQ, smul_inv_sq_apply]
  · rw [hf'.qbb i j, eB]

/-- **`m_0_apr_ ↦ s·m_0_apr_`: every statistic gama-local reports, on the model's accessors.**  Hypotheses of
    `C09_net_sigma_apr_scaling_adjustment`; `act` either `sigma-act` mode.  Besides its conclusions (same `x`,
    residuals, defect; `[pvv]' = s²[pvv]`; `qxx' = qxx/s²`, `qbb' = qbb` for all pairs):
    same `degrees_of_freedom()`; `m_0()' = s·m_0()` (never throws), so `m0/m0_apr` and the `<ratio>` are unchanged;
    `weight_obs(k)' = s²·weight_obs(k)`; `wcoef_res(k)' = wcoef_res(k)/s²`; and UNCHANGED: `stdev_obs(k)`,
    `stdev_res(k)`, every `unknown_stdev(i)`, every covariance entry `m0²·qxx(i,j)`, every error ellipse, the
    confidence coefficient and every half-width. -/
theorem C09_net_sigma_apr_scaling (alg alg' : Alg) (np : NetProblem ℝ) (s : ℝ) (hs : 0 < s)
    (hm0 : 0 < np.m0) (hdim : (dimsN np).sum = np.m) (hrows : RowsOK (toProblem np))
    (P : Matrix (Fin (toProblem np).m) (Fin (toProblem np).m) ℝ) (hP : (toProblem np).C * P = 1)
    (hyp : Net.SolverHyp alg np) (hyp' : Net.SolverHyp alg' (scaleM0 s np))
    (hS : Resolves (toProblem np).A (toProblem np).S)
    (a a' : NetAnswer ℝ) (h : netSolve alg np = .ok a) (h' : netSolve alg' (scaleM0 s np) = .ok a')
    (act : SigmaAct) :
    toVec (toProblem np).n a'.x = toVec (toProblem np).n a.x ∧
    toVec (toProblem np).m a'.r = toVec (toProblem np).m a.r ∧
    a'.pvv = s ^ 2 * a.pvv ∧ a'.defect = a.defect ∧ a'.dof (scaleM0 s np) = a.dof np ∧
    ∃ (Q : Matrix (Fin (toProblem np).n) (Fin (toProblem np).n) ℝ)
      (B : Matrix (Fin (toProblem np).m) (Fin (toProblem np).m) ℝ) (m0 : ℝ),
      (∀ i j : Fin (toProblem np).n, a.qxx (i.val + 1) (j.val + 1) = .ok (Q i j) ∧
        a'.qxx (i.val + 1) (j.val + 1) = .ok (Q i j / s ^ 2)) ∧
      (∀ i j : Fin (toProblem np).m, a.qbb (i.val + 1) (j.val + 1) = .ok (B i j) ∧
        a'.qbb (i.val + 1) (j.val + 1) = .ok (B i j)) ∧
      a.m0 np act = .ok m0 ∧ a'.m0 (scaleM0 s np) act = .ok (s * m0) ∧
      s * m0 / (scaleM0 s np).m0 = m0 / np.m0 ∧
      StatsGen.xmlRatio a'.pvv (scaleM0 s np).m0 (a'.dof (scaleM0 s np)) = StatsGen.xmlRatio a.pvv np.m0 (a.dof np) ∧
      (∀ i, StatsGen.unknownStdev (s * m0) (Q i i / s ^ 2) = StatsGen.unknownStdev m0 (Q i i)) ∧
      (∀ i j, StatsGen.covEntry (s * m0) (Q i j / s ^ 2) = StatsGen.covEntry m0 (Q i j)) ∧
      (∀ ix iy, StatsGen.stdErrorEllipse (Q iy iy / s ^ 2) (Q iy ix / s ^ 2) (Q ix ix / s ^ 2) (s * m0)
        = StatsGen.stdErrorEllipse (Q iy iy) (Q iy ix) (Q ix ix) m0) ∧
      (∀ k : Fin (toProblem np).m,
        Net.weightObs (scaleM0 s np) (k.val + 1) = s ^ 2 * Net.weightObs np (k.val + 1) ∧
        a'.stdevObs (scaleM0 s np) act (k.val + 1) = a.stdevObs np act (k.val + 1) ∧
        (∃ qv, a.wcoefRes np (k.val + 1) = .ok qv ∧ a'.wcoefRes (scaleM0 s np) (k.val + 1) = .ok (qv / s ^ 2) ∧
          StatsGen.stdevRes (s * m0) (qv / s ^ 2) = StatsGen.stdevRes m0 qv)) ∧
      (∀ (normal : ℝ → ℝ) (student : ℝ → ℤ → ℝ) (p : ℝ),
        StatsGen.confIntCoef normal student act p (a'.dof (scaleM0 s np))
          = StatsGen.confIntCoef normal student act p (a.dof np)) ∧
      (∀ (i : Fin (toProblem np).n) (kki : ℝ),
        StatsGen.confHalfWidth (StatsGen.unknownStdev (s * m0) (Q i i / s ^ 2)) kki
          = StatsGen.confHalfWidth (StatsGen.unknownStdev m0 (Q i i)) kki) := by
  obtain ⟨ex, ev, ephi, hphi, edef, -, -, hst, Q, B, hQ, hB, -, -, -⟩ :=
    C09_net_sigma_apr_scaling_adjustment alg alg' np s hs hm0 hdim hrows P hP hyp hyp' hS a a' h h'
  have edof : a'.dof (scaleM0 s np) = a.dof np := by
    show StatsGen.degreesOfFreedom np.m np.n a'.defect = StatsGen.degreesOfFreedom np.m np.n a.defect
    rw [edef]
  obtain ⟨m0, h0, -, -, -, -, hsc⟩ :=
    C09_m0_guard_full act np.m0 a.pvv s (StatsGen.degreesOfFreedom np.m np.n a.defect) hphi hs
  have hm' : StatsGen.m0 act (scaleM0 s np).m0 a'.pvv
      (StatsGen.degreesOfFreedom (scaleM0 s np).m (scaleM0 s np).n a'.defect) = .ok (s * m0) := by
    rw [ephi, edef]; exact hsc
  have hU := fun q => C09_sigma_apr_scaling_formulas m0 np.m0 s q 0 1 hs hm0.ne' one_ne_zero
  refine ⟨ex, ev, ephi, edef, edof, Q, B, m0, hQ, hB, h0, hm', ?_, ?_, fun i => (hU (Q i i)).1,
    fun i j => (hU (Q i j)).2.1, fun ix iy => C09_ellipse_scale_free (Q ix ix) (Q iy ix) (Q iy iy) m0 s hs,
    fun k => ?_, fun _ _ _ => by rw [edof], fun i kki => ?_⟩
  · show s * m0 / (s * np.m0) = m0 / np.m0
    have := hs.ne'; have := hm0.ne'
    field_simp
  · rw [edof, ephi]
    exact (C09_ratio_guard_full a.pvv np.m0 s _ hm0.ne' hs).2.2
  · obtain ⟨-, -, o3, o4, o5, o6⟩ :=
      C09_sigma_apr_scaling_formulas m0 np.m0 s 0 (B k k) (Dn.vget (obsStdDev np) k.val) hs hm0.ne' (hst k).ne'
    obtain ⟨-, -, a3, a4⟩ := C09_net_accessors np a act k.val (B k k) m0 (hB k k).1 h0
    obtain ⟨-, -, b3, b4⟩ := C09_net_accessors (scaleM0 s np) a' act k.val (B k k) (s * m0) (hB k k).2 hm'
    refine ⟨?_, ?_, _, a4, ?_, ?_⟩
    · unfold Net.weightObs
      exact (C09_weight_scale np.m0 _ s).2
    · rw [a3, b3]
      exact congrArg Except.ok o3
    · rw [b4]
      exact congrArg Except.ok o5
    · have e5 : StatsGen.wcoefRes (B k k) (StatsGen.weightObs np.m0 (Dn.vget (obsStdDev np) k.val)) / s ^ 2
          = StatsGen.wcoefRes (B k k) (StatsGen.weightObs (s * np.m0) (Dn.vget (obsStdDev np) k.val)) := o5.symm
      rw [e5]
      exact o6
  · have : StatsGen.unknownStdev (s * m0) (Q i i / s ^ 2) = StatsGen.unknownStdev m0 (Q i i) := (hU (Q i i)).1
    rw [this]

/-! ## non-vacuity -/

section Examples
open Gama.Ls.Ex
attribute [local instance 2000] scalarOfField

/-- what `Net.scaleM0 s np` is: the same network, `m_0_apr_` multiplied by `s`, nothing else touched -/
example (s : ℝ) (np : NetProblem ℝ) : scaleM0 s np = { np with m0 := s * np.m0 } := rfl

/-- `C09_net_whitening_scales` on a CORRELATED network, evaluated by the kernel over ℚ: `Ex.npQ` (correlated cluster
    `[[16,3,8],[3,25,5],[8,5,40]]` with its second observation excluded, an all-passive cluster, a single observation;
    `m0 = 2`) and `scaleM0 2 Ex.npQ` (`m0 = 4`), with the partial square root `Ex.sqQ2` (exact on every root taken:
    4, 9, 1, 9/4).  Both runs of `prepareProjectEquations()` accept; the factors `Adj::choldec` left are
    `[[2,1],[·,3]]`, `[2]` and `[[1,1/2],[·,3/2]]`, `[1]` — the second HALF the first, band 1 block included — and the
    homogenised system `([[4,4],[2,2],[4,4]], (1,1,3))` is TWICE the first.  (ℚ has no global square-root law, so
    this is an evaluated test next to the theorem, not an instance of its hypothesis `IsSqrt`; ℝ has it, below.) -/
example :
    (@prepare ℚ (fieldScalar sqQ2) npQ).toOption.map
        (fun h => (h.Us.map (fun C => (C.dim, C.band, C.buf)), h.Ad, h.bd))
      = some ([(2, 1, #[2, 1, 3]), (1, 0, #[2])], #[#[2, 2], #[1, 1], #[2, 2]], #[1/2, 1/2, 3/2]) ∧
    (@prepare ℚ (fieldScalar sqQ2) (scaleM0 2 npQ)).toOption.map
        (fun h => (h.Us.map (fun C => (C.dim, C.band, C.buf)), h.Ad, h.bd))
      = some ([(2, 1, #[1, 1/2, 3/2]), (1, 0, #[1])], #[#[4, 4], #[2, 2], #[4, 4]], #[1, 1, 3]) :=
  npQ_scale_prepare

/-- `C09_net_sigma_apr_scaling_adjustment` / `C09_net_sigma_apr_scaling`, two runs with DIFFERENT algorithms evaluated
    by the kernel over ℚ (`Ex.sqQ2`): cholesky on `Ex.npQ` and envelope on `scaleM0 2 Ex.npQ` both answer, and the
    answers show every clause of the conclusion with `s = 2`: same `x = (0, 1/2)`, same residuals `(1, 1/2, −1)`,
    `[pvv]` `1/2 ↦ 2`, defect 1 twice, `qxx(2,2)` `1/9 ↦ 1/36` (the other three 0), the same nine `qbb` (a correlated
    cluster: `qbb(1,2) = 2/9 ≠ 0`), homogenised system doubled.
    WITNESSED with it: the static hypotheses for `Ex.npQ` (`hdim`, `hrows`, `m0 ≠ 0`, an inverse of `Σ` hence of
    `C`, `Resolves A S` with a proper `min_x_ = [1]`, defect 1) and the cholesky premise `Net.SolverHyp .chol` on it
    (these are the existing `Ex.npQ_*` facts, stated with `Ex.sqQ`, which agrees with `Ex.sqQ2` on every root
    taken for `Ex.npQ`: 4, 9, 1).
    `Net.SolverHyp` for the SCALED network is not witnessed HERE over ℚ (only that the model answers there and what it
    answers); it is over ℝ: `Props/C09NetWitness.lean` (`C09_net_sigma_apr_scaling_witness`: envelope on `Ex.npR` versus
    cholesky on `scaleM0 2 Ex.npR`, the scaled network's own `RankGap`), `Props/C09InputGap.lean` (input-side form).
    NOT witnessed here: the global square-root law, which ℚ cannot have and ℝ — the setting of the theorems — has (last example). -/
example :
    ((dimsN npQ).sum = npQ.m ∧ RowsOK (toProblem npQ) ∧ npQ.m0 ≠ 0 ∧ Net.Sigma npQ * PcQ = 1 ∧
      Resolves (toProblem npQ).A (toProblem npQ).S ∧
      (∀ hh, prepare npQ = .ok hh →
        Chol.UnambiguousF (cholFact (Net.dotProblem npQ hh)) ∧ Chol.GsSqrtExact (Net.dotProblem npQ hh) ∧
        ∀ S, Chol.regList npQ.n (.subset npQ.minx) = some S → S.Nodup)) ∧
    (@netSolve ℚ (fieldScalar sqQ2) .chol npQ).toOption.map netTable
      = some ((#[0, 1/2], #[1, 1/2, -1], 1/2, 1), (#[#[2, 2], #[1, 1], #[2, 2]], #[1/2, 1/2, 3/2]),
          [some 0, some 0, some 0, some (1/9)],
          [some (4/9), some (2/9), some (4/9), some (2/9), some (1/9), some (2/9), some (4/9), some (2/9), some (4/9)]) ∧
    (@netSolve ℚ (fieldScalar sqQ2) .env (scaleM0 2 npQ)).toOption.map netTable
      = some ((#[0, 1/2], #[1, 1/2, -1], 2, 1), (#[#[4, 4], #[2, 2], #[4, 4]], #[1, 1, 3]),
          [some 0, some 0, some 0, some (1/36)],
          [some (4/9), some (2/9), some (4/9), some (2/9), some (1/9), some (2/9), some (4/9), some (2/9), some (4/9)]) :=
  ⟨⟨npQ_dims, npQ_rows, npQ_m0, npQ_sigma, npQ_resolves, npQ_hchol⟩, npQ_scale_answers.1, npQ_scale_answers.2⟩

/-- `C09_sigma_apr_scaling_whitened`: a complete instance of its hypotheses with explicit answers — one observation of
    one unknown, `A = [1]`, `b = (c)`, whitening `W = [1]` (`P = [1]`, injective), `s = 2`: first adjustment `x = c`,
    `v = 0`, `φ = 0`, `Q = [1]`, `q_bb = [1]`; second (whitening `2·W`, weights `2²·P`) `Q' = [¼]` — and the theorem
    returns `Q' = (2²)⁻¹ • Q` -/
example (c : ℝ) :
    let a : Answer ℝ :=
      { x := #[c], r := #[0], rtr := 0, defect := 0, qxx := fun _ _ => .ok 1, q0xx := fun _ _ => .ok 1,
        qbb := fun _ _ => .ok 1, qbx := fun _ _ => .ok 1, lindep := fun _ => .ok false }
    let a' : Answer ℝ :=
      { x := #[c], r := #[0], rtr := 0, defect := 0, qxx := fun _ _ => .ok (1 / 4), q0xx := fun _ _ => .ok (1 / 4),
        qbb := fun _ _ => .ok 1, qbx := fun _ _ => .ok 1, lindep := fun _ => .ok false }
    Resolves (1 : Matrix (Fin 1) (Fin 1) ℝ) ∅ ∧
    (1 : Matrix (Fin 1) (Fin 1) ℝ)ᵀ * 1 = 1 ∧ (∀ d : Fin 1 → ℝ, (1 : Matrix (Fin 1) (Fin 1) ℝ) *ᵥ d = 0 → d = 0) ∧
    SolverFacts a (1 : Matrix (Fin 1) (Fin 1) ℝ) 1 ∅ 1 1 ∧
    SolverFacts a' (1 : Matrix (Fin 1) (Fin 1) ℝ) ((2 : ℝ) • 1) ∅ ((2 ^ 2 : ℝ)⁻¹ • 1) 1 ∧
    IsLSSolution (1 : Matrix (Fin 1) (Fin 1) ℝ) (fun _ => c) 1 ∅ (fun _ => c) 0 0 ∧
    IsLSSolution (1 : Matrix (Fin 1) (Fin 1) ℝ) (fun _ => c) ((2 : ℝ) ^ 2 • 1) ∅ (fun _ => c) 0 0 := by
  intro a a'
  have hres : Resolves (1 : Matrix (Fin 1) (Fin 1) ℝ) ∅ := fun g hg _ => by simpa using hg
  have hbel : ∀ Q : Matrix (Fin 1) (Fin 1) ℝ, BelongsTo (1 : Matrix (Fin 1) (Fin 1) ℝ) ∅ Q := fun Q y g _ => by simp
  have hpsd : ∀ t : ℝ, 0 ≤ t → ∀ y : Fin 1 → ℝ, 0 ≤ y ⬝ᵥ (t • (1 : Matrix (Fin 1) (Fin 1) ℝ)) *ᵥ y := by
    intro t ht y
    rw [smul_mulVec, one_mulVec, dotProduct_smul, smul_eq_mul]
    exact mul_nonneg ht (dot_self_nonneg y)
  have hls : ∀ P : Matrix (Fin 1) (Fin 1) ℝ, IsLSSolution (1 : Matrix (Fin 1) (Fin 1) ℝ) (fun _ => c) P ∅
      (fun _ => c) 0 0 := fun P =>
    { res := by simp, normal := by simp, rtr_eq := by simp, orth := fun g _ => by simp }
  refine ⟨hres, by simp, fun d hd => by simpa using hd, ?_, ?_, hls _, hls _⟩
  · exact
      { qxx := fun i j => by simp [a, Matrix.one_apply, Subsingleton.elim i j],
        qbb := fun i j => by simp [a, Matrix.one_apply, Subsingleton.elim i j], symm := transpose_one,
        psd := by simpa using hpsd 1 zero_le_one,
        nqn := by simp, qnq := by simp, belongs := hbel _, hat := by simp,
        hat_diag := fun i => by simp, redundancy := by simp [a],
        defect_rank := by simp [a, Matrix.rank_one] }
  · exact
      { qxx := fun i j => by simp [a', Matrix.smul_apply, Subsingleton.elim i j]; norm_num,
        qbb := fun i j => by simp [a', Matrix.one_apply, Subsingleton.elim i j],
        symm := by rw [transpose_smul, transpose_one],
        psd := hpsd _ (by positivity),
        nqn := by
          simp only [Matrix.mul_one, transpose_smul, transpose_one, Matrix.mul_smul, smul_smul]
          congr 1; norm_num,
        qnq := by
          simp only [Matrix.mul_one, transpose_smul, transpose_one, Matrix.mul_smul, smul_smul]
          congr 1; norm_num,
        belongs := hbel _,
        hat := by
          simp only [Matrix.mul_one, transpose_smul, transpose_one, Matrix.mul_smul, smul_smul]
          norm_num,
        hat_diag := fun i => by simp, redundancy := by simp [a'],
        defect_rank := by simp [a', Matrix.rank_one] }

/-- ℝ with `Real.sqrt` is the setting of the three network theorems (a field with a true square root; all models on
    the shared `Scalar ℝ`) -/
example : IsSqrt Real.sqrt := ⟨fun _ h => Real.mul_self_sqrt h, fun x _ => Real.sqrt_nonneg x⟩

end Examples

end Gama.Props.C09
