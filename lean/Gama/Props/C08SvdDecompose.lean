/-
  C08, svd solver, WITHOUT the factorisation certificate: `C08_svd_subset_min_norm` and `C08_svd_datum`
  (Props/C08Solvers.lean; factors as a parameter, `SvdCert` as hypothesis) restated for the factors the
  model of `SVD::svd()` RETURNS.  The algebraic part of `SvdCert` is proved for them
  (`Svd.decompose_svdCert`, Lemmas/Ls/SvdDecompCert.lean); the hypothesis is now

      `Svd.decompose p.m p.n p.dense = .ok d`  ∧  `Unambiguous sq tol p.n (vget d.W)`

  (the run returned; every returned singular value is exactly 0 or above `tol·max W`).  One
  decomposition serves both regularisation lists: `SVD::min_x(list)` does not touch `U, W, V`
  (`AdjSVD` re-runs only `min_subset_x`), and in the model `svdSolveCert` takes `d` as argument.
  Not proved: that the run returns (convergence of the QR iteration), IEEE rounding.
-/
import Gama.Props.C08Solvers
import Gama.Lemmas.Ls.SvdDecompCert
import Gama.Lemmas.Ls.SvdDecompWitness
namespace Gama.Props.C08
open Gama Gama.Ls Gama.Ls.Svd Gama.LS Matrix

set_option linter.unusedSectionVars false

section field
variable {K : Type} [Field K] [LinearOrder K] [IsStrictOrderedRing K] {sq : K → K}

/-- **`SVD::min_subset_x` minimises the subset norm, any defect ≥ 0, certificate-free**: whenever the
    svd model answers with the factors its own iteration returned, the unknowns are S-orthogonal to
    every kernel vector and have the smallest `Σ_{i∈S} x_i²` among ALL solutions of the normal equations
    and along every kernel direction -/
theorem C08_svd_decompose_subset_min_norm (hs : SqrtLaw sq) (fixed : Bool) {tol : K} (htol : 0 ≤ tol)
    (p : Problem K) (d : Dec K)
    (hd : @decompose K (fieldScalar sq) p.m p.n (@Problem.dense K (fieldScalar sq) p) = .ok d)
    (hun : Unambiguous sq tol p.n (@vget K (fieldScalar sq) d.W)) (hreg : RegOK p.reg) (a : Answer K)
    (h : @svdSolveCert K (fieldScalar sq) fixed tol d p = .ok a) :
    (∀ g, @Problem.A K (fieldScalar sq) p *ᵥ g = 0 → ∑ i ∈ p.S, toVec p.n a.x i * g i = 0)
      ∧ (∀ y, NormalEq (@Problem.A K (fieldScalar sq) p) (@Problem.b K (fieldScalar sq) p) 1 y →
            normS p.S (toVec p.n a.x) ≤ normS p.S y)
      ∧ (∀ g, @Problem.A K (fieldScalar sq) p *ᵥ g = 0 → normS p.S (toVec p.n a.x) ≤ normS p.S (toVec p.n a.x + g)) :=
  C08_svd_subset_min_norm hs fixed htol p d
    (decompose_svdCert sq hs.mul_self hs.nonneg tol p.m p.n _ d hd hun) hreg a h

/-- svd, certificate-free: two regularisation lists on the same problem (same decomposition) give the
    same residuals, sum of squares, adjusted observations; the unknowns differ by a kernel vector -/
theorem C08_svd_decompose_datum (hs : SqrtLaw sq) (fixed : Bool) {tol : K} (htol : 0 ≤ tol) (p : Problem K)
    (reg' : Reg) (d : Dec K)
    (hd : @decompose K (fieldScalar sq) p.m p.n (@Problem.dense K (fieldScalar sq) p) = .ok d)
    (hun : Unambiguous sq tol p.n (@vget K (fieldScalar sq) d.W)) (hreg : RegOK p.reg) (hreg' : RegOK reg')
    (a a' : Answer K) (h : @svdSolveCert K (fieldScalar sq) fixed tol d p = .ok a)
    (h' : @svdSolveCert K (fieldScalar sq) fixed tol d { p with reg := reg' } = .ok a') :
    toVec p.m a.r = toVec p.m a'.r ∧ a.rtr = a'.rtr
      ∧ @Problem.A K (fieldScalar sq) p *ᵥ toVec p.n a.x = @Problem.A K (fieldScalar sq) p *ᵥ toVec p.n a'.x
      ∧ @Problem.A K (fieldScalar sq) p *ᵥ (toVec p.n a.x - toVec p.n a'.x) = 0 :=
  C08_svd_datum hs fixed htol p reg' d
    (decompose_svdCert sq hs.mul_self hs.nonneg tol p.m p.n _ d hd hun) hreg hreg' a a' h h'

end field

/-! ### non-vacuity -/

section examples
open Gama.Ls.Svd.Ex Gama.Ls.Ex
attribute [local instance] sqrtFnOfSqrtField
attribute [local instance 2000] scalarOfField

/-- non-vacuity over ℝ, SINGULAR with a proper subset: `Ex.pCVdot` (`A = [[6,8],[3,4],[6,8]]`, rank 1,
    S = {1}): `decompose` returns `Ex.dCV` (`Ex.pCVdot_decompose`, the run evaluated over ℝ), its
    singular values (0, 15) are unambiguous at `Svd.wTol`, the list `[1]` has no repetition, the model
    answers x = (0, 1/8), defect 1 — and `C08_svd_decompose_subset_min_norm` applied to that answer -/
example : Svd.decompose Ex.pCVdot.m Ex.pCVdot.n Ex.pCVdot.dense = .ok Ex.dCV
    ∧ Svd.Unambiguous (Gso.SqrtField.sqrt : ℝ → ℝ) Svd.wTol Ex.pCVdot.n (Svd.vget Ex.dCV.W)
    ∧ Svd.RegOK Ex.pCVdot.reg
    ∧ ∃ a, svdSolveCert true (Svd.wTol : ℝ) Ex.dCV Ex.pCVdot = .ok a ∧ a.x = #[0, 1/8] ∧ a.defect = 1
      ∧ (∀ g, Ex.pCVdot.A *ᵥ g = 0 → ∑ i ∈ Ex.pCVdot.S, toVec Ex.pCVdot.n a.x i * g i = 0) := by
  obtain ⟨a, ha, hx, hdf, -⟩ := Ex.pCVdot_cert_answer
  have hun := Ex.pCVdot_hun Ex.dCV Ex.pCVdot_decompose
  exact ⟨Ex.pCVdot_decompose, hun, List.nodup_singleton 1, a, ha, hx, hdf,
    (C08_svd_decompose_subset_min_norm (sq := (Gso.SqrtField.sqrt : ℝ → ℝ)) sqrtLaw_of_sqrtField true
      Svd.wTol_nonneg Ex.pCVdot Ex.dCV Ex.pCVdot_decompose hun (List.nodup_singleton 1) a ha).1⟩

/-- non-vacuity of `C08_svd_decompose_datum` over ℝ: the same singular problem regularised once over the
    proper subset `[1]` and once over ALL unknowns (`min_x()`); both are answered with the ONE
    decomposition `Ex.dCV`, and the theorem gives equal residuals and sums of squares although the
    unknowns differ -/
example : ∃ a a', svdSolveCert true (Svd.wTol : ℝ) Ex.dCV Ex.pCVdot = .ok a
    ∧ svdSolveCert true (Svd.wTol : ℝ) Ex.dCV { Ex.pCVdot with reg := .all } = .ok a'
    ∧ toVec Ex.pCVdot.m a.r = toVec Ex.pCVdot.m a'.r ∧ a.rtr = a'.rtr := by
  obtain ⟨a, ha, -⟩ := Ex.pCVdot_cert_answer
  have hun := Ex.pCVdot_hun Ex.dCV Ex.pCVdot_decompose
  obtain ⟨a', ha'⟩ : ∃ a', svdSolveCert true (Svd.wTol : ℝ) Ex.dCV { Ex.pCVdot with reg := .all } = .ok a' := by
    unfold svdSolveCert Svd.answerOf; exact ⟨_, rfl⟩
  obtain ⟨h1, h2, -⟩ := C08_svd_decompose_datum (sq := (Gso.SqrtField.sqrt : ℝ → ℝ)) sqrtLaw_of_sqrtField true
    Svd.wTol_nonneg Ex.pCVdot .all Ex.dCV Ex.pCVdot_decompose hun (List.nodup_singleton 1) trivial a a' ha ha'
  exact ⟨a, a', ha, ha', h1, h2⟩

end examples

end Gama.Props.C08
