/-
  C11 — the VALUES: which attribute / element values the GKF parser accepts where (CLAUSES.md gap #8).

  `Gkf.crun` (Model/GkfValues.lean) runs the generated automaton on SAX events that carry the real attribute strings;
  the `dataOk` bit of `Gkf.run` is computed from the table `Gen/GkfValueChecks.lean` (REGENERATED on every run from the
  body of every `process_*`: conversion, range test, enumeration per attribute; required variables, pair rule,
  constructor refusals per handler) with the literal recognisers of Model/Literals.lean, whose accepted languages are
  characterised in Props/C11.lean (`C11_isFloat_spec`, `C11_isInteger_spec`, `C11_toIndex_spec`).
  The documented side is the hand-written table `Gkf.docCheck` (gama-local.xsd + manual) in the same vocabulary; the two
  tables are compared by `decide` (`doc_refined_table`, `doc_strict_table`), so a handler that stops checking an attribute,
  a changed range test or degrees accepted where only gons are documented break a proof here.
  Property theorems only; proofs in Gama/Lemmas/GkfValues.lean.
-/
import Gama.Lemmas.GkfValues
import Gama.Lemmas.GkfValuesExamples
namespace Gama.Props.C11
open Gama Gama.Gkf Gama.Lit Gama.Gkf.ValuesEx

/-- the new run is an instance of the old one: `crun` on real strings IS `run` on the events whose value bit `toAbs`
    computes — every theorem about `run` (error discipline, located diagnostic, chunking, language) holds for it -/
theorem C11_value_run_is_run (evs : List CEvent) (cs : CSt) : (crun cs evs).st = run cs.st (absEvents cs evs) :=
  crun_st evs cs

/-- every attribute a handler reads has a check entry, and no attribute value reaches `toDouble` / `toInteger` /
    `toIndex` / `deg2gon` (the only callers of `atof`/`atoi`/`>>`) unless its entry is a numeric check: the variables
    given to a conversion are exactly those of the attributes with a `.num` entry (`decide` over the generated tables) -/
theorem C11_value_checks_cover (h : Handler) :
    (∀ a ∈ attrNames h, ∃ e, valueCheck h a = some e ∧
      ∀ v, bindVar h a = some v →
        ((numericSinks h).contains v = true ↔ ∃ c r, e.check = .num c r)) := by
  intro a ha
  have := cover_table h
  simp only [coverOk, List.all_eq_true] at this
  have h1 := this a ha
  cases hv : valueCheck h a with
  | none => simp [hv] at h1
  | some e =>
    refine ⟨e, rfl, ?_⟩
    intro v hb
    cases hc : e.check with
    | num c r =>
      simp only [hv, hb, hc] at h1
      exact ⟨fun _ => ⟨c, r, rfl⟩, fun _ => h1⟩
    | words n c => simp [hv, hb, hc] at h1
    | free =>
      simp only [hv, hb, hc] at h1
      constructor
      · intro h2; exact absurd (List.contains_iff_mem.mp h2) (by simpa using h1)
      · rintro ⟨c, r, h2⟩; cases h2
    | enum vs =>
      simp only [hv, hb, hc] at h1
      constructor
      · intro h2; exact absurd (List.contains_iff_mem.mp h2) (by simpa using h1)
      · rintro ⟨c, r, h2⟩; cases h2

/-- what the conversions accept, in terms of the literal languages: `toDouble` = `FloatLang` with a finite value,
    `toInteger` = `IntLang`, `toIndex` = a digit string below 2^31, an angular value = `deg2gon`'s language or a double -/
theorem C11_value_languages (s : List Char) :
    (convOk .dbl s = true ↔ FloatLang s ∧ finiteLit s = true) ∧
    (convOk .int s = true ↔ IntLang s) ∧
    (convOk .index s = true ↔ ∃ v, IndexLang s v ∧ v < 2147483648) ∧
    (convOk .angle s = true ↔ deg2gonAccepts s = true ∨ (FloatLang s ∧ finiteLit s = true)) := by
  have hd : convOk .dbl s = true ↔ FloatLang s ∧ finiteLit s = true := by
    simp only [convOk, toDoubleOk, Bool.and_eq_true, isFloat_iff]
  refine ⟨hd, ?_, ?_, ?_⟩
  · simp only [convOk, toInteger, isInteger_iff]
  · simp only [convOk]
    constructor
    · intro h
      cases hi : toIndex s with
      | none => rw [hi] at h; cases h
      | some v =>
        rw [hi] at h
        exact ⟨v, ((toIndex_iff s v).mp hi).1, by simpa using h⟩
    · rintro ⟨v, hl, hv⟩
      have : v < dblOverflow := Nat.lt_trans hv (by decide)
      rw [(toIndex_iff s v).mpr ⟨hl, this⟩]
      simpa using hv
  · simp only [convOk, Bool.or_eq_true]
    rw [show (toDoubleOk s = true) = (convOk .dbl s = true) from rfl, hd]

/-- a value of the documented literal language and range of a documented attribute passes the code's check -/
theorem C11_documented_value_accepted (h : Handler) (a : String) (d : Entry) (s : List Char) (ha : a ∈ docNames h)
    (hd : docCheck h a = some d) (hs : entryOk d s = true) : valueOk h a s = true :=
  valueOk_of_documented h a d s ha hd hs

/-- every document of the documented grammar (`Doc`, Model/GkfGrammar.lean) given with its REAL strings (`evs`, whose
    shape is `d.events`) is accepted, provided every event meets the documented conditions `docEventOk`: attribute
    values in their documented literal languages and ranges (`docCheck`), required attributes present, `x` with `y`,
    positive distances / zenith angles, `from ≠ fs`, `band < dim`, `dim` = number of observations, exactly
    `covElements` numbers in the `<cov-mat>` text, positive definite covariance matrix.

    PARTIAL.  Full statement: the same with `allDocOk` replaced by a predicate of the document alone.
    MISSING: the conditions that are not about one value (required attribute / inherited `from`, number of observations
    against `dim`, the `<cov-mat>` text) are evaluated in the parser's own bookkeeping `Ctx` (threaded by `cstep`), not by
    an independent function of the document; positive definiteness stays the input bit `pdOk` (floating-point Cholesky,
    subject of C10/C15).  The VALUE part is full: `docValuesOk` mentions only `docCheck` and the literal recognisers. -/
theorem C11_valid_document_accepted_partial (d : Doc) (hv : d.valid = true) (evs : List CEvent)
    (hshape : evs.map shape = d.events) (hok : allDocOk CSt.init evs = true) :
    (crun CSt.init evs).st.state = .stop_ ∧ (crun CSt.init evs).st.err = none ∧
      outcome (crun CSt.init evs).st = .accepted := by
  have h1 : (crun CSt.init evs).st = run St.init d.events := by
    rw [crun_st, absEvents_of_allDocOk evs CSt.init hok, hshape]; rfl
  have h2 := run_doc_clean d hv
  rw [h1]
  refine ⟨h2.1, h2.2, ?_⟩
  simp [outcome, h2.1]

/-- a malformed number is refused and LOCATED: after any prefix `pre` that recorded no error (e.g. a prefix of a valid
    document), a start tag one of whose attributes — documented, with a strictly checked numeric type — has a value
    outside its documented literal language or range (`entryOk d a.val = false`: not a float / not finite / degrees where
    only gons are documented / `conf-pr` outside (0,1) / …) records the error `handler` AT THIS EVENT (the index stands for
    `XML_GetCurrentLineNumber`, the line of the element), whatever follows; the document is refused with that location -/
theorem C11_malformed_number_located (pre post : List CEvent) (t : Tag) (attrs : List CAttr) (h : Handler)
    (a : CAttr) (d : Entry)
    (hclean : (crun CSt.init pre).st.err = none)
    (hrun : start (crun CSt.init pre).st.state t = .run h)
    (ha : a ∈ examined (valueHandler h) attrs)
    (hstrict : a.name ∈ strictAttrs (valueHandler h))
    (hdoc : docCheck (valueHandler h) a.name = some d)
    (hbad : entryOk d a.val = false) :
    (crun CSt.init (pre ++ .start t attrs :: post)).st.err = some (pre.length, .handler) ∧
    outcome (crun CSt.init (pre ++ .start t attrs :: post)).st = .refused (some (pre.length, .handler)) := by
  have hv : valueOk (valueHandler h) a.name a.val = false :=
    valueOk_false_of_undocumented _ _ d _ hstrict hdoc hbad
  have hh : handlerOk (crun CSt.init pre).ctx (valueHandler h) attrs = false := by
    have : valuesOk (valueHandler h) (examined (valueHandler h) attrs) = false := by
      simp only [valuesOk]
      rw [Bool.eq_false_iff]
      intro hall
      have := (List.all_eq_true.mp hall) a ha
      rw [hv] at this; cases this
    simp only [handlerOk, this, Bool.false_and]
  exact handler_fail_located pre post t attrs h hclean hrun hh

/-- a `<point>` needs an id: after any prefix without recorded error, a `<point>` start tag (directly under
    `<points-observations>` or inside `<coordinates>`: every handler that runs `process_point`) with compared attribute names
    and no non-blank `id` is refused with a located error `handler` at that element — whatever id earlier points had.
    (Before fix c9d862c the member `pp_id` kept the id of the previous point, `varInit .point_ "pp_id"` was `.ppId`, and the
    `<point>` was accepted, overwriting the previous point: corpus/C11/point-without-id-reuses-previous.gkf.) -/
theorem C11_point_requires_id (pre post : List CEvent) (t : Tag) (attrs : List CAttr) (h : Handler)
    (hclean : (crun CSt.init pre).st.err = none)
    (hrun : start (crun CSt.init pre).st.state t = .run h)
    (hpoint : valueHandler h = .point_)
    (hnames : ∀ a ∈ attrs, a.name ∈ attrNames .point_)
    (hid : ∀ a ∈ attrs, a.name = "id" → normId a.val = []) :
    (crun CSt.init (pre ++ .start t attrs :: post)).st.err = some (pre.length, .handler) ∧
    outcome (crun CSt.init (pre ++ .start t attrs :: post)).st = .refused (some (pre.length, .handler)) :=
  handler_fail_located pre post t attrs h hclean hrun (by rw [hpoint]; exact point_without_id _ attrs hnames hid)

/-! ### non-vacuity -/

/-- the hypotheses of `C11_valid_document_accepted_partial` hold for it … -/
example : exDoc.valid = true ∧ exEvs.map shape = exDoc.events ∧ allDocOk CSt.init exEvs = true :=
  ⟨by decide +kernel, rfl, by decide +kernel⟩
/-- … and the parser's bookkeeping along it: two observations counted against `dim="2"`, members reset at `</obs>` -/
example : (crun CSt.init (exEvs.take 15)).ctx =
      (⟨"A".toList, "A".toList, 2, 1, 2, " 4 0.1 4".toList⟩ : Ctx) ∧ (crun CSt.init (exEvs.take 17)).ctx.idim = 0 ∧
    (crun CSt.init (exEvs.take 17)).ctx.standpointId = [] ∧ outcome (crun CSt.init exEvs).st = .accepted := by decide +kernel

/-- `C11_malformed_number_located`: the same document with `val="1e"` on `<distance>` (event 8), `stdev="10-20-30"` (degrees
    where only a double is documented), `conf-pr="1"`: refused, error `handler` at the index of that element -/
example :
    let bad (i : Nat) (e : CEvent) := exEvs.take i ++ e :: exEvs.drop (i + 1)
    (crun CSt.init (bad 8 (.start .distance [c "to" "B", c "val" "1e"]))).st.err = some (8, .handler) ∧
    (crun CSt.init (bad 10 (.start .direction [c "to" "B", c "val" "10", c "stdev" "10-20-30"]))).st.err = some (10, .handler) ∧
    (crun CSt.init (bad 2 (.start .parameters [c "conf-pr" "1"]))).st.err = some (2, .handler) ∧
    outcome (crun CSt.init (bad 2 (.start .parameters [c "conf-pr" "1"]))).st = .refused (some (2, .handler)) := by decide +kernel
/-- its hypotheses for the first of these -/
example : (crun CSt.init (exEvs.take 8)).st.err = none ∧
    start (crun CSt.init (exEvs.take 8)).st.state .distance = .run .distance_ ∧ valueHandler .distance_ = .distance_ ∧
    "val" ∈ strictAttrs .distance_ ∧ docCheck .distance_ "val" = some dblReq ∧ entryOk dblReq "1e".toList = false := by decide +kernel

/-- `C11_point_requires_id`: the regression input (a second `<point x y adj>` without id after `<point id="A" …>`) is refused at
    that element, also inside `<coordinates>`; both handlers run `process_point` -/
example :
    let pre : List CEvent := exEvs.take 7
    (crun CSt.init pre).st.err = none ∧ (crun CSt.init pre).ctx.ppId = "A".toList ∧
    start (crun CSt.init pre).st.state .point_ = .run .point_ ∧ valueHandler .point_ = .point_ ∧
    valueHandler .coords_point_ = .point_ ∧
    (crun CSt.init (pre ++ [.start .point_ [c "x" "5", c "y" "6", c "adj" "xy"], .stop true])).st.err = some (7, .handler) ∧
    (crun CSt.init (exEvs.take 20 ++ [.start .point_ [c "z" "5"]])).st.err = some (20, .handler) := by decide +kernel

/-- conditions that are not about one literal: a `<distance>` without `from` outside `<obs from=..>`, `x` without `y`,
    a non-positive distance, `from = fs` (ids compared after blank normalisation), `band ≥ dim`, `dim` ≠ number of observations,
    too few numbers in `<cov-mat>`; `pdOk = false` is the only refusal the model does not compute -/
example :
    handlerOk {} .distance_ [c "to" "B", c "val" "1"] = false ∧
    handlerOk { standpointId := "A".toList } .distance_ [c "to" "B", c "val" "1"] = true ∧
    handlerOk {} .point_ [c "id" "A", c "x" "1"] = false ∧
    handlerOk {} .point_ [c "id" " ", c "z" "1"] = false ∧
    handlerOk {} .distance_ [c "from" "A", c "to" "B", c "val" "-0.0"] = false ∧
    handlerOk {} .distance_ [c "from" "A", c "to" "B", c "val" "1e-400"] = false ∧
    handlerOk {} .angle_ [c "from" "A  1", c "bs" "B", c "fs" " A 1 ", c "val" "1"] = false ∧
    handlerOk {} .cov_ [c "dim" "2", c "band" "2"] = false ∧
    finishOk { idim := 2, iband := 0, nobs := 3, covData := "1 1".toList } .obs_ true = false ∧
    finishOk { idim := 2, iband := 1, nobs := 2, covData := "1 1".toList } .obs_ true = false ∧
    finishOk { idim := 2, iband := 1, nobs := 2, covData := "1 0 1".toList } .obs_ true = true ∧
    finishOk { idim := 2, iband := 1, nobs := 2, covData := "1 0 1".toList } .obs_ false = false ∧
    finishOk { idim := 0, nobs := 2 } .coords_ true = false := by decide +kernel

/-- range tests as `atof` rounds: `conf-pr` just below 1 that rounds to 1.0 is refused, the largest double below 1 is accepted -/
example :
    valueOk .parameters_ "conf-pr" "0.99999999999999999999".toList = false ∧
    valueOk .parameters_ "conf-pr" "0.9999999999999999".toList = true ∧
    valueOk .parameters_ "conf-pr" "0".toList = false ∧ valueOk .parameters_ "conf-pr" "1e-400".toList = false ∧
    valueOk .parameters_ "sigma-apr" "-1".toList = false ∧ valueOk .dh_ "dist" "-0".toList = true ∧
    valueOk .dh_ "dist" "-1e-3".toList = false ∧ valueOk .cov_ "dim" "0".toList = false ∧
    valueOk .cov_ "dim" "2147483648".toList = false ∧ valueOk .point_obs_ "distance-stdev" "5 3 1 2".toList = false ∧
    valueOk .point_ "fix" "xY".toList = false ∧ valueOk .point_ "fix" "".toList = true ∧
    valueOk .obs_ "orientation" "10-20-30".toList = false ∧ valueOk .zangle_ "val" "10-20-30".toList = true := by decide +kernel

/-- `C11_value_checks_cover` / `C11_documented_value_accepted` on concrete entries; the two liberal spots of the value table:
    `latitude` also takes degrees, `algorithm` is not compared with the documented enumeration -/
example : valueCheck .distance_ "stdev" = some ⟨.num .dbl .any, true⟩ ∧ bindVar .distance_ "stdev" = some "sv" ∧
    (numericSinks .distance_).contains "sv" = true ∧ bindVar .distance_ "to" = some "sc" ∧
    (numericSinks .distance_).contains "sc" = false ∧
    valueOk .parameters_ "latitude" "49-30-10.5".toList = true ∧ entryOk dblReq "49-30-10.5".toList = false ∧
    valueOk .parameters_ "algorithm" "nonsense".toList = true := by decide +kernel

end Gama.Props.C11
