/-
  C15 — the LOOPS and the VALUES of the products other than Mat·Mat (round 9).

  `tools/gen/c15_kernels.py` rewrites, on every run, the C++ functions

      operator*(Mat,Vec)  operator*(MatBase,Vec)  operator*(TransMat,Vec)  operator*(Vec,TransMat)
      operator*(TransVec,Mat)  operator*(TransVec,MatBase)  VecBase::dot

  statement by statement into `Gen/MatVecKernels.lean` (`Gen.MV.*`: pointers walking the operands, checked reads
  and writes, counted loops).  Here:

    C15_kernels_source_tie      every regenerated kernel EQUALS the closed-form hand model of Model/MatVec.lean that
                                `drv_matvec` runs next to the C++ — all operands, conforming or not (so the guard-table
                                theorems of Props/C15.lean, stated for the hand models, are about the regenerated loops)
    C15_mat_vec_value           `A·b`        = `Matrix.mulVec`              (both implementations' pointer version)
    C15_transmat_vec_value      `trans(M)·b` = `Mᵀ.mulVec b`
    C15_transvec_mat_value      `bᵀ·A`       = `Matrix.vecMul`
    C15_dot_value               `aᵀ·b`       = `dotProduct`
    C15_vec_transmat_as_coded   what `operator*(Vec,TransMat)` computes (known finding C15-vec-transmat: the storage
                                read with stride `cols`; `vec_transmat_violates` in Props/C15.lean is the defect)
  for ALL dimensions (0 included), over any semiring `K`.  `d` is the junk value of an out-of-range read of a
  storage array (never taken under the hypotheses).
-/
import Gama.Lemmas.MatVecKernels
import Gama.Lemmas.MatVecValues
import Gama.Lemmas.MatVecKernels2
import Gama.Lemmas.MatVecValues2
import Gama.Lemmas.MatVecKernels3
import Gama.Lemmas.MatVecValues3
import Gama.Lemmas.MatVecKernels4
import Gama.Lemmas.MatVecValues4
namespace Gama.Props.C15
open Gama Gama.MatVec Gama.Gen Matrix

/-- **source tie of the loops**: regenerated kernel = executed hand model, for all operands -/
theorem C15_kernels_source_tie {K : Type} [Add K] [Mul K] [Zero K] :
    (∀ (A : Mat K) (b : Vec K), MV.matMulVec A b = matMulVec A b)
    ∧ (∀ (A : MB K) (b : Vec K), MV.mbMulVec A b = mbMulVec A b)
    ∧ (∀ (A : TMat K) (b : Vec K), MV.tMulVec A b = tMulVec A b)
    ∧ (∀ (b : Vec K) (A : TMat K), MV.vecMulT b A = vecMulT b A)
    ∧ (∀ (b : Vec K) (A : Mat K), MV.tvecMulMat b A = tvecMulMat b A)
    ∧ (∀ (b : Vec K) (A : MB K), MV.tvecMulMB b A = tvecMulMB b A)
    ∧ (∀ (a b : Vec K), MV.dot a b = dot a b) :=
  ⟨gen_matMulVec, gen_mbMulVec, gen_tMulVec, gen_vecMulT, gen_tvecMulMat, gen_tvecMulMB, gen_dot⟩

section
variable {K : Type} [Semiring K]

/-- the `Fin`-indexed vector of a storage array -/
def toV (v : Vec K) (d : K) (n : Nat) : Fin n → K := fun i => vat v d i.val

/-- **Mat·Vec**: on a well-formed `A` and a conforming `b` the regenerated loop of `operator*(Mat,Vec)` returns
    `A *ᵥ b` (no `BadRank`, no read outside the operands) -/
theorem C15_mat_vec_value (A : Mat K) (b : Vec K) (hA : A.WF) (hc : A.cols = b.size) (d : K) :
    ∃ v, MV.matMulVec A b = .ok v ∧ v.size = A.rows ∧
      toV v d A.rows = (A.toMatrix d A.rows A.cols) *ᵥ (toV b d A.cols) := by
  obtain ⟨v, h1, h2, h3⟩ := matMulVec_spec A b hA hc d
  refine ⟨v, by rw [gen_matMulVec]; exact h1, h2, ?_⟩
  funext i
  simp only [toV, Matrix.mulVec, dotProduct, Mat.toMatrix]
  rw [h3 i.val i.isLt, ← Fin.sum_univ_eq_sum_range (fun k => A.at d i.val k * vat b d k)]

/-- **trans(M)·Vec**: the regenerated loop of `operator*(TransMat,Vec)` on the view `trans(M)` returns `Mᵀ *ᵥ b` -/
theorem C15_transmat_vec_value (M : Mat K) (b : Vec K) (hM : M.WF) (hc : M.rows = b.size) (d : K) :
    ∃ v, MV.tMulVec (MatVec.trans M) b = .ok v ∧ v.size = M.cols ∧
      toV v d M.cols = (M.toMatrix d M.rows M.cols)ᵀ *ᵥ (toV b d M.rows) := by
  have hT : (MatVec.trans M).WF := by
    show M.data.size = M.cols * M.rows
    rw [show M.data.size = M.rows * M.cols from hM, Nat.mul_comm]
  obtain ⟨v, h1, h2, h3⟩ := tMulVec_spec (MatVec.trans M) b hT hc d
  refine ⟨v, by rw [gen_tMulVec]; exact h1, h2, ?_⟩
  funext i
  simp only [toV, Matrix.mulVec, dotProduct, Mat.toMatrix, Matrix.transpose_apply]
  have := h3 i.val i.isLt
  simp only [trans_at] at this
  rw [this]
  exact (Fin.sum_univ_eq_sum_range (fun k => M.at d k i.val * vat b d k) M.rows).symm

/-- **TransVec·Mat**: the regenerated loop of `operator*(TransVec,Mat)` returns `b ᵥ* A` -/
theorem C15_transvec_mat_value (b : Vec K) (A : Mat K) (hA : A.WF) (hc : b.size = A.rows) (d : K) :
    ∃ v, MV.tvecMulMat b A = .ok v ∧ v.size = A.cols ∧
      toV v d A.cols = (toV b d A.rows) ᵥ* (A.toMatrix d A.rows A.cols) := by
  obtain ⟨v, h1, h2, h3⟩ := tvecMulMat_spec b A hA hc d
  refine ⟨v, by rw [gen_tvecMulMat]; exact h1, h2, ?_⟩
  funext j
  simp only [toV, Matrix.vecMul, dotProduct, Mat.toMatrix]
  rw [h3 j.val j.isLt, ← Fin.sum_univ_eq_sum_range (fun k => vat b d k * A.at d k j.val)]

/-- **dot**: the regenerated `while` loop of `VecBase::dot` returns `a ⬝ᵥ b` -/
theorem C15_dot_value (a b : Vec K) (hc : a.size = b.size) (d : K) :
    MV.dot a b = .ok (toV a d a.size ⬝ᵥ toV b d a.size) := by
  rw [gen_dot, dot_spec a b hc d]
  simp only [toV, dotProduct]
  rw [← Fin.sum_univ_eq_sum_range (fun k => vat a d k * vat b d k)]

/-- **Vec·TransMat as coded** (known finding C15-vec-transmat): where the loop stays inside its operands
    (`cols ≤ rows`) it returns `Σ_j m[i + j·cols]·b_j` — `bᵀ·trans(M)` would be `Σ_j m[i·cols + j]…` over `rows` terms -/
theorem C15_vec_transmat_as_coded (b : Vec K) (A : TMat K) (hA : A.WF) (hc : A.rows = b.size)
    (hle : A.cols ≤ A.rows) (d : K) :
    ∃ v, MV.vecMulT b A = .ok v ∧ v.size = A.rows ∧
      ∀ i, i < A.rows → vat v d i = ∑ j ∈ Finset.range A.cols, A.data.getD (i + j * A.cols) d * vat b d j := by
  obtain ⟨v, h1, h2, h3⟩ := vecMulT_spec b A hA hc hle d
  exact ⟨v, by rw [gen_vecMulT]; exact h1, h2, h3⟩

end

/-! ### non-vacuity: the regenerated loops, executed -/

/-- `[[1,2,3],[4,5,6]]·(1,0,-1)ᵀ = (-2,-2)ᵀ`; WF, conforming -/
example : MV.matMulVec (⟨2, 3, #[1, 2, 3, 4, 5, 6]⟩ : Mat Int) #[1, 0, -1] = .ok #[-2, -2]
    ∧ (⟨2, 3, #[1, 2, 3, 4, 5, 6]⟩ : Mat Int).WF := ⟨by decide, by simp [Mat.WF]⟩
/-- non-conforming operands: `BadRank`; a short storage: `oob` (reads outside are reported, not invented) -/
example : MV.matMulVec (⟨2, 3, #[1, 2, 3, 4, 5, 6]⟩ : Mat Int) #[1, 0] = .error .badRank
    ∧ MV.matMulVec (⟨2, 3, #[1, 2, 3, 4, 5]⟩ : Mat Int) #[1, 0, -1] = .error .oob := by decide
/-- `trans([[1,2,3],[4,5,6]])·(1,-1)ᵀ = (-3,-3,-3)ᵀ` -/
example : MV.tMulVec (MatVec.trans (⟨2, 3, #[1, 2, 3, 4, 5, 6]⟩ : Mat Int)) #[1, -1] = .ok #[-3, -3, -3] := by decide
/-- `(1,-1)·[[1,2,3],[4,5,6]] = (-3,-3,-3)` -/
example : MV.tvecMulMat #[1, -1] (⟨2, 3, #[1, 2, 3, 4, 5, 6]⟩ : Mat Int) = .ok #[-3, -3, -3]
    ∧ MV.tvecMulMB #[1, -1] (⟨2, 3, #[1, 2, 3, 4, 5, 6]⟩ : Mat Int).mb = .ok #[-3, -3, -3]
    ∧ MV.mbMulVec (⟨2, 3, #[1, 2, 3, 4, 5, 6]⟩ : Mat Int).mb #[1, 0, -1] = .ok #[-2, -2] := by decide
example : MV.dot (#[1, 2, 3] : Vec Int) #[4, 5, 6] = .ok 32 ∧ MV.dot (#[] : Vec Int) #[] = .ok 0 := by decide
/-- the defect, on the regenerated loop: a 3×2 view (`cols ≤ rows`, hypotheses of `C15_vec_transmat_as_coded` met):
    the code returns (1·1+2·3, 1·2+2·4, 1·3+2·5) = (7,10,13), `bᵀ·trans(M)` has 2 entries -/
example : MV.vecMulT (#[1, 2, 0] : Vec Int) (MatVec.trans (⟨2, 3, #[1, 2, 3, 4, 5, 6]⟩ : Mat Int)) = .ok #[7, 10, 13]
    ∧ (MatVec.trans (⟨2, 3, #[1, 2, 3, 4, 5, 6]⟩ : Mat Int)).WF := ⟨by decide, by simp [TMat.WF, MatVec.trans]⟩

/-! ## Round 10: the matrix-valued kernels and the storage primitives -/

/-- **source tie, matrix-valued loops and storage primitives**: the regenerated `operator*(Mat,Mat)` (pointer version),
    `operator*(TransMat,Mat)`, `operator*(Mat,TransMat)`, `operator*(TransMat,TransMat)`, `trans(TransMat)` (two loop
    levels around `*c++ = s`) and `MatVecBase::mul/add/sub`, `operator*=` (stores over a LIVE buffer, `*=` in place)
    EQUAL the executed hand models, for all operands -/
theorem C15_matrix_kernels_source_tie {K : Type} [Add K] [Sub K] [Mul K] [Zero K] :
    (∀ (A B : Mat K), MV.matMul A B = matMul A B)
    ∧ (∀ (A : TMat K) (B : Mat K), MV.tMulMat A B = tMulMat A B)
    ∧ (∀ (A : Mat K) (B : TMat K), MV.matMulT A B = matMulT A B)
    ∧ (∀ (A B : TMat K), MV.tMulT A B = tMulT A B)
    ∧ (∀ (M : TMat K), MV.transT M = transT M)
    ∧ (∀ (a : Array K) (f : K) (X : Array K), MV.baseMul a f X = baseMul a f X.size)
    ∧ (∀ (a b X : Array K), MV.baseAdd a b X = baseAdd a b X.size)
    ∧ (∀ (a b X : Array K), MV.baseSub a b X = baseSub a b X.size)
    ∧ (∀ (a : Array K) (f : K), MV.baseScale a f = baseMul a f a.size) :=
  ⟨gen_matMul, gen_tMulMat, gen_matMulT, gen_tMulT, gen_transT, gen_baseMul, gen_baseAdd, gen_baseSub, gen_baseScale⟩

section
variable {K : Type} [Semiring K]

/-- **Mat·Mat, the pointer loop**: the regenerated `operator*(const Mat&, const Mat&)` returns the Mathlib product -/
theorem C15_mat_mat_value (A B : Mat K) (hA : A.WF) (hB : B.WF) (hc : A.cols = B.rows) (d : K) :
    ∃ C, MV.matMul A B = .ok C ∧ C.rows = A.rows ∧ C.cols = B.cols ∧
      C.toMatrix d A.rows B.cols = A.toMatrix d A.rows A.cols * B.toMatrix d A.cols B.cols := by
  obtain ⟨C, h1, _, h3, h4, h5⟩ := matMul_toMatrix A B hA hB hc d
  exact ⟨C, by rw [gen_matMul]; exact h1, h3, h4, h5⟩

/-- **trans(A)·B** -/
theorem C15_transmat_mat_value (A : TMat K) (B : Mat K) (hA : A.WF) (hB : B.WF) (hc : A.cols = B.rows) (d : K) :
    ∃ C, MV.tMulMat A B = .ok C ∧ C.rows = A.rows ∧ C.cols = B.cols ∧ C.WF ∧
      C.toMatrix d A.rows B.cols = A.toMatrix d A.rows A.cols * B.toMatrix d A.cols B.cols := by
  rw [gen_tMulMat]; exact tMulMat_toMatrix A B hA hB hc d

/-- **A·trans(B)** -/
theorem C15_mat_transmat_value (A : Mat K) (B : TMat K) (hA : A.WF) (hB : B.WF) (hc : A.cols = B.rows) (d : K) :
    ∃ C, MV.matMulT A B = .ok C ∧ C.rows = A.rows ∧ C.cols = B.cols ∧ C.WF ∧
      C.toMatrix d A.rows B.cols = A.toMatrix d A.rows A.cols * B.toMatrix d A.cols B.cols := by
  rw [gen_matMulT]; exact matMulT_toMatrix A B hA hB hc d

/-- **trans(A)·trans(B)** (the code after cb8c13f3) -/
theorem C15_transmat_transmat_value (A B : TMat K) (hA : A.WF) (hB : B.WF) (hc : A.cols = B.rows) (d : K) :
    ∃ C, MV.tMulT A B = .ok C ∧ C.rows = A.rows ∧ C.cols = B.cols ∧ C.WF ∧
      C.toMatrix d A.rows B.cols = A.toMatrix d A.rows A.cols * B.toMatrix d A.cols B.cols := by
  rw [gen_tMulT]; exact tMulT_toMatrix A B hA hB hc d

/-- the view of `trans(M)` is `Mᵀ`, so the three statements above are about `Mᵀ·B`, `A·Mᵀ`, `Mᵀ·Nᵀ` -/
theorem C15_trans_view (M : Mat K) (hM : M.WF) (d : K) :
    (MatVec.trans M).WF ∧ (MatVec.trans M).toMatrix d M.cols M.rows = (M.toMatrix d M.rows M.cols)ᵀ := by
  refine ⟨?_, trans_toMatrix M d⟩
  show M.data.size = M.cols * M.rows
  rw [show M.data.size = M.rows * M.cols from hM, Nat.mul_comm]

end

/-- **trans(TransMat)**: the regenerated loop returns the `Mat` holding the transposed view -/
theorem C15_trans_transmat_value {K : Type} [Zero K] (T : TMat K) (hT : T.WF) (d : K) :
    ∃ C, MV.transT T = .ok C ∧ C.rows = T.cols ∧ C.cols = T.rows ∧ C.WF ∧
      C.toMatrix d T.cols T.rows = (T.toMatrix d T.rows T.cols)ᵀ := by
  rw [gen_transT]; exact transT_toMatrix T hT d

/-- **storage primitives** (`Vec`/`Mat`/`SymMat` `*`, `+`, `-`, `*=`, `+=`, `-=` all go through them): on operands of
    equal size the regenerated loops return the entrywise result — `X`'s old content is irrelevant -/
theorem C15_storage_primitives_value {K : Type} [Add K] [Sub K] [Mul K] [Zero K] (a b X : Array K) (f d : K)
    (hab : a.size = b.size) (hX : a.size = X.size) :
    (∃ v, MV.baseMul a f X = .ok v ∧ v.size = a.size ∧ ∀ p, p < a.size → vat v d p = vat a d p * f)
    ∧ (∃ v, MV.baseScale a f = .ok v ∧ v.size = a.size ∧ ∀ p, p < a.size → vat v d p = vat a d p * f)
    ∧ (∃ v, MV.baseAdd a b X = .ok v ∧ v.size = a.size ∧ ∀ p, p < a.size → vat v d p = vat a d p + vat b d p)
    ∧ (∃ v, MV.baseSub a b X = .ok v ∧ v.size = a.size ∧ ∀ p, p < a.size → vat v d p = vat a d p - vat b d p) := by
  have hg : ¬ (a.size ≠ b.size ∨ a.size ≠ a.size) := by simp [hab]
  refine ⟨?_, ?_, ?_, ?_⟩
  · rw [gen_baseMul, ← hX]; exact baseMul_spec a f d
  · rw [gen_baseScale]; exact baseMul_spec a f d
  · rw [gen_baseAdd]
    obtain ⟨v, h1, h2, h3⟩ := baseZip_spec (· + ·) a b hab d
    exact ⟨v, by simp only [baseAdd, ← hX, hg, if_false, h1], h2, h3⟩
  · rw [gen_baseSub]
    obtain ⟨v, h1, h2, h3⟩ := baseZip_spec (· - ·) a b hab d
    exact ⟨v, by simp only [baseSub, ← hX, hg, if_false, h1], h2, h3⟩

/-- `trans([[1,2,3],[4,5,6]])·[[1,0],[0,1]]`, `[[1,2],[3,4]]·[[0,1],[1,0]]`, `trans(trans(M))`, executed on the regenerated loops -/
example : MV.tMulMat (MatVec.trans (⟨2, 3, #[1, 2, 3, 4, 5, 6]⟩ : Mat Int)) ⟨2, 2, #[1, 0, 0, 1]⟩ = .ok ⟨3, 2, #[1, 4, 2, 5, 3, 6]⟩
    ∧ MV.matMul (⟨2, 2, #[1, 2, 3, 4]⟩ : Mat Int) ⟨2, 2, #[0, 1, 1, 0]⟩ = .ok ⟨2, 2, #[2, 1, 4, 3]⟩
    ∧ MV.matMulT (⟨1, 3, #[1, 1, 1]⟩ : Mat Int) (MatVec.trans ⟨2, 3, #[1, 2, 3, 4, 5, 6]⟩) = .ok ⟨1, 2, #[6, 15]⟩
    ∧ MV.tMulT (MatVec.trans (⟨3, 1, #[1, 1, 1]⟩ : Mat Int)) (MatVec.trans ⟨2, 3, #[1, 2, 3, 4, 5, 6]⟩) = .ok ⟨1, 2, #[6, 15]⟩
    ∧ MV.transT (MatVec.trans (⟨2, 3, #[1, 2, 3, 4, 5, 6]⟩ : Mat Int)) = .ok ⟨2, 3, #[1, 2, 3, 4, 5, 6]⟩
    ∧ MV.matMul (⟨0, 3, #[]⟩ : Mat Int) ⟨3, 0, #[]⟩ = .ok ⟨0, 0, #[]⟩ := by decide
/-- the storage primitives: `X`'s old content is overwritten; unequal sizes throw -/
example : MV.baseAdd (#[1, 2] : Array Int) #[10, 20] #[7, 7] = .ok #[11, 22]
    ∧ MV.baseSub (#[1, 2] : Array Int) #[10, 20] #[7, 7] = .ok #[-9, -18]
    ∧ MV.baseMul (#[1, 2] : Array Int) 3 #[7, 7] = .ok #[3, 6]
    ∧ MV.baseScale (#[1, 2] : Array Int) 3 = .ok #[3, 6]
    ∧ MV.baseAdd (#[1, 2] : Array Int) #[10, 20] #[7] = .error .badRank := by decide

/-! ## Round 12: `Mat·SymMat` (packed-triangle walk) and the accessor variants -/

/-- **source tie of `operator*(const Mat&, const SymMat&)`**: the regenerated loop (base-1 pointer `b = B.begin()-1`,
    `b[++l]` along row `j` of the packed triangle, then `l += k` down column `j`, two inner loops accumulating into one
    `sum`, early return for `n == 0`) EQUALS the executed hand model `matMulSym` (offsets `symWalk j k - 1`), all operands -/
theorem C15_mat_symmat_source_tie {K : Type} [Add K] [Mul K] [Zero K] (A : Mat K) (B : SMat K) :
    MV.matMulSym A B = matMulSym A B := gen_matMulSym A B

/-- **Mat·SymMat**: `A · Square(B)` — the Mathlib product with the full symmetric matrix the packed triangle denotes
    (`SMat.toMatrix`, symmetric: `toMatrix_symm`); all dimensions, any semiring -/
theorem C15_mat_symmat_value {K : Type} [Semiring K] (A : Mat K) (B : SMat K) (hA : A.WF) (hB : B.WF)
    (hc : A.cols = B.dim) (d : K) :
    (∃ C, MV.matMulSym A B = .ok C ∧ C.rows = A.rows ∧ C.cols = A.cols ∧ C.WF ∧
      C.toMatrix d A.rows A.cols = A.toMatrix d A.rows A.cols * B.toMatrix d A.cols)
    ∧ (B.toMatrix d A.cols)ᵀ = B.toMatrix d A.cols := by
  refine ⟨?_, SMat.toMatrix_symm B d A.cols⟩
  rw [gen_matMulSym]; exact matMulSym_toMatrix A B hA hB hc d

/-- **the accessor variants**: on the `MatBase` view of a `Mat` / `TransMat` the regenerated generic loops
    (`operator*(MatBase,Vec)`, `operator*(TransVec,MatBase)`) return what the regenerated pointer loops return — so
    `C15_mat_vec_value`, `C15_transmat_vec_value`, `C15_transvec_mat_value` are their value theorems too
    (this is also what `SymMat·Mat`, `SymMat·Vec` go through: `operator*(MatBase,MatBase)`, `operator*(MatBase,Vec)`) -/
theorem C15_accessor_variants_value {K : Type} [Add K] [Mul K] [Zero K] (A : Mat K) (T : TMat K) (b : Vec K) :
    MV.mbMulVec A.mb b = MV.matMulVec A b
    ∧ MV.mbMulVec T.mb b = MV.tMulVec T b
    ∧ MV.tvecMulMB b A.mb = MV.tvecMulMat b A := by
  refine ⟨?_, ?_, ?_⟩
  · rw [gen_mbMulVec, gen_matMulVec, mbMulVec_mat]
  · rw [gen_mbMulVec, gen_tMulVec, mbMulVec_tmat]
  · rw [gen_tvecMulMB, gen_tvecMulMat, tvecMulMB_mat]

/-- `[[1,2],[3,4]] · Sym[[1,2],[2,3]] = [[5,8],[11,18]]` on the regenerated loop; `n = 0` returns the empty `m×0`;
    WF operands, conforming -/
example : MV.matMulSym (⟨2, 2, #[1, 2, 3, 4]⟩ : Mat Int) ⟨2, #[1, 2, 3]⟩ = .ok ⟨2, 2, #[5, 8, 11, 18]⟩
    ∧ MV.matMulSym (⟨3, 0, #[]⟩ : Mat Int) ⟨0, #[]⟩ = .ok ⟨3, 0, #[]⟩
    ∧ MV.matMulSym (⟨1, 3, #[1, 1, 1]⟩ : Mat Int) ⟨3, #[1, 2, 3, 4, 5, 6]⟩ = .ok ⟨1, 3, #[7, 10, 15]⟩
    ∧ MV.matMulSym (⟨2, 2, #[1, 2, 3, 4]⟩ : Mat Int) ⟨3, #[1, 2, 3, 4, 5, 6]⟩ = .error .badRank := by decide

/-! ## Round 13: `SymMat·SymMat` as coded (known finding C15-symmat-product), on the REGENERATED loop -/

/-- **source tie of `operator*(const SymMat&, const SymMat&)`**: the regenerated loop (two base-1 pointers, walkers
    `l++; if (k > i) l += k-2`, triangular store `j ≤ i`, early return for dimension 0) EQUALS the hand model `symMul` -/
theorem C15_symmat_symmat_source_tie {K : Type} [Add K] [Mul K] [Zero K] (A B : SMat K) :
    MV.symMul A B = symMul A B := gen_symMul A B

/-- **what the code computes**: on conforming well-formed operands the regenerated loop returns a `SymMat` `C` whose
    cell `(i,j)`, `j ≤ i`, is `(AB)(i,j)` — the lower triangle of the true product of the two symmetric matrices;
    hence `C` (read as a symmetric matrix) is `AB` EXACTLY WHEN `AB` is symmetric, i.e. `A` and `B` commute -/
theorem C15_symmat_symmat_as_coded {K : Type} [Semiring K] (A B : SMat K) (hA : A.WF) (hB : B.WF)
    (hc : A.dim = B.dim) (d : K) :
    ∃ C, MV.symMul A B = .ok C ∧ C.dim = A.dim ∧ C.WF
      ∧ (∀ i j : Fin A.dim, j ≤ i → C.toMatrix d A.dim i j = (A.toMatrix d A.dim * B.toMatrix d A.dim) i j)
      ∧ (C.toMatrix d A.dim = A.toMatrix d A.dim * B.toMatrix d A.dim
          ↔ (A.toMatrix d A.dim * B.toMatrix d A.dim)ᵀ = A.toMatrix d A.dim * B.toMatrix d A.dim) := by
  obtain ⟨C, h1, h2, h3, h4⟩ := symMul_cells A B hA hB hc d
  have low : ∀ i j : Fin A.dim, j ≤ i → C.toMatrix d A.dim i j = (A.toMatrix d A.dim * B.toMatrix d A.dim) i j := by
    intro i j hji
    simp only [SMat.toMatrix, Matrix.mul_apply]
    rw [h4 i.val j.val hji i.isLt, ← Fin.sum_univ_eq_sum_range (fun k => A.at d i.val k * B.at d j.val k)]
    exact Finset.sum_congr rfl (fun k _ => by rw [SMat.at_symm B d j.val k.val])
  refine ⟨C, by rw [gen_symMul]; exact h1, h2, h3, low, ?_⟩
  constructor
  · intro h; rw [← h]; exact SMat.toMatrix_symm C d A.dim
  · intro hs
    funext i j
    by_cases hji : j ≤ i
    · exact low i j hji
    · have hij : i ≤ j := by
        rcases Fin.le_total i j with h | h
        · exact h
        · exact absurd h hji
      have e1 : C.toMatrix d A.dim i j = C.toMatrix d A.dim j i := by
        simp only [SMat.toMatrix]; exact SMat.at_symm C d i.val j.val
      rw [e1, low j i hij]
      have := congrFun (congrFun hs i) j
      simpa [Matrix.transpose_apply] using this

/-- **known finding C15-symmat-product as a theorem about the source text**: on the REGENERATED loop,
    `Sym[[1,2],[2,3]] · Sym[[1,0],[0,2]]` returns `Sym[[1,2],[2,6]]`, whose square form `[[1,2],[2,6]]` is not the
    product `[[1,4],[2,6]]` of the operands' square forms (`(AB)(1,2) = 4` is lost: `AB` is not symmetric) -/
theorem C15_symmat_product_violates_source :
    ∃ A B C : SMat Int, MV.symMul A B = .ok C ∧ A.WF ∧ B.WF ∧ A.dim = B.dim ∧
      (symSquare C).toOption.map (·.data) ≠
        ((do let a ← symSquare A; let b ← symSquare B; MV.matMul a b : Except Err (Mat Int))).toOption.map (·.data) :=
  ⟨⟨2, #[1, 2, 3]⟩, ⟨2, #[1, 0, 2]⟩, ⟨2, #[1, 2, 6]⟩, by decide, by simp [SMat.WF], by simp [SMat.WF], rfl, by decide⟩

/-- non-vacuity of the `↔`: commuting operands (`B = 2·I`): the regenerated loop returns the true product; dimension 0 -/
example : MV.symMul (⟨2, #[1, 2, 3]⟩ : SMat Int) ⟨2, #[2, 0, 2]⟩ = .ok ⟨2, #[2, 4, 6]⟩
    ∧ MV.symMul (⟨0, #[]⟩ : SMat Int) ⟨0, #[]⟩ = .ok ⟨0, #[]⟩
    ∧ MV.symMul (⟨3, #[1, 2, 3, 4, 5, 6]⟩ : SMat Int) ⟨3, #[1, 0, 1, 0, 0, 1]⟩ = .ok ⟨3, #[1, 2, 3, 4, 5, 6]⟩
    ∧ MV.symMul (⟨2, #[1, 2, 3]⟩ : SMat Int) ⟨3, #[1, 0, 1, 0, 0, 1]⟩ = .error .badRank := by decide

end Gama.Props.C15
