/-
  C15 — the LOOPS and the VALUES of the products other than Mat·Mat (round 9).

  `tools/gen/c15_kernels.py` rewrites, on every run, the C++ functions

      operator*(Mat,Vec)  operator*(MatBase,Vec)  operator*(TransMat,Vec)  operator*(Vec,TransMat)
      operator*(TransVec,Mat)  operator*(TransVec,MatBase)  VecBase::dot

  statement by statement into `Gen/MatVecKernels.lean` (`Gen.MV.*`: pointers walking the operands, checked reads
  and writes, counted loops).  Here:

    C15_kernels_source_tie      every regenerated kernel EQUALS the closed-form hand model of Model/MatVec.lean that
                                `drv_matvec` runs next to the C++ — all operands, conforming or not (so the guard-table
                                theorems of Props/C15.lean, stated for the hand models, are about the regenerated loops)
    C15_mat_vec_value           `A·b`        = `Matrix.mulVec`              (both implementations' pointer version)
    C15_transmat_vec_value      `trans(M)·b` = `Mᵀ.mulVec b`
    C15_transvec_mat_value      `bᵀ·A`       = `Matrix.vecMul`
    C15_dot_value               `aᵀ·b`       = `dotProduct`
    C15_vec_transmat_as_coded   what `operator*(Vec,TransMat)` computes (known finding C15-vec-transmat: the storage
                                read with stride `cols`; `vec_transmat_violates` in Props/C15.lean is the defect)
  for ALL dimensions (0 included), over any semiring `K`.  `d` is the junk value of an out-of-range read of a
  storage array (never taken under the hypotheses).
-/
import Gama.Lemmas.MatVecKernels
import Gama.Lemmas.MatVecValues
namespace Gama.Props.C15
open Gama Gama.MatVec Gama.Gen Matrix

/-- **source tie of the loops**: regenerated kernel = executed hand model, for all operands -/
theorem C15_kernels_source_tie {K : Type} [Add K] [Mul K] [Zero K] :
    (∀ (A : Mat K) (b : Vec K), MV.matMulVec A b = matMulVec A b)
    ∧ (∀ (A : MB K) (b : Vec K), MV.mbMulVec A b = mbMulVec A b)
    ∧ (∀ (A : TMat K) (b : Vec K), MV.tMulVec A b = tMulVec A b)
    ∧ (∀ (b : Vec K) (A : TMat K), MV.vecMulT b A = vecMulT b A)
    ∧ (∀ (b : Vec K) (A : Mat K), MV.tvecMulMat b A = tvecMulMat b A)
    ∧ (∀ (b : Vec K) (A : MB K), MV.tvecMulMB b A = tvecMulMB b A)
    ∧ (∀ (a b : Vec K), MV.dot a b = dot a b) :=
  ⟨gen_matMulVec, gen_mbMulVec, gen_tMulVec, gen_vecMulT, gen_tvecMulMat, gen_tvecMulMB, gen_dot⟩

section
variable {K : Type} [Semiring K]

/-- the `Fin`-indexed vector of a storage array -/
def toV (v : Vec K) (d : K) (n : Nat) : Fin n → K := fun i => vat v d i.val

/-- **Mat·Vec**: on a well-formed `A` and a conforming `b` the regenerated loop of `operator*(Mat,Vec)` returns
    `A *ᵥ b` (no `BadRank`, no read outside the operands) -/
theorem C15_mat_vec_value (A : Mat K) (b : Vec K) (hA : A.WF) (hc : A.cols = b.size) (d : K) :
    ∃ v, MV.matMulVec A b = .ok v ∧ v.size = A.rows ∧
      toV v d A.rows = (A.toMatrix d A.rows A.cols) *ᵥ (toV b d A.cols) := by
  obtain ⟨v, h1, h2, h3⟩ := matMulVec_spec A b hA hc d
  refine ⟨v, by rw [gen_matMulVec]; exact h1, h2, ?_⟩
  funext i
  simp only [toV, Matrix.mulVec, dotProduct, Mat.toMatrix]
  rw [h3 i.val i.isLt, ← Fin.sum_univ_eq_sum_range (fun k => A.at d i.val k * vat b d k)]

/-- **trans(M)·Vec**: the regenerated loop of `operator*(TransMat,Vec)` on the view `trans(M)` returns `Mᵀ *ᵥ b` -/
theorem C15_transmat_vec_value (M : Mat K) (b : Vec K) (hM : M.WF) (hc : M.rows = b.size) (d : K) :
    ∃ v, MV.tMulVec (MatVec.trans M) b = .ok v ∧ v.size = M.cols ∧
      toV v d M.cols = (M.toMatrix d M.rows M.cols)ᵀ *ᵥ (toV b d M.rows) := by
  have hT : (MatVec.trans M).WF := by
    show M.data.size = M.cols * M.rows
    rw [show M.data.size = M.rows * M.cols from hM, Nat.mul_comm]
  obtain ⟨v, h1, h2, h3⟩ := tMulVec_spec (MatVec.trans M) b hT hc d
  refine ⟨v, by rw [gen_tMulVec]; exact h1, h2, ?_⟩
  funext i
  simp only [toV, Matrix.mulVec, dotProduct, Mat.toMatrix, Matrix.transpose_apply]
  have := h3 i.val i.isLt
  simp only [trans_at] at this
  rw [this]
  exact (Fin.sum_univ_eq_sum_range (fun k => M.at d k i.val * vat b d k) M.rows).symm

/-- **TransVec·Mat**: the regenerated loop of `operator*(TransVec,Mat)` returns `b ᵥ* A` -/
theorem C15_transvec_mat_value (b : Vec K) (A : Mat K) (hA : A.WF) (hc : b.size = A.rows) (d : K) :
    ∃ v, MV.tvecMulMat b A = .ok v ∧ v.size = A.cols ∧
      toV v d A.cols = (toV b d A.rows) ᵥ* (A.toMatrix d A.rows A.cols) := by
  obtain ⟨v, h1, h2, h3⟩ := tvecMulMat_spec b A hA hc d
  refine ⟨v, by rw [gen_tvecMulMat]; exact h1, h2, ?_⟩
  funext j
  simp only [toV, Matrix.vecMul, dotProduct, Mat.toMatrix]
  rw [h3 j.val j.isLt, ← Fin.sum_univ_eq_sum_range (fun k => vat b d k * A.at d k j.val)]

/-- **dot**: the regenerated `while` loop of `VecBase::dot` returns `a ⬝ᵥ b` -/
theorem C15_dot_value (a b : Vec K) (hc : a.size = b.size) (d : K) :
    MV.dot a b = .ok (toV a d a.size ⬝ᵥ toV b d a.size) := by
  rw [gen_dot, dot_spec a b hc d]
  simp only [toV, dotProduct]
  rw [← Fin.sum_univ_eq_sum_range (fun k => vat a d k * vat b d k)]

/-- **Vec·TransMat as coded** (known finding C15-vec-transmat): where the loop stays inside its operands
    (`cols ≤ rows`) it returns `Σ_j m[i + j·cols]·b_j` — `bᵀ·trans(M)` would be `Σ_j m[i·cols + j]…` over `rows` terms -/
theorem C15_vec_transmat_as_coded (b : Vec K) (A : TMat K) (hA : A.WF) (hc : A.rows = b.size)
    (hle : A.cols ≤ A.rows) (d : K) :
    ∃ v, MV.vecMulT b A = .ok v ∧ v.size = A.rows ∧
      ∀ i, i < A.rows → vat v d i = ∑ j ∈ Finset.range A.cols, A.data.getD (i + j * A.cols) d * vat b d j := by
  obtain ⟨v, h1, h2, h3⟩ := vecMulT_spec b A hA hc hle d
  exact ⟨v, by rw [gen_vecMulT]; exact h1, h2, h3⟩

end

/-! ### non-vacuity: the regenerated loops, executed -/

/-- `[[1,2,3],[4,5,6]]·(1,0,-1)ᵀ = (-2,-2)ᵀ`; WF, conforming -/
example : MV.matMulVec (⟨2, 3, #[1, 2, 3, 4, 5, 6]⟩ : Mat Int) #[1, 0, -1] = .ok #[-2, -2]
    ∧ (⟨2, 3, #[1, 2, 3, 4, 5, 6]⟩ : Mat Int).WF := ⟨by decide, by simp [Mat.WF]⟩
/-- non-conforming operands: `BadRank`; a short storage: `oob` (reads outside are reported, not invented) -/
example : MV.matMulVec (⟨2, 3, #[1, 2, 3, 4, 5, 6]⟩ : Mat Int) #[1, 0] = .error .badRank
    ∧ MV.matMulVec (⟨2, 3, #[1, 2, 3, 4, 5]⟩ : Mat Int) #[1, 0, -1] = .error .oob := by decide
/-- `trans([[1,2,3],[4,5,6]])·(1,-1)ᵀ = (-3,-3,-3)ᵀ` -/
example : MV.tMulVec (MatVec.trans (⟨2, 3, #[1, 2, 3, 4, 5, 6]⟩ : Mat Int)) #[1, -1] = .ok #[-3, -3, -3] := by decide
/-- `(1,-1)·[[1,2,3],[4,5,6]] = (-3,-3,-3)` -/
example : MV.tvecMulMat #[1, -1] (⟨2, 3, #[1, 2, 3, 4, 5, 6]⟩ : Mat Int) = .ok #[-3, -3, -3]
    ∧ MV.tvecMulMB #[1, -1] (⟨2, 3, #[1, 2, 3, 4, 5, 6]⟩ : Mat Int).mb = .ok #[-3, -3, -3]
    ∧ MV.mbMulVec (⟨2, 3, #[1, 2, 3, 4, 5, 6]⟩ : Mat Int).mb #[1, 0, -1] = .ok #[-2, -2] := by decide
example : MV.dot (#[1, 2, 3] : Vec Int) #[4, 5, 6] = .ok 32 ∧ MV.dot (#[] : Vec Int) #[] = .ok 0 := by decide
/-- the defect, on the regenerated loop: a 3×2 view (`cols ≤ rows`, hypotheses of `C15_vec_transmat_as_coded` met):
    the code returns (1·1+2·3, 1·2+2·4, 1·3+2·5) = (7,10,13), `bᵀ·trans(M)` has 2 entries -/
example : MV.vecMulT (#[1, 2, 0] : Vec Int) (MatVec.trans (⟨2, 3, #[1, 2, 3, 4, 5, 6]⟩ : Mat Int)) = .ok #[7, 10, 13]
    ∧ (MatVec.trans (⟨2, 3, #[1, 2, 3, 4, 5, 6]⟩ : Mat Int)).WF := ⟨by decide, by simp [TMat.WF, MatVec.trans]⟩

end Gama.Props.C15
