/-
  C16 — Sparse kernels equal their dense definitions.
  Property theorems only; helper lemmas live in Gama/Lemmas
  (SparseBasic, SparseCountingSort, SparseBuild, GraphAdj, Reach, RCMPerm, EnvelopeProfile,
  EnvelopeLDL, SparseEmpty; block-diagonal Cholesky: CovBdMulti, CovBdIff, CovBdField on top of C10's CovBd, CovAgree).

  NO theorem below assumes `0 < A.cols` or `0 < A.rows` except `C16_profile_shape` (a matrix without
  columns has no profile: `C16_envelope_no_columns`); section "Matrices without columns / without rows"
  says what the general statements amount to in these cases.

  Hypotheses that recur (none of them is checked by the C++, all are respected by its callers
  and by the correspondence harness):
    `A.WF`            the matrix is completely built, column indices lie in `1..cols`;
    `g.InRange`, `g.Sym`  neighbour lists stay in `1..nodes` / are symmetric — both are
                      THEOREMS for the graph of a well-formed matrix (`C16_graph`).
  Arithmetic statements are over an arbitrary linearly ordered field `K` with the canonical
  `Scalar` structure `ordFieldScalar K sq` (every operation is the field's).
-/
import Gama.Lemmas.SparseBasic
import Gama.Lemmas.SparseCountingSort
import Gama.Lemmas.SparseBuild
import Gama.Lemmas.SparseGrow
import Gama.Gen.SparseMembers
import Gama.Lemmas.GraphAdj
import Gama.Lemmas.Reach
import Gama.Lemmas.RCMPerm
import Gama.Lemmas.EnvelopeProfile
import Gama.Lemmas.EnvelopeLDL
import Gama.Lemmas.CovBdField
import Gama.Lemmas.CovBdBuild
import Gama.Lemmas.SparseEmpty
namespace Gama.Props.C16
open Gama

/-! ## Build and replicate preserve every entry -/

/-- `SparseMatrix(floats, rows, cols)` followed by `new_row(); add_element(e,k)…` row by row:
    every intermediate C++ call is defined (`build? = some`), and row `r` of the result holds
    exactly the `(column, value)` pairs that were added, in the order added. -/
theorem C16_build_entries {K : Type} [Inhabited K] (floats rows cols : Nat) (rs : List (List (Nat × K)))
    (hk : rs.length ≤ rows) (hn : rs.flatten.length ≤ floats) :
    SMat.build? floats rows cols rs = some (SMat.build floats rows cols rs) ∧
    (SMat.build floats rows cols rs).ncnt = rs.flatten.length ∧
    (∀ r, 1 ≤ r → r ≤ rs.length → (SMat.build floats rows cols rs).rowEntries r = rs.getD (r - 1) []) ∧
    (rs.length = rows → (SMat.build floats rows cols rs).toRows = rs) := by
  obtain ⟨h1, _, _, h4, _, _, h7, h8⟩ := SMat.build_entries floats rows cols rs hk hn
  exact ⟨h1, h4, h7, h8⟩

/-- a complete build with column indices in range is well-formed (so all theorems below apply) -/
theorem C16_build_wf {K : Type} [Inhabited K] (floats rows cols : Nat) (rs : List (List (Nat × K)))
    (hk : rs.length = rows) (hn : rs.flatten.length ≤ floats) (hc : SMat.ColsIn cols rs) :
    (SMat.build floats rows cols rs).WF :=
  SMat.build_WF floats rows cols rs hk hn hc

/-- `replicate(n, r, c)` copies the counters and every started row; `replicate()` is the
    identity on rows and entries and preserves well-formedness. -/
theorem C16_replicate {K : Type} [Inhabited K] (A : SMat K) (h : A.WF) (n r c : Nat) :
    ((A.replicate n r c).rows = r ∧ (A.replicate n r c).cols = c ∧ (A.replicate n r c).ncnt = A.ncnt ∧
      ∀ i, 1 ≤ i → i ≤ A.rcnt → (A.replicate n r c).rowEntries i = A.rowEntries i) ∧
    (A.replicate0.WF ∧ A.replicate0.toRows = A.toRows ∧ A.replicate0.entries = A.entries) := by
  obtain ⟨h1, h2, h3, _, _, h6⟩ := SMat.replicate_entries A h n r c
  exact ⟨⟨h1, h2, h3, h6⟩, SMat.replicate0_spec A h⟩

/-- the way `LocalNetwork::project_equations` builds the design matrix: fill with `cols = 0`,
    then `replicate(nonzeroes, rows, unknowns)` -/
theorem C16_build_replicate_network {K : Type} [Inhabited K] (floats rows c : Nat)
    (rs : List (List (Nat × K))) (hk : rs.length = rows) (hn : rs.flatten.length ≤ floats)
    (hc : SMat.ColsIn c rs) :
    ((SMat.build floats rows 0 rs).replicate rs.flatten.length rows c).WF ∧
    ((SMat.build floats rows 0 rs).replicate rs.flatten.length rows c).toRows = rs :=
  SMat.build_replicate_spec floats rows c rs hk hn hc

/-- non-vacuity: three rows (one empty, one unsorted) in a 3×4 matrix with capacity 5 -/
example : (SMat.build 5 3 4 [[(3, 10)], [], [(1, 11), (4, 12), (2, 13)]]).toRows
    = [[(3, 10)], [], [(1, 11), (4, 12), (2, 13)]] := by decide

/-! ## Transpose: the counting sort as coded equals the functional specification -/

/-- `transpose()` (shifted-pointer counting sort on the CRS arrays) produces exactly the storage
    of the specification: row `c` of the result lists the entries of column `c`, rows
    ascending, storage order within a row. -/
theorem C16_transpose_refines_spec {K : Type} [Inhabited K] (A : SMat K) (h : A.WF) :
    A.transpose = A.transposeSpec :=
  SMat.transpose_eq_spec A h

/-- on the level of rows: `rows(Aᵀ) = transposeRows(rows A)` -/
theorem C16_transpose_rows {K : Type} [Inhabited K] (A : SMat K) (h : A.WF) :
    A.transpose.toRows = SMat.transposeRows A.cols A.toRows :=
  SMat.transpose_toRows A h

/-- `(i, j, a) ∈ Aᵀ ⇔ (j, i, a) ∈ A`; the multiset of entries is preserved (with
    multiplicities), so is the number of non-zeroes; the result is again well-formed — row
    pointers start at 0, are monotone and end at `ncnt`. -/
theorem C16_transpose_entries {K : Type} [Inhabited K] (A : SMat K) (h : A.WF) :
    (∀ i j a, (i, j, a) ∈ A.transpose.entries ↔ (j, i, a) ∈ A.entries) ∧
    (A.transpose.entries.map fun e => (e.2.1, e.1, e.2.2)).Perm A.entries ∧
    A.transpose.ncnt = A.ncnt ∧ A.transpose.WF :=
  ⟨fun _ _ _ => SMat.mem_transpose_entries A h, SMat.transpose_entries_perm A h, rfl,
   SMat.transpose_WF A h⟩

/-- `transpose(transpose(A))` is `A` with every row stably sorted by column index … -/
theorem C16_transpose_transpose {K : Type} [Inhabited K] (A : SMat K) (h : A.WF) :
    A.transpose.transpose.toRows = A.toRows.map (SMat.stableSortByCol A.cols) :=
  SMat.transpose_transpose A h

/-- … where `stableSortByCol` is THE stable sort: a permutation of the row, sorted by column,
    and entries with equal column keep their relative order. -/
theorem C16_stable_sort_spec {K : Type} (cols : Nat) (row : List (Nat × K))
    (hc : ∀ e ∈ row, 1 ≤ e.1 ∧ e.1 ≤ cols) :
    (SMat.stableSortByCol cols row).Perm row ∧
    (SMat.stableSortByCol cols row).Pairwise (fun a b => a.1 ≤ b.1) ∧
    ∀ c, (SMat.stableSortByCol cols row).filter (·.1 == c) = row.filter (·.1 == c) :=
  ⟨SMat.stableSortByCol_perm hc, SMat.stableSortByCol_sorted cols row,
   fun c => SMat.stableSortByCol_stable hc c⟩

/-- non-vacuity: a 3×4 matrix with an empty row, unsorted columns and a duplicate column -/
example : SMat.exA.WF ∧ SMat.exA.transpose.cind = #[3, 1, 3, 3, 1] := by
  refine ⟨?_, by decide⟩
  constructor <;> decide

/-! ## The build machine: fill, replicate into a larger object, CONTINUE the fill

`replicate(n, r, c)` is a step of the build (Model/SparseOps.lean): the caller goes on calling
`new_row()/add_element()` on the replica.  The statements above treat `replicate` as a function on a
finished matrix; the ones below follow the cursors `rcnt_`, `rnxt_`, `ncnt_` through the hand-over. -/

/-- **fill `pre` → `replicate(n, r, c)` → fill `rs`.**  For every prefix of rows, every replica
    capacity that holds all rows (`r` rows exactly, `n` entries at least) and every continuation:
    each of the C++ calls is defined (the machine does not stop), and the final object is well formed,
    holds exactly the rows `pre ++ rs` — the rows of the prefix extended by the appended rows, i.e.
    the same rows as a build of `pre ++ rs` in one go — and so does its transpose. -/
theorem C16_replicate_then_append {K : Type} [Inhabited K] (floats rows cols : Nat)
    (pre rs : List (List (Nat × K))) (n r c : Nat)
    (hk : pre.length ≤ rows) (hf : pre.flatten.length ≤ floats)
    (hr : (pre ++ rs).length = r) (hn : (pre ++ rs).flatten.length ≤ n)
    (hc : SMat.ColsIn c (pre ++ rs)) :
    ∃ B : SMat K,
      SMat.runOps? (SMat.new floats rows cols)
        (pre.flatMap SMat.rowOps ++ SMat.BuildOp.replicate n r c :: rs.flatMap SMat.rowOps) = some B ∧
      B = rs.foldl SMat.pushRow ((SMat.build floats rows cols pre).replicate n r c) ∧
      B.WF ∧ B.rows = r ∧ B.cols = c ∧
      B.toRows = pre ++ rs ∧
      B.toRows = (SMat.build n r c (pre ++ rs)).toRows ∧
      B.entries = SMat.entriesOf (pre ++ rs) ∧
      B.transpose.toRows = SMat.transposeRows c (pre ++ rs) ∧
      B.transpose.toRows = (SMat.build n r c (pre ++ rs)).transpose.toRows := by
  obtain ⟨hB, hrun⟩ := SMat.replicate_then_append floats rows cols pre rs n r c hk hf (by omega) hn
  have hrows : (pre ++ rs).length = (rs.foldl SMat.pushRow ((SMat.build floats rows cols pre).replicate n r c)).rows := by
    rw [hB.rows_eq, hr]
  have hwf := hB.lay.WF hrows (by rw [hB.cols_eq]; exact hc)
  have htr := hB.lay.toRows hrows
  have hone := SMat.build_built n r c (pre ++ rs) (by omega) hn
  have hone_rows : (SMat.build n r c (pre ++ rs)).toRows = pre ++ rs :=
    hone.lay.toRows (by rw [hone.rows_eq, hr])
  have hone_wf : (SMat.build n r c (pre ++ rs)).WF := SMat.build_WF n r c (pre ++ rs) hr hn hc
  refine ⟨_, hrun, rfl, hwf, hB.rows_eq, hB.cols_eq, htr, by rw [htr, hone_rows], ?_, ?_, ?_⟩
  · rw [SMat.entries_eq_entriesOf, htr]
  · rw [SMat.transpose_toRows _ hwf, htr, hB.cols_eq]
  · rw [SMat.transpose_toRows _ hwf, SMat.transpose_toRows _ hone_wf, htr, hone_rows, hB.cols_eq, hone.cols_eq]

/-- the invariant that makes it work, for ANY number of hand-overs: a build in progress
    (`Built`: rows so far laid out, `rnxt_ = rows so far + 1`, capacities) stays a build in progress —
    with the new capacities — under `replicate(n, r, c)` whenever the rows so far fit, and the call
    is defined. -/
theorem C16_replicate_keeps_build {K : Type} [Inhabited K] {floats rows cols : Nat}
    {rs : List (List (Nat × K))} {A : SMat K} (h : SMat.Built floats rows cols rs A) (n r c : Nat)
    (hr : rs.length ≤ r) (hn : rs.flatten.length ≤ n) :
    SMat.Built n r c rs (A.replicate n r c) ∧ A.canReplicate n r = true :=
  h.replicate n r c hr hn

/-- non-vacuity: one row in a 1-row object, replica with room for three rows and four columns,
    two more rows (one empty) appended -/
example : (SMat.runOps? (SMat.new 1 1 2 : SMat Nat)
      (SMat.rowOps [(2, 5)] ++ SMat.BuildOp.replicate 4 3 4 :: [[], [(4, 7), (1, 8)]].flatMap SMat.rowOps)).map SMat.toRows
    = some [[(2, 5)], [], [(4, 7), (1, 8)]] := by decide

/-- **The variant that leaves `rnxt_ = 1` in the replica fails** (what
    `C16_replicate_then_append` excludes): the replica reads back correctly, but the first row
    appended to it is lost — its entries are counted into `rptr[2]`, the end of row 1. -/
example :
    let A : SMat Nat := SMat.build 2 2 2 [[(1, 5)], [(2, 6)]]
    (A.replicateStaleCursor 4 3 2).rowEntries 1 = [(1, 5)] ∧
    (A.replicateStaleCursor 4 3 2).rowEntries 2 = [(2, 6)] ∧
    (((A.replicateStaleCursor 4 3 2).pushRow [(1, 7)]).toRows ≠ [[(1, 5)], [(2, 6)], [(1, 7)]]) ∧
    (((A.replicate 4 3 2).pushRow [(1, 7)]).toRows = [[(1, 5)], [(2, 6)], [(1, 7)]]) := by decide

/-- **Tie of the model's `replicate` to the regenerated member table** (`Gen/SparseMembers.lean`,
    from smatrix.h on every run): the state `SMat` stands for exactly the data members of the class, and
    every scalar member / array of the model's replica is what the C++ `replicate` (constructor
    included) makes of it.  A member that `replicate` stops copying, or a new member, breaks this. -/
theorem C16_replicate_members {K : Type} [Inhabited K] (A : SMat K) (n r c : Nat) :
    Gen.SparseMembers.members = SMat.modelMembers ∧
    (let s : Gen.SparseMembers.Scalars := ⟨A.rows, A.cols, A.rcnt, A.rnxt, A.ncnt⟩
     let g := Gen.SparseMembers.replicateScalars s n r c
     let cp := Gen.SparseMembers.replicateCopy s
     let al := Gen.SparseMembers.ctorAlloc n r c
     (A.replicate n r c).rows = g.rows ∧ (A.replicate n r c).cols = g.cols ∧
     (A.replicate n r c).rcnt = g.rcnt ∧ (A.replicate n r c).rnxt = g.rnxt ∧
     (A.replicate n r c).ncnt = g.ncnt ∧
     (A.replicate n r c).rptr = SMat.copyInto A.rptr cp.rptr al.rptr ∧
     (A.replicate n r c).nonz = SMat.copyInto A.nonz cp.nonz al.nonz ∧
     (A.replicate n r c).cind = SMat.copyInto A.cind cp.cind al.cind) ∧
    (let g0 := Gen.SparseMembers.ctorScalars n r c
     let al := Gen.SparseMembers.ctorAlloc n r c
     (SMat.new n r c : SMat K).rows = g0.rows ∧ (SMat.new n r c : SMat K).cols = g0.cols ∧
     (SMat.new n r c : SMat K).rcnt = g0.rcnt ∧ (SMat.new n r c : SMat K).rnxt = g0.rnxt ∧
     (SMat.new n r c : SMat K).ncnt = g0.ncnt ∧
     (SMat.new n r c : SMat K).rptr.size = al.rptr ∧ (SMat.new n r c : SMat K).nonz.size = al.nonz ∧
     (SMat.new n r c : SMat K).cind.size = al.cind) :=
  ⟨by decide, ⟨rfl, rfl, rfl, rfl, rfl, rfl, rfl, rfl⟩,
   ⟨rfl, rfl, rfl, rfl, rfl, by simp [SMat.new, Gen.SparseMembers.ctorAlloc],
    by simp [SMat.new, Gen.SparseMembers.ctorAlloc], by simp [SMat.new, Gen.SparseMembers.ctorAlloc]⟩⟩

/-! ## Graph of a sparse matrix -/

/-- `i ~ j ⇔ i ≠ j ∧ some row contains both`; hence loop-free, symmetric, inside `1..cols`;
    neighbours are listed in strictly increasing order (as `std::set<pair>` iterates). -/
theorem C16_graph {K : Type} (A : SMat K) (h : A.WF) :
    (graphOf A).nodes = A.cols ∧
    (∀ i j, 1 ≤ i → i ≤ A.cols →
      (j ∈ (graphOf A).nbrs i ↔
        i ≠ j ∧ ∃ r, 1 ≤ r ∧ r ≤ A.rows ∧ i ∈ A.rowCols r ∧ j ∈ A.rowCols r)) ∧
    (graphOf A).Sym ∧ (graphOf A).InRange ∧
    (∀ i, 1 ≤ i → i ≤ A.cols → i ∉ (graphOf A).nbrs i) ∧
    (∀ i, 1 ≤ i → i ≤ A.cols → ((graphOf A).nbrs i).Pairwise (· < ·)) :=
  ⟨graphOf_nodes A, fun i j hi hi' => graphOf_nbrs_iff A h i j hi hi', graphOf_sym A h,
   graphOf_inRange A h, fun i hi hi' => graphOf_loopfree A h i hi hi',
   fun i hi hi' => graphOf_nbrs_sorted A h i hi hi'⟩

/-! ## Connectivity -/

/-- `connected()` is `true` exactly when the graph has a node and every node can be reached
    from node 1 — for every graph whose neighbour lists stay inside `1..nodes` (asymmetric
    lists and duplicates allowed, `nodes = 0` included). -/
theorem C16_connected_iff (g : Adj) (hr : g.InRange) :
    connected g = some true ↔ 1 ≤ g.nodes ∧ ∀ v, 1 ≤ v → v ≤ g.nodes → Reach g 1 v := by
  by_cases hn : g.nodes = 0
  · rw [connected_zero g hn]; constructor
    · intro h; cases h
    · intro h; omega
  · have h1 : 1 ≤ g.nodes := by omega
    rw [connected_iff g h1 hr]
    exact ⟨fun h => ⟨h1, h⟩, fun h => h.2⟩

/-- it always answers, and answers `false` exactly in the complementary case -/
theorem C16_connected_false_iff (g : Adj) (hr : g.InRange) :
    connected g = some false ↔ g.nodes = 0 ∨ ∃ v, 1 ≤ v ∧ v ≤ g.nodes ∧ ¬ Reach g 1 v := by
  by_cases hn : g.nodes = 0
  · rw [connected_zero g hn]; simp [hn]
  · have h1 : 1 ≤ g.nodes := by omega
    rw [connected_false_iff g h1 hr]
    constructor
    · intro h; exact Or.inr h
    · rintro (h | h)
      · exact absurd h hn
      · exact h

/-- the `while (!stack.empty())` loop ends with an empty stack within `nodes + 1` iterations:
    the fuel of the model is never the reason to stop -/
theorem C16_connected_terminates (g : Adj) (hn : 1 ≤ g.nodes) (hr : g.InRange) :
    (connLoop g (g.nodes + 1) (connInit g)).stack = [] :=
  (connLoop_fuel g hn hr).1

/-- for the graph of a design matrix (what `LocalNetwork::connected_network()` reports) -/
theorem C16_connected_matrix {K : Type} (A : SMat K) (h : A.WF) :
    connected (graphOf A) = some true ↔
      1 ≤ A.cols ∧ ∀ v, 1 ≤ v → v ≤ A.cols → Reach (graphOf A) 1 v := by
  have := C16_connected_iff (graphOf A) (graphOf_inRange A h)
  rwa [graphOf_nodes] at this

/-- non-vacuity: a path 1-2-3 with an isolated node 4 is reported as not connected -/
example : connected { nodes := 4, xadj := #[0, 0, 1, 3, 4, 4], adjncy := #[2, 1, 3, 2] } = some false := by
  decide

/-! ## Reverse Cuthill–McKee ordering -/

/-- For EVERY symmetric graph (connected, disconnected, edgeless, empty; duplicates in the
    neighbour lists allowed) the computed `perm` is a permutation of `1..n` and `invp` its
    inverse: `invp (perm k) = k`, `perm (invp v) = v`. -/
theorem C16_rcm_perm (g : Adj) (hr : g.InRange) (hs : g.Sym) :
    (rcm g).nodes = g.nodes ∧ (rcm g).IsPerm g.nodes ∧
    ((List.range' 1 g.nodes).map fun k => (rcm g).perm[k]!).Perm (List.range' 1 g.nodes) :=
  ⟨rcm_nodes g, rcm_isPerm g hr hs, rcm_perm_list_perm g hr hs⟩

/-- the ordering of the graph of any well-formed sparse matrix is a permutation of its columns -/
theorem C16_rcm_perm_matrix {K : Type} (A : SMat K) (h : A.WF) :
    (rcm (graphOf A)).IsPerm A.cols := by
  have := rcm_isPerm (graphOf A) (graphOf_inRange A h) (graphOf_sym A h)
  rwa [graphOf_nodes] at this

/-- non-vacuity: path 1-2-3 plus the isolated node 4 (disconnected) -/
example : (rcm { nodes := 4, xadj := #[0,0,1,3,4,4], adjncy := #[2,1,3,2] }).perm = #[0,4,1,2,3] ∧
    (rcm { nodes := 4, xadj := #[0,0,1,3,4,4], adjncy := #[2,1,3,2] }).invp = #[0,2,3,4,1] := by
  decide +kernel

/-! ## Envelope: the profile covers the permuted normal matrix -/

/-- Structural form: whenever two columns share a row, the cell of the permuted normal matrix
    that their product goes to lies inside the profile of the larger new index — for the
    graph of the matrix and ANY valid ordering (in particular the RCM one). -/
theorem C16_profile_covers {K : Type} [Scalar K] (A : SMat K) (hA : A.WF) (o : SOrdering)
    (ho : o.IsPerm A.cols) {i j : Nat} (hj1 : 1 ≤ j) (hji : j < i) (hi : i ≤ A.cols)
    (hrow : ∃ r, 1 ≤ r ∧ r ≤ A.rows ∧ o.perm[i]! ∈ A.rowCols r ∧ o.perm[j]! ∈ A.rowCols r) :
    i - j ≤ (Env.ofSparse A (graphOf A) o).width i :=
  Env.profile_covers hA (graphOf_nodes A) (graphOf_adjOf A hA) ho hj1 hji hi hrow

/-- the storage produced by `Envelope::set` has a valid shape -/
theorem C16_profile_shape {K : Type} [Scalar K] (A : SMat K) (hA : A.WF) (o : SOrdering)
    (ho : o.IsPerm A.cols) (hpos : 0 < A.cols) :
    (Env.ofSparse A (graphOf A) o).ProfileOK ∧ (Env.ofSparse A (graphOf A) o).dim = A.cols :=
  ⟨Env.ofSparse_profileOK hA (graphOf_nodes A) (graphOf_adjOf A hA) ho hpos, Env.ofSparse_dim A _ o⟩

section field
variable {K : Type} [Field K] [LinearOrder K] (sq : K → K)

/-- Arithmetic form ("the packed accumulation loses nothing"): every entry of the packed
    storage — read as a symmetric matrix that is zero outside the profile — equals the entry
    of the dense `PᵀAᵀAP`; in particular `PᵀAᵀAP` vanishes outside the profile. -/
theorem C16_envelope_set_refines_dense (A : SMat K) (hA : A.WF)
    (o : SOrdering) (ho : o.IsPerm A.cols) {i j : Nat}
    (hi1 : 1 ≤ i) (hi : i ≤ A.cols) (hj1 : 1 ≤ j) (hj : j ≤ A.cols) :
    letI := ordFieldScalar K sq
    (Env.ofSparse A (graphOf A) o).entry i j = (Dense.normal A o.invp A.cols).get (i - 1) (j - 1) :=
  Env.ofSparse_entry sq hA (graphOf_nodes A) (graphOf_adjOf A hA) ho hi1 hi hj1 hj

theorem C16_profile_covers_dense (A : SMat K) (hA : A.WF)
    (o : SOrdering) (ho : o.IsPerm A.cols) {i j : Nat} (hj1 : 1 ≤ j) (hji : j < i) (hi : i ≤ A.cols)
    (hout : letI := ordFieldScalar K sq; (Env.ofSparse A (graphOf A) o).width i < i - j) :
    letI := ordFieldScalar K sq
    (Dense.normal A o.invp A.cols).get (i - 1) (j - 1) = 0 :=
  Env.profile_covers_dense sq hA (graphOf_nodes A) (graphOf_adjOf A hA) ho hj1 hji hi hout

end field

/-! ## Envelope: factorisation, solves and sparse inverse on the packed profile equal the dense ones -/

section ldl
variable {K : Type} [Field K] [LinearOrder K] [IsStrictOrderedRing K] (sq : K → K)

/-- the loop of `Envelope::cholDec` starts at the row the source says (regenerated from
    lib/gnu_gama/adj/envelope.h on every run): row 1, i.e. every pivot is tested -/
theorem C16_choldec_first_row : Gen.cholFirstRow = 1 := rfl

/-- Abstract form: if the packed storage `E` (valid shape) represents the lower triangle of a
    dense matrix `N`, then `cholDec(tol)` (`tol > 0`) leaves the shape untouched and its
    cells are the dense `LDLᵀ` factor of `N`: `L` inside the profile (and the dense `L` is zero
    outside: no fill), `D` including the EXACT zeros written on pivots with `|d| < tol`, and
    the same `defect` count. -/
theorem C16_choldec_refines_dense {E : Env K} (hE : E.ProfileOK) (N : Dense K) (tol : K)
    (htol : 0 < tol)
    (hN : ∀ i j, 1 ≤ j → j ≤ i → i ≤ E.dim →
      @Env.entry K (ordFieldScalar K sq) E i j = @Dense.get K (ordFieldScalar K sq) N (i - 1) (j - 1)) :
    letI := ordFieldScalar K sq
    ((E.cholDec tol).ProfileOK ∧ (E.cholDec tol).xenv = E.xenv) ∧
    (∀ i j, 1 ≤ j → j < i → i ≤ E.dim →
      (E.cholDec tol).entry i j = (Dense.ldl tol N E.dim).L.get (i - 1) (j - 1)) ∧
    (∀ i j, 1 ≤ j → j < i → i ≤ E.dim → (E.cholDec tol).width i < i - j →
      (Dense.ldl tol N E.dim).L.get (i - 1) (j - 1) = 0) ∧
    (∀ i, 1 ≤ i → i ≤ E.dim →
      (E.cholDec tol).diagonal i = (Dense.ldl tol N E.dim).D.getD (i - 1) 0) ∧
    (E.cholDec tol).defect = (Dense.ldl tol N E.dim).defect := by
  obtain ⟨h1, h2, h3, h4⟩ := EnvLDL.cholDec_refines_dense sq hE N tol htol hN
  obtain ⟨p1, p2, _⟩ := EnvLDL.cholDec_profileOK sq hE tol
  exact ⟨⟨p1, p2⟩, h1, fun i j hj hji hi hout => EnvLDL.RefinesWith.no_fill sq h4 i j hj hji hi hout,
         h2, h3⟩

/-- End to end, from the sparse design matrix: for EVERY well-formed `A` (a column index may be
    repeated inside a row — the values add up; NO columns and NO rows included), ANY valid ordering `o` (the RCM ordering is one, `C16_rcm_perm_matrix`) and
    `tol > 0`, with `E = Envelope(A, graph(A), o)`, `N = PᵀAᵀAP` dense,
    `F = E.cholDec(tol)`, `f = dense LDLᵀ of N`:
    * `F` holds `L` and `D` of `f` (exact zeros on dependent pivots), same `defect`;
    * `F.solve(b) = dense solve(b)` for every right-hand side (forward, diagonal with the
      zero-pivot rule `x := 0`, backward);
    * `inverse(F)` equals the dense recurrence `Z = D⁻¹L⁻¹ + (I − Lᵀ)Z` on every cell of the
      profile, zero rows on zero pivots included. -/
theorem C16_envelope_refines_dense (A : SMat K) (hA : A.WF)
    (o : SOrdering) (ho : o.IsPerm A.cols) (tol : K) (htol : 0 < tol) :
    letI := ordFieldScalar K sq
    let F := (Env.ofSparse A (graphOf A) o).cholDec tol
    let f := Dense.ldl tol (Dense.normal A o.invp A.cols) A.cols
    (∀ i j, 1 ≤ j → j < i → i ≤ A.cols → F.entry i j = f.L.get (i - 1) (j - 1)) ∧
    (∀ i, 1 ≤ i → i ≤ A.cols → F.diagonal i = f.D.getD (i - 1) 0) ∧
    F.defect = f.defect ∧
    (∀ b : Array K, b.size = A.cols → F.solve b A.cols = Dense.solve f A.cols b) ∧
    (∀ i j, 1 ≤ j → j ≤ i → i ≤ A.cols → i - j ≤ F.width i →
      F.inverse.entry i j = (Dense.inverse f A.cols).get (i - 1) (j - 1)) := by
  let _ : Scalar K := ordFieldScalar K sq
  intro F f
  by_cases hpos : 0 < A.cols
  swap
  · -- no columns: `Envelope::set` leaves the empty envelope, every loop has zero iterations
    have h0 : A.cols = 0 := by omega
    have hF : F = Env.empty := by
      show (Env.ofSparse A (graphOf A) o).cholDec tol = _
      rw [Env.ofSparse_zero A _ o h0]; rfl
    refine ⟨fun i j h1 h2 h3 => by omega, fun i h1 h2 => by omega, ?_, ?_, fun i j h1 h2 h3 => by omega⟩
    · show F.defect = (Dense.ldl tol (Dense.normal A o.invp A.cols) A.cols).defect
      rw [hF, h0]; rfl
    · intro b hb
      show F.solve b A.cols = Dense.solve (Dense.ldl tol (Dense.normal A o.invp A.cols) A.cols) A.cols b
      have hb0 : b = #[] := Array.eq_empty_of_size_eq_zero (by omega)
      rw [hF, h0, hb0]; rfl
  have hE := Env.ofSparse_profileOK hA (graphOf_nodes A) (graphOf_adjOf A hA) ho hpos
  have hdim : (Env.ofSparse A (graphOf A) o).dim = A.cols := Env.ofSparse_dim A _ o
  have hN : ∀ i j, 1 ≤ j → j ≤ i → i ≤ (Env.ofSparse A (graphOf A) o).dim →
      (Env.ofSparse A (graphOf A) o).entry i j =
        (Dense.normal A o.invp A.cols).get (i - 1) (j - 1) := by
    intro i j hj hji hi
    rw [hdim] at hi
    exact Env.ofSparse_entry sq hA (graphOf_nodes A) (graphOf_adjOf A hA) ho
      (by omega) hi hj (by omega)
  obtain ⟨h1, h2, h3, h4⟩ :=
    EnvLDL.cholDec_refines_dense sq hE (Dense.normal A o.invp A.cols) tol htol hN
  rw [hdim] at h1 h2 h3 h4
  exact ⟨h1, h2, h3, fun b hb => EnvLDL.solve_refines_dense sq h4 b hb,
         fun i j hj hji hi hp => EnvLDL.inverse_refines_dense sq h4 i j hj hji hi hp⟩

/-- non-vacuity: a 2×2 envelope over ℚ with full profile represents `[[4,2],[2,5]]` -/
example : EnvLDL.exE2.ProfileOK ∧ ∀ i j, 1 ≤ j → j ≤ i → i ≤ EnvLDL.exE2.dim →
    @Env.entry ℚ (ordFieldScalar ℚ id) EnvLDL.exE2 i j
      = @Dense.get ℚ (ordFieldScalar ℚ id) EnvLDL.exN2 (i - 1) (j - 1) :=
  ⟨EnvLDL.exE2_ok, EnvLDL.exE2_repr⟩

/-! ### the default tolerance `cholDec()` = `cholDec(0)` : `tol ≤ 0 → tol := sqrt(epsilon)` -/

omit [IsStrictOrderedRing K] in
/-- the branch as coded: a non-positive argument is replaced by `sqrt(2⁻⁵²)`, a positive one kept -/
theorem C16_effective_tolerance (tol : K) :
    letI := ordFieldScalar K sq
    Env.effTol tol = if tol ≤ 0 then sq (1 / ((2 ^ 52 : Nat) : K)) else tol := by
  rfl

/-- `cholDec` depends on its argument only through the effective tolerance -/
theorem C16_choldec_effective_tolerance (E : Env K) (tol : K)
    (h : 0 < @Env.effTol K (ordFieldScalar K sq) tol) :
    letI := ordFieldScalar K sq
    E.cholDec tol = E.cholDec (Env.effTol tol) := by
  show @Env.cholDecFrom K (ordFieldScalar K sq) _ E tol = @Env.cholDecFrom K (ordFieldScalar K sq) _ E _
  unfold Env.cholDecFrom
  rw [EnvLDL.effTol_of_pos sq _ h]

/-- End-to-end statement for ANY argument `tol` whose effective tolerance is positive — in
    particular for the default `tol = 0` whenever `sq (2⁻⁵²) > 0` (true for a square root):
    the dense reference is run at `effTol tol`. -/
theorem C16_envelope_refines_dense_any_tol (A : SMat K) (hA : A.WF)
    (o : SOrdering) (ho : o.IsPerm A.cols) (tol : K)
    (htol : 0 < tol ∨ (tol ≤ 0 ∧ 0 < sq (1 / ((2 ^ 52 : Nat) : K)))) :
    letI := ordFieldScalar K sq
    let F := (Env.ofSparse A (graphOf A) o).cholDec tol
    let f := Dense.ldl (Env.effTol tol) (Dense.normal A o.invp A.cols) A.cols
    0 < Env.effTol tol ∧
    (∀ i j, 1 ≤ j → j < i → i ≤ A.cols → F.entry i j = f.L.get (i - 1) (j - 1)) ∧
    (∀ i, 1 ≤ i → i ≤ A.cols → F.diagonal i = f.D.getD (i - 1) 0) ∧
    F.defect = f.defect ∧
    (∀ b : Array K, b.size = A.cols → F.solve b A.cols = Dense.solve f A.cols b) ∧
    (∀ i j, 1 ≤ j → j ≤ i → i ≤ A.cols → i - j ≤ F.width i →
      F.inverse.entry i j = (Dense.inverse f A.cols).get (i - 1) (j - 1)) := by
  let _ : Scalar K := ordFieldScalar K sq
  intro F f
  have he : 0 < @Env.effTol K (ordFieldScalar K sq) tol := by
    rw [C16_effective_tolerance sq tol]
    rcases htol with h | ⟨h1, h2⟩
    · rw [if_neg (not_le.mpr h)]; exact h
    · rw [if_pos h1]; exact h2
  refine ⟨he, ?_⟩
  have hF : F = (Env.ofSparse A (graphOf A) o).cholDec (Env.effTol tol) :=
    C16_choldec_effective_tolerance sq _ tol he
  rw [hF]
  exact C16_envelope_refines_dense sq A hA o ho (Env.effTol tol) he

/-- non-vacuity of the default-tolerance hypothesis: over ℚ with `sq := fun _ => 2⁻²⁶`
    (the exact value of `sqrt(2⁻⁵²)`) -/
example : (0 : ℚ) ≤ 0 ∧ 0 < (fun _ : ℚ => (1 : ℚ) / 2 ^ 26) (1 / ((2 ^ 52 : Nat) : ℚ)) := by
  norm_num

end ldl

/-! ## Matrices without columns / without rows

    `LocalNetwork` reaches both: a network without unknowns gives `cols = 0` (the graph has no node,
    `Envelope::set` leaves all pointers null), a network without observations gives `rows = 0`.
    `SparseMatrixGraph::connected()` wrote `tag(1)` past a one-cell array for `cols = 0` before fix
    fb9ac93; the model is the fixed code (`connected_zero`). -/

/-- **no columns** (any number of rows, all necessarily empty): nothing is stored; the transpose is the
    well-formed `0 × rows` matrix without entries; the graph has no node, `connected()` answers
    `false` (fix fb9ac93), the RCM ordering is the empty permutation; `Envelope::set` produces the empty
    envelope, on which `cholDec`, `solve` (dimension 0) and `inverse` do nothing — and the dense
    reference agrees (`defect = 0`, empty solution). -/
theorem C16_no_columns {K : Type} [Scalar K] (A : SMat K) (h : A.WF) (h0 : A.cols = 0)
    (o : SOrdering) (tol : K) (b : Array K) :
    let _ : Inhabited K := ⟨0⟩
    A.ncnt = 0 ∧
    (A.transpose.rows = 0 ∧ A.transpose.cols = A.rows ∧ A.transpose.ncnt = 0 ∧ A.transpose.WF) ∧
    ((graphOf A).nodes = 0 ∧ connected (graphOf A) = some false ∧ (rcm (graphOf A)).nodes = 0 ∧
      (rcm (graphOf A)).IsPerm 0) ∧
    (Env.ofSparse A (graphOf A) o = Env.empty ∧ (Env.empty : Env K).cholDec tol = Env.empty ∧
      (Env.empty : Env K).solve b 0 = b ∧ (Env.empty : Env K).inverse = Env.empty) ∧
    ((Dense.ldl tol (Dense.normal A o.invp 0) 0).defect = 0 ∧
      Dense.solve (Dense.ldl tol (Dense.normal A o.invp 0) 0) 0 b = #[]) := by
  let _ : Inhabited K := ⟨0⟩
  have hn := SMat.ncnt_zero_of_cols_zero A h h0
  have hg : (graphOf A).nodes = 0 := by rw [graphOf_nodes, h0]
  have hp := rcm_isPerm (graphOf A) (graphOf_inRange A h) (graphOf_sym A h)
  rw [hg] at hp
  exact ⟨hn, ⟨h0, rfl, hn, SMat.transpose_WF A h⟩,
    ⟨hg, connected_zero _ hg, by rw [rcm_nodes, hg], hp⟩,
    ⟨Env.ofSparse_zero A _ o h0, rfl, rfl, rfl⟩, rfl, rfl⟩

/-- the only statement that needs a column: a matrix without columns has no profile (the C++ leaves
    `xenv_`, `diag_`, `env_` null), so `ProfileOK` — `xenv.size = dim + 2` — is false for it -/
theorem C16_envelope_no_columns {K : Type} [Scalar K] (A : SMat K) (h0 : A.cols = 0) (g : Adj) (o : SOrdering) :
    Env.ofSparse A g o = Env.empty ∧ ¬ (Env.empty : Env K).ProfileOK ∧ (Env.empty : Env K).dim = 0 :=
  ⟨Env.ofSparse_zero A g o h0, fun hp => by have := hp.xenv_size; simp [Env.empty] at this, rfl⟩

/-- **no rows** (any number of columns): nothing is stored; the transpose has `cols` empty rows; the
    graph has `cols` isolated nodes, so it is connected exactly when there is ONE column; the RCM
    ordering is still a permutation of the columns. -/
theorem C16_no_rows {K : Type} [Inhabited K] (A : SMat K) (h : A.WF) (h0 : A.rows = 0) :
    A.ncnt = 0 ∧ A.toRows = [] ∧ A.entries = [] ∧
    (A.transpose.rows = A.cols ∧ A.transpose.ncnt = 0 ∧ A.transpose.WF ∧ A.transpose.entries = []) ∧
    (∀ i, 1 ≤ i → i ≤ A.cols → (graphOf A).nbrs i = []) ∧
    (connected (graphOf A) = some true ↔ A.cols = 1) ∧
    (rcm (graphOf A)).IsPerm A.cols := by
  have hn := SMat.ncnt_zero_of_rows_zero A h h0
  have hnb : ∀ i, 1 ≤ i → i ≤ A.cols → (graphOf A).nbrs i = [] := by
    intro i hi hi'
    rw [List.eq_nil_iff_forall_not_mem]
    intro j hj
    obtain ⟨_, r, hr1, hr2, _⟩ := (graphOf_nbrs_iff A h i j hi hi').mp hj
    omega
  have hte : A.transpose.entries = [] := by
    rw [List.eq_nil_iff_forall_not_mem]
    rintro ⟨i, j, a⟩ hm
    have := (SMat.mem_transpose_entries A h).mp hm
    have he : A.entries = [] := by simp [SMat.entries, h0]
    rw [he] at this; cases this
  have hperm := rcm_isPerm (graphOf A) (graphOf_inRange A h) (graphOf_sym A h)
  rw [graphOf_nodes] at hperm
  refine ⟨hn, by simp [SMat.toRows, h0], by simp [SMat.entries, h0],
    ⟨rfl, hn, SMat.transpose_WF A h, hte⟩, hnb, ?_, hperm⟩
  rw [C16_connected_matrix A h]
  constructor
  · rintro ⟨h1, hall⟩
    by_contra hne
    have h2 : 2 ≤ A.cols := by omega
    have hr := hall 2 (by omega) h2
    have := reach_of_no_edges (graphOf A) 1 (fun b hb => by
      have hb1 : b = 1 := by
        induction hb with
        | refl => rfl
        | step hab hc ih =>
          rw [ih, hnb 1 (Nat.le_refl 1) h1] at hc; cases hc
      rw [hb1]; exact hnb 1 (Nat.le_refl 1) h1) 2 hr
    omega
  · intro h1
    refine ⟨by omega, fun v hv1 hv2 => ?_⟩
    have : v = 1 := by omega
    rw [this]; exact Reach.refl 1

-- non-vacuity: a 2×0 matrix (two empty rows, no column) and a 0×3 matrix, built by the model's `build`
example : (SMat.build 0 2 0 ([[], []] : List (List (Nat × Int)))).WF ∧
    (SMat.build 0 2 0 ([[], []] : List (List (Nat × Int)))).cols = 0 ∧
    (SMat.build 0 2 0 ([[], []] : List (List (Nat × Int)))).transpose.rows = 0 ∧
    connected (graphOf (SMat.build 0 2 0 ([[], []] : List (List (Nat × Int))))) = some false :=
  ⟨SMat.build_WF 0 2 0 _ rfl (by decide) (by intro row hr e he; simp at hr; subst hr; cases he), rfl, rfl, by decide⟩
example : (SMat.build 0 0 3 ([] : List (List (Nat × Int)))).WF ∧
    (SMat.build 0 0 3 ([] : List (List (Nat × Int)))).rows = 0 ∧
    connected (graphOf (SMat.build 0 0 3 ([] : List (List (Nat × Int))))) = some false ∧
    connected (graphOf (SMat.build 0 0 1 ([] : List (List (Nat × Int))))) = some true :=
  ⟨SMat.build_WF 0 0 3 _ rfl (by decide) (by intro row hr; cases hr), rfl, by decide, by decide⟩

/-! ## The block-diagonal Cholesky equals the dense one block by block

`BlockDiagonal` (lib/gnu_gama/sparse/sbdiagonal.h) is modelled as ONE object (`Cov.BlockDiag`,
Model/BlockDiagonal.lean: the buffer `nonz_` and the tables `begin_`, `dim_`, `width_`); `cholDec` is
the pointer walk as coded, started at `begin(block)` for every block, with the early `return block`.
`bd.Holds Cs tail` says that the object stores exactly the blocks `Cs` (any number, any dims, any band
widths; `tail` = unused floats) — `add_block` establishes it (`Lemmas/CovBdBuild.lean`).  One block
alone (`Cov.bdCholBlock`) is C10's (`Lemmas/CovBd.lean`); what is proved here is the walk over the blocks
and the statements about the whole object. -/

section blockdiag
open Gama.Cov

/-- the walk over the blocks, for EVERY scalar type (so also for the `Float` and `Rat` runs compared
    with the C++): `cholDec` returns what the block-by-block model returns — the index of the first
    rejected block or 0 — and leaves an object holding exactly the block-by-block results; nothing
    outside `begin(block) … end(block)` is read or written while block `block` is factored, the blocks
    after a rejected one and the unused floats are untouched; shapes are preserved. -/
theorem C16_bd_choldec_walk {K : Type} [Scalar K] (tol : K) (bd : BlockDiag K) (Cs : List (CovMat K))
    (tail : List K) (h : bd.Holds Cs tail) (hwf : ∀ C ∈ Cs, C.WF) :
    (bd.cholDec tol).1 = (bdCholDec tol Cs).1 ∧
    (bd.cholDec tol).2.Holds (bdCholDec tol Cs).2 tail ∧
    List.Forall₂ Same Cs (bdCholDec tol Cs).2 :=
  BlockDiag.cholDec_blockwise tol bd Cs tail h hwf

/-- `BlockDiagonal(blcks, floats)`, `add_block`, `replicate()` build exactly the object the theorems
    above speak about: the empty object holds no block; a defined `add_block(d, w, mem)` (a table cell
    and `N = d(w+1) − w(w+1)/2` floats are left, `mem` has `N` elements) appends the block made of the
    first `N` elements of `mem` after the blocks already stored — tables `dim_`, `width_`, `begin_`
    (running sums of the `N`s), counters `ncnt_`, `size_` — and leaves everything stored before
    untouched; `replicate()` yields an object holding the same blocks with no spare floats (every
    `add_block` it issues is defined).  `Built` contains `Holds`. -/
theorem C16_bd_build {K : Type} (z : K) :
    (∀ blcks floats, (BlockDiag.init z blcks floats).Built [] (List.replicate floats z)) ∧
    (∀ (bd : BlockDiag K) Cs tail d w mem, bd.Built Cs tail → bd.canAddBlock d w mem = true →
      (bd.addBlock z d w mem).Built (Cs ++ [⟨d, w, mem.extract 0 (BlockDiag.blockFloats d w)⟩])
        (tail.drop (BlockDiag.blockFloats d w)) ∧
      (w ≤ d → (⟨d, w, mem.extract 0 (BlockDiag.blockFloats d w)⟩ : CovMat K).WF)) ∧
    (∀ (bd : BlockDiag K) Cs tail, bd.Built Cs tail → (∀ C ∈ Cs, C.WF) →
      (bd.replicate z).Built Cs [] ∧ (bd.replicate z).Holds Cs []) :=
  ⟨fun blcks floats => BlockDiag.built_init z blcks floats,
   fun _ _ _ d w mem h hc => ⟨BlockDiag.built_addBlock z d w mem h hc,
     fun hw => BlockDiag.addBlock_block_WF d w mem hc hw⟩,
   fun _ _ _ h hwf => ⟨BlockDiag.built_replicate z h hwf, (BlockDiag.built_replicate z h hwf).holds⟩⟩

/-- the row table of `UpperBlockDiagonal` (constructor loop as coded, including the cell that is
    written twice at every block boundary): row `i` of block `k` begins at the packed row start of
    that block inside the whole buffer and ends `min(width+1, dim−i+1)` elements later — for every
    number of blocks, dims and widths. -/
theorem C16_bd_upper_table {K : Type} (bd : BlockDiag K) (Cs : List (CovMat K)) (tail : List K)
    (h : bd.Holds Cs tail) (hwf : ∀ C ∈ Cs, C.WF) (hs : bd.size = (Cs.map (·.dim)).sum) :
    TabOK bd.upperTable Cs :=
  upperTable_ok bd Cs tail h hwf hs

/-- non-vacuity: `BlockDiagonal(2, 9)` + `add_block(2,1,…)` + `add_block(3,2,…)` is `Built`, so is its
    `replicate()`, and its row table is `0 2 | 2 3 | 3 6 | 6 8 | 8 9` -/
example : bbExBd.Built bbExCs [] ∧ (∀ C ∈ bbExCs, C.WF) ∧ bbExBd.upperTable = #[0, 0, 2, 3, 6, 8, 9] := by
  have h0 := BlockDiag.built_init (0 : Nat) 2 9
  have h1 := BlockDiag.built_addBlock 0 2 1 #[4, 2, 5] h0 (by decide)
  have h2 := BlockDiag.built_addBlock 0 3 2 #[4, 0, 2, 9, 3, 10] h1 (by decide)
  refine ⟨h2, ?_, by decide⟩
  intro C hC
  simp only [bbExCs, List.mem_cons, List.mem_nil_iff, or_false] at hC
  rcases hC with rfl | rfl <;> exact ⟨by decide, by decide⟩

variable {K : Type} [Field K] [LinearOrder K] [IsStrictOrderedRing K] [SqrtFn K]

/-- **`BlockDiagonal::cholDec` factors every block exactly as the dense banded Cholesky of that block.**
    Over an ordered field with `sqrt x · sqrt x = x`, `tol > 0`: the object left by `cholDec` holds blocks
    `Fs` such that every block before the returned index (every block when 0 is returned) is the result
    of the one-block kernel, is well formed with the shape of its `C`, has a positive diagonal,
    reproduces `C = UᵀU` on the whole upper triangle, has no fill outside the band, and coincides entry
    by entry with the factor of the dense code `Adj::choldec` (`CovMat::cholDec` + sqrt scaling)
    whenever that accepts the block; every block after the returned index is untouched. -/
theorem C16_bd_choldec_blockwise
    (hsq : ∀ x : K, 0 < x → SqrtFn.sq x * SqrtFn.sq x = x ∧ 0 < SqrtFn.sq x)
    (tol : K) (htol : 0 < tol) (bd : BlockDiag K) (Cs : List (CovMat K)) (tail : List K)
    (h : bd.Holds Cs tail) (hwf : ∀ C ∈ Cs, C.WF) :
    letI := Cov.fieldScalar K SqrtFn.sq
    ∃ Fs : List (CovMat K), (bd.cholDec tol).2.Holds Fs tail ∧ Fs.length = Cs.length ∧
      ∀ k (hk : k < Cs.length) (hk' : k < Fs.length),
        (((bd.cholDec tol).1 = 0 ∨ k + 1 < (bd.cholDec tol).1) →
          bdCholBlock tol (Cs[k]'hk) = .ok (Fs[k]'hk') ∧
          (Fs[k]'hk').WF ∧ (Fs[k]'hk').dim = (Cs[k]'hk).dim ∧ (Fs[k]'hk').band = (Cs[k]'hk).band ∧
          (∀ i, 1 ≤ i → i ≤ (Cs[k]'hk).dim → 0 < (Fs[k]'hk').get i i) ∧
          (∀ i j, 1 ≤ i → i ≤ j → j ≤ (Cs[k]'hk).dim →
            (Cs[k]'hk).get i j = ∑ r ∈ Finset.Icc 1 i, (Fs[k]'hk').get r i * (Fs[k]'hk').get r j) ∧
          (∀ i j, i ≤ j → j > i + (Cs[k]'hk).band → (Fs[k]'hk').get i j = 0) ∧
          (∀ U, adjCholdec (Cs[k]'hk) = .ok U →
            ∀ i j, 1 ≤ i → i ≤ j → j ≤ (Cs[k]'hk).dim → (Fs[k]'hk').get i j = U.get i j)) ∧
        ((bd.cholDec tol).1 ≠ 0 → (bd.cholDec tol).1 < k + 1 → Fs[k]'hk' = Cs[k]'hk) :=
  bd_choldec_blockwise hsq tol htol bd Cs tail h hwf

/-- **the return value**: 0 iff every block has a Cholesky factor all of whose squared pivots reach the
    tolerance; `b ≠ 0` iff `b` is the FIRST block whose exact Cholesky pivots do not all reach the
    tolerance (the block has no factor with positive diagonal at all, or its unique factor has a
    squared pivot `< tol`) — all earlier blocks do. -/
theorem C16_bd_rejects_iff
    (hsq : ∀ x : K, 0 < x → SqrtFn.sq x * SqrtFn.sq x = x ∧ 0 < SqrtFn.sq x)
    (tol : K) (htol : 0 < tol) (bd : BlockDiag K) (Cs : List (CovMat K)) (tail : List K)
    (h : bd.Holds Cs tail) (hwf : ∀ C ∈ Cs, C.WF) :
    letI := Cov.fieldScalar K SqrtFn.sq
    ((bd.cholDec tol).1 = 0 ↔
      ∀ k (hk : k < Cs.length), ∃ U, IsCholOf (Cs[k]'hk) U ∧
        ∀ i, 1 ≤ i → i ≤ (Cs[k]'hk).dim → tol ≤ U i i * U i i) ∧
    (∀ b, b ≠ 0 →
      ((bd.cholDec tol).1 = b ↔
        ∃ (hlt : b - 1 < Cs.length),
          (∀ k (hk : k < b - 1), ∃ U, IsCholOf (Cs[k]'(by omega)) U ∧
            ∀ i, 1 ≤ i → i ≤ (Cs[k]'(by omega)).dim → tol ≤ U i i * U i i) ∧
          (∀ U, IsCholOf (Cs[b - 1]'hlt) U →
            ∃ i, 1 ≤ i ∧ i ≤ (Cs[b - 1]'hlt).dim ∧ U i i * U i i < tol))) :=
  ⟨bd_ret_zero_iff hsq tol htol bd Cs tail h hwf,
   fun b hb => bd_rejects_iff hsq tol htol bd Cs tail h hwf b hb⟩

/-- non-vacuity: the object `BlockDiagonal(2,4)` with the blocks `[9]` and `[[4,2],[2,5]]` over ℝ
    (`Real.sqrt`) satisfies the hypotheses; with `tol = 1/100` `cholDec` returns 0, with `tol = 5` it
    returns 2 (the first block's pivot 9 reaches 5, the second block's first pivot 4 does not). -/
example : exBd.Holds exCs [] ∧ (∀ C ∈ exCs, C.WF) ∧
    (∀ x : ℝ, 0 < x → Real.sqrt x * Real.sqrt x = x ∧ 0 < Real.sqrt x) ∧
    (letI := Cov.fieldScalar ℝ Real.sqrt; (exBd.cholDec (1 / 100 : ℝ)).1 = 0) ∧
    (letI := Cov.fieldScalar ℝ Real.sqrt; (exBd.cholDec (5 : ℝ)).1 = 2) :=
  ⟨exBd_holds, exCs_wf, fun _ hx => ⟨Real.mul_self_sqrt hx.le, Real.sqrt_pos.mpr hx⟩,
   exBd_accepts, exBd_rejects⟩

end blockdiag

end Gama.Props.C16
