/-
  C02 — The four algorithms give the same adjustment.

  Three layers.
  (1) Specification: any two answers that are least-squares solutions (`Gama.LS.IsLSSolution`) of the
      same problem `(A, b, P)` with the same regularisation subset `S` that resolves the defect
      coincide in x, v, vᵀPv and A x; any two generalised inverses of `N = AᵀPA` give the same
      `A Q Aᵀ` (cofactors of the adjusted observations).  Stated for arbitrary answers, so it applies
      to every pair of the four solver models as soon as their `C01_<alg>` theorems
      (`IsLSSolution` of the model's answer) exist; instantiated below for the pairs whose theorems
      exist today.
  (2) Refusal: if each solver model throws `BadRegularization` exactly on the subsets that do not
      resolve the defect (`C02_refusal_<alg>`), all of them refuse exactly the same inputs.
  (3) Decision layer: `Gama.NetDecision` (null_space point removal, huge-covariance loop, verdict of
      GeneralParameters) reads the solver only through its decision data (`View.abs`: unknown→point
      map, counts, defect, flagged unknowns, outcome of the huge-covariance tests, throw/no-throw):
      equal decision data ⇒ equal removed points and verdicts (`C02_decision_agnostic`).  The
      premise can fail: WHICH unknowns are flagged depends on the processing order of the algorithm
      (`C02_flags_differ_env/_chol`, evaluated on the envelope and Cholesky models) and then different points
      are removed (`C02_flags_differ_removed`) — finding F7.
-/
import Gama.Lemmas.LS
import Gama.Model.NetDecision
import Gama.Lemmas.Ls.CholExample
import Gama.Model.Ls.Env
import Gama.Lemmas.Ls.EnvLindep
namespace Gama.Props.C02
open Gama Gama.Ls Gama.Ls.Env Gama.LS Gama.NetDecision Matrix

set_option linter.unusedSectionVars false

section Spec
variable {𝕜 : Type*} [Field 𝕜] [LinearOrder 𝕜] [IsStrictOrderedRing 𝕜]
variable {m n : Type*} [Fintype m] [Fintype n] [DecidableEq m] [DecidableEq n]

/-- **C02 (same adjustment)**: two least-squares solutions of the same problem, regularised over
    the same subset `S` that resolves the defect, have the same unknowns, residuals, sum of
    squares and adjusted observations -/
theorem C02_same_solution {A : Matrix m n 𝕜} {b : m → 𝕜} {P : Matrix m m 𝕜} {S : Finset n}
    {x x' : n → 𝕜} {v v' : m → 𝕜} {rtr rtr' : 𝕜}
    (h : IsLSSolution A b P S x v rtr) (h' : IsLSSolution A b P S x' v' rtr')
    (hpd : ∀ d, d ≠ 0 → 0 < d ⬝ᵥ P *ᵥ d) (hS : Resolves A S) :
    x = x' ∧ v = v' ∧ rtr = rtr' ∧ A *ᵥ x = A *ᵥ x' := by
  obtain ⟨hx, hv, hr⟩ := h.unique h' hpd hS
  exact ⟨hx, hv, hr, by rw [hx]⟩

/-- even when the two algorithms were configured with DIFFERENT subsets (or the subset does not
    matter because the defect is zero) residuals, sum of squares and adjusted observations agree -/
theorem C02_same_residuals {A : Matrix m n 𝕜} {b : m → 𝕜} {P : Matrix m m 𝕜} {S S' : Finset n}
    {x x' : n → 𝕜} {v v' : m → 𝕜} {rtr rtr' : 𝕜}
    (h : IsLSSolution A b P S x v rtr) (h' : IsLSSolution A b P S' x' v' rtr')
    (hpd : ∀ d, d ≠ 0 → 0 < d ⬝ᵥ P *ᵥ d) :
    v = v' ∧ rtr = rtr' ∧ A *ᵥ x = A *ᵥ x' :=
  ⟨h.residuals_eq h' hpd, h.rtr_eq_rtr h' hpd, h.adjusted_obs_eq h' hpd⟩

/-- **C02 (same cofactors of adjusted observations)**: whatever generalised inverse of the normal
    matrix an algorithm reports (C03: `N Q N = N`), `A Q Aᵀ` is the same matrix -/
theorem C02_same_adjusted_cofactors {A : Matrix m n 𝕜} {P : Matrix m m 𝕜} {Q₁ Q₂ : Matrix n n 𝕜}
    (hP : Pᵀ = P) (hpd : ∀ d, d ≠ 0 → 0 < d ⬝ᵥ P *ᵥ d)
    (hQ₁ : (Aᵀ * P * A) * Q₁ * (Aᵀ * P * A) = Aᵀ * P * A)
    (hQ₂ : (Aᵀ * P * A) * Q₂ * (Aᵀ * P * A) = Aᵀ * P * A) :
    A * Q₁ * Aᵀ = A * Q₂ * Aᵀ :=
  aqat_invariant hP hpd hQ₁ hQ₂

/-- non-vacuity of `C02_same_solution`: a rank-deficient 2×2 problem over ℚ (A = [1 1; 0 0],
    S = {first unknown} resolves the defect) with its least-squares solution x = (0, 1) -/
example : ∃ (A : Matrix (Fin 2) (Fin 2) ℚ) (b : Fin 2 → ℚ) (S : Finset (Fin 2)) (x : Fin 2 → ℚ) (v : Fin 2 → ℚ) (r : ℚ),
    IsLSSolution A b 1 S x v r ∧ Resolves A S ∧ ¬ (∀ g, A *ᵥ g = 0 → g = 0) := by
  refine ⟨!![1, 1; 0, 0], ![1, 1], {0}, ![0, 1], ![0, -1], 1, ⟨?_, ?_, ?_, ?_⟩, ?_, ?_⟩
  · ext i; fin_cases i <;> simp [Matrix.mulVec, dotProduct, Fin.sum_univ_two]
  · ext i; fin_cases i <;> simp [Matrix.mulVec, dotProduct, Fin.sum_univ_two]
  · simp [Matrix.mulVec, dotProduct, Fin.sum_univ_two]
  · intro g hg
    have h0 := congrFun hg 0
    simp [Matrix.mulVec, dotProduct, Fin.sum_univ_two] at h0 ⊢
  · intro g hg hS
    have h0 := congrFun hg 0
    have hg0 : g 0 = 0 := hS 0 (by simp)
    simp [Matrix.mulVec, dotProduct, Fin.sum_univ_two, hg0] at h0
    ext i; fin_cases i <;> simp [hg0, h0]
  · intro h
    have := h ![1, -1] (by ext i; fin_cases i <;> simp [Matrix.mulVec, dotProduct, Fin.sum_univ_two])
    have h1 := congrFun this 0
    simp at h1

end Spec

-- ------------------------------------------------------------------ refusal

/-- **C02 (same refusals)**: if every solver refuses (throws `BadRegularization`) exactly the
    problems whose regularisation subset does not resolve the defect — the statement
    `C02_refusal_<alg>` of each solver model — then any two of them refuse exactly the same
    problems, and on a problem one of them answers, none refuses -/
theorem C02_refusal_agree {Prob Ans : Type} (Res : Prob → Prop) (solve : Fin 4 → Prob → Except ErrKind Ans)
    (hspec : ∀ k p, solve k p = .error .BadRegularization ↔ ¬ Res p) (i j : Fin 4) (p : Prob) :
    (solve i p = .error .BadRegularization ↔ solve j p = .error .BadRegularization)
      ∧ ((∃ a, solve i p = .ok a) → solve j p ≠ .error .BadRegularization) := by
  refine ⟨by rw [hspec i p, hspec j p], ?_⟩
  rintro ⟨a, ha⟩ hj
  have hn : ¬ Res p := (hspec j p).1 hj
  have hi : solve i p = .error .BadRegularization := (hspec i p).2 hn
  rw [ha] at hi
  cases hi

-- ------------------------------------------------------------------ decision layer

/-- **C02 (the decision layer is algorithm-agnostic)**: `NetDecision.decide` depends on the solver
    only through the decision data of its answers (unknown→point map, counts, defect, flagged
    unknowns, outcome of the huge-covariance tests incl. a thrown error, throw/no-throw of the
    residual queries).  Two solvers (worlds) with equal decision data on every configuration lead
    to the same removed points — in the same order, with the same reasons — and the same verdict
    and exit status.  Holds for every network size and every scalar type. -/
theorem C02_decision_agnostic {K K' : Type} [Scalar K] [Scalar K'] (m0 : K) (m0' : K') (W : World K) (W' : World K')
    (h : ∀ net, (W net).net = (W' net).net ∧ (W net).rm = (W' net).rm ∧ (W net).view.abs m0 = (W' net).view.abs m0')
    (net : Net) :
    NetDecision.decide m0 W net = NetDecision.decide m0' W' net := by
  have : W.abs m0 = W'.abs m0' := by
    funext n
    obtain ⟨h1, h2, h3⟩ := h n
    simp only [World.abs, h1, h2, h3]
  simp only [NetDecision.decide, this]

/-- the flags are read as a set of indices: two `lindep` functions that agree on `1..n` give the
    same decision data -/
theorem C02_flagged_of_agree (n : Nat) (f g : Nat → Bool) (h : ∀ i, 1 ≤ i → i ≤ n → f i = g i) :
    flaggedOf n f = flaggedOf n g := by
  unfold flaggedOf
  apply List.filterMap_congr
  intro i hi
  have : i < n := List.mem_range.1 hi
  rw [h (i + 1) (by omega) (by omega)]

/-- the 4-point levelling loop (rows h2−h1, h3−h2, h4−h3, h1−h4; defect 1) as the envelope model sees it;
    `loopOrd` is the reverse Cuthill–McKee ordering the model of the code computes for it
    (`#eval rcmOrd 4 #[[1,2],[2,3],[3,4],[1,4]]`; the real solver's flags agree: corpus/C02/flags-differ-loop4.ops) -/
def loopA : DMat Rat := #[#[-1, 1, 0, 0], #[0, -1, 1, 0], #[0, 0, -1, 1], #[1, 0, 0, -1]]
def loopB : Array Rat := #[1, 2, 1, -3]
def loopOrd : EnvOrd := ⟨#[0, 3, 1, 2], #[0, 2, 3, 1]⟩

/-- **C02_flags_differ** (finding F7, the premise of `C02_decision_agnostic` can fail): on the 4-point
    levelling loop — defect 1, all unknowns regularised, so the problem is well posed and every
    algorithm answers with the same x — the envelope model flags unknown 3 (last in its ordering) -/
theorem C02_flags_differ_env :
    (List.range 4).map (fun i => ((envCore (1/2) (1/2) 4 4 loopA loopB loopA loopB .all loopOrd).lindepFixed (i + 1)).toOption)
      = [some false, some false, some true, some false]
    ∧ (envCore (1/2) (1/2) 4 4 loopA loopB loopA loopB .all loopOrd).defect = 1 := by decide +kernel

open Gama.Ls.Ex in
attribute [local instance 2000] scalarOfField in
/-- … while the Cholesky model (`Ex.pSing4 .all` is the same problem) flags unknown 4 (its last
    pivot).  Both are right — each flagged column depends on the columns processed before it in that
    algorithm's order — but they name different unknowns.  (Real code: envelope 3, cholesky 4, gso 4,
    svd "3" = index of the null singular value.)  Kernel evaluation of the models over ℚ. -/
theorem C02_flags_differ_chol :
    (cholSolve (pSing4 .all)).toOption.map (fun a => ((List.range 4).map fun i => (a.lindep (i + 1)).toOption, a.defect))
      = some ([some false, some false, some false, some true], 1) := by decide +kernel

/-- the levelling loop as a network: four free heights, nothing constrained; the solver refuses
    (no subset to regularise over), flags one unknown, and answers once a point is gone -/
def loopNet : Net := [⟨"H1", .unused, .free⟩, ⟨"H2", .unused, .free⟩, ⟨"H3", .unused, .free⟩, ⟨"H4", .unused, .free⟩]

/-- world of the levelling loop for an algorithm that flags unknown `k` while all four heights are
    in: refusal on the full loop (defect 1, nothing constrained), regular once a point is removed -/
def loopWorld (k : Nat) : WorldA := fun net =>
  let us : List Unknown := (net.filter fun P => P.z.active).map fun P => ⟨P.id, .Z⟩
  let full := us.length == 4
  { net := net, rm := []
    abs := { unknowns := us, nObs := if full then 4 else us.length - 1 + 1, nPts := us.length
             defect := if full then 1 else 0
             flagged := if full then [k] else []
             huge := fun _ => if full then .error .BadRegularization else .ok none
             resid := if full then .error .BadRegularization else .ok () } }

/-- **consequence of `C02_flags_differ_env/_chol`**: with the flags of the envelope model (unknown 3) the
    decision layer removes point H3, with those of the Cholesky model (unknown 4) point H4 —
    the removed points differ although both solvers are right (same verdict, same defect) -/
theorem C02_flags_differ_removed :
    decideA (loopWorld 3) loopNet = ([("H3", .missing_z)], .adjusted 0)
    ∧ decideA (loopWorld 4) loopNet = ([("H4", .missing_z)], .adjusted 0) := by
  constructor <;> decide +kernel

/-- non-vacuity of `C02_decision_agnostic`: two different concrete worlds (`lindep` differs outside
    `1..n`, where the C++ never asks) with equal decision data -/
example : ∃ (W W' : World Rat) (net : Net), (∃ n i, (W n).view.lindep i ≠ (W' n).view.lindep i)
    ∧ (∀ n, (W n).net = (W' n).net ∧ (W n).rm = (W' n).rm ∧ (W n).view.abs (10 : Rat) = (W' n).view.abs (10 : Rat))
    ∧ NetDecision.decide (10 : Rat) W net = ([], .adjusted 0) := by
  let mk (extra : Bool) : World Rat := fun net =>
    { net := net, rm := []
      view := { unknowns := [⟨"A", .Z⟩], nObs := 2, nPts := 1, defect := 0
                lindep := fun i => extra && i == 7, qxx := fun _ => .ok 1, resid := .ok () } }
  refine ⟨mk false, mk true, [⟨"A", .unused, .free⟩], ⟨[], 7, by decide⟩, ?_, by decide +kernel⟩
  intro n
  exact ⟨rfl, rfl, rfl⟩

end Gama.Props.C02
