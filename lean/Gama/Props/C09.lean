/-
  C09 — Reported statistics are consistent with the adjustment they describe.

  Property theorems only.  The reference model is `Gama/Model/Stats.lean` (every formula as
  LocalNetwork codes it); `Gama/Gen/StatsGen.lean` is regenerated from the C++ text on every
  run and the `gen_*` theorems below say that the regenerated text *is* the reference model,
  so that a changed formula in the source breaks a proof here.  All other theorems are over ℝ
  (`Scalar ℝ`, `StatsTrig ℝ` of `Lemmas/StatsReal.lean`: `sqrt = Real.sqrt`,
  `atan2 y x = Complex.arg (x + y i)`), never about `Float`.
  `Props/C09Solvers.lean` applies these formulas to what the solver models return (C01/C03/C20), to the LS
  layer (dof = m − rank A, σ_apr scaling from LS9) and to C17's coefficient functions (half-widths).

  Names of quantities: `phi` = v'Pv, `dof` = degrees of freedom, `sapr` = a priori reference
  standard deviation σ_apr, `m` = the actual reference standard deviation m0,
  `qxx`/`cxx,cxy,cyy` = cofactors of unknowns, `qbb` = cofactor of the adjusted *homogenised*
  observation (diagonal of the projector A Q Aᵀ), `stdev` = the observation's own a priori
  standard deviation, `w = p = (sapr/stdev)²` its weight.
-/
import Gama.Gen.StatsGen
import Gama.Lemmas.StatsReal
namespace Gama.Props.C09
open Gama Gama.Stats Real

/-! ## tie: the regenerated formulas are the reference model -/

theorem gen_dof (rows cols defect : Int) :
    StatsGen.degreesOfFreedom rows cols defect = degreesOfFreedom rows cols defect := rfl

theorem gen_m0 {K : Type} [Scalar K] (act : SigmaAct) (sapr phi : K) (dof : Int) :
    StatsGen.m0 act sapr phi dof = .ok (m0 act sapr phi dof) := by
  cases act
  · rfl
  · by_cases h : dof > 0 <;> simp [StatsGen.m0, m0, h]

theorem gen_m0Aposteriori {K : Type} [Scalar K] (phi : K) (dof : Int) :
    StatsGen.m0Aposteriori phi dof = m0Aposteriori phi dof := rfl

theorem gen_confIntCoef {K : Type} [Scalar K] (normal : K → K) (student : K → Int → K)
    (act : SigmaAct) (confPr : K) (dof : Int) :
    StatsGen.confIntCoef normal student act confPr dof
      = .ok (confIntCoef normal student act confPr dof) := by
  cases act
  · rfl
  · by_cases h : dof > 0 <;> simp [StatsGen.confIntCoef, confIntCoef, h]

theorem gen_confPrAccepted {K : Type} [Scalar K] (p : K) :
    StatsGen.confPrAccepted p = confPrAccepted p := rfl

theorem gen_unknownStdev {K : Type} [Scalar K] (m q : K) :
    StatsGen.unknownStdev m q = unknownStdev m q := rfl

theorem gen_weightObs {K : Type} [Scalar K] (sapr stdev : K) :
    StatsGen.weightObs sapr stdev = weightObs sapr stdev := rfl

theorem gen_sigmaL {K : Type} [Scalar K] (m sapr qbb stdev : K) :
    StatsGen.sigmaL m sapr qbb stdev = sigmaL m sapr qbb stdev := rfl

theorem gen_wcoefRes {K : Type} [Scalar K] (qbb w : K) :
    StatsGen.wcoefRes qbb w = wcoefRes qbb w := rfl

theorem gen_stdevRes {K : Type} [Scalar K] (m qvv : K) :
    StatsGen.stdevRes m qvv = stdevRes m qvv := rfl

theorem gen_studentizedResidual {K : Type} [Scalar K] (sres r : K) :
    StatsGen.studentizedResidual sres r = studentizedResidual sres r := rfl

theorem gen_obsControl {K : Type} [Scalar K] (qbb : K) :
    StatsGen.obsControl qbb = obsControl qbb := rfl

theorem gen_stdErrorEllipse {K : Type} [Scalar K] [StatsTrig K] (cyy cyx cxx m : K) :
    StatsGen.stdErrorEllipse cyy cyx cxx m = stdErrorEllipse cyy cyx cxx m := rfl

theorem gen_covEntry {K : Type} [Scalar K] (m q : K) :
    StatsGen.covEntry m q = covEntry m q := rfl

theorem gen_xmlAposteriori {K : Type} [Scalar K] (phi : K) (dof : Int) :
    StatsGen.xmlAposteriori phi dof = xmlAposteriori phi dof := rfl

theorem gen_xmlRatio {K : Type} [Scalar K] (phi sapr : K) (dof : Int) :
    StatsGen.xmlRatio phi sapr dof = xmlRatio phi sapr dof := rfl

theorem gen_errObsAdj {K : Type} [Scalar K] (v qvv w : K) :
    StatsGen.errObsAdj v qvv w = errObsAdj v qvv w := rfl

theorem gen_confHalfWidth {K : Type} [Scalar K] (sd kki : K) :
    StatsGen.confHalfWidth sd kki = confHalfWidth sd kki := rfl

/-- every place where the text writers use `kki = IS->conf_int_coef()` prints `<m>*kki` where `<m>` was read
    from `unknown_stdev(..)` or `stdev_obs(..)` (possibly converted to the angular output unit) — the
    regenerated site table; a site that multiplies anything else, or uses `kki` in another way, stops the
    translator or this proof -/
theorem gen_halfWidthSites :
    StatsGen.halfWidthSites ≠ [] ∧
    ∀ s ∈ StatsGen.halfWidthSites,
      (s.1 = "adjusted_unknowns.h" ∧ s.2.2.1 = "unknown_stdev") ∨
      (s.1 = "adjusted_observations.h" ∧ s.2.2.1 = "stdev_obs") := by
  decide

/-- `stdev_obs(i)` / `wcoef_res(i)` only read the vectors `sigma_L` / `vahkopr` that `vyrovnani_` fills with
    the formulas `sigmaL` / `wcoefRes` -/
theorem gen_accessorReads :
    StatsGen.accessorReads = [("stdev_obs", "sigma_L"), ("wcoef_res", "vahkopr")] := rfl

/-! ## degrees of freedom -/

/- `C09_dof` (the reported number is the redundancy `m − rank A` = `m − n + dim ker A` = `Σ (1 − q_bb(i,i))` of
   what the solver models return) is in `Props/C09Solvers.lean`; the coded expression
   `A.rows() − A.cols() + defect()` is `gen_dof`. -/

/-- with the solver's defect = unknowns − rank A (C01/C20 defect theorem, LS10) the reported
    number is the redundancy m − rank A -/
theorem C09_dof_rank (rows cols defect rank : Int) (hdef : defect = cols - rank) :
    degreesOfFreedom rows cols defect = rows - rank := by
  unfold degreesOfFreedom; omega

/-! ## reference standard deviation -/

/-- a posteriori: m0² · dof = v'Pv (both accessors, and the value the XML writer prints) -/
theorem C09_m0 (sapr phi : ℝ) (dof : ℤ) (hd : 0 < dof) (hphi : 0 ≤ phi) :
    m0 .aposteriori sapr phi dof ^ 2 * (dof : ℝ) = phi ∧
    m0Aposteriori phi dof ^ 2 * (dof : ℝ) = phi ∧
    xmlAposteriori phi dof = m0Aposteriori phi dof :=
  ⟨(m0_apost_sq phi dof hd hphi).1, (m0_apost_sq phi dof hd hphi).2, rfl⟩

/-- selection: a priori mode returns σ_apr unchanged; with no redundancy the a posteriori
    value is the literal 0 (no division by zero) -/
theorem C09_m0_select (sapr phi : ℝ) (dof : ℤ) :
    m0 .apriori sapr phi dof = sapr ∧
    (dof ≤ 0 → m0 .aposteriori sapr phi dof = 0 ∧ m0Aposteriori phi dof = 0) ∧
    (0 < dof → m0 .aposteriori sapr phi dof = m0Aposteriori phi dof) := by
  refine ⟨rfl, fun h => ?_, fun h => ?_⟩
  · have : ¬ (dof > 0) := by omega
    simp [m0, m0Aposteriori, this]
  · simp [m0, m0Aposteriori, h]

/-! ## standard deviations -/

/-- unknowns: σ_x² = m0² · q_xx;  adjusted observations: σ_L² = m0² · q_L where
    q_L = q_bb · stdev² / σ_apr² = q_bb / p is the cofactor of the adjusted observation in its
    own units (q_bb is the cofactor in the homogenised system, whose rows were divided by
    stdev/σ_apr);  `<cov-mat>` entries are m0² · q -/
theorem C09_sigma (m sapr q qbb stdev : ℝ) (hq : 0 ≤ q) (hqbb : 0 ≤ qbb) (hs : sapr ≠ 0)
    (hst : stdev ≠ 0) :
    unknownStdev m q ^ 2 = m ^ 2 * q ∧
    sigmaL m sapr qbb stdev ^ 2 = m ^ 2 * (qbb * stdev ^ 2 / sapr ^ 2) ∧
    qbb * stdev ^ 2 / sapr ^ 2 = qbb / weightObs sapr stdev ∧
    (∀ qij : ℝ, covEntry m qij = m ^ 2 * qij) := by
  refine ⟨unknownStdev_sq m q hq, sigmaL_sq m sapr qbb stdev hqbb hs, ?_, fun qij => ?_⟩
  · rw [weightObs_eq]; field_simp
  · simp only [covEntry]; ring

/-- PARTIAL.  The C++ uses the same formula for clusters with a non-diagonal covariance
    matrix (the branch is commented out with `???  calculation for correlated observations
    missing !!!`).  There q_bb(n,n)·stdev²/σ_apr² is *not* the cofactor of the adjusted
    observation (that is (L Π Lᵀ)_nn for the Cholesky factor L of the cluster's cofactor
    block, which equals l_nn² Π_nn only when row n of L is diagonal), so the full statement
    "σ_L² = m0² · cofactor of the adjusted observation" is proved for uncorrelated
    observations only (`C09_sigma`).  What the code computes is characterised here; the
    deviation on correlated input is exhibited by the oracle (finding C09-F1, report). -/
theorem C09_sigmaL_correlated_partial (m sapr qbb stdev : ℝ) (hqbb : 0 ≤ qbb) (hs : sapr ≠ 0) :
    sigmaL m sapr qbb stdev ^ 2 = m ^ 2 * (qbb * stdev ^ 2 / sapr ^ 2) :=
  sigmaL_sq m sapr qbb stdev hqbb hs

/-- witness that the coded formula is not the cofactor of the adjusted observation for a
    correlated cluster: cofactor block C = L Lᵀ with L = [[1,0],[1,1]] (so c₂₂ = 2,
    stdev₂ = √2 for σ_apr = 1), homogenised projector Π = ½·[[1,1],[1,1]], m0 = 1.
    True variance of the second adjusted observation: (L Π Lᵀ)₂₂ = Σ l₂ⱼ Π_jk l₂ₖ = 2;
    the code reports Π₂₂·c₂₂ = 1.  (Replayed on gama-local: corpus/C09/f1-correlated-coords.json.) -/
theorem C09_sigmaL_correlated_violated :
    sigmaL (1:ℝ) 1 (1 / 2) (√2) ^ 2
      ≠ 1 ^ 2 * ((1:ℝ) * (1 / 2) * 1 + 1 * (1 / 2) * 1 + 1 * (1 / 2) * 1 + 1 * (1 / 2) * 1) := by
  rw [sigmaL_sq 1 1 (1 / 2) (√2) (by norm_num) (by norm_num), Real.sq_sqrt (by norm_num)]
  norm_num

/-- residuals: stdev_res² = m0² · |q_vv|; the studentized residual is r / stdev_res when that
    is positive and the literal 0 otherwise -/
theorem C09_residual (m qvv r : ℝ) :
    stdevRes m qvv ^ 2 = m ^ 2 * |qvv| ∧
    (0 < stdevRes m qvv → studentizedResidual (stdevRes m qvv) r = r / stdevRes m qvv) ∧
    (stdevRes m qvv ≤ 0 → studentizedResidual (stdevRes m qvv) r = 0) := by
  refine ⟨?_, fun h => ?_, fun h => ?_⟩
  · simp only [stdevRes, sqrt_real, abs_real]
    rw [mul_pow, Real.sq_sqrt (abs_nonneg qvv)]
  · simp only [studentizedResidual]; rw [if_pos h]
  · simp only [studentizedResidual]; rw [if_neg (not_lt.mpr h)]

/-! ## residual cofactors of uncorrelated observations -/

/-- q_vv = 1/p − q_L with q_L = q_bb/p, whenever that value is ≥ 0 -/
theorem C09_qvv_uncorrelated (sapr stdev qbb : ℝ)
    (h : 0 ≤ 1 / weightObs sapr stdev - qbb / weightObs sapr stdev) :
    wcoefRes qbb (weightObs sapr stdev)
      = 1 / weightObs sapr stdev - qbb / weightObs sapr stdev ∧
    weightObs sapr stdev = (sapr / stdev) ^ 2 :=
  ⟨wcoefRes_of_nonneg _ _ h, weightObs_eq _ _⟩

/-- the stated exception ("removing noise"): a negative value is reported as 0 -/
theorem C09_qvv_clamp (qbb w : ℝ) (h : 1 / w - qbb / w < 0) : wcoefRes qbb w = 0 :=
  wcoefRes_of_neg qbb w h

/-! ## confidence coefficient -/

/-- Normal for the a priori, Student with `dof` degrees of freedom for the a posteriori
    reference deviation, both at (1 − conf_pr)/2; 0 without redundancy.  (The VALUES of
    `normal`/`student` are C17's subject; half-widths are printed as σ · coefficient by the
    text writers.) -/
theorem C09_conf_select (normal : ℝ → ℝ) (student : ℝ → ℤ → ℝ) (p : ℝ) (dof : ℤ) :
    confIntCoef normal student .apriori p dof = normal ((1 - p) / 2) ∧
    (0 < dof → confIntCoef normal student .aposteriori p dof = student ((1 - p) / 2) dof) ∧
    (dof ≤ 0 → confIntCoef normal student .aposteriori p dof = 0) := by
  refine ⟨?_, fun h => ?_, fun h => ?_⟩
  · simp [confIntCoef]
  · simp [confIntCoef, h]
  · have : ¬ (dof > 0) := by omega
    simp [confIntCoef, this]

/-- `conf_pr` is stored exactly for 0 < p < 1 -/
theorem C09_conf_pr_guard (p : ℝ) : confPrAccepted p = true ↔ (0 < p ∧ p < 1) := by
  simp only [confPrAccepted]
  constructor
  · intro h
    simp only [Bool.not_eq_true', Bool.or_eq_false_iff, decide_eq_false_iff_not, not_le] at h
    exact h
  · intro h
    simp only [Bool.not_eq_true', Bool.or_eq_false_iff, decide_eq_false_iff_not, not_le]
    exact h

/-! ## error ellipse (main theorem) -/

/-- For a symmetric positive semidefinite `[[cxx,cxy],[cxy,cyy]]` (cofactors of a point's x, y)
    there are λ₁ ≥ λ₂ ≥ 0, the two roots of λ² − tr·λ + det = 0 (λ₁ + λ₂ = tr), with
    a = m0·√λ₁, b = m0·√λ₂, and (cos α, sin α) is an eigenvector for λ₁, 0 ≤ α < π. -/
theorem C09_ellipse_eigen (cxx cxy cyy m : ℝ) (hxx : 0 ≤ cxx) (hyy : 0 ≤ cyy)
    (hdet : cxy ^ 2 ≤ cxx * cyy) :
    ∃ l1 l2 : ℝ,
      l1 ^ 2 - (cxx + cyy) * l1 + (cxx * cyy - cxy ^ 2) = 0 ∧
      l2 ^ 2 - (cxx + cyy) * l2 + (cxx * cyy - cxy ^ 2) = 0 ∧
      l1 + l2 = cxx + cyy ∧ 0 ≤ l2 ∧ l2 ≤ l1 ∧
      (stdErrorEllipse cyy cxy cxx m).1 = m * √l1 ∧
      (stdErrorEllipse cyy cxy cxx m).2.1 = m * √l2 ∧
      cxx * cos (stdErrorEllipse cyy cxy cxx m).2.2 + cxy * sin (stdErrorEllipse cyy cxy cxx m).2.2
        = l1 * cos (stdErrorEllipse cyy cxy cxx m).2.2 ∧
      cxy * cos (stdErrorEllipse cyy cxy cxx m).2.2 + cyy * sin (stdErrorEllipse cyy cxy cxx m).2.2
        = l1 * sin (stdErrorEllipse cyy cxy cxx m).2.2 ∧
      0 ≤ (stdErrorEllipse cyy cxy cxx m).2.2 ∧ (stdErrorEllipse cyy cxy cxx m).2.2 < π :=
  ellipse_eigen cxx cxy cyy m hxx hyy hdet

/-- hence (a/m0)², (b/m0)² are the eigenvalues and a ≥ b ≥ 0 (for m0 ≥ 0) -/
theorem C09_ellipse_axes (cxx cxy cyy m : ℝ) (hm : 0 ≤ m) (hxx : 0 ≤ cxx) (hyy : 0 ≤ cyy)
    (hdet : cxy ^ 2 ≤ cxx * cyy) :
    (stdErrorEllipse cyy cxy cxx m).1 ^ 2 + (stdErrorEllipse cyy cxy cxx m).2.1 ^ 2
      = m ^ 2 * (cxx + cyy) ∧
    (stdErrorEllipse cyy cxy cxx m).1 ^ 2 * (stdErrorEllipse cyy cxy cxx m).2.1 ^ 2
      = m ^ 2 * m ^ 2 * (cxx * cyy - cxy ^ 2) ∧
    0 ≤ (stdErrorEllipse cyy cxy cxx m).2.1 ∧
    (stdErrorEllipse cyy cxy cxx m).2.1 ≤ (stdErrorEllipse cyy cxy cxx m).1 := by
  obtain ⟨l1, l2, h1, h2, hs, h0, hle, ha, hb, -⟩ := ellipse_eigen cxx cxy cyy m hxx hyy hdet
  have hl1 : 0 ≤ l1 := le_trans h0 hle
  rw [ha, hb]
  refine ⟨?_, ?_, mul_nonneg hm (Real.sqrt_nonneg _), ?_⟩
  · rw [mul_pow, mul_pow, Real.sq_sqrt hl1, Real.sq_sqrt h0, ← hs]; ring
  · rw [mul_pow, mul_pow, Real.sq_sqrt hl1, Real.sq_sqrt h0]
    have : l1 * l2 = cxx * cyy - cxy ^ 2 := by nlinarith
    rw [← this]; ring
  · exact mul_le_mul_of_nonneg_left (Real.sqrt_le_sqrt hle) hm

/-- the circular case `c = 0` (cxx = cyy, cxy = 0): the code reports α = 0 -/
theorem C09_ellipse_circle (q m : ℝ) : (stdErrorEllipse q 0 q m).2.2 = 0 := by
  rw [ellipse_general]; simp

/-! ## changing only the a priori reference standard deviation

  LS9 (`Gama/Lemmas/LS.lean`, P ↦ s²P): x and v are unchanged, Φ ↦ s²Φ, Q ↦ s⁻²Q, and the
  projector diagonal q_bb of the homogenised system is unchanged.  Given these as hypotheses
  about the inputs of the formulas, everything LocalNetwork reports except v'Pv, the weights
  and the quantities defined relative to σ_apr (m0 itself, the cofactors) is unchanged — in
  both modes of `sigma-act`. -/

/-- the reference deviation scales with σ_apr (so the tested ratio m0/σ_apr does not change) -/
theorem C09_sigma_apr_scaling_m0 (act : SigmaAct) (sapr phi s : ℝ) (dof : ℤ)
    (hs : 0 < s) (hsapr : sapr ≠ 0) :
    m0 act (s * sapr) (s ^ 2 * phi) dof = s * m0 act sapr phi dof ∧
    m0 act (s * sapr) (s ^ 2 * phi) dof / (s * sapr) = m0 act sapr phi dof / sapr := by
  have key : m0 act (s * sapr) (s ^ 2 * phi) dof = s * m0 act sapr phi dof := by
    cases act
    · rfl
    · simp only [m0]
      split_ifs with h
      · simp only [sqrt_real, ofInt_real]
        have : s ^ 2 * phi / (dof : ℝ) = s ^ 2 * (phi / (dof : ℝ)) := by ring
        rw [this, mul_comm (s ^ 2), Real.sqrt_mul' _ (sq_nonneg s), Real.sqrt_sq hs.le]; ring
      · simp
  refine ⟨key, ?_⟩
  rw [key]; field_simp

/-- every reported standard deviation, covariance and residual statistic is unchanged — at the level of
    the formulas, with the scaling of their inputs written into the arguments; `C09_sigma_apr_scaling`
    (`Props/C09Solvers.lean`) derives that scaling from LS9 for the solver answers -/
theorem C09_sigma_apr_scaling_formulas (m sapr s q qbb stdev : ℝ) (hs : 0 < s) (hsapr : sapr ≠ 0)
    (hst : stdev ≠ 0) :
    unknownStdev (s * m) (q / s ^ 2) = unknownStdev m q ∧
    covEntry (s * m) (q / s ^ 2) = covEntry m q ∧
    sigmaL (s * m) (s * sapr) qbb stdev = sigmaL m sapr qbb stdev ∧
    weightObs (s * sapr) stdev = s ^ 2 * weightObs sapr stdev ∧
    wcoefRes qbb (weightObs (s * sapr) stdev) = wcoefRes qbb (weightObs sapr stdev) / s ^ 2 ∧
    stdevRes (s * m) (wcoefRes qbb (weightObs (s * sapr) stdev))
      = stdevRes m (wcoefRes qbb (weightObs sapr stdev)) := by
  have hsne : s ≠ 0 := hs.ne'
  have hs2 : 0 < s ^ 2 := by positivity
  have hw : weightObs (s * sapr) stdev = s ^ 2 * weightObs sapr stdev := by
    simp only [weightObs]; field_simp
  have hq : wcoefRes qbb (weightObs (s * sapr) stdev)
      = wcoefRes qbb (weightObs sapr stdev) / s ^ 2 := by
    rw [hw]; simp only [wcoefRes]
    have e : (1 - qbb) / (s ^ 2 * weightObs sapr stdev)
        = (1 - qbb) / weightObs sapr stdev / s ^ 2 := by
      rw [div_div, mul_comm]
    rw [e]
    by_cases h : 0 ≤ (1 - qbb) / weightObs sapr stdev
    · rw [if_pos h, if_pos (div_nonneg h hs2.le)]
    · rw [if_neg h, if_neg (fun h' => h (by
        have := mul_nonneg h' hs2.le
        rwa [div_mul_cancel₀ _ hs2.ne'] at this))]
      simp
  refine ⟨?_, ?_, ?_, hw, hq, ?_⟩
  · simp only [unknownStdev, sqrt_real]; rw [sqrt_div_sq _ s hs]; field_simp
  · simp only [covEntry]; field_simp
  · simp only [sigmaL]
    have : s * m / (s * sapr) = m / sapr := by field_simp
    rw [this]
  · rw [hq]; simp only [stdevRes, sqrt_real, abs_real]
    rw [abs_div, abs_of_pos hs2, sqrt_div_sq _ s hs]; field_simp

/-- the error ellipse is unchanged -/
theorem C09_sigma_apr_scaling_ellipse (cxx cxy cyy m s : ℝ) (hs : 0 < s) :
    stdErrorEllipse (cyy / s ^ 2) (cxy / s ^ 2) (cxx / s ^ 2) (s * m)
      = stdErrorEllipse cyy cxy cxx m :=
  ellipse_scale cxx cxy cyy m s hs

/-! ## round 3: the guarded regions, stated about the REGENERATED definitions

  Every theorem below is about `StatsGen.*` (the text of the current C++) and re-derives the
  `gen_*` equality it needs inside its own proof (`hgen`, by `rfl`), so that a changed formula
  breaks the property theorem by name, not only the `gen_*` one.  Each has the guard / clamp /
  threshold of the formula inside the statement:
  it quantifies over the inputs on BOTH sides of the guard and over every positive scale, so a
  guard that fires on another condition (`cyx == 0` for `c == 0`) or at an absolute threshold
  (`qv > 1e-6` for `qv >= 0`) falsifies the statement, not only the `rfl`. -/

/-- ERROR ELLIPSE, every symmetric positive semidefinite block (including `cxy = 0` with
    `cyy > cxx`, `cxx = cyy` with `cxy ≠ 0`, the circle, singular blocks): with
    `(a, b, α) = std_error_ellipse` there are `λ₁ ≥ λ₂ ≥ 0`, `λ₁ + λ₂ = trace`, `λ₁ λ₂ = det`
    (the eigenvalues), `a² = m0² λ₁`, `b² = m0² λ₂`, `a ≥ b ≥ 0`, `(cos α, sin α)` is an eigenvector
    for `λ₁`, `0 ≤ α < π`, and `α` is the ONLY such bearing in `[0, π)` unless `λ₁ = λ₂`
    (where every direction is an eigenvector and the code reports 0). -/
theorem C09_ellipse_is_eigen_full (cxx cxy cyy m : ℝ) (hm : 0 ≤ m) (hxx : 0 ≤ cxx) (hyy : 0 ≤ cyy)
    (hdet : cxy ^ 2 ≤ cxx * cyy) :
    ∃ l1 l2 : ℝ,
      l1 + l2 = cxx + cyy ∧ l1 * l2 = cxx * cyy - cxy ^ 2 ∧ 0 ≤ l2 ∧ l2 ≤ l1 ∧
      (StatsGen.stdErrorEllipse cyy cxy cxx m).1 ^ 2 = m ^ 2 * l1 ∧
      (StatsGen.stdErrorEllipse cyy cxy cxx m).2.1 ^ 2 = m ^ 2 * l2 ∧
      0 ≤ (StatsGen.stdErrorEllipse cyy cxy cxx m).2.1 ∧
      (StatsGen.stdErrorEllipse cyy cxy cxx m).2.1 ≤ (StatsGen.stdErrorEllipse cyy cxy cxx m).1 ∧
      cxx * cos (StatsGen.stdErrorEllipse cyy cxy cxx m).2.2
          + cxy * sin (StatsGen.stdErrorEllipse cyy cxy cxx m).2.2
        = l1 * cos (StatsGen.stdErrorEllipse cyy cxy cxx m).2.2 ∧
      cxy * cos (StatsGen.stdErrorEllipse cyy cxy cxx m).2.2
          + cyy * sin (StatsGen.stdErrorEllipse cyy cxy cxx m).2.2
        = l1 * sin (StatsGen.stdErrorEllipse cyy cxy cxx m).2.2 ∧
      0 ≤ (StatsGen.stdErrorEllipse cyy cxy cxx m).2.2 ∧
      (StatsGen.stdErrorEllipse cyy cxy cxx m).2.2 < π ∧
      (l1 = l2 → (StatsGen.stdErrorEllipse cyy cxy cxx m).2.2 = 0) ∧
      (l1 ≠ l2 → ∀ β : ℝ, 0 ≤ β → β < π →
        cxx * cos β + cxy * sin β = l1 * cos β → cxy * cos β + cyy * sin β = l1 * sin β →
        β = (StatsGen.stdErrorEllipse cyy cxy cxx m).2.2) := by
  have hgen : ∀ a b c d : ℝ, StatsGen.stdErrorEllipse a b c d = stdErrorEllipse a b c d :=
    fun _ _ _ _ => rfl
  rw [hgen]
  obtain ⟨hc0, hctr, hcc, ha, hb, e1, e2, r0, r1⟩ := ellipse_full cxx cxy cyy m hxx hyy hdet
  set c := √((cxx - cyy) * (cxx - cyy) + 4 * cxy * cxy) with hc
  have hl2 : 0 ≤ (cxx + cyy - c) / 2 := by linarith
  have hl1 : 0 ≤ (cxx + cyy + c) / 2 := by linarith
  refine ⟨(cxx + cyy + c) / 2, (cxx + cyy - c) / 2, by ring, by nlinarith, hl2, by linarith,
    ?_, ?_, ?_, ?_, e1, e2, r0, r1, ?_, ?_⟩
  · rw [ha, mul_pow, Real.sq_sqrt hl1]
  · rw [hb, mul_pow, Real.sq_sqrt hl2]
  · rw [hb]; exact mul_nonneg hm (Real.sqrt_nonneg _)
  · rw [ha, hb]; exact mul_le_mul_of_nonneg_left (Real.sqrt_le_sqrt (by linarith)) hm
  · intro h
    have h0 : c = 0 := by linarith
    rw [ellipse_general, ← hc, if_pos h0]
  · intro hne β hβ0 hβπ b1 b2
    exact eigvec_unique cxx cxy cyy _ _ _ β (by ring) hne r0 r1 hβ0 hβπ e1 e2 b1 b2

/-- the boundary inputs of the ellipse guard evaluated: an EXACTLY diagonal block with the larger
    variance in y has bearing π/2 (not 0), with the larger variance in x bearing 0; equal
    variances with positive / negative covariance have bearing π/4 / 3π/4; the circle 0 -/
theorem C09_ellipse_guard_boundary (p q e m : ℝ) (hp : 0 ≤ p) (hpq : p < q) (he : 0 < e) (heq : e ≤ q) :
    (StatsGen.stdErrorEllipse q 0 p m).2.2 = π / 2 ∧
    (StatsGen.stdErrorEllipse p 0 q m).2.2 = 0 ∧
    (StatsGen.stdErrorEllipse q e q m).2.2 = π / 4 ∧
    (StatsGen.stdErrorEllipse q (-e) q m).2.2 = 3 * π / 4 ∧
    (StatsGen.stdErrorEllipse q 0 q m).2.2 = 0 := by
  have hgen : ∀ a b c d : ℝ, StatsGen.stdErrorEllipse a b c d = stdErrorEllipse a b c d :=
    fun _ _ _ _ => rfl
  have hq : 0 ≤ q := by linarith
  have hpi := Real.pi_pos
  have uniq : ∀ cxx cxy cyy l1 l2 β : ℝ, 0 ≤ cxx → 0 ≤ cyy → cxy ^ 2 ≤ cxx * cyy →
      l1 + l2 = cxx + cyy → l1 * l2 = cxx * cyy - cxy ^ 2 → l2 < l1 → 0 ≤ β → β < π →
      cxx * cos β + cxy * sin β = l1 * cos β → cxy * cos β + cyy * sin β = l1 * sin β →
      (StatsGen.stdErrorEllipse cyy cxy cxx m).2.2 = β := by
    intro cxx cxy cyy l1 l2 β hxx hyy hdet hs hpr hlt hβ0 hβπ b1 b2
    rw [hgen]
    obtain ⟨hc0, hctr, hcc, -, -, e1, e2, r0, r1⟩ := ellipse_full cxx cxy cyy m hxx hyy hdet
    set c := √((cxx - cyy) * (cxx - cyy) + 4 * cxy * cxy) with hc
    -- (cxx + cyy + c)/2 is the larger root, so it is l1
    have hl : (cxx + cyy + c) / 2 = l1 := by
      have hd : (l1 - l2) ^ 2 = c * c := by rw [hcc]; nlinarith
      have : l1 - l2 = c := by
        have h1 : (l1 - l2 - c) * (l1 - l2 + c) = 0 := by nlinarith
        rcases mul_eq_zero.mp h1 with h | h
        · linarith
        · nlinarith
      linarith
    rw [hl] at e1 e2
    exact (eigvec_unique cxx cxy cyy l1 l2 _ β hs hlt.ne' r0 r1 hβ0 hβπ e1 e2 b1 b2).symm
  refine ⟨?_, ?_, ?_, ?_, ?_⟩
  · refine uniq p 0 q q p (π / 2) hp hq (by nlinarith) (by ring) (by ring) hpq (by linarith) (by linarith) ?_ ?_
    · rw [Real.cos_pi_div_two, Real.sin_pi_div_two]; ring
    · rw [Real.cos_pi_div_two, Real.sin_pi_div_two]; ring
  · refine uniq q 0 p q p 0 hq hp (by nlinarith) (by ring) (by ring) hpq (le_refl _) hpi ?_ ?_
    · rw [Real.cos_zero, Real.sin_zero]; ring
    · rw [Real.cos_zero, Real.sin_zero]; ring
  · refine uniq q e q (q + e) (q - e) (π / 4) hq hq (by nlinarith) (by ring) (by ring) (by linarith)
      (by linarith) (by linarith) ?_ ?_
    · rw [Real.cos_pi_div_four, Real.sin_pi_div_four]; ring
    · rw [Real.cos_pi_div_four, Real.sin_pi_div_four]; ring
  · have h34 : 3 * π / 4 = π - π / 4 := by ring
    refine uniq q (-e) q (q + e) (q - e) (3 * π / 4) hq hq (by nlinarith) (by ring) (by ring) (by linarith)
      (by linarith) (by linarith) ?_ ?_
    · rw [h34, Real.cos_pi_sub, Real.sin_pi_sub, Real.cos_pi_div_four, Real.sin_pi_div_four]; ring
    · rw [h34, Real.cos_pi_sub, Real.sin_pi_sub, Real.cos_pi_div_four, Real.sin_pi_div_four]; ring
  · rw [hgen]; exact C09_ellipse_circle q m

/-- the ellipse guard carries no absolute scale: cofactors `Q/t` with reference deviation `√t·m0`
    (any σ_apr) give the same ellipse, for every block on either side of the guard -/
theorem C09_ellipse_scale_free (cxx cxy cyy m s : ℝ) (hs : 0 < s) :
    StatsGen.stdErrorEllipse (cyy / s ^ 2) (cxy / s ^ 2) (cxx / s ^ 2) (s * m)
      = StatsGen.stdErrorEllipse cyy cxy cxx m := by
  have hgen : ∀ a b c d : ℝ, StatsGen.stdErrorEllipse a b c d = stdErrorEllipse a b c d :=
    fun _ _ _ _ => rfl
  rw [hgen, hgen]; exact ellipse_scale cxx cxy cyy m s hs

/-- RESIDUAL COFACTOR with its clamp: the reported value is `1/p − q_L` (`q_L = q_bb/p`) whenever
    that is ≥ 0 and 0 otherwise, it is never negative, and the clamp has no absolute scale:
    multiplying every weight by any `t > 0` (any σ_apr: `p = (σ_apr/stdev)²`) maps `q_vv ↦ q_vv/t`
    exactly — also across the clamp — and leaves the standard deviation of the residual (with
    `m0 ↦ √t·m0`), the standardized residual and `<err-obs>`/`<err-adj>` unchanged. -/
theorem C09_residual_cofactor_scale_free (qbb w t m r v : ℝ) (ht : 0 < t) :
    (0 ≤ 1 / w - qbb / w → StatsGen.wcoefRes qbb w = 1 / w - qbb / w) ∧
    (1 / w - qbb / w < 0 → StatsGen.wcoefRes qbb w = 0) ∧
    0 ≤ StatsGen.wcoefRes qbb w ∧
    StatsGen.wcoefRes qbb (t * w) = StatsGen.wcoefRes qbb w / t ∧
    StatsGen.stdevRes (√t * m) (StatsGen.wcoefRes qbb (t * w))
      = StatsGen.stdevRes m (StatsGen.wcoefRes qbb w) ∧
    StatsGen.studentizedResidual (StatsGen.stdevRes (√t * m) (StatsGen.wcoefRes qbb (t * w))) r
      = StatsGen.studentizedResidual (StatsGen.stdevRes m (StatsGen.wcoefRes qbb w)) r ∧
    StatsGen.errObsAdj v (StatsGen.wcoefRes qbb (t * w)) (t * w)
      = StatsGen.errObsAdj v (StatsGen.wcoefRes qbb w) w := by
  have hgen1 : ∀ a b : ℝ, StatsGen.wcoefRes a b = wcoefRes a b := fun _ _ => rfl
  have hgen2 : ∀ a b : ℝ, StatsGen.stdevRes a b = stdevRes a b := fun _ _ => rfl
  have hgen3 : ∀ a b : ℝ, StatsGen.studentizedResidual a b = studentizedResidual a b := fun _ _ => rfl
  have hgen4 : ∀ a b c : ℝ, StatsGen.errObsAdj a b c = errObsAdj a b c := fun _ _ _ => rfl
  simp only [hgen1, hgen2, hgen3, hgen4]
  have hsc := wcoefRes_scale qbb w t ht
  have hsr : stdevRes (√t * m) (wcoefRes qbb (t * w)) = stdevRes m (wcoefRes qbb w) := by
    rw [hsc]; exact stdevRes_scale m _ t ht
  refine ⟨wcoefRes_of_nonneg qbb w, wcoefRes_of_neg qbb w, wcoefRes_nonneg qbb w, hsc, hsr, ?_, ?_⟩
  · rw [hsr]
  · rw [hsc]; exact errObsAdj_scale v _ w t ht

/-- the weight is `(σ_apr/stdev)²`, so σ_apr ↦ s·σ_apr is the weight scale `t = s²` of the
    previous theorem -/
theorem C09_weight_scale (sapr stdev s : ℝ) :
    StatsGen.weightObs sapr stdev = (sapr / stdev) ^ 2 ∧
    StatsGen.weightObs (s * sapr) stdev = s ^ 2 * StatsGen.weightObs sapr stdev := by
  have hgen : ∀ a b : ℝ, StatsGen.weightObs a b = weightObs a b := fun _ _ => rfl
  refine ⟨?_, ?_⟩
  · rw [hgen]; exact weightObs_eq _ _
  · rw [hgen, hgen, weightObs_eq, weightObs_eq]; ring

/-- STUDENTIZED RESIDUAL with its guard `stdev_res > 0`: for every `stdev_res` the value
    times `stdev_res` is the residual when `stdev_res > 0`, the literal 0 when it is 0 (or negative), and the
    guard has no absolute scale (a change of units `k > 0` of residual and deviation changes nothing) -/
theorem C09_studentized_guard_full (sres r k : ℝ) (hk : 0 < k) :
    (0 < sres → StatsGen.studentizedResidual sres r * sres = r) ∧
    (sres ≤ 0 → StatsGen.studentizedResidual sres r = 0) ∧
    StatsGen.studentizedResidual (k * sres) (k * r) = StatsGen.studentizedResidual sres r := by
  have hgen : ∀ a b : ℝ, StatsGen.studentizedResidual a b = studentizedResidual a b := fun _ _ => rfl
  simp only [hgen]
  refine ⟨fun h => ?_, fun h => ?_, studentized_scale sres r k hk⟩
  · simp only [studentizedResidual]; rw [if_pos h]; field_simp
  · simp only [studentizedResidual]; rw [if_neg (not_lt.mpr h)]

/-- REFERENCE DEVIATION with its guard `dof > 0`, every dof (1, 2, 3, … and ≤ 0), both accessors
    and the XML writer's repetition of the formula: never throws, `m0² · dof = v'Pv` for dof ≥ 1,
    the literal 0 for dof ≤ 0, a priori mode returns σ_apr, and `v'Pv ↦ s²·v'Pv` gives `s·m0`
    (no absolute scale) -/
theorem C09_m0_guard_full (act : SigmaAct) (sapr phi s : ℝ) (dof : ℤ) (hphi : 0 ≤ phi) (hs : 0 < s) :
    ∃ v : ℝ, StatsGen.m0 act sapr phi dof = .ok v ∧
      (act = .apriori → v = sapr) ∧
      (act = .aposteriori → 0 < dof → v ^ 2 * (dof : ℝ) = phi ∧ 0 ≤ v) ∧
      (act = .aposteriori → dof ≤ 0 → v = 0) ∧
      (act = .aposteriori → v = StatsGen.m0Aposteriori phi dof ∧ v = StatsGen.xmlAposteriori phi dof) ∧
      StatsGen.m0 act (s * sapr) (s ^ 2 * phi) dof = .ok (s * v) := by
  have hgen : ∀ (a : SigmaAct) (x y : ℝ) (d : ℤ), StatsGen.m0 a x y d = .ok (m0 a x y d) := by
    intro a x y d
    cases a
    · rfl
    · by_cases h : d > 0 <;> simp [StatsGen.m0, m0, h]
  have hgenA : StatsGen.m0Aposteriori phi dof = m0Aposteriori phi dof := rfl
  have hgenX : StatsGen.xmlAposteriori phi dof = xmlAposteriori phi dof := rfl
  refine ⟨m0 act sapr phi dof, hgen act sapr phi dof, ?_, ?_, ?_, ?_, ?_⟩
  · rintro rfl; rfl
  · rintro rfl hd
    refine ⟨by
      have := (m0_apost_sq phi dof hd hphi).1
      simpa [m0, hd] using this, ?_⟩
    simp only [m0, if_pos hd, sqrt_real]; exact Real.sqrt_nonneg _
  · rintro rfl hd
    exact ((C09_m0_select sapr phi dof).2.1 hd).1
  · rintro rfl
    exact ⟨hgenA.symm, hgenX.symm⟩
  · rw [hgen, m0_scale act sapr phi s dof hs]

/-- `<ratio>` with its guard `dof != 0`: ratio · σ_apr is the a posteriori value whenever
    dof ≠ 0 (which is 0 for dof < 0), the literal 0 for dof = 0, and unchanged by σ_apr ↦ s·σ_apr -/
theorem C09_ratio_guard_full (phi sapr s : ℝ) (dof : ℤ) (hsapr : sapr ≠ 0) (hs : 0 < s) :
    (dof ≠ 0 → StatsGen.xmlRatio phi sapr dof * sapr = StatsGen.m0Aposteriori phi dof) ∧
    (dof = 0 → StatsGen.xmlRatio phi sapr dof = 0) ∧
    StatsGen.xmlRatio (s ^ 2 * phi) (s * sapr) dof = StatsGen.xmlRatio phi sapr dof := by
  have hgen : ∀ a b : ℝ, StatsGen.xmlRatio a b dof = xmlRatio a b dof := fun _ _ => rfl
  have hgenA : StatsGen.m0Aposteriori phi dof = m0Aposteriori phi dof := rfl
  simp only [hgen, hgenA]
  refine ⟨fun h => ?_, fun h => ?_, ?_⟩
  · simp only [xmlRatio, if_pos h]; field_simp
  · simp only [xmlRatio, h]; simp
  · simp only [xmlRatio]
    split_ifs with h
    · have := (C09_sigma_apr_scaling_m0 .aposteriori sapr phi s dof hs hsapr).2
      simpa [m0, m0Aposteriori] using this
    · rfl

/-- CONFIDENCE COEFFICIENT with its guard `dof > 0`: never throws; Normal in a priori mode for
    every dof, Student(dof) for dof ≥ 1, the literal 0 for dof ≤ 0; `conf_pr` stored ⇔ 0 < p < 1 -/
theorem C09_conf_guard_full (normal : ℝ → ℝ) (student : ℝ → ℤ → ℝ) (act : SigmaAct) (p : ℝ) (dof : ℤ) :
    ∃ v : ℝ, StatsGen.confIntCoef normal student act p dof = .ok v ∧
      (act = .apriori → v = normal ((1 - p) / 2)) ∧
      (act = .aposteriori → 0 < dof → v = student ((1 - p) / 2) dof) ∧
      (act = .aposteriori → dof ≤ 0 → v = 0) ∧
      (StatsGen.confPrAccepted p = true ↔ (0 < p ∧ p < 1)) := by
  have hgen : StatsGen.confIntCoef normal student act p dof = .ok (confIntCoef normal student act p dof) := by
    cases act
    · rfl
    · by_cases h : dof > 0 <;> simp [StatsGen.confIntCoef, confIntCoef, h]
  have hgenP : StatsGen.confPrAccepted p = confPrAccepted p := rfl
  refine ⟨confIntCoef normal student act p dof, hgen, ?_, ?_, ?_, ?_⟩
  · rintro rfl; exact (C09_conf_select normal student p dof).1
  · rintro rfl h; exact (C09_conf_select normal student p dof).2.1 h
  · rintro rfl h; exact (C09_conf_select normal student p dof).2.2 h
  · rw [hgenP]; exact C09_conf_pr_guard p

/-- `<err-obs>`, `<err-adj>` (printed only for `f ≥ 0.1`, i.e. away from `q_vv·p = 0`): the
    estimated error of the observation times `q_vv·p` is the residual, the error of the adjusted
    value is their difference -/
theorem C09_err_obs_adj (v qvv w : ℝ) (h : qvv * w ≠ 0) :
    (StatsGen.errObsAdj v qvv w).1 * (qvv * w) = v ∧
    (StatsGen.errObsAdj v qvv w).2 = (StatsGen.errObsAdj v qvv w).1 - v := by
  have hgen : StatsGen.errObsAdj v qvv w = errObsAdj v qvv w := rfl
  rw [hgen]
  exact ⟨div_mul_cancel₀ v h, rfl⟩

/-! ## non-vacuity: concrete instances meeting the hypotheses -/

-- a PSD block with distinct eigenvalues and a rotated axis: [[2,1],[1,1]]
example : (0:ℝ) ≤ 2 ∧ (0:ℝ) ≤ 1 ∧ (1:ℝ) ^ 2 ≤ 2 * 1 := by norm_num
-- a singular PSD block (b = 0): [[1,1],[1,1]]
example : (0:ℝ) ≤ 1 ∧ (1:ℝ) ^ 2 ≤ 1 * 1 := by norm_num
-- an axis-parallel ellipse evaluated: cxx = 4, cyy = 1, cxy = 0, m0 = 1 gives a = 2, b = 1, α = 0
example : stdErrorEllipse (1:ℝ) 0 4 1 = (2, 1, 0) := by
  rw [ellipse_val 4 0 1 1 (by norm_num) (by norm_num) (by norm_num)]
  have h9 : √((4 - 1) * (4 - 1) + 4 * 0 * 0 : ℝ) = 3 := by
    rw [show ((4 - 1) * (4 - 1) + 4 * 0 * 0 : ℝ) = 3 ^ 2 by norm_num]
    exact Real.sqrt_sq (by norm_num)
  rw [h9]
  have h4 : √((4 + 1 + 3) / 2 : ℝ) = 2 := by
    rw [show ((4 + 1 + 3) / 2 : ℝ) = 2 ^ 2 by norm_num]; exact Real.sqrt_sq (by norm_num)
  have h1 : √((4 + 1 - 3) / 2 : ℝ) = 1 := by
    rw [show ((4 + 1 - 3) / 2 : ℝ) = 1 by norm_num]; exact Real.sqrt_one
  rw [h4, h1]
  have hb : halfBearing (4 - 1) (2 * 0) = 0 := by
    unfold halfBearing
    have : (⟨4 - 1, 2 * 0⟩ : ℂ) = ((3 : ℝ) : ℂ) := by apply Complex.ext <;> norm_num
    rw [this, Complex.arg_ofReal_of_nonneg (by norm_num)]; norm_num
  rw [hb]; norm_num
-- m0: dof = 3, v'Pv = 12 gives m0² = 4
example : (0:ℤ) < 3 ∧ (0:ℝ) ≤ 12 := by norm_num
example : m0 .aposteriori (10:ℝ) 12 3 ^ 2 * ((3:ℤ):ℝ) = 12 := (C09_m0 10 12 3 (by norm_num) (by norm_num)).1
-- q_vv: σ_apr = 10, stdev = 5 (p = 4), q_bb = 0.4 gives 1/p − q_L = 0.25 − 0.1 ≥ 0
example : (0:ℝ) ≤ 1 / weightObs (10:ℝ) 5 - 0.4 / weightObs (10:ℝ) 5 := by
  rw [weightObs_eq]; norm_num
-- the clamp is reachable only with q_bb > 1 (rounding noise): q_bb = 1.5, p = 4
example : 1 / (4:ℝ) - 1.5 / 4 < 0 := by norm_num
-- scaling: s = 3, σ_apr = 10, stdev = 5
example : (0:ℝ) < 3 ∧ (10:ℝ) ≠ 0 ∧ (5:ℝ) ≠ 0 := by norm_num
-- round 3.  C09_ellipse_is_eigen_full at the input that separates `c == 0` from `cyx == 0`
-- (diagonal block, larger variance in y: cxx = 4, cxy = 0, cyy = 100, m0 = 1): the bearing is π/2
example : (StatsGen.stdErrorEllipse (100:ℝ) 0 4 1).2.2 = π / 2 :=
  (C09_ellipse_guard_boundary 4 100 1 1 (by norm_num) (by norm_num) (by norm_num) (by norm_num)).1
-- … and its hypotheses there, with distinct eigenvalues (so the uniqueness clause is not vacuous)
example : (0:ℝ) ≤ 1 ∧ (0:ℝ) ≤ 4 ∧ (0:ℝ) ≤ 100 ∧ (0:ℝ) ^ 2 ≤ 4 * 100 ∧ (100:ℝ) ≠ 4 := by norm_num
-- C09_residual_cofactor_scale_free: weight 4, q_bb = 0.4, σ_apr ↦ 1000·σ_apr (t = 10⁶): the
-- cofactor 0.15 becomes 1.5e-7 — below any "small" absolute threshold, and still not clamped
example : StatsGen.wcoefRes (0.4:ℝ) (1000000 * 4) = 0.15 / 1000000 := by
  rw [(C09_residual_cofactor_scale_free 0.4 4 1000000 1 0 0 (by norm_num)).2.2.2.1,
    (C09_residual_cofactor_scale_free 0.4 4 1000000 1 0 0 (by norm_num)).1 (by norm_num)]
  norm_num
-- C09_m0_guard_full at dof = 1 (the smallest redundancy): v'Pv = 9 gives m0 = 3 exactly
example : ∃ v : ℝ, StatsGen.m0 .aposteriori (10:ℝ) 9 1 = .ok v ∧ v ^ 2 * ((1:ℤ):ℝ) = 9 := by
  obtain ⟨v, h1, -, h3, -⟩ := C09_m0_guard_full .aposteriori 10 9 1 1 (by norm_num) (by norm_num)
  exact ⟨v, h1, (h3 rfl (by norm_num)).1⟩
-- C09_conf_guard_full at dof = 1 in a posteriori mode: the Student branch is taken
example : ∃ v : ℝ, StatsGen.confIntCoef (fun x : ℝ => x) (fun (x : ℝ) (n : ℤ) => x + (n : ℝ)) .aposteriori
      (0.9:ℝ) 1 = .ok v ∧ v = (1 - 0.9) / 2 + ((1:ℤ):ℝ) := by
  obtain ⟨v, h1, -, h3, -⟩ :=
    C09_conf_guard_full (fun x : ℝ => x) (fun (x : ℝ) (n : ℤ) => x + (n : ℝ)) .aposteriori 0.9 1
  exact ⟨v, h1, h3 rfl (by norm_num)⟩
-- C09_studentized_guard_full / C09_ratio_guard_full / C09_err_obs_adj hypotheses
example : (0:ℝ) ≤ 2 ∧ (0:ℝ) < 1000 ∧ (10:ℝ) ≠ 0 ∧ (0.15:ℝ) * 4 ≠ 0 ∧ (3:ℤ) ≠ 0 := by norm_num

end Gama.Props.C09
