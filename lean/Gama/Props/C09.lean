/-
  C09 — Reported statistics are consistent with the adjustment they describe.

  Property theorems only.  The reference model is `Gama/Model/Stats.lean` (every formula as
  LocalNetwork codes it); `Gama/Gen/StatsGen.lean` is regenerated from the C++ text on every
  run and the `gen_*` theorems below say that the regenerated text *is* the reference model,
  so that a changed formula in the source breaks a proof here.  All other theorems are over ℝ
  (`Scalar ℝ`, `Trig ℝ` of `Lemmas/StatsReal.lean`: `sqrt = Real.sqrt`,
  `atan2 y x = Complex.arg (x + y i)`), never about `Float`.

  Names of quantities: `phi` = v'Pv, `dof` = degrees of freedom, `sapr` = a priori reference
  standard deviation σ_apr, `m` = the actual reference standard deviation m0,
  `qxx`/`cxx,cxy,cyy` = cofactors of unknowns, `qbb` = cofactor of the adjusted *homogenised*
  observation (diagonal of the projector A Q Aᵀ), `stdev` = the observation's own a priori
  standard deviation, `w = p = (sapr/stdev)²` its weight.
-/
import Gama.Gen.StatsGen
import Gama.Lemmas.StatsReal
namespace Gama.Props.C09
open Gama Gama.Stats Real

/-! ## tie: the regenerated formulas are the reference model -/

theorem gen_dof (rows cols defect : Int) :
    StatsGen.degreesOfFreedom rows cols defect = degreesOfFreedom rows cols defect := rfl

theorem gen_m0 {K : Type} [Scalar K] (act : SigmaAct) (sapr phi : K) (dof : Int) :
    StatsGen.m0 act sapr phi dof = .ok (m0 act sapr phi dof) := by
  cases act
  · rfl
  · by_cases h : dof > 0 <;> simp [StatsGen.m0, m0, h]

theorem gen_m0Aposteriori {K : Type} [Scalar K] (phi : K) (dof : Int) :
    StatsGen.m0Aposteriori phi dof = m0Aposteriori phi dof := rfl

theorem gen_confIntCoef {K : Type} [Scalar K] (normal : K → K) (student : K → Int → K)
    (act : SigmaAct) (confPr : K) (dof : Int) :
    StatsGen.confIntCoef normal student act confPr dof
      = .ok (confIntCoef normal student act confPr dof) := by
  cases act
  · rfl
  · by_cases h : dof > 0 <;> simp [StatsGen.confIntCoef, confIntCoef, h]

theorem gen_confPrAccepted {K : Type} [Scalar K] (p : K) :
    StatsGen.confPrAccepted p = confPrAccepted p := rfl

theorem gen_unknownStdev {K : Type} [Scalar K] (m q : K) :
    StatsGen.unknownStdev m q = unknownStdev m q := rfl

theorem gen_weightObs {K : Type} [Scalar K] (sapr stdev : K) :
    StatsGen.weightObs sapr stdev = weightObs sapr stdev := rfl

theorem gen_sigmaL {K : Type} [Scalar K] (m sapr qbb stdev : K) :
    StatsGen.sigmaL m sapr qbb stdev = sigmaL m sapr qbb stdev := rfl

theorem gen_wcoefRes {K : Type} [Scalar K] (qbb w : K) :
    StatsGen.wcoefRes qbb w = wcoefRes qbb w := rfl

theorem gen_stdevRes {K : Type} [Scalar K] (m qvv : K) :
    StatsGen.stdevRes m qvv = stdevRes m qvv := rfl

theorem gen_studentizedResidual {K : Type} [Scalar K] (sres r : K) :
    StatsGen.studentizedResidual sres r = studentizedResidual sres r := rfl

theorem gen_obsControl {K : Type} [Scalar K] (qbb : K) :
    StatsGen.obsControl qbb = obsControl qbb := rfl

theorem gen_stdErrorEllipse {K : Type} [Scalar K] [Trig K] (cyy cyx cxx m : K) :
    StatsGen.stdErrorEllipse cyy cyx cxx m = stdErrorEllipse cyy cyx cxx m := rfl

theorem gen_covEntry {K : Type} [Scalar K] (m q : K) :
    StatsGen.covEntry m q = covEntry m q := rfl

/-! ## degrees of freedom -/

/-- as coded: observations − unknowns + defect -/
theorem C09_dof (rows cols defect : Int) :
    degreesOfFreedom rows cols defect = rows - cols + defect := rfl

/-- with the solver's defect = unknowns − rank A (C01/C20 defect theorem, LS10) the reported
    number is the redundancy m − rank A -/
theorem C09_dof_rank (rows cols defect rank : Int) (hdef : defect = cols - rank) :
    degreesOfFreedom rows cols defect = rows - rank := by
  unfold degreesOfFreedom; omega

/-! ## reference standard deviation -/

/-- a posteriori: m0² · dof = v'Pv (both accessors, and the value the XML writer prints) -/
theorem C09_m0 (sapr phi : ℝ) (dof : ℤ) (hd : 0 < dof) (hphi : 0 ≤ phi) :
    m0 .aposteriori sapr phi dof ^ 2 * (dof : ℝ) = phi ∧
    m0Aposteriori phi dof ^ 2 * (dof : ℝ) = phi ∧
    xmlAposteriori phi dof = m0Aposteriori phi dof :=
  ⟨(m0_apost_sq phi dof hd hphi).1, (m0_apost_sq phi dof hd hphi).2, rfl⟩

/-- selection: a priori mode returns σ_apr unchanged; with no redundancy the a posteriori
    value is the literal 0 (no division by zero) -/
theorem C09_m0_select (sapr phi : ℝ) (dof : ℤ) :
    m0 .apriori sapr phi dof = sapr ∧
    (dof ≤ 0 → m0 .aposteriori sapr phi dof = 0 ∧ m0Aposteriori phi dof = 0) ∧
    (0 < dof → m0 .aposteriori sapr phi dof = m0Aposteriori phi dof) := by
  refine ⟨rfl, fun h => ?_, fun h => ?_⟩
  · have : ¬ (dof > 0) := by omega
    simp [m0, m0Aposteriori, this]
  · simp [m0, m0Aposteriori, h]

/-! ## standard deviations -/

/-- unknowns: σ_x² = m0² · q_xx;  adjusted observations: σ_L² = m0² · q_L where
    q_L = q_bb · stdev² / σ_apr² = q_bb / p is the cofactor of the adjusted observation in its
    own units (q_bb is the cofactor in the homogenised system, whose rows were divided by
    stdev/σ_apr);  `<cov-mat>` entries are m0² · q -/
theorem C09_sigma (m sapr q qbb stdev : ℝ) (hq : 0 ≤ q) (hqbb : 0 ≤ qbb) (hs : sapr ≠ 0)
    (hst : stdev ≠ 0) :
    unknownStdev m q ^ 2 = m ^ 2 * q ∧
    sigmaL m sapr qbb stdev ^ 2 = m ^ 2 * (qbb * stdev ^ 2 / sapr ^ 2) ∧
    qbb * stdev ^ 2 / sapr ^ 2 = qbb / weightObs sapr stdev ∧
    (∀ qij : ℝ, covEntry m qij = m ^ 2 * qij) := by
  refine ⟨unknownStdev_sq m q hq, sigmaL_sq m sapr qbb stdev hqbb hs, ?_, fun qij => ?_⟩
  · rw [weightObs_eq]; field_simp
  · simp only [covEntry]; ring

/-- PARTIAL.  The C++ uses the same formula for clusters with a non-diagonal covariance
    matrix (the branch is commented out with `???  calculation for correlated observations
    missing !!!`).  There q_bb(n,n)·stdev²/σ_apr² is *not* the cofactor of the adjusted
    observation (that is (L Π Lᵀ)_nn for the Cholesky factor L of the cluster's cofactor
    block, which equals l_nn² Π_nn only when row n of L is diagonal), so the full statement
    "σ_L² = m0² · cofactor of the adjusted observation" is proved for uncorrelated
    observations only (`C09_sigma`).  What the code computes is characterised here; the
    deviation on correlated input is exhibited by the oracle (finding C09-F1, report). -/
theorem C09_sigmaL_correlated_partial (m sapr qbb stdev : ℝ) (hqbb : 0 ≤ qbb) (hs : sapr ≠ 0) :
    sigmaL m sapr qbb stdev ^ 2 = m ^ 2 * (qbb * stdev ^ 2 / sapr ^ 2) :=
  sigmaL_sq m sapr qbb stdev hqbb hs

/-- witness that the coded formula is not the cofactor of the adjusted observation for a
    correlated cluster: cofactor block C = L Lᵀ with L = [[1,0],[1,1]] (so c₂₂ = 2,
    stdev₂ = √2 for σ_apr = 1), homogenised projector Π = ½·[[1,1],[1,1]], m0 = 1.
    True variance of the second adjusted observation: (L Π Lᵀ)₂₂ = Σ l₂ⱼ Π_jk l₂ₖ = 2;
    the code reports Π₂₂·c₂₂ = 1.  (Replayed on gama-local: corpus/C09/f1-correlated-coords.json.) -/
theorem C09_sigmaL_correlated_violated :
    sigmaL (1:ℝ) 1 (1 / 2) (√2) ^ 2
      ≠ 1 ^ 2 * ((1:ℝ) * (1 / 2) * 1 + 1 * (1 / 2) * 1 + 1 * (1 / 2) * 1 + 1 * (1 / 2) * 1) := by
  rw [sigmaL_sq 1 1 (1 / 2) (√2) (by norm_num) (by norm_num), Real.sq_sqrt (by norm_num)]
  norm_num

/-- residuals: stdev_res² = m0² · |q_vv|; the studentized residual is r / stdev_res when that
    is positive and the literal 0 otherwise -/
theorem C09_residual (m qvv r : ℝ) :
    stdevRes m qvv ^ 2 = m ^ 2 * |qvv| ∧
    (0 < stdevRes m qvv → studentizedResidual (stdevRes m qvv) r = r / stdevRes m qvv) ∧
    (stdevRes m qvv ≤ 0 → studentizedResidual (stdevRes m qvv) r = 0) := by
  refine ⟨?_, fun h => ?_, fun h => ?_⟩
  · simp only [stdevRes, sqrt_real, abs_real]
    rw [mul_pow, Real.sq_sqrt (abs_nonneg qvv)]
  · simp only [studentizedResidual]; rw [if_pos h]
  · simp only [studentizedResidual]; rw [if_neg (not_lt.mpr h)]

/-! ## residual cofactors of uncorrelated observations -/

/-- q_vv = 1/p − q_L with q_L = q_bb/p, whenever that value is ≥ 0 -/
theorem C09_qvv_uncorrelated (sapr stdev qbb : ℝ)
    (h : 0 ≤ 1 / weightObs sapr stdev - qbb / weightObs sapr stdev) :
    wcoefRes qbb (weightObs sapr stdev)
      = 1 / weightObs sapr stdev - qbb / weightObs sapr stdev ∧
    weightObs sapr stdev = (sapr / stdev) ^ 2 :=
  ⟨wcoefRes_of_nonneg _ _ h, weightObs_eq _ _⟩

/-- the stated exception ("removing noise"): a negative value is reported as 0 -/
theorem C09_qvv_clamp (qbb w : ℝ) (h : 1 / w - qbb / w < 0) : wcoefRes qbb w = 0 :=
  wcoefRes_of_neg qbb w h

/-! ## confidence coefficient -/

/-- Normal for the a priori, Student with `dof` degrees of freedom for the a posteriori
    reference deviation, both at (1 − conf_pr)/2; 0 without redundancy.  (The VALUES of
    `normal`/`student` are C17's subject; half-widths are printed as σ · coefficient by the
    text writers.) -/
theorem C09_conf_select (normal : ℝ → ℝ) (student : ℝ → ℤ → ℝ) (p : ℝ) (dof : ℤ) :
    confIntCoef normal student .apriori p dof = normal ((1 - p) / 2) ∧
    (0 < dof → confIntCoef normal student .aposteriori p dof = student ((1 - p) / 2) dof) ∧
    (dof ≤ 0 → confIntCoef normal student .aposteriori p dof = 0) := by
  refine ⟨?_, fun h => ?_, fun h => ?_⟩
  · simp [confIntCoef]
  · simp [confIntCoef, h]
  · have : ¬ (dof > 0) := by omega
    simp [confIntCoef, this]

/-- `conf_pr` is stored exactly for 0 < p < 1 -/
theorem C09_conf_pr_guard (p : ℝ) : confPrAccepted p = true ↔ (0 < p ∧ p < 1) := by
  simp only [confPrAccepted]
  constructor
  · intro h
    simp only [Bool.not_eq_true', Bool.or_eq_false_iff, decide_eq_false_iff_not, not_le] at h
    exact h
  · intro h
    simp only [Bool.not_eq_true', Bool.or_eq_false_iff, decide_eq_false_iff_not, not_le]
    exact h

/-! ## error ellipse (main theorem) -/

/-- For a symmetric positive semidefinite `[[cxx,cxy],[cxy,cyy]]` (cofactors of a point's x, y)
    there are λ₁ ≥ λ₂ ≥ 0, the two roots of λ² − tr·λ + det = 0 (λ₁ + λ₂ = tr), with
    a = m0·√λ₁, b = m0·√λ₂, and (cos α, sin α) is an eigenvector for λ₁, 0 ≤ α < π. -/
theorem C09_ellipse_eigen (cxx cxy cyy m : ℝ) (hxx : 0 ≤ cxx) (hyy : 0 ≤ cyy)
    (hdet : cxy ^ 2 ≤ cxx * cyy) :
    ∃ l1 l2 : ℝ,
      l1 ^ 2 - (cxx + cyy) * l1 + (cxx * cyy - cxy ^ 2) = 0 ∧
      l2 ^ 2 - (cxx + cyy) * l2 + (cxx * cyy - cxy ^ 2) = 0 ∧
      l1 + l2 = cxx + cyy ∧ 0 ≤ l2 ∧ l2 ≤ l1 ∧
      (stdErrorEllipse cyy cxy cxx m).1 = m * √l1 ∧
      (stdErrorEllipse cyy cxy cxx m).2.1 = m * √l2 ∧
      cxx * cos (stdErrorEllipse cyy cxy cxx m).2.2 + cxy * sin (stdErrorEllipse cyy cxy cxx m).2.2
        = l1 * cos (stdErrorEllipse cyy cxy cxx m).2.2 ∧
      cxy * cos (stdErrorEllipse cyy cxy cxx m).2.2 + cyy * sin (stdErrorEllipse cyy cxy cxx m).2.2
        = l1 * sin (stdErrorEllipse cyy cxy cxx m).2.2 ∧
      0 ≤ (stdErrorEllipse cyy cxy cxx m).2.2 ∧ (stdErrorEllipse cyy cxy cxx m).2.2 < π :=
  ellipse_eigen cxx cxy cyy m hxx hyy hdet

/-- hence (a/m0)², (b/m0)² are the eigenvalues and a ≥ b ≥ 0 (for m0 ≥ 0) -/
theorem C09_ellipse_axes (cxx cxy cyy m : ℝ) (hm : 0 ≤ m) (hxx : 0 ≤ cxx) (hyy : 0 ≤ cyy)
    (hdet : cxy ^ 2 ≤ cxx * cyy) :
    (stdErrorEllipse cyy cxy cxx m).1 ^ 2 + (stdErrorEllipse cyy cxy cxx m).2.1 ^ 2
      = m ^ 2 * (cxx + cyy) ∧
    (stdErrorEllipse cyy cxy cxx m).1 ^ 2 * (stdErrorEllipse cyy cxy cxx m).2.1 ^ 2
      = m ^ 2 * m ^ 2 * (cxx * cyy - cxy ^ 2) ∧
    0 ≤ (stdErrorEllipse cyy cxy cxx m).2.1 ∧
    (stdErrorEllipse cyy cxy cxx m).2.1 ≤ (stdErrorEllipse cyy cxy cxx m).1 := by
  obtain ⟨l1, l2, h1, h2, hs, h0, hle, ha, hb, -⟩ := ellipse_eigen cxx cxy cyy m hxx hyy hdet
  have hl1 : 0 ≤ l1 := le_trans h0 hle
  rw [ha, hb]
  refine ⟨?_, ?_, mul_nonneg hm (Real.sqrt_nonneg _), ?_⟩
  · rw [mul_pow, mul_pow, Real.sq_sqrt hl1, Real.sq_sqrt h0, ← hs]; ring
  · rw [mul_pow, mul_pow, Real.sq_sqrt hl1, Real.sq_sqrt h0]
    have : l1 * l2 = cxx * cyy - cxy ^ 2 := by nlinarith
    rw [← this]; ring
  · exact mul_le_mul_of_nonneg_left (Real.sqrt_le_sqrt hle) hm

/-- the circular case `c = 0` (cxx = cyy, cxy = 0): the code reports α = 0 -/
theorem C09_ellipse_circle (q m : ℝ) : (stdErrorEllipse q 0 q m).2.2 = 0 := by
  rw [ellipse_general]; simp

/-! ## changing only the a priori reference standard deviation

  LS9 (`Gama/Lemmas/LS.lean`, P ↦ s²P): x and v are unchanged, Φ ↦ s²Φ, Q ↦ s⁻²Q, and the
  projector diagonal q_bb of the homogenised system is unchanged.  Given these as hypotheses
  about the inputs of the formulas, everything LocalNetwork reports except v'Pv, the weights
  and the quantities defined relative to σ_apr (m0 itself, the cofactors) is unchanged — in
  both modes of `sigma-act`. -/

/-- the reference deviation scales with σ_apr (so the tested ratio m0/σ_apr does not change) -/
theorem C09_sigma_apr_scaling_m0 (act : SigmaAct) (sapr phi s : ℝ) (dof : ℤ)
    (hs : 0 < s) (hsapr : sapr ≠ 0) :
    m0 act (s * sapr) (s ^ 2 * phi) dof = s * m0 act sapr phi dof ∧
    m0 act (s * sapr) (s ^ 2 * phi) dof / (s * sapr) = m0 act sapr phi dof / sapr := by
  have key : m0 act (s * sapr) (s ^ 2 * phi) dof = s * m0 act sapr phi dof := by
    cases act
    · rfl
    · simp only [m0]
      split_ifs with h
      · simp only [sqrt_real, ofInt_real]
        have : s ^ 2 * phi / (dof : ℝ) = s ^ 2 * (phi / (dof : ℝ)) := by ring
        rw [this, mul_comm (s ^ 2), Real.sqrt_mul' _ (sq_nonneg s), Real.sqrt_sq hs.le]; ring
      · simp
  refine ⟨key, ?_⟩
  rw [key]; field_simp

/-- every reported standard deviation, covariance and residual statistic is unchanged -/
theorem C09_sigma_apr_scaling (m sapr s q qbb stdev : ℝ) (hs : 0 < s) (hsapr : sapr ≠ 0)
    (hst : stdev ≠ 0) :
    unknownStdev (s * m) (q / s ^ 2) = unknownStdev m q ∧
    covEntry (s * m) (q / s ^ 2) = covEntry m q ∧
    sigmaL (s * m) (s * sapr) qbb stdev = sigmaL m sapr qbb stdev ∧
    weightObs (s * sapr) stdev = s ^ 2 * weightObs sapr stdev ∧
    wcoefRes qbb (weightObs (s * sapr) stdev) = wcoefRes qbb (weightObs sapr stdev) / s ^ 2 ∧
    stdevRes (s * m) (wcoefRes qbb (weightObs (s * sapr) stdev))
      = stdevRes m (wcoefRes qbb (weightObs sapr stdev)) := by
  have hsne : s ≠ 0 := hs.ne'
  have hs2 : 0 < s ^ 2 := by positivity
  have hw : weightObs (s * sapr) stdev = s ^ 2 * weightObs sapr stdev := by
    simp only [weightObs]; field_simp
  have hq : wcoefRes qbb (weightObs (s * sapr) stdev)
      = wcoefRes qbb (weightObs sapr stdev) / s ^ 2 := by
    rw [hw]; simp only [wcoefRes]
    have e : (1 - qbb) / (s ^ 2 * weightObs sapr stdev)
        = (1 - qbb) / weightObs sapr stdev / s ^ 2 := by
      rw [div_div, mul_comm]
    rw [e]
    by_cases h : 0 ≤ (1 - qbb) / weightObs sapr stdev
    · rw [if_pos h, if_pos (div_nonneg h hs2.le)]
    · rw [if_neg h, if_neg (fun h' => h (by
        have := mul_nonneg h' hs2.le
        rwa [div_mul_cancel₀ _ hs2.ne'] at this))]
      simp
  refine ⟨?_, ?_, ?_, hw, hq, ?_⟩
  · simp only [unknownStdev, sqrt_real]; rw [sqrt_div_sq _ s hs]; field_simp
  · simp only [covEntry]; field_simp
  · simp only [sigmaL]
    have : s * m / (s * sapr) = m / sapr := by field_simp
    rw [this]
  · rw [hq]; simp only [stdevRes, sqrt_real, abs_real]
    rw [abs_div, abs_of_pos hs2, sqrt_div_sq _ s hs]; field_simp

/-- the error ellipse is unchanged -/
theorem C09_sigma_apr_scaling_ellipse (cxx cxy cyy m s : ℝ) (hs : 0 < s) :
    stdErrorEllipse (cyy / s ^ 2) (cxy / s ^ 2) (cxx / s ^ 2) (s * m)
      = stdErrorEllipse cyy cxy cxx m :=
  ellipse_scale cxx cxy cyy m s hs

/-! ## non-vacuity: concrete instances meeting the hypotheses -/

-- a PSD block with distinct eigenvalues and a rotated axis: [[2,1],[1,1]]
example : (0:ℝ) ≤ 2 ∧ (0:ℝ) ≤ 1 ∧ (1:ℝ) ^ 2 ≤ 2 * 1 := by norm_num
-- a singular PSD block (b = 0): [[1,1],[1,1]]
example : (0:ℝ) ≤ 1 ∧ (1:ℝ) ^ 2 ≤ 1 * 1 := by norm_num
-- an axis-parallel ellipse evaluated: cxx = 4, cyy = 1, cxy = 0, m0 = 1 gives a = 2, b = 1, α = 0
example : stdErrorEllipse (1:ℝ) 0 4 1 = (2, 1, 0) := by
  rw [ellipse_val 4 0 1 1 (by norm_num) (by norm_num) (by norm_num)]
  have h9 : √((4 - 1) * (4 - 1) + 4 * 0 * 0 : ℝ) = 3 := by
    rw [show ((4 - 1) * (4 - 1) + 4 * 0 * 0 : ℝ) = 3 ^ 2 by norm_num]
    exact Real.sqrt_sq (by norm_num)
  rw [h9]
  have h4 : √((4 + 1 + 3) / 2 : ℝ) = 2 := by
    rw [show ((4 + 1 + 3) / 2 : ℝ) = 2 ^ 2 by norm_num]; exact Real.sqrt_sq (by norm_num)
  have h1 : √((4 + 1 - 3) / 2 : ℝ) = 1 := by
    rw [show ((4 + 1 - 3) / 2 : ℝ) = 1 by norm_num]; exact Real.sqrt_one
  rw [h4, h1]
  have hb : halfBearing (4 - 1) (2 * 0) = 0 := by
    unfold halfBearing
    have : (⟨4 - 1, 2 * 0⟩ : ℂ) = ((3 : ℝ) : ℂ) := by apply Complex.ext <;> norm_num
    rw [this, Complex.arg_ofReal_of_nonneg (by norm_num)]; norm_num
  rw [hb]; norm_num
-- m0: dof = 3, v'Pv = 12 gives m0² = 4
example : (0:ℤ) < 3 ∧ (0:ℝ) ≤ 12 := by norm_num
example : m0 .aposteriori (10:ℝ) 12 3 ^ 2 * ((3:ℤ):ℝ) = 12 := (C09_m0 10 12 3 (by norm_num) (by norm_num)).1
-- q_vv: σ_apr = 10, stdev = 5 (p = 4), q_bb = 0.4 gives 1/p − q_L = 0.25 − 0.1 ≥ 0
example : (0:ℝ) ≤ 1 / weightObs (10:ℝ) 5 - 0.4 / weightObs (10:ℝ) 5 := by
  rw [weightObs_eq]; norm_num
-- the clamp is reachable only with q_bb > 1 (rounding noise): q_bb = 1.5, p = 4
example : 1 / (4:ℝ) - 1.5 / 4 < 0 := by norm_num
-- scaling: s = 3, σ_apr = 10, stdev = 5
example : (0:ℝ) < 3 ∧ (10:ℝ) ≠ 0 ∧ (5:ℝ) ≠ 0 := by norm_num

end Gama.Props.C09
