/-
  C20 — the numeric decisions of `LocalNetwork` that remove points, for the world derived from a solver
  (`worldOf pe solver`, `Model/NetWorld.lean`):

  (A) the numeric half of `singular_coords(A)` (`Model/SingularCoords.lean`: the sums, the swap, the
      `aa == 0` guard, `D = 1 − |ab|/sqrt(aa·bb)`, `D < 1e-12`), tied to the real private member through
      the `sc` stream of `harness/c02_netdecision.cpp` / `drv_netdecision`;
  (B) the huge-covariance loop of `vyrovnani_()` (`σ₀·sqrt(q_xx) > 1e4` ⇒ remove, `update(Points)`, run
      again): every repeated round has removed at least one active coordinate group, the loop ends within
      `actives + 1` rounds, and what is finally reported contains no removed point: every recorded removal
      is in force in the final configuration, and no unknown of an adjusted final configuration belongs to
      a removed coordinate group.
-/
import Gama.Lemmas.SingularCoords
import Gama.Lemmas.NetRemoved
import Gama.Lemmas.NetWorldExamples
namespace Gama.Props.C20
open Gama Gama.Ls Gama.NetDecision Gama.SingularCoords

set_option linter.unusedSectionVars false

-- ------------------------------------------------------------------ (A) singular_coords, numeric half

section Singular
variable {K : Type} [Field K] [LinearOrder K] [IsStrictOrderedRing K] (sq : K → K)

/-- both coordinate columns exactly zero: the point is removed (the only guarded case, `aa == 0`) -/
theorem C20_singular_both_zero (ab : K) : degenB sq 0 ab 0 = true := degen_both_zero sq ab

/-- **the guard does not cover the division**: with exactly one zero column `aa ≠ 0` passes and the
    divisor `sqrt(aa·bb)` is 0; `D = 1 − 0/0` — field reading `D = 1`: the point stays, in either order of
    the columns (`double`: NaN compares false — same decision, checked by the `sc` stream) -/
theorem C20_singular_one_zero_column (hsq : IsSqrt sq) (aa ab : K) (haa : 0 < aa) :
    degenB sq aa ab 0 = false ∧ degenB sq 0 ab aa = false :=
  (degen_one_zero_column sq hsq aa ab haa).2

/-- both sums positive: removed ⇔ `(1 − 1e-12)·sqrt(aa·bb) < |ab|` -/
theorem C20_singular_iff (hsq : IsSqrt sq) (aa ab bb : K) (haa : 0 < aa) (hbb : 0 < bb) :
    degenB sq aa ab bb = true ↔ (1 - @eps12 K (MatVec.fieldScalar K sq)) * sq (aa * bb) < |ab| :=
  degen_iff sq hsq aa ab bb haa hbb

/-- exactly parallel columns are removed, orthogonal ones are kept; the test is symmetric -/
theorem C20_singular_parallel_orthogonal (hsq : IsSqrt sq) (aa ab bb : K) (haa : 0 < aa) (hbb : 0 < bb) :
    (ab * ab = aa * bb → degenB sq aa ab bb = true) ∧ degenB sq aa 0 bb = false
      ∧ degenB sq aa ab bb = degenB sq bb ab aa :=
  ⟨degen_parallel sq hsq aa ab bb haa hbb, degen_orthogonal sq hsq aa bb haa hbb,
    by unfold degenB; rw [degenD_swap]⟩

/-- non-vacuity: an exact square root exists (ℝ), and the hypotheses of the three theorems are met by
    `aa = 4, ab = 2·3, bb = 9` (columns (2,0), (3,0): parallel) -/
example : IsSqrt Real.sqrt ∧ (0 : ℝ) < 4 ∧ (0 : ℝ) < 9 ∧ (6 : ℝ) * 6 = 4 * 9 :=
  ⟨⟨fun _ h => Real.mul_self_sqrt h, fun _ _ => Real.sqrt_nonneg _⟩, by norm_num, by norm_num, by norm_num⟩

/-- the model at `Rat` on concrete columns (kernel evaluation; no square root is reached in the
    zero-column cases): both columns zero ⇒ removed; missing index ⇒ removed; fixed point ⇒ kept -/
example : (singularCoords (K := Rat) #[#[0, 0, 5, 1]] (fun u => match u with
      | .x 0 => 1 | .y 0 => 2 | .x 1 => 3 | .y 1 => 0 | .x 2 => 3 | .y 2 => 4 | _ => 0)
    [⟨"A", .free, .unused⟩, ⟨"B", .constrained, .unused⟩, ⟨"C", .fixed, .unused⟩])
    = (true, [⟨"A", .unused, .unused⟩, ⟨"B", .unused, .unused⟩, ⟨"C", .fixed, .unused⟩], ["A", "B"]) := by
  decide +kernel

end Singular

-- ------------------------------------------------------------------ (B) the huge-covariance loop

section HugeLoop
variable {K : Type} [Scalar K] {P : Type} (pe : Net → ProjEq P) (solver : P → SolverObs K) (m0 : K)

/-- **each repeated round removes at least one point**: if the pass over PD recorded a removal, the number
    of active coordinate groups of the configuration handed to the next round is strictly smaller -/
theorem C20_huge_round_removes (hpe : PEWF pe) (hB : Big K) (s : St) (hI : Inv ((worldOf pe solver).abs m0) s)
    (hr : (vR ((worldOf pe solver).abs m0) s).2.1 ≠ []) :
    actives (vS2 ((worldOf pe solver).abs m0) s).net < actives s.net :=
  vS2_actives _ (worldOf_WF pe solver m0 hpe hB) s hI hr

/-- **the loop terminates**: `vyrovnani_()` started on any state never needs more than `actives + 1` rounds -/
theorem C20_huge_loop_terminates (hpe : PEWF pe) (hB : Big K) (s : St) (hI : Inv ((worldOf pe solver).abs m0) s)
    (f : Nat) (hf : actives s.net < f) : (vyrovnani ((worldOf pe solver).abs m0) f s).2 ≠ .fuel :=
  vyrovnani_fuel _ (worldOf_WF pe solver m0 hpe hB) f s hI hf

/-- **what is finally reported contains no removed point**: for a network with distinct point ids whose
    `project_equations()` leaves the points alone, (1) every recorded removal `(id, code)` is in force in the
    final configuration — the groups of `code` are unused at point `id`; (2) if the verdict is `adjusted`,
    it was computed on a configuration `n0` whose points are the final points, the solver answered there,
    and NO unknown of `n0` belongs to a coordinate group named in the removal record -/
theorem C20_reported_excludes_removed (hpe : PEWF pe) (hB : Big K)
    (hstill : ∀ net, (pe net).net = net ∧ (pe net).rm = [])
    (dim : P → Nat) (hdim : ∀ net, dim (pe net).prob = (pe net).unknowns.length)
    (hC : ∀ net, (solver (pe net).prob).Counted (dim (pe net).prob))
    (net : Net) (hnd : IdsNodup net) :
    let r := generalParameters ((worldOf pe solver).abs m0) (fuelFor net) (fuelFor net) (St.init net)
    Gone r.1 ∧
    ∀ d, r.2 = .adjusted d → ∃ n0, (pe n0).net = r.1.net ∧ (solver (pe n0).prob).refused = none ∧
      ∀ u ∈ (pe n0).unknowns, ∀ idc ∈ r.1.removed, idc.1 = u.pid → idc.2.covers u = false := by
  intro r
  have hS : ((worldOf pe solver).abs m0).Still := fun n => hstill n
  have hg : Gone r.1 := decideA_gone _ hS net hnd
  refine ⟨hg, ?_⟩
  intro d hd
  obtain ⟨n0, h1, _, h3, _⟩ := decideA_adjusted _ (worldOf_RefusalFlags pe solver m0 dim hdim hC)
    (worldOf_RefusalFirst pe solver m0 hB) net d hd
  have h3' : (pe n0).net = r.1.net := h3
  refine ⟨n0, h3', ?_, ?_⟩
  · have h1' : (viewOf (pe n0) (solver (pe n0).prob)).resid = .ok () := h1
    unfold viewOf at h1'
    cases hr : (solver (pe n0).prob).refused with
    | none => rfl
    | some e => simp [hr] at h1'
  · intro u hu idc hidc hid
    cases hc : idc.2.covers u with
    | false => rfl
    | true =>
      exfalso
      obtain ⟨Q, hQ, hQid⟩ := hpe.unknown_point n0 u hu
      have hact := hpe.unknown_active n0 u hu Q hQ hQid
      rw [h3'] at hQ
      have hfix := hg idc hidc Q hQ (hQid.trans hid.symm)
      rw [covers_inactive Q idc.2 u hc hfix] at hact
      cases hact

end HugeLoop

/-- non-vacuity of (B): the world derived from the Gram–Schmidt model (`exPE`, `exSolver`) meets the
    hypotheses of `C20_huge_round_removes` / `C20_huge_loop_terminates`; its `project_equations()` leaves
    the points alone and `exNet` has distinct ids -/
example : PEWF exPE ∧ Big ℝ ∧ (∀ net, (exPE net).net = net ∧ (exPE net).rm = [])
    ∧ (∀ net, (exSolver (exPE net).prob).Counted (exDim (exPE net).prob)) ∧ IdsNodup exNet :=
  ⟨exPE_wf, big_field_gso, fun net => by unfold exPE; split <;> exact ⟨rfl, rfl⟩, exCounted, by unfold IdsNodup; decide⟩

/-- … and a concrete run of the loop at `Rat`: two points with σ₀·√q = 10·√q (the `Rat` signature reads
    `sqrt` as the identity): q = 2000 ⇒ 20000 > 1e4, B is removed (`huge_cov_z`), the second round adjusts
    A alone; the removed point is unused in what is reported -/
example :
    let W : World Rat := fun net =>
      let us : List Unknown := (net.filter fun Q => Q.z.active).map fun Q => ⟨Q.id, .Z⟩
      { net := net, rm := []
        view := { unknowns := us, nObs := 3, nPts := us.length, defect := 0, lindep := fun _ => false
                  qxx := fun i => .ok (if us.length = 2 ∧ i = 2 then 2000 else 1), resid := .ok () } }
    NetDecision.decide (10 : Rat) W [⟨"A", .unused, .free⟩, ⟨"B", .unused, .free⟩]
      = ([("B", .huge_cov_z)], .adjusted 0) := by
  decide +kernel

end Gama.Props.C20
