/-
  C20 / C02, decision layer on ONE hypothesis: the observations `LocalNetwork` makes of an envelope,
  a cholesky and a Gram–Schmidt solver object are `SolverObs.Sound` (refusal ⇔ ¬ Resolves, #named =
  defect = n − rank A, named unknowns truly dependent, removal leaves full rank) as soon as the
  problem satisfies the single exact hypothesis of `Props/C01/Gap2.lean`

      `RankGap A P S τ = GapAllP A P τ ∧ SMargin A S τ`     (`GapThresholds τ`, e.g. `τ = 2⁻¹³`)

  — no premise on any model's own trace is left in `obsEnv_sound`, `obsChol_sound`, `obsGso_sound`, hence
  none in `C20_adjusted_sound_*`, `C20_named_unknowns_dependent_*`, `C02_decision_agree_*` when their
  per-configuration hypotheses are discharged through these three theorems.  (For cholesky the flags read
  after a refusal come from the run with all unknowns in the list: its margin holds for every `τ < 1`.)
  Note: under `SMargin` the subset resolves, so the refusal clause of `Sound` is used in the direction
  "not refused"; the refusing configurations of a removal loop are NOT covered by the margin (their
  second stage needs the exact-zero norm, see `Props/C01/Gap2.lean` header).
-/
import Gama.Props.C20.WorldEnv
import Gama.Props.C01.Gap2
namespace Gama.Props.C20
open Gama Gama.Ls Gama.LS Gama.NetDecision Matrix

set_option linter.unusedSectionVars false
set_option linter.overlappingInstances false

section
variable {K : Type} [Field K] [LinearOrder K] [IsStrictOrderedRing K] [Gso.SqrtField K]
attribute [local instance] sqrtFnOfSqrtField
attribute [local instance 2000] scalarOfField

/-- **envelope observations are sound from ONE hypothesis on `(A, P, S)`** -/
theorem C20_env_sound_of_gap (p : Problem K) (hin : Env.InputOK p) (hreg : Env.RegListOK p)
    (P : Matrix (Fin p.m) (Fin p.m) K) (hP : p.C * P = 1) {τ : K} (hτ : GapThresholds τ)
    (h : RankGap p.A P p.S τ) (a : Answer K) (ha : envSolve p = .ok a) : (obsEnv p).Sound p.A p.S := by
  obtain ⟨hU, hGS⟩ := Env.solve_unambiguous_of_rankGap Gama.Props.C01.C01_gap2_isSqrt p hin hreg P hP hτ.env h
  exact obsEnv_sound Gama.Props.C01.C01_gap2_isSqrt p hin hreg hU hGS P hP a ha

/-- **cholesky observations are sound from ONE hypothesis on `(A, S)`** (unit weights: the solver class) -/
theorem C20_chol_sound_of_gap (p : Problem K) {τ : K} (hτ : GapThresholds τ) (hτ1 : τ < 1)
    (hG : GapAll p.A τ) (hM : SMargin p.A p.S τ) (hrl : Chol.regList p.n p.reg ≠ none) :
    (obsChol p).Sound p.A p.S := by
  have _ := lawfulSqrt_of_sqrtField (K := K)
  obtain ⟨hU, hgs⟩ := chol_unambiguous_of_gap2 p (Chol.GsSqrtExact.of_lawful p) hτ.chol1 hτ.chol hG hM
  have hA := chol_unambiguous_of_gap2 (allReg p) (Chol.GsSqrtExact.of_lawful _) hτ.chol1 hτ.chol hG
    (sMargin_all p (hτ.lt_one_sq hτ1))
  exact obsChol_sound p hU (Chol.GsSqrtExact.of_lawful p) hgs (Chol.GsSqrtExact.of_lawful _) hA.2 hrl

/-- **Gram–Schmidt observations are sound from ONE hypothesis on `(A, S)`** -/
theorem C20_gso_sound_of_gap (p : Problem K) {τ : K} (hτ : GapThresholds τ)
    (hG : GapAll p.A τ) (hM : SMargin p.A p.S τ) (hreg : Gso.regInRange p.n p.reg = true) :
    (obsGso p).Sound p.A p.S :=
  obsGso_sound p (gso_unambiguous_of_gap2 p hτ.nonneg hτ.gso hτ.le_one hG hM) hreg

end

section witness
attribute [local instance] sqrtFnOfSqrtField
attribute [local instance 2000] scalarOfField

/-- non-vacuity: `Ex.pR` over ℝ (`RankGap pR.A 1 pR.S ½`, `C01_rankgap_witness`) — all three observation
    records are sound, obtained from the three theorems; in particular all three name exactly one unknown
    and report `defect + rank A = 2` -/
example : (obsEnv Gso.Ex.pR).Sound Gso.Ex.pR.A Gso.Ex.pR.S
    ∧ (obsChol Gso.Ex.pR).Sound Gso.Ex.pR.A Gso.Ex.pR.S
    ∧ (obsGso Gso.Ex.pR).Sound Gso.Ex.pR.A Gso.Ex.pR.S := by
  have hw := Gama.Props.C01.C01_rankgap_witness
  obtain ⟨a, ha, -, -⟩ := Gso.Ex.pR_envSolve
  refine ⟨C20_env_sound_of_gap Gso.Ex.pR Gso.Ex.pR_input Gso.Ex.pR_regList 1
      (by rw [Gso.Ex.pR_C, Matrix.mul_one]) hw.2.1 hw.1 a ha,
    C20_chol_sound_of_gap Gso.Ex.pR hw.2.1 (by norm_num) GapEx.pR_gap Gso.Ex.pR_margin (by
      have : Chol.regList Gso.Ex.pR.n Gso.Ex.pR.reg = some [0] := rfl
      rw [this]; simp),
    C20_gso_sound_of_gap Gso.Ex.pR hw.2.1 GapEx.pR_gap Gso.Ex.pR_margin rfl⟩

end witness

end Gama.Props.C20
