/-
  C20 — Ill-posed networks are diagnosed: the svd solver's `defect()` and `lindep(i)`
  (`SVD::nullity`, `SVD::lindep(i) = (inv_W_(i) == 0)`).

  Same setting as `Props/C01/Svd.lean` (factors as a parameter, `SvdCert` as hypothesis);
  `Props/C20/SvdDecompose.lean` restates the theorems for the factors `Svd.decompose` returns,
  with `SvdCert` replaced by `Unambiguous tol W` (the rest of it is proved, `Svd.decompose_svdCert`).

  * `C20_svd_count`          : the number of null singular values is `n − rank A`          (holds)
  * `C20_svd_lindep_partial` : `lindep i` ⇔ the i-th SINGULAR VALUE is zero; the number of flags is
                               the defect                                                   (holds)
  * `C20_svd_lindep`         : the property's clause "the unknowns named as indeterminable are truly
                               linearly dependent" is FALSE for this solver — `lindep i` says nothing
                               about UNKNOWN i (finding F7, svd part).  Witness, with the factors the
                               real code computes: A = [[0,0,1],[0,0,0],[0,0,0]], W = (0,1,0): unknown 3
                               is the only determined one (every kernel vector vanishes there) and is
                               flagged, unknown 2 is undetermined (e₂ ∈ ker A) and is not flagged.
                               Replayed on the C++ (tools/props/svd_cert.py `check_lindep`,
                               corpus/C20/svd-lindep-singular-value.ops): flags 1 0 1.
    FULL STATEMENT that therefore cannot be proved:
      theorem C20_svd_lindep_true … (h : svdSolveCert … = .ok a) (i : Fin p.n)
          (hf : a.lindep (i+1) = .ok true) : A eᵢ ∈ span {A eⱼ | j ≠ i}
    The repair is behavioural (which unknowns to name needs a pivoted elimination on the null
    columns of V, as the other three solvers do on their factors): recorded as KNOWN FINDING.
-/
import Gama.Lemmas.Ls.SvdProps
import Gama.Lemmas.Ls.SvdExample
namespace Gama.Props.C20
open Gama Gama.Ls Gama.Ls.Svd Gama.LS Matrix

set_option linter.unusedSectionVars false

variable {K : Type} [Field K] [LinearOrder K] [IsStrictOrderedRing K] {sq : K → K}

/-- **C20 (svd, certificate)**: the reported defect — the number of null singular values — is
    `n − rank A` -/
theorem C20_svd_count (hs : SqrtLaw sq) (fixed : Bool) {tol : K} (htol : 0 ≤ tol) (p : Problem K) (d : Dec K)
    (hc : SvdCert sq tol p.m p.n (@Problem.dense K (fieldScalar sq) p) d) (hreg : RegOK p.reg) (a : Answer K)
    (h : @svdSolveCert K (fieldScalar sq) fixed tol d p = .ok a) :
    a.defect + (@Problem.A K (fieldScalar sq) p).rank = p.n :=
  (answerOf_defect hs fixed htol hc hreg h).1

/-- what `lindep` does mean on this solver: flag i ⇔ the i-th singular value is zero; the number
    of flags is the defect (= n − rank A by `C20_svd_count`) -/
theorem C20_svd_lindep_partial (hs : SqrtLaw sq) (fixed : Bool) {tol : K} (htol : 0 ≤ tol) (p : Problem K)
    (d : Dec K) (hc : SvdCert sq tol p.m p.n (@Problem.dense K (fieldScalar sq) p) d) (hreg : RegOK p.reg)
    (a : Answer K) (h : @svdSolveCert K (fieldScalar sq) fixed tol d p = .ok a) :
    (∀ i : Fin p.n, a.lindep (i.val + 1) = .ok (decide (toVec p.n d.W i = 0))) ∧
    a.defect = (Finset.univ.filter fun i : Fin p.n => a.lindep (i.val + 1) = .ok true).card := by
  obtain ⟨_, hcard, hlin⟩ := answerOf_defect hs fixed htol hc hreg h
  refine ⟨hlin, ?_⟩
  rw [hcard]; congr 1; ext i
  simp only [Finset.mem_filter, Finset.mem_univ, true_and, hlin i]
  constructor
  · intro h0; rw [decide_eq_true h0]
  · intro h1
    have : decide (toVec p.n d.W i = 0) = true := by
      injection h1
    simpa using this

/-- **the dependent-unknown clause of C20 fails on the faithful model (F7, svd part)**: a problem
    with a valid certificate on which the solver answers, `lindep 3` holds although unknown 3 is
    determined (every kernel vector of A vanishes there), and `lindep 2` does not hold although
    unknown 2 is undetermined (e₂ is a kernel vector). -/
theorem C20_svd_lindep_witness :
    SvdCert Ex.sqQ (1 / 1000) Ex.pF.m Ex.pF.n (@Problem.dense ℚ (fieldScalar Ex.sqQ) Ex.pF) Ex.dF ∧
    RegOK Ex.pF.reg ∧
    ∃ a : Answer ℚ, @svdSolveCert ℚ (fieldScalar Ex.sqQ) true (1 / 1000) Ex.dF Ex.pF = .ok a ∧
      a.lindep 3 = .ok true ∧ a.lindep 2 = .ok false ∧
      Ex.AF = @Problem.A ℚ (fieldScalar Ex.sqQ) Ex.pF ∧
      (∀ g : Fin 3 → ℚ, Ex.AF *ᵥ g = 0 → g 2 = 0) ∧
      Ex.AF *ᵥ (fun i : Fin 3 => if i = 1 then 1 else 0) = 0 := by
  obtain ⟨a, ha, _, h2, h3, _⟩ := Ex.pF_flags
  exact ⟨Ex.pF_cert, trivial, a, ha, h3, h2, Ex.AF_eq, Ex.pF_kernel.1, Ex.pF_kernel.2⟩

/-- **negation of the dependent-unknown clause** in its weakest reading ("a flagged unknown occurs in
    some kernel vector of A"): it is NOT true that every unknown the svd solver flags is undetermined,
    even with an exact certificate -/
theorem C20_svd_lindep :
    ¬ ∀ (p : Problem ℚ) (d : Dec ℚ) (a : Answer ℚ),
      SvdCert Ex.sqQ (1 / 1000) p.m p.n (@Problem.dense ℚ (fieldScalar Ex.sqQ) p) d → RegOK p.reg →
      @svdSolveCert ℚ (fieldScalar Ex.sqQ) true (1 / 1000) d p = .ok a →
      ∀ i : Fin p.n, a.lindep (i.val + 1) = .ok true →
        ∃ g : Fin p.n → ℚ, @Problem.A ℚ (fieldScalar Ex.sqQ) p *ᵥ g = 0 ∧ g i ≠ 0 := by
  intro H
  obtain ⟨hc, hr, a, ha, h3, _, _, hk, _⟩ := C20_svd_lindep_witness
  obtain ⟨g, hg, hne⟩ := H Ex.pF Ex.dF a hc hr ha ⟨2, by decide⟩ h3
  exact hne (hk g hg)

/-- non-vacuity over ℝ (`SqrtLaw Real.sqrt`): the same matrix with the same factors -/
example : SqrtLaw Real.sqrt ∧ (0 : ℝ) ≤ 1 / 1000 ∧
    SvdCert Real.sqrt (1 / 1000) Ex.pW.m Ex.pW.n (@Problem.dense ℝ (fieldScalar Real.sqrt) Ex.pW) Ex.dW ∧
    RegOK Ex.pW.reg ∧ ∃ a, @svdSolveCert ℝ (fieldScalar Real.sqrt) true (1 / 1000) Ex.dW Ex.pW = .ok a :=
  ⟨Ex.sqrtLaw_real, by norm_num, Ex.pW_cert, trivial, _, rfl⟩

/-- non-vacuity (evaluated over ℚ): defect 2 = 3 − rank A on the witness, flags (1, 0, 1) -/
example : ∃ a, @svdSolveCert ℚ (fieldScalar Ex.sqQ) true (1 / 1000) Ex.dF Ex.pF = .ok a ∧
    a.lindep 1 = .ok true ∧ a.lindep 2 = .ok false ∧ a.lindep 3 = .ok true ∧ a.defect = 2 :=
  Ex.pF_flags

end Gama.Props.C20
