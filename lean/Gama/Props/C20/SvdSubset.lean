/-
  C20 — when does the svd solver refuse a regularisation subset?  (`SVD::min_subset_x`: the test
  `defect > n_min` and, per null column, the test on its S-norm `s`; model `Svd.minSubsetX`.)

  Same setting as `Props/C01/Svd.lean` (factors as a parameter, `SvdCert` as hypothesis; restated for
  the factors `Svd.decompose` returns in `Props/C20/SvdDecompose.lean`).  The regularisation
  list has no repetitions and its indices lie in `1..n` (`Props/C08.lean : C08_minx_is_constrained` proves
  both for the list `LocalNetwork::project_equations` hands over).  `τ` is the threshold of the code:
  `W_tol` for the test `s <= W_tol·‖V_k‖` (`fixed = true`, the code as it is), `0` for the exact test
  `s == 0` (`fixed = false`, before b39e70e).

  * (a) a subset that does NOT resolve the defect is ALWAYS refused (`BadRegularization`), whatever `τ ≥ 0`;
  * (b) the only error is `BadRegularization`, and every refusal exhibits a non-zero datum transformation
        `g ∈ ker A` whose restriction to `S` is at most `τ` times its length: `Σ_{i∈S} g_i² ≤ τ²·Σ_i g_i²`;
  * (c) whenever the solver answers, `S` resolves the defect;
  * (d) hence a subset that resolves the defect with the margin `τ` (`τ²‖g‖² < ‖g_S‖²` on `ker A ∖ 0`) is
        ACCEPTED — in particular a subset of size exactly equal to the defect (the test is `defect > n_min`,
        not `>=`);
  * (e) for the exact test: refused ⇔ `S` does not resolve the defect.
-/
import Gama.Lemmas.Ls.SvdRefusal
import Gama.Lemmas.Ls.SvdSubsetExample
namespace Gama.Props.C20
open Gama Gama.Ls Gama.Ls.Svd Gama.LS Matrix

set_option linter.unusedSectionVars false

variable {K : Type} [Field K] [LinearOrder K] [IsStrictOrderedRing K] {sq : K → K}

theorem C20_svd_subset_refusal (hs : SqrtLaw sq) (fixed : Bool) {tol : K} (htol : 0 ≤ tol) (p : Problem K) (d : Dec K)
    (l : List Nat) (hp : p.reg = .subset l)
    (hc : SvdCert sq tol p.m p.n (@Problem.dense K (fieldScalar sq) p) d) (hnd : l.Nodup)
    (hr : ∀ i ∈ l, 1 ≤ i ∧ i ≤ p.n) :
    let A := @Problem.A K (fieldScalar sq) p
    let τ := if fixed then tol else 0
    (¬ Resolves A p.S → @svdSolveCert K (fieldScalar sq) fixed tol d p = .error .BadRegularization)
    ∧ (∀ e, @svdSolveCert K (fieldScalar sq) fixed tol d p = .error e →
        e = .BadRegularization ∧ ∃ g : Fin p.n → K, A *ᵥ g = 0 ∧ g ≠ 0 ∧ normS p.S g ≤ τ * τ * (g ⬝ᵥ g))
    ∧ (∀ a, @svdSolveCert K (fieldScalar sq) fixed tol d p = .ok a → Resolves A p.S)
    ∧ ((∀ g : Fin p.n → K, A *ᵥ g = 0 → g ≠ 0 → τ * τ * (g ⬝ᵥ g) < normS p.S g) →
        ∃ a, @svdSolveCert K (fieldScalar sq) fixed tol d p = .ok a)
    ∧ (fixed = false →
        (@svdSolveCert K (fieldScalar sq) fixed tol d p = .error .BadRegularization ↔ ¬ Resolves A p.S)) := by
  intro A τ
  have hS : p.S = Reg.toFinset p.n (.subset l) := by unfold Problem.S; rw [hp]
  have hsolve : @svdSolveCert K (fieldScalar sq) fixed tol d p
      = @answerOf K (fieldScalar sq) fixed tol p.m p.n (@Problem.dense K (fieldScalar sq) p) p.rhs (.subset l) d := by
    unfold svdSolveCert; rw [hp]
  obtain ⟨h1, h2, h3⟩ := answerOf_refusal (b := p.rhs) hs fixed htol hc hnd hr
  rw [hS, hsolve]
  refine ⟨h3, h1, h2, fun hmargin => ?_, fun hfx => ⟨fun herr hres => ?_, h3⟩⟩
  · cases hres : @answerOf K (fieldScalar sq) fixed tol p.m p.n (@Problem.dense K (fieldScalar sq) p) p.rhs (.subset l) d with
    | ok a => exact ⟨a, rfl⟩
    | error e =>
      obtain ⟨_, g, hg, hne, hle⟩ := h1 e hres
      exact absurd hle (not_le.mpr (hmargin g hg hne))
  · obtain ⟨_, g, hg, hne, hle⟩ := h1 _ herr
    subst hfx
    simp only [Bool.false_eq_true, if_false, mul_zero, zero_mul] at hle
    -- Σ_S g_i² ≤ 0 ⇒ g vanishes on S
    have hz : ∀ i ∈ Reg.toFinset p.n (.subset l), g i = 0 := by
      intro i hi
      have hnn : ∀ j ∈ Reg.toFinset p.n (.subset l), 0 ≤ g j * g j := fun j _ => mul_self_nonneg _
      have hsum : ∑ j ∈ Reg.toFinset p.n (.subset l), g j * g j = 0 :=
        le_antisymm hle (Finset.sum_nonneg hnn)
      have := (Finset.sum_eq_zero_iff_of_nonneg hnn).mp hsum i hi
      exact mul_self_eq_zero.mp this
    exact hne (hres g hg hz)

/-- non-vacuity, ACCEPTED: defect 2, subset {1,3} of size exactly = defect, null columns not orthogonal over
    the subset (they must be orthogonalised against each other) — certificate and list hypotheses hold and
    the model answers -/
example : SvdCert Gama.Ls.Svd.SubEx.sqE (1 / 1000) Gama.Ls.Svd.SubEx.pD.m Gama.Ls.Svd.SubEx.pD.n
      (@Problem.dense ℚ (fieldScalar Gama.Ls.Svd.SubEx.sqE) Gama.Ls.Svd.SubEx.pD) Gama.Ls.Svd.SubEx.dD
    ∧ Gama.Ls.Svd.SubEx.pD.reg = .subset [1, 3] ∧ [1, 3].Nodup ∧ (∀ i ∈ [1, 3], 1 ≤ i ∧ i ≤ Gama.Ls.Svd.SubEx.pD.n)
    ∧ ∃ a, @svdSolveCert ℚ (fieldScalar Gama.Ls.Svd.SubEx.sqE) true (1 / 1000) Gama.Ls.Svd.SubEx.dD Gama.Ls.Svd.SubEx.pD = .ok a
        ∧ a.defect = 2 :=
  ⟨Gama.Ls.Svd.SubEx.pD_cert, rfl, by decide, by decide, by
    obtain ⟨a, h1, _, h3⟩ := Gama.Ls.Svd.SubEx.pD_answer
    exact ⟨a, h1, h3⟩⟩

/-- non-vacuity, REFUSED by the count (`defect > n_min`): the same problem with one constrained unknown -/
example : @svdSolveCert ℚ (fieldScalar Gama.Ls.Svd.SubEx.sqE) true (1 / 1000) Gama.Ls.Svd.SubEx.dD
    { Gama.Ls.Svd.SubEx.pD with reg := .subset [2] } = .error .BadRegularization := Gama.Ls.Svd.SubEx.pD_refused

/-- non-vacuity, REFUSED by the S-norm test with |S| = defect: A = [[0,0,1],[0,0,0],[0,0,0]] (kernel spanned
    by e₁, e₂), subset {1, 3}: e₂ vanishes on it -/
example : (match @svdSolveCert ℚ (fieldScalar Svd.Ex.sqQ) true (1 / 1000) Svd.Ex.dF { Svd.Ex.pF with reg := .subset [1, 3] } with
    | .error e => some e | .ok _ => none) = some ErrKind.BadRegularization := by decide +kernel

end Gama.Props.C20
