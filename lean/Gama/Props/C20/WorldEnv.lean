/-
  C20, decision layer: the ENVELOPE and the SVD instance (`Props/C20/World.lean` has gso, cholesky).

  Envelope (`obsEnv p` = what `LocalNetwork` observes of an `AdjEnvelope` object: `envSolve p`, i.e.
  `Homogenization::run` + reverse Cuthill–McKee + `envCore`; `unknowns()`/`q_xx` throw `a.xErr`, `defect()` and
  `lindep(i)` of the same record answer after the throw).  `obsEnv_sound` (Lemmas/NetWorldEnv.lean) carries the
  solver facts of `Props/C20/Env.lean` — stated in PROCESSING order on `envCore`'s permuted matrix — to the
  numbering of the PROBLEM through `OrdOK.equiv` and `ker_orig_iff`; hypotheses are only the envelope model's
  own, bundled per problem in `EnvHyp`: `Env.InputOK`, `Env.RegListOK`, `Env.SolveUnambiguous`,
  `Env.SolveGSUnambiguous`, a weight matrix `p.C * P = 1`, and "no covariance block is rejected"
  (`envSolve p` does not err; otherwise `C20_env_rejected_block`), plus the global square-root law.

    `C20_world_env_hypotheses`          `WF`, `RefusalFlags`, `RefusalFirst` of `worldOf pe obsEnv` are theorems;
    `C20_adjusted_sound_env`            verdict `adjusted d` ⇒ final configuration answered, `Resolves A S`,
                                        `d = n − rank A`, `d ≤ min_n`;
    `C20_named_unknowns_dependent_env`  every named unknown moves along a kernel vector of `A`; a kernel vector
                                        vanishing on the named ones is 0; #named = defect = n − rank A.

  Svd (`obsSvdCert fixed tol (dec p) p` = the post-decomposition model with the factors `dec p`, here under
  `SvdCert`; `Props/C20/SvdDecompose.lean` restates `C20_adjusted_sound_svd` & co. for `dec p` = what
  `Svd.decompose` returns, with `Unambiguous tol W` in its place).  EXACTLY what holds (`C20_svd_sound_partial`):
    * `Counted`: #flags = defect; a refusal happens only with defect > 0;
    * defect + rank A = n;
    * only `BadRegularization` is thrown; a subset that does NOT resolve the defect is always refused; an
      answer ⇒ `Resolves A S`; a refusal exhibits `g ∈ ker A ∖ 0` with `‖g_S‖² ≤ τ²‖g‖²` (`τ = W_tol`); for the
      exact test (`fixed = false`) refused ⇔ ¬ Resolves;
  hence ALL termination / verdict theorems hold for svd (`C20_world_svd_hypotheses`, `C20_adjusted_sound_svd`;
  `C20_removal_terminates_solver` needs nothing).  What does NOT hold: `SolverObs.Sound` — its clauses
  `dependent` ("a named unknown moves along a kernel vector") and `fullRank` ("removing the named unknowns
  leaves full column rank") fail: `SVD::lindep(i)` tests the i-th SINGULAR VALUE (finding F7-svd), witness
  `C20_named_unknowns_dependent_svd_false` (Props/C20/World.lean), restated for `obsSvdCert` as
  `C20_svd_not_sound`; and `Sound.refusal` holds only in the direction ⇐ for the code's test (`fixed = true`:
  a resolving subset inside the margin band may be refused).
-/
import Gama.Props.C20.World
import Gama.Props.C20.SvdSubset
import Gama.Lemmas.NetWorldEnv
import Gama.Lemmas.Ls.ComposeJointExample
namespace Gama.Props.C20
open Gama Gama.Ls Gama.LS Gama.NetDecision Matrix

set_option linter.unusedSectionVars false
set_option linter.overlappingInstances false

-- ------------------------------------------------------------------ envelope

section EnvWorld
variable {K : Type} [Field K] [LinearOrder K] [IsStrictOrderedRing K] [SqrtFn K]
attribute [local instance 2000] scalarOfField

variable (pe : Net → ProjEq (Problem K)) (m0 : K)

/-- **the three world hypotheses are theorems for the envelope solver** -/
theorem C20_world_env_hypotheses (hsq : IsSqrt (SqrtFn.sq : K → K)) (hpe : PEWF pe)
    (hdim : ∀ net, (pe net).prob.n = (pe net).unknowns.length) (hH : ∀ net, EnvHyp (pe net).prob) :
    ((worldOf pe obsEnv).abs m0).WF ∧ ((worldOf pe obsEnv).abs m0).RefusalFlags
      ∧ ((worldOf pe obsEnv).abs m0).RefusalFirst :=
  ⟨C20_world_WF pe obsEnv m0 hpe big_field_chol,
   C20_world_RefusalFlags pe obsEnv m0 (fun p => p.n) hdim (fun n => (obsEnv_sound_of hsq _ (hH n)).counted),
   C20_world_RefusalFirst pe obsEnv m0 big_field_chol⟩

/-- **no adjustment for a refused configuration** with the envelope model as the solver: only the solver's
    own hypotheses (`EnvHyp`, the square-root law) and the shape of the project equations -/
theorem C20_adjusted_sound_env (hsq : IsSqrt (SqrtFn.sq : K → K))
    (hdim : ∀ net, (pe net).prob.n = (pe net).unknowns.length) (hH : ∀ net, EnvHyp (pe net).prob)
    (net : Net) (d : Nat) (h : (NetDecision.decide m0 (worldOf pe obsEnv) net).2 = .adjusted d) :
    ∃ n0, (obsEnv (pe n0).prob).refused = none ∧ (obsEnv (pe n0).prob).defect = d ∧
      Resolves (pe n0).prob.A (pe n0).prob.S ∧ d + (pe n0).prob.A.rank = (pe n0).prob.n ∧
      (pe n0).net = (generalParameters ((worldOf pe obsEnv).abs m0) (fuelFor net) (fuelFor net) (St.init net)).1.net ∧
      d ≤ minN (pe n0).unknowns (pe n0).net := by
  have hS := fun n => obsEnv_sound_of hsq (pe n).prob (hH n)
  obtain ⟨n0, h1, h2, h3, h4⟩ := C20_adjusted_sound_solver pe obsEnv m0 big_field_chol (fun p => p.n) hdim
    (fun n => (hS n).counted) net d h
  refine ⟨n0, h1, h2, ?_, by rw [← h2]; exact (hS n0).rank, h3, h4⟩
  by_contra hnr
  have := (hS n0).refusal.2 hnr
  rw [h1] at this; cases this

/-- **C20_named_unknowns_dependent (envelope), at network level, in the numbering of the problem**: on every
    configuration the unknowns `GeneralParameters` / `null_space` name are truly dependent, removing them leaves
    full column rank, and their number is the defect `n − rank A` -/
theorem C20_named_unknowns_dependent_env (hsq : IsSqrt (SqrtFn.sq : K → K)) (hH : ∀ net, EnvHyp (pe net).prob)
    (net : Net) :
    let p := (pe net).prob
    let fl := flaggedOf p.n (obsEnv p).lindep
    (∀ i ∈ fl, ∃ (hi : i - 1 < p.n) (g : Fin p.n → K), p.A *ᵥ g = 0 ∧ g ⟨i - 1, hi⟩ ≠ 0) ∧
    (∀ g : Fin p.n → K, p.A *ᵥ g = 0 → (∀ j : Fin p.n, j.val + 1 ∈ fl → g j = 0) → g = 0) ∧
    fl.length = (obsEnv p).defect ∧ (obsEnv p).defect + p.A.rank = p.n := by
  intro p fl
  have hS := obsEnv_sound_of hsq (pe net).prob (hH net)
  refine ⟨?_, ?_, hS.count, hS.rank⟩
  · intro i hi
    obtain ⟨h1, h2, h3⟩ := mem_flaggedOf.1 hi
    have hlt : i - 1 < p.n := by omega
    obtain ⟨g, hg, hne⟩ := hS.dependent ⟨i - 1, hlt⟩ (by simpa [Nat.sub_add_cancel h1] using h3)
    exact ⟨hlt, g, hg, hne⟩
  · intro g hg hz
    exact hS.fullRank g hg (fun j hj => hz j (mem_flaggedOf.2 ⟨by omega, Nat.succ_le_of_lt j.isLt, hj⟩))

/-- outside `EnvHyp.accepted`: when `Homogenization::run` rejects a covariance block every query of the object
    throws `NonPositiveDefinite` (`C01_envsolve_throws`); the observation is "refused with that error, defect 0,
    nothing named" — not a `BadRegularization`, so `null_space` is never entered -/
theorem C20_env_rejected_block (p : Problem K) (e : ErrKind) (h : envSolve p = .error e) :
    (obsEnv p).refused = some .NonPositiveDefinite ∧ (obsEnv p).defect = 0 ∧ flaggedOf p.n (obsEnv p).lindep = [] := by
  obtain ⟨h1, h2, h3⟩ := obsEnv_error p e h
  refine ⟨h1, h2, ?_⟩
  cases hfl : flaggedOf p.n (obsEnv p).lindep with
  | nil => rfl
  | cons i t =>
    have hi : i ∈ flaggedOf p.n (obsEnv p).lindep := by rw [hfl]; exact List.mem_cons_self ..
    have := (mem_flaggedOf.1 hi).2.2
    rw [h3 i] at this; cases this

end EnvWorld

section EnvWitness
open Gama.Ls.Gso
attribute [local instance] sqrtFnOfSqrtField

/-- non-vacuity of `C20_world_env_hypotheses` / `C20_adjusted_sound_env` / `C20_named_unknowns_dependent_env`:
    project equations that always produce the singular system `Ex.pR` over ℝ (two heights, A = [1 1; 0 0],
    list {1}, defect 1) meet every hypothesis — `EnvHyp` evaluated through the whole `envSolve` chain -/
example : IsSqrt (SqrtFn.sq : ℝ → ℝ) ∧ (∀ net, (pRPE net).prob.n = (pRPE net).unknowns.length)
    ∧ (∀ net, EnvHyp (pRPE net).prob) :=
  ⟨isSqrt_sqrtField, fun _ => rfl, fun _ => pR_envHyp⟩

/-- … and the conclusion of `C20_named_unknowns_dependent_env` OBTAINED FROM THE THEOREM on it: exactly one
    unknown is named (defect 1 = 2 − rank A) and it moves along a kernel vector -/
example : (flaggedOf 2 (obsEnv Ex.pR).lindep).length = 1 ∧ Ex.pR.A.rank = 1
    ∧ ∀ i ∈ flaggedOf 2 (obsEnv Ex.pR).lindep, ∃ (hi : i - 1 < 2) (g : Fin 2 → ℝ), Ex.pR.A *ᵥ g = 0 ∧ g ⟨i - 1, hi⟩ ≠ 0 := by
  obtain ⟨h1, -, h3, h4⟩ := C20_named_unknowns_dependent_env pRPE isSqrt_sqrtField (fun _ => pR_envHyp) []
  obtain ⟨a, ha, -, hd⟩ := Ex.pR_envSolve
  have hdef : (obsEnv Ex.pR).defect = 1 := by rw [obsEnv_eq Ex.pR a ha]; exact hd
  have h3' : (flaggedOf 2 (obsEnv Ex.pR).lindep).length = (obsEnv Ex.pR).defect := h3
  have h4' : (obsEnv Ex.pR).defect + Ex.pR.A.rank = 2 := h4
  refine ⟨by rw [h3', hdef], by omega, h1⟩

/-- non-vacuity of `C20_world_env_hypotheses` INCLUDING `PEWF`: the network code `envPE` (two heights A, B with B
    constrained: the singular `Ex.pR` on the full configuration, the empty problem otherwise) meets every hypothesis,
    and the three world hypotheses are OBTAINED FROM THE THEOREM -/
example (m0 : ℝ) : PEWF envPE ∧ (∀ net, (envPE net).prob.n = (envPE net).unknowns.length) ∧ (∀ net, EnvHyp (envPE net).prob)
    ∧ ((worldOf envPE obsEnv).abs m0).WF ∧ ((worldOf envPE obsEnv).abs m0).RefusalFlags
    ∧ ((worldOf envPE obsEnv).abs m0).RefusalFirst :=
  ⟨envPE_wf, envPE_dim, envPE_hyp, C20_world_env_hypotheses envPE m0 isSqrt_sqrtField envPE_wf envPE_dim envPE_hyp⟩

end EnvWitness

-- ------------------------------------------------------------------ svd

section SvdWorld
open Gama.Ls.Svd
variable {K : Type} [Field K] [LinearOrder K] [IsStrictOrderedRing K] {sq : K → K}

/-- **what survives of `SolverObs.Sound` for the svd model** (certificate; list without repetitions, in range):
    `Counted`, defect = n − rank A, only `BadRegularization`, non-resolving ⇒ refused, refused ⇒ a non-zero
    kernel vector with small S-part, answered ⇒ resolves, exact test ⇒ refused ⇔ ¬ Resolves.
    NOT: `dependent`, `fullRank` (`C20_svd_not_sound`) -/
theorem C20_svd_sound_partial (hs : SqrtLaw sq) (fixed : Bool) {tol : K} (htol : 0 ≤ tol) (p : Problem K) (d : Dec K)
    (hc : SvdCert sq tol p.m p.n (@Problem.dense K (fieldScalar sq) p) d)
    (hr : ∀ l, p.reg = .subset l → l.Nodup ∧ ∀ i ∈ l, 1 ≤ i ∧ i ≤ p.n) :
    let o := @obsSvdCert K (fieldScalar sq) fixed tol d p
    let A := @Problem.A K (fieldScalar sq) p
    let τ := if fixed then tol else 0
    o.Counted p.n ∧ o.defect + A.rank = p.n
    ∧ (¬ Resolves A p.S → o.refused = some .BadRegularization)
    ∧ (∀ e, o.refused = some e →
        e = .BadRegularization ∧ ∃ g : Fin p.n → K, A *ᵥ g = 0 ∧ g ≠ 0 ∧ normS p.S g ≤ τ * τ * (g ⬝ᵥ g))
    ∧ (o.refused = none → Resolves A p.S)
    ∧ (fixed = false → (o.refused = some .BadRegularization ↔ ¬ Resolves A p.S)) := by
  intro o A τ
  have hreg : Svd.RegOK p.reg := by
    cases hp : p.reg with
    | none => trivial
    | all => trivial
    | subset l => exact (hr l hp).1
  obtain ⟨c1, c2⟩ := obsSvdCert_counted hs fixed htol p d hc hreg
  have href := @obsSvdCert_refused K (fieldScalar sq) fixed tol d p
  refine ⟨c1, c2, ?_⟩
  cases hp : p.reg with
  | subset l =>
    obtain ⟨s1, s2, s3, -, s5⟩ := C20_svd_subset_refusal hs fixed htol p d l hp hc (hr l hp).1 (hr l hp).2
    refine ⟨fun hn => ?_, fun e he => ?_, fun hn => ?_, fun hf => ⟨fun he => ?_, fun hn => ?_⟩⟩
    · show o.refused = _
      rw [href, s1 hn]
    · have he' : o.refused = some e := he
      rw [href] at he'
      cases hsv : @svdSolveCert K (fieldScalar sq) fixed tol d p with
      | ok a => rw [hsv] at he'; cases he'
      | error e' => rw [hsv] at he'; cases he'; exact s2 e hsv
    · have hn' : o.refused = none := hn
      rw [href] at hn'
      cases hsv : @svdSolveCert K (fieldScalar sq) fixed tol d p with
      | ok a => exact s3 a hsv
      | error e' => rw [hsv] at hn'; cases hn'
    · have he' : o.refused = some .BadRegularization := he
      rw [href] at he'
      cases hsv : @svdSolveCert K (fieldScalar sq) fixed tol d p with
      | ok a => rw [hsv] at he'; cases he'
      | error e' => rw [hsv] at he'; cases he'; exact (s5 hf).1 hsv
    · show o.refused = _
      rw [href, (s5 hf).2 hn]
  | none =>
    have hS : p.S = Finset.univ := by unfold Problem.S; rw [hp]; rfl
    have hres : Resolves A p.S := by
      intro g _ hz; funext i; exact hz i (by rw [hS]; exact Finset.mem_univ i)
    have hok : ∃ a, @svdSolveCert K (fieldScalar sq) fixed tol d p = .ok a := by
      unfold svdSolveCert answerOf; rw [hp]; exact ⟨_, rfl⟩
    obtain ⟨a, ha⟩ := hok
    have hnone : o.refused = none := by show (@obsSvdCert K (fieldScalar sq) fixed tol d p).refused = _; rw [href, ha]
    refine ⟨fun hn => absurd hres hn, fun e he => ?_, fun _ => hres, fun _ => ⟨fun he => ?_, fun hn => absurd hres hn⟩⟩
    · rw [hnone] at he; cases he
    · rw [hnone] at he; cases he
  | all =>
    have hS : p.S = Finset.univ := by unfold Problem.S; rw [hp]; rfl
    have hres : Resolves A p.S := by
      intro g _ hz; funext i; exact hz i (by rw [hS]; exact Finset.mem_univ i)
    have hok : ∃ a, @svdSolveCert K (fieldScalar sq) fixed tol d p = .ok a := by
      unfold svdSolveCert answerOf; rw [hp]; exact ⟨_, rfl⟩
    obtain ⟨a, ha⟩ := hok
    have hnone : o.refused = none := by show (@obsSvdCert K (fieldScalar sq) fixed tol d p).refused = _; rw [href, ha]
    refine ⟨fun hn => absurd hres hn, fun e he => ?_, fun _ => hres, fun _ => ⟨fun he => ?_, fun hn => absurd hres hn⟩⟩
    · rw [hnone] at he; cases he
    · rw [hnone] at he; cases he

variable (pe : Net → ProjEq (Problem K)) (m0 : K) (dec : Problem K → Dec K) (fixed : Bool) (tol : K)

/-- **the three world hypotheses are theorems for the svd solver** (certificate for the factors `dec p` of
    every configuration's problem) — although its flags name the wrong unknowns -/
theorem C20_world_svd_hypotheses (hs : SqrtLaw sq) (htol : 0 ≤ tol) (hpe : PEWF pe)
    (hdim : ∀ net, (pe net).prob.n = (pe net).unknowns.length)
    (hc : ∀ net, SvdCert sq tol (pe net).prob.m (pe net).prob.n (@Problem.dense K (fieldScalar sq) (pe net).prob)
      (dec (pe net).prob))
    (hreg : ∀ net, Svd.RegOK (pe net).prob.reg) :
    let W := @worldOf K (Problem K) pe (fun p => @obsSvdCert K (fieldScalar sq) fixed tol (dec p) p)
    (@World.abs K (fieldScalar sq) m0 W).WF ∧ (@World.abs K (fieldScalar sq) m0 W).RefusalFlags
      ∧ (@World.abs K (fieldScalar sq) m0 W).RefusalFirst := by
  intro W
  exact ⟨@C20_world_WF K (fieldScalar sq) _ pe (fun p => @obsSvdCert K (fieldScalar sq) fixed tol (dec p) p) m0 hpe
     big_fieldScalar,
   @C20_world_RefusalFlags K (fieldScalar sq) _ pe (fun p => @obsSvdCert K (fieldScalar sq) fixed tol (dec p) p) m0
     (fun p => p.n) hdim
     (fun n => (obsSvdCert_counted hs fixed htol (pe n).prob (dec (pe n).prob) (hc n) (hreg n)).1),
   @C20_world_RefusalFirst K (fieldScalar sq) _ pe (fun p => @obsSvdCert K (fieldScalar sq) fixed tol (dec p) p) m0
     big_fieldScalar⟩

/-- **C20_adjusted_sound for svd**: a verdict `adjusted d` comes from a final configuration on which the svd
    object answered, with defect `d = n − rank A`, `d ≤ min_n`, and a regularisation list that resolves the
    defect — from `Counted` (`C20_svd_count`/`C20_svd_lindep_partial`) and `C20_svd_subset_refusal` (c), although
    clause 2 (named unknowns dependent) is false for svd -/
theorem C20_adjusted_sound_svd (hs : SqrtLaw sq) (htol : 0 ≤ tol)
    (hdim : ∀ net, (pe net).prob.n = (pe net).unknowns.length)
    (hc : ∀ net, SvdCert sq tol (pe net).prob.m (pe net).prob.n (@Problem.dense K (fieldScalar sq) (pe net).prob)
      (dec (pe net).prob))
    (hr : ∀ net l, (pe net).prob.reg = .subset l → l.Nodup ∧ ∀ i ∈ l, 1 ≤ i ∧ i ≤ (pe net).prob.n)
    (net : Net) (d : Nat)
    (h : (@NetDecision.decide K (fieldScalar sq) m0
      (worldOf pe (fun p => @obsSvdCert K (fieldScalar sq) fixed tol (dec p) p)) net).2 = .adjusted d) :
    ∃ n0, (@obsSvdCert K (fieldScalar sq) fixed tol (dec (pe n0).prob) (pe n0).prob).refused = none ∧
      (@obsSvdCert K (fieldScalar sq) fixed tol (dec (pe n0).prob) (pe n0).prob).defect = d ∧
      Resolves (@Problem.A K (fieldScalar sq) (pe n0).prob) (pe n0).prob.S ∧
      d + (@Problem.A K (fieldScalar sq) (pe n0).prob).rank = (pe n0).prob.n ∧
      (pe n0).net = (generalParameters (@World.abs K (fieldScalar sq) m0
        (worldOf pe (fun p => @obsSvdCert K (fieldScalar sq) fixed tol (dec p) p)))
        (fuelFor net) (fuelFor net) (St.init net)).1.net ∧
      d ≤ minN (pe n0).unknowns (pe n0).net := by
  have hP := fun n => C20_svd_sound_partial hs fixed htol (pe n).prob (dec (pe n).prob) (hc n) (hr n)
  obtain ⟨n0, h1, h2, h3, h4⟩ := @C20_adjusted_sound_solver K (fieldScalar sq) _ pe
    (fun p => @obsSvdCert K (fieldScalar sq) fixed tol (dec p) p) m0 big_fieldScalar (fun p => p.n) hdim
    (fun n => (hP n).1) net d h
  obtain ⟨-, p2, -, -, p5, -⟩ := hP n0
  exact ⟨n0, h1, h2, p5 h1, by rw [← h2]; exact p2, h3, h4⟩

end SvdWorld

section SvdWitness
open Gama.Ls.Svd Gama.Ls.Gso

/-- the negative statement of `Props/C20/World.lean` for `obsSvdCert`: on `Ex.pF` (exact certificate, the object
    answers) the observations are `Counted` but NOT `Sound` — unknown 3 is named, every kernel vector vanishes there -/
theorem C20_svd_not_sound :
    (@obsSvdCert ℚ (fieldScalar Svd.Ex.sqQ) true (1 / 1000) Svd.Ex.dF Svd.Ex.pF).Counted Svd.Ex.pF.n ∧
    ¬ (@obsSvdCert ℚ (fieldScalar Svd.Ex.sqQ) true (1 / 1000) Svd.Ex.dF Svd.Ex.pF).Sound
        (@Problem.A ℚ (fieldScalar Svd.Ex.sqQ) Svd.Ex.pF) (Problem.S Svd.Ex.pF) := by
  obtain ⟨a', ha', hns⟩ := C20_named_unknowns_dependent_svd_false
  obtain ⟨a, ha, l1, l2, l3, hd⟩ := Svd.Ex.pF_flags
  have haa : a' = a := by rw [ha] at ha'; exact (Except.ok.inj ha').symm
  subst haa
  have ho : @obsSvdCert ℚ (fieldScalar Svd.Ex.sqQ) true (1 / 1000) Svd.Ex.dF Svd.Ex.pF
      = @obsOfAnswer ℚ (fieldScalar Svd.Ex.sqQ) a' none := by
    unfold obsSvdCert; rw [ha]
  rw [ho]
  refine ⟨⟨?_, fun h => by cases h⟩, hns⟩
  have f1 : (@obsOfAnswer ℚ (fieldScalar Svd.Ex.sqQ) a' none).lindep 1 = true := by
    unfold obsOfAnswer; simp only [l1]
  have f2 : (@obsOfAnswer ℚ (fieldScalar Svd.Ex.sqQ) a' none).lindep 2 = false := by
    unfold obsOfAnswer; simp only [l2]
  have f3 : (@obsOfAnswer ℚ (fieldScalar Svd.Ex.sqQ) a' none).lindep 3 = true := by
    unfold obsOfAnswer; simp only [l3]
  show (flaggedOf 3 _).length = a'.defect
  rw [hd]
  simp [flaggedOf, List.range_succ, f1, f2, f3]

/-- non-vacuity of `C20_svd_sound_partial` / `C20_world_svd_hypotheses` / `C20_adjusted_sound_svd` over ℝ
    (`SqrtLaw Real.sqrt`): the project equations that always produce `Ex.pR` with the explicit certified factors
    `Ex.dR` (A = U diag(√2, 0) Vᵀ) meet every hypothesis -/
example : SqrtLaw (SqrtField.sqrt : ℝ → ℝ) ∧ (0 : ℝ) ≤ 1 / 1000
    ∧ (∀ net, (pRPE net).prob.n = (pRPE net).unknowns.length)
    ∧ (∀ net, SvdCert (SqrtField.sqrt : ℝ → ℝ) (1 / 1000) (pRPE net).prob.m (pRPE net).prob.n
        (@Problem.dense ℝ (fieldScalar SqrtField.sqrt) (pRPE net).prob) Gso.Ex.dR)
    ∧ (∀ net l, (pRPE net).prob.reg = .subset l → l.Nodup ∧ ∀ i ∈ l, 1 ≤ i ∧ i ≤ (pRPE net).prob.n) :=
  ⟨Svd.Ex.sqrtLaw_real, by norm_num, fun _ => rfl, fun _ => Gso.Ex.pR_svdCert, fun _ l hl => by
    have : l = [1] := by
      have h : Reg.subset [1] = Reg.subset l := hl
      injection h with h'; exact h'.symm
    subst this
    exact ⟨by decide, fun i hi => by simp at hi; subst hi; exact ⟨le_refl _, (by decide : 1 ≤ 2)⟩⟩⟩

/-- … and the conclusion OBTAINED FROM `C20_svd_sound_partial` on it: the svd object answers `Ex.pR`
    (its list {1} resolves the defect), reports defect 1 = 2 − rank A and names exactly one unknown -/
example : (@obsSvdCert ℝ (fieldScalar SqrtField.sqrt) true (1 / 1000) Gso.Ex.dR Gso.Ex.pR).refused = none
    ∧ (flaggedOf 2 (@obsSvdCert ℝ (fieldScalar SqrtField.sqrt) true (1 / 1000) Gso.Ex.dR Gso.Ex.pR).lindep).length
        + (@Problem.A ℝ (fieldScalar SqrtField.sqrt) Gso.Ex.pR).rank = 2 := by
  obtain ⟨c, hrk, -⟩ := C20_svd_sound_partial Svd.Ex.sqrtLaw_real true (by norm_num : (0 : ℝ) ≤ 1 / 1000)
    Gso.Ex.pR Gso.Ex.dR Gso.Ex.pR_svdCert (fun l hl => by
      have : l = [1] := by
        have h : Reg.subset [1] = Reg.subset l := hl
        injection h with h'; exact h'.symm
      subst this
      exact ⟨by decide, by decide⟩)
  obtain ⟨a, ha⟩ := Gso.Ex.pR_svd_answers
  refine ⟨by rw [obsSvdCert_refused, ha], ?_⟩
  have hcnt : (flaggedOf 2 (@obsSvdCert ℝ (fieldScalar SqrtField.sqrt) true (1 / 1000) Gso.Ex.dR Gso.Ex.pR).lindep).length
      = (@obsSvdCert ℝ (fieldScalar SqrtField.sqrt) true (1 / 1000) Gso.Ex.dR Gso.Ex.pR).defect := c.count
  rw [hcnt]; exact hrk

/-- non-vacuity of `C20_world_svd_hypotheses` INCLUDING `PEWF`: the network code `envPE` with the factors `envDec`
    (`Ex.dR` for `Ex.pR`, empty for the empty problem) meets every hypothesis; conclusion obtained from the theorem -/
example (m0 : ℝ) : PEWF envPE ∧ (∀ net, Svd.RegOK (envPE net).prob.reg)
    ∧ (@World.abs ℝ (fieldScalar SqrtField.sqrt) m0 (worldOf envPE
        (fun p => @obsSvdCert ℝ (fieldScalar SqrtField.sqrt) true (1 / 1000) (envDec p) p))).RefusalFlags := by
  have hreg : ∀ net, Svd.RegOK (envPE net).prob.reg := by
    intro net
    cases hp : (envPE net).prob.reg with
    | none => trivial
    | all => trivial
    | subset l => exact (envPE_list net l hp).1
  exact ⟨envPE_wf, hreg, (C20_world_svd_hypotheses envPE m0 envDec true (1 / 1000) Svd.Ex.sqrtLaw_real (by norm_num)
    envPE_wf envPE_dim envPE_cert hreg).2.1⟩

end SvdWitness

end Gama.Props.C20
