/-
  C20 — `C20_adjusted_sound_of_project_equations` with the per-configuration hypothesis SHRUNK to the configurations the
  removal loops can reach (round 12; audit #4: "`WorldHyp` quantifies over every `dnet`, no ℝ witness").

  `WorldHyp t base alg` asks `NetHyp alg np` of the output of `project_equations()` for EVERY `dnet : List NetDecision.Point`
  (any length, ids, statuses).  The decision layer only asks the world about configurations in a set `R` that contains the given
  network and is closed under its own steps (`NetDecision.Closed`: what `project_equations()` returns as points, a pass of the
  huge-covariance loop, the removal of a flagged unknown — all of which only make coordinate groups unused:
  `SubOf net` is closed under the last two, `C20_subOf_closed_steps`).  Then `NetHyp` is needed on `R` only, the decision is
  unchanged (`Lemmas/NetDecisionRestrict.lean`: `decideA_congr`), and the conclusion is the one of the unrestricted theorem
  for the world restricted to `R` (`peOn t R base`: `peWorld base` on `R`, the empty response elsewhere).
-/
import Gama.Props.C20.ProjectEquations
import Gama.Lemmas.C20Reachable
namespace Gama.Props.C20
open Gama Gama.Ls Gama.Ls.Net Gama.LS Gama.NetDecision Gama.PE Matrix

set_option linter.unusedSectionVars false
set_option linter.overlappingInstances false

/-- the two removal operations of the decision layer keep a configuration among the sub-configurations of the given one
    (same ids, every status the given one or `unused`) — whatever the world -/
theorem C20_subOf_closed_steps (net : NetDecision.Net) :
    SubOf net net ∧ (∀ a n, SubOf net n → SubOf net (hugePass a n).1) ∧
    (∀ pid c n, SubOf net n → SubOf net (n.map fun P => if P.id == pid then P.strip c else P)) :=
  ⟨SubOf.refl net, fun a _ h => h.hugePass a, fun pid c _ h => h.mapStrip pid c⟩

section field
variable {K : Type} [Field K] [LinearOrder K] [IsStrictOrderedRing K] [Gso.SqrtField K]
attribute [local instance] sqrtFnOfSqrtField
attribute [local instance 2000] scalarOfField

variable (t : TrigFns K) (base : PE.Net K) (alg : Alg) (m0 : K)

/-- **C20_adjusted_sound for `LocalNetwork`, hypothesis on the REACHABLE configurations only.**  `R` any set of
    configurations closed under the steps of the decision layer for the executed world; `NetHyp alg np` asked only of the
    outputs of `project_equations()` on configurations of `R`; `net ∈ R`.  If the removal loops run on the EXECUTED world
    end with `adjusted d`, the final configuration `n0` is one on which `netSolve alg` answered with `a.defect = d`, `min_x_`
    resolves the defect, `d = n − rank A`, `d ≤ min_n` — read from the world restricted to `R`. -/
theorem C20_adjusted_sound_of_project_equations_reachable (halg : alg ≠ .svd) (hds : DirFromStation base)
    (R : NetDecision.Net → Prop)
    (hcl : Closed R ((worldOf (@peWorld K (trigOfField t) base) (obsNet alg)).abs m0))
    (hH : ∀ dnet, R dnet → ∀ np, (@peWorld K (trigOfField t) base dnet).prob = some np → NetHyp alg np)
    (net : NetDecision.Net) (hnet : R net) (d : Nat)
    (h : (NetDecision.decide m0 (worldOf (@peWorld K (trigOfField t) base) (obsNet alg)) net).2 = .adjusted d) :
    ∃ n0,
      (∀ np0, (peOn t R base n0).prob = some np0 →
        (∃ a, netSolve alg np0 = .ok a ∧ a.defect = d) ∧
        Resolves (toProblem np0).A (toProblem np0).S ∧ d + (toProblem np0).A.rank = np0.n) ∧
      ((peOn t R base n0).prob = none → d = 0) ∧
      (peOn t R base n0).net =
        (generalParameters ((worldOf (peOn t R base) (obsNet alg)).abs m0) (fuelFor net) (fuelFor net) (St.init net)).1.net ∧
      d ≤ minN (peOn t R base n0).unknowns (peOn t R base n0).net := by
  rw [peOn_decide t R base alg m0 hcl net hnet] at h
  have hS := peOn_sound t R base alg halg hH
  obtain ⟨n0, h1, h2, h3, h4⟩ := C20_adjusted_sound_solver _ (obsNet alg) m0 big_field_chol
    (fun P => (linO P).n) (peOn_hdim t R base hds) (fun dnet => (hS dnet).counted) net d h
  refine ⟨n0, ?_, ?_, h3, h4⟩
  · intro np0 hp
    have hS0 := hS n0
    rw [hp] at h1 h2 hS0
    obtain ⟨-, t2, t3⟩ := obsNet_tie alg np0
    obtain ⟨a, ha⟩ := t3 h1
    refine ⟨⟨a, ha, by rw [← (t2 a ha).2.1]; exact h2⟩, ?_, by rw [← h2]; exact hS0.rank⟩
    by_contra hnr
    have := hS0.refusal.2 hnr
    rw [h1] at this; cases this
  · intro hp
    rw [hp] at h2
    exact h2.symm

/-- **… at `R := SubOf net`** (round 13): the sub-configurations of the given network — same ids, every status the given one
    or `unused` — are closed under everything the decision layer does with the executed world (`closed_subOf`:
    `project_equations()` only makes coordinate groups unused, `peWorld_subOf`, from `pe_final`'s `Below`).  So the ONLY
    per-configuration hypothesis left is `NetHyp alg np` on the (finitely many) sub-configurations of `net` -/
theorem C20_adjusted_sound_of_project_equations_subconfigurations (halg : alg ≠ .svd) (hds : DirFromStation base)
    (net : NetDecision.Net)
    (hH : ∀ dnet, SubOf net dnet → ∀ np, (@peWorld K (trigOfField t) base dnet).prob = some np → NetHyp alg np)
    (d : Nat)
    (h : (NetDecision.decide m0 (worldOf (@peWorld K (trigOfField t) base) (obsNet alg)) net).2 = .adjusted d) :
    ∃ n0,
      (∀ np0, (peOn t (SubOf net) base n0).prob = some np0 →
        (∃ a, netSolve alg np0 = .ok a ∧ a.defect = d) ∧
        Resolves (toProblem np0).A (toProblem np0).S ∧ d + (toProblem np0).A.rank = np0.n) ∧
      ((peOn t (SubOf net) base n0).prob = none → d = 0) ∧
      (peOn t (SubOf net) base n0).net =
        (generalParameters ((worldOf (peOn t (SubOf net) base) (obsNet alg)).abs m0) (fuelFor net) (fuelFor net)
          (St.init net)).1.net ∧
      d ≤ minN (peOn t (SubOf net) base n0).unknowns (peOn t (SubOf net) base n0).net :=
  C20_adjusted_sound_of_project_equations_reachable t base alg m0 halg hds (SubOf net) (closed_subOf t base alg m0 net) hH
    net (SubOf.refl net) d h

/-- the unrestricted theorem is the case `R = everything` (so nothing is lost) -/
example (halg : alg ≠ .svd) (hH : WorldHyp t base alg) :
    Closed (fun _ => True) ((worldOf (@peWorld K (trigOfField t) base) (obsNet alg)).abs m0) ∧
    (∀ dnet, (fun _ : NetDecision.Net => True) dnet → ∀ np,
      (@peWorld K (trigOfField t) base dnet).prob = some np → NetHyp alg np) :=
  ⟨⟨fun _ _ => trivial, fun _ _ _ => trivial, fun _ _ _ _ => trivial⟩, fun dnet _ np hp => hH dnet np hp⟩

end field

end Gama.Props.C20
