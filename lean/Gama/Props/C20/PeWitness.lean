/-
  C20 — what IS witnessed over ℝ of the per-configuration hypothesis of `C20_adjusted_sound_of_project_equations(_reachable)`:
  the GIVEN configuration of `Ex.netWobs` (`Lemmas/PeWitnessReal.lean`).  `dnetObs` = the ids and statuses of `netWobs`
  (`A` fixed, `B` constrained, `C` free; no xy); `peWorld netWobs dnetObs` hands over the evaluated `npO`, and `NetHyp alg npO`
  holds for gso (`RowsOK`, `m0 ≠ 0`, `Σ` invertible, `Net.SolverHyp .gso` from the proved `RankGap`; gso has no second stage).  NOT witnessed: `NetHyp` on the 7 proper sub-configurations (`SubOf dnetObs`) the loops could
  reach — each needs its own evaluated `projectEquations` (one of them with `Σ₁₁ = 40`, `√10`).
-/
import Gama.Props.C20.ProjectEquationsReachable
import Gama.Lemmas.PeWitnessReal
import Gama.Lemmas.PeWitnessSub
import Gama.Lemmas.PeWitnessSub3
namespace Gama.Props.C20
open Gama Gama.Ls Gama.Ls.Net Gama.LS Gama.NetDecision Gama.PE Gama.C06NZ Gama.C06NZ.Ex Matrix

section witness
attribute [local instance] sqrtFnOfSqrtField
attribute [local instance 2000] scalarOfField
attribute [local instance 3000] fieldTrig

/-- **`NetHyp .gso` on the system `project_equations()` hands over for the given configuration of `netWobs`** -/
theorem C20_nethyp_given_configuration_pe_witness :
    PE.projectEquations netWobs = .ok (npO, uO) ∧ NetHyp .gso npO :=
  ⟨peO,
   { rows := npG_rows [1], m0 := npG_m0 [1], weight := ⟨PcG [1], npG_sigma_inv [1]⟩
     first := Props.C01.C01_net_solverhyp_of_gap npO (npG_dims [1]) (npG_rows [1]) (npG_m0 [1]) (PcG [1])
       (npG_sigma_inv [1]) (npG_reg [1] (Or.inl rfl)) Props.C01.C01_gap_thresholds_default (npG_rankGap [1]) .gso (by decide)
     second := trivial }⟩

/-- **the configurations the removal loops can reach from `netWobs`** (round 13): `dcfg fixed constrained free` IS the
    configuration of `netWobs` (`withStatuses` gives `netWobs` back), and its sub-configurations are exactly the 2³ choices
    "height kept / unused" — the finite set on which `C20_adjusted_sound_of_project_equations_subconfigurations` asks `NetHyp` -/
theorem C20_subconfigurations_of_netWobs :
    withStatuses netWobs (dcfg .fixed .constrained .free) = netWobs ∧
    ∀ n, SubOf (dcfg .fixed .constrained .free) n →
      ∃ zA zB zC, n = dcfg zA zB zC ∧ (zA = .fixed ∨ zA = .unused) ∧ (zB = .constrained ∨ zB = .unused) ∧
        (zC = .free ∨ zC = .unused) ∧ withStatuses netWobs n = netWs (ofC zA) (ofC zB) (ofC zC) :=
  ⟨rfl, fun n h => by
    obtain ⟨zA, zB, zC, rfl, hA, hB, hC⟩ := subOf_dcfg n h
    exact ⟨zA, zB, zC, rfl, hA, hB, hC, withStatuses_cfg zA zB zC⟩⟩

/-- **`NetHyp .gso` on 6 of the 8 sub-configurations of `netWobs`**, each on the EVALUATED output of `project_equations()`:
    the given configuration, `(fixed, unused, free)` (one row `A→C`), and the four on which no observation survives the
    revision (empty system).  NOT covered: `(fixed, constrained, unused)` (one row `A→B`, active pattern `[t,f,f]`) and
    `(unused, constrained, free)` (one row `B→C`, `activeCov() = [40]`) -/
theorem C20_nethyp_subconfigurations_pe_witness (zA zB zC : CStat)
    (hA : zA = .fixed ∨ zA = .unused) (hB : zB = .constrained ∨ zB = .unused) (hC : zC = .free ∨ zC = .unused)
    (hnot : ¬ (zA = .fixed ∧ zB = .constrained ∧ zC = .unused) ∧ ¬ (zA = .unused ∧ zB = .constrained ∧ zC = .free))
    (np : NetProblem ℝ) (hp : (peWorld netWobs (dcfg zA zB zC)).prob = some np) : NetHyp .gso np := by
  by_cases he : (zA = .unused ∧ zB = .unused) ∨ (zA = .unused ∧ zC = .unused) ∨ (zB = .unused ∧ zC = .unused)
  · exact empty_cfg_netHyp zA zB zC he hA hB hC np hp
  · rcases hA with rfl | rfl <;> rcases hB with rfl | rfl <;> rcases hC with rfl | rfl
    · have h : projectEquations (withStatuses netWobs (dcfg .fixed .constrained .free)) = .ok (npO, uO) := peO
      rw [peWorld_prob_eq netWobs _ _ _ h np hp]
      exact C20_nethyp_given_configuration_pe_witness.2
    · exact absurd ⟨rfl, rfl, rfl⟩ hnot.1
    · exact cfg3_netHyp np hp
    · exact absurd (Or.inr (Or.inr ⟨rfl, rfl⟩)) he
    · exact absurd ⟨rfl, rfl, rfl⟩ hnot.2
    · exact absurd (Or.inr (Or.inl ⟨rfl, rfl⟩)) he
    · exact absurd (Or.inl ⟨rfl, rfl⟩) he
    · exact absurd (Or.inl ⟨rfl, rfl⟩) he

end witness

end Gama.Props.C20
