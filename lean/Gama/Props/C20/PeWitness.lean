/-
  C20 — what IS witnessed over ℝ of the per-configuration hypothesis of `C20_adjusted_sound_of_project_equations(_reachable)`:
  the GIVEN configuration of `Ex.netWobs` (`Lemmas/PeWitnessReal.lean`).  `dnetObs` = the ids and statuses of `netWobs`
  (`A` fixed, `B` constrained, `C` free; no xy); `peWorld netWobs dnetObs` hands over the evaluated `npO`, and `NetHyp alg npO`
  holds for gso (`RowsOK`, `m0 ≠ 0`, `Σ` invertible, `Net.SolverHyp .gso` from the proved `RankGap`; gso has no second stage).  NOT witnessed: `NetHyp` on the 7 proper sub-configurations (`SubOf dnetObs`) the loops could
  reach — each needs its own evaluated `projectEquations` (one of them with `Σ₁₁ = 40`, `√10`).
-/
import Gama.Props.C20.ProjectEquationsReachable
import Gama.Lemmas.PeWitnessReal
namespace Gama.Props.C20
open Gama Gama.Ls Gama.Ls.Net Gama.LS Gama.NetDecision Gama.PE Gama.C06NZ Gama.C06NZ.Ex Matrix

section witness
attribute [local instance] sqrtFnOfSqrtField
attribute [local instance 2000] scalarOfField
attribute [local instance 3000] fieldTrig

/-- **`NetHyp .gso` on the system `project_equations()` hands over for the given configuration of `netWobs`** -/
theorem C20_nethyp_given_configuration_pe_witness :
    PE.projectEquations netWobs = .ok (npO, uO) ∧ NetHyp .gso npO :=
  ⟨peO,
   { rows := npG_rows [1], m0 := npG_m0 [1], weight := ⟨PcG [1], npG_sigma_inv [1]⟩
     first := Props.C01.C01_net_solverhyp_of_gap npO (npG_dims [1]) (npG_rows [1]) (npG_m0 [1]) (PcG [1])
       (npG_sigma_inv [1]) (npG_reg [1] (Or.inl rfl)) Props.C01.C01_gap_thresholds_default (npG_rankGap [1]) .gso (by decide)
     second := trivial }⟩

end witness

end Gama.Props.C20
