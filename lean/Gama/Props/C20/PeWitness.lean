/-
  C20 — what IS witnessed over ℝ of the per-configuration hypothesis of `C20_adjusted_sound_of_project_equations(_reachable)`:
  the GIVEN configuration of `Ex.netWobs` (`Lemmas/PeWitnessReal.lean`).  `dnetObs` = the ids and statuses of `netWobs`
  (`A` fixed, `B` constrained, `C` free; no xy); `peWorld netWobs dnetObs` hands over the evaluated `npO`, and `NetHyp alg npO`
  holds for gso (`RowsOK`, `m0 ≠ 0`, `Σ` invertible, `Net.SolverHyp .gso` from the proved `RankGap`; gso has no second stage).  NOT witnessed: `NetHyp` on the 7 proper sub-configurations (`SubOf dnetObs`) the loops could
  reach — each needs its own evaluated `projectEquations` (one of them with `Σ₁₁ = 40`, `√10`).
-/
import Gama.Props.C20.ProjectEquationsReachable
import Gama.Lemmas.PeWitnessReal
import Gama.Lemmas.PeWitnessSub
import Gama.Lemmas.PeWitnessSub3
import Gama.Lemmas.PeWitnessSub2
import Gama.Lemmas.PeWitnessSub4
namespace Gama.Props.C20
open Gama Gama.Ls Gama.Ls.Net Gama.LS Gama.NetDecision Gama.PE Gama.C06NZ Gama.C06NZ.Ex Matrix

section witness
attribute [local instance] sqrtFnOfSqrtField
attribute [local instance 2000] scalarOfField
attribute [local instance 3000] fieldTrig

/-- **`NetHyp .gso` on the system `project_equations()` hands over for the given configuration of `netWobs`** -/
theorem C20_nethyp_given_configuration_pe_witness :
    PE.projectEquations netWobs = .ok (npO, uO) ∧ NetHyp .gso npO :=
  ⟨peO,
   { rows := npG_rows [1], m0 := npG_m0 [1], weight := ⟨PcG [1], npG_sigma_inv [1]⟩
     first := Props.C01.C01_net_solverhyp_of_gap npO (npG_dims [1]) (npG_rows [1]) (npG_m0 [1]) (PcG [1])
       (npG_sigma_inv [1]) (npG_reg [1] (Or.inl rfl)) Props.C01.C01_gap_thresholds_default (npG_rankGap [1]) .gso (by decide)
     second := trivial }⟩

/-- **the configurations the removal loops can reach from `netWobs`** (round 13): `dcfg fixed constrained free` IS the
    configuration of `netWobs` (`withStatuses` gives `netWobs` back), and its sub-configurations are exactly the 2³ choices
    "height kept / unused" — the finite set on which `C20_adjusted_sound_of_project_equations_subconfigurations` asks `NetHyp` -/
theorem C20_subconfigurations_of_netWobs :
    withStatuses netWobs (dcfg .fixed .constrained .free) = netWobs ∧
    ∀ n, SubOf (dcfg .fixed .constrained .free) n →
      ∃ zA zB zC, n = dcfg zA zB zC ∧ (zA = .fixed ∨ zA = .unused) ∧ (zB = .constrained ∨ zB = .unused) ∧
        (zC = .free ∨ zC = .unused) ∧ withStatuses netWobs n = netWs (ofC zA) (ofC zB) (ofC zC) :=
  ⟨rfl, fun n h => by
    obtain ⟨zA, zB, zC, rfl, hA, hB, hC⟩ := subOf_dcfg n h
    exact ⟨zA, zB, zC, rfl, hA, hB, hC, withStatuses_cfg zA zB zC⟩⟩

/-- **`NetHyp .gso` on ALL 8 sub-configurations of `netWobs`**, each on the EVALUATED output of `project_equations()`:
    the given configuration (3 rows, correlated), `(fixed, constrained, unused)` (one row `A→B`, active pattern `[t,f,f]` of the
    correlated cluster), `(fixed, unused, free)` (one row `A→C`), `(unused, constrained, free)` (one row `B→C`, pattern `[f,f,t]`,
    `activeCov() = [40]`, `√10` symbolic, defect 1 resolved by `min_x_ = [1]`), and the four on which no observation survives the
    revision (empty system) -/
theorem C20_nethyp_subconfigurations_pe_witness (zA zB zC : CStat)
    (hA : zA = .fixed ∨ zA = .unused) (hB : zB = .constrained ∨ zB = .unused) (hC : zC = .free ∨ zC = .unused)
    (np : NetProblem ℝ) (hp : (peWorld netWobs (dcfg zA zB zC)).prob = some np) : NetHyp .gso np := by
  by_cases he : (zA = .unused ∧ zB = .unused) ∨ (zA = .unused ∧ zC = .unused) ∨ (zB = .unused ∧ zC = .unused)
  · exact empty_cfg_netHyp zA zB zC he hA hB hC np hp
  · rcases hA with rfl | rfl <;> rcases hB with rfl | rfl <;> rcases hC with rfl | rfl
    · have h : projectEquations (withStatuses netWobs (dcfg .fixed .constrained .free)) = .ok (npO, uO) := peO
      rw [peWorld_prob_eq netWobs _ _ _ h np hp]
      exact C20_nethyp_given_configuration_pe_witness.2
    · exact cfg2_netHyp np hp
    · exact cfg3_netHyp np hp
    · exact absurd (Or.inr (Or.inr ⟨rfl, rfl⟩)) he
    · exact cfg4_netHyp np hp
    · exact absurd (Or.inr (Or.inl ⟨rfl, rfl⟩)) he
    · exact absurd (Or.inl ⟨rfl, rfl⟩) he
    · exact absurd (Or.inl ⟨rfl, rfl⟩) he

/-- the per-configuration hypothesis of `C20_adjusted_sound_of_project_equations_subconfigurations` on `netWobs`: `NetHyp .gso` on
    EVERY configuration the removal loops can reach from the given one — the first ℝ witness of the (shrunk) `WorldHyp` -/
theorem C20_worldhyp_reachable_pe_witness (dnet : NetDecision.Net) (h : SubOf (dcfg .fixed .constrained .free) dnet)
    (np : NetProblem ℝ) (hp : (peWorld netWobs dnet).prob = some np) : NetHyp .gso np := by
  obtain ⟨zA, zB, zC, rfl, hA, hB, hC⟩ := subOf_dcfg dnet h
  exact C20_nethyp_subconfigurations_pe_witness zA zB zC hA hB hC np hp

/-- **`C20_adjusted_sound_of_project_equations_subconfigurations` applied to `netWobs`** (gso): `DirFromStation` (no stand-point
    cluster) and the per-configuration hypothesis on all 8 reachable configurations are DISCHARGED; what is left is the theorem's
    own antecedent, the verdict of the removal loops on the executed world (not evaluated: it needs the cofactors `q_xx(i,i)` of
    `netSolve .gso npO` as numbers for the huge-covariance test) -/
theorem C20_adjusted_sound_pe_witness (m0 : ℝ) (d : Nat)
    (h : (NetDecision.decide m0 (worldOf (peWorld netWobs) (obsNet .gso)) (dcfg .fixed .constrained .free)).2 = .adjusted d) :
    ∃ n0,
      (∀ np0, (peOn realTrig (SubOf (dcfg .fixed .constrained .free)) netWobs n0).prob = some np0 →
        (∃ a, netSolve .gso np0 = .ok a ∧ a.defect = d) ∧
        Resolves (toProblem np0).A (toProblem np0).S ∧ d + (toProblem np0).A.rank = np0.n) ∧
      ((peOn realTrig (SubOf (dcfg .fixed .constrained .free)) netWobs n0).prob = none → d = 0) ∧
      d ≤ minN (peOn realTrig (SubOf (dcfg .fixed .constrained .free)) netWobs n0).unknowns
        (peOn realTrig (SubOf (dcfg .fixed .constrained .free)) netWobs n0).net := by
  have hds : DirFromStation netWobs := by
    intro c hc st o hst
    have : c.stand = none := by
      simp only [netWobs, netWg, List.mem_cons, List.not_mem_nil, or_false] at hc
      rcases hc with rfl | rfl | rfl <;> rfl
    rw [this] at hst; cases hst
  obtain ⟨n0, h1, h2, -, h4⟩ := C20_adjusted_sound_of_project_equations_subconfigurations realTrig netWobs .gso m0 (by decide) hds
    (dcfg .fixed .constrained .free) C20_worldhyp_reachable_pe_witness d h
  exact ⟨n0, h1, h2, h4⟩

end witness

end Gama.Props.C20
