/-
  C20 — Ill-posed networks are diagnosed: dependent-unknown flags of the envelope solver.

  Setting as in `Props/C01/Env.lean`.  `Ap` is the homogenised design matrix with its columns
  in processing order (the new numbering, any ordering); `lindep(i)` of the repaired code
  (repo commit fcb9aa0, `envelope.diagonal(ordering.invp(i))`) is `EnvAnswer.lindepFixed`.
-/
import Gama.Lemmas.Ls.EnvLindep
import Gama.Lemmas.Ls.EnvAnswer
import Gama.Lemmas.Ls.EnvRank
import Gama.Lemmas.Ls.EnvExamples
namespace Gama.Props.C20
open Gama Gama.Ls Gama.Ls.Env Gama.LS Matrix

set_option linter.unusedSectionVars false
variable {K : Type} [Field K] [LinearOrder K] [IsStrictOrderedRing K] (sq : K → K)

/-- `lindep(i)` reads the pivot of unknown `i` at its position in the ordering -/
theorem C20_env_lindep_reads_pivot (tol stol : K) (m n : ℕ) (A : DMat K) (b : Array K) (At : DMat K)
    (bt : Array K) (reg : Reg) (o : EnvOrd) (i : Fin n) (hk : o.invp.getD i 0 < n) :
    (@envCore K (fieldScalar sq) tol stol m n A b At bt reg o).lindepFixed (i + 1)
      = .ok (decide (Df sq (NF sq tol m n At bt o) tol (o.invp.getD i 0) = 0)) := by
  have hi : (decide (1 ≤ i.1 + 1) && decide (i.1 + 1 ≤ n)) = true := by simp
  show (if (decide (1 ≤ i.1 + 1) && decide (i.1 + 1 ≤ n)) = true then
      Except.ok (@Scalar.beq K (fieldScalar sq) (@Dget K (fieldScalar sq) (@factor K (fieldScalar sq) tol m n At bt o).rows
        (o.invp.getD (i.1 + 1 - 1) 0)) 0)
    else Except.error ErrKind.NotModelled) = _
  rw [if_pos hi, Nat.add_sub_cancel]
  congr 1
  show @Scalar.beq K (fieldScalar sq) (@Dget K (fieldScalar sq)
    (@ldl K (fieldScalar sq) (NF sq tol m n At bt o) tol n) (o.invp.getD i 0)) 0 = _
  rw [Dget_ldl sq _ tol hk, fs_beq]

/-- **C20 (envelope)**: with unambiguous pivots, the pivot at position `k` of the ordering is
    zero — the unknown there is flagged — iff its column of the homogenised design matrix is a
    linear combination of the columns processed before it: flagged unknowns are truly
    linearly dependent, unflagged ones are not (on the earlier ones) -/
theorem C20_env_lindep_true (tol : K) (m n : ℕ) (At : DMat K) (bt : Array K) (o : EnvOrd)
    (hU : FactUnambiguous sq tol m n At bt o) (k : Fin n) :
    Df sq (NF sq tol m n At bt o) tol k = 0 ↔
      colV m (@factor K (fieldScalar sq) tol m n At bt o).Ap k
        ∈ Submodule.span K (colV m (@factor K (fieldScalar sq) tol m n At bt o).Ap '' {j | j < k.1}) :=
  pivot_zero_iff_mem_span (NF_gram sq tol m n At bt o) (isLDL_model sq hU) k.2

/-- **C20 (envelope)**: the number of flagged unknowns equals `defect()` -/
theorem C20_env_count (tol stol : K) (m n : ℕ) (A : DMat K) (b : Array K) (At : DMat K) (bt : Array K)
    (reg : Reg) (o : EnvOrd) (hU : FactUnambiguous sq tol m n At bt o) (htol : 0 < tol) :
    (@envCore K (fieldScalar sq) tol stol m n A b At bt reg o).defect
      = ((Finset.range n).filter fun k => Df sq (NF sq tol m n At bt o) tol k = 0).card :=
  defectOf_eq_card_zero sq _ tol hU htol

/-- every pivot of a Gram matrix is non-negative: the zero test `|d| < tol` never hides a
    negative pivot -/
theorem C20_env_pivot_nonneg (tol : K) (m n : ℕ) (At : DMat K) (bt : Array K) (o : EnvOrd)
    (hU : FactUnambiguous sq tol m n At bt o) (k : Fin n) : 0 ≤ Df sq (NF sq tol m n At bt o) tol k :=
  gram_pivot_nonneg (NF_gram sq tol m n At bt o) (isLDL_model sq hU) k.2

/-- **C20 (envelope)**: `defect() = n − rank` : `rank Ã + defect() = n` for the homogenised design
    matrix in the numbering of the problem (`rank (W A) = rank A` for the invertible `W`) -/
theorem C20_env_defect_rank (tol stol : K) (m n : ℕ) (A : DMat K) (b : Array K) (At : DMat K) (bt : Array K)
    (reg : Reg) (o : EnvOrd) (hO : OrdOK n o) (hU : FactUnambiguous sq tol m n At bt o) (htol : 0 < tol) :
    (toMatrix m n At).rank + (@envCore K (fieldScalar sq) tol stol m n A b At bt reg o).defect = n := by
  have h := rank_add_defect sq tol m n At bt o hU htol
  rw [ApM_eq_submatrix sq tol m n At bt o hO] at h
  have e : ((toMatrix m n At).submatrix id hO.equiv).rank = (toMatrix m n At).rank :=
    Matrix.rank_submatrix (toMatrix m n At) (Equiv.refl _) hO.equiv
  rw [e] at h
  exact h

/-- **C20 (envelope)**: deleting the flagged unknowns leaves a design matrix of full column rank —
    a vanishing combination of the unflagged columns has all coefficients 0 -/
theorem C20_env_removal_full_rank (tol : K) (m n : ℕ) (At : DMat K) (bt : Array K) (o : EnvOrd)
    (hU : FactUnambiguous sq tol m n At bt o) (c : ℕ → K)
    (hsum : ∑ j ∈ (Finset.range n).filter (fun j => Df sq (NF sq tol m n At bt o) tol j ≠ 0),
      c j • colV m (@factor K (fieldScalar sq) tol m n At bt o).Ap j = 0) :
    ∀ j < n, Df sq (NF sq tol m n At bt o) tol j ≠ 0 → c j = 0 :=
  unflagged_independent (NF_gram sq tol m n At bt o) (isLDL_model sq hU) c n le_rfl hsum

/-! ### the defect found in `AdjEnvelope::lindep` (fixed in repo commit fcb9aa0)

  Before the fix `lindep(i)` read `envelope.diagonal(i)` — the pivot at POSITION `i` of the
  ordering — for unknown `i`.  Witness (replayed on the C++, corpus/C20/env-lindep-ordering.ops):
  two height differences `x1 − x3`, `x2 − x4`, ordering as computed by the code's reverse
  Cuthill–McKee (`perm = 2,4,1,3`).  Dependent in processing order are unknowns 4 and 3; the
  code as it was named unknowns 2 and 4, and deleting columns 2 and 4 leaves
  `[[1,−1],[0,0]]`, rank 1 < 2.  The model at `Rat`: -/

/-- the ordering of the witness is the one the model of the code computes -/
example : (rcmOrd 4 #[[1, 3], [2, 4]]).perm = Ex.wo.perm ∧ (rcmOrd 4 #[[1, 3], [2, 4]]).invp = Ex.wo.invp :=
  Ex.wo_is_rcm

/-- as it was coded: unknowns 2 and 4 flagged -/
theorem C20_env_lindep_original_index_wrong :
    (List.range 4).map (fun i => ((envCore (1/2) (1/2) 2 4 Ex.wA Ex.wb Ex.wA Ex.wb .all Ex.wo).lindepAsCoded (i + 1)).toOption)
      = [some false, some true, some false, some true] := by decide +kernel

/-- repaired: unknowns 3 and 4 flagged (each a multiple of a column processed before it) -/
theorem C20_env_lindep_fixed_witness :
    (List.range 4).map (fun i => ((envCore (1/2) (1/2) 2 4 Ex.wA Ex.wb Ex.wA Ex.wb .all Ex.wo).lindepFixed (i + 1)).toOption)
      = [some false, some false, some true, some true]
    ∧ (envCore (1/2) (1/2) 2 4 Ex.wA Ex.wb Ex.wA Ex.wb .all Ex.wo).defect = 2 := by decide +kernel

/-! ### non-vacuity -/

/-- the singular witness meets the hypotheses of `C20_env_lindep_true`, `C20_env_count`,
    `C20_env_pivot_nonneg` (model over the ordered field ℚ) -/
example : FactUnambiguous (K := ℚ) id (1/2) 2 4 Ex.wA Ex.wb Ex.wo ∧ (0 : ℚ) < 1/2 ∧ OrdOK 4 Ex.wo := by
  refine ⟨?_, by norm_num, Ex.wo_ok⟩
  unfold FactUnambiguous Unambiguous; decide +kernel

end Gama.Props.C20
