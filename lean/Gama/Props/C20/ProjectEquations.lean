/-
  C20 on the EXECUTED models: the decision layer (`Model/NetDecision.lean`) over
      `worldOf (PE.peWorld base) (Ls.Net.obsNet alg)`
  — `project_equations()` is `PE.projectEquations` (run by `drv_pe` next to the real `LocalNetwork`), the solver
  is the object behind `Ls.Net.netSolve alg` (run by `drv_netfacade`), observed as `null_space()` observes it
  (`Model/Ls/ObsNet.lean`).  No abstract `pe`, no unit-covariance `Problem`, no `hdim` hypothesis.

    C20_obsNet_reads_netSolve          `obsNet` is read off `netSolve`: error ⇒ that refusal; answer ⇒ not refused,
                                       its defect, its diagonal cofactors; not refused ⇒ `netSolve` answers
    C20_obsNet_sound                   `Net.SolverHyp alg np` + `Net.SecondStage alg np` ⇒ the object's answers are
                                       `Sound` for the ORIGINAL `(toProblem np).A`, `(toProblem np).S` (env, chol, gso)
    C20_peWorld_dim                    `hdim` DERIVED: the list `unknowns_` of every configuration has `n` elements
                                       (every slot written: `C01_pe_unknowns_total`); only premise `DirFromStation base`
    C20_dirFromStation_inherited       … which the call preserves (stations and roles are never touched)
    C20_peWorld_still                  `hstill` DERIVED where it holds: `singular_coords` not firing on a configuration
                                       ⇒ points untouched, nothing recorded;  C20_peWorld_not_still: it is FALSE otherwise
    C20_world_hypotheses_of_project_equations   `WF ∧ RefusalFlags ∧ RefusalFirst`
    C20_adjusted_sound_of_project_equations     verdict `adjusted d` ⇒ `netSolve alg` ANSWERED the final configuration
                                       with defect `d = n − rank A`, the list `min_x_` resolves it, `d ≤ min_n`
    C20_named_unknowns_dependent_of_project_equations   what `null_space()` names on any configuration is truly
                                       dependent, removing it leaves full rank, #named = defect = n − rank A, and every
                                       named index IS an element of `unknowns_`
    C20_reported_excludes_removed_of_project_equations  (`NoSingular` on every configuration)
    C20_adjusted_sound_svd_of_project_equations         the verdict theorem for the svd object (`SvdWorldHyp`: the run of
                                       `SVD::svd()` returns, singular values unambiguous); `Sound` is FALSE for svd
                                       (F7-svd, `C20_svd_not_sound`) — only `Counted`, rank, answered ⇒ resolves survive

  Hypotheses that remain (`Net.NetHyp alg np`, asked of the problem of EVERY configuration the loop can visit):
  `RowsOK` (column indices in range; a theorem for `project_equations()` output since round 12: `C01_pe_rowsOK`), `m0 ≠ 0`, the covariance matrix invertible, the algorithm's rank decisions unambiguous at both
  stages.  `prepare` accepted, `(dimsN np).sum = np.m`, `min_x_` distinct and in range, `hdim`, `PEWF` are theorems.
-/
import Gama.Lemmas.C20ObsNet
import Gama.Lemmas.C20ObsNetExample
import Gama.Props.C20.Numeric
namespace Gama.Props.C20
open Gama Gama.Ls Gama.Ls.Net Gama.LS Gama.NetDecision Gama.PE Matrix

set_option linter.unusedSectionVars false
set_option linter.overlappingInstances false

-- ------------------------------------------------------------------ the observation is read off `netSolve`

section tie
variable {K : Type} [Scalar K]

/-- **`obsNet alg` is read off `netSolve alg`** (every `Scalar`, so also what the drivers run): an error of
    `netSolve` is the refusal the decision layer sees; an answer means "not refused" and the object shows the
    answer's `defect()` and `q_xx(i,i)`; conversely an object that is not refused is an answer of `netSolve` -/
theorem C20_obsNet_reads_netSolve (alg : Alg) (np : NetProblem K) :
    (∀ e, netSolve alg np = .error e → (obsNet alg (some np)).refused = some e) ∧
    (∀ a, netSolve alg np = .ok a → (obsNet alg (some np)).refused = none ∧
      (obsNet alg (some np)).defect = a.defect ∧ ∀ i q, a.qxx i i = .ok q → (obsNet alg (some np)).qxx i = q) ∧
    ((obsNet alg (some np)).refused = none → ∃ a, netSolve alg np = .ok a) :=
  obsNet_tie alg np

end tie

-- ------------------------------------------------------------------ `project_equations()` side

section pe
variable {K : Type} [TrigScalar K]

/-- **`hdim`, derived** (`peWorld_dim`): on every configuration the list of unknowns the decision layer reads has
    exactly as many elements as the system handed to the solver has columns (0 when nothing is handed over) -/
theorem C20_peWorld_dim (base : PE.Net K) (hds : DirFromStation base) (dnet : NetDecision.Net) :
    (match (peWorld base dnet).prob with
      | some np => np.n
      | none => 0) = (peWorld base dnet).unknowns.length := by
  have := peWorld_dim base hds dnet
  cases hp : (peWorld base dnet).prob with
  | none => rw [hp] at this; exact this
  | some np => rw [hp] at this; exact this

/-- the premise of `C20_peWorld_dim` is a property of the INPUT: `project_equations()` hands it on -/
theorem C20_dirFromStation_inherited (net : PE.Net K) (np : Ls.Net.NetProblem K) (u : Unknowns K)
    (h : projectEquations net = .ok (np, u)) (hds : DirFromStation net) : DirFromStation u.net :=
  dirFromStation_final net np u h hds

/-- **`hstill`, derived where it holds**: on a configuration where `singular_coords` does not fire (first inner
    call) `project_equations()` returns the points it was given and records no removal -/
theorem C20_peWorld_still (base : PE.Net K) (dnet : NetDecision.Net) (hns : NoSingular base dnet) :
    (peWorld base dnet).net = dnet ∧ (peWorld base dnet).rm = [] :=
  peWorld_still base dnet hns

end pe

-- ------------------------------------------------------------------ solver side and the composed statements

section field
variable {K : Type} [Field K] [LinearOrder K] [IsStrictOrderedRing K] [Gso.SqrtField K]
attribute [local instance] sqrtFnOfSqrtField
attribute [local instance 2000] scalarOfField

/-- **`obsNet_sound`**: under the premise of C01/C02/C03 for `netSolve alg np` (`Net.SolverHyp`) and its
    counterpart for the regularisation stage (`Net.SecondStage`), what `null_space()` observes of the solver object
    meets the C02/C20 specification for the ORIGINAL system: refused ⇔ `min_x_` does not resolve the defect; the
    named unknowns are dependent, removing them leaves full column rank, their number is the defect `n − rank A` -/
theorem C20_obsNet_sound (alg : Alg) (halg : alg ≠ .svd) (np : NetProblem K) (hsh : Net.Shape np)
    (hyp : Net.SolverHyp alg np) (h2 : Net.SecondStage alg np) :
    (obsNet alg (some np)).Sound (toProblem np).A (toProblem np).S :=
  obsNet_sound alg halg np hsh hyp h2

variable (t : TrigFns K) (base : PE.Net K) (alg : Alg) (m0 : K)

/-- **the three world hypotheses are theorems** for the executed `project_equations()` with the solver of `netSolve` -/
theorem C20_world_hypotheses_of_project_equations (halg : alg ≠ .svd) (hds : DirFromStation base)
    (hH : WorldHyp t base alg) :
    ((worldOf (@peWorld K (trigOfField t) base) (obsNet alg)).abs m0).WF ∧
    ((worldOf (@peWorld K (trigOfField t) base) (obsNet alg)).abs m0).RefusalFlags ∧
    ((worldOf (@peWorld K (trigOfField t) base) (obsNet alg)).abs m0).RefusalFirst :=
  ⟨C20_world_WF _ (obsNet alg) m0 (@peWorld_wf K (trigOfField t) base) big_field_chol,
   C20_world_RefusalFlags _ (obsNet alg) m0 (fun P => (linO P).n) (peWorld_hdim t base hds)
     (fun dnet => (peWorld_obsNet_sound t base alg halg hH dnet).counted),
   C20_world_RefusalFirst _ (obsNet alg) m0 big_field_chol⟩

/-- **C20_adjusted_sound for `LocalNetwork`** (env, chol, gso): if the removal loops end with the verdict
    `adjusted d`, the final configuration `n0` is one on which `netSolve alg` ANSWERED, with `a.defect = d`; its list
    `min_x_` resolves the defect of the design matrix, `d = n − rank A`, and `d ≤ min_n`.  (A final configuration
    without a handed-over system has `d = 0`.) -/
theorem C20_adjusted_sound_of_project_equations (halg : alg ≠ .svd) (hds : DirFromStation base)
    (hH : WorldHyp t base alg) (net : NetDecision.Net) (d : Nat)
    (h : (NetDecision.decide m0 (worldOf (@peWorld K (trigOfField t) base) (obsNet alg)) net).2 = .adjusted d) :
    ∃ n0,
      (∀ np0, (@peWorld K (trigOfField t) base n0).prob = some np0 →
        (∃ a, netSolve alg np0 = .ok a ∧ a.defect = d) ∧
        Resolves (toProblem np0).A (toProblem np0).S ∧ d + (toProblem np0).A.rank = np0.n) ∧
      ((@peWorld K (trigOfField t) base n0).prob = none → d = 0) ∧
      (@peWorld K (trigOfField t) base n0).net =
        (generalParameters ((worldOf (@peWorld K (trigOfField t) base) (obsNet alg)).abs m0)
          (fuelFor net) (fuelFor net) (St.init net)).1.net ∧
      d ≤ minN (@peWorld K (trigOfField t) base n0).unknowns (@peWorld K (trigOfField t) base n0).net := by
  have hS := peWorld_obsNet_sound t base alg halg hH
  obtain ⟨n0, h1, h2, h3, h4⟩ := C20_adjusted_sound_solver _ (obsNet alg) m0 big_field_chol
    (fun P => (linO P).n) (peWorld_hdim t base hds) (fun dnet => (hS dnet).counted) net d h
  refine ⟨n0, ?_, ?_, h3, h4⟩
  · intro np0 hp
    have hS0 := hS n0
    rw [hp] at h1 h2 hS0
    obtain ⟨-, t2, t3⟩ := obsNet_tie alg np0
    obtain ⟨a, ha⟩ := t3 h1
    refine ⟨⟨a, ha, by rw [← (t2 a ha).2.1]; exact h2⟩, ?_, by rw [← h2]; exact hS0.rank⟩
    by_contra hnr
    have := hS0.refusal.2 hnr
    rw [h1] at this; cases this
  · intro hp
    rw [hp] at h2
    exact h2.symm

/-- **C20_named_unknowns_dependent for `LocalNetwork`** (env, chol, gso): on EVERY configuration that hands a system
    `np` to the solver, the indices `null_space()` reads as linearly dependent (`netLindep alg np`) are truly
    dependent — each moves along a kernel vector of the ORIGINAL design matrix —, a kernel vector vanishing on them
    is 0, their number is the reported defect `= n − rank A`, and each of them IS an element of `unknowns_` (so
    `removeUnknown` gets a point) -/
theorem C20_named_unknowns_dependent_of_project_equations (halg : alg ≠ .svd) (hds : DirFromStation base)
    (hH : WorldHyp t base alg) (dnet : NetDecision.Net) (np : NetProblem K)
    (hp : (@peWorld K (trigOfField t) base dnet).prob = some np) :
    let fl := netLindep alg np
    (∀ i ∈ fl, ∃ (hi : i - 1 < np.n) (g : Fin (toProblem np).n → K), (toProblem np).A *ᵥ g = 0 ∧ g ⟨i - 1, hi⟩ ≠ 0) ∧
    (∀ g : Fin (toProblem np).n → K, (toProblem np).A *ᵥ g = 0 →
      (∀ j : Fin (toProblem np).n, j.val + 1 ∈ fl → g j = 0) → g = 0) ∧
    fl.length = (obsNet alg (some np)).defect ∧ (obsNet alg (some np)).defect + (toProblem np).A.rank = np.n ∧
    (∀ i ∈ fl, ∃ u, (@peWorld K (trigOfField t) base dnet).unknowns[i - 1]? = some u) := by
  intro fl
  have hS := peWorld_obsNet_sound t base alg halg hH dnet
  have hd := peWorld_hdim t base hds dnet
  rw [hp] at hS hd
  refine ⟨?_, ?_, hS.count, hS.rank, ?_⟩
  · intro i hi
    obtain ⟨h1, h2, h3⟩ := mem_flaggedOf.1 hi
    have hlt : i - 1 < np.n := by omega
    obtain ⟨g, hg, hne⟩ := hS.dependent ⟨i - 1, hlt⟩ (by simpa [Nat.sub_add_cancel h1] using h3)
    exact ⟨hlt, g, hg, hne⟩
  · intro g hg hz
    exact hS.fullRank g hg (fun j hj => hz j (mem_flaggedOf.2 ⟨by omega, Nat.succ_le_of_lt j.isLt, hj⟩))
  · intro i hi
    obtain ⟨h1, h2, -⟩ := mem_flaggedOf.1 hi
    have hlt : i - 1 < (@peWorld K (trigOfField t) base dnet).unknowns.length := by
      rw [← hd]; show i - 1 < np.n; omega
    exact ⟨_, List.getElem?_eq_getElem hlt⟩

/-- **what is finally reported contains no removed point**, executed models: `hstill` discharged by
    `C20_peWorld_still` on every configuration (`NoSingular`), `hdim`, `PEWF`, `Counted` by the theorems above -/
theorem C20_reported_excludes_removed_of_project_equations (halg : alg ≠ .svd) (hds : DirFromStation base)
    (hH : WorldHyp t base alg) (hns : ∀ dnet, @NoSingular K (trigOfField t) base dnet)
    (net : NetDecision.Net) (hnd : IdsNodup net) :
    let pe := @peWorld K (trigOfField t) base
    let r := generalParameters ((worldOf pe (obsNet alg)).abs m0) (fuelFor net) (fuelFor net) (St.init net)
    Gone r.1 ∧
    ∀ d, r.2 = .adjusted d → ∃ n0, (pe n0).net = r.1.net ∧ (obsNet alg (pe n0).prob).refused = none ∧
      ∀ u ∈ (pe n0).unknowns, ∀ idc ∈ r.1.removed, idc.1 = u.pid → idc.2.covers u = false :=
  C20_reported_excludes_removed _ (obsNet alg) m0 (@peWorld_wf K (trigOfField t) base) big_field_chol
    (fun dnet => @peWorld_still K (trigOfField t) base dnet (hns dnet))
    (fun P => (linO P).n) (peWorld_hdim t base hds)
    (fun dnet => (peWorld_obsNet_sound t base alg halg hH dnet).counted) net hnd

/-- **C20_adjusted_sound for `LocalNetwork` + svd**: the verdict theorem with the svd object behind `netSolve .svd`;
    premise per configuration: the run of `SVD::svd()` on the homogenised matrix returns and its singular values
    are unambiguous at `W_tol` (`SvdWorldHyp`; `C02_net_svd_hyp_decompose` turns that into `Net.SolverHyp .svd`).
    Only the verdict: what the svd object NAMES is not dependent in general (F7-svd, `C20_svd_not_sound`). -/
theorem C20_adjusted_sound_svd_of_project_equations (hds : DirFromStation base) (hH : SvdWorldHyp t base)
    (net : NetDecision.Net) (d : Nat)
    (h : (NetDecision.decide m0 (worldOf (@peWorld K (trigOfField t) base) (obsNet .svd)) net).2 = .adjusted d) :
    ∃ n0,
      (∀ np0, (@peWorld K (trigOfField t) base n0).prob = some np0 →
        (∃ a, netSolve .svd np0 = .ok a ∧ a.defect = d) ∧
        Resolves (toProblem np0).A (toProblem np0).S ∧ d + (toProblem np0).A.rank = np0.n) ∧
      ((@peWorld K (trigOfField t) base n0).prob = none → d = 0) ∧
      (@peWorld K (trigOfField t) base n0).net =
        (generalParameters ((worldOf (@peWorld K (trigOfField t) base) (obsNet .svd)).abs m0)
          (fuelFor net) (fuelFor net) (St.init net)).1.net ∧
      d ≤ minN (@peWorld K (trigOfField t) base n0).unknowns (@peWorld K (trigOfField t) base n0).net := by
  obtain ⟨n0, h1, h2, h3, h4⟩ := C20_adjusted_sound_solver _ (obsNet .svd) m0 big_field_chol
    (fun P => (linO P).n) (peWorld_hdim t base hds) (peWorld_obsNet_svd_counted t base hH) net d h
  refine ⟨n0, ?_, ?_, h3, h4⟩
  · intro np0 hp
    obtain ⟨-, p2, p3⟩ := svdWorldHyp_partial t base hH n0 np0 hp
    rw [hp] at h1 h2
    obtain ⟨-, t2, t3⟩ := obsNet_tie .svd np0
    obtain ⟨a, ha⟩ := t3 h1
    exact ⟨⟨a, ha, by rw [← (t2 a ha).2.1]; exact h2⟩, p3 h1, by rw [← h2]; exact p2⟩
  · intro hp
    rw [hp] at h2
    exact h2.symm

end field

-- ------------------------------------------------------------------ non-vacuity: the executed models on a network

section examples
open Gama.Ls.Net.Ex2
attribute [local instance 2000] scalarOfField

/-- **`hstill` is NOT a theorem about `project_equations()`**: on `Ex2.exBase'` (`P` at (3,4) on one distance: both
    columns of `P` non-zero and parallel) `singular_coords` fires inside the call — it returns `P` with xy switched
    off, records `("P", singular_xy)` and hands over the 1×1 system of `Z P`.  `NoSingular` is the weakest condition
    under which `C20_peWorld_still` holds for a configuration, and it is a condition on the input's geometry. -/
theorem C20_peWorld_not_still :
    ¬ ((qPE' exCfg).net = exCfg ∧ (qPE' exCfg).rm = []) := by
  intro h
  have := ex_not_still.2.1
  rw [h.2] at this
  cases this

/-- `C20_obsNet_reads_netSolve` on both configurations of `Ex2.exBase`, all three algorithms (kernel evaluation):
    `netSolve` errs with `BadRegularization` on the full configuration and the object shows that refusal, defect 1 and
    names unknown 2; `netSolve` answers with defect 0 on the configuration without `P`'s xy and the object shows that -/
example :
    (solveOf .env (qPE exCfg) = some (.error .BadRegularization) ∧ readOf .env (qPE exCfg) = (some .BadRegularization, 1, [2]))
    ∧ (solveOf .chol (qPE exCfg) = some (.error .BadRegularization) ∧ readOf .chol (qPE exCfg) = (some .BadRegularization, 1, [2]))
    ∧ (solveOf .gso (qPE exCfg) = some (.error .BadRegularization) ∧ readOf .gso (qPE exCfg) = (some .BadRegularization, 1, [2]))
    ∧ (solveOf .env (qPE exCfg2) = some (.ok 0) ∧ readOf .env (qPE exCfg2) = (none, 0, []))
    ∧ (solveOf .chol (qPE exCfg2) = some (.ok 0) ∧ readOf .chol (qPE exCfg2) = (none, 0, []))
    ∧ (solveOf .gso (qPE exCfg2) = some (.ok 0) ∧ readOf .gso (qPE exCfg2) = (none, 0, [])) :=
  ⟨ex_first_env, ex_first_chol, ex_first_gso, ex_second_env, ex_second_chol, ex_second_gso⟩

/-- premises of `C20_peWorld_dim` / `C20_peWorld_still` met, conclusions OBTAINED FROM THE THEOREMS on `Ex2.exBase`:
    `DirFromStation`, `NoSingular` hold; the list of unknowns has `n = 3` elements `[X P, Y P, Z P]`, and the call
    leaves the points alone -/
example : DirFromStation exBase ∧ @NoSingular ℚ (trigOfField exTrig) exBase exCfg
    ∧ (qPE exCfg).unknowns.length = 3 ∧ (qPE exCfg).net = exCfg ∧ (qPE exCfg).rm = [] := by
  have hd := @C20_peWorld_dim ℚ (trigOfField exTrig) exBase ex_dirFromStation exCfg
  have hs := @C20_peWorld_still ℚ (trigOfField exTrig) exBase exCfg ex_noSingular
  have hc : cntOf (qPE exCfg) = some (2, 3, []) := ex_first.2.2.2.1
  refine ⟨ex_dirFromStation, ex_noSingular, ?_, hs.1, hs.2⟩
  show (@peWorld ℚ (trigOfField exTrig) exBase exCfg).unknowns.length = 3
  rw [← hd]
  unfold cntOf qPE at hc
  cases hp : (@peWorld ℚ (trigOfField exTrig) exBase exCfg).prob with
  | none => rw [hp] at hc; cases hc
  | some np =>
    rw [hp] at hc
    simp only [Option.map_some, Option.some.injEq, Prod.mk.injEq] at hc
    exact hc.2.1

/-- **the removal loop run in the model** (conclusions of `C20_adjusted_sound_of_project_equations`,
    `C20_named_unknowns_dependent_of_project_equations` seen by evaluation over ℚ — the theorems' carrier needs a
    true square root, ℝ): one undetermined point; the loop removes `P` (`singular_xy`) and reports `adjusted 0`;
    on the final configuration `netSolve` answered with defect 0 = 1 − rank [[1]]; on the first one the named
    unknown 2 = `Y P` moves along the kernel vector (0,1,0) of [[1,0,0],[0,0,1]] and 1 = 3 − rank -/
example : NetDecision.decide (1 : ℚ) (worldOf qPE (obsNet .env)) exCfg = ([("P", .singular_xy)], .adjusted 0)
    ∧ NetDecision.decide (1 : ℚ) (worldOf qPE (obsNet .gso)) exCfg = ([("P", .singular_xy)], .adjusted 0)
    ∧ sysOf (qPE exCfg) = some ([[(2, 0), (1, 1)], [(3, 1)]], [0, 0])
    ∧ sysOf (qPE exCfg2) = some ([[(1, 1)]], [0]) :=
  ⟨ex_decide_env, ex_decide_gso, ex_first.2.2.2.2, ex_second.2.2⟩

/-- the conclusion of `C20_adjusted_sound_svd_of_project_equations` on the same network (kernel evaluation): verdict
    `adjusted 0`, and on the final configuration `netSolve .svd` answered with defect 0 -/
example : NetDecision.decide (1 : ℚ) (worldOf qPE (obsNet .svd)) exCfg = ([("P", .singular_xy)], .adjusted 0)
    ∧ solveOf .svd (qPE exCfg2) = some (.ok 0) := ⟨ex_decide_svd, ex_second_svd.1⟩

end examples

end Gama.Props.C20
