/-
  C20 for the Cholesky solver: the dependent-unknown flags `AdjCholDec::lindep(i)`
  (`nullity && invp(i) > N0`: the unknowns pivoted into the null part) and `defect()`.
  Model `Gama/Model/Ls/Chol.lean`; scalars as in Props/C01/Chol.lean.

  Hypothesis `Chol.UnambiguousF (cholFact p)`: the pivot the code rejects (`pivot ≤ s_tol`, the
  largest remaining diagonal entry of the Schur complement) is exactly 0 — the property's
  "rank numerically unambiguous" for this algorithm.  Then (positivity of the Schur complement of
  a Gram matrix, `Lemmas/Ls/CholKernel.lean`) the whole remaining block is 0 and:
    * the number of flagged unknowns is the reported defect;
    * removing the flagged unknowns leaves a matrix of full column rank
      (a kernel vector vanishing on them is 0);
    * every flagged unknown is a linear combination of the unflagged ones
      (a kernel vector with −1 there and 0 at the other flagged unknowns);
  together: defect = n − rank A and the flagged columns are truly dependent.
  Proofs: `Gama/Lemmas/Ls/CholDefect.lean`, `CholC20.lean`.
-/
import Gama.Lemmas.Ls.CholC20
import Gama.Lemmas.Ls.CholExample
namespace Gama.Props.C20
open Gama Gama.Ls Gama.LS Gama.Ls.Chol Matrix Finset

set_option linter.unusedSectionVars false

variable {K : Type} [Field K] [LinearOrder K] [IsStrictOrderedRing K] [SqrtFn K]
attribute [local instance 2000] scalarOfField

theorem C20_chol_lindep (p : Problem K) (hU : Chol.UnambiguousF (cholFact p)) (a : Answer K)
    (h : cholSolve p = .ok a) :
    ∃ flag : Nat → Bool,
      (∀ i : Fin p.n, a.lindep (i.val + 1) = .ok (flag i.val)) ∧
      ((range p.n).filter fun i => flag i = true).card = a.defect ∧
      (∀ g : Fin p.n → K, p.A *ᵥ g = 0 → (∀ i : Fin p.n, flag i.val = true → g i = 0) → g = 0) ∧
      (∀ i : Fin p.n, flag i.val = true →
        ∃ g : Fin p.n → K, p.A *ᵥ g = 0 ∧ g i = -1 ∧
          ∀ i' : Fin p.n, flag i'.val = true → i' ≠ i → g i' = 0) := by
  unfold cholSolve at h
  cases hs : Chol.solve p with
  | error e => rw [hs] at h; simp [Except.map] at h
  | ok s =>
    rw [hs] at h
    have ha : a = s.answer := (Except.ok.inj h).symm
    subst ha
    obtain ⟨_, hn, _⟩ := solve_shape p s hs
    obtain ⟨_, h2, h3, h4⟩ := chol_lindep_spec p hU s hs
    refine ⟨s.lindep0, ?_, h2, h3, h4⟩
    intro i
    show (if s.idx (i.val + 1) then Except.ok (s.lindep0 (i.val + 1 - 1)) else Except.error ErrKind.NotModelled) = _
    have hi : s.idx (i.val + 1) = true := by simp [Chol.Solved.idx, hn]
    rw [hi]; simp

/-- in particular a reported defect 0 means `A` has full column rank, a defect > 0 means it has not -/
theorem C20_chol_defect_true (p : Problem K) (hU : Chol.UnambiguousF (cholFact p)) (a : Answer K)
    (h : cholSolve p = .ok a) :
    (a.defect = 0 ↔ ∀ g : Fin p.n → K, p.A *ᵥ g = 0 → g = 0) := by
  obtain ⟨flag, h1, h2, h3, h4⟩ := C20_chol_lindep p hU a h
  constructor
  · intro hd g hg
    apply h3 g hg
    intro i hi
    rw [hd, Finset.card_eq_zero] at h2
    have : i.val ∈ (range p.n).filter fun i => flag i = true :=
      Finset.mem_filter.2 ⟨Finset.mem_range.2 i.isLt, hi⟩
    rw [h2] at this; simp at this
  · intro hker
    by_contra hne
    have hpos : 0 < ((range p.n).filter fun i => flag i = true).card := by rw [h2]; omega
    obtain ⟨i, hi⟩ := Finset.card_pos.1 hpos
    obtain ⟨hi1, hi2⟩ := Finset.mem_filter.1 hi
    obtain ⟨g, g1, g2, _⟩ := h4 ⟨i, Finset.mem_range.1 hi1⟩ hi2
    have := hker g g1
    rw [this] at g2
    simp at g2

/-- non-vacuity: the 4-point levelling loop (defect 1): the rejected pivot is exactly 0, the model
    flags unknown 4 only and reports defect 1 (kernel evaluation) -/
example : Chol.UnambiguousF (cholFact (Ex.pSing4 .none)) ∧
    ∃ a, cholSolve (Ex.pSing4 .none) = .ok a ∧ a.defect = 1 ∧
      a.lindep 1 = .ok false ∧ a.lindep 2 = .ok false ∧ a.lindep 3 = .ok false ∧ a.lindep 4 = .ok true := by
  constructor
  · have hr : (cholFact (Ex.pSing4 .none)).rej = some 0 := by decide +kernel
    intro t ht
    rw [hr] at ht
    left; exact (Option.some.inj ht).symm
  · have h : (cholSolve (Ex.pSing4 .none)).toOption.map (fun a =>
        (a.defect, [a.lindep 1, a.lindep 2, a.lindep 3, a.lindep 4].map Except.toOption))
        = some (1, [some false, some false, some false, some true]) := by decide +kernel
    obtain ⟨a, h1, h2⟩ := Ex.ok_of_toOption h
    simp only [Prod.mk.injEq, List.map_cons, List.map_nil, List.cons.injEq, and_true] at h2
    have conv : ∀ (e : Except ErrKind Bool) (v : Bool), e.toOption = some v → e = .ok v := by
      intro e v he
      cases e with
      | error _ => simp [Except.toOption] at he
      | ok x => simp [Except.toOption] at he; rw [he]
    exact ⟨a, h1, h2.1, conv _ _ h2.2.1, conv _ _ h2.2.2.1, conv _ _ h2.2.2.2.1, conv _ _ h2.2.2.2.2⟩

end Gama.Props.C20
