/-
  C20, decision layer WITHOUT abstract-world hypotheses.

  `Props/C20.lean` states the removal / verdict theorems for an abstract `W : WorldA` under `W.WF`,
  `W.RefusalFlags`, `W.RefusalFirst`.  Here the world is `worldOf pe solver` (`Model/NetWorld.lean`):
  `pe` = `project_equations()`, `solver` = what `LocalNetwork` observes of the solver object, and the
  three hypotheses are THEOREMS:

    `C20_world_WF`            from `PEWF pe` (every unknown belongs to an active coordinate group of a
                              point of PD — the guards of the loops that fill `unknowns_`) — for EVERY solver;
    `C20_world_RefusalFirst`  for every solver object (it answers all covariance queries or refuses all);
    `C20_world_RefusalFlags`  from `Counted` (#flags = defect, refusal ⇒ defect > 0), which follows from
                              `SolverObs.Sound` (`Sound.counted`) — proved for the Gram–Schmidt and the
                              Cholesky model from their own C02/C20 theorems (`obsGso_sound`, `obsChol_sound`).

  Restated without world hypotheses: `C20_removal_terminates_solver` (any solver),
  `C20_adjusted_sound_gso/_chol`, `C20_named_unknowns_dependent_gso/_chol`; negative statement for svd
  (`C20_named_unknowns_dependent_svd_false`, finding F7-svd).  Envelope: the solver-level facts are in
  `Props/C20/Env.lean` in PROCESSING order; they are transported to `Sound` through the `OrdOK` equivalence in
  `Lemmas/NetWorldEnv.lean` (`obsEnv_sound`), and the envelope and svd instances of the theorems below are in
  `Props/C20/WorldEnv.lean` (`C20_world_env_hypotheses`, `C20_adjusted_sound_env`,
  `C20_named_unknowns_dependent_env`, `C20_world_svd_hypotheses`, `C20_adjusted_sound_svd`).

  Non-vacuity: `free1World true` does NOT satisfy `RefusalFlags` (it "refuses" on configurations without
  unknowns, which `vyrovnani_` never asks) — `C20_free1World_not_RefusalFlags`; the corrected
  `free1World'` makes the same decisions and satisfies every hypothesis; `exWorld` is a world derived from
  the Gram–Schmidt MODEL on a refused problem and satisfies every hypothesis too.
-/
import Gama.Props.C20
import Gama.Props.C20.Svd
import Gama.Lemmas.NetWorldExamples
import Gama.Lemmas.Ls.CholExample
namespace Gama.Props.C20
open Gama Gama.Ls Gama.LS Gama.NetDecision Matrix

set_option linter.unusedSectionVars false
set_option linter.overlappingInstances false

-- ------------------------------------------------------------------ the hypotheses as theorems

section General
variable {K : Type} [Scalar K] {P : Type} (pe : Net → ProjEq P) (solver : P → SolverObs K) (m0 : K)

/-- `WF` of the derived world: any solver -/
theorem C20_world_WF (hpe : PEWF pe) (hB : Big K) : ((worldOf pe solver).abs m0).WF :=
  worldOf_WF pe solver m0 hpe hB

/-- `RefusalFirst` of the derived world: any solver -/
theorem C20_world_RefusalFirst (hB : Big K) : ((worldOf pe solver).abs m0).RefusalFirst :=
  worldOf_RefusalFirst pe solver m0 hB

/-- `RefusalFlags` of the derived world: any solver with #flags = defect and refusal ⇒ defect > 0 -/
theorem C20_world_RefusalFlags (dim : P → Nat) (hdim : ∀ net, dim (pe net).prob = (pe net).unknowns.length)
    (hC : ∀ net, (solver (pe net).prob).Counted (dim (pe net).prob)) :
    ((worldOf pe solver).abs m0).RefusalFlags :=
  worldOf_RefusalFlags pe solver m0 dim hdim hC

/-- **C20_removal_terminates, no world hypothesis**: whatever the solver answers — right or wrong —
    the removal recursion of `null_space()` and the huge-covariance loop of `vyrovnani_()` end within
    `actives net + 1` rounds -/
theorem C20_removal_terminates_solver (hpe : PEWF pe) (hB : Big K) (net : Net) :
    (NetDecision.decide m0 (worldOf pe solver) net).2 ≠ .exception .fuel :=
  decideA_no_fuel _ (worldOf_WF pe solver m0 hpe hB) net

/-- **C20_adjusted_sound, no world hypothesis** (generic form; instances below) -/
theorem C20_adjusted_sound_solver (hB : Big K) (dim : P → Nat)
    (hdim : ∀ net, dim (pe net).prob = (pe net).unknowns.length)
    (hC : ∀ net, (solver (pe net).prob).Counted (dim (pe net).prob)) (net : Net) (d : Nat)
    (h : (NetDecision.decide m0 (worldOf pe solver) net).2 = .adjusted d) :
    ∃ n0, (solver (pe n0).prob).refused = none ∧ (solver (pe n0).prob).defect = d ∧
      (pe n0).net = (generalParameters ((worldOf pe solver).abs m0) (fuelFor net) (fuelFor net) (St.init net)).1.net ∧
      d ≤ minN (pe n0).unknowns (pe n0).net := by
  obtain ⟨n0, h1, h2, h3, h4⟩ := decideA_adjusted _ (worldOf_RefusalFlags pe solver m0 dim hdim hC)
    (worldOf_RefusalFirst pe solver m0 hB) net d h
  refine ⟨n0, ?_, h2, h3, h4⟩
  have h1' : (viewOf (pe n0) (solver (pe n0).prob)).resid = .ok () := h1
  unfold viewOf at h1'
  cases hr : (solver (pe n0).prob).refused with
  | none => rfl
  | some e => simp [hr] at h1'

end General

-- ------------------------------------------------------------------ Gram–Schmidt

section GsoWorld
open Gama.Ls.Gso
variable {K : Type} [Field K] [LinearOrder K] [IsStrictOrderedRing K] [SqrtField K]

variable (pe : Net → ProjEq (Problem K)) (m0 : K)

/-- **no adjustment for a refused configuration** with the Gram–Schmidt model as the solver: only the
    solver's own hypotheses (`Unambiguous`, list in range) and the shape of the project equations -/
theorem C20_adjusted_sound_gso (hdim : ∀ net, (pe net).prob.n = (pe net).unknowns.length)
    (hU : ∀ net, Unambiguous (pe net).prob) (hreg : ∀ net, regInRange (pe net).prob.n (pe net).prob.reg = true)
    (net : Net) (d : Nat) (h : (NetDecision.decide m0 (worldOf pe obsGso) net).2 = .adjusted d) :
    ∃ n0, (obsGso (pe n0).prob).refused = none ∧ (obsGso (pe n0).prob).defect = d ∧
      Resolves (pe n0).prob.A (pe n0).prob.S ∧ d + (pe n0).prob.A.rank = (pe n0).prob.n ∧
      (pe n0).net = (generalParameters ((worldOf pe obsGso).abs m0) (fuelFor net) (fuelFor net) (St.init net)).1.net ∧
      d ≤ minN (pe n0).unknowns (pe n0).net := by
  have hS := fun n => obsGso_sound (pe n).prob (hU n) (hreg n)
  obtain ⟨n0, h1, h2, h3, h4⟩ := C20_adjusted_sound_solver pe obsGso m0 big_field_gso (fun p => p.n) hdim
    (fun n => (hS n).counted) net d h
  refine ⟨n0, h1, h2, ?_, by rw [← h2]; exact (hS n0).rank, h3, h4⟩
  by_contra hnr
  have := (hS n0).refusal.2 hnr
  rw [h1] at this; cases this

/-- **C20_named_unknowns_dependent (Gram–Schmidt), at network level**: on every configuration the
    unknowns `GeneralParameters` / `null_space` name (the flagged indices of the decision data) are truly
    dependent, removing them leaves full column rank, and their number is the defect `n − rank A` -/
theorem C20_named_unknowns_dependent_gso (hU : ∀ net, Unambiguous (pe net).prob)
    (hreg : ∀ net, regInRange (pe net).prob.n (pe net).prob.reg = true) (net : Net) :
    let p := (pe net).prob
    let fl := flaggedOf p.n (obsGso p).lindep
    (∀ i ∈ fl, ∃ (hi : i - 1 < p.n) (g : Fin p.n → K), p.A *ᵥ g = 0 ∧ g ⟨i - 1, hi⟩ ≠ 0) ∧
    (∀ g : Fin p.n → K, p.A *ᵥ g = 0 → (∀ j : Fin p.n, j.val + 1 ∈ fl → g j = 0) → g = 0) ∧
    fl.length = (obsGso p).defect ∧ (obsGso p).defect + p.A.rank = p.n := by
  intro p fl
  have hS := obsGso_sound (pe net).prob (hU net) (hreg net)
  refine ⟨?_, ?_, hS.count, hS.rank⟩
  · intro i hi
    obtain ⟨h1, h2, h3⟩ := mem_flaggedOf.1 hi
    have hlt : i - 1 < p.n := by omega
    obtain ⟨g, hg, hne⟩ := hS.dependent ⟨i - 1, hlt⟩ (by simpa [Nat.sub_add_cancel h1] using h3)
    exact ⟨hlt, g, hg, hne⟩
  · intro g hg hz
    exact hS.fullRank g hg (fun j hj => hz j (mem_flaggedOf.2 ⟨by omega, Nat.succ_le_of_lt j.isLt, hj⟩))

/-- non-vacuity of `C20_adjusted_sound_gso` / `C20_named_unknowns_dependent_gso`: project equations that
    always produce the singular system `Ex.pR` (two heights, defect 1, list {1}) meet every hypothesis -/
example : ∃ pe : Net → ProjEq (Problem ℝ), (∀ net, (pe net).prob.n = (pe net).unknowns.length)
    ∧ (∀ net, Unambiguous (pe net).prob) ∧ (∀ net, regInRange (pe net).prob.n (pe net).prob.reg = true) :=
  ⟨fun net => { net := net, rm := [], unknowns := [⟨"A", .Z⟩, ⟨"B", .Z⟩], nObs := 2, nPts := 2, prob := Ex.pR },
    fun _ => rfl, fun _ => Ex.pR_unambiguous, fun _ => (by decide : regInRange Ex.pR.n Ex.pR.reg = true)⟩

end GsoWorld

-- ------------------------------------------------------------------ Cholesky

section CholWorld
open Gama.Ls.Chol Gama.Ls.Dn
variable {K : Type} [Field K] [LinearOrder K] [IsStrictOrderedRing K] [SqrtFn K]
attribute [local instance 2000] scalarOfField

variable (pe : Net → ProjEq (Problem K)) (m0 : K)

theorem C20_adjusted_sound_chol (hdim : ∀ net, (pe net).prob.n = (pe net).unknowns.length)
    (hH : ∀ net, CholHyp (pe net).prob)
    (net : Net) (d : Nat) (h : (NetDecision.decide m0 (worldOf pe obsChol) net).2 = .adjusted d) :
    ∃ n0, (obsChol (pe n0).prob).refused = none ∧ (obsChol (pe n0).prob).defect = d ∧
      Resolves (pe n0).prob.A (pe n0).prob.S ∧ d + (pe n0).prob.A.rank = (pe n0).prob.n ∧
      (pe n0).net = (generalParameters ((worldOf pe obsChol).abs m0) (fuelFor net) (fuelFor net) (St.init net)).1.net ∧
      d ≤ minN (pe n0).unknowns (pe n0).net := by
  have hS := fun n => obsChol_sound (pe n).prob (hH n).fact (hH n).sq (hH n).gs (hH n).sqA (hH n).gsA (hH n).reg
  obtain ⟨n0, h1, h2, h3, h4⟩ := C20_adjusted_sound_solver pe obsChol m0 big_field_chol (fun p => p.n) hdim
    (fun n => (hS n).counted) net d h
  refine ⟨n0, h1, h2, ?_, by rw [← h2]; exact (hS n0).rank, h3, h4⟩
  by_contra hnr
  have := (hS n0).refusal.2 hnr
  rw [h1] at this; cases this

theorem C20_named_unknowns_dependent_chol (hH : ∀ net, CholHyp (pe net).prob) (net : Net) :
    let p := (pe net).prob
    let fl := flaggedOf p.n (obsChol p).lindep
    (∀ i ∈ fl, ∃ (hi : i - 1 < p.n) (g : Fin p.n → K), p.A *ᵥ g = 0 ∧ g ⟨i - 1, hi⟩ ≠ 0) ∧
    (∀ g : Fin p.n → K, p.A *ᵥ g = 0 → (∀ j : Fin p.n, j.val + 1 ∈ fl → g j = 0) → g = 0) ∧
    fl.length = (obsChol p).defect ∧ (obsChol p).defect + p.A.rank = p.n := by
  intro p fl
  have hS := obsChol_sound (pe net).prob (hH net).fact (hH net).sq (hH net).gs (hH net).sqA (hH net).gsA (hH net).reg
  refine ⟨?_, ?_, hS.count, hS.rank⟩
  · intro i hi
    obtain ⟨h1, h2, h3⟩ := mem_flaggedOf.1 hi
    have hlt : i - 1 < p.n := by omega
    obtain ⟨g, hg, hne⟩ := hS.dependent ⟨i - 1, hlt⟩ (by simpa [Nat.sub_add_cancel h1] using h3)
    exact ⟨hlt, g, hg, hne⟩
  · intro g hg hz
    exact hS.fullRank g hg (fun j hj => hz j (mem_flaggedOf.2 ⟨by omega, Nat.succ_le_of_lt j.isLt, hj⟩))

/-- non-vacuity of `C20_adjusted_sound_chol` / `C20_named_unknowns_dependent_chol`: the 4-point levelling
    loop with all heights in the list (defect 1) meets the hypothesis bundle of the Cholesky model -/
example : CholHyp (K := ℚ) (Ex.pSing4 .all) := by
  have hr : (cholFact (Ex.pSing4 .all)).rej = some 0 := by decide +kernel
  have hS : ∀ S, regList (Ex.pSing4 .all).n (Ex.pSing4 .all).reg = some S → S = List.range 4 := by
    intro S h
    have : regList (Ex.pSing4 .all).n (Ex.pSing4 .all).reg = some (List.range 4) := rfl
    rw [this] at h
    exact (Option.some.inj h).symm
  have hb := gsOKb_spec (K := ℚ) (Ex.pSing4 .all).n (cholFact (Ex.pSing4 .all)).nullity (List.range 4)
    (cholFact (Ex.pSing4 .all)).nullity 0 _ _ (by decide +kernel :
      gsOKb (Ex.pSing4 .all).n (cholFact (Ex.pSing4 .all)).nullity (List.range 4)
        (cholFact (Ex.pSing4 .all)).nullity 0 (Dn.pmk ((cholFact (Ex.pSing4 .all)).nullity + 1) id)
        (gInit (Ex.pSing4 .all).n ((Ex.pSing4 .all).n - (cholFact (Ex.pSing4 .all)).nullity)
          (cholFact (Ex.pSing4 .all)).nullity (cholFact (Ex.pSing4 .all)).perm (cholFact (Ex.pSing4 .all)).mat
          (solveX0 (Ex.pSing4 .all).n ((Ex.pSing4 .all).n - (cholFact (Ex.pSing4 .all)).nullity)
            (cholFact (Ex.pSing4 .all)).perm (cholFact (Ex.pSing4 .all)).mat
            (normalRhs (Ex.pSing4 .all).m (Ex.pSing4 .all).n (Ex.pSing4 .all).dense (Ex.pSing4 .all).rhs))) = true)
  have e : allReg (Ex.pSing4 .all) = Ex.pSing4 .all := rfl
  refine ⟨?_, ?_, ?_, ?_, ?_, ?_⟩
  · intro t ht; rw [hr] at ht; left; exact (Option.some.inj ht).symm
  · intro S h; rw [hS S h]; exact hb.1
  · intro S h; rw [hS S h]; exact hb.2
  · rw [e]; intro S h; rw [hS S h]; exact hb.1
  · rw [e]; intro S h; rw [hS S h]; exact hb.2
  · show regList 4 Reg.all ≠ none
    simp [regList]

end CholWorld

-- ------------------------------------------------------------------ svd: the negative statement (F7-svd)

/-- **`C20_named_unknowns_dependent` is FALSE for the svd solver** (finding F7-svd): on `Ex.pF` with an
    exact certificate the observations of the answering solver name unknown 3, on which every kernel
    vector vanishes — so they are not `Sound` (the clause `dependent` fails), although #flags = defect
    (`C20_svd_lindep_partial`), which is all the decision layer's termination / verdict theorems use -/
theorem C20_named_unknowns_dependent_svd_false :
    ∃ a : Answer ℚ, @svdSolveCert ℚ (fieldScalar Svd.Ex.sqQ) true (1 / 1000) Svd.Ex.dF Svd.Ex.pF = .ok a ∧
      ¬ (@obsOfAnswer ℚ (fieldScalar Svd.Ex.sqQ) a none).Sound
          (@Problem.A ℚ (fieldScalar Svd.Ex.sqQ) Svd.Ex.pF) (Problem.S Svd.Ex.pF) := by
  obtain ⟨_, _, a, ha, h3, _, hA, hk, _⟩ := C20_svd_lindep_witness
  refine ⟨a, ha, fun hS => ?_⟩
  have hl : (@obsOfAnswer ℚ (fieldScalar Svd.Ex.sqQ) a none).lindep ((2 : Fin 3).val + 1) = true :=
    (@obsOfAnswer_lindep ℚ (fieldScalar Svd.Ex.sqQ) a none 3).2 h3
  obtain ⟨g, hg, hne⟩ := hS.dependent (2 : Fin 3) hl
  rw [← hA] at hg
  exact hne (hk g hg)

-- ------------------------------------------------------------------ non-vacuity: free1World

/-- **the audit's suspicion confirmed**: `free1World true` does not meet `RefusalFlags` — on a
    configuration without unknowns it still answers the residual queries with `BadRegularization`
    (`vyrovnani_` never asks there: "No unknowns" comes first, so the decisions are unaffected) -/
theorem C20_free1World_not_RefusalFlags : ¬ (free1World true).RefusalFlags := by
  intro h
  obtain ⟨i, u, hfl, _⟩ := h [] (Or.inl rfl)
  simp [free1World] at hfl

/-- `free1World'` (`Lemmas/NetWorldExamples.lean`): `free1World` with that corrected — a solver object is
    only asked when unknowns exist; same decisions on `free1` (finding F7: stripped to "No unknowns") -/
example : decideA free1World' free1 = decideA (free1World true) free1 := by decide +kernel

/-- **non-vacuity of every hypothesis of the removal / verdict theorems of `Props/C20.lean`** on the
    (corrected) world of `free1` -/
example : free1World'.WF ∧ free1World'.RefusalFlags ∧ free1World'.RefusalFirst ∧ free1World'.Still :=
  ⟨free1World'_WF, free1World'_RefusalFlags, free1World'_RefusalFirst, fun _ => ⟨rfl, rfl⟩⟩

-- ------------------------------------------------------------------ non-vacuity: a world derived from the Gram–Schmidt model

section ExWorld
open Gama.Ls.Gso

/-- **a world derived from a solver model satisfies every hypothesis of the removal theorems** -/
theorem C20_exWorld_hypotheses (m0 : ℝ) :
    ((worldOf exPE exSolver).abs m0).WF ∧ ((worldOf exPE exSolver).abs m0).RefusalFlags
      ∧ ((worldOf exPE exSolver).abs m0).RefusalFirst :=
  ⟨C20_world_WF exPE exSolver m0 exPE_wf big_field_gso,
   C20_world_RefusalFlags exPE exSolver m0 exDim exDim_ok exCounted,
   C20_world_RefusalFirst exPE exSolver m0 big_field_gso⟩

/-- … non-trivially: on the full configuration the Gram–Schmidt model REFUSES (so the premise of
    `RefusalFlags` is met) and names unknown 2 -/
theorem C20_exWorld_refuses :
    (exSolver (exPE exNet).prob).refused = some .BadRegularization ∧
      (exSolver (exPE exNet).prob).lindep 2 = true := by
  have hp : (exPE exNet).prob = some Ex.pT := by unfold exPE; rw [if_pos rfl]
  rw [hp]
  have hS := obsGso_sound Ex.pT Ex.pT_unambiguous (by decide)
  show (obsGso Ex.pT).refused = _ ∧ (obsGso Ex.pT).lindep 2 = true
  obtain ⟨a, ha⟩ := gsoSolveWith_false_ok Ex.pT (by decide)
  have ho := obsGso_eq Ex.pT a ha
  have herr : gsoSolve Ex.pT = .error .BadRegularization := by
    have he : (runOf Ex.pT).err = 1 := Ex.pT_result.2
    have hreg : regInRange Ex.pT.n Ex.pT.reg = true := by decide
    simp [gsoSolve, gsoSolveWith, hreg, he]
  constructor
  · rw [ho, herr]; rfl
  · have hcnt := hS.count
    have hpos := hS.counted.refusal_pos (by rw [ho, herr]; rfl)
    -- the single flag is unknown 2: column 2 = column 1, columns 1 and 3 are not combinations of earlier ones
    obtain ⟨-, -, -, -, hlin, -⟩ := gsoSolveWith_ok ha
    rw [ho]
    apply (obsOfAnswer_lindep a _ 2).2
    rw [hlin 2]
    have hdep : (runOf Ex.pT).dep = [2] := by
      have h0 : ¬ (tolerance : ℝ) < 0 := not_lt.2 (le_of_lt Ex.tol_pos)
      rw [Ex.pT_run]
      simp [run, augmented, entry, icgs1, icgs2, step1, orth1, cgs1, subAll,
        dot, dotAux, norm1, Col.axpy, Col.scale, vaxpy, vscale, phase2, step2, orth2, cgs2, subAllB,
        dotM, dotMAux, norm2, movePtrs, movePtrsAux, swapAt, Ex.sqrtS, Ex.tol_lt_one, h0,
        List.range, List.range.loop]
    rw [hdep]; rfl

end ExWorld

end Gama.Props.C20
