/-
  C20 for the Gram–Schmidt solver: the dependent-unknown flags `AdjGSO::lindep(i)`
  (`ICGS::lindep_columns`, filled by `icgs1` in the natural order of the unknowns) and
  `defect()`.  Model `Gama/Model/Ls/Gso.lean`; same scalars / hypothesis as Props/C01/Gso.lean;
  proofs `Gama/Lemmas/Ls/GsoCof.lean` on top of the invariant library.

  Proved: an unknown is flagged IF AND ONLY IF its column is a linear combination of the columns
  BEFORE it; the number of flags is the reported defect and equals n − rank A; deleting the
  flagged columns leaves a matrix of full column rank.
-/
import Gama.Lemmas.Ls.GsoMore
import Gama.Lemmas.Ls.GsoReal
namespace Gama.Props.C20
open Gama Gama.Ls Gama.LS Gama.Ls.Gso Matrix

set_option linter.unusedSectionVars false

variable {K : Type} [Field K] [LinearOrder K] [IsStrictOrderedRing K] [SqrtField K]

/-- `lindep(i)` ⇒ unknown i is a linear combination of the unknowns 1..i−1 -/
theorem C20_gso_lindep_true (p : Problem K) (hU : Unambiguous p) (a : Answer K)
    (h : gsoSolve p = .ok a) (i : Nat) (hi : a.lindep i = .ok true) :
    ∃ hi1 : 1 ≤ i ∧ i ≤ p.n, ∃ γ : Fin p.n → K, (∀ j : Fin p.n, i - 1 ≤ j → γ j = 0) ∧
      ∀ r, p.A r ⟨i - 1, by omega⟩ = ∑ j, p.A r j * γ j :=
  gso_lindep_true p hU h i hi

/-- `lindep(i)` ⇔ column i of A lies in the span of the columns 1..i−1 -/
theorem C20_gso_lindep_iff (p : Problem K) (hU : Unambiguous p) (a : Answer K)
    (h : gsoSolve p = .ok a) (i : Nat) (hi : 1 ≤ i ∧ i ≤ p.n) :
    a.lindep i = .ok true ↔
      ∃ γ : Fin p.n → K, (∀ j : Fin p.n, i - 1 ≤ j → γ j = 0) ∧
        ∀ r, p.A r ⟨i - 1, by omega⟩ = ∑ j, p.A r j * γ j := by
  constructor
  · intro hl
    obtain ⟨_, γ, h1, h2⟩ := gso_lindep_true p hU h i hl
    exact ⟨γ, h1, h2⟩
  · rintro ⟨γ, h1, h2⟩
    exact gso_lindep_conv p hU h i hi γ h1 h2

/-- deleting the flagged columns leaves a matrix of full column rank: a combination of the
    unflagged columns that vanishes is trivial -/
theorem C20_gso_removal_full_rank (p : Problem K) (hU : Unambiguous p) (a : Answer K)
    (h : gsoSolve p = .ok a) (γ : Fin p.n → K)
    (hγ : ∀ j : Fin p.n, a.lindep (j + 1) = .ok true → γ j = 0) (hA : p.A *ᵥ γ = 0) : γ = 0 :=
  gso_removal_full_rank p hU h γ hγ hA

/-- #{i | lindep i} = defect = n − rank A -/
theorem C20_gso_count (p : Problem K) (hU : Unambiguous p) (a : Answer K) (h : gsoSolve p = .ok a) :
    (Finset.univ.filter fun j : Fin p.n => a.lindep (j + 1) = .ok true).card = a.defect ∧
    a.defect + p.A.rank = p.n :=
  gso_count p hU h

/-- non-vacuity: `Ex.pR` (A = [1 1; 0 0]) — unknown 2 is flagged, defect 1 -/
example : Unambiguous Ex.pR ∧ ∃ a, gsoSolve Ex.pR = .ok a ∧ a.defect = 1 ∧ a.lindep 2 = .ok true := by
  obtain ⟨a, h2, _, _, h5, h6⟩ := Ex.pR_answers
  exact ⟨Ex.pR_unambiguous, a, h2, h5, h6⟩

end Gama.Props.C20
