/-
  C20 — a refusal of the gso solver is not sticky (round 5; seeded/C20-seed3).

  `AdjGSO::solve()` refuses a system (`BadRegularization`) iff `icgs.error() != 0`.  `error_icgs2_defect` is a member
  of the ICGS object that lives as long as the `AdjGSO` object: `LocalNetwork` keeps ONE solver object across
  `null_space()` (refused solve, points removed), `project_equations()` / `reset(A', b')` and every linearisation
  iteration.  The machine (Model/FullState.lean, Model/FullHist.lean) carries the counter as state (`FState.err`) and
  interprets the reset / increment / read sites from the table REGENERATED from icgs.cpp, icgs.h, adj_gso.h
  (Gen/IcgsError.lean, tools/gen/c20_icgs.py).  Theorems are for ALL histories, including refused solves, over any
  sequence of inputs; nothing is assumed about the inputs or the lists.  Lemmas: Lemmas/FullRefusal.lean.
-/
import Gama.Lemmas.FullRefusal
namespace Gama.Props.C20
open Gama Gama.C04 Gama.C04.Full

/-- **A refusal is not sticky.**  After ANY history of the same gso object — queries, `min_x…`, `reset`, resets to
    other systems, any number of refused solves among them — the system `inp'` handed over by `reset(A', b')` is
    answered exactly as by a brand-new object with the object's configuration, refusal included; and it is refused
    iff ITS OWN defect is not resolved by the configured list (for `q` any query: `unknowns`, `residuals`, `defect`,
    `lindep`, cofactors — all call `solve()`). -/
theorem C20_gso_refusal_is_not_sticky (inp0 : Full.Input) (ua : Bool) (l0 : Option (List Nat)) (ops : List Full.HOp)
    (inp' : Full.Input) (q : Full.Op) (hq : q.IsQuery) :
    let h := hfrun .gso ⟨inp0, Full.init ua l0⟩ ops
    let h' := (hfstep .gso h (.resetNew inp')).1
    (hfstep .gso h' (.q q)).2 = Full.fresh .gso inp' h.s.useAll h.s.list q ∧
    ((hfstep .gso h' (.q q)).2 = .badReg ↔ (0 < inp'.nullity ∧ inp'.resolves (Full.eff inp' h.s) = false)) := by
  intro h h'
  have hnp : ¬ Pending .gso inp' (freset h.s) := fun hp => absurd hp.1 (by simp [freset])
  have h1 : (hfstep .gso h' (.q q)).2 = Full.fresh .gso inp' h.s.useAll h.s.list q :=
    (stepR .gso inp' (freset h.s) (invR_unsolved _ _ _ rfl) q).2 hnp
  refine ⟨h1, ?_⟩
  rw [h1, fresh_refused_iff .gso inp' _ _ q hq]
  unfold Refuses
  rw [effM_gso]
  rfl

/-- the same for EVERY reachable state, not only right after `reset(A', b')`: the only states whose answer differs
    from a fresh object's are those in which the refusal of the CURRENT system under the CURRENT configuration has
    already been delivered (`is_solved` is set before the throw — `null_space()` reads `defect()/lindep()` next) and
    nothing (`min_x…`, `reset`) cleared it since; a fresh object refuses there too (second part). -/
theorem C20_gso_answer_is_fresh_unless_own_refusal_pending (inp0 : Full.Input) (ua : Bool) (l0 : Option (List Nat))
    (ops : List Full.HOp) (q : Full.Op) :
    let h := hfrun .gso ⟨inp0, Full.init ua l0⟩ ops
    (¬ Pending .gso h.inp h.s → (hfstep .gso h (.q q)).2 = Full.fresh .gso h.inp h.s.useAll h.s.list q) ∧
    (Pending .gso h.inp h.s → q.IsQuery → Full.fresh .gso h.inp h.s.useAll h.s.list q = .badReg) := by
  intro h
  have hi := hfrunR .gso ⟨inp0, Full.init ua l0⟩ (invR_unsolved _ _ _ rfl) ops
  exact ⟨(stepR .gso h.inp h.s hi q).2, fun hp hq => pending_fresh_refuses .gso h.inp h.s hp q hq⟩

/-- **the reason, on the regenerated table** (`decide`-style evaluation of the interpreter on Gen/IcgsError.lean):
    whatever value the counter had, after the ICGS calls of one `solve()` it is 0 unless THIS system is singular and
    ITS regularisation failed, and `solve()` throws exactly then. -/
theorem C20_icgs_counter_reset_on_every_solve (sing fail : Bool) (e : Nat) :
    counter icgsCode .gso sing fail e = counter icgsCode .gso sing fail 0 ∧
    (gsoThrows icgsCode (counter icgsCode .gso sing fail e) = (sing && fail)) := by
  cases sing <;> cases fail <;> exact ⟨rfl, rfl⟩

/-- non-vacuity + the scenario of the seeded change on the CODE's table: singular system with a list that does not
    resolve it (refused), `reset` to a regular system: answered `x`; to a singular system the list resolves: answered -/
example :
    let a : Full.Input := { n := 6, nullity := 3, resolves := fun l => decide (3 ≤ l.length) }
    let b : Full.Input := { n := 4, nullity := 0, resolves := fun _ => true }
    let c : Full.Input := { n := 5, nullity := 2, resolves := fun l => decide (2 ≤ l.length) }
    let h := hfrun .gso ⟨a, Full.init false (some [1, 2])⟩ [.q .unknowns, .q .defect]
    (hfstep .gso ⟨a, Full.init false (some [1, 2])⟩ (.q .unknowns)).2 = .badReg ∧
    h.s.err ≠ 0 ∧
    (hfstep .gso (hfstep .gso h (.resetNew b)).1 (.q .unknowns)).2 = .x .plain ∧
    (hfstep .gso (hfstep .gso h (.resetNew c)).1 (.q .unknowns)).2 = .x (.reg [1, 2]) ∧
    (hfstep .gso (hfstep .gso h (.resetNew a)).1 (.q .unknowns)).2 = .badReg := by decide

/-- **the reset behind the early return breaks it (witness; seeded/C20-seed3).**  With
    `error_icgs2_defect = 0;` moved from `icgs1()` into `icgs2()` behind `if (defect() == 0) return;` the counter is
    no longer history-free, and the same object refuses the REGULAR system `b` after one refused solve of `a`
    ("bad regularization" for a full-rank system), while a fresh object answers it; a singular system whose list
    resolves it is still answered (the reset is reached). -/
theorem C20_gso_refusal_sticky_with_reset_behind_early_return :
    let T := icgsResetBehindEarlyReturn
    let a : Full.Input := { n := 6, nullity := 3, resolves := fun l => decide (3 ≤ l.length) }
    let b : Full.Input := { n := 4, nullity := 0, resolves := fun _ => true }
    let c : Full.Input := { n := 5, nullity := 2, resolves := fun l => decide (2 ≤ l.length) }
    let s1 := (stepWith T .gso a (Full.init false (some [1, 2])) .unknowns).1
    (∃ e, counter T .gso false false e ≠ counter T .gso false false 0) ∧
    (stepWith T .gso a (Full.init false (some [1, 2])) .unknowns).2 = .badReg ∧
    (stepWith T .gso b (freset s1) .unknowns).2 = .badReg ∧
    (stepWith T .gso b (Full.init false (some [1, 2])) .unknowns).2 = .x .plain ∧
    (stepWith T .gso c (freset s1) .unknowns).2 = .x (.reg [1, 2]) := by
  refine ⟨⟨1, by decide⟩, by decide, by decide, by decide, by decide⟩

end Gama.Props.C20
