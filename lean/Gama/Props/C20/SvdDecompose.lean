/-
  C20, svd solver, WITHOUT the factorisation certificate.

  `Props/C20/Svd.lean`, `SvdSubset.lean`, `WorldEnv.lean` prove the svd clauses of C20 for the
  post-decomposition model with the factors `d = (U, W, V)` as a parameter and `SvdCert` as hypothesis.
  The algebraic part of `SvdCert` is a theorem about the model of `SVD::svd()` (`Svd.decompose_svdCert`,
  Lemmas/Ls/SvdDecompCert.lean).  Here the theorems are restated for the factors `Svd.decompose` RETURNS:

      `Svd.decompose p.m p.n p.dense = .ok d`  ∧  `Unambiguous sq tol p.n (vget d.W)`

  (the transliterated Golub–Reinsch run returned; every returned singular value is exactly 0 or above
  `tol·max W`) replace the certificate.  Not proved: that the run returns (convergence), IEEE rounding.

    C20_svd_decompose_count            defect = number of null singular values = n − rank A
    C20_svd_decompose_lindep_partial   `lindep i` ⇔ the i-th singular value is 0; #flags = defect
                                       (the clause "named unknowns are dependent" stays FALSE: F7-svd,
                                       `C20_svd_lindep`; the witness `Ex.pF`/`Ex.dF` there is an exact
                                       factorisation with explicit factors)
    C20_svd_decompose_subset_refusal   when `min_subset_x` refuses / accepts a regularisation subset (a)–(e)
    C20_svd_decompose_sound_partial    what survives of `SolverObs.Sound` for the svd object
    C20_world_svd_decompose_hypotheses, C20_adjusted_sound_svd_decompose
                                       the decision layer on top of svd objects whose factors are the
                                       ones `decompose` returned for every configuration's problem
-/
import Gama.Props.C20.Svd
import Gama.Props.C20.SvdSubset
import Gama.Props.C20.WorldEnv
import Gama.Lemmas.Ls.SvdDecompCert
import Gama.Lemmas.Ls.SvdDecompWitness
namespace Gama.Props.C20
open Gama Gama.Ls Gama.Ls.Svd Gama.LS Gama.NetDecision Matrix

set_option linter.unusedSectionVars false

section field
variable {K : Type} [Field K] [LinearOrder K] [IsStrictOrderedRing K] {sq : K → K}

/-- **C20 (svd), certificate-free**: the reported defect is `n − rank A` -/
theorem C20_svd_decompose_count (hs : SqrtLaw sq) (fixed : Bool) {tol : K} (htol : 0 ≤ tol) (p : Problem K) (d : Dec K)
    (hd : @decompose K (fieldScalar sq) p.m p.n (@Problem.dense K (fieldScalar sq) p) = .ok d)
    (hun : Unambiguous sq tol p.n (@vget K (fieldScalar sq) d.W)) (hreg : RegOK p.reg) (a : Answer K)
    (h : @svdSolveCert K (fieldScalar sq) fixed tol d p = .ok a) :
    a.defect + (@Problem.A K (fieldScalar sq) p).rank = p.n :=
  C20_svd_count hs fixed htol p d (decompose_svdCert sq hs.mul_self hs.nonneg tol p.m p.n _ d hd hun) hreg a h

/-- what `lindep` means on this solver, certificate-free: flag i ⇔ the i-th returned singular value is
    zero; the number of flags is the defect -/
theorem C20_svd_decompose_lindep_partial (hs : SqrtLaw sq) (fixed : Bool) {tol : K} (htol : 0 ≤ tol) (p : Problem K)
    (d : Dec K)
    (hd : @decompose K (fieldScalar sq) p.m p.n (@Problem.dense K (fieldScalar sq) p) = .ok d)
    (hun : Unambiguous sq tol p.n (@vget K (fieldScalar sq) d.W)) (hreg : RegOK p.reg)
    (a : Answer K) (h : @svdSolveCert K (fieldScalar sq) fixed tol d p = .ok a) :
    (∀ i : Fin p.n, a.lindep (i.val + 1) = .ok (decide (toVec p.n d.W i = 0))) ∧
    a.defect = (Finset.univ.filter fun i : Fin p.n => a.lindep (i.val + 1) = .ok true).card :=
  C20_svd_lindep_partial hs fixed htol p d
    (decompose_svdCert sq hs.mul_self hs.nonneg tol p.m p.n _ d hd hun) hreg a h

/-- **when does the svd solver refuse a regularisation subset, certificate-free** — clauses (a)–(e) of
    `C20_svd_subset_refusal` for the factors `decompose` returned -/
theorem C20_svd_decompose_subset_refusal (hs : SqrtLaw sq) (fixed : Bool) {tol : K} (htol : 0 ≤ tol) (p : Problem K)
    (d : Dec K) (l : List Nat) (hp : p.reg = .subset l)
    (hd : @decompose K (fieldScalar sq) p.m p.n (@Problem.dense K (fieldScalar sq) p) = .ok d)
    (hun : Unambiguous sq tol p.n (@vget K (fieldScalar sq) d.W)) (hnd : l.Nodup)
    (hr : ∀ i ∈ l, 1 ≤ i ∧ i ≤ p.n) :
    let A := @Problem.A K (fieldScalar sq) p
    let τ := if fixed then tol else 0
    (¬ Resolves A p.S → @svdSolveCert K (fieldScalar sq) fixed tol d p = .error .BadRegularization)
    ∧ (∀ e, @svdSolveCert K (fieldScalar sq) fixed tol d p = .error e →
        e = .BadRegularization ∧ ∃ g : Fin p.n → K, A *ᵥ g = 0 ∧ g ≠ 0 ∧ normS p.S g ≤ τ * τ * (g ⬝ᵥ g))
    ∧ (∀ a, @svdSolveCert K (fieldScalar sq) fixed tol d p = .ok a → Resolves A p.S)
    ∧ ((∀ g : Fin p.n → K, A *ᵥ g = 0 → g ≠ 0 → τ * τ * (g ⬝ᵥ g) < normS p.S g) →
        ∃ a, @svdSolveCert K (fieldScalar sq) fixed tol d p = .ok a)
    ∧ (fixed = false →
        (@svdSolveCert K (fieldScalar sq) fixed tol d p = .error .BadRegularization ↔ ¬ Resolves A p.S)) :=
  C20_svd_subset_refusal hs fixed htol p d l hp
    (decompose_svdCert sq hs.mul_self hs.nonneg tol p.m p.n _ d hd hun) hnd hr

/-- what survives of `SolverObs.Sound` for the svd object, certificate-free (`C20_svd_sound_partial`) -/
theorem C20_svd_decompose_sound_partial (hs : SqrtLaw sq) (fixed : Bool) {tol : K} (htol : 0 ≤ tol) (p : Problem K)
    (d : Dec K)
    (hd : @decompose K (fieldScalar sq) p.m p.n (@Problem.dense K (fieldScalar sq) p) = .ok d)
    (hun : Unambiguous sq tol p.n (@vget K (fieldScalar sq) d.W))
    (hr : ∀ l, p.reg = .subset l → l.Nodup ∧ ∀ i ∈ l, 1 ≤ i ∧ i ≤ p.n) :
    let o := @obsSvdCert K (fieldScalar sq) fixed tol d p
    let A := @Problem.A K (fieldScalar sq) p
    let τ := if fixed then tol else 0
    o.Counted p.n ∧ o.defect + A.rank = p.n
    ∧ (¬ Resolves A p.S → o.refused = some .BadRegularization)
    ∧ (∀ e, o.refused = some e →
        e = .BadRegularization ∧ ∃ g : Fin p.n → K, A *ᵥ g = 0 ∧ g ≠ 0 ∧ normS p.S g ≤ τ * τ * (g ⬝ᵥ g))
    ∧ (o.refused = none → Resolves A p.S)
    ∧ (fixed = false → (o.refused = some .BadRegularization ↔ ¬ Resolves A p.S)) :=
  C20_svd_sound_partial hs fixed htol p d
    (decompose_svdCert sq hs.mul_self hs.nonneg tol p.m p.n _ d hd hun) hr

variable (pe : Net → ProjEq (Problem K)) (m0 : K) (dec : Problem K → Dec K) (fixed : Bool) (tol : K)

/-- **the three world hypotheses for svd objects, certificate-free**: `dec p` is what `Svd.decompose`
    returned on every configuration's problem, with unambiguous singular values -/
theorem C20_world_svd_decompose_hypotheses (hs : SqrtLaw sq) (htol : 0 ≤ tol) (hpe : PEWF pe)
    (hdim : ∀ net, (pe net).prob.n = (pe net).unknowns.length)
    (hd : ∀ net, @decompose K (fieldScalar sq) (pe net).prob.m (pe net).prob.n
      (@Problem.dense K (fieldScalar sq) (pe net).prob) = .ok (dec (pe net).prob))
    (hun : ∀ net, Unambiguous sq tol (pe net).prob.n (@vget K (fieldScalar sq) (dec (pe net).prob).W))
    (hreg : ∀ net, Svd.RegOK (pe net).prob.reg) :
    let W := @worldOf K (Problem K) pe (fun p => @obsSvdCert K (fieldScalar sq) fixed tol (dec p) p)
    (@World.abs K (fieldScalar sq) m0 W).WF ∧ (@World.abs K (fieldScalar sq) m0 W).RefusalFlags
      ∧ (@World.abs K (fieldScalar sq) m0 W).RefusalFirst :=
  C20_world_svd_hypotheses pe m0 dec fixed tol hs htol hpe hdim
    (fun net => decompose_svdCert sq hs.mul_self hs.nonneg tol _ _ _ _ (hd net) (hun net)) hreg

/-- **`C20_adjusted_sound` for svd, certificate-free**: a verdict `adjusted d` comes from a final
    configuration on which the svd object answered, with `d = n − rank A`, `d ≤ min_n` and a list that
    resolves the defect -/
theorem C20_adjusted_sound_svd_decompose (hs : SqrtLaw sq) (htol : 0 ≤ tol)
    (hdim : ∀ net, (pe net).prob.n = (pe net).unknowns.length)
    (hd : ∀ net, @decompose K (fieldScalar sq) (pe net).prob.m (pe net).prob.n
      (@Problem.dense K (fieldScalar sq) (pe net).prob) = .ok (dec (pe net).prob))
    (hun : ∀ net, Unambiguous sq tol (pe net).prob.n (@vget K (fieldScalar sq) (dec (pe net).prob).W))
    (hr : ∀ net l, (pe net).prob.reg = .subset l → l.Nodup ∧ ∀ i ∈ l, 1 ≤ i ∧ i ≤ (pe net).prob.n)
    (net : Net) (d : Nat)
    (h : (@NetDecision.decide K (fieldScalar sq) m0
      (worldOf pe (fun p => @obsSvdCert K (fieldScalar sq) fixed tol (dec p) p)) net).2 = .adjusted d) :
    ∃ n0, (@obsSvdCert K (fieldScalar sq) fixed tol (dec (pe n0).prob) (pe n0).prob).refused = none ∧
      (@obsSvdCert K (fieldScalar sq) fixed tol (dec (pe n0).prob) (pe n0).prob).defect = d ∧
      Resolves (@Problem.A K (fieldScalar sq) (pe n0).prob) (pe n0).prob.S ∧
      d + (@Problem.A K (fieldScalar sq) (pe n0).prob).rank = (pe n0).prob.n ∧
      (pe n0).net = (generalParameters (@World.abs K (fieldScalar sq) m0
        (worldOf pe (fun p => @obsSvdCert K (fieldScalar sq) fixed tol (dec p) p)))
        (fuelFor net) (fuelFor net) (St.init net)).1.net ∧
      d ≤ minN (pe n0).unknowns (pe n0).net :=
  C20_adjusted_sound_svd pe m0 dec fixed tol hs htol hdim
    (fun net => decompose_svdCert sq hs.mul_self hs.nonneg tol _ _ _ _ (hd net) (hun net)) hr net d h

end field

/-! ### non-vacuity -/

section examples
open Gama.Ls.Svd.Ex Gama.Ls.Ex
attribute [local instance] sqrtFnOfSqrtField
attribute [local instance 2000] scalarOfField

/-- non-vacuity over ℝ (`Real.sqrt`), SINGULAR problem with a proper regularisation subset: `Ex.pCVdot`
    (`A = [[6,8],[3,4],[6,8]]`, rank 1, list `[1]`): `decompose` returns `Ex.dCV` (the run evaluated over ℝ,
    `Ex.pCVdot_decompose`), the singular values (0, 15) are unambiguous at `Svd.wTol`, the list has no
    repetition and is in range, the model answers with defect 1 — and `C20_svd_decompose_count`,
    `C20_svd_decompose_subset_refusal` (c) applied: `1 + rank A = 2`, the list resolves the defect -/
example : Svd.decompose Ex.pCVdot.m Ex.pCVdot.n Ex.pCVdot.dense = .ok Ex.dCV
    ∧ Svd.Unambiguous (Gso.SqrtField.sqrt : ℝ → ℝ) Svd.wTol Ex.pCVdot.n (Svd.vget Ex.dCV.W)
    ∧ Ex.pCVdot.reg = .subset [1] ∧ [1].Nodup ∧ (∀ i ∈ [1], 1 ≤ i ∧ i ≤ Ex.pCVdot.n)
    ∧ ∃ a, svdSolveCert true (Svd.wTol : ℝ) Ex.dCV Ex.pCVdot = .ok a ∧ a.defect = 1
      ∧ 1 + Ex.pCVdot.A.rank = 2 ∧ Resolves Ex.pCVdot.A Ex.pCVdot.S := by
  obtain ⟨a, ha, -, hdf, -⟩ := Ex.pCVdot_cert_answer
  have hun := Ex.pCVdot_hun Ex.dCV Ex.pCVdot_decompose
  have hcount := C20_svd_decompose_count (sq := (Gso.SqrtField.sqrt : ℝ → ℝ)) sqrtLaw_of_sqrtField true
    Svd.wTol_nonneg Ex.pCVdot Ex.dCV Ex.pCVdot_decompose hun (List.nodup_singleton 1) a ha
  obtain ⟨-, -, h3, -⟩ := C20_svd_decompose_subset_refusal (sq := (Gso.SqrtField.sqrt : ℝ → ℝ))
    sqrtLaw_of_sqrtField true Svd.wTol_nonneg Ex.pCVdot Ex.dCV [1] rfl Ex.pCVdot_decompose hun
    (List.nodup_singleton 1) (by decide)
  rw [hdf] at hcount
  exact ⟨Ex.pCVdot_decompose, hun, rfl, List.nodup_singleton 1, by decide, a, ha, hdf, hcount, h3 a ha⟩

/-- non-vacuity of `C20_svd_decompose_sound_partial` / `C20_adjusted_sound_svd_decompose` (their hypotheses
    `hdim`, `hd`, `hun`, `hr`) over ℝ: project equations that always produce `Ex.pCVdot` (two heights) with
    `dec := fun _ => Ex.dCV` -/
example : ∃ (pe : Net → ProjEq (Problem ℝ)) (dec : Problem ℝ → Svd.Dec ℝ),
    (∀ net, (pe net).prob.n = (pe net).unknowns.length)
    ∧ (∀ net, Svd.decompose (pe net).prob.m (pe net).prob.n (pe net).prob.dense = .ok (dec (pe net).prob))
    ∧ (∀ net, Svd.Unambiguous (Gso.SqrtField.sqrt : ℝ → ℝ) Svd.wTol (pe net).prob.n (Svd.vget (dec (pe net).prob).W))
    ∧ (∀ net l, (pe net).prob.reg = .subset l → l.Nodup ∧ ∀ i ∈ l, 1 ≤ i ∧ i ≤ (pe net).prob.n) :=
  ⟨fun net => { net := net, rm := [], unknowns := [⟨"A", .Z⟩, ⟨"B", .Z⟩], nObs := 3, nPts := 2, prob := Ex.pCVdot },
   fun _ => Ex.dCV, fun _ => rfl, fun _ => Ex.pCVdot_decompose,
   fun _ => Ex.pCVdot_hun Ex.dCV Ex.pCVdot_decompose,
   fun _ l hl => by
    have : l = [1] := by
      have h : Reg.subset [1] = Reg.subset l := hl
      injection h with h'; exact h'.symm
    subst this
    exact ⟨by decide, fun i hi => by simp at hi; subst hi; exact ⟨le_refl _, (by decide : 1 ≤ 2)⟩⟩⟩

end examples

end Gama.Props.C20
