/-
  C02 — "the algorithms give the same adjustment" through `LocalNetwork` and `Adj` with ONE input-side solver
  hypothesis per run (round 8): `InputGap alg A P S τ` (`Lemmas/Ls/InputGap.lean`: `GapThresholds ∧ RankGap` for
  envelope/cholesky/gso, `W_tol ≤ τ ∧ SingGap` for svd) replaces `Net.SolverHyp` / `AdjM.SolverHyp`, and the separate
  hypothesis `Resolves A S` of `C02_same_net` / `C02_same_adj` is DERIVED: if one of the two algorithms is not svd its
  `RankGap` contains the margin (`SMargin.resolves`); if both are svd the two runs are the same run.

    C02_same_net_gap   any two of the four algorithms on one network: equal `x`, `r`, `[pvv]`, defect, all `qxx(i,j)`,
                       all `qbb(i,j)`, equal homogenised systems
    C02_same_adj_gap   the same through class `Adj`
-/
import Gama.Props.C02Facades
import Gama.Props.C01.InputGap
namespace Gama.Props.C02
open Gama Gama.Ls Gama.Ls.Net Gama.LS Matrix

set_option linter.unusedSectionVars false
set_option linter.unusedVariables false

section sqrtField
variable {K : Type} [Field K] [LinearOrder K] [IsStrictOrderedRing K] [Gso.SqrtField K]
attribute [local instance] sqrtFnOfSqrtField
attribute [local instance 2000] scalarOfField

/-- **the four algorithms give the same adjustment through `LocalNetwork`** — pairwise, any two; each run under
    the input-side hypothesis of ITS algorithm, nothing else about the solvers -/
theorem C02_same_net_gap (alg alg' : Alg) (np : NetProblem K)
    (hdim : (dimsN np).sum = np.m) (hrows : RowsOK (toProblem np)) (hm0 : np.m0 ≠ 0)
    (Pc : Matrix (Fin (toProblem np).m) (Fin (toProblem np).m) K) (hPc : Sigma np * Pc = 1)
    (hreg : Env.RegListOK (toProblem np)) {τ τ' : K}
    (hg : InputGap alg (toProblem np).A ((np.m0 * np.m0) • Pc) (toProblem np).S τ)
    (hg' : InputGap alg' (toProblem np).A ((np.m0 * np.m0) • Pc) (toProblem np).S τ')
    (a a' : NetAnswer K) (h : netSolve alg np = .ok a) (h' : netSolve alg' np = .ok a') :
    toVec (toProblem np).n a.x = toVec (toProblem np).n a'.x ∧
    toVec (toProblem np).m a.r = toVec (toProblem np).m a'.r ∧
    a.pvv = a'.pvv ∧ a.defect = a'.defect ∧
    (∀ i j : Fin (toProblem np).n, a.qxx (i.val + 1) (j.val + 1) = a'.qxx (i.val + 1) (j.val + 1)) ∧
    (∀ i j : Fin (toProblem np).m, a.qbb (i.val + 1) (j.val + 1) = a'.qbb (i.val + 1) (j.val + 1)) ∧
    a.Ad = a'.Ad ∧ a.bd = a'.bd := by
  have hyp := Props.C01.C01_net_solverhyp_of_inputgap np hdim hrows hm0 Pc hPc hreg alg hg
  have hyp' := Props.C01.C01_net_solverhyp_of_inputgap np hdim hrows hm0 Pc hPc hreg alg' hg'
  by_cases halg : alg = .svd
  · by_cases halg' : alg' = .svd
    · subst halg; subst halg'
      obtain rfl : a = a' := Except.ok.inj (h.symm.trans h')
      exact ⟨rfl, rfl, rfl, rfl, fun _ _ => rfl, fun _ _ => rfl, rfl, rfl⟩
    · exact C02_same_net alg alg' np hdim hrows hm0 Pc hPc hyp hyp' (hg'.resolves halg') a a' h h'
  · exact C02_same_net alg alg' np hdim hrows hm0 Pc hPc hyp hyp' (hg.resolves halg) a a' h h'

/-- **… and through class `Adj`** -/
theorem C02_same_adj_gap (alg alg' : Alg) (p : Problem K) (hin : Env.InputOK p) (hreg : Env.RegListOK p)
    (P : Matrix (Fin p.m) (Fin p.m) K) (hP : p.C * P = 1) {τ τ' : K}
    (hg : InputGap alg p.A P p.S τ) (hg' : InputGap alg' p.A P p.S τ')
    (a a' : Answer K) (h : adjSolve alg p = .ok a) (h' : adjSolve alg' p = .ok a') :
    toVec p.n a.x = toVec p.n a'.x ∧ toVec p.m a.r = toVec p.m a'.r ∧ a.rtr = a'.rtr ∧
    a.defect = a'.defect ∧
    (∀ i j : Fin p.n, a.qxx (i.val + 1) (j.val + 1) = a'.qxx (i.val + 1) (j.val + 1)) ∧
    (∀ i j : Fin p.m, a.qbb (i.val + 1) (j.val + 1) = a'.qbb (i.val + 1) (j.val + 1)) := by
  have hyp := Props.C01.C01_adj_solverhyp_of_inputgap p hin hreg P hP alg hg
  have hyp' := Props.C01.C01_adj_solverhyp_of_inputgap p hin hreg P hP alg' hg'
  by_cases halg : alg = .svd
  · by_cases halg' : alg' = .svd
    · subst halg; subst halg'
      obtain rfl : a = a' := Except.ok.inj (h.symm.trans h')
      exact ⟨rfl, rfl, rfl, rfl, fun _ _ => rfl, fun _ _ => rfl⟩
    · exact C02_same_adj alg alg' p hin.dims hin.rows P hP hyp hyp' (hg'.resolves halg') a a' h h'
  · exact C02_same_adj alg alg' p hin.dims hin.rows P hP hyp hyp' (hg.resolves halg) a a' h h'

end sqrtField

/-! ### non-vacuity -/

section examples
open Gama.Ls.Ex
attribute [local instance] sqrtFnOfSqrtField
attribute [local instance 2000] scalarOfField

/-- `C02_same_net_gap` APPLIED over ℝ: cholesky (dense path) versus envelope (sparse path) on `Ex.npR`, both
    hypotheses are the one `RankGap` at `τ = ½`; both models answer -/
example : ∃ a a', netSolve .chol npR = .ok a ∧ netSolve .env npR = .ok a' ∧
    toVec (toProblem npR).n a.x = toVec (toProblem npR).n a'.x ∧ a.pvv = a'.pvv ∧ a.Ad = a'.Ad := by
  obtain ⟨a, ha, -⟩ := Props.C01.C01_net_answers_witness .chol (by decide)
  obtain ⟨a', ha', -⟩ := Props.C01.C01_net_answers_witness .env (by decide)
  obtain ⟨x, -, p, -, -, -, A, -⟩ := C02_same_net_gap .chol .env npR (npW_dims 2 [1]) (npW_rows 2 [1])
    (by show (2 : ℝ) ≠ 0; norm_num) PcN npR_sigma_inv (npW_regListOK 2 [1] (Or.inl rfl))
    (Props.C01.C01_net_inputgap_witness .chol (by decide)) (Props.C01.C01_net_inputgap_witness .env (by decide))
    a a' ha ha'
  exact ⟨a, a', ha, ha', x, p, A⟩

/-- svd versus svd needs no `Resolves`; and svd's hypothesis on the evaluated network `Ex.npV` is met
    (`C01_net_inputgap_svd_witness`), the model answers -/
example : ∃ a, netSolve .svd npV = .ok a ∧ a.defect = a.defect := by
  obtain ⟨a, ha, -, -⟩ := npV_svd
  exact ⟨a, ha, (C02_same_net_gap .svd .svd npV npV_dims npV_rows (by show (2 : ℝ) ≠ 0; norm_num) PcV
    npV_sigma_inv Props.C01.npV_regListOK Props.C01.C01_net_inputgap_svd_witness
    Props.C01.C01_net_inputgap_svd_witness a a ha ha).2.2.2.1⟩

end examples

end Gama.Props.C02
