/-
  C08 through `LocalNetwork` with ONE input-side solver hypothesis per run (round 8): `C08_net_datum` with
  `Net.SolverHyp alg np`, `Net.SolverHyp alg' { np with minx := minx' }` replaced by `InputGap` (`Lemmas/Ls/InputGap.lean`)
  on the SAME design and weight matrix, once per list: `GapThresholds ∧ RankGap A P S τ` (envelope/cholesky/gso)
  resp. `W_tol ≤ τ ∧ SingGap A P τ` (svd; does not mention the list at all).  Conclusion word for word.
-/
import Gama.Props.C08Net
import Gama.Props.C08NetWitness
import Gama.Props.C01.InputGap
namespace Gama.Props.C08
open Gama Gama.Ls Gama.Ls.Net Gama.LS Gama.Ls.AdjM Matrix

set_option linter.unusedSectionVars false
set_option linter.unusedVariables false

section sqrtField
variable {K : Type} [Field K] [LinearOrder K] [IsStrictOrderedRing K] [Gso.SqrtField K]
attribute [local instance] sqrtFnOfSqrtField
attribute [local instance 2000] scalarOfField

/-- **choice of datum changes only the datum, through `LocalNetwork`, input-side hypotheses only** -/
theorem C08_net_datum_gap (alg alg' : Alg) (np : NetProblem K) (minx' : List Nat)
    (hdim : (dimsN np).sum = np.m) (hrows : RowsOK (toProblem np)) (hm0 : np.m0 ≠ 0)
    (Pc : Matrix (Fin (toProblem np).m) (Fin (toProblem np).m) K) (hPc : Sigma np * Pc = 1)
    (hreg : Env.RegListOK (toProblem np)) (hreg' : Env.RegListOK (toProblem { np with minx := minx' }))
    {τ τ' : K}
    (hg : InputGap alg (toProblem np).A ((np.m0 * np.m0) • Pc) (toProblem np).S τ)
    (hg' : InputGap alg' (toProblem np).A ((np.m0 * np.m0) • Pc) ((Reg.subset minx').toFinset np.n) τ')
    (a a' : NetAnswer K) (h : netSolve alg np = .ok a) (h' : netSolve alg' { np with minx := minx' } = .ok a') :
    toVec (toProblem np).m a.r = toVec (toProblem np).m a'.r ∧ a.pvv = a'.pvv ∧
    (toProblem np).A *ᵥ toVec (toProblem np).n a.x = (toProblem np).A *ᵥ toVec (toProblem np).n a'.x ∧
    (toProblem np).A *ᵥ (toVec (toProblem np).n a.x - toVec (toProblem np).n a'.x) = 0 ∧
    a.defect = a'.defect ∧
    (∀ i j : Fin (toProblem np).m, a.qbb (i.val + 1) (j.val + 1) = a'.qbb (i.val + 1) (j.val + 1)) ∧
    (∀ g, (toProblem np).A *ᵥ g = 0 → ∑ i ∈ (toProblem np).S, toVec (toProblem np).n a.x i * g i = 0) ∧
    (∀ g, (toProblem np).A *ᵥ g = 0 →
      ∑ i ∈ (Reg.subset minx').toFinset np.n, toVec (toProblem np).n a'.x i * g i = 0) ∧
    (∀ y, ((toProblem np).A)ᵀ *ᵥ (((np.m0 * np.m0) • Pc) *ᵥ ((toProblem np).A *ᵥ y - (toProblem np).b)) = 0 →
      normS (toProblem np).S (toVec (toProblem np).n a.x) ≤ normS (toProblem np).S y) ∧
    (∀ y, ((toProblem np).A)ᵀ *ᵥ (((np.m0 * np.m0) • Pc) *ᵥ ((toProblem np).A *ᵥ y - (toProblem np).b)) = 0 →
      normS ((Reg.subset minx').toFinset np.n) (toVec (toProblem np).n a'.x)
        ≤ normS ((Reg.subset minx').toFinset np.n) y) :=
  C08_net_datum alg alg' np minx' hdim hrows hm0 Pc hPc
    (Props.C01.C01_net_solverhyp_of_inputgap np hdim hrows hm0 Pc hPc hreg alg hg)
    (Props.C01.C01_net_solverhyp_of_inputgap { np with minx := minx' } hdim hrows hm0 Pc hPc hreg' alg' hg')
    a a' h h'

end sqrtField

/-! ### non-vacuity -/

section examples
open Gama.Ls.Ex
attribute [local instance] sqrtFnOfSqrtField
attribute [local instance 2000] scalarOfField

/-- `C08_net_datum_gap` APPLIED over ℝ: `min_x_ = [1]` + cholesky versus `min_x_ = [2]` + envelope on `Ex.npR`; each
    list has its own `RankGap` at `τ = ½` (proved), both models answer, and the shared quantities coincide -/
example : ∃ a a', netSolve .chol npR = .ok a ∧ netSolve .env { npR with minx := [2] } = .ok a' ∧
    toVec (toProblem npR).m a.r = toVec (toProblem npR).m a'.r ∧ a.pvv = a'.pvv ∧ a.defect = a'.defect := by
  obtain ⟨a, ha, -⟩ := Props.C01.C01_net_answers_witness .chol (by decide)
  obtain ⟨a', ha', -⟩ := npW2_env [2] (Or.inr rfl)
  obtain ⟨h1, h2, -, -, h5, -⟩ :=
    C08_net_datum_gap .chol .env npR [2] (npW_dims 2 [1]) (npW_rows 2 [1]) (by show (2 : ℝ) ≠ 0; norm_num) PcN
      npR_sigma_inv (npW_regListOK 2 [1] (Or.inl rfl)) (npW_regListOK 2 [2] (Or.inr rfl))
      (Props.C01.C01_net_inputgap_witness .chol (by decide))
      ((InputGap.of_ne_svd (alg := .env) (by decide)).2 ⟨gapThresholds_half, npW_rankGap 2 [2] (Or.inr rfl) (by norm_num)⟩)
      a a' ha ha'
  exact ⟨a, a', ha, ha', h1, h2, h5⟩

end examples

end Gama.Props.C08
