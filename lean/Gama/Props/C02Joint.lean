/-
  C02 — JOINT non-vacuity of the pair theorems of Props/C02Pairs.lean (CLAUSES.md, cross-cutting
  items 6 and 10, C02 "Missing 3"): the hypotheses of `C02_same_gso_chol` and of `C02_same_gso_env`
  are each algorithm's OWN "rank numerically unambiguous" condition; the theorems would be vacuous
  if no problem met two of them at once.  Here ONE problem meets all of them at once (gso, cholesky,
  envelope, and the svd certificate of `C02_same_gso_svd`):

    `Ex.pR` over ℝ with `Real.sqrt` (Lemmas/Ls/GsoReal.lean):
       A = [1 1; 0 0], b = (1,1), unit weights, regularisation subset S = {1}
    — defect 1 (ker A = span (1,−1)), S a PROPER subset of the unknowns that resolves the defect.

  Every hypothesis is proved for it (Lemmas/Ls/ComposeJointExample.lean: the models are unfolded on
  the 2×2 data; Cholesky rejects the pivot 0 exactly, the envelope factor tests the pivots 1 and 0,
  identity ordering, `tol = s_tol = 2⁻²⁶` as in the code; svd factors `U = I, W = (√2,0),
  V = (1/√2)[1 1; 1 −1]` given explicitly), all four models answer, and the
  equality of unknowns / residuals / sum of squares is then OBTAINED FROM THE PAIR THEOREMS, not by
  evaluating the answers.
-/
import Gama.Props.C02Pairs
import Gama.Lemmas.Ls.ComposeJointExample
namespace Gama.Props.C02
open Gama Gama.Ls Gama.LS Gama.Ls.Gso Gama.Ls.Chol Gama.Ls.Env Matrix

set_option linter.unusedSectionVars false

attribute [local instance] sqrtFnOfSqrtField

/-- **joint witness gso + cholesky**: `Ex.pR` meets EVERY hypothesis of `C02_same_gso_chol`
    (Gram–Schmidt unambiguous; the rejected Cholesky pivot exactly 0; `sqrt` exact on the
    Gram–Schmidt pivots; list without duplicates; `S` resolves the defect), both models answer, and
    — by `C02_same_gso_chol` — with the same unknowns, residuals and sum of squares -/
theorem C02_joint_witness_gso_chol :
    (Gso.Unambiguous Ex.pR ∧ UnambiguousF (cholFact Ex.pR) ∧ GsSqrtExact Ex.pR
      ∧ (∀ S, Chol.regList Ex.pR.n Ex.pR.reg = some S → S.Nodup) ∧ Resolves Ex.pR.A Ex.pR.S)
    ∧ ∃ a a', gsoSolve Ex.pR = .ok a ∧ cholSolve Ex.pR = .ok a' ∧ a.defect = 1 ∧ a'.defect = 1
        ∧ toVec Ex.pR.n a.x = toVec Ex.pR.n a'.x ∧ toVec Ex.pR.m a.r = toVec Ex.pR.m a'.r ∧ a.rtr = a'.rtr := by
  obtain ⟨a, ha, -, -, hd, -⟩ := Ex.pR_answers
  obtain ⟨a', ha', hd'⟩ := Ex.pR_chol_answers
  exact ⟨⟨Ex.pR_unambiguous, Ex.pR_chol_unambiguous, Ex.pR_chol_sqrt, Ex.pR_chol_nodup, Ex.pR_resolves⟩,
    a, a', ha, ha', hd, hd',
    C02_same_gso_chol Ex.pR Ex.pR_unambiguous Ex.pR_chol_unambiguous Ex.pR_chol_sqrt Ex.pR_chol_nodup
      Ex.pR_resolves a a' ha ha'⟩

/-- **joint witness gso + envelope** (the SAME problem; identity ordering, `tol = s_tol = 2⁻²⁶`):
    `Ex.pR` meets every hypothesis of `C02_same_gso_env` (ordering a permutation; tested pivots 1 and
    exactly 0; positive tolerances; regularisation list valid; `S` resolves the defect), both models
    answer, and — by `C02_same_gso_env` — with the same unknowns, residuals and sum of squares -/
theorem C02_joint_witness_gso_env :
    (Gso.Unambiguous Ex.pR ∧ OrdOK Ex.pR.n (idOrd 2)
      ∧ FactUnambiguous (SqrtField.sqrt : ℝ → ℝ) sqrtEps Ex.pR.m Ex.pR.n Ex.pR.dense Ex.pR.rhs (idOrd 2)
      ∧ (0 : ℝ) < sqrtEps ∧ Env.RegOK Ex.pR.n (idOrd 2) Ex.pR.reg (Ex.pR.reg.toFinset Ex.pR.n)
      ∧ Resolves Ex.pR.A Ex.pR.S)
    ∧ ∃ a x, gsoSolve Ex.pR = .ok a
        ∧ (envCore (sqrtEps : ℝ) sqrtEps Ex.pR.m Ex.pR.n Ex.pR.dense Ex.pR.rhs Ex.pR.dense Ex.pR.rhs Ex.pR.reg (idOrd 2)).x = .ok x
        ∧ a.defect = 1
        ∧ (envCore (sqrtEps : ℝ) sqrtEps Ex.pR.m Ex.pR.n Ex.pR.dense Ex.pR.rhs Ex.pR.dense Ex.pR.rhs Ex.pR.reg (idOrd 2)).defect = 1
        ∧ toVec Ex.pR.n a.x = toVec Ex.pR.n x
        ∧ toVec Ex.pR.m a.r = toVec Ex.pR.m
            (envCore (sqrtEps : ℝ) sqrtEps Ex.pR.m Ex.pR.n Ex.pR.dense Ex.pR.rhs Ex.pR.dense Ex.pR.rhs Ex.pR.reg (idOrd 2)).r
        ∧ a.rtr = (envCore (sqrtEps : ℝ) sqrtEps Ex.pR.m Ex.pR.n Ex.pR.dense Ex.pR.rhs Ex.pR.dense Ex.pR.rhs Ex.pR.reg (idOrd 2)).rtr := by
  obtain ⟨a, ha, -, -, hd, -⟩ := Ex.pR_answers
  obtain ⟨x, hx⟩ := Ex.pR_env_answers
  exact ⟨⟨Ex.pR_unambiguous, Ex.idOrd2_ok, Ex.pR_factUnamb, Ex.eps_pos, Ex.pR_regOK, Ex.pR_resolves⟩,
    a, x, ha, hx, hd, Ex.pR_env_defect,
    C02_same_gso_env Ex.pR Ex.pR_unambiguous sqrtEps sqrtEps (idOrd 2) Ex.idOrd2_ok Ex.pR_factUnamb Ex.eps_pos
      Ex.eps_pos Ex.pR_regOK Ex.pR_resolves a ha hx⟩

/-- **joint witness gso + svd** (the SAME problem; factors `Ex.dR`: `U = I`, `W = (√2, 0)`,
    `V = (1/√2)[1 1; 1 −1]`, `W_tol = 1/1000`, the code's refusal test `fixed = true`): `Ex.pR` meets
    every hypothesis of `C02_same_gso_svd` (`SvdCert`: `A = U diag W Vᵀ`, `VᵀV = 1`, `UᵀU = 1` on the
    non-null columns, every singular value 0 or above the threshold; list without duplicates), both
    models answer, and — by `C02_same_gso_svd` — with the same unknowns, residuals, sum of squares -/
theorem C02_joint_witness_gso_svd :
    (Gso.Unambiguous Ex.pR ∧ (0 : ℝ) ≤ 1 / 1000
      ∧ Svd.SvdCert (SqrtField.sqrt : ℝ → ℝ) (1 / 1000) Ex.pR.m Ex.pR.n Ex.pR.dense Ex.dR
      ∧ Svd.RegOK Ex.pR.reg ∧ Resolves Ex.pR.A Ex.pR.S)
    ∧ ∃ a a', gsoSolve Ex.pR = .ok a
        ∧ @svdSolveCert ℝ (Gama.LS.fieldScalar SqrtField.sqrt) true (1 / 1000) Ex.dR Ex.pR = .ok a'
        ∧ toVec Ex.pR.n a.x = toVec Ex.pR.n a'.x ∧ toVec Ex.pR.m a.r = toVec Ex.pR.m a'.r ∧ a.rtr = a'.rtr := by
  obtain ⟨a, ha, -⟩ := Ex.pR_answers
  obtain ⟨a', ha'⟩ := Ex.pR_svd_answers
  exact ⟨⟨Ex.pR_unambiguous, by norm_num, Ex.pR_svdCert, Ex.pR_svd_regOK, Ex.pR_resolves⟩, a, a', ha, ha',
    C02_same_gso_svd Ex.pR Ex.pR_unambiguous true (by norm_num) Ex.dR Ex.pR_svdCert Ex.pR_svd_regOK
      Ex.pR_resolves a a' ha ha'⟩

/-- hence, on that problem, **cholesky = envelope** as well (transitivity through Gram–Schmidt):
    all three models return the same unknowns, residuals and sum of squares -/
theorem C02_joint_witness_chol_env :
    ∃ a' x, cholSolve Ex.pR = .ok a'
      ∧ (envCore (sqrtEps : ℝ) sqrtEps Ex.pR.m Ex.pR.n Ex.pR.dense Ex.pR.rhs Ex.pR.dense Ex.pR.rhs Ex.pR.reg (idOrd 2)).x = .ok x
      ∧ toVec Ex.pR.n a'.x = toVec Ex.pR.n x
      ∧ toVec Ex.pR.m a'.r = toVec Ex.pR.m
          (envCore (sqrtEps : ℝ) sqrtEps Ex.pR.m Ex.pR.n Ex.pR.dense Ex.pR.rhs Ex.pR.dense Ex.pR.rhs Ex.pR.reg (idOrd 2)).r
      ∧ a'.rtr = (envCore (sqrtEps : ℝ) sqrtEps Ex.pR.m Ex.pR.n Ex.pR.dense Ex.pR.rhs Ex.pR.dense Ex.pR.rhs Ex.pR.reg (idOrd 2)).rtr := by
  obtain ⟨a, ha, -⟩ := Ex.pR_answers
  obtain ⟨a', ha', -⟩ := Ex.pR_chol_answers
  obtain ⟨x, hx⟩ := Ex.pR_env_answers
  obtain ⟨c1, c2, c3⟩ := C02_same_gso_chol Ex.pR Ex.pR_unambiguous Ex.pR_chol_unambiguous Ex.pR_chol_sqrt
    Ex.pR_chol_nodup Ex.pR_resolves a a' ha ha'
  obtain ⟨e1, e2, e3⟩ := C02_same_gso_env Ex.pR Ex.pR_unambiguous sqrtEps sqrtEps (idOrd 2) Ex.idOrd2_ok
    Ex.pR_factUnamb Ex.eps_pos Ex.eps_pos Ex.pR_regOK Ex.pR_resolves a ha hx
  exact ⟨a', x, ha', hx, c1.symm.trans e1, c2.symm.trans e2, c3.symm.trans e3⟩

/-- the witness is not degenerate: the kernel of `A` is non-trivial (defect 1, as all three models
    report above), the regularisation subset is a PROPER subset of the unknowns, and it resolves the
    defect -/
example : (∃ g, Ex.pR.A *ᵥ g = 0 ∧ g ≠ 0) ∧ Ex.pR.S ≠ Finset.univ ∧ Resolves Ex.pR.A Ex.pR.S :=
  ⟨Ex.pR_kernel, Ex.pR_S_proper, Ex.pR_resolves⟩

/-- **joint witness for `C02_refusal_gso_chol`**: the same problem meets every hypothesis of the
    refusal theorem (both algorithms' conditions at once, incl. `GsUnamb`: the S-norm² the Cholesky
    Gram–Schmidt loop tests is 1 ≥ s_tol), so the equivalence holds by the theorem — and here both
    sides are false: neither model refuses (`S` resolves the defect) -/
theorem C02_joint_witness_refusal_gso_chol :
    (Gso.Unambiguous Ex.pR ∧ regInRange Ex.pR.n Ex.pR.reg = true ∧ UnambiguousF (cholFact Ex.pR)
      ∧ GsSqrtExact Ex.pR ∧ GsUnamb Ex.pR ∧ Chol.regList Ex.pR.n Ex.pR.reg ≠ none)
    ∧ (gsoSolve Ex.pR = .error .BadRegularization ↔ cholSolve Ex.pR = .error .BadRegularization)
    ∧ gsoSolve Ex.pR ≠ .error .BadRegularization ∧ cholSolve Ex.pR ≠ .error .BadRegularization := by
  have hreg : regInRange Ex.pR.n Ex.pR.reg = true := by decide
  have hrl : Chol.regList Ex.pR.n Ex.pR.reg ≠ none := by
    rw [show Chol.regList Ex.pR.n Ex.pR.reg = some [0] from rfl]
    exact Option.some_ne_none _
  refine ⟨⟨Ex.pR_unambiguous, hreg, Ex.pR_chol_unambiguous, Ex.pR_chol_sqrt, Ex.pR_chol_gsUnamb, hrl⟩,
    C02_refusal_gso_chol Ex.pR Ex.pR_unambiguous hreg Ex.pR_chol_unambiguous Ex.pR_chol_sqrt Ex.pR_chol_gsUnamb hrl,
    ?_, ?_⟩
  · obtain ⟨a, ha, -⟩ := Ex.pR_answers
    rw [ha]
    intro h
    cases h
  · obtain ⟨a', ha', -⟩ := Ex.pR_chol_answers
    rw [ha']
    intro h
    cases h

end Gama.Props.C02
