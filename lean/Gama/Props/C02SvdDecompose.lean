/-
  C02 — the svd side of "the four algorithms give the same adjustment", WITHOUT the factorisation
  certificate, and the refusal clause for the svd solver as an equivalence.

  `Props/C02Pairs.lean`, `Props/C02Cofactors.lean` pair the Gram–Schmidt model with the svd model
  `svdSolveCert fixed tol d p` for factors `d` given as a parameter under `SvdCert`.  The algebraic part
  of `SvdCert` is proved for the factors the model of `SVD::svd()` returns (`Svd.decompose_svdCert`);
  the pair theorems are restated here with

      `Svd.decompose p.m p.n p.dense = .ok d`  ∧  `Svd.Unambiguous sqrt tol p.n (vget d.W)`

  in its place, and lifted to the solver AS IT RUNS (`svdSolve`, tolerance `Svd.wTol`).

    C02_same_gso_svd_decompose            gso = svd: unknowns, residuals, sum of squares
    C02_same_cofactors_gso_svd_decompose  … q_xx(i,j) for all index pairs
    C02_same_defect_gso_svd_decompose     … defect
    C02_same_gso_svdsolve                 the three above for `gsoSolve p` and `svdSolve p` (what `drv_ls` runs)
    C02_refusal_svd                       REFUSAL AS AN IFF (was listed open in notes/reports/SVD.md): under the
                                          second-stage premise `hgap` the svd model throws
                                          `BadRegularization` ⇔ the regularisation subset does not resolve
                                          the defect; it throws nothing else; it answers ⇔ `Resolves A S`
    C02_refusal_svdsolve                  the same for `svdSolve`
    C02_refusal_gso_svd                   gso and svd refuse the same problems
    C02_net_svd_hyp_decompose, C02_adj_svd_hyp_decompose
                                          the svd case of the façade premises `Net.SolverHyp` / `AdjM.SolverHyp`
                                          (used by `C02_same_net`, `C02_same_adj`, `C03_net_cofactors`,
                                          `C03_adj_cofactors`, `C08_net_datum`, `C09_net_*`) follows from
                                          `Unambiguous` of the returned singular values: every façade theorem
                                          holds with the certificate dropped

  The second-stage premise.  `SVD::min_subset_x` refuses when the S-norm `s` of a null column satisfies
  `s ≤ τ·‖V_k‖` (`τ = W_tol`; before b39e70e `s == 0`, `τ = 0`).  As for the other three solvers
  (`GsUnamb`, `SolveGSUnambiguous`, `Props/C01/Gap2.lean`) "refused ⇔ does not resolve" needs the tested
  quantity to be exactly 0 or above the threshold; here it is asked as ONE exact hypothesis on `(A, S, τ)`:

      `hgap : ∀ g, A g = 0 → g ≠ 0 → ‖g_S‖² = 0 ∨ τ²·‖g‖² < ‖g_S‖²`

  (every non-zero datum transformation vanishes on `S` or has an `S`-part above the tolerance).  For the
  exact test (`fixed = false`, `τ = 0`) it holds trivially.  Without it only ⇐ holds for the code's test
  (`C20_svd_decompose_subset_refusal` (a), (b), (d)): a resolving subset inside the margin band may be refused.
  Not proved: that `decompose` returns (convergence of the QR iteration), IEEE rounding.
-/
import Gama.Props.C02Pairs
import Gama.Props.C02Cofactors
import Gama.Props.C02Facades
import Gama.Props.C20.SvdSubset
import Gama.Lemmas.Ls.SvdDecompCert
import Gama.Lemmas.Ls.SvdDecompJoint
namespace Gama.Props.C02
open Gama Gama.Ls Gama.LS Gama.Ls.Gso Matrix

set_option linter.unusedSectionVars false

section field
variable {K : Type} [Field K] [LinearOrder K] [IsStrictOrderedRing K] {sq : K → K}
open Gama.Ls.Svd

/-- **C02 refusal for the svd solver, as an equivalence** (regularisation subset `l`, no repetitions, in
    range; factors = what `decompose` returned, unambiguous singular values; second-stage premise `hgap`):
    `BadRegularization` ⇔ `S` does not resolve the defect; no other error; answered ⇔ `S` resolves -/
theorem C02_refusal_svd (hs : SqrtLaw sq) (fixed : Bool) {tol : K} (htol : 0 ≤ tol) (p : Problem K) (d : Dec K)
    (l : List Nat) (hp : p.reg = .subset l)
    (hd : @decompose K (fieldScalar sq) p.m p.n (@Problem.dense K (fieldScalar sq) p) = .ok d)
    (hun : Unambiguous sq tol p.n (@vget K (fieldScalar sq) d.W)) (hnd : l.Nodup)
    (hr : ∀ i ∈ l, 1 ≤ i ∧ i ≤ p.n)
    (hgap : ∀ g : Fin p.n → K, @Problem.A K (fieldScalar sq) p *ᵥ g = 0 → g ≠ 0 →
      normS p.S g = 0 ∨ (if fixed then tol else 0) * (if fixed then tol else 0) * (g ⬝ᵥ g) < normS p.S g) :
    (@svdSolveCert K (fieldScalar sq) fixed tol d p = .error .BadRegularization
        ↔ ¬ Resolves (@Problem.A K (fieldScalar sq) p) p.S)
    ∧ (∀ e, @svdSolveCert K (fieldScalar sq) fixed tol d p = .error e → e = .BadRegularization)
    ∧ ((∃ a, @svdSolveCert K (fieldScalar sq) fixed tol d p = .ok a)
        ↔ Resolves (@Problem.A K (fieldScalar sq) p) p.S) := by
  obtain ⟨h1, h2, h3, h4, -⟩ := Gama.Props.C20.C20_svd_subset_refusal hs fixed htol p d l hp
    (decompose_svdCert sq hs.mul_self hs.nonneg tol p.m p.n _ d hd hun) hnd hr
  -- a resolving subset is accepted: under `hgap` every non-zero kernel vector is above the margin
  have hacc : Resolves (@Problem.A K (fieldScalar sq) p) p.S →
      ∃ a, @svdSolveCert K (fieldScalar sq) fixed tol d p = .ok a := by
    intro hres
    refine h4 fun g hg hne => ?_
    rcases hgap g hg hne with h0 | hm
    · exfalso
      apply hne
      refine hres g hg fun i hi => ?_
      have hnn : ∀ j ∈ p.S, 0 ≤ g j * g j := fun j _ => mul_self_nonneg _
      have := (Finset.sum_eq_zero_iff_of_nonneg hnn).mp h0 i hi
      exact mul_self_eq_zero.mp this
    · exact hm
  refine ⟨⟨fun herr hres => ?_, h1⟩, fun e he => (h2 e he).1, ⟨fun ⟨a, ha⟩ => h3 a ha, hacc⟩⟩
  obtain ⟨a, ha⟩ := hacc hres
  rw [ha] at herr
  cases herr

end field

section sqrtField
variable {K : Type} [Field K] [LinearOrder K] [IsStrictOrderedRing K] [SqrtField K]
attribute [local instance] Gama.Ls.sqrtFnOfSqrtField
attribute [local instance 2000] scalarOfField

/-- **gso = svd**, certificate-free: the svd side with the factors its own iteration returned -/
theorem C02_same_gso_svd_decompose (p : Problem K) (hUg : Gso.Unambiguous p) (fixed : Bool) {tol : K} (htol : 0 ≤ tol)
    (d : Svd.Dec K) (hd : Svd.decompose p.m p.n p.dense = .ok d)
    (hun : Svd.Unambiguous (SqrtField.sqrt : K → K) tol p.n (Svd.vget d.W)) (hreg : Svd.RegOK p.reg)
    (hS : Resolves p.A p.S) (a a' : Answer K) (h : gsoSolve p = .ok a)
    (h' : svdSolveCert fixed tol d p = .ok a') :
    toVec p.n a.x = toVec p.n a'.x ∧ toVec p.m a.r = toVec p.m a'.r ∧ a.rtr = a'.rtr :=
  C02_same_gso_svd p hUg fixed htol d
    (Svd.decompose_svdCert _ sqrtLaw_of_sqrtField.mul_self sqrtLaw_of_sqrtField.nonneg tol p.m p.n _ d hd hun)
    hreg hS a a' h h'

/-- **gso = svd, cofactors of the unknowns**, certificate-free: all index pairs -/
theorem C02_same_cofactors_gso_svd_decompose (p : Problem K) (hUg : Gso.Unambiguous p) (fixed : Bool) {tol : K}
    (htol : 0 ≤ tol) (d : Svd.Dec K) (hd : Svd.decompose p.m p.n p.dense = .ok d)
    (hun : Svd.Unambiguous (SqrtField.sqrt : K → K) tol p.n (Svd.vget d.W)) (hreg : Svd.RegOK p.reg)
    (hS : Resolves p.A p.S) (a a' : Answer K) (h : gsoSolve p = .ok a)
    (h' : svdSolveCert fixed tol d p = .ok a') (i j : Fin p.n) :
    a.qxx (i + 1) (j + 1) = a'.qxx (i + 1) (j + 1) :=
  C02_same_cofactors_gso_svd p hUg fixed htol d
    (Svd.decompose_svdCert _ sqrtLaw_of_sqrtField.mul_self sqrtLaw_of_sqrtField.nonneg tol p.m p.n _ d hd hun)
    hreg hS a a' h h' i j

/-- **gso = svd, defect**, certificate-free: both report `n − rank A` -/
theorem C02_same_defect_gso_svd_decompose (p : Problem K) (hUg : Gso.Unambiguous p) (fixed : Bool) {tol : K}
    (htol : 0 ≤ tol) (d : Svd.Dec K) (hd : Svd.decompose p.m p.n p.dense = .ok d)
    (hun : Svd.Unambiguous (SqrtField.sqrt : K → K) tol p.n (Svd.vget d.W)) (hreg : Svd.RegOK p.reg)
    (a a' : Answer K) (h : gsoSolve p = .ok a) (h' : svdSolveCert fixed tol d p = .ok a') :
    a.defect = a'.defect :=
  C02_same_defect_gso_svd p hUg fixed htol d
    (Svd.decompose_svdCert _ sqrtLaw_of_sqrtField.mul_self sqrtLaw_of_sqrtField.nonneg tol p.m p.n _ d hd hun)
    hreg a a' h h'

/-- **`gsoSolve` = `svdSolve`** — the two functions `drv_ls` runs next to `AdjGSO` / `AdjSVD`: on every
    problem on which each algorithm's own rank decision is unambiguous (`Gso.Unambiguous`; the singular
    values `decompose` returns are 0 or above `W_tol·max W`) and whose regularisation subset resolves the
    defect, both answer the same unknowns, residuals, sum of squares, defect and `q_xx(i,j)` for ALL pairs -/
theorem C02_same_gso_svdsolve (p : Problem K) (hUg : Gso.Unambiguous p) (hreg : Svd.RegOK p.reg)
    (hun : ∀ d, Svd.decompose p.m p.n p.dense = .ok d →
      Svd.Unambiguous (SqrtField.sqrt : K → K) Svd.wTol p.n (Svd.vget d.W))
    (hS : Resolves p.A p.S) (a a' : Answer K) (h : gsoSolve p = .ok a) (h' : svdSolve p = .ok a') :
    toVec p.n a.x = toVec p.n a'.x ∧ toVec p.m a.r = toVec p.m a'.r ∧ a.rtr = a'.rtr ∧ a.defect = a'.defect
      ∧ ∀ i j : Fin p.n, a.qxx (i + 1) (j + 1) = a'.qxx (i + 1) (j + 1) := by
  have hs' : svdSolveWith true p = .ok a' := h'
  unfold svdSolveWith at hs'
  cases hd : Svd.decompose p.m p.n p.dense with
  | error e => rw [hd] at hs'; cases hs'
  | ok d =>
    rw [hd] at hs'
    have hs'' : svdSolveCert true Svd.wTol d p = .ok a' := hs'
    obtain ⟨e1, e2, e3⟩ := C02_same_gso_svd_decompose p hUg true Svd.wTol_nonneg d hd (hun d hd) hreg hS a a' h hs''
    exact ⟨e1, e2, e3,
      C02_same_defect_gso_svd_decompose p hUg true Svd.wTol_nonneg d hd (hun d hd) hreg a a' h hs'',
      C02_same_cofactors_gso_svd_decompose p hUg true Svd.wTol_nonneg d hd (hun d hd) hreg hS a a' h hs''⟩

/-- **C02 refusal for `svdSolve`** (the solver as it runs; `τ = Svd.wTol`): given that the iteration
    returned (`hd`) unambiguous singular values and the second-stage premise `hgap`, `svdSolve` throws
    `BadRegularization` ⇔ the subset does not resolve the defect, and it answers ⇔ it does -/
theorem C02_refusal_svdsolve (p : Problem K) (l : List Nat) (hp : p.reg = .subset l) (hnd : l.Nodup)
    (hr : ∀ i ∈ l, 1 ≤ i ∧ i ≤ p.n) (d : Svd.Dec K) (hd : Svd.decompose p.m p.n p.dense = .ok d)
    (hun : Svd.Unambiguous (SqrtField.sqrt : K → K) Svd.wTol p.n (Svd.vget d.W))
    (hgap : ∀ g : Fin p.n → K, p.A *ᵥ g = 0 → g ≠ 0 →
      normS p.S g = 0 ∨ (Svd.wTol : K) * Svd.wTol * (g ⬝ᵥ g) < normS p.S g) :
    (svdSolve p = .error .BadRegularization ↔ ¬ Resolves p.A p.S)
      ∧ ((∃ a, svdSolve p = .ok a) ↔ Resolves p.A p.S) := by
  have e : svdSolve p = svdSolveCert true Svd.wTol d p := by
    show svdSolveWith true p = _
    unfold svdSolveWith
    rw [hd]
  rw [e]
  obtain ⟨r1, -, r3⟩ := C02_refusal_svd (sq := (SqrtField.sqrt : K → K)) sqrtLaw_of_sqrtField true Svd.wTol_nonneg
    p d l hp hd hun hnd hr (by simpa using hgap)
  exact ⟨r1, r3⟩

/-- **gso and svd refuse the same problems** (instance of `C02_refusal_agree` from `C02_refusal_gso`,
    `C02_refusal_svdsolve`) -/
theorem C02_refusal_gso_svd (p : Problem K) (hUg : Gso.Unambiguous p) (hreg : regInRange p.n p.reg = true)
    (l : List Nat) (hp : p.reg = .subset l) (hnd : l.Nodup) (hr : ∀ i ∈ l, 1 ≤ i ∧ i ≤ p.n)
    (d : Svd.Dec K) (hd : Svd.decompose p.m p.n p.dense = .ok d)
    (hun : Svd.Unambiguous (SqrtField.sqrt : K → K) Svd.wTol p.n (Svd.vget d.W))
    (hgap : ∀ g : Fin p.n → K, p.A *ᵥ g = 0 → g ≠ 0 →
      normS p.S g = 0 ∨ (Svd.wTol : K) * Svd.wTol * (g ⬝ᵥ g) < normS p.S g) :
    gsoSolve p = .error .BadRegularization ↔ svdSolve p = .error .BadRegularization := by
  rw [Gama.Props.C01.C02_refusal_gso p hUg hreg, (C02_refusal_svdsolve p l hp hnd hr d hd hun hgap).1]

/-- the svd case of the premise `Net.SolverHyp` of every `LocalNetwork`-level theorem follows from the
    unambiguity of the singular values `decompose` returns on the homogenised system: the certificate is
    dropped from `C02_same_net`, `C03_net_cofactors`, `C08_net_datum`, `C09_net_*` as well -/
theorem C02_net_svd_hyp_decompose (np : Net.NetProblem K) (hnd : np.minx.Nodup)
    (hun : ∀ hh d, Net.prepare np = .ok hh →
      Svd.decompose np.m np.n (Net.dotProblem np hh).dense = .ok d →
      Svd.Unambiguous (SqrtField.sqrt : K → K) Svd.wTol np.n (Svd.vget d.W)) :
    Net.SolverHyp .svd np :=
  ⟨hnd, fun hh d hp hd =>
    Svd.decompose_svdCert _ sqrtLaw_of_sqrtField.mul_self sqrtLaw_of_sqrtField.nonneg Svd.wTol np.m np.n _ d hd
      (hun hh d hp hd)⟩

/-- the same for class `Adj` (`AdjM.SolverHyp`; `C02_same_adj`, `C03_adj_cofactors`) -/
theorem C02_adj_svd_hyp_decompose (p : Problem K) (hreg : Svd.RegOK p.reg)
    (hun : ∀ Ad bd d, AdjM.homogenise p = .ok (Ad, bd) →
      Svd.decompose p.m p.n (AdjM.dotProblem p Ad bd (AdjM.regOf p.reg)).dense = .ok d →
      Svd.Unambiguous (SqrtField.sqrt : K → K) Svd.wTol p.n (Svd.vget d.W)) :
    AdjM.SolverHyp .svd p :=
  ⟨hreg, fun Ad bd d hh hd =>
    Svd.decompose_svdCert _ sqrtLaw_of_sqrtField.mul_self sqrtLaw_of_sqrtField.nonneg Svd.wTol p.m p.n _ d hd
      (hun Ad bd d hh hd)⟩

end sqrtField

/-! ### non-vacuity: ONE problem meets the hypotheses of both sides at once -/

section examples
open Gama.Ls.Ex
attribute [local instance] Gama.Ls.sqrtFnOfSqrtField
attribute [local instance 2000] scalarOfField

/-- **joint witness gso + svd with the svd factors COMPUTED by the model's own iteration**: `Ex.pCVdot`
    over ℝ (`A = [[6,8],[3,4],[6,8]]`, rank 1, kernel span (4, −3), `b = (1/2,1/2,3/2)`, S = {1} a proper
    subset that resolves the defect).  Gram–Schmidt: tested norms 9, 0 (first stage), 4/3 (second) — all
    exactly 0 or above the tolerance; `Svd.decompose` RETURNS `Ex.dCV` (`W = (0, 15)`: the run evaluated
    over ℝ statement by statement), unambiguous at `Svd.wTol`; both `gsoSolve` and `svdSolve` answer; and —
    by `C02_same_gso_svdsolve` — with the same unknowns, residuals, sum of squares, defect and cofactors -/
example : Gso.Unambiguous Ex.pCVdot ∧ Svd.RegOK Ex.pCVdot.reg
    ∧ (∀ d, Svd.decompose Ex.pCVdot.m Ex.pCVdot.n Ex.pCVdot.dense = .ok d →
        Svd.Unambiguous (SqrtField.sqrt : ℝ → ℝ) Svd.wTol Ex.pCVdot.n (Svd.vget d.W))
    ∧ Resolves Ex.pCVdot.A Ex.pCVdot.S
    ∧ ∃ a a', gsoSolve Ex.pCVdot = .ok a ∧ svdSolve Ex.pCVdot = .ok a' ∧ a'.defect = 1
      ∧ toVec Ex.pCVdot.n a.x = toVec Ex.pCVdot.n a'.x ∧ toVec Ex.pCVdot.m a.r = toVec Ex.pCVdot.m a'.r
      ∧ a.rtr = a'.rtr ∧ a.defect = a'.defect
      ∧ ∀ i j : Fin Ex.pCVdot.n, a.qxx (i + 1) (j + 1) = a'.qxx (i + 1) (j + 1) := by
  obtain ⟨a, ha, -⟩ := Ex.pCVdot_gso_answers
  obtain ⟨a', ha', -, hd'⟩ := Ex.pCVdot_svdSolve
  exact ⟨Ex.pCVdot_gso_unambiguous, List.nodup_singleton 1, Ex.pCVdot_hun, Ex.pCVdot_resolves, a, a', ha, ha', hd',
    C02_same_gso_svdsolve Ex.pCVdot Ex.pCVdot_gso_unambiguous (List.nodup_singleton 1) Ex.pCVdot_hun
      Ex.pCVdot_resolves a a' ha ha'⟩

/-- **joint witness for `C02_refusal_svdsolve` / `C02_refusal_gso_svd`**: the same problem meets every
    hypothesis incl. the second-stage premise `hgap` (a kernel vector is `t·(4,−3)`: `‖g_S‖² = 16t²`,
    `‖g‖² = 25t²`, `W_tol ≤ 1/100`), so the equivalences hold by the theorems — and here neither solver
    refuses (`S` resolves the defect) -/
example : Ex.pCVdot.reg = .subset [1] ∧ [1].Nodup ∧ (∀ i ∈ [1], 1 ≤ i ∧ i ≤ Ex.pCVdot.n)
    ∧ Svd.decompose Ex.pCVdot.m Ex.pCVdot.n Ex.pCVdot.dense = .ok Ex.dCV
    ∧ Svd.Unambiguous (SqrtField.sqrt : ℝ → ℝ) Svd.wTol Ex.pCVdot.n (Svd.vget Ex.dCV.W)
    ∧ (∀ g : Fin Ex.pCVdot.n → ℝ, Ex.pCVdot.A *ᵥ g = 0 → g ≠ 0 →
        normS Ex.pCVdot.S g = 0 ∨ (Svd.wTol : ℝ) * Svd.wTol * (g ⬝ᵥ g) < normS Ex.pCVdot.S g)
    ∧ (gsoSolve Ex.pCVdot = .error .BadRegularization ↔ svdSolve Ex.pCVdot = .error .BadRegularization)
    ∧ svdSolve Ex.pCVdot ≠ .error .BadRegularization := by
  have hun := Ex.pCVdot_hun Ex.dCV Ex.pCVdot_decompose
  refine ⟨rfl, List.nodup_singleton 1, by decide, Ex.pCVdot_decompose, hun, Ex.pCVdot_gap,
    C02_refusal_gso_svd Ex.pCVdot Ex.pCVdot_gso_unambiguous (by decide) [1] rfl (List.nodup_singleton 1) (by decide)
      Ex.dCV Ex.pCVdot_decompose hun Ex.pCVdot_gap, ?_⟩
  obtain ⟨a', ha', -⟩ := Ex.pCVdot_svdSolve
  rw [ha']
  intro h
  cases h

/-- `C02_refusal_svd`, REFUSING side, evaluated: `A = [[0,0,1],[0,0,0],[0,0,0]]` (kernel spanned by e₁, e₂)
    with the subset {1, 3} — e₂ vanishes on it, the subset does not resolve the defect, and the model
    throws `BadRegularization` (factors `Svd.Ex.dF` over ℚ) -/
example : (match @svdSolveCert ℚ (fieldScalar Svd.Ex.sqQ) true (1 / 1000) Svd.Ex.dF { Svd.Ex.pF with reg := .subset [1, 3] } with
    | .error e => some e | .ok _ => none) = some ErrKind.BadRegularization := by decide +kernel

/-- non-vacuity of `C02_adj_svd_hyp_decompose`: `Ex.pCV` (correlated block) — `hun` holds for whatever
    `homogenise` returns (`Ex.pCV_hun`), so `AdjM.SolverHyp .svd Ex.pCV` holds without any certificate -/
example : AdjM.SolverHyp .svd Ex.pCV :=
  C02_adj_svd_hyp_decompose Ex.pCV (List.nodup_singleton 1) Ex.pCV_hun

end examples

end Gama.Props.C02
