/-
  C11 — acceptance of VALID documents, with validity a predicate of the document alone (CLAUSES.md audit #3, gap #8).

  `Doc'` (Model/GkfDocTree.lean) is the documented gama-local input as a tree with its real strings; `Doc'.valid` /
  `Doc'.valuesOk` are decidable and defined by recursion on the tree from hand-written documented tables only
  (`docRules`, `docCheck`, `Leaf'.count`; the grammar `Doc.valid`): required attributes, `from` inherited from
  `<obs from=..>`, `x` with `y`, positive distances, `from ≠ fs`, `band < dim`, `dim` of a `<cov-mat>` = number of
  observations of its cluster, number of words of the covariance text = number of band elements, a `<point>` inside
  `<coordinates>` gives xy and/or z.  `C11_valid_document_accepted` needs no hypothesis about the parser's bookkeeping
  (`allDocOk` is now a CONCLUSION: `C11_valid_document_bookkeeping`); the only input bit left is `pd` (positive
  definiteness of a cluster's covariance matrix: floating-point Cholesky, C10/C15).

  The hand rules are tied to the regenerated tables in both directions (`C11_document_rules_are_the_checks`, by `decide`):
  every non-value refusal of a `process_*` is a documented rule, and every documented rule is enforced by a refusal —
  hence also the refusal half: an element that breaks a documented rule is refused AT that element
  (`C11_rule_violation_located`), a cluster whose `dim` is not its number of observations at its closing tag
  (`C11_dim_mismatch_located`).  Proofs in Gama/Lemmas/GkfDocTree.lean.
-/
import Gama.Props.C11Values
import Gama.Lemmas.GkfDocTreeExamples
namespace Gama.Props.C11
open Gama Gama.Gkf Gama.Lit Gama.Gkf.ValuesEx Gama.Gkf.TreeEx

/-- a valid document meets, along its own events, every condition the parser's bookkeeping checks: what was the
    hypothesis `allDocOk` of `C11_valid_document_accepted_partial` follows from validity of the document -/
theorem C11_valid_document_bookkeeping (d : Doc') (hv : d.valid = true) (hvals : d.valuesOk = true) :
    allDocOk CSt.init d.events = true := allDocOk_of_valid d hv hvals

/-- every valid document whose values are in their documented languages is accepted: the parser ends in `state_stop`
    with no error recorded.  (Old statement `C11_valid_document_accepted_partial`: the same for any event list of the
    document's shape GIVEN the bookkeeping conditions; it is the lemma used here, its hypothesis discharged.) -/
theorem C11_valid_document_accepted (d : Doc') (hv : d.valid = true) (hvals : d.valuesOk = true) :
    (crun CSt.init d.events).st.state = .stop_ ∧ (crun CSt.init d.events).st.err = none ∧
      outcome (crun CSt.init d.events).st = .accepted :=
  C11_valid_document_accepted_partial d.abs
    (by simp only [Doc'.valid, Bool.and_eq_true] at hv; exact hv.1.1.1) d.events (doc_shape d)
    (C11_valid_document_bookkeeping d hv hvals)

/-- the documented rules ARE the handler's non-value checks: every required variable / pair rule / constructor refusal
    of `process_g` is covered by a documented rule of the element (`rulesCover`), and every documented rule is
    enforced by one of them (`rulesEnforced`) — `decide` over the regenerated tables, all handlers -/
theorem C11_document_rules_are_the_checks (g : Handler) : rulesCover g = true ∧ rulesEnforced g = true :=
  ⟨rules_cover_table g, rules_enforced_table g⟩

/-- what the parser has counted inside a cluster is what the document says: entered between two children of
    `<points-observations>` (any clean state there with no standpoint and no pending covariance matrix), after the
    opening tag and the items of a cluster whose elements meet their rules and values, the standpoint is the `from` of
    `<obs>` (empty elsewhere) and the number of observations is `Cluster'.count` -/
theorem C11_cluster_bookkeeping_is_document (c : Cluster') (cs : CSt) (hc : cs.st.state = .point_obs ∧ cs.st.err = none)
    (h0 : cs.ctx.standpointId = [] ∧ cs.ctx.idim = 0 ∧ cs.ctx.covData = [])
    (hshape : c.abs.valid = true) (hattrs : attrsDocOk c.kind.tag c.attrs = true)
    (hitems : ∀ l ∈ c.items, l.valuesOk = true ∧ rulesOk c.inh l.tag l.attrs = true) :
    let cs' := crun cs (.start c.kind.tag c.attrs :: c.items.flatMap Leaf'.events)
    cs'.st.state = c.kind.state ∧ cs'.st.err = none ∧ cs'.ctx.standpointId = c.inh ∧ cs'.ctx.nobs = c.count ∧
      cs'.ctx.idim = 0 := by
  have T := cluster_table c.kind
  simp only [clusterTableOk, Bool.and_eq_true] at T
  simp only [Cluster.valid, Cluster'.abs, Bool.and_eq_true] at hshape
  have hstart : start .point_obs c.kind.tag = .run c.kind.openHandler := by cases c.kind <;> rfl
  have e1 := start_event_ok cs .point_obs c.kind.state c.kind.tag c.attrs c.kind.openHandler hc hstart T.1.1.1.1.1.1
    (by intro hn; exfalso; revert hn; cases c.kind <;> decide) hattrs (rulesOk_cluster _ _ _)
  have hdocnames : ∀ a ∈ c.attrs, a.name ∈ docNames c.kind.openHandler := by
    have := names_of_attrsDocOk c.kind.tag c.attrs hattrs
    have hh : tagHandler c.kind.tag = c.kind.openHandler := by cases c.kind <;> rfl
    rwa [hh] at this
  have hseg : Seg cs (.start c.kind.tag c.attrs :: c.items.flatMap Leaf'.events) c.kind.state
      (InCluster c.inh (0 + c.count)) := by
    refine Seg.cons (P := InCluster c.inh 0) ⟨e1.1, e1.2.1, ?_⟩ ?_
    · rw [e1.2.2]; exact cluster_start_ctx c.kind cs.ctx c.attrs hdocnames h0
    intro cs1 hc1 hp1
    exact items_seg c.kind c.inh c.items cs1 0 hc1 hp1 (fun l hl =>
      ⟨(List.all_eq_true.mp hshape.1.1.2) l.abs (List.mem_map_of_mem hl), (hitems l hl).1, (hitems l hl).2⟩)
  obtain ⟨_, h2, h3⟩ := hseg
  exact ⟨h2.1, h2.2, h3.1, by simpa using h3.2.2.2, h3.2.1⟩

/-- the refusal half for the rules: after any prefix without recorded error, an element with documented attribute
    names that breaks one of the documented rules of its element (`inh` = the standpoint inherited at that place, see
    `C11_cluster_bookkeeping_is_document`) is refused and LOCATED: error `handler` at the index of its start tag -/
theorem C11_rule_violation_located (pre post : List CEvent) (t : Tag) (attrs : List CAttr) (h : Handler) (r : Rule)
    (hclean : (crun CSt.init pre).st.err = none)
    (hrun : start (crun CSt.init pre).st.state t = .run h)
    (hdoc : ∀ a ∈ attrs, a.name ∈ docNames (tagHandler t))
    (hr : r ∈ docRules (tagHandler t))
    (hbad : ruleOk (crun CSt.init pre).ctx.standpointId attrs r = false) :
    (crun CSt.init (pre ++ .start t attrs :: post)).st.err = some (pre.length, .handler) ∧
    outcome (crun CSt.init (pre ++ .start t attrs :: post)).st = .refused (some (pre.length, .handler)) := by
  have hg := valueHandler_eq _ t h hrun
  exact handler_fail_located pre post t attrs h hclean hrun
    (by rw [hg]; exact handlerOk_false_of_rule _ _ attrs r hdoc hr hbad)

/-- a cluster whose `<cov-mat dim=..>` is not its number of observations is refused at its closing tag: after any clean
    prefix that ends where a cluster closes (the end tag calls a `finish_*`) with a pending dimension different from the
    count, the error `finish` is recorded at that event (`dim` / count as functions of the document:
    `C11_cluster_bookkeeping_is_document`) -/
theorem C11_dim_mismatch_located (pre post : List CEvent) (pd : Bool) (s1 : State) (f : Finish)
    (hclean : (crun CSt.init pre).st.err = none)
    (hstop : stop (crun CSt.init pre).st.state = .goto s1 (some f))
    (hdim : (crun CSt.init pre).ctx.idim ≠ 0) (hne : (crun CSt.init pre).ctx.idim ≠ (crun CSt.init pre).ctx.nobs) :
    (crun CSt.init (pre ++ .stop pd :: post)).st.err = some (pre.length, .finish) ∧
    outcome (crun CSt.init (pre ++ .stop pd :: post)).st = .refused (some (pre.length, .finish)) :=
  finish_fail_located pre post pd s1 f hclean hstop (finishOk_false_of_dim _ f pd hdim hne)

/-! ### non-vacuity -/

/-- `C11_valid_document_accepted`: the 27-event document `exEvs` of `C11Values` as a tree is valid with documented values, its
    events are that event list, and it is accepted; so is a cluster with an inherited and an own `from` -/
example : exDoc'.valid = true ∧ exDoc'.valuesOk = true ∧ good.valid = true ∧ good.valuesOk = true ∧
    outcome (crun CSt.init exDoc'.events).st = .accepted ∧ outcome (crun CSt.init good.events).st = .accepted := by
  decide +kernel
example : crun CSt.init exDoc'.events = crun CSt.init exEvs ∧ exDoc'.events.length = exEvs.length ∧ exDoc'.abs.valid = true := by
  decide +kernel

/-- invalid documents are not `valid`, and are refused at the line (event index) of the offending element:
    `<distance>` without `to` (event 6); no `from` anywhere; `from=""` on the observation although `<obs>` has one;
    a non-positive distance; `<angle>` with `fs` = standpoint; `x` without `y`; blank point id -/
example :
    let noTo := obs [c "from" "A"] [dist [c "val" "100"]] none
    let noFrom := obs [] [dist [c "to" "B", c "val" "100"]] none
    let emptyFrom := obs [c "from" "A"] [dist [c "from" "", c "to" "B", c "val" "100"]] none
    let ownFrom := obs [] [dist [c "from" "C", c "to" "B", c "val" "100"]] none
    let negative := obs [c "from" "A"] [dist [c "to" "B", c "val" "-1"]] none
    let sameFs := obs [c "from" "A"] [⟨.angle, [c "bs" "B", c "fs" " A ", c "val" "1"]⟩] none
    noTo.valid = false ∧ (crun CSt.init noTo.events).st.err = some (6, .handler) ∧
    noFrom.valid = false ∧ (crun CSt.init noFrom.events).st.err = some (6, .handler) ∧
    emptyFrom.valid = false ∧ (crun CSt.init emptyFrom.events).st.err = some (6, .handler) ∧
    ownFrom.valid = true ∧ outcome (crun CSt.init ownFrom.events).st = .accepted ∧
    negative.valid = false ∧ outcome (crun CSt.init negative.events).st = .refused (some (6, .handler)) ∧
    sameFs.valid = false ∧ (crun CSt.init sameFs.events).st.err = some (6, .handler) := by decide +kernel

/-- `dim` against the number of observations, the number of covariance words against the band, a `<point>` inside
    `<coordinates>` without coordinates, `<coordinates>` without `<cov-mat>`: not valid; refused at the closing tag of
    the cluster (event 13: `finish`) resp. at the point (event 6) -/
example :
    let two := [dist [c "to" "B", c "val" "100"], dist [c "to" "C", c "val" "100"]]
    let dimBad := obs [c "from" "A"] two (some ⟨[c "dim" "3", c "band" "0"], ["1 1 1".toList]⟩)
    let wordsBad := obs [c "from" "A"] two (some ⟨[c "dim" "2", c "band" "1"], ["1 1".toList]⟩)
    let bandBad := obs [c "from" "A"] two (some ⟨[c "dim" "2", c "band" "2"], ["1 1".toList]⟩)
    let ok := obs [c "from" "A"] two (some ⟨[c "dim" "2", c "band" "1"], ["1 0 ".toList, "1".toList]⟩)
    let vec := mk ⟨.vectors, [], [⟨.vec, [c "from" "A", c "to" "B", c "dx" "1", c "dy" "2", c "dz" "3"]⟩],
      some ⟨[c "dim" "3", c "band" "0"], ["1 1 1".toList]⟩, true⟩
    let coordsNoXYZ := mk ⟨.coords, [], [⟨.point_, [c "id" "B"]⟩], some ⟨[c "dim" "1", c "band" "0"], ["1".toList]⟩, true⟩
    let coordsXYZ := mk ⟨.coords, [], [⟨.point_, [c "id" "B", c "x" "1", c "y" "2", c "z" "3"]⟩],
      some ⟨[c "dim" "3", c "band" "0"], ["1 1 1".toList]⟩, true⟩
    let notPd := mk ⟨.obs, [c "from" "A"], two, none, false⟩
    dimBad.valid = false ∧ (crun CSt.init dimBad.events).st.err = some (13, .finish) ∧
    wordsBad.valid = false ∧ (crun CSt.init wordsBad.events).st.err = some (13, .finish) ∧
    bandBad.valid = false ∧ (crun CSt.init bandBad.events).st.err = some (10, .handler) ∧
    ok.valid = true ∧ ok.valuesOk = true ∧ outcome (crun CSt.init ok.events).st = .accepted ∧ vec.valid = true ∧ vec.valuesOk = true ∧
    coordsNoXYZ.valid = false ∧ (crun CSt.init coordsNoXYZ.events).st.err = some (6, .handler) ∧
    coordsXYZ.valid = true ∧ coordsXYZ.valuesOk = true ∧
    notPd.valid = false ∧ (crun CSt.init notPd.events).st.err = some (10, .finish) := by decide +kernel

/-- hypotheses of `C11_rule_violation_located` / `C11_dim_mismatch_located` / `C11_cluster_bookkeeping_is_document` on
    concrete documents -/
example :
    let noTo := obs [c "from" "A"] [dist [c "val" "100"]] none
    let pre := noTo.events.take 6
    (crun CSt.init pre).st.err = none ∧ start (crun CSt.init pre).st.state .distance = .run .distance_ ∧
    Rule.req "to" ∈ docRules (tagHandler .distance) ∧
    ruleOk (crun CSt.init pre).ctx.standpointId [c "val" "100"] (.req "to") = false ∧
    (crun CSt.init pre).ctx.standpointId = "A".toList := by decide +kernel
example :
    let two := [dist [c "to" "B", c "val" "100"], dist [c "to" "C", c "val" "100"]]
    let dimBad := obs [c "from" "A"] two (some ⟨[c "dim" "3", c "band" "0"], ["1 1 1".toList]⟩)
    let pre := dimBad.events.take 13
    (crun CSt.init pre).st.err = none ∧ stop (crun CSt.init pre).st.state = .goto .point_obs (some .obs_) ∧
    (crun CSt.init pre).ctx.idim = 3 ∧ (crun CSt.init pre).ctx.nobs = 2 ∧
    (Cluster'.count ⟨.obs, [c "from" "A"], two, none, true⟩) = 2 := by decide +kernel

end Gama.Props.C11
