/-
  C02 at `LocalNetwork` level — `C02_same_net` APPLIED, over ℝ, to TWO DIFFERENT algorithms on one network, every
  hypothesis discharged on the same object (audit #3, closing-table gap #2).

  `Ex.npR : NetProblem ℝ` (`Lemmas/Ls/NetFacadeReal.lean`, `Props/C01/NetWitness.lean`): correlated cluster with an
  excluded observation + an all-passive cluster + an uncorrelated one, `m_0_apr_ = 2`, defect 1, `min_x_ = [1]`.
  For ANY two of envelope, cholesky, gso (in particular cholesky vs envelope — dense path vs sparse path — and
  envelope vs gso): static hypotheses, `Net.SolverHyp` for both (from the one `RankGap`, proved), `Resolves A S`,
  BOTH models answer over ℝ, and the theorem gives equal `x`, `r`, `[pvv]`, defect, all `qxx(i,j)`, all `qbb(i,j)`,
  equal homogenised systems.
-/
import Gama.Props.C02Facades
import Gama.Props.C01.NetWitness
namespace Gama.Props.C02
open Gama Gama.Ls Gama.Ls.Net Gama.LS Gama.Ls.Ex Matrix
attribute [local instance] sqrtFnOfSqrtField
attribute [local instance 2000] scalarOfField

/-- `min_x_ = [1]` resolves the defect of `npR` (from the margin of `RankGap`) -/
theorem C02_net_resolves_witness : Resolves (toProblem npR).A (toProblem npR).S :=
  Props.C01.C01_net_rankgap_witness.1.2.resolves

/-- **`C02_same_net` applied to `npR` for any two of envelope, cholesky, gso** -/
theorem C02_same_net_witness (alg alg' : Alg) (halg : alg ≠ .svd) (halg' : alg' ≠ .svd) :
    ∃ a a', netSolve alg npR = .ok a ∧ netSolve alg' npR = .ok a' ∧
      toVec (toProblem npR).n a.x = toVec (toProblem npR).n a'.x ∧
      toVec (toProblem npR).m a.r = toVec (toProblem npR).m a'.r ∧
      a.pvv = a'.pvv ∧ a.defect = a'.defect ∧
      (∀ i j : Fin (toProblem npR).n, a.qxx (i.val + 1) (j.val + 1) = a'.qxx (i.val + 1) (j.val + 1)) ∧
      (∀ i j : Fin (toProblem npR).m, a.qbb (i.val + 1) (j.val + 1) = a'.qbb (i.val + 1) (j.val + 1)) ∧
      a.Ad = a'.Ad ∧ a.bd = a'.bd := by
  obtain ⟨a, ha, -⟩ := Props.C01.C01_net_answers_witness alg halg
  obtain ⟨a', ha', -⟩ := Props.C01.C01_net_answers_witness alg' halg'
  exact ⟨a, a', ha, ha', C02_same_net alg alg' npR (npW_dims 2 [1]) (npW_rows 2 [1])
    (by show (2 : ℝ) ≠ 0; norm_num) PcN npR_sigma_inv
    (Props.C01.C01_net_solverhyp_witness alg halg) (Props.C01.C01_net_solverhyp_witness alg' halg')
    C02_net_resolves_witness a a' ha ha'⟩

/-- cholesky (dense path) versus envelope (sparse path) -/
example : ∃ a a', netSolve .chol npR = .ok a ∧ netSolve .env npR = .ok a' ∧
    toVec (toProblem npR).n a.x = toVec (toProblem npR).n a'.x ∧ a.pvv = a'.pvv ∧ a.Ad = a'.Ad := by
  obtain ⟨a, a', h, h', x, -, p, -, -, -, A, -⟩ := C02_same_net_witness .chol .env (by decide) (by decide)
  exact ⟨a, a', h, h', x, p, A⟩

/-- envelope versus gso -/
example : ∃ a a', netSolve .env npR = .ok a ∧ netSolve .gso npR = .ok a' ∧
    toVec (toProblem npR).n a.x = toVec (toProblem npR).n a'.x ∧ a.pvv = a'.pvv ∧ a.defect = a'.defect := by
  obtain ⟨a, a', h, h', x, -, p, d, -⟩ := C02_same_net_witness .env .gso (by decide) (by decide)
  exact ⟨a, a', h, h', x, p, d⟩

end Gama.Props.C02
