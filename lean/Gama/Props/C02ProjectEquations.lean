/-
  C02 row 8 ("`--algorithm` never changes which points take part") on the EXECUTED models:
  `worldOf (PE.peWorld base) (Ls.Net.obsNet alg)` versus `worldOf (PE.peWorld base) (Ls.Net.obsNet alg')` — the
  same `project_equations()` (`PE.projectEquations`, general covariance blocks, `min_x_` as assembled), two solver
  objects as `LocalNetwork` observes them behind `netSolve alg`, `netSolve alg'` (env, chol, gso in any pair).

    C02_obsNet_cofactors_agree                       the hypothesis `hq` of the agreement theorems, DERIVED
                                                     (`C02_same_net` on the diagonal, through `obsNet`)
    C02_decision_agree_single_point_of_project_equations
                                                     same removed points (order, reasons) and verdict whenever on every
                                                     configuration the support of ker A lies in ONE removal class
    C02_decision_agree_of_first_of_project_equations the general form: agreement given equal FIRST removals (F7 is exactly
                                                     the failure of that premise, `C02_first_flag_differs_loop`)

  Against `C02_decision_agree_single_point` (abstract `pe : Net → ProjEq (Problem K)`, `(pe net).prob.C = 1`, `hdim`,
  `hq`, `hnd` hypotheses): `pe` is the executed model, the covariance is general, `hdim` and `hq` are theorems.
  What remains: `WorldHyp` for both algorithms (per configuration: `RowsOK` — a theorem for `project_equations()` output, `C01_pe_rowsOK` —, invertible covariance, `m0 ≠ 0`, rank
  decisions unambiguous), `DirFromStation base`, and the genuine condition `hone`.
-/
import Gama.Lemmas.C20ObsNet
import Gama.Lemmas.C20ObsNetExample
import Gama.Props.C02Agree
import Gama.Props.C02Facades
namespace Gama.Props.C02
open Gama Gama.Ls Gama.Ls.Net Gama.LS Gama.NetDecision Gama.PE Matrix

set_option linter.unusedSectionVars false
set_option linter.overlappingInstances false

section field
variable {K : Type} [Field K] [LinearOrder K] [IsStrictOrderedRing K] [Gso.SqrtField K]
attribute [local instance] sqrtFnOfSqrtField
attribute [local instance 2000] scalarOfField

/-- **equal diagonal cofactors through `obsNet`** (`hq`, derived): two objects behind `netSolve alg`, `netSolve alg'`
    that both answer a system whose list resolves the defect show the same `q_xx(i,i)` -/
theorem C02_obsNet_cofactors_agree (alg alg' : Alg) (np : NetProblem K) (hsh : Net.Shape np) (hm0 : np.m0 ≠ 0)
    (Pc : Matrix (Fin (toProblem np).m) (Fin (toProblem np).m) K) (hPc : Sigma np * Pc = 1)
    (hyp : Net.SolverHyp alg np) (hyp' : Net.SolverHyp alg' np)
    (hS : Resolves (toProblem np).A (toProblem np).S)
    (hr : (obsNet alg (some np)).refused = none) (hr' : (obsNet alg' (some np)).refused = none)
    (i : Nat) (h1 : 1 ≤ i) (h2 : i ≤ np.n) :
    (obsNet alg (some np)).qxx i = (obsNet alg' (some np)).qxx i :=
  obsNet_qxx_agree alg alg' np hsh hm0 Pc hPc hyp hyp' hS hr hr' i h1 h2

variable (t : TrigFns K) (base : PE.Net K) (alg alg' : Alg) (m0 : K)

/-- `hq` on every configuration of the executed `project_equations()` -/
theorem C02_peWorld_cofactors_agree (halg : alg ≠ .svd) (halg' : alg' ≠ .svd) (hds : DirFromStation base)
    (hH : WorldHyp t base alg) (hH' : WorldHyp t base alg') :
    ∀ net i, 1 ≤ i → i ≤ (@peWorld K (trigOfField t) base net).unknowns.length →
      (obsNet alg (@peWorld K (trigOfField t) base net).prob).refused = none →
      (obsNet alg (@peWorld K (trigOfField t) base net).prob).qxx i
        = (obsNet alg' (@peWorld K (trigOfField t) base net).prob).qxx i := by
  intro net i h1 h2 hr
  have hS := peWorld_obsNet_sound t base alg halg hH net
  have hS' := peWorld_obsNet_sound t base alg' halg' hH' net
  have hd := peWorld_hdim t base hds net
  have hr' := (hS.refused_eq hS').symm.trans hr
  cases hp : (@peWorld K (trigOfField t) base net).prob with
  | none => rfl
  | some np =>
    rw [hp] at hS hr hr' hd
    obtain ⟨Pc, hPc⟩ := (hH net np hp).weight
    have hres : Resolves (toProblem np).A (toProblem np).S := by
      by_contra hnr
      have := hS.refusal.2 hnr
      rw [hr] at this; cases this
    exact obsNet_qxx_agree alg alg' np (worldHyp_shape t base alg hH net np hp) (hH net np hp).m0 Pc hPc
      (hH net np hp).first (hH' net np hp).first hres hr hr' i h1 (by rw [← hd] at h2; exact h2)

/-- **C02 row 8 for `LocalNetwork`, single removal class**: any two of env / chol / gso, run behind the executed model
    of `project_equations()` on ANY network (general covariances, any statuses), remove the same points in the same
    order for the same reasons and end with the same verdict, provided on every configuration the unknowns in the
    support of the kernel of the design matrix all cause one and the same removal (`hone`) -/
theorem C02_decision_agree_single_point_of_project_equations (halg : alg ≠ .svd) (halg' : alg' ≠ .svd)
    (hds : DirFromStation base) (hH : WorldHyp t base alg) (hH' : WorldHyp t base alg')
    (hone : ∀ net, ∃ rc : String × Rm, KernelClass (linO (@peWorld K (trigOfField t) base net).prob).A
      (@peWorld K (trigOfField t) base net).unknowns rc)
    (net : NetDecision.Net) :
    (NetDecision.decide m0 (worldOf (@peWorld K (trigOfField t) base) (obsNet alg)) net).1
      = (NetDecision.decide m0 (worldOf (@peWorld K (trigOfField t) base) (obsNet alg')) net).1 ∧
    (NetDecision.decide m0 (worldOf (@peWorld K (trigOfField t) base) (obsNet alg)) net).2.core
      = (NetDecision.decide m0 (worldOf (@peWorld K (trigOfField t) base) (obsNet alg')) net).2.core :=
  C02_decision_agree_single_point _ (obsNet alg) (obsNet alg') linO m0 (peWorld_hdim t base hds)
    (peWorld_obsNet_sound t base alg halg hH) (peWorld_obsNet_sound t base alg' halg' hH')
    (C02_peWorld_cofactors_agree t base alg alg' halg halg' hds hH hH') hone net

/-- **C02 row 8 for `LocalNetwork`, general form**: the same conclusion from "on every configuration the FIRST flagged
    unknowns of the two objects cause the same removal" — everything else the decision layer reads agrees by theorem -/
theorem C02_decision_agree_of_first_of_project_equations (halg : alg ≠ .svd) (halg' : alg' ≠ .svd)
    (hds : DirFromStation base) (hH : WorldHyp t base alg) (hH' : WorldHyp t base alg')
    (hfirst : ∀ net,
      (firstUnknown ((viewOf (@peWorld K (trigOfField t) base net)
          (obsNet alg (@peWorld K (trigOfField t) base net).prob)).abs m0)).map removalOf
        = (firstUnknown ((viewOf (@peWorld K (trigOfField t) base net)
          (obsNet alg' (@peWorld K (trigOfField t) base net).prob)).abs m0)).map removalOf)
    (net : NetDecision.Net) :
    (NetDecision.decide m0 (worldOf (@peWorld K (trigOfField t) base) (obsNet alg)) net).1
      = (NetDecision.decide m0 (worldOf (@peWorld K (trigOfField t) base) (obsNet alg')) net).1 ∧
    (NetDecision.decide m0 (worldOf (@peWorld K (trigOfField t) base) (obsNet alg)) net).2.core
      = (NetDecision.decide m0 (worldOf (@peWorld K (trigOfField t) base) (obsNet alg')) net).2.core :=
  C02_decision_agree_of_first _ (obsNet alg) (obsNet alg') linO m0
    (peWorld_obsNet_sound t base alg halg hH) (peWorld_obsNet_sound t base alg' halg' hH')
    (C02_peWorld_cofactors_agree t base alg alg' halg halg' hds hH hH') hfirst net

end field

-- ------------------------------------------------------------------ non-vacuity

section examples
open Gama.Ls.Net.Ex2
attribute [local instance 2000] scalarOfField

/-- **one undetermined point, the same point removed for different algorithms** (executed models, kernel evaluation
    over ℚ; `Ex2.exBase`: `P` hanging on one distance whose y column is exactly zero, heights determined): the
    envelope, the Cholesky and the Gram–Schmidt object all refuse the full configuration, all name unknown 2 (`Y P`),
    the kernel (0,1,0) is supported in the one point `P` (`hone`), and the three runs of the removal loop return the
    same record `[("P", singular_xy)]` and the same verdict `adjusted 0` — the conclusion of
    `C02_decision_agree_single_point_of_project_equations` for the pairs env/chol, env/gso, chol/gso -/
example :
    (NetDecision.decide (1 : ℚ) (worldOf qPE (obsNet .env)) exCfg).1
      = (NetDecision.decide (1 : ℚ) (worldOf qPE (obsNet .chol)) exCfg).1
    ∧ (NetDecision.decide (1 : ℚ) (worldOf qPE (obsNet .env)) exCfg).1
      = (NetDecision.decide (1 : ℚ) (worldOf qPE (obsNet .gso)) exCfg).1
    ∧ (NetDecision.decide (1 : ℚ) (worldOf qPE (obsNet .env)) exCfg).2.core
      = (NetDecision.decide (1 : ℚ) (worldOf qPE (obsNet .gso)) exCfg).2.core
    ∧ NetDecision.decide (1 : ℚ) (worldOf qPE (obsNet .chol)) exCfg = ([("P", .singular_xy)], .adjusted 0)
    ∧ readOf .env (qPE exCfg) = readOf .chol (qPE exCfg) ∧ readOf .env (qPE exCfg) = readOf .gso (qPE exCfg) := by
  refine ⟨by rw [ex_decide_env, ex_decide_chol], by rw [ex_decide_env, ex_decide_gso],
    by rw [ex_decide_env, ex_decide_gso], ex_decide_chol, ?_, ?_⟩
  · rw [ex_first_env.2, ex_first_chol.2]
  · rw [ex_first_env.2, ex_first_gso.2]

/-- the premise `hone` on that network's full configuration: every kernel vector of [[1,0,0],[0,0,1]] moves only `Y P`,
    whose removal is `("P", singular_xy)` -/
example : KernelClass (!![1, 0, 0; 0, 0, 1] : Matrix (Fin 2) (Fin 3) ℚ) (qPE exCfg).unknowns ("P", .singular_xy) := by
  intro g hg i u hne hu
  rw [ex_first.1] at hu
  have h0 : g 0 = 0 := by
    have := congrFun hg 0
    simpa [Matrix.mulVec, dotProduct, Fin.sum_univ_three] using this
  have h2 : g 2 = 0 := by
    have := congrFun hg 1
    simpa [Matrix.mulVec, dotProduct, Fin.sum_univ_three] using this
  fin_cases i
  · exact absurd h0 hne
  · simp at hu; subst hu; rfl
  · exact absurd h2 hne

end examples

end Gama.Props.C02
