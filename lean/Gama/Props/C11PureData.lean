/-
  C11 — gama-g3 / adjustment input: `DataParser::pure_data`, the single test behind every numeric element
  (`if (pure_data(istr >> a >> b …))`, 31 call sites listed in the GENERATED `PD.pureDataCallers`).
  The order of its early returns is REGENERATED from dataparser.cpp (`PD.pureDataTests`); the theorems below are
  about `PD.pureData`, which interprets that list, so they are re-proved against what the code says now: with
  `eof()` tested before `fail()` a failed extraction that ran into the end of the text (a missing or truncated last number)
  would be accepted and `C11_pure_data_spec` is false.
-/
import Gama.Lemmas.PureData
namespace Gama.Props.C11
open Gama Gama.PD Gama.Lit

/-- `pure_data` accepts exactly: no extraction failed and only white space follows — for every stream state in which
    `eofbit` means "nothing left" -/
theorem C11_pure_data_spec (st : Stream) (h : st.Inv) :
    pureData st = true ↔ (st.fail = false ∧ st.rest.all isSpace = true) := pureData_spec st h

/-- … in particular after ANY chain of extractions `istr >> a >> b >> …` from the text of an element -/
theorem C11_pure_data_after_extractions (s : List Char) (xs : List Extraction) :
    let st := xs.foldl (fun st x => x.run st) (Stream.ofText s)
    pureData st = true ↔ (st.fail = false ∧ st.rest.all isSpace = true) := by
  intro st
  apply pureData_spec
  have : ∀ (xs : List Extraction) (st0 : Stream), st0.Inv → (xs.foldl (fun st x => x.run st) st0).Inv := by
    intro xs
    induction xs with
    | nil => intro st0 h; exact h
    | cons x r ih =>
      intro st0 h
      apply ih
      cases x
      · exact extractDouble_inv st0 h
      · exact extractWord_inv st0 h
      · exact extractInt_inv false st0 h
      · exact extractInt_inv true st0 h
  exact this xs _ (ofText_inv s)

/-- a missing number (empty or blank text) is refused -/
theorem C11_pure_data_blank_refused (s : List Char) (h : s.all isSpace = true) : numberOk s = false := by
  have h1 : skipWs s = [] := by
    have := skipWs_isEmpty s
    rw [h] at this
    simpa using this
  have h2 : extractDouble (Stream.ofText s) = ⟨[], true, true⟩ := by
    simp [extractDouble, Stream.ofText, h1]
  unfold numberOk
  rw [h2, Bool.eq_false_iff]
  intro hp
  have := (pureData_spec ⟨[], true, true⟩ (fun _ => rfl)).mp hp
  cases this.1

/-! ### non-vacuity -/

/-- the truncated literals at the end of the text, each a failed extraction that ran into the end (failbit AND eofbit) -/
example :
    numberOk "".toList = false ∧ numberOk " ".toList = false ∧ numberOk "-".toList = false ∧ numberOk "+".toList = false ∧
    numberOk ".".toList = false ∧ numberOk "-.".toList = false ∧ numberOk "1e".toList = false ∧ numberOk "1e+".toList = false ∧
    numberOk "1E-".toList = false ∧
    extractDouble (Stream.ofText "1e+".toList) = ⟨[], true, true⟩ ∧ extractDouble (Stream.ofText "-".toList) = ⟨[], true, true⟩ := by
  decide +kernel

/-- numbers are accepted, with surrounding blanks; junk after the number, a second number, an overflowing value are refused -/
example :
    numberOk "1".toList = true ∧ numberOk " -12.5e-3 \n".toList = true ∧ numberOk ".5".toList = true ∧ numberOk "5.".toList = true ∧
    numberOk "1x".toList = false ∧ numberOk "1 2".toList = false ∧ numberOk "abc".toList = false ∧ numberOk "+.e1".toList = false ∧
    numberOk "1.2.3".toList = false ∧ numberOk "1e999".toList = false ∧ numberOk "1e-999".toList = true := by decide +kernel

/-- `istr >> from >> to >> val` of `<distance>`: the last token missing or truncated is refused, the full triple accepted;
    the state after the chain when the last number is cut in its exponent: failbit and eofbit both set — the case the order of
    the tests in `pure_data` decides -/
example :
    let chain (s : String) := [Extraction.word, .word, .double].foldl (fun st x => x.run st) (Stream.ofText s.toList)
    pureData (chain "A B 12.5") = true ∧ pureData (chain "A B") = false ∧ pureData (chain "A B 1e") = false ∧
    pureData (chain "A B 12.5 7") = false ∧ chain "A B 1e" = ⟨[], true, true⟩ ∧ (chain "A B 1e").Inv := by
  refine ⟨by decide +kernel, by decide +kernel, by decide +kernel, by decide +kernel, by decide +kernel, ?_⟩
  intro _; decide +kernel

/-- the interpreter does distinguish the orders: with `eof()` tested first that state is accepted -/
example : pureDataFrom [.eofTrue, .failFalse] ⟨[], true, true⟩ = true ∧ pureDataFrom [.failFalse, .eofTrue] ⟨[], true, true⟩ = false ∧
    pureDataTests = [.failFalse, .eofTrue] ∧ pureDataCallers.length = 31 := by decide

end Gama.Props.C11
