/-
  C02 at `LocalNetwork` level, svd — `C02_same_net .gso .svd` APPLIED over ℝ with the svd premise discharged through
  `C02_net_svd_hyp_decompose` (no certificate: the factors are COMPUTED by the model's own iteration).
  `Ex.npV` (`Lemmas/Ls/NetFacadeRealSvd.lean`): the clusters of `Ex.npR` (correlated cluster with an excluded
  observation, …), design matrix `[[12,16],[15,20],[12,16]]` (defect 1), `min_x_ = [1]`; homogenised system
  `Ex.pCVdot`, singular values 0 and 15.
-/
import Gama.Props.C02Facades
import Gama.Props.C02SvdDecompose
import Gama.Lemmas.Ls.NetFacadeRealSvd
namespace Gama.Props.C02
open Gama Gama.Ls Gama.Ls.Net Gama.LS Gama.Ls.Ex Matrix
attribute [local instance] sqrtFnOfSqrtField
attribute [local instance 2000] scalarOfField

/-- the svd premise on `npV` from the run of `Svd.decompose` itself -/
theorem C02_net_svd_hyp_witness : Net.SolverHyp .svd npV :=
  C02_net_svd_hyp_decompose npV (by decide) npV_hun

/-- **`C02_same_net .gso .svd` applied to `npV`**: both models answer over ℝ (`x = (0, 1/8)`, defect 1) and agree in
    `x`, `r`, `[pvv]`, defect, all `qxx(i,j)`, all `qbb(i,j)` and the homogenised system -/
theorem C02_same_net_svd_witness :
    ∃ a a', netSolve .gso npV = .ok a ∧ netSolve .svd npV = .ok a' ∧ a'.x = #[0, 1 / 8] ∧
      toVec (toProblem npV).n a.x = toVec (toProblem npV).n a'.x ∧
      toVec (toProblem npV).m a.r = toVec (toProblem npV).m a'.r ∧
      a.pvv = a'.pvv ∧ a.defect = a'.defect ∧
      (∀ i j : Fin (toProblem npV).n, a.qxx (i.val + 1) (j.val + 1) = a'.qxx (i.val + 1) (j.val + 1)) ∧
      (∀ i j : Fin (toProblem npV).m, a.qbb (i.val + 1) (j.val + 1) = a'.qbb (i.val + 1) (j.val + 1)) ∧
      a.Ad = a'.Ad ∧ a.bd = a'.bd := by
  obtain ⟨a, ha, -, -⟩ := npV_gso
  obtain ⟨a', ha', hx', -⟩ := npV_svd
  exact ⟨a, a', ha, ha', hx', C02_same_net .gso .svd npV npV_dims npV_rows (by show (2 : ℝ) ≠ 0; norm_num) PcV
    npV_sigma_inv npV_hyp_gso C02_net_svd_hyp_witness npV_resolves a a' ha ha'⟩

end Gama.Props.C02
