/-
  C11 — the adjustment-results reader `LocalNetworkAdjustmentResults::Parser`
  (lib/gnu_gama/xml/localnetwork_adjustment_results.cpp).  Property theorems only; helper lemmas live in
  Gama/Lemmas/AdjRes.lean and Gama/Lemmas/AdjResCov.lean.
  The tables (`State`, `Tag`, `Handler`, `tagfun`, `tagTable`, `startOps`, `endOps`, `setStateGuarded`) are REGENERATED
  from the C++ on every run; theorems about them are re-checked against what the code says now.
  All statements are for ALL event sequences (tag names, attribute names and values, character data are real strings).
-/
import Gama.Lemmas.AdjRes
import Gama.Lemmas.AdjResCov
import Gama.Lemmas.AdjResExamples
import Gama.Lemmas.AdjResAlloc
set_option maxRecDepth 20000
namespace Gama.Props.C11
open Gama Gama.AdjRes Gama.AdjRes.Ex

/-- every (state, tag) pair is decided: `tagfun` is total (default fill of the whole array checked by the translator),
    the entry is either `unknown`, which calls `error()` and nothing else, or a handler whose start branch first pushes
    ITSELF on the stack of open elements; the index `tag()` returns for an unknown name lies inside the array -/
theorem C11_adjres_total (s : State) (t : Tag) :
    (tagfun s t = .unknown_ ∨
      (startOps (tagfun s t)).find? (fun o => match o with | .push _ => true | _ => false) = some (.push (tagfun s t))) ∧
    (∃ e, startOps .unknown_ = [.error e]) ∧ (∃ e, endOps .unknown_ = [.error e]) ∧ errorReturn < Tag.all.length :=
  ⟨start_pushes_self _, unknown_calls_error.1, unknown_calls_error.2, errorReturn_in_range⟩

/-- `state == s_error` ⇔ an error (with its position) is recorded, after EVERY event sequence: `error()` is the only
    way into the error state (refused ⇒ located diagnostic) and a recorded error is never lost (no handler takes the
    parser out of the error state, although every handler goes on executing after `error(...)`).
    Needs (by `decide` over the generated handler bodies): `set_state` is `if (state) state = s`, no handler assigns
    `state` directly, no handler calls `set_state(s_error)`. -/
theorem C11_adjres_refused_iff_error_recorded (evs : List Event) :
    (run St.init evs).state = .error_ ↔ (run St.init evs).err.isSome = true :=
  (run_coupled evs St.init init_coupled).symm

/-- the error state is absorbing -/
theorem C11_adjres_error_absorbing (evs more : List Event) (h : (run St.init evs).state = .error_) :
    (run St.init (evs ++ more)).state = .error_ := by
  rw [run_append]
  exact run_error_absorbing more _ (run_coupled evs St.init init_coupled) h

/-- first error wins: a recorded (position, message) is never overwritten -/
theorem C11_adjres_first_error_wins (evs : List Event) (st : St) (e : Nat × Err) (h : st.err = some e) :
    (run st evs).err = some e := run_err_preserved evs st e h

/-- the recorded error carries the position of the first offending event: none before it, there right after it -/
theorem C11_adjres_error_located (evs : List Event) (i : Nat) (k : Err)
    (h : (run St.init evs).err = some (i, k)) :
    i < evs.length ∧ (run St.init (evs.take i)).err = none ∧
      (run St.init (evs.take (i + 1))).err = some (i, k) := by
  have := run_err_located evs St.init i k rfl h
  simpa [St.init] using this.2

/-- the `<flt>` store into the covariance storage: for every document, every `*tmp_i++ = get_float()` the parser
    executes writes at an offset strictly below the size the storage of `adj->cov` has at that moment (`tmp_i != tmp_e`
    at the store, whatever `<dim>`, `<band>` and the number of `<flt>` elements are, also after `error()` — the handler
    goes on — and after a second `<cov-mat>` resized the storage).
    Needs (by `decide` over the generated handler bodies): every store stands under `if (tmp_i != tmp_e)`.
    A store executed with iterators that were never assigned is not a logged write but sets `uninitStore`
    (excluded by `C11_adjres_store_iterators_assigned`, Props/C11AdjResInit.lean). -/
theorem C11_adjres_cov_fill_in_bounds (evs : List Event) :
    (∀ w ∈ (run St.init evs).writes, w.1 < w.2) ∧
    (∀ i, (run St.init evs).iterI = some i → i ≤ (run St.init evs).covSize) ∧
    (∀ e, (run St.init evs).iterE = some e → e = (run St.init evs).covSize) :=
  have h := run_covWf evs St.init init_covWf
  ⟨h.2.2, h.1, h.2.1⟩

/-- allocation is bounded by what the input announced: every `adj->cov.reset(dim, band)` the reader executes — for EVERY event
    sequence — allocates at most (adjusted unknowns read so far)·(band+1) elements, `unknowns` = orientations pushed + non-zero
    adjustment indexes of the adjusted points pushed so far (log `allocs` = (elements, unknowns at that moment, band)).
    Needs: the guard of `band(false)` contains `tmp_dim > unknowns` (generated `covGuardUnknowns`, fix 3e87ff8) and every
    `covReset` stands right behind that guard (`resets_guarded`, `decide` on the generated handler bodies).  Before the fix
    `<dim>2147483647</dim><band>0</band>` allocated and cleared 16 GB before any `<flt>` was seen. -/
theorem C11_adjres_dim_bounded_by_unknowns (evs : List Event) :
    ∀ a ∈ (run St.init evs).allocs, (a.1 : Int) ≤ (a.2.1 : Int) * (a.2.2 + 1) ∧ 0 ≤ a.2.2 :=
  run_allocInv evs St.init init_allocInv

/-- non-vacuity: three adjusted unknowns announced (one point with x, y, z): `dim 2 band 1` allocates 3 ≤ 3·2 elements;
    `dim 2147483647 band 0` and `dim 4 band 0` are refused (located) and allocate nothing; with no adjusted point even `dim 1`
    is refused; an orientation counts as one unknown -/
example :
    (run St.init (toCovMat ++ leaf "dim" "2" ++ leaf "band" "1")).allocs = [(3, 3, 1)] ∧
    (run St.init (toCovMat ++ leaf "dim" "2" ++ leaf "band" "1")).unknowns = 3 ∧
    (run St.init (toCovMat ++ leaf "dim" "2147483647" ++ leaf "band" "0")).allocs = [(0, 3, 0)] ∧
    (run St.init (toCovMat ++ leaf "dim" "2147483647" ++ leaf "band" "0")).err =
      some (36, .e_bad_dimension_or_bandwidth_of_covariance) ∧
    (run St.init (toCovMat ++ leaf "dim" "4" ++ leaf "band" "0")).err = some (36, .e_bad_dimension_or_bandwidth_of_covariance) ∧
    (run St.init (toCovMat ++ leaf "dim" "3" ++ leaf "band" "0")).err = none ∧
    (run St.init (toCovMatNoPoints ++ leaf "dim" "1" ++ leaf "band" "0")).err =
      some (22, .e_bad_dimension_or_bandwidth_of_covariance) ∧
    covGuardUnknowns = true := by decide

/-! ### non-vacuity -/

/-- a complete document with a 2×2 band-1 covariance matrix (3 elements) is accepted: `s_stop`, no error, the three
    stores went to offsets 0, 1, 2 of a storage of 3 -/
example :
    let evs := toCovMat ++ leaf "dim" "2" ++ leaf "band" " 1 " ++ leaf "flt" "4" ++ leaf "flt" "-1e0" ++ leaf "flt" ".5" ++
      [.stop, .start "original-index" [], .stop, .stop, .start "observations" [], .stop, .stop]
    (run St.init evs).state = .stop_ ∧ (run St.init evs).err = none ∧
    (run St.init evs).writes = [(2, 3), (1, 3), (0, 3)] ∧ (run St.init evs).stack = [] := by decide

/-- surplus `<flt>` elements: nothing is written beyond the storage; the surplus elements are silently skipped,
    `tmp_i == tmp_e` holds at `</cov-mat>` and no error is recorded (the reader is liberal here, but memory safe) -/
example :
    let evs := toCovMat ++ leaf "dim" "1" ++ leaf "band" "0" ++ leaf "flt" "4" ++ leaf "flt" "5" ++ leaf "flt" "6" ++ [.stop]
    (run St.init evs).writes = [(0, 1)] ∧ (run St.init evs).err = none := by decide

/-- too few elements: refused at `</cov-mat>` (event 31) with "bad number of elements" -/
example :
    let evs := toCovMat ++ leaf "dim" "2" ++ leaf "band" "0" ++ leaf "flt" "4" ++ [.stop]
    (run St.init evs).state = .error_ ∧
    (run St.init evs).err = some (40, .e_bad_number_of_elements_in_covariance_mat) ∧ (run St.init evs).writes = [(0, 2)] := by
  decide

/-- a bad `<flt>` literal: `error()` is recorded, yet the handler goes on and the element IS stored (inside the storage) -/
example :
    let evs := toCovMat ++ leaf "dim" "1" ++ leaf "band" "0" ++ leaf "flt" "x"
    (run St.init evs).err = some (39, .e_float_syntax_error) ∧ (run St.init evs).writes = [(0, 1)] ∧
    (run St.init evs).state = .error_ := by decide

/-- band ≥ dim is refused and the storage is emptied: later `<flt>` elements store nothing -/
example :
    let evs := toCovMat ++ leaf "dim" "2" ++ leaf "band" "2" ++ leaf "flt" "1" ++ leaf "flt" "1"
    (run St.init evs).err = some (36, .e_bad_dimension_or_bandwidth_of_covariance) ∧ (run St.init evs).writes = [] ∧
    (run St.init evs).covSize = 0 := by decide

/-- an unknown tag deep in the document: refused, located at that event, never overwritten; an end tag with nothing
    open (only possible if expat were bypassed) is an error too, not a crash -/
example :
    (run St.init (toCovMat ++ [.start "bogus" [], .text "x".toList, .stop, .stop])).err = some (31, .e_unknown_tag) ∧
    (run St.init [.stop]).err = some (0, .e_illegal_context_or_unknown_tag) := by decide

/-- attribute checks: wrong namespace value, unknown attribute -/
example :
    (run St.init [.start "gama-local-adjustment" [("xmlns", "urn:x")]]).err = some (0, .e_bad_namespace_xmlns) ∧
    (run St.init [.start "gama-local-adjustment" [xmlns, ("a", "b")]]).err = some (0, .e_unknown_attribute) := by decide

end Gama.Props.C11
