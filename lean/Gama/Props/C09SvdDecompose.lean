/-
  C09 ∘ (C03, C20), svd solver, WITHOUT the factorisation certificate: `C09_solver_facts_svd`
  (Props/C09Solvers.lean: `Stats.SolverFacts` for an answer of `svdSolveCert fixed tol d p`, factors `d` a
  parameter under `SvdCert`) restated for the factors the model of `SVD::svd()` RETURNS — the algebraic
  part of `SvdCert` is proved for them (`Svd.decompose_svdCert`) — and for the solver as it runs
  (`svdSolve`, tolerance `Svd.wTol`).  Everything downstream (`C09_dof`, `C09_ellipse_of_solver_cofactors`,
  `C09_stdev_of_solver_cofactors`, `C09_sigma_apr_scaling`) consumes `SolverFacts` only, so it applies to
  svd answers with the single remaining hypothesis "the returned singular values are unambiguous
  w.r.t. the tolerance" (plus: the run returned — convergence of the QR iteration is not proved).
  At the network level the same follows from `C02_net_svd_hyp_decompose` (Props/C02SvdDecompose.lean):
  `Net.SolverHyp .svd np` holds once the singular values are unambiguous, so `C09_net_solver_facts .svd`
  needs no certificate either.
-/
import Gama.Props.C09Solvers
import Gama.Lemmas.Ls.SvdDecompCert
import Gama.Lemmas.Ls.SvdDecompWitness
namespace Gama.Props.C09
open Gama Gama.Stats Gama.Ls Gama.LS Matrix Real
open Gama.Ls.Svd

/-- svd with the factors its own iteration returned: the facts C01/C03/C20 prove, at the shared `Scalar ℝ` -/
theorem C09_solver_facts_svd_decompose (fixed : Bool) {tol : ℝ} (htol : 0 ≤ tol) (p : Problem ℝ) (d : Dec ℝ)
    (hd : decompose p.m p.n p.dense = .ok d) (hun : Unambiguous Real.sqrt tol p.n (vget d.W))
    (hreg : RegOK p.reg) (a : Answer ℝ) (h : svdSolveCert fixed tol d p = .ok a) :
    ∃ Q B, SolverFacts a p.A 1 p.S Q B := by
  refine C09_solver_facts_svd fixed htol p d ?_ hreg a h
  revert hd hun
  rw [scalarReal_eq_fieldScalar]
  intro hd hun
  exact decompose_svdCert Real.sqrt Ex.sqrtLaw_real.mul_self Ex.sqrtLaw_real.nonneg tol p.m p.n _ d hd hun

/-- the svd solver as it runs (`svdSolve` = `decompose`, then the post-decomposition model at `Svd.wTol`) -/
theorem C09_solver_facts_svdsolve (p : Problem ℝ) (hreg : RegOK p.reg)
    (hun : ∀ d, decompose p.m p.n p.dense = .ok d → Unambiguous Real.sqrt wTol p.n (vget d.W))
    (a : Answer ℝ) (h : svdSolve p = .ok a) : ∃ Q B, SolverFacts a p.A 1 p.S Q B := by
  have h' : svdSolveWith true p = .ok a := h
  unfold svdSolveWith at h'
  cases hd : decompose p.m p.n p.dense with
  | error e => rw [hd] at h'; cases h'
  | ok d =>
    rw [hd] at h'
    have htol : (0 : ℝ) ≤ wTol := by
      rw [scalarReal_eq_fieldScalar]
      exact Gama.Ls.Svd.wTol_nonneg
    exact C09_solver_facts_svd_decompose true htol p d hd (hun d hd) hreg a h'

/-! ### non-vacuity -/

/-- over ℝ at the shared `Scalar ℝ`: `Ex.pCVdot` (`A = [[6,8],[3,4],[6,8]]`, rank 1, S = {1}) — the run of
    `decompose` returns `Ex.dCV` (evaluated over ℝ statement by statement), the singular values (0, 15) are
    unambiguous at `Svd.wTol`, `svdSolve` answers with defect 1 — and by `C09_solver_facts_svdsolve` +
    `C09_dof` the reported degrees of freedom of that answer are `3 − 2 + 1 = 2 = m − rank A` -/
example : RegOK Ls.Ex.pCVdot.reg
    ∧ (∀ d, decompose Ls.Ex.pCVdot.m Ls.Ex.pCVdot.n Ls.Ex.pCVdot.dense = .ok d →
        Unambiguous Real.sqrt wTol Ls.Ex.pCVdot.n (vget d.W))
    ∧ ∃ a, svdSolve Ls.Ex.pCVdot = .ok a ∧ a.defect = 1
      ∧ StatsGen.degreesOfFreedom Ls.Ex.pCVdot.m Ls.Ex.pCVdot.n a.defect = (Ls.Ex.pCVdot.m : ℤ) - Ls.Ex.pCVdot.A.rank := by
  have key : RegOK Ls.Ex.pCVdot.reg
      ∧ (∀ d, decompose Ls.Ex.pCVdot.m Ls.Ex.pCVdot.n Ls.Ex.pCVdot.dense = .ok d →
          Unambiguous Real.sqrt wTol Ls.Ex.pCVdot.n (vget d.W))
      ∧ ∃ a, svdSolve Ls.Ex.pCVdot = .ok a ∧ a.defect = 1 := by
    rw [scalarReal_eq_fieldScalar]
    obtain ⟨s, hs, -, hdf⟩ := Ls.Ex.pCVdot_svdSolve
    exact ⟨List.nodup_singleton 1, Ls.Ex.pCVdot_hun, s, hs, hdf⟩
  obtain ⟨k1, k2, a, ha, hdf⟩ := key
  obtain ⟨Q, B, hf⟩ := C09_solver_facts_svdsolve Ls.Ex.pCVdot k1 k2 a ha
  exact ⟨k1, k2, a, ha, hdf, (C09_dof a _ 1 _ Q B hf).1⟩

end Gama.Props.C09
