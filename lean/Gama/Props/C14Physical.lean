/-
  C14 — round 12: PHYSICAL deletion of the excluded items (residue (c) of
  `C14_pe_solution_equals_deletion_partial`, Props/C14.lean).

  The executed model of `project_equations()` names a point by its position in `PD` and a stand-point by its
  position in `OD.clusters`.  Removing a `<point>` / an emptied `<obs>` block from the input therefore
  RELABELS the unknowns by an order-preserving injection.  Lemmas: `Lemmas/RevisePhysical.lean`
  (kernel `Lin.runEvs_rename` shared with C07's `C07_rename_assembled`).
-/
import Gama.Props.C14
import Gama.Lemmas.RevisePhysicalRevise
namespace Gama.Props.C14
open Gama Gama.Lin

variable {K : Type}

/-- **The linearisation pass under a relabelling of the unknowns** (executed carrier: `Lin.passFrom`, the
    loop behind `PE.linPass` / `PE.assemble`).  `g` renames point positions, `gc` cluster numbers, both
    injective; if every renamed observation reads in `σ'` the record the observation reads in `σ`, then the
    pass over the renamed observations from the relabelled index state throws the same exception, or returns
    the SAME sparse rows and right-hand side and the relabelled index table (`mapKeys`: the index of the
    relabelled unknown is the index of the unknown; `maxn` unchanged).  Any order of the list, any start state. -/
theorem C14_pe_pass_relabelled [TrigScalar K] (σ σ' : Lin.Net K) (fuel : Nat) (g gc : Nat → Nat)
    (hg : Function.Injective g) (hgc : Function.Injective gc) (obs : List (NObs K))
    (hv : ∀ ob ∈ obs, σ'.view (RevPE.renN g gc ob) = σ.view ob) (s : IdxState) :
    passFrom σ' fuel (obs.map (RevPE.renN g gc)) (s.mapKeys (RevPE.relab g gc)) =
      match passFrom σ fuel obs s with
      | .error e => .error e
      | .ok r => .ok ⟨r.rows, r.rhs, r.idx.mapKeys (RevPE.relab g gc)⟩ :=
  RevPE.passFrom_relabel σ σ' fuel g gc hg hgc obs hv s

/-- **One inner call on the physically deleted network, every algorithm** (round 12, hypothesis `RolesKept`
    REMOVED in round 13).  `RevPE.physDel net`: the points without an active coordinate group and the clusters
    without observations are removed from the lists, the remaining observations and stand-points name the
    points by their new positions (`RevPE.gPt net`, `RevPE.gCl net`: rank among the kept entries — order
    preserving, injective).  For every network on which the revision is stable (`PE.revise net = net`: every
    network `project_equations()` leaves): if `assemble net` succeeds then `assemble (physDel net)` succeeds with
    the same `m`, `n`, sparse rows, `rhs_`, cofactor blocks, so that for every algorithm and every regularisation
    list `netSolve` returns the same exception or the same answer field by field, and the index table is the
    relabelled one on every unknown the prologue clears.
    Why no hypothesis on the role slots: the generated member functions do not read the slots their class does
    not use (`RevPE.lin_pfs`, `lin_pto`: `rfl` per class on the regenerated `Gen.Lin.*`), the slots a class
    uses name kept points because the revision asked for their groups (`RevPE.slots_kept`), and the cluster of a
    revised observation has an observation. -/
theorem C14_pe_inner_call_equals_physical_deletion [TrigScalar K] (net : PE.Net K)
    (hst : PE.revise net = net) (a : PE.Asm K) (h : PE.assemble net = .ok a) :
    ∃ a' b, PE.assemble (RevPE.physDel net) = .ok a' ∧ PE.Fresh net a b ∧
      (∀ (alg : Ls.Alg) (mx : List Nat),
        Ls.Net.netSolve alg { a'.np with minx := mx } = Ls.Net.netSolve alg { a.np with minx := mx }) ∧
      a'.np.m = a.np.m ∧ a'.np.n = a.np.n ∧ a'.np.rows = a.np.rows ∧ a'.np.rhs = a.np.rhs ∧
      (∀ u, PE.Cleared (RevPE.physDel net) (RevPE.relab (RevPE.gPt net) (RevPE.gCl net) u) →
        a'.idx.get (RevPE.relab (RevPE.gPt net) (RevPE.gCl net) u) = b.idx.get u) := by
  obtain ⟨a', b, h1, F, hm, hn, hr, hb, hc, _, hag⟩ := RevPE.assemble_physDel' net hst a h
  refine ⟨a', b, h1, F, fun alg mx => ?_, hm, hn, hr, hb, fun u hu => ?_⟩
  · exact RevPE.netSolve_congr alg _ _ hm hn hr hb hc rfl
  · rw [← hag.2 _ hu]
    exact IdxState.get_mapKeys _ (RevPE.relab_injective _ _ (RevPE.gmap_injective _) (RevPE.gmap_injective _)) b.idx u

/-- **Results equal those for the input with the excluded items PHYSICALLY deleted — the whole call, every
    algorithm.**  `net`: a network on which the call of `project_equations()` is one inner call — the revision
    is stable, `assemble`/`prepare` succeed, `singular_coords` finds nothing (this is what round 8's
    `C14_pe_solution_equals_deletion_partial` establishes for the position-stable deleted input
    `delObs u.net`).  Then (first conjunct) `projectEquations net` is that inner call, and
    `projectEquations (physDel net)` succeeds in one inner call, removes nothing, leaves the points and
    clusters of `physDel net`, hands the solvers the same `m, n`, rows, `rhs_`, cofactor blocks and THE SAME
    `min_x_` list (the walks of `singular_coords`, `min_n_`, `min_x_` over the shorter `PD` with the relabelled
    numbering give the same verdict / count / list: `RevPE.singularFrom_physDel`, `countFrom_physDel`,
    `fillFrom_physDel`), hence **for every algorithm the same exception or the same answer field by field**.

    Round 13, last item: the hypothesis `hrev'` (revision stable on the physically deleted network) is now a
    theorem (`C14_pe_revision_stable_physical`) and no longer appears.  The name keeps its `_partial` suffix as an
    ALIAS of record (round 12/13 reports cite it); the statement from an arbitrary network is
    `C14_pe_solution_equals_physical_deletion`.  Not in the statement: the table `unknowns_` (`u'.list` is
    `u.list` with the stand-point cluster numbers relabelled; `oriLoop`/`ptLoop` under the relabelling are not
    proved) — `pocet_neznamych_` (`u'.n`) is.
    A removed point LEFT in the file as free: example `corFree` (second inner call, same answers). -/
theorem C14_pe_solution_equals_physical_deletion_partial [TrigScalar K] (net : PE.Net K)
    (hst : PE.revise net = net)
    (a : PE.Asm K) (ha : PE.assemble net = .ok a) (hh : Ls.Net.Hom K) (hprep : Ls.Net.prepare a.np = .ok hh)
    (hsc : (SingularCoords.singularCoords hh.Ad (PE.idxFn a.idx) (PE.ptsOf net)).1 = false) :
    PE.projectEquations net =
      .ok ({ a.np with minx := (MinX.feed (PE.idxFn a.idx) (PE.ptsOf net)).2 }, ⟨a.np.n, a.list, { net with idx := a.idx }, []⟩) ∧
    ∃ np' u', PE.projectEquations (RevPE.physDel net) = .ok (np', u') ∧
      np'.m = a.np.m ∧ np'.n = a.np.n ∧ np'.rows = a.np.rows ∧ np'.rhs = a.np.rhs ∧
      np'.minx = (MinX.feed (PE.idxFn a.idx) (PE.ptsOf net)).2 ∧ Ls.Net.cofs np' = Ls.Net.cofs a.np ∧
      u'.n = a.np.n ∧ u'.removed = [] ∧ u'.net.points = (RevPE.physDel net).points ∧
      u'.net.clusters = (RevPE.physDel net).clusters ∧
      ∀ alg : Ls.Alg, Ls.Net.netSolve alg np' =
        Ls.Net.netSolve alg { a.np with minx := (MinX.feed (PE.idxFn a.idx) (PE.ptsOf net)).2 } :=
  RevPE.pe_physDel net hst (RevPE.revise_physDel net hst) a ha hh hprep hsc

/-- **Item (1): the revision is stable on the physically deleted network.**  For every network on which
    `revision_observations()` changes nothing, it changes nothing on the network with the unused points and the
    emptied clusters physically removed: the needs test reads the same `active` bit at the new position of a
    kept point (and `false` on both sides at a dropped / absent one), the single-direction rule counts
    `eraseDups` of the targets, whose length is invariant under the injective renaming. -/
theorem C14_pe_revision_stable_physical [Zero K] (net : PE.Net K) (hst : PE.revise net = net) :
    PE.revise (RevPE.physDel net) = RevPE.physDel net :=
  RevPE.revise_physDel net hst

/-- **Results equal those for the input with the excluded items PHYSICALLY deleted — the whole call, from an
    arbitrary network, every algorithm.**  `projectEquations net0 = .ok (np, u)`.  The excluded items are what
    `u.net` shows (passive observations, points `singular_coords` switched off).  The input with these items
    physically deleted is `physDel { delObs u.net with idx := idx0 }`: the passive observations gone with
    their rows/columns of the covariance matrices (`delObs`, round 8), then the points without an active group
    and the clusters left without observations REMOVED from `PD` / `OD` and every remaining observation and
    stand-point renamed to the new positions (`physDel`), arbitrary stale index fields.  The call on it
    succeeds in one inner call, removes nothing, leaves exactly those points and clusters, hands the solvers the
    same `m, n`, rows, `rhs_`, `min_x_`, cofactor blocks, and **for every algorithm `netSolve alg np' =
    netSolve alg np`**: the same exception or the same answer field by field (x, residuals of the active
    observations, pvv, defect, cofactor accessors).
    Not in the statement: the table `unknowns_` (`u'.list`; it is `u.list` with the stand-point cluster numbers
    relabelled — `oriLoop`/`ptLoop` under the relabelling not proved; `pocet_neznamych_` is compared).
    Outside (stated, evaluated): a removed point LEFT in the file as free — example `corFree`. -/
theorem C14_pe_solution_equals_physical_deletion [TrigScalar K] (net0 : PE.Net K) (np : Ls.Net.NetProblem K)
    (u : PE.Unknowns K) (h : PE.projectEquations net0 = .ok (np, u)) (idx0 : Lin.IdxState) :
    ∃ np' u', PE.projectEquations (RevPE.physDel { RevPE.delObs u.net with idx := idx0 }) = .ok (np', u') ∧
      (∀ alg : Ls.Alg, Ls.Net.netSolve alg np' = Ls.Net.netSolve alg np) ∧
      np'.m = np.m ∧ np'.n = np.n ∧ np'.rows = np.rows ∧ np'.rhs = np.rhs ∧ np'.minx = np.minx ∧
      Ls.Net.cofs np' = Ls.Net.cofs np ∧ u'.n = u.n ∧ u'.removed = [] ∧
      u'.net.points = (RevPE.physDel ({ RevPE.delObs u.net with idx := idx0 } : PE.Net K)).points ∧
      u'.net.clusters = (RevPE.physDel ({ RevPE.delObs u.net with idx := idx0 } : PE.Net K)).clusters :=
  RevPE.pe_physically_deleted net0 np u h idx0

/-! ### non-vacuity -/

/-- `corDel` (round 8) with an unused point `U` inserted at position 1 and the emptied cluster FIRST: the
    kept points `A B C` sit at positions 0 2 3, the kept cluster at position 1 -/
def phNet : PE.Net Rat :=
  { corDel with
    points := [⟨"A", ⟨0, 0, 100, .unused, .fixed⟩⟩, ⟨"U", ⟨7, 7, 7, .unused, .unused⟩⟩,
               ⟨"B", ⟨0, 0, 110, .unused, .free⟩⟩, ⟨"C", ⟨0, 0, 105, .unused, .free⟩⟩]
    clusters := [⟨none, ⟨0, 0, #[]⟩, []⟩,
                 ⟨none, ⟨3, 1, #[4, 1, 4, 0, 4]⟩,
                  [PE.Ex.hd true 0 2 (1001/100), PE.Ex.hd true 2 3 (-499/100), PE.Ex.hd true 0 3 (503/100)]⟩] }

/-- the physical deletion drops `U` and the empty cluster and renames 2 ↦ 1, 3 ↦ 2 -/
example : (RevPE.physDel phNet).points.map (·.id) = ["A", "B", "C"] ∧
    (RevPE.physDel phNet).clusters.map (fun c => c.obs.map fun o => [o.pfrom, o.pto, o.pfs]) =
      [[[0, 1, 0], [1, 2, 0], [0, 2, 0]]] ∧
    [RevPE.gPt phNet 0, RevPE.gPt phNet 2, RevPE.gPt phNet 3, RevPE.gCl phNet 1] = [0, 1, 2, 0] := by decide +kernel

attribute [local instance] PE.Ex.trigQ in
/-- both assemble (3 equations, 2 unknowns), and the whole calls give the same answers -/
example : (match PE.assemble phNet with | .ok a => some [a.np.m, a.np.n] | .error _ => none) = some [3, 2] ∧
    (match PE.assemble (RevPE.physDel phNet) with | .ok a => some [a.np.m, a.np.n] | .error _ => none) = some [3, 2] := by
  decide +kernel
attribute [local instance] PE.Ex.trigQ in
example : answerOf .env (PE.projectEquations (RevPE.physDel phNet)) = answerOf .env (PE.projectEquations phNet) := by
  decide +kernel
attribute [local instance] PE.Ex.trigQ in
example : answerOf .chol (PE.projectEquations (RevPE.physDel phNet)) = answerOf .chol (PE.projectEquations phNet) := by
  decide +kernel

/-- the revision is stable on `phNet` and on its physical deletion (hypotheses `hst`, `hrev'`) -/
example : PE.revise phNet = phNet ∧ PE.revise (RevPE.physDel phNet) = RevPE.physDel phNet := by
  constructor <;> rfl
attribute [local instance] PE.Ex.trigQ in
/-- … and the call on `phNet` is one inner call: nothing removed, flags unchanged -/
example : (match PE.projectEquations phNet with
      | .ok (_, u) => some (u.removed, u.net.clusters.map (fun c => c.obs.map (·.active)))
      | .error _ => none) = some ([], [[], [true, true, true]]) := by decide +kernel

/-- `RolesKept phNet` (round 12's hypothesis, no longer needed): the slots of the three revised observations
    are positions 0, 2, 3 -/
example : RevPE.RolesKept phNet := by
  intro ob hob
  have hl : PE.revisedObs phNet = [⟨.h_diff, 1, 0, 2, 0, 1001/100⟩, ⟨.h_diff, 1, 2, 3, 0, -499/100⟩,
      ⟨.h_diff, 1, 0, 3, 0, 503/100⟩] := rfl
  rw [hl] at hob
  simp only [List.mem_cons, List.not_mem_nil, or_false] at hob
  rcases hob with rfl | rfl | rfl <;>
    refine ⟨fun i hi => ?_, ⟨_, rfl, rfl⟩⟩ <;>
    simp only [List.mem_cons, List.not_mem_nil, or_false] at hi <;>
    rcases hi with rfl | rfl | rfl <;> exact ⟨_, rfl, rfl⟩

attribute [local instance] PE.Ex.trigQ in
/-- `C14_pe_solution_equals_physical_deletion` on round 8's `corNet` (tridiagonal block, one observation off, a
    cluster emptied by the revision): the physically deleted input has ONE cluster (`CovMat(3,1)`), and the whole
    call on it gives the answers of the call on `corNet` -/
example : ((leftNet (PE.projectEquations corNet)).map fun n =>
      (RevPE.physDel { RevPE.delObs n with idx := ⟨0, []⟩ }).clusters.map fun c => c.cov.buf.toList) =
    some [[4, 1, 4, 0, 4]] := by decide +kernel
attribute [local instance] PE.Ex.trigQ in
example : answerOf .env (PE.projectEquations (RevPE.physDel corDel)) = answerOf .env (PE.projectEquations corNet) := by
  decide +kernel

/-- **second limitation, evaluated**: `corDel` with a point `D` whose xy group is free and which no observation
    names (a point `singular_coords` removed, left in the file with its status) -/
def corFree : PE.Net Rat :=
  { corDel with points := corDel.points ++ [⟨"D", ⟨1, 2, 0, .free, .unused⟩⟩] }

attribute [local instance] PE.Ex.trigQ in
/-- the call removes `D` again (`index_x = 0` ⇒ `singular_coords` ⇒ a SECOND inner call), `corDel` needs one
    inner call and removes nothing; the answers are the same -/
example : (match PE.projectEquations corFree with | .ok (_, u) => some u.removed | .error _ => none) = some ["D"] ∧
    (match PE.projectEquations corDel with | .ok (_, u) => some u.removed | .error _ => none) = some [] := by
  decide +kernel
attribute [local instance] PE.Ex.trigQ in
example : answerOf .env (PE.projectEquations corFree) = answerOf .env (PE.projectEquations corDel) := by decide +kernel

end Gama.Props.C14
