/-
  C18 — the ellipsoid table of the code (lib/gnu_gama/ellipsoids.{h,cpp}, regenerated into
  Gen/Ellipsoids.lean) says what the project publishes (xml/ellipsoids.xml, regenerated into
  Gen/EllipsoidsPublished.lean by tools/gen/c18_published.py).  The two texts were typed independently;
  a changed digit, caption or id in either of them breaks `C18_table_is_published`.

  `GeoPublished.val (m, d) = m / 10^d : ℚ` is the value of a decimal literal (`300.0` = `300`).
  On the present tree the two lists agree entry by entry (48 of 48, same order), so
  `C18_table_published_differences` states that the list of differing rows is empty.
-/
import Gama.Lemmas.GeoPublished

namespace Gama.Props.C18Published
open Gama.GeoPublished

/-- every row of the code table is a published entry: same id, same caption, same semi-major axis,
    and the second argument of the row's setter (`b` for set_ab, `f` for set_af, `1/f` for set_af1)
    is written in the publication with the same value -/
theorem C18_table_is_published :
    ∀ r ∈ Gen.ellipsoidTable, ∃ q ∈ Gen.publishedEllipsoids,
      q.id = r.id ∧ q.caption = r.caption ∧
      (∃ x, q.a = some x ∧ val x = val r.a) ∧
      (∃ x, (match r.kind with | .ab => q.b | .af => q.f | .af1 => q.f1) = some x ∧ val x = val r.p) := by
  intro r hr
  obtain ⟨q, hq, h1, h2, h3, h4⟩ := (tableIsPublished_iff _ _).1 table_is_published_check r hr
  refine ⟨q, hq, h1, h2, h3, ?_⟩
  cases hk : r.kind <;> rw [hk] at h4 <;> exact h4

/-- the rows of the code table that are not published as they stand: none.  (Stated on the filter so
    that a new difference makes this list non-empty and the proof fail.) -/
theorem C18_table_published_differences :
    (Gen.ellipsoidTable.filter fun r => !(Gen.publishedEllipsoids.any fun q => publishes q r)).map (·.id) = [] := by
  decide +kernel

/-- the converse: every published entry is a row of the code table -/
theorem C18_published_is_in_table :
    ∀ q ∈ Gen.publishedEllipsoids, ∃ r ∈ Gen.ellipsoidTable, Publishes q r :=
  (publishedIsInTable_iff _ _).1 published_is_in_table_check

/-- the two lists are the same list: equal length, and the k-th published entry is the k-th row of
    the code table (enum value k+1) -/
theorem C18_published_same_order :
    List.Forall₂ Publishes Gen.publishedEllipsoids Gen.ellipsoidTable ∧
    Gen.ellipsoidTable.map (·.num) = (List.range Gen.publishedEllipsoids.length).map (· + 1) :=
  ⟨(alignedCheck_iff _ _).1 aligned_check, by decide +kernel⟩

/-- the published ids are pairwise different, so the entry of `C18_table_is_published` is unique -/
theorem C18_published_ids_distinct : (Gen.publishedEllipsoids.map (·.id)).Nodup := published_ids_nodup

/-- Self-consistency of the publication (b = a(1−f), f·f1 = 1) would concern entries that write more
    than two of a, b, f, f1.  There is no such entry: every entry writes `a` and exactly one of
    b / f / f1, so there is nothing over-determined to check. -/
theorem C18_published_two_parameters :
    ∀ q ∈ Gen.publishedEllipsoids, q.a.isSome = true ∧ given q = 2 := by
  intro q hq
  have h := List.all_eq_true.1 published_two_parameters q hq
  simpa using h

/-- `Ellipsoid::Ellipsoid()` (set_af1(6378137, 298.257223563)) is the published entry `wgs84` -/
theorem C18_default_is_published :
    ∃ q ∈ Gen.publishedEllipsoids, q.id = "wgs84" ∧
      (∃ x, q.a = some x ∧ val x = val Gen.defaultEllipsoid.a) ∧
      (∃ x, q.f1 = some x ∧ val x = val Gen.defaultEllipsoid.p) ∧ Gen.defaultEllipsoid.kind = .af1 := by
  obtain ⟨q, hq, h⟩ := List.any_eq_true.1 default_is_published_check
  have hk : Gen.defaultEllipsoid.kind = .af1 := by decide
  simp only [Bool.and_eq_true, beq_iff_eq, hasVal_iff, hk, second] at h
  exact ⟨q, hq, h.1.1, h.1.2, h.2, hk⟩

/-- literals are compared by value: `300.0` and `300` are the same number, `300.0` and `300.1` are not -/
theorem C18_literal_value (x y : Nat × Nat) : sameVal x y = true ↔ val x = val y := sameVal_iff x y

-- non-vacuity: both lists have 48 entries; the first row is found in the publication
example : Gen.ellipsoidTable.length = 48 ∧ Gen.publishedEllipsoids.length = 48 := by decide
example : ∃ r ∈ Gen.ellipsoidTable, r.id = "andrae1876" ∧ r.p = (3000, 1) := by decide
example : publishes ⟨"andrae1876", "Andrae 1876 (Denmark, Iceland)", some (637710443, 2), none, none, some (300, 0)⟩
    ⟨4, "andrae1876", "Andrae 1876 (Denmark, Iceland)", .af1, (637710443, 2), (3000, 1)⟩ = true := by decide
example : val (3000, 1) = val (300, 0) := (sameVal_iff _ _).1 (by decide)
example : val (3000, 1) ≠ val (3001, 1) := fun h => absurd ((sameVal_iff _ _).2 h) (by decide)

-- NEG: the checker rejects a copy of the wgs84 row with the typo 6378137 → 6378173 …
example : tableIsPublished [⟨48, "wgs84", "World Geodetic System 1984", .af1, (6378173, 0), (298257223563, 9)⟩]
    Gen.publishedEllipsoids = false := by decide +kernel
-- … accepts the row as it is …
example : tableIsPublished [⟨48, "wgs84", "World Geodetic System 1984", .af1, (6378137, 0), (298257223563, 9)⟩]
    Gen.publishedEllipsoids = true := by decide +kernel
-- … rejects a changed digit of 1/f, a changed caption, the wrong setter, an unknown id
example : tableIsPublished [⟨48, "wgs84", "World Geodetic System 1984", .af1, (6378137, 0), (298257223565, 9)⟩]
    Gen.publishedEllipsoids = false := by decide +kernel
example : tableIsPublished [⟨48, "wgs84", "World Geodetic System 1985", .af1, (6378137, 0), (298257223563, 9)⟩]
    Gen.publishedEllipsoids = false := by decide +kernel
example : tableIsPublished [⟨48, "wgs84", "World Geodetic System 1984", .af, (6378137, 0), (298257223563, 9)⟩]
    Gen.publishedEllipsoids = false := by decide +kernel
example : tableIsPublished [⟨48, "wgs85", "World Geodetic System 1984", .af1, (6378137, 0), (298257223563, 9)⟩]
    Gen.publishedEllipsoids = false := by decide +kernel
-- … and the whole table with that one typo in the row `grs80` is rejected
example : tableIsPublished (Gen.ellipsoidTable.map fun r => if r.id = "grs80" then { r with a := (6378173, 0) } else r)
    Gen.publishedEllipsoids = false := by decide +kernel

end Gama.Props.C18Published
