/-
  C02 — the four algorithms give the same adjustment: the two clauses that had no theorem
  (notes/CLAUSES.md, C02 rows 1 and 5).

    * clause 5 "same cofactors of the unknowns":  `C02_same_cofactors` (SPEC) — for `N = AᵀPA`
      and a subset `S` that resolves the defect there is at most ONE symmetric reflexive
      generalised inverse of `N` that belongs to `S`; instantiated for Gram–Schmidt ↔ envelope
      (`C03_gso`, `C03_gso_belongs`, `C03_envelope_cofactors_weighted`) and Gram–Schmidt ↔ SVD
      (`C03_svd_cert`): `q_xx(i,j)` agree for ALL index pairs.
    * clause 1 "same defect": `defect + rank A = n` for each solver (`C01_gso_minimal`,
      `C20_env_defect_rank`, `C20_svd_count`).

  Scalars and hypotheses exactly as in `Props/C02Pairs.lean`: an ordered field with a square root
  (`Gso.SqrtField`), all models at `fieldScalar SqrtField.sqrt`; the envelope model with unit
  weights (`At = A = p.dense`, `W = 1`) and any ordering.  The Cholesky pairs are in
  `Props/C02CofactorsChol.lean`.
-/
import Gama.Props.C01.Gso
import Gama.Props.C03.Gso
import Gama.Props.C03.Svd
import Gama.Props.C03.EnvBelongs
import Gama.Props.C20.Env
import Gama.Props.C20.Svd
import Gama.Lemmas.Ls.ComposeGinvUnique
import Gama.Lemmas.Ls.ComposeEnvBelongs
namespace Gama.Props.C02
open Gama Gama.Ls Gama.LS Gama.Ls.Gso Gama.Ls.Env Matrix

set_option linter.unusedSectionVars false

variable {K : Type} [Field K] [LinearOrder K] [IsStrictOrderedRing K]

/-- **C02 clause 5 (SPEC)**: two symmetric reflexive generalised inverses of `N = AᵀPA`
    (`P` symmetric positive definite) that both belong to a subset `S` resolving the defect of `A`
    (`BelongsTo A S Q`: every `Q y` is `S`-orthogonal to `ker A`) are EQUAL — whatever algorithm
    produced them -/
theorem C02_same_cofactors {m n : Type*} [Fintype m] [Fintype n] [DecidableEq n]
    {A : Matrix m n K} {P : Matrix m m K} (hP : Pᵀ = P) (hpd : ∀ d, d ≠ 0 → 0 < d ⬝ᵥ P *ᵥ d)
    {S : Finset n} (hS : Resolves A S) {Q₁ Q₂ : Matrix n n K}
    (h1 : (Aᵀ * P * A) * Q₁ * (Aᵀ * P * A) = Aᵀ * P * A) (r1 : Q₁ * (Aᵀ * P * A) * Q₁ = Q₁) (s1 : Q₁ᵀ = Q₁)
    (b1 : ∀ y g, A *ᵥ g = 0 → ∑ i ∈ S, (Q₁ *ᵥ y) i * g i = 0)
    (h2 : (Aᵀ * P * A) * Q₂ * (Aᵀ * P * A) = Aᵀ * P * A) (r2 : Q₂ * (Aᵀ * P * A) * Q₂ = Q₂) (s2 : Q₂ᵀ = Q₂)
    (b2 : ∀ y g, A *ᵥ g = 0 → ∑ i ∈ S, (Q₂ *ᵥ y) i * g i = 0) : Q₁ = Q₂ :=
  ginv_belongs_unique hP hpd hS h1 r1 s1 b1 h2 r2 s2 b2

variable [SqrtField K]

/-- **gso = envelope, cofactors of the unknowns** (unit weights; any ordering): on every
    unambiguous problem whose regularisation subset resolves the defect the two models answer the
    same `q_xx(i,j)` for ALL index pairs -/
theorem C02_same_cofactors_gso_env (p : Problem K) (hUg : Gso.Unambiguous p) (tol stol : K) (o : EnvOrd)
    (hO : OrdOK p.n o)
    (hU : FactUnambiguous (SqrtField.sqrt : K → K) tol p.m p.n p.dense p.rhs o) (htol : 0 < tol) (hstol : 0 < stol)
    (hreg : Env.RegOK p.n o p.reg (p.reg.toFinset p.n)) (hS : Resolves p.A p.S)
    (a : Answer K) (h : gsoSolve p = .ok a) {x : Array K}
    (hx : (@envCore K (Gama.LS.fieldScalar SqrtField.sqrt) tol stol p.m p.n p.dense p.rhs p.dense p.rhs p.reg o).x = .ok x)
    (i j : Fin p.n) :
    a.qxx (i + 1) (j + 1)
      = (@envCore K (Gama.LS.fieldScalar SqrtField.sqrt) tol stol p.m p.n p.dense p.rhs p.dense p.rhs p.reg o).qxx
          (i + 1) (j + 1) := by
  have hsq : IsSqrt (SqrtField.sqrt : K → K) :=
    ⟨fun x hx => (SqrtField.sqrt_spec x hx).1, fun x hx => (SqrtField.sqrt_spec x hx).2⟩
  obtain ⟨Q, e1, e2, e3, e4, -, e6, -⟩ :=
    Gama.Props.C03.C03_envelope_cofactors_weighted (SqrtField.sqrt : K → K) hsq tol stol p.m p.n p.dense p.rhs
      p.dense p.rhs p.reg o hO hU htol hstol (P := 1) (W := 1) (by simp) (by intro d hd; simpa using hd)
      (by simp) hreg hx
  obtain ⟨g1, -, g3, g4⟩ := Gama.Props.C03.C03_gso p hUg
  have hA : toMatrix p.m p.n p.dense = p.A := rfl
  rw [hA] at e3 e4 e6
  have hN : (p.A)ᵀ * p.A = (p.A)ᵀ * (1 : Matrix (Fin p.m) (Fin p.m) K) * p.A := by rw [Matrix.mul_one]
  rw [hN] at g3 g4
  have hQ : gsoC p * (gsoC p)ᵀ = Q :=
    ginv_belongs_unique one_symm one_pd hS g3 g4 g1 (Gama.Props.C03.C03_gso_belongs p hUg) e3 e4 e2 e6
  rw [(Gama.Props.C03.C03_gso_entries p hUg a h).1 i j, e1 i j, hQ]

/-- **gso = svd, cofactors of the unknowns**, the SVD factorisation being certified (`SvdCert`) -/
theorem C02_same_cofactors_gso_svd (p : Problem K) (hUg : Gso.Unambiguous p) (fixed : Bool) {tol : K} (htol : 0 ≤ tol)
    (d : Svd.Dec K) (hc : Svd.SvdCert (SqrtField.sqrt : K → K) tol p.m p.n p.dense d) (hreg : Svd.RegOK p.reg)
    (hS : Resolves p.A p.S) (a a' : Answer K) (h : gsoSolve p = .ok a)
    (h' : @svdSolveCert K (Gama.LS.fieldScalar SqrtField.sqrt) fixed tol d p = .ok a') (i j : Fin p.n) :
    a.qxx (i + 1) (j + 1) = a'.qxx (i + 1) (j + 1) := by
  have hs : Svd.SqrtLaw (SqrtField.sqrt : K → K) :=
    ⟨fun x hx => (SqrtField.sqrt_spec x hx).1, fun x hx => (SqrtField.sqrt_spec x hx).2⟩
  obtain ⟨Q, _, _, e1, -, -, -, e2, -, e3, e4, -, e6, -⟩ :=
    Gama.Props.C03.C03_svd_cert hs fixed htol p d hc hreg a' h'
  obtain ⟨g1, -, g3, g4⟩ := Gama.Props.C03.C03_gso p hUg
  have hN : (p.A)ᵀ * p.A = (p.A)ᵀ * (1 : Matrix (Fin p.m) (Fin p.m) K) * p.A := by rw [Matrix.mul_one]
  have e3' : ((p.A)ᵀ * (1 : Matrix (Fin p.m) (Fin p.m) K) * p.A) * Q * ((p.A)ᵀ * (1 : Matrix (Fin p.m) (Fin p.m) K) * p.A) = (p.A)ᵀ * (1 : Matrix (Fin p.m) (Fin p.m) K) * p.A := by rw [← hN]; exact e3
  have e4' : Q * ((p.A)ᵀ * (1 : Matrix (Fin p.m) (Fin p.m) K) * p.A) * Q = Q := by rw [← hN]; exact e4
  rw [hN] at g3 g4
  have hQ : gsoC p * (gsoC p)ᵀ = Q :=
    ginv_belongs_unique one_symm one_pd hS g3 g4 g1 (Gama.Props.C03.C03_gso_belongs p hUg) e3' e4' e2 e6
  rw [(Gama.Props.C03.C03_gso_entries p hUg a h).1 i j, e1 i j, hQ]

/-- **gso = envelope, defect** (unit weights; any ordering): both report `n − rank A` -/
theorem C02_same_defect_gso_env (p : Problem K) (hUg : Gso.Unambiguous p) (tol stol : K) (o : EnvOrd)
    (hO : OrdOK p.n o)
    (hU : FactUnambiguous (SqrtField.sqrt : K → K) tol p.m p.n p.dense p.rhs o) (htol : 0 < tol)
    (a : Answer K) (h : gsoSolve p = .ok a) :
    a.defect
      = (@envCore K (Gama.LS.fieldScalar SqrtField.sqrt) tol stol p.m p.n p.dense p.rhs p.dense p.rhs p.reg o).defect := by
  have h1 := (Gama.Props.C01.C01_gso_minimal p hUg a h).2.2.2.2.2
  have h2 := Gama.Props.C20.C20_env_defect_rank (SqrtField.sqrt : K → K) tol stol p.m p.n p.dense p.rhs
    p.dense p.rhs p.reg o hO hU htol
  have hA : toMatrix p.m p.n p.dense = p.A := rfl
  rw [hA] at h2
  omega

/-- **gso = svd, defect**: both report `n − rank A` -/
theorem C02_same_defect_gso_svd (p : Problem K) (hUg : Gso.Unambiguous p) (fixed : Bool) {tol : K} (htol : 0 ≤ tol)
    (d : Svd.Dec K) (hc : Svd.SvdCert (SqrtField.sqrt : K → K) tol p.m p.n p.dense d) (hreg : Svd.RegOK p.reg)
    (a a' : Answer K) (h : gsoSolve p = .ok a)
    (h' : @svdSolveCert K (Gama.LS.fieldScalar SqrtField.sqrt) fixed tol d p = .ok a') :
    a.defect = a'.defect := by
  have hs : Svd.SqrtLaw (SqrtField.sqrt : K → K) :=
    ⟨fun x hx => (SqrtField.sqrt_spec x hx).1, fun x hx => (SqrtField.sqrt_spec x hx).2⟩
  have h1 := (Gama.Props.C01.C01_gso_minimal p hUg a h).2.2.2.2.2
  have h2 := Gama.Props.C20.C20_svd_count hs fixed htol p d hc hreg a' h'
  have hA : @Problem.A K (Gama.LS.fieldScalar SqrtField.sqrt) p = p.A := rfl
  rw [hA] at h2
  omega

/-! ### non-vacuity -/

/-- `C02_same_cofactors` on a genuinely singular weighted instance over ℚ (the 4 × 3 problem of
    `Lemmas/LS/Example.lean`: rank 2, kernel `span (1,1,−1)`, `P = diag(1,4,1,1/4)`), `S = {0,1}` a
    PROPER subset that resolves the defect.  All hypotheses are witnessed: `P` symmetric positive
    definite, `Resolves A S`, and for BOTH matrices `N Q N = N`, `Q N Q = Q`, `Qᵀ = Q`,
    `BelongsTo A S Q`, where the two matrices come from two different-looking computations:
    `T Q' Tᵀ` (`Q'` the g-inverse that fixes `x₃`, `T = I − g hᵀ/2` the `S`-projector — what the
    envelope and Cholesky solvers do) and the bordering formula `(N + h hᵀ)⁻¹ − g gᵀ/4`.
    The theorem then gives their equality. -/
example : Ex.Tm * Ex.Q' * Ex.Tmᵀ = (Ex.N + Ex.Hb)⁻¹ - (1/4 : ℚ) • Ex.GG := by
  have e1 : Ex.Tm * Ex.Q' * Ex.Tmᵀ = Ex.Q := Ex.TQ'T_eq
  have e2 : (Ex.N + Ex.Hb)⁻¹ - (1/4 : ℚ) • Ex.GG = Ex.Q := Ex.bordered_eq
  have hN := Ex.N_eq
  refine C02_same_cofactors (A := Ex.A) (P := Ex.P) (S := Ex.S) Ex.P_symm Ex.P_pd Ex.S_resolves
    ?_ ?_ ?_ ?_ ?_ ?_ ?_ ?_
  · rw [e1, hN]; exact Ex.Q_ginv
  · rw [e1, hN]; exact Ex.Q_refl
  · rw [e1]; exact Ex.Q_symm
  · rw [e1]; exact Ex.Q_belongs
  · rw [e2, hN]; exact Ex.Q_ginv
  · rw [e2, hN]; exact Ex.Q_refl
  · rw [e2]; exact Ex.Q_symm
  · rw [e2]; exact Ex.Q_belongs

/-- the hypothesis "belongs to `S`" cannot be dropped: on the same instance `Q'` is another
    symmetric reflexive g-inverse of `N`, different from `Q`; it belongs to `S' = {2}`, not to `S` -/
example : Ex.N * Ex.Q' * Ex.N = Ex.N ∧ Ex.Q' * Ex.N * Ex.Q' = Ex.Q' ∧ Ex.Q'ᵀ = Ex.Q' ∧ Ex.Q ≠ Ex.Q'
    ∧ ¬ BelongsTo Ex.A Ex.S Ex.Q' ∧ BelongsTo Ex.A Ex.S' Ex.Q' :=
  ⟨Ex.Q'_ginv, Ex.Q'_refl, Ex.Q'_symm, Ex.Q_ne_Q', Ex.Q'_not_belongs, Ex.Q'_belongs'⟩

/-- the Gram–Schmidt side of the pair theorems: over ℝ the singular 2 × 2 problem `Ex.pR`
    (`A = [1 1; 0 0]`, `S = {1}`, defect 1) meets `Gso.Unambiguous` and is answered; `ℝ` is a
    `SqrtField`.  (The envelope-side hypotheses `OrdOK`, `FactUnambiguous`, `RegOK`, "answers" are
    witnessed over ℚ in `Props/C03/EnvBelongs.lean`, the SVD-side `SvdCert`, `RegOK` over ℝ in
    `Props/C03/Svd.lean`; no single instance witnesses both sides of a pair at once.) -/
example : Gso.Unambiguous Gso.Ex.pR ∧ ∃ a, gsoSolve Gso.Ex.pR = .ok a ∧ a.defect = 1 := by
  obtain ⟨a, h2, _, _, h5, _⟩ := Gso.Ex.pR_answers
  exact ⟨Gso.Ex.pR_unambiguous, a, h2, h5⟩

end Gama.Props.C02
