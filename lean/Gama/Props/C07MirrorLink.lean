/-
  C07 — `C07_mirror_sigma` instantiated at what the two calls of `project_equations()` hand over, with the row signs of
  `C07_mirror_of_pass` (round 11).
-/
import Gama.Props.C07Mirror
import Gama.Props.C07MirrorSigma
import Gama.Lemmas.C07MirrorLink
import Gama.Lemmas.C07MirrorGlue
namespace Gama.Props.C07MirrorLink
open Gama Gama.Lin Gama.PE Gama.C07Mir Gama.C07Link Gama.Ls Gama.Ls.Net Gama.Cov.YSign
attribute [local instance 2000] scalarOfField

/-- **the row sign by cluster position is the row sign by class**: for a problem assembled from `net`
    (`np.clusters = npClusters net`), the sign `rowSig` that `C07_mirror_sigma` conjugates the covariance matrix with is,
    for every row `s`, `kSgn` of the class of the `s`-th revised observation — the `D_s` of `C07_mirror_of_pass` -/
theorem C07_row_sign_link [SqrtFn ℝ] (net : PE.Net ℝ) (np : NetProblem ℝ) (h : np.clusters = npClusters net) :
    (dimsN np).sum = (revisedObs net).length ∧
    ∀ s : Nat, s < (revisedObs net).length →
      (C07Sig.rowSig (signedClusters net) (dimsN np) s : ℝ) = kSgn (((revisedObs net).map (·.kind)).getD s .distance) := by
  have hd := dimsN_of_clusters net np h
  exact ⟨by rw [hd]; exact dims_sum net, fun s hs => rowSig_eq_kSgn net _ hd s hs⟩

/-- **`Σ' = D_s Σ D_s` for what the two calls hand over.**  `(np, u)`, `(np', u')` the outputs of `project_equations()` on
    `net` and on its mirrored description; every cluster a well-formed band matrix of the dimension of its observation
    list (the parser's guarantee).  Then the covariance matrices of the active observations — the matrices the
    `LocalNetwork` theorems of C01 / C03 / C09 take their weights from — satisfy
    `Σ'(s,t) = s_s · Σ(s,t) · s_t` with `s_i = kSgn` of the class of the `i`-th revised observation: EXACTLY the `D_s` of
    `C07_mirror_of_pass` / `C07_mirror_of_project_equations_partial`; both problems have the same block dimensions,
    `Σ dims = m`, and the same `m_0_apr_` (so the cofactor matrices `Σ/m0²` are conjugate too, and
    `Σ Pc = 1 ⇒ Σ' (D_s Pc D_s) = 1`: the weights `D_s P D_s` of the mirror theorem are the weights of the mirrored
    description).  Hypothesis `hdeg` as in `C07_mirror_same_course`. -/
theorem C07_mirror_sigma_of_project_equations [SqrtFn ℝ] (hdeg : DegenInv) (net : PE.Net ℝ) (np np' : NetProblem ℝ)
    (u u' : Unknowns ℝ) (hall : RegAll net) (hwfN : WfAll net)
    (hpe : projectEquations net = .ok (np, u)) (hpe' : projectEquations (mirNet net) = .ok (np', u'))
    (hwf : ∀ c ∈ u.net.clusters, c.cov.WF ∧ c.cov.dim = c.obs.length) :
    ∃ hm : np'.m = np.m, np'.m0 = np.m0 ∧ dimsN np' = dimsN np ∧ (dimsN np).sum = np.m ∧
      ∀ s t : Fin np.m, Sigma np' (Fin.cast hm.symm s) (Fin.cast hm.symm t) =
        kSgn (((revisedObs u.net).map (·.kind)).getD s.val .distance) * Sigma np s t *
          kSgn (((revisedObs u.net).map (·.kind)).getD t.val .distance) := by
  obtain ⟨b, b', Pb, _, hm, _, _, _, hc, hc', _⟩ :=
    Props.C07Mirror.C07_mirror_of_project_equations_partial hdeg net np np' u u' hall hwfN hpe hpe'
  obtain ⟨hi, _, _, _⟩ := Props.C07Mirror.C07_mirror_same_course hdeg net np np' u u' hall hwfN hpe hpe'
  have h1 : np.clusters = (signedClusters u.net).map (·.2) := by rw [hc, clusters_signed]
  have h2 : np'.clusters = (signedClusters u.net).map C07Sig.conj := by rw [hc', clusters_conj]
  have hlen : (revisedObs u.net).length = np.m := Pb.m.symm
  obtain ⟨hL1, hL2⟩ := C07_row_sign_link u.net np hc
  have hdim : (dimsN np).sum = np.m := by rw [hL1, hlen]
  have hwfL : ∀ p ∈ signedClusters u.net, p.2.cov.WF ∧ p.2.cov.dim ≤ p.1.length ∧ p.2.active.length ≤ p.2.cov.dim := by
    intro p hp
    unfold signedClusters at hp
    obtain ⟨c, hcm, rfl⟩ := List.mem_map.1 hp
    obtain ⟨w, d⟩ := hwf c hcm
    refine ⟨w, ?_, ?_⟩
    · show c.cov.dim ≤ (msOf c).length
      unfold msOf; rw [List.length_map, d]
    · show (c.obs.map (·.active)).length ≤ c.cov.dim
      rw [List.length_map, d]
  obtain ⟨hd', _, hS⟩ := Props.C07MirrorSigma.C07_mirror_sigma np np' (signedClusters u.net) h1 h2 hm hdim hwfL
  refine ⟨hm, ?_, hd', hdim, ?_⟩
  · rw [pe_m0 _ _ _ hpe', pe_m0 _ _ _ hpe, hi]; rfl
  · intro s t
    rw [hS s t, hL2 s.val (by rw [hlen]; exact s.isLt), hL2 t.val (by rw [hlen]; exact t.isLt)]

/-- **`DegenInv` is a theorem**: for every network with regular observations and well-formed cluster matrices, the
    numeric half of `singular_coords` (`1 − |ab|/√(aa·bb) < 1e-12` on the x and y columns of a point in the HOMOGENISED
    matrix) gives the same verdict in the inner call on the mirrored description as in the inner call on the original
    (`A_homᵀ A_hom = Aᵀ P A`; under the mirror `D_t (Aᵀ P A) D_t`; `aa`, `bb` unchanged, `|ab|` unchanged) -/
theorem C07_degen_inv : DegenInv := C07Glue.degenInv

/-- **mirror, for what `project_equations()` hands over — FULL.**  `net` any network whose observations are regular at
    the approximate coordinates (`RegAll`: no sight shorter than the cut-off — there the generated rows are not the closed
    forms) and whose clusters carry well-formed band matrices of the dimension of their observation lists (`WfAll`: the
    parser's guarantee); both calls return.  Then (any depth of the `singular_coords` recursion) both calls take the same
    course, hand over systems with the same numbering, the same `min_x_`, `A' = D_s A D_t`, `b' = D_s b`, the conjugated
    clusters (`Σ' = D_s Σ D_s`: `C07_mirror_sigma_of_project_equations`), and every least-squares solution of the one
    is carried over to the other.  The one remaining visible hypothesis inside is `hnb`: an angular right-hand side
    exactly at `+200 gon` (the closed end of the window `(−200, 200]`) is mapped to `+200 gon`, not to `−200 gon`
    (`wrap_neg`), so `b' = D_s b` fails exactly there. -/
theorem C07_mirror_of_project_equations (net : PE.Net ℝ) (np np' : NetProblem ℝ) (u u' : Unknowns ℝ)
    (hall : RegAll net) (hwf : WfAll net)
    (hpe : projectEquations net = .ok (np, u)) (hpe' : projectEquations (mirNet net) = .ok (np', u')) :
    (u'.net = { mirNet u.net with idx := u.net.idx } ∧ u'.removed = u.removed ∧ np'.minx = np.minx ∧ RegAll u.net) ∧
    ∃ b b' : PassOut ℝ, Pass np u b ∧ Pass np' u' b' ∧ np'.m = np.m ∧ np'.n = np.n ∧ np'.minx = np.minx ∧
      b'.idx = b.idx ∧ np.clusters = npClusters u.net ∧ np'.clusters = npClusters (mirNet u.net) ∧
      ∀ (hnb : ∀ i : Fin (revisedObs u.net).length,
          (toRK (revisedObs u.net)[i].kind).angular = true → b.rhs.getD i.val 0 ≠ Lin.HALF)
        (P : Matrix (Fin (revisedObs u.net).length) (Fin (revisedObs u.net).length) ℝ) (S : Finset (Fin b.idx.maxn))
        (x : Fin b.idx.maxn → ℝ) (v : Fin (revisedObs u.net).length → ℝ) (rtr : ℝ)
        (h : LS.IsLSSolution (C06FP.passMatrix b (revisedObs u.net).length)
          (fun i : Fin (revisedObs u.net).length => b.rhs.getD i.val 0) P S x v rtr),
        ∃ e : Fin b'.idx.maxn ≃ Fin b.idx.maxn, (∀ j, (e j).val = j.val) ∧
          C06FP.passMatrix b' (revisedObs u.net).length =
            (Matrix.diagonal (fun i : Fin (revisedObs u.net).length => kSgn (revisedObs u.net)[i].kind) *
              C06FP.passMatrix b (revisedObs u.net).length *
              Matrix.diagonal (fun j : Fin b.idx.maxn => colSgn b.idx j.val)).submatrix id e ∧
          (fun i : Fin (revisedObs u.net).length => b'.rhs.getD i.val 0) =
            Matrix.mulVec (Matrix.diagonal (fun i : Fin (revisedObs u.net).length => kSgn (revisedObs u.net)[i].kind))
              (fun i : Fin (revisedObs u.net).length => b.rhs.getD i.val 0) ∧
          LS.IsLSSolution (C06FP.passMatrix b' (revisedObs u.net).length)
            (fun i : Fin (revisedObs u.net).length => b'.rhs.getD i.val 0)
            (Matrix.diagonal (fun i : Fin (revisedObs u.net).length => kSgn (revisedObs u.net)[i].kind) * P *
              Matrix.diagonal (fun i : Fin (revisedObs u.net).length => kSgn (revisedObs u.net)[i].kind))
            (S.map e.symm.toEmbedding)
            ((Matrix.mulVec (Matrix.diagonal (fun j : Fin b.idx.maxn => colSgn b.idx j.val)) x) ∘ e)
            (Matrix.mulVec (Matrix.diagonal (fun i : Fin (revisedObs u.net).length => kSgn (revisedObs u.net)[i].kind)) v)
            rtr :=
  ⟨Props.C07Mirror.C07_mirror_same_course C07Glue.degenInv net np np' u u' hall hwf hpe hpe',
   Props.C07Mirror.C07_mirror_of_project_equations_partial C07Glue.degenInv net np np' u u' hall hwf hpe hpe'⟩

/-- **`Σ' = D_s Σ D_s` at the outputs, without `hdeg`** -/
theorem C07_mirror_sigma_of_project_equations_full [SqrtFn ℝ] (net : PE.Net ℝ) (np np' : NetProblem ℝ)
    (u u' : Unknowns ℝ) (hall : RegAll net) (hwfN : WfAll net)
    (hpe : projectEquations net = .ok (np, u)) (hpe' : projectEquations (mirNet net) = .ok (np', u'))
    (hwf : ∀ c ∈ u.net.clusters, c.cov.WF ∧ c.cov.dim = c.obs.length) :
    ∃ hm : np'.m = np.m, np'.m0 = np.m0 ∧ dimsN np' = dimsN np ∧ (dimsN np).sum = np.m ∧
      ∀ s t : Fin np.m, Sigma np' (Fin.cast hm.symm s) (Fin.cast hm.symm t) =
        kSgn (((revisedObs u.net).map (·.kind)).getD s.val .distance) * Sigma np s t *
          kSgn (((revisedObs u.net).map (·.kind)).getD t.val .distance) :=
  C07_mirror_sigma_of_project_equations C07Glue.degenInv net np np' u u' hall hwfN hpe hpe' hwf

end Gama.Props.C07MirrorLink
