/-
  C07 — `C07_mirror_sigma` instantiated at what the two calls of `project_equations()` hand over, with the row signs of
  `C07_mirror_of_pass` (round 11).
-/
import Gama.Props.C07Mirror
import Gama.Props.C07MirrorSigma
import Gama.Lemmas.C07MirrorLink
namespace Gama.Props.C07MirrorLink
open Gama Gama.Lin Gama.PE Gama.C07Mir Gama.C07Link Gama.Ls Gama.Ls.Net Gama.Cov.YSign
attribute [local instance 2000] scalarOfField

/-- **the row sign by cluster position is the row sign by class**: for a problem assembled from `net`
    (`np.clusters = npClusters net`), the sign `rowSig` that `C07_mirror_sigma` conjugates the covariance matrix with is,
    for every row `s`, `kSgn` of the class of the `s`-th revised observation — the `D_s` of `C07_mirror_of_pass` -/
theorem C07_row_sign_link [SqrtFn ℝ] (net : PE.Net ℝ) (np : NetProblem ℝ) (h : np.clusters = npClusters net) :
    (dimsN np).sum = (revisedObs net).length ∧
    ∀ s : Nat, s < (revisedObs net).length →
      (C07Sig.rowSig (signedClusters net) (dimsN np) s : ℝ) = kSgn (((revisedObs net).map (·.kind)).getD s .distance) := by
  have hd := dimsN_of_clusters net np h
  exact ⟨by rw [hd]; exact dims_sum net, fun s hs => rowSig_eq_kSgn net _ hd s hs⟩

/-- **`Σ' = D_s Σ D_s` for what the two calls hand over.**  `(np, u)`, `(np', u')` the outputs of `project_equations()` on
    `net` and on its mirrored description; every cluster a well-formed band matrix of the dimension of its observation
    list (the parser's guarantee).  Then the covariance matrices of the active observations — the matrices the
    `LocalNetwork` theorems of C01 / C03 / C09 take their weights from — satisfy
    `Σ'(s,t) = s_s · Σ(s,t) · s_t` with `s_i = kSgn` of the class of the `i`-th revised observation: EXACTLY the `D_s` of
    `C07_mirror_of_pass` / `C07_mirror_of_project_equations_partial`; both problems have the same block dimensions,
    `Σ dims = m`, and the same `m_0_apr_` (so the cofactor matrices `Σ/m0²` are conjugate too, and
    `Σ Pc = 1 ⇒ Σ' (D_s Pc D_s) = 1`: the weights `D_s P D_s` of the mirror theorem are the weights of the mirrored
    description).  Hypothesis `hdeg` as in `C07_mirror_same_course`. -/
theorem C07_mirror_sigma_of_project_equations [SqrtFn ℝ] (hdeg : DegenInv) (net : PE.Net ℝ) (np np' : NetProblem ℝ)
    (u u' : Unknowns ℝ) (hall : RegAll net)
    (hpe : projectEquations net = .ok (np, u)) (hpe' : projectEquations (mirNet net) = .ok (np', u'))
    (hwf : ∀ c ∈ u.net.clusters, c.cov.WF ∧ c.cov.dim = c.obs.length) :
    ∃ hm : np'.m = np.m, np'.m0 = np.m0 ∧ dimsN np' = dimsN np ∧ (dimsN np).sum = np.m ∧
      ∀ s t : Fin np.m, Sigma np' (Fin.cast hm.symm s) (Fin.cast hm.symm t) =
        kSgn (((revisedObs u.net).map (·.kind)).getD s.val .distance) * Sigma np s t *
          kSgn (((revisedObs u.net).map (·.kind)).getD t.val .distance) := by
  obtain ⟨b, b', Pb, _, hm, _, _, _, hc, hc', _⟩ :=
    Props.C07Mirror.C07_mirror_of_project_equations_partial hdeg net np np' u u' hall hpe hpe'
  obtain ⟨hi, _, _, _⟩ := Props.C07Mirror.C07_mirror_same_course hdeg net np np' u u' hall hpe hpe'
  have h1 : np.clusters = (signedClusters u.net).map (·.2) := by rw [hc, clusters_signed]
  have h2 : np'.clusters = (signedClusters u.net).map C07Sig.conj := by rw [hc', clusters_conj]
  have hlen : (revisedObs u.net).length = np.m := Pb.m.symm
  obtain ⟨hL1, hL2⟩ := C07_row_sign_link u.net np hc
  have hdim : (dimsN np).sum = np.m := by rw [hL1, hlen]
  have hwfL : ∀ p ∈ signedClusters u.net, p.2.cov.WF ∧ p.2.cov.dim ≤ p.1.length ∧ p.2.active.length ≤ p.2.cov.dim := by
    intro p hp
    unfold signedClusters at hp
    obtain ⟨c, hcm, rfl⟩ := List.mem_map.1 hp
    obtain ⟨w, d⟩ := hwf c hcm
    refine ⟨w, ?_, ?_⟩
    · show c.cov.dim ≤ (msOf c).length
      unfold msOf; rw [List.length_map, d]
    · show (c.obs.map (·.active)).length ≤ c.cov.dim
      rw [List.length_map, d]
  obtain ⟨hd', _, hS⟩ := Props.C07MirrorSigma.C07_mirror_sigma np np' (signedClusters u.net) h1 h2 hm hdim hwfL
  refine ⟨hm, ?_, hd', hdim, ?_⟩
  · rw [pe_m0 _ _ _ hpe', pe_m0 _ _ _ hpe, hi]; rfl
  · intro s t
    rw [hS s t, hL2 s.val (by rw [hlen]; exact s.isLt), hL2 t.val (by rw [hlen]; exact t.isLt)]

end Gama.Props.C07MirrorLink
