/-
  C05 (consistency of duplicated models; notes/CLAUSES.md cross-cutting item 2).

  Several builders modelled the same C++ independently.  The theorems here relate those models, so
  that a statement proved about one of them is a statement about the others, and so that they
  cannot drift apart unnoticed (a change of any of them breaks a proof in this file).

  * `bearing_distance` (bearing.cpp): `Gen.Lin.bearingDistance` (regenerated from the C++ on every
    run; C05/C06/C07), `Bearing.bearingDistance` (hand-written; C18), `Cogo.bearingDistance`
    (hand-written; C06).
  * numbering of the unknowns by `LocalNetwork::project_equations()`: `Lin.IdxState / runEvs / passFrom`
    (C05: events of the regenerated member functions) and `MinX.Num / touchG / number / reset`
    (C08: hand-written reference lists `MinX.Obs.refs`, guards `MinX.live`).
  * `PointData::xNorthAngle()`: the hand-written table `Lin.xNorthGon` (Model/LinTypes.lean, used by
    drivers of C05/C06/C07 so far) and the regenerated `Gen.XNorth.xNorthGon`.
-/
import Gama.Lemmas.Consistency
import Gama.Lemmas.LinXNorth
import Gama.Lemmas.GeoReal
import Gama.Lemmas.C06Real
namespace Gama.Props.C05Consistency
open Gama Gama.Lin

/-- the three models of `bearing_distance` are one function: for all inputs, on every carrier on
    which the three signatures (`TrigScalar`, `Scalar + Transc`, `Scalar + Trig`) name the same
    `atan2` and `M_PI`.  The only textual difference is `h0`: the regenerated model returns the
    converted literal `Scalar.ofNat 0` inside the cut and compares the angle with it, the hand-written
    ones write the `Zero` of the carrier (the C++ has the `int` literal `0` converted to `double`). -/
theorem C05_bearing_distance_models_agree {K : Type} [TrigScalar K] [Trig K] [Transc K]
    (h0 : (Scalar.ofNat 0 : K) = 0)
    (hT : ∀ y x : K, Trig.atan2 y x = TrigScalar.atan2 y x) (hTp : (Trig.pi : K) = TrigScalar.pi)
    (hC : ∀ y x : K, Transc.atan2 y x = TrigScalar.atan2 y x) (hCp : (Transc.pi : K) = TrigScalar.pi)
    (ya xa yb xb : K) :
    Bearing.bearingDistance ya xa yb xb = Gen.Lin.bearingDistance ya xa yb xb ∧
    Cogo.bearingDistance ya xa yb xb = Gen.Lin.bearingDistance ya xa yb xb :=
  Lin.bearingDistance_models_agree h0 hT hTp hC hCp ya xa yb xb

/-- **the three models over ℝ, concretely**: with the ONE `Scalar ℝ` (`Gama.instScalarReal`,
    `Lemmas/RealScalar.lean`) and the ℝ instances of the three libm signatures that the property
    theorems use — `Gama.instTrigScalarReal` (C05/C07, `Lemmas/LinSpec.lean`), `Gama.instTranscReal`
    (C17/C18, `Lemmas/GeoReal.lean`), `Gama.C06R.instTrigReal` (C06, `Lemmas/C06Real.lean`) — the three
    models of `bearing_distance` are the same function ℝ⁴ → ℝ².  No hypothesis is left: the three
    instances name the same `atan2 y x = arg (x + y i)` and `M_PI = π` by definition, so a theorem of
    C18 or C06 about its hand-written model is a theorem about the regenerated one. -/
theorem C05_bearing_distance_models_agree_real (ya xa yb xb : ℝ) :
    @Bearing.bearingDistance ℝ instScalarReal instTranscReal ya xa yb xb
      = @Gen.Lin.bearingDistance ℝ instTrigScalarReal ya xa yb xb ∧
    @Cogo.bearingDistance ℝ instScalarReal C06R.instTrigReal ya xa yb xb
      = @Gen.Lin.bearingDistance ℝ instTrigScalarReal ya xa yb xb :=
  @C05_bearing_distance_models_agree ℝ instTrigScalarReal C06R.instTrigReal instTranscReal
    (Nat.cast_zero) (fun _ _ => rfl) rfl (fun _ _ => rfl) rfl ya xa yb xb

/-- at `Float`, where the drivers execute the three models next to the C++, the instances meet the
    `atan2` / `M_PI` hypotheses by definition (same libm function, same 21-digit literal) -/
theorem C05_float_instances_agree :
    (∀ y x : Float, (Trig.atan2 y x : Float) = TrigScalar.atan2 y x) ∧ ((Trig.pi : Float) = TrigScalar.pi) ∧
    (∀ y x : Float, (Transc.atan2 y x : Float) = TrigScalar.atan2 y x) ∧ ((Transc.pi : Float) = TrigScalar.pi) :=
  Lin.float_instances_agree

/-- C08's hand-written reference list of an observation is the touch list of the regenerated member
    function (same unknowns, same order), and in EVERY regime a member function that returns touches
    exactly the adjusted ones of that list -/
theorem C05_minx_refs_are_generated_touches (ob : NObs ℝ) (fuel : Nat) (o : Obs ℝ) (out : LinOut ℝ)
    (hok : ob.kind.lin fuel o = .ok out) :
    ob.toMinX.refs = ob.kind.touchList.map (unkOf ob) ∧ touches out.evs = ob.kind.touchList.filter (freeAt o) :=
  ⟨Lin.refs_eq_touchList ob, Lin.touches_of_ok ob.kind fuel o out hok⟩

/-- **same indices for the same observation list**: from corresponding index states (`Sim`: same
    counter, same index for every unknown) a pass of C05's model that does not throw and the numbering
    loop of C08's model end in corresponding states -/
theorem C05_numbering_models_agree (σ : Net ℝ) (pts : List MinX.PtS) (hfl : FlagsAgree σ pts) (fuel : Nat)
    (obs : List (NObs ℝ)) (s : IdxState) (n : MinX.Num) (res : PassOut ℝ) (h : Sim s n)
    (hp : passFrom σ fuel obs s = .ok res) :
    res.idx.maxn = (MinX.number pts (obs.map NObs.toMinX) n).maxn ∧
    ∀ u, res.idx.get (toLin u) = (MinX.number pts (obs.map NObs.toMinX) n).idx u :=
  Lin.numbering_models_agree σ pts hfl fuel obs s n res h hp

/-- the prologue of `project_equations` in the two models (`IdxState.resetPass` with the guard
    `active_xy() || active_z()` vs `MinX.reset`) maps corresponding index fields to corresponding states -/
theorem C05_reset_models_agree (pts : List MinX.PtS) (s : IdxState) (idx : MinX.Unk → Nat)
    (h : ∀ u, s.get (toLin u) = idx u) :
    Sim (s.resetPass (fun p => (MinX.xyOf pts p).active || (MinX.zOf pts p).active)) (MinX.reset pts idx) :=
  Lin.reset_models_agree pts s idx h

/-- the hand-written `xNorthAngle` table equals the regenerated one in all 16 combinations -/
theorem C05_xnorth_models_agree : ∀ (cs : CS) (rh : Bool), (Lin.xNorthGon cs rh : Int) = Gen.XNorth.xNorthGon cs rh :=
  Lin.xNorthGon_models_agree

/-! ## non-vacuity -/

/-- all five hypotheses of `C05_bearing_distance_models_agree` hold together on ℝ with the instances
    of the other two signatures taken from C05's (`atan2 y x = arg (x + iy)`, `M_PI = π`) -/
example : ∃ (_ : Trig ℝ) (_ : Transc ℝ), (Scalar.ofNat 0 : ℝ) = 0 ∧
    (∀ y x : ℝ, Trig.atan2 y x = TrigScalar.atan2 y x) ∧ ((Trig.pi : ℝ) = TrigScalar.pi) ∧
    (∀ y x : ℝ, Transc.atan2 y x = TrigScalar.atan2 y x) ∧ ((Transc.pi : ℝ) = TrigScalar.pi) :=
  ⟨⟨Real.sin, Real.cos, TrigScalar.atan2, Real.arccos, Real.tan, TrigScalar.pi⟩,
   ⟨Real.sin, Real.cos, fun x => x, TrigScalar.atan2, Real.exp, Real.log, fun x _ => x, TrigScalar.pi⟩,
   by simp, fun _ _ => rfl, rfl, fun _ _ => rfl, rfl⟩

/-- corresponding states exist and stay corresponding under an allocation (`Sim`, hypothesis of
    `C05_numbering_models_agree`) -/
example : Sim IdxState.init ⟨0, fun _ => 0⟩ ∧
    Sim (IdxState.init.touch (toLin (.x 3))) (MinX.touch ⟨0, fun _ => 0⟩ (.x 3)) ∧
    (IdxState.init.touch (toLin (.x 3))).get ⟨3, .x⟩ = 1 := by
  have h : Sim IdxState.init ⟨0, fun _ => 0⟩ := ⟨rfl, fun _ => rfl⟩
  exact ⟨h, h.touch _, by decide⟩

/-- `FlagsAgree` is satisfiable with an adjusted point on both sides -/
example : ∃ (σ : Net ℝ) (pts : List MinX.PtS), FlagsAgree σ pts ∧ (σ.pt 0).free_xy = true := by
  refine ⟨{ pt := fun i => if i = 0 then ⟨0, 0, 0, .free, .unused⟩ else ⟨0, 0, 0, .unused, .unused⟩, ori := fun _ => 0, xNorth := 0 },
    [⟨"a", .free, .unused⟩], ?_, by simp [Pt.free_xy, Status.isFree]⟩
  intro p
  cases p with
  | zero => simp [MinX.xyOf, MinX.zOf, Pt.free_xy, Pt.free_z, Status.isFree, NetDecision.CStat.adjusted]
  | succ n => simp [MinX.xyOf, MinX.zOf, Pt.free_xy, Pt.free_z, Status.isFree, NetDecision.CStat.adjusted]

end Gama.Props.C05Consistency
