/-
  C16 (continued) — the packed envelope kernels equal the DENSE functional model of the
  envelope solver (`Gama/Model/Ls/Env/Core.lean`, used by the C01–C04/C20 theorems about
  `AdjEnvelope`).  That file states "packed profile storage = dense is property C16's
  obligation": these theorems discharge it.  Lemmas: Gama/Lemmas/EnvelopeLsBridge.lean.

  Two `Scalar` structures of the same ordered field occur: `ordFieldScalar K sq` (C16 side) and
  `Gama.fieldScalar sq` (solver side, `Lemmas/Ls/ScalarLaws.lean`); both ARE the field
  operations (they differ in how `abs` is written).
-/
import Gama.Props.C16
import Gama.Lemmas.EnvelopeLsBridge
namespace Gama.Props.C16
open Gama

section
variable {K : Type} [Field K] [LinearOrder K] [IsStrictOrderedRing K] (sq : K → K)

/-- End to end: for every well-formed sparse `A` (also without columns: no hypothesis `0 < A.cols` any more),
    every valid ordering `o`, `tol > 0`, the
    packed `Envelope(A, graph(A), o)` after `cholDec(tol)` holds the factor computed by the
    solver model's dense `Ls.Env.ldl` on the permuted normal matrix (L, D with exact zeros,
    defect); `solve` equals `Ls.Env.solve`; `inverse` equals `Ls.Env.zEntry` inside the profile. -/
theorem C16_envelope_refines_ls_dense (A : SMat K) (hA : A.WF) (o : SOrdering) (ho : o.IsPerm A.cols)
    (tol : K) (htol : 0 < tol) :
    let S := ordFieldScalar K sq
    let T := Gama.fieldScalar sq
    let F := @Env.cholDec K S (@Env.ofSparse K S A (graphOf A) o) tol
    let N' : Nat → Nat → K := fun i j => @Dense.get K S (@Dense.normal K S A o.invp A.cols) i j
    let rows := @Ls.Env.ldl K T N' tol A.cols
    (∀ i j, 1 ≤ j → j < i → i ≤ A.cols → @Env.entry K S F i j = @Ls.Env.Lget K T rows (i - 1) (j - 1)) ∧
    (∀ i, 1 ≤ i → i ≤ A.cols → @Env.diagonal K S F i = @Ls.Env.Dget K T rows (i - 1)) ∧
    F.defect = Ls.Env.defectOf rows ∧
    (∀ b : Array K, b.size = A.cols →
      @Env.solve K S F b A.cols = @Ls.Env.solve K T rows A.cols (fun i => b.getD i 0)) ∧
    (∀ i j, 1 ≤ j → j ≤ i → i ≤ A.cols → i - j ≤ @Env.width K F i →
      @Env.entry K S (@Env.inverse K S F) i j = @Ls.Env.zEntry K T rows A.cols (i - 1) (j - 1)) := by
  intro S T F N' rows
  by_cases hpos : 0 < A.cols
  swap
  · -- no columns (`C16_no_columns`): `Envelope::set` leaves the empty envelope, every loop has zero iterations
    have h0 : A.cols = 0 := by omega
    have hF : F = Env.empty := by
      show @Env.cholDec K S (@Env.ofSparse K S A (graphOf A) o) tol = _
      rw [@Env.ofSparse_zero K S A _ o h0]; rfl
    refine ⟨fun i j h1 h2 h3 => by omega, fun i h1 h2 => by omega, ?_, ?_, fun i j h1 h2 h3 => by omega⟩
    · show F.defect = Ls.Env.defectOf (@Ls.Env.ldl K T N' tol A.cols)
      rw [hF, h0]; rfl
    · intro b hb
      show @Env.solve K S F b A.cols = @Ls.Env.solve K T (@Ls.Env.ldl K T N' tol A.cols) A.cols (fun i => b.getD i 0)
      have hb0 : b = #[] := Array.eq_empty_of_size_eq_zero (by omega)
      rw [hF, h0, hb0]; rfl
  have hE := @Env.ofSparse_profileOK K S A (graphOf A) o hA (graphOf_nodes A) (graphOf_adjOf A hA) ho hpos
  have hdim : (@Env.ofSparse K S A (graphOf A) o).dim = A.cols := @Env.ofSparse_dim K S A _ o
  have hN : ∀ i j, 1 ≤ j → j ≤ i → i ≤ (@Env.ofSparse K S A (graphOf A) o).dim →
      @Env.entry K S (@Env.ofSparse K S A (graphOf A) o) i j =
        @Dense.get K S (@Dense.normal K S A o.invp A.cols) (i - 1) (j - 1) := by
    intro i j hj hji hi
    rw [hdim] at hi
    exact Env.ofSparse_entry sq hA (graphOf_nodes A) (graphOf_adjOf A hA) ho (by omega) hi hj (by omega)
  obtain ⟨h1, h2, h3⟩ := EnvLsBridge.packed_ldl_eq_ls sq hE _ tol htol hN
  have h4 := fun b hb => EnvLsBridge.packed_solve_eq_ls sq hE _ tol htol hN b hb
  have h5 := fun i j hj hji hi hp => EnvLsBridge.packed_inverse_eq_ls sq hE _ tol htol hN i j hj hji hi hp
  have hw : ∀ i, @Env.width K F i = @Env.width K (@Env.ofSparse K S A (graphOf A) o) i := by
    intro i
    have hx := (EnvLDL.cholDec_profileOK sq hE tol).2.1
    simp only [Env.width, Env.rowEnd, Env.rowBegin]
    rw [show F.xenv = (@Env.ofSparse K S A (graphOf A) o).xenv from hx]
  rw [hdim] at h1 h2 h3 h4 h5
  exact ⟨h1, h2, h3, h4, fun i j hj hji hi hp => h5 i j hj hji hi (by rw [← hw i]; exact hp)⟩

/-- The permuted normal matrix of the sparse `A` (C16's `Dense.normal`, 1-based `invp`) is the
    normal matrix the solver model builds from the dense design matrix with permuted columns
    (`Ls.Env.factor`: `N i j = Σ_r Ã(r, perm0 i) · Ã(r, perm0 j)`, 0-based `perm0`). -/
theorem C16_normal_matrix_eq_ls (A : SMat K) (hA : A.WF) (o : SOrdering) (ho : o.IsPerm A.cols)
    (At : Ls.DMat K) (hAt : EnvLsBridge.IsDenseOfWith sq A At) (perm0 : Array Nat)
    (hp0 : ∀ i, i < A.cols → perm0.getD i 0 = o.perm[i + 1]! - 1)
    (i j : Nat) (hi : i < A.cols) (hj : j < A.cols) :
    @Dense.get K (ordFieldScalar K sq) (@Dense.normal K (ordFieldScalar K sq) A o.invp A.cols) i j =
      @Ls.Env.sumTo K (Gama.fieldScalar sq) A.rows (fun r =>
        @Ls.Env.mget K (Gama.fieldScalar sq) At r (perm0.getD i 0) *
        @Ls.Env.mget K (Gama.fieldScalar sq) At r (perm0.getD j 0)) := by
  refine EnvLsBridge.normal_eq_ls sq A o ho ?_ At hAt perm0 hp0 i j hi hj
  intro r hr1 hr2 q hq
  exact Env.rowCols_range hA hr1 hr2 (List.mem_map.mpr ⟨q, hq, rfl⟩)

/-- non-vacuity: the canonical dense matrix of a sparse matrix satisfies the hypothesis -/
example (A : SMat K) : EnvLsBridge.IsDenseOfWith sq A (@EnvLsBridge.denseOf K _ _ ⟨sq⟩ A) :=
  EnvLsBridge.denseOf_isDenseOfWith sq A

end
end Gama.Props.C16
