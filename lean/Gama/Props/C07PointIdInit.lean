/-
  C07 — `PointID::init` (lib/gnu_gama/local/pointid.cpp) as a REGENERATED function
  (Gen/PointIdInit.lean, tools/gen/c07_pointid_init.py: one line per C++ statement, in source order)
  tied to the hand model `PointId.init` of Model/PointIdBase.lean on which the order theorems of
  Props/C07.lean rest.  A changed statement of the C++ (`if (prev && curr) continue;` → `if (curr) continue;`,
  `if (tmp < 0) return;` → `if (tmp <= 0) return;`, another blank literal, a dropped `prev = curr;` …)
  changes the generated definition and `C07_pointid_init_source_tie` no longer checks.
-/
import Gama.Lemmas.PointIdGenTie

namespace Gama.Props.C07PointIdInit
open Gama

/-- the hand model of `PointID::init` is the function read from the source, for every byte string -/
theorem C07_pointid_init_source_tie : ∀ s : PointId.Bytes, PointId.init s = Gen.PointIdInit.init s :=
  PointId.init_eq_gen

/-- the loop read from the source, from ANY state (`prev`, accumulated `sid`): it appends to `sid` the
    white-space-collapsed rest of the string (`collapse prev s`) -/
theorem C07_pointid_init_loop : ∀ (s : PointId.Bytes) (st : Gen.PointIdInit.LoopState),
    (s.foldl Gen.PointIdInit.loopBody st).sid = st.sid ++ PointId.collapse st.prev s :=
  PointId.foldl_loopBody_sid

/-- on the generated function: `sid` is the normalised string whatever happens with `iid` (every early
    `return` comes after the loop and the `pop_back`) -/
theorem C07_pointid_init_sid (s : PointId.Bytes) : (Gen.PointIdInit.init s).sid = PointId.normalize s :=
  PointId.gen_sid s

/-- on the generated function: a non-zero `iid` means the normalised string is accepted by `IsInteger`,
    spells a positive `long`, `iid` is that value, and printing `iid` gives `sid` back
    (`sid` is the canonical decimal spelling of `iid`) -/
theorem C07_pointid_init_numeric (s : PointId.Bytes) (h : (Gen.PointIdInit.init s).iid ≠ 0) :
    PointId.isInteger (PointId.normalize s) = true ∧ 0 < PointId.parseLong (PointId.normalize s) ∧
    (Gen.PointIdInit.init s).iid = (PointId.parseLong (PointId.normalize s)).toNat ∧
    (Gen.PointIdInit.init s).sid = PointId.renderNat (Gen.PointIdInit.init s).iid := by
  obtain ⟨h1, h2, h3, h4⟩ := PointId.gen_iid_ne_zero h
  exact ⟨h1, h2, h3, by rw [PointId.gen_sid, h4]⟩

/-- the regenerated comparison on identifiers built by the regenerated `init` is trichotomous
    (`Valid` of Lemmas/C07PointId.lean carried over the tie) -/
theorem C07_pointid_init_trichotomy (s t : PointId.Bytes) :
    PointId.lt (Gen.PointIdInit.init s) (Gen.PointIdInit.init t) = true ∨
      Gen.PointIdInit.init s = Gen.PointIdInit.init t ∨
      PointId.lt (Gen.PointIdInit.init t) (Gen.PointIdInit.init s) = true :=
  PointId.gen_lt_trichotomy s t

-- non-vacuity of `C07_pointid_init_numeric`: " 12 " has iid 12 ≠ 0
example : (Gen.PointIdInit.init [32, 49, 50, 32]).iid ≠ 0 := by decide

-- " 12 " → iid 12, sid "12"
example : Gen.PointIdInit.init [32, 49, 50, 32] = ⟨12, [49, 50]⟩ := by decide
-- "01" → iid 0 (not the canonical spelling), sid "01"
example : Gen.PointIdInit.init [48, 49] = ⟨0, [48, 49]⟩ := by decide
-- "a  b" → "a b";  " a \t\n b " → "a b"
example : Gen.PointIdInit.init [97, 32, 32, 98] = ⟨0, [97, 32, 98]⟩ := by decide
example : Gen.PointIdInit.init [32, 97, 32, 9, 10, 32, 98, 32] = ⟨0, [97, 32, 98]⟩ := by decide
-- "0", "-5", "+7", "", " " → iid 0
example : (Gen.PointIdInit.init [48]).iid = 0 ∧ (Gen.PointIdInit.init [45, 53]).iid = 0 ∧
    (Gen.PointIdInit.init [43, 55]) = ⟨0, [43, 55]⟩ ∧ Gen.PointIdInit.init [] = ⟨0, []⟩ ∧
    Gen.PointIdInit.init [32] = ⟨0, []⟩ := by decide
-- the loop from a state in the middle of a word: prev = false keeps the first blank
example : ([32, 32, 98].foldl Gen.PointIdInit.loopBody ⟨[97], 97, false, false⟩).sid = [97, 32, 98] := by decide

end Gama.Props.C07PointIdInit
