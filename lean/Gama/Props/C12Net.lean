/-
  C12 / C03 row 11 — the network clause WITHOUT the hypothesis `hori`: for the unknown list that
  `LocalNetwork::project_equations()` builds (b-PE's executable model `PE.projectEquations`,
  Model/ProjectEquations.lean; `C12_pe_hori`, Props/C01/ProjectEquations.lean), every orientation unknown `i`
  belongs to the stand-point whose `index_orientation()` is `i`, so `C03_xml_cov_is_m0sq_Q` applies to the
  orientation records the XML writer derives from `unknowns_` (`orisOf u`).

  A separate file because Props/C01/ProjectEquations.lean imports Props/C12.lean.
-/
import Gama.Props.C12
import Gama.Props.C01.ProjectEquations
namespace Gama.Props.C12
open Gama Gama.Lin Gama.PE Gama.CovBand

/-- `hori` holds for the orientation records of the unknown list `project_equations()` returns -/
theorem C12_hori_of_project_equations {K : Type} [TrigScalar K] (net : PE.Net K) (np : Ls.Net.NetProblem K)
    (u : Unknowns K) (h : projectEquations net = .ok (np, u)) :
    ∀ o ∈ orisOf u, o.standpointIndex = o.i := by
  intro o ho
  obtain ⟨ej, hej, hf⟩ := List.mem_filterMap.mp ho
  have hget := List.mem_zipIdx_iff_getElem?.mp hej
  rcases ej with ⟨e, j⟩
  simp only at hf hget
  rcases e with _ | ⟨pid, ty, ori⟩
  · cases hf
  · cases ty <;> rcases ori with _ | k <;> simp only at hf <;> try cases hf
    exact Props.C01.C12_pe_hori net np u h j pid k hget

/-- **C03 row 11 for the network `project_equations()` assembled** — no index hypothesis: with the orientation
    records `orisOf u` of the unknown list, the value streamed at the regenerated covariance site is
    `m0²·Q(ind[i],ind[j])`, it is written on the band, read back exactly, and `<original-index>` is `ind[]` -/
theorem C03_xml_cov_is_m0sq_Q_of_project_equations {K : Type} [TrigScalar K] {R : Type} [CommRing R]
    (net : PE.Net K) (np : Ls.Net.NetProblem K) (u : Unknowns K) (h : projectEquations net = .ok (np, u))
    (Q : Nat → Nat → R) (m0 : R) (pts : List Pt) (band : Int) (hb : -1 ≤ band)
    (g : FormatExpr.Group) (e : FormatExpr.Entry) (he : XmlCovSite.IsCovXml g e)
    (inv : Nat → R) (ρ : Nat → Nat → Nat → R) :
    let ind := indList pts (orisOf u)
    let dim := ind.length
    let cov : Nat → Nat → R := fun i j => FormatExpr.eval inv (ρ i j) e.expr
    (∀ i j, ρ i j XmlCovSite.aM0 = m0) →
    (∀ i j, ρ i j XmlCovSite.aQxx = Q (ind.getD (i - 1) 0) (ind.getD (j - 1) 0)) →
    (∀ i j, cov i j = m0 * m0 * Q (ind.getD (i - 1) 0) (ind.getD (j - 1) 0)) ∧
    (write cov dim band).flt = emitFlt cov dim (clip band dim) ∧
    (∃ C : CovMat R, read (write cov dim band) = .ok C ∧ C.dim = dim ∧ C.band = clip band dim ∧
      ∀ i j, 1 ≤ i → i ≤ dim → 1 ≤ j → j ≤ dim → get C i j = bandOf cov (clip band dim) i j) ∧
    originalIndex pts (orisOf u) = ind :=
  C03_xml_cov_is_m0sq_Q Q m0 pts (orisOf u) (C12_hori_of_project_equations net np u h) band hb g e he inv ρ

/-- non-vacuity of the hypothesis `projectEquations net = .ok (np, u)`: b-PE's example network (a levelling line
    over ℚ, Lemmas/ProjectEquationsExample.lean) -/
example : ∃ np u, @projectEquations ℚ PE.Ex.trigQ PE.Ex.net2 = .ok (np, u) := PE.Ex.net2_ok

end Gama.Props.C12
