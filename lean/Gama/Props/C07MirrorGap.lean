/-
  C07 — the input-side solver hypothesis of the façade theorems is invariant under the mirror (round 13, item 3, first
  half).  `InputGap alg A P S τ` (`Lemmas/Ls/InputGap.lean`) is THE solver hypothesis of the `_gap` theorems of
  C01 / C02 / C03 / C08 / C09 at `LocalNetwork`; for the system of the mirrored description (`A' = D_s A D_t`,
  `P' = D_s P D_s`: `C07_mirror_of_project_equations`, `C07_mirror_sigma_of_project_equations_full`; the same
  regularisation list `min_x_`) it holds whenever it holds for the original system, with the same `τ`.
  The statistics of the mirrored system (C09's `_gap` theorems applied to both systems, `C07_cofactor_transport`,
  `C07_mirrored_ellipse_is_eigen`) are NOT in this file.
-/
import Gama.Lemmas.C07MirrorGap
namespace Gama.Props.C07MirrorGap
open Gama Gama.Ls Gama.LS Matrix

/-- the three ingredients, every ordered field: the Schur pivots of `AᵀPA` in every elimination order (`GapAllP`), the
    margin with which the regularisation subset resolves the defect (`SMargin`: `ker A' = D_t ker A`, norms and the
    `S`-part of the norm unchanged), the eigenvalue gap of `AᵀPA` (`SingGap`: `A'ᵀP'A' = D_t (AᵀPA) D_t` has the same
    eigenvalues) -/
theorem C07_gap_conditions_mirrored {K : Type} [Field K] [LinearOrder K] [IsStrictOrderedRing K] {m n : ℕ}
    (A : Matrix (Fin m) (Fin n) K) (P : Matrix (Fin m) (Fin m) K) (S : Finset (Fin n)) (τ : K)
    (s : Fin m → K) (t : Fin n → K) (hs : ∀ i, s i * s i = 1) (ht : ∀ j, t j * t j = 1) :
    (GapAllP A P τ → GapAllP (diagonal s * A * diagonal t) (diagonal s * P * diagonal s) τ) ∧
    (SMargin A S τ → SMargin (diagonal s * A * diagonal t) S τ) ∧
    (SingGap A P τ → SingGap (diagonal s * A * diagonal t) (diagonal s * P * diagonal s) τ) :=
  ⟨C07Gap.gapAllP_mirror A P s t hs ht τ, C07Gap.sMargin_mirror A s t hs ht S τ, C07Gap.singGap_mirror A P s t hs ht τ⟩

section
variable {K : Type} [Field K] [LinearOrder K] [IsStrictOrderedRing K] [Gso.SqrtField K] {m n : ℕ}
attribute [local instance] sqrtFnOfSqrtField
attribute [local instance 2000] scalarOfField

/-- **`InputGap` of the mirrored system**, every algorithm (envelope, cholesky, gso: `GapThresholds τ ∧ RankGap`; svd:
    `wTol ≤ τ ∧ SingGap`), same subset, same `τ` -/
theorem C07_input_gap_mirrored (alg : Alg) (A : Matrix (Fin m) (Fin n) K) (P : Matrix (Fin m) (Fin m) K)
    (S : Finset (Fin n)) (τ : K) (s : Fin m → K) (t : Fin n → K) (hs : ∀ i, s i * s i = 1) (ht : ∀ j, t j * t j = 1)
    (h : InputGap alg A P S τ) :
    InputGap alg (diagonal s * A * diagonal t) (diagonal s * P * diagonal s) S τ :=
  C07Gap.inputGap_mirror alg A P S τ s t hs ht h

end

/-- **the least-squares solution of the mirrored system IS the mirrored solution** (uniqueness half of the statistics
    of the mirrored system; every ordered field).  `P` positive definite, `S` resolving the defect of `A` (both follow
    from `InputGap` and `Σ Pc = 1` at `LocalNetwork`: `RankGap.resolves`, `C01_net_prepare`).  Then WHATEVER satisfies
    the specification `IsLSSolution` on the system of the mirrored description — in particular the answer of any of the
    four solver models on it — is `(D_t x, D_s v, Φ)` for the solution `(x, v, Φ)` of the original system: coordinates
    with `y` and orientation corrections negated, residuals of the negated observation classes negated, the SAME
    `[pvv]`; and by `C07_input_gap_mirrored` the solvers' hypothesis on the mirrored system is the one on the original.
    (NOT done: the instantiation at the two `netSolve` answers on the outputs of `project_equations()` —
    `C07_mirror_solution_of_project_equations` — which needs `(toProblem np').A = D_s (toProblem np).A D_t` in matrix form
    across `np' = { np with rows, rhs, clusters }` and C01's `_gap` façade at the carrier `trigOfField realTrig`.) -/
theorem C07_mirror_solution_unique {K : Type} [Field K] [LinearOrder K] [IsStrictOrderedRing K] {m n : ℕ}
    (A : Matrix (Fin m) (Fin n) K) (b : Fin m → K) (P : Matrix (Fin m) (Fin m) K)
    (S : Finset (Fin n)) (s : Fin m → K) (t : Fin n → K) (hs : ∀ i, s i * s i = 1) (ht : ∀ j, t j * t j = 1)
    (hpd : ∀ d, d ≠ 0 → 0 < d ⬝ᵥ P *ᵥ d) (hS : Resolves A S)
    (x x' : Fin n → K) (v v' : Fin m → K) (rtr rtr' : K)
    (h : IsLSSolution A b P S x v rtr)
    (h' : IsLSSolution (diagonal s * A * diagonal t) (diagonal s *ᵥ b) (diagonal s * P * diagonal s) S x' v' rtr') :
    x' = diagonal t *ᵥ x ∧ v' = diagonal s *ᵥ v ∧ rtr' = rtr :=
  C07Gap.mirror_solution_unique A b P S s t hs ht hpd hS x x' v v' rtr rtr' h h'

/-- `hpd`, `hS` together: unit weights and the identity design matrix with the empty subset -/
example : (∀ d : Fin 1 → ℚ, d ≠ 0 → 0 < d ⬝ᵥ (1 : Matrix (Fin 1) (Fin 1) ℚ) *ᵥ d) ∧
    Resolves (1 : Matrix (Fin 1) (Fin 1) ℚ) (∅ : Finset (Fin 1)) :=
  ⟨fun d hd => by rw [one_mulVec]; exact Ls.dot_self_pos hd, fun g hg _ => by rwa [one_mulVec] at hg⟩

/-- the sign hypotheses are those of `C07_mirror_signs`: `kSgn`, `colSgn ∈ {1, −1}`; e.g. a 2-row, 2-column pattern -/
example : (∀ i : Fin 2, (![1, -1] : Fin 2 → ℚ) i * ![1, -1] i = 1) ∧
    (∀ j : Fin 2, (![-1, 1] : Fin 2 → ℚ) j * ![-1, 1] j = 1) := by
  constructor <;> intro i <;> fin_cases i <;> norm_num

end Gama.Props.C07MirrorGap
